/-
  Edn.Proofs.AllocSimAux3 — refinement, part 3: pure list combinatorics of the duplicate check.

  `dupPairs q xs`: some element is related by `q` to a later one.  `hasDupLinear` and
  `hasDupHashed` are instances.  Shown here, without any hypothesis on the values (in particular
  no symmetry of `q`):
  * the stable insertion sort by cached hash (`sortByHash`) followed by the pairwise check inside
    each run of equal hashes (`runs`) computes `dupPairs` of the hash-restricted relation on the
    unsorted list (`runs_sortByHash`);
  * the element loop of the hash-table strategy (`crossDup`: each element against the earlier ones)
    computes the same (`dupPairs_eq_crossDup`);
  * hashing the elements of a list at an arbitrary sequence of indices and then at every index
    hashes every element exactly once (`hashAtL_all`).
-/
import Edn.Model.ReaderA
import Edn.Proofs.EqualAux7

namespace Edn.Proofs.AllocSim
open Edn.Model Edn.Proofs

/-- some element is `q`-related to a later one -/
def dupPairs (q : Val → Val → Bool) : List Val → Bool
  | [] => false
  | v :: vs => vs.any (q v) || dupPairs q vs

theorem hasDupLinear_eq (cfg : Cfg) (xs : List Val) : hasDupLinear cfg xs = dupPairs (equal cfg) xs := by
  induction xs with
  | nil => rfl
  | cons v vs ih => unfold hasDupLinear dupPairs; rw [ih]

/-- the relation of the hash-restricted strategies -/
def qh (p : Val → Val → Bool) (u w : Val) : Bool := u.hdr.hc == w.hdr.hc && p u w

theorem hasDupHashed_eq (cfg : Cfg) (xs : List Val) : hasDupHashed cfg xs = dupPairs (qh (equal cfg)) xs := by
  induction xs with
  | nil => rfl
  | cons v vs ih => unfold hasDupHashed dupPairs; rw [ih]; rfl

theorem dupPairs_append (q : Val → Val → Bool) (l m : List Val) :
    dupPairs q (l ++ m) = (dupPairs q l || l.any (fun z => m.any (q z)) || dupPairs q m) := by
  induction l with
  | nil => simp [dupPairs]
  | cons v vs ih =>
    rw [List.cons_append, dupPairs, dupPairs, ih, List.any_append, List.any_cons]
    cases vs.any (q v) <;> cases m.any (q v) <;> cases dupPairs q vs <;> simp

theorem dupPairs_snoc (q : Val → Val → Bool) (l : List Val) (v : Val) :
    dupPairs q (l ++ [v]) = (dupPairs q l || l.any (fun z => q z v)) := by
  rw [dupPairs_append]
  simp [dupPairs]

/-! ## the stable sort by cached hash -/

/-- sort key as a natural number -/
def hk (v : Val) : Nat := v.hdr.hc.toNat

theorem hc_beq (u w : Val) : (u.hdr.hc == w.hdr.hc) = decide (hk u = hk w) := by
  unfold hk
  by_cases h : u.hdr.hc = w.hdr.hc
  · simp [h]
  · have : ¬ u.hdr.hc.toNat = w.hdr.hc.toNat := fun e => h (UInt64.toNat_inj.mp e)
    simp [h, this]

def SortedH (l : List Val) : Prop := l.Pairwise (fun u w => hk u ≤ hk w)

theorem qh_of_ne {p : Val → Val → Bool} {u w : Val} (h : hk u ≠ hk w) : qh p u w = false := by
  unfold qh; rw [hc_beq]; simp [h]

theorem any_insertByHash (g : Val → Bool) (v : Val) (l : List Val) :
    (insertByHash v l).any g = (g v || l.any g) := by
  induction l with
  | nil => simp [insertByHash]
  | cons y ys ih =>
    unfold insertByHash
    split
    · simp
    · rw [List.any_cons, ih, List.any_cons]
      cases g y <;> cases g v <;> simp

theorem mem_insertByHash (v z : Val) (l : List Val) : z ∈ insertByHash v l ↔ z = v ∨ z ∈ l := by
  induction l with
  | nil => simp [insertByHash]
  | cons y ys ih =>
    unfold insertByHash
    split
    · simp
    · rw [List.mem_cons, ih, List.mem_cons]
      constructor
      · rintro (h | h | h)
        · exact Or.inr (Or.inl h)
        · exact Or.inl h
        · exact Or.inr (Or.inr h)
      · rintro (h | h | h)
        · exact Or.inr (Or.inl h)
        · exact Or.inl h
        · exact Or.inr (Or.inr h)

theorem sorted_insertByHash (v : Val) (l : List Val) (h : SortedH l) : SortedH (insertByHash v l) := by
  induction l with
  | nil => unfold insertByHash SortedH; exact List.pairwise_singleton _ _
  | cons y ys ih =>
    unfold insertByHash
    have hy := List.pairwise_cons.mp h
    split
    · next hlt =>
      have hlt' : hk v < hk y := UInt64.lt_iff_toNat_lt.mp hlt
      refine List.pairwise_cons.mpr ⟨fun z hz => ?_, h⟩
      rcases List.mem_cons.mp hz with rfl | hz
      · exact Nat.le_of_lt hlt'
      · exact Nat.le_trans (Nat.le_of_lt hlt') (hy.1 z hz)
    · next hlt =>
      have hge : hk y ≤ hk v := Nat.le_of_not_lt (fun e => hlt (UInt64.lt_iff_toNat_lt.mpr e))
      refine List.pairwise_cons.mpr ⟨fun z hz => ?_, ih hy.2⟩
      rcases (mem_insertByHash v z ys).mp hz with rfl | hz
      · exact hge
      · exact hy.1 z hz

theorem dupPairs_insertByHash (p : Val → Val → Bool) (v : Val) (l : List Val) (h : SortedH l) :
    dupPairs (qh p) (insertByHash v l) = dupPairs (qh p) (l ++ [v]) := by
  induction l with
  | nil => rfl
  | cons y ys ih =>
    have hy := List.pairwise_cons.mp h
    unfold insertByHash
    split
    · next hlt =>
      have hlt' : hk v < hk y := UInt64.lt_iff_toNat_lt.mp hlt
      have hne : ∀ z ∈ y :: ys, hk v ≠ hk z := by
        intro z hz
        rcases List.mem_cons.mp hz with rfl | hz
        · exact Nat.ne_of_lt hlt'
        · exact Nat.ne_of_lt (Nat.lt_of_lt_of_le hlt' (hy.1 z hz))
      have e1 : (y :: ys).any (qh p v) = false := by
        rw [List.any_eq_false]; intro z hz; rw [qh_of_ne (hne z hz)]; simp
      have e2 : (y :: ys).any (fun z => qh p z v) = false := by
        rw [List.any_eq_false]; intro z hz; rw [qh_of_ne (fun e => hne z hz e.symm)]; simp
      rw [dupPairs, e1, Bool.false_or, dupPairs_snoc, e2, Bool.or_false]
    · rw [dupPairs, ih hy.2, List.cons_append, dupPairs, any_insertByHash, List.any_append]
      simp [Bool.or_comm]

theorem sortByHash_fold (p : Val → Val → Bool) (xs acc : List Val) (h : SortedH acc) :
    SortedH (xs.foldl (fun acc v => insertByHash v acc) acc) ∧
    dupPairs (qh p) (xs.foldl (fun acc v => insertByHash v acc) acc) = dupPairs (qh p) (acc ++ xs) := by
  induction xs generalizing acc with
  | nil => simp [h]
  | cons v xs ih =>
    rw [List.foldl_cons]
    obtain ⟨s1, s2⟩ := ih (insertByHash v acc) (sorted_insertByHash v acc h)
    refine ⟨s1, ?_⟩
    rw [s2, dupPairs_append, dupPairs_insertByHash p v acc h, any_insertByHash,
      show acc ++ v :: xs = (acc ++ [v]) ++ xs by simp, dupPairs_append (qh p) (acc ++ [v]), List.any_append]
    simp [Bool.or_comm]

theorem sortByHash_spec (p : Val → Val → Bool) (xs : List Val) :
    SortedH (sortByHash xs) ∧ dupPairs (qh p) (sortByHash xs) = dupPairs (qh p) xs := by
  have := sortByHash_fold p xs [] List.Pairwise.nil
  simpa [sortByHash] using this

theorem sortByHash_length (xs : List Val) : (sortByHash xs).length = xs.length := by
  have key : ∀ (v : Val) (l : List Val), (insertByHash v l).length = l.length + 1 := by
    intro v l
    induction l with
    | nil => rfl
    | cons y ys ih => unfold insertByHash; split <;> simp [ih]
  have : ∀ (xs acc : List Val), (xs.foldl (fun acc v => insertByHash v acc) acc).length = acc.length + xs.length := by
    intro xs
    induction xs with
    | nil => intro acc; rfl
    | cons v xs ih => intro acc; rw [List.foldl_cons, ih, key, List.length_cons]; omega
  simpa [sortByHash] using this xs []

/-! ## runs of equal hash -/

/-- the pure counterpart of `runsA` -/
def runs (p : Val → Val → Bool) : Nat → List Val → Bool
  | 0, _ => false
  | _, [] => false
  | f + 1, v :: vs =>
    dupPairs p (v :: vs.takeWhile (·.hdr.hc == v.hdr.hc)) || runs p f (vs.dropWhile (·.hdr.hc == v.hdr.hc))

/-- within a list whose elements all have the same cached hash the restriction is void -/
theorem dupPairs_qh_same (p : Val → Val → Bool) (c : Nat) (l : List Val) (h : ∀ z ∈ l, hk z = c) :
    dupPairs (qh p) l = dupPairs p l := by
  induction l with
  | nil => rfl
  | cons v vs ih =>
    rw [dupPairs, dupPairs, ih (fun z hz => h z (List.mem_cons_of_mem _ hz))]
    congr 1
    apply any_congr_mem
    intro z hz
    unfold qh
    rw [hc_beq, h v List.mem_cons_self, h z (List.mem_cons_of_mem _ hz)]
    simp

theorem split_run (c : UInt64) (vs : List Val) (hs : SortedH vs) (hge : ∀ z ∈ vs, c.toNat ≤ hk z) :
    (∀ z ∈ vs.takeWhile (·.hdr.hc == c), hk z = c.toNat) ∧ (∀ w ∈ vs.dropWhile (·.hdr.hc == c), hk w ≠ c.toNat) := by
  induction vs with
  | nil => simp
  | cons y ys ih =>
    have hy := List.pairwise_cons.mp hs
    by_cases he : (y.hdr.hc == c) = true
    · rw [List.takeWhile_cons_of_pos (p := fun z : Val => z.hdr.hc == c) he, List.dropWhile_cons_of_pos (p := fun z : Val => z.hdr.hc == c) he]
      obtain ⟨i1, i2⟩ := ih hy.2 (fun z hz => hge z (List.mem_cons_of_mem _ hz))
      refine ⟨fun z hz => ?_, i2⟩
      rcases List.mem_cons.mp hz with rfl | hz
      · have : z.hdr.hc = c := by simpa using he
        unfold hk; rw [this]
      · exact i1 z hz
    · rw [List.takeWhile_cons_of_neg (p := fun z : Val => z.hdr.hc == c) he, List.dropWhile_cons_of_neg (p := fun z : Val => z.hdr.hc == c) he]
      refine ⟨fun z hz => absurd hz List.not_mem_nil, fun w hw => ?_⟩
      have hyc : hk y ≠ c.toNat := by
        intro e
        apply he
        have : y.hdr.hc = c := UInt64.toNat_inj.mp e
        simp [this]
      have hlt : c.toNat < hk y := Nat.lt_of_le_of_ne (hge y List.mem_cons_self) (fun e => hyc e.symm)
      rcases List.mem_cons.mp hw with rfl | hw
      · exact hyc
      · exact Nat.ne_of_gt (Nat.lt_of_lt_of_le hlt (hy.1 w hw))

theorem runs_sorted (p : Val → Val → Bool) : ∀ (f : Nat) (l : List Val), SortedH l → l.length < f →
    runs p f l = dupPairs (qh p) l := by
  intro f
  induction f with
  | zero => intro l _ h; exact absurd h (Nat.not_lt_zero _)
  | succ f ih =>
    intro l hs hl
    cases l with
    | nil => rfl
    | cons v vs =>
      have hv := List.pairwise_cons.mp hs
      obtain ⟨s1, s2⟩ := split_run v.hdr.hc vs hv.2 (fun z hz => hv.1 z hz)
      have hsplit : v :: vs = (v :: vs.takeWhile (·.hdr.hc == v.hdr.hc)) ++ vs.dropWhile (·.hdr.hc == v.hdr.hc) := by
        rw [List.cons_append, List.takeWhile_append_dropWhile]
      have hrun : ∀ z ∈ v :: vs.takeWhile (·.hdr.hc == v.hdr.hc), hk z = hk v := by
        intro z hz
        rcases List.mem_cons.mp hz with rfl | hz
        · rfl
        · exact s1 z hz
      have hcross : (v :: vs.takeWhile (·.hdr.hc == v.hdr.hc)).any
          (fun z => (vs.dropWhile (·.hdr.hc == v.hdr.hc)).any (qh p z)) = false := by
        rw [List.any_eq_false]
        intro z hz
        simp only [Bool.not_eq_true]
        rw [List.any_eq_false]
        intro w hw
        rw [qh_of_ne (by rw [hrun z hz]; exact fun e => s2 w hw e.symm)]
        simp
      have hdl : (vs.dropWhile (·.hdr.hc == v.hdr.hc)).length < f := by
        have := (List.dropWhile_sublist (fun z : Val => z.hdr.hc == v.hdr.hc) (l := vs)).length_le
        simp only [List.length_cons] at hl
        omega
      conv => rhs; rw [hsplit]
      rw [runs, dupPairs_append, hcross, Bool.or_false,
        dupPairs_qh_same p (hk v) _ hrun,
        ih _ (List.Pairwise.sublist (List.dropWhile_sublist _) hv.2) hdl]

/-- sorting by cached hash and checking pairwise inside each run decides the hash-restricted
    duplicate relation of the unsorted list -/
theorem runs_sortByHash (p : Val → Val → Bool) (ys : List Val) :
    runs p (ys.length + 1) (sortByHash ys) = dupPairs (qh p) ys := by
  obtain ⟨s1, s2⟩ := sortByHash_spec p ys
  rw [runs_sorted p _ _ s1 (by rw [sortByHash_length]; exact Nat.lt_succ_self _), s2]

/-! ## the element loop of the hash-table strategy -/

/-- each element against the elements before it (`s` = the elements already seen, oldest first) -/
def crossDup (q : Val → Val → Bool) : List Val → List Val → Bool
  | _, [] => false
  | s, v :: r => s.any (fun z => q z v) || crossDup q (s ++ [v]) r

theorem dupPairs_cross (q : Val → Val → Bool) (ys s : List Val) :
    dupPairs q (s ++ ys) = (dupPairs q s || crossDup q s ys) := by
  induction ys generalizing s with
  | nil => simp [crossDup]
  | cons v r ih =>
    rw [show s ++ v :: r = (s ++ [v]) ++ r by simp, ih (s ++ [v]), dupPairs_snoc, crossDup, Bool.or_assoc]

theorem dupPairs_eq_crossDup (q : Val → Val → Bool) (ys : List Val) : dupPairs q ys = crossDup q [] ys := by
  have := dupPairs_cross q ys []
  simpa [dupPairs] using this

/-! ## hashing at a sequence of indices -/

/-- `edn_value_hash` as a function on values -/
def fillC (cfg : Cfg) (v : Val) : Val := (hashOp cfg v).2

theorem fillC_hc_ne (cfg : Cfg) (v : Val) : (fillC cfg v).hdr.hc ≠ 0 := by
  unfold fillC hashOp
  simp only
  split
  · next h => simpa using h
  · rw [hdr_setHdr]; exact cacheOf_ne_zero _

theorem fillC_of_hashed (cfg : Cfg) (v : Val) (h : v.hdr.hc ≠ 0) : fillC cfg v = v := by
  unfold fillC hashOp
  simp [h]

theorem fillC_idem (cfg : Cfg) (v : Val) : fillC cfg (fillC cfg v) = fillC cfg v := fillC_of_hashed cfg _ (fillC_hc_ne cfg v)

/-- the hash returned is the one stored in the value -/
theorem hashOp_fst (cfg : Cfg) (v : Val) : (hashOp cfg v).1 = (fillC cfg v).hdr.hc := by
  unfold fillC hashOp
  simp only
  split
  · rfl
  · rw [hdr_setHdr]

/-- the list form of `hashAtA` without requests -/
def hashAtL (cfg : Cfg) : List Nat → List Val → List Val
  | [], l => l
  | i :: is, l =>
    match l[i]? with
    | none => hashAtL cfg is l
    | some v => hashAtL cfg is (l.set i (fillC cfg v))

theorem hashAtL_get (cfg : Cfg) (is : List Nat) : ∀ (l : List Val) (j : Nat),
    (hashAtL cfg is l)[j]? = (l[j]?).map (fun v => if j ∈ is then fillC cfg v else v) := by
  induction is with
  | nil => intro l j; simp [hashAtL]
  | cons i is ih =>
    intro l j
    unfold hashAtL
    cases hi : l[i]? with
    | none =>
      simp only
      rw [ih]
      by_cases hj : j = i
      · subst hj; rw [hi]; rfl
      · simp [hj]
    | some v =>
      simp only
      rw [ih, List.getElem?_set]
      have hlen : i < l.length := by
        rcases Nat.lt_or_ge i l.length with h | h
        · exact h
        · rw [List.getElem?_eq_none h] at hi; cases hi
      by_cases hj : i = j
      · subst hj
        rw [if_pos rfl, if_pos hlen, hi]
        simp only [Option.map_some, List.mem_cons, true_or, ↓reduceIte]
        split <;> simp [fillC_idem]
      · rw [if_neg hj]
        have hj' : ¬ j = i := fun e => hj e.symm
        simp [hj']

/-- hashing at any indices and then at all of them hashes every element -/
theorem hashAtL_all (cfg : Cfg) (is : List Nat) (xs : List Val) :
    hashAtL cfg (List.range xs.length) (hashAtL cfg is xs) = xs.map (fillC cfg) := by
  apply List.ext_getElem?
  intro j
  rw [hashAtL_get, hashAtL_get, List.getElem?_map]
  cases hj : xs[j]? with
  | none => rfl
  | some v =>
    have hlen : j < xs.length := by
      rcases Nat.lt_or_ge j xs.length with h | h
      · exact h
      · rw [List.getElem?_eq_none h] at hj; cases hj
    simp only [Option.map_some, List.mem_range, hlen, ↓reduceIte]
    split <;> simp [fillC_idem]

theorem hashAtL_length (cfg : Cfg) (is : List Nat) : ∀ (l : List Val), (hashAtL cfg is l).length = l.length := by
  induction is with
  | nil => intro l; rfl
  | cons i is ih =>
    intro l
    unfold hashAtL
    cases l[i]? with
    | none => exact ih l
    | some v => simp only; rw [ih, List.length_set]

end Edn.Proofs.AllocSim
