/-
  Edn.Proofs.Trivia — C13: whitespace, commas, comments and discarded forms in front of a
  form never change what is read; handlers are never invoked inside a discarded form; input
  consisting only of trivia reads as end of input.
-/
import Edn.Proofs.ReaderBasic
import Edn.Proofs.Fuel
import Edn.Proofs.TriviaAux1

namespace Edn.Proofs
open Edn.Model

/-- whitespace bytes, commas and line comments that are closed by a line feed -/
inductive PlainTrivia : Bytes → Prop
  | nil : PlainTrivia []
  | ws (c : UInt8) (t : Bytes) (hw : isWs c = true) : PlainTrivia t → PlainTrivia (c :: t)
  | comment (body t : Bytes) (hb : ∀ b ∈ body, b ≠ 0x0A) : PlainTrivia t → PlainTrivia (0x3B :: (body ++ 0x0A :: t))

def wsNotSemi (c : UInt8) : Bool := !isWs c || !(c == 0x3B)
theorem isWs_not_semi : ∀ c, wsNotSemi c = true := forall_u8_bool _ (by decide +kernel)

theorem skipWsScalarAux_body (body r : Bytes) (hb : ∀ b ∈ body, b ≠ 0x0A) :
    skipWsScalarAux true (body ++ 0x0A :: r) = skipWsScalarAux false r := by
  induction body with
  | nil => simp [skipWsScalarAux]
  | cons b bs ih =>
    have hne : (b == 0x0A) = false := by
      have := hb b (by simp)
      simpa using this
    rw [List.cons_append, skipWsScalarAux]
    simp only [hne, Bool.false_eq_true, ↓reduceIte]
    exact ih (fun x hx => hb x (by simp [hx]))

theorem skipWsScalarAux_trivia (tr s : Bytes) (h : PlainTrivia tr) :
    skipWsScalarAux false (tr ++ s) = skipWsScalarAux false s := by
  induction h with
  | nil => rfl
  | ws c t hw _ ih =>
    have hs : (c == 0x3B) = false := by
      have := isWs_not_semi c
      simpa [wsNotSemi, hw] using this
    rw [List.cons_append, skipWsScalarAux_false_cons]
    simp only [hs, hw, Bool.false_eq_true, ↓reduceIte]
    exact ih
  | comment body t hb _ ih =>
    rw [List.cons_append, skipWsScalarAux_false_cons]
    simp only [beq_self_eq_true, ↓reduceIte]
    rw [List.append_assoc, List.cons_append, skipWsScalarAux_body _ _ hb]
    exact ih

/-- the whitespace skipper runs through plain trivia -/
theorem skipWs_trivia (tr s : Bytes) (h : PlainTrivia tr) : skipWs (tr ++ s) = skipWs s := by
  rw [skipWs_eq, skipWs_eq]
  exact skipWsScalarAux_trivia tr s h

theorem PlainTrivia.head_preWs {c : UInt8} {t : Bytes} (h : PlainTrivia (c :: t)) : isPreWs c = true := by
  rw [isPreWs_iff]
  cases h with
  | ws _ _ hw _ => simp [hw]
  | comment body t' hb _ => simp

/-- plain trivia in front of a form does not change what `edn_read_value` returns (positions
    are relative to the end of the input, so they are literally unchanged) -/
theorem readValue_trivia_prefix (ctx : Ctx) (f d : Nat) (dm : Bool) (tr s : Bytes) (cl : List Call)
    (h : PlainTrivia tr) :
    readValue ctx (f + 1) d dm { rest := tr ++ s, calls := cl } = readValue ctx (f + 1) d dm { rest := s, calls := cl } := by
  cases tr with
  | nil => simp
  | cons c0 t0 =>
    have hp := h.head_preWs
    have h1 := skipWs_trivia _ s h
    rw [readValue_succ, readValue_succ]
    unfold rvOuter
    simp only [List.cons_append] at h1 ⊢
    simp only [hp, ↓reduceIte]
    rw [h1]
    cases s with
    | nil => simp [skipWs, skipWsSimd, eofErrOf]
    | cons c1 t1 =>
      simp only
      by_cases hq : isPreWs c1 = true
      · simp only [hq, ↓reduceIte]
      · simp only [hq, Bool.false_eq_true, ↓reduceIte]
        rw [skipWs_nonws c1 t1 (by simpa using hq)]

/-- in discard mode no handler is invoked: the call log is unchanged by all six reader
    functions, whatever they read and whether they succeed or fail -/
theorem discard_mode_no_calls (ctx : Ctx) : ∀ (f : Nat),
    (∀ d st, (readValue ctx f d true st).st.calls = st.calls) ∧
    (∀ d kind start st acc, (readSeq ctx f d true kind start st acc).st.calls = st.calls) ∧
    (∀ d start ns st ks vs, (readMap ctx f d true start ns st ks vs).st.calls = st.calls) ∧
    (∀ d start st, (readNsMap ctx f d true start st).st.calls = st.calls) ∧
    (∀ d start st, (readTagged ctx f d true start st).st.calls = st.calls) ∧
    (∀ d start st, (readMeta ctx f d true start st).st.calls = st.calls) :=
  reader_discard_calls ctx

/-- a discarded well-formed form is trivia: if the bytes `form` read (in discard mode, one
    level deeper) as some value and leave `s`, then `#_ form` in front of `s` is skipped and
    reading continues with `s` and an unchanged call log -/
theorem discard_is_trivia (ctx : Ctx) (f d : Nat) (dm : Bool) (form s : Bytes) (cl cl' : List Call) (v : Val)
    (hd : d < Edn.Generated.Tables.maxNestingDepth)
    (hform : readValue ctx f (d + 1) true { rest := form ++ s, calls := cl } = .ok v { rest := s, calls := cl' }) :
    cl' = cl ∧
    readValue ctx (f + 1) d dm { rest := 0x23 :: 0x5F :: (form ++ s), calls := cl }
      = readValue ctx f d dm { rest := s, calls := cl } := by
  have hcl : cl' = cl := by
    have := (discard_mode_no_calls ctx f).1 (d + 1) { rest := form ++ s, calls := cl }
    rw [hform] at this
    exact this
  subst hcl
  refine ⟨rfl, ?_⟩
  have hdisp : dispatch ctx.cfg 0x23 = .hash := by
    obtain ⟨clj, exp⟩ := ctx.cfg
    cases clj <;> cases exp <;> decide +kernel
  have hp : isPreWs 0x23 = false := by decide +kernel
  have hnd : ¬ (d ≥ Edn.Generated.Tables.maxNestingDepth) := by omega
  rw [readValue_succ]
  unfold rvOuter
  simp only [hp, Bool.false_eq_true, ↓reduceIte]
  unfold rvStep
  simp only [hdisp]
  simp only [hnd, decide_false, Bool.false_eq_true, ↓reduceIte]
  have e1 : ((0x5F : UInt8) == 0x23) = false := by decide
  have e2 : ((0x5F : UInt8) == 0x7B) = false := by decide
  simp only [e1, e2, Bool.false_eq_true, ↓reduceIte, beq_self_eq_true]
  rw [hform]

theorem readValue_trivia_only (ctx : Ctx) (f d : Nat) (dm : Bool) (s : Bytes) (cl : List Call)
    (h : skipWsScalar s = []) :
    readValue ctx (f + 1) d dm { rest := s, calls := cl } = eofErrOf d { rest := [], calls := cl } := by
  rw [readValue_succ]
  unfold rvOuter
  cases s with
  | nil => rfl
  | cons c t =>
    simp only
    by_cases hp : isPreWs c = true
    · simp only [hp, ↓reduceIte]
      rw [skipWs_eq, h]
    · have := skipWs_nonws c t (by simpa using hp)
      rw [skipWs_eq, h] at this
      cases this

/-- input that the whitespace skipper consumes entirely reads as end of input: the
    end-of-input error at the end of the input, or exactly the caller's end-of-input value -/
theorem read_trivia_only (cfg : Cfg) (opts : Opts) (s : Bytes) (h : skipWsScalar s = []) :
    (read cfg opts s).calls = [] ∧
    match (read cfg opts s).out with
    | .eofValue => opts.eofValue = true
    | .error code es ee => opts.eofValue = false ∧ code = .unexpectedEof ∧ es.offset = s.length ∧ ee.offset = s.length
    | _ => False := by
  unfold Edn.Model.read
  simp only []
  have hf : readFuel s = (4 * s.length + 7) + 1 := rfl
  rw [hf, readValue_trivia_only _ _ _ _ _ _ h]
  simp only [eofErrOf]
  have hee : (Err.unexpectedEof == Err.unexpectedEof) = true := by decide
  cases he : opts.eofValue with
  | true => simp [hee]
  | false => simp

end Edn.Proofs
