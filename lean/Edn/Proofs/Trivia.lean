/-
  Edn.Proofs.Trivia — C13: whitespace, commas, comments and discarded forms in front of a
  form never change what is read; handlers are never invoked inside a discarded form; input
  consisting only of trivia reads as end of input.
-/
import Edn.Proofs.ReaderBasic
import Edn.Proofs.Fuel

namespace Edn.Proofs
open Edn.Model

/-- whitespace bytes, commas and line comments that are closed by a line feed -/
inductive PlainTrivia : Bytes → Prop
  | nil : PlainTrivia []
  | ws (c : UInt8) (t : Bytes) (hw : isWs c = true) : PlainTrivia t → PlainTrivia (c :: t)
  | comment (body t : Bytes) (hb : ∀ b ∈ body, b ≠ 0x0A) : PlainTrivia t → PlainTrivia (0x3B :: (body ++ 0x0A :: t))

/-- the whitespace skipper runs through plain trivia -/
theorem skipWs_trivia (tr s : Bytes) (h : PlainTrivia tr) : skipWs (tr ++ s) = skipWs s := by
  sorry

/-- plain trivia in front of a form does not change what `edn_read_value` returns (positions
    are relative to the end of the input, so they are literally unchanged) -/
theorem readValue_trivia_prefix (ctx : Ctx) (f d : Nat) (dm : Bool) (tr s : Bytes) (cl : List Call)
    (h : PlainTrivia tr) :
    readValue ctx (f + 1) d dm { rest := tr ++ s, calls := cl } = readValue ctx (f + 1) d dm { rest := s, calls := cl } := by
  sorry

/-- in discard mode no handler is invoked: the call log is unchanged by all six reader
    functions, whatever they read and whether they succeed or fail -/
theorem discard_mode_no_calls (ctx : Ctx) : ∀ (f : Nat),
    (∀ d st, (readValue ctx f d true st).st.calls = st.calls) ∧
    (∀ d kind start st acc, (readSeq ctx f d true kind start st acc).st.calls = st.calls) ∧
    (∀ d start ns st ks vs, (readMap ctx f d true start ns st ks vs).st.calls = st.calls) ∧
    (∀ d start st, (readNsMap ctx f d true start st).st.calls = st.calls) ∧
    (∀ d start st, (readTagged ctx f d true start st).st.calls = st.calls) ∧
    (∀ d start st, (readMeta ctx f d true start st).st.calls = st.calls) := by
  sorry

/-- a discarded well-formed form is trivia: if the bytes `form` read (in discard mode, one
    level deeper) as some value and leave `s`, then `#_ form` in front of `s` is skipped and
    reading continues with `s` and an unchanged call log -/
theorem discard_is_trivia (ctx : Ctx) (f d : Nat) (dm : Bool) (form s : Bytes) (cl cl' : List Call) (v : Val)
    (hd : d < Edn.Generated.Tables.maxNestingDepth)
    (hform : readValue ctx f (d + 1) true { rest := form ++ s, calls := cl } = .ok v { rest := s, calls := cl' }) :
    cl' = cl ∧
    readValue ctx (f + 1) d dm { rest := 0x23 :: 0x5F :: (form ++ s), calls := cl }
      = readValue ctx f d dm { rest := s, calls := cl } := by
  sorry

/-- input that the whitespace skipper consumes entirely reads as end of input: the
    end-of-input error at the end of the input, or exactly the caller's end-of-input value -/
theorem read_trivia_only (cfg : Cfg) (opts : Opts) (s : Bytes) (h : skipWsScalar s = []) :
    (read cfg opts s).calls = [] ∧
    match (read cfg opts s).out with
    | .eofValue => opts.eofValue = true
    | .error code es ee => opts.eofValue = false ∧ code = .unexpectedEof ∧ es.offset = s.length ∧ ee.offset = s.length
    | _ => False := by
  sorry

end Edn.Proofs
