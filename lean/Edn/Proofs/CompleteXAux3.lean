/-
  Edn.Proofs.CompleteXAux3 — the converse direction for the two forms that exist only with the
  Clojure flag: metadata `^annotation target` and namespaced maps `#:name{…}`.
-/
import Edn.Proofs.CompleteXAux2
import Edn.Proofs.SoundX

namespace Edn.Proofs.CmplX
open Edn.Model Edn.Spec Edn.Generated Edn.Proofs Edn.Proofs.Cmpl Edn.Proofs.SndX

/-! ### metadata -/

theorem readValue_metaOpen (ctx : Ctx) (hclj : ctx.cfg.clj = true) (f d : Nat) (dm : Bool) (cs : Bytes) (cl : List Call)
    (hd : d < Tables.maxNestingDepth) :
    readValue ctx (f + 1) d dm { rest := 0x5E :: cs, calls := cl } =
      readMeta ctx f d dm (cs.length + 1) { rest := cs, calls := cl } := by
  have hdisp : dispatch ctx.cfg 0x5E = .metadata := (dispX_metadata_iff 0x5E).mpr ⟨hclj, rfl⟩
  have hp : isPreWs 0x5E = false := by decide +kernel
  have hdeep : decide (d ≥ Tables.maxNestingDepth) = false := by
    apply decide_eq_false; omega
  rw [readValue_succ]
  simp only [rvOuter, hp, Bool.false_eq_true, if_false, rvStep, hdisp, hdeep, Ctx.pos, List.length_cons]

theorem metaEntries_of_C {m : Val} {nks nvs : List Val} (h : metaEntriesC (stripM m) = some (nks, nvs)) :
    ∃ nks' nvs', metaEntries m = some (nks', nvs') ∧ stripML nks' = nks ∧ stripML nvs' = nvs := by
  rw [metaEntriesC_stripM] at h
  cases hme : metaEntries m with
  | none => rw [hme] at h; cases h
  | some p =>
    obtain ⟨a, b⟩ := p
    rw [hme] at h
    simp only [Option.map_some, Option.some.injEq, Prod.mk.injEq] at h
    exact ⟨a, b, rfl, h.1, h.2⟩

theorem readsX_meta {cfg : Cfg} {N : NumJ} {S : StrJ} (hN : NumExact cfg N) (hS : StrExact cfg S) (opts : Opts)
    (hreg : opts.registry = none) (hclj : cfg.clj = true) (d : Nat) (am af : Val) (nks nvs : List Val) (tokm tokf rest : Bytes)
    (hd : d < Tables.maxNestingDepth)
    (hm : ReadsX cfg opts (d + 1) am tokm (tokf ++ rest)) (he : metaEntriesC am = some (nks, nvs))
    (hf : ReadsX cfg opts (d + 1) af tokf rest) (ht : af.metaTarget = true) :
    ReadsX cfg opts d (attachMetaC cfg af nks nvs) (0x5E :: (tokm ++ tokf)) rest := by
  intro dm cl f hf'
  simp only [List.length_cons, List.length_append] at hf'
  match f, hf' with
  | f + 2, hf' =>
    obtain ⟨m, hmr, hms⟩ := hm dm cl f (by simp only [List.length_append]; omega)
    obtain ⟨form, hfr, hfs⟩ := hf dm cl f (by omega)
    subst hms
    subst hfs
    obtain ⟨nks', nvs', hme, hk, hv⟩ := metaEntries_of_C he
    have hmt : form.metaTarget = true := by rw [← metaTarget_stripM]; exact ht
    have hmok : ValOK cfg (d + 1) m :=
      readValue_inv { cfg := cfg, opts := opts } hreg f (d + 1) dm _ _ m (by omega) hmr
    have hn : Elems cfg nks' := elems_metaEntries hmok hme
    have hmd : MdOK cfg form := readValue_mdOK cfg opts hreg N S hN hS f (d + 1) dm _ _ form hfr
    have e : (0x5E :: (tokm ++ tokf)) ++ rest = 0x5E :: (tokm ++ (tokf ++ rest)) := by simp
    rw [e, readValue_metaOpen { cfg := cfg, opts := opts } hclj (f + 1) d dm _ cl hd, readMeta_succ]
    unfold rmeStep
    simp only [hmr, hme, hfr, hmt, Bool.not_true, Bool.false_eq_true, if_false]
    refine ⟨_, rfl, ?_⟩
    rw [stripM_setHdr, stripM_attachMeta cfg m form nks' nvs' hn hmd, hk, hv]

/-! ### namespaced maps -/

theorem readValue_nsOpen (ctx : Ctx) (hclj : ctx.cfg.clj = true) (f d : Nat) (dm : Bool) (cs : Bytes) (cl : List Call)
    (hd : d < Tables.maxNestingDepth) :
    readValue ctx (f + 1) d dm { rest := 0x23 :: 0x3A :: cs, calls := cl } =
      readNsMap ctx f d dm (cs.length + 2) { rest := 0x3A :: cs, calls := cl } := by
  have hp : isPreWs 0x23 = false := by decide +kernel
  have hdeep : decide (d ≥ Tables.maxNestingDepth) = false := by
    apply decide_eq_false; omega
  have h1 : ((0x3A : UInt8) == 0x23) = false := by decide
  have h2 : ((0x3A : UInt8) == 0x7B) = false := by decide
  have h3 : ((0x3A : UInt8) == 0x5F) = false := by decide
  rw [readValue_succ]
  simp only [rvOuter, hp, Bool.false_eq_true, if_false, rvStep, Cmpl.dispatch_hash, h1, h2, h3, hdeep, hclj, BEq.rfl,
    Bool.and_self, if_true, Ctx.pos, List.length_cons]

theorem skipWs_blank_brace {tr : Bytes} (ht : Blank tr) (s : Bytes) : skipWs (tr ++ 0x7B :: s) = 0x7B :: s := by
  rw [skipWs_trivia tr _ (blank_toPlain ht)]
  exact skipWs_nonws 0x7B s (by decide +kernel)

theorem delimStart_blank_brace {tr : Bytes} (ht : Blank tr) (s : Bytes) : DelimStart (tr ++ 0x7B :: s) := by
  cases tr with
  | nil => exact .inr ⟨0x7B, s, rfl, by decide +kernel⟩
  | cons c t => exact .inr ⟨c, t ++ 0x7B :: s, rfl, (blank_head_term ht).2⟩

theorem readsX_nsmap (cfg : Cfg) (opts : Opts) (hreg : opts.registry = none) (hclj : cfg.clj = true) (d : Nat)
    (name tr body rest : Bytes) (ks vs : List Val) (hd : d < Tables.maxNestingDepth)
    (hl : IdentLex (0x3A :: name)) (hden : IdentDenotes (0x3A :: name) (.kw hdr0 none name)) (ht : Blank tr)
    (h : SeqRX cfg opts d (interleaveKV ks vs) body (0x7D :: rest)) (hlen : ks.length = vs.length)
    (hpd : pairwiseDistinct cfg (qualifyKeysC name ks)) :
    ReadsX cfg opts d (.map hdr0 none (qualifyKeysC name ks) vs)
      (0x23 :: 0x3A :: (name ++ (tr ++ 0x7B :: (body ++ [0x7D])))) rest := by
  intro dm cl f hf
  simp only [List.length_cons, List.length_append, List.length_nil] at hf
  obtain ⟨f, rfl⟩ : ∃ f', f = f' + 3 := ⟨f - 3, by omega⟩
  have e : (0x23 :: 0x3A :: (name ++ (tr ++ 0x7B :: (body ++ [0x7D])))) ++ rest =
      0x23 :: 0x3A :: (name ++ (tr ++ 0x7B :: (body ++ 0x7D :: rest))) := by simp
  have e' : (0x3A : UInt8) :: (name ++ (tr ++ 0x7B :: (body ++ 0x7D :: rest))) =
      (0x3A :: name) ++ (tr ++ 0x7B :: (body ++ 0x7D :: rest)) := rfl
  obtain ⟨tv, htv, hstv⟩ := readIdentifier_complete { cfg := cfg, opts := opts } (0x3A :: name)
    (tr ++ 0x7B :: (body ++ 0x7D :: rest)) cl _ hl (delimStart_blank_brace ht _) hden
  rw [e, readValue_nsOpen { cfg := cfg, opts := opts } hclj (f + 2) d dm _ cl hd, readNsMap_succ]
  unfold rnStep
  rw [readValue_succ, rvOuter_colon, e', htv]
  cases tv <;> simp only [strip, reduceCtorEq] at hstv
  case kw h0 ns0 nm0 =>
    simp only [Val.kw.injEq, true_and] at hstv
    obtain ⟨rfl, rfl⟩ := hstv
    simp only [skipWs_blank_brace ht, BEq.rfl, if_true]
    exact readMap_body cfg opts hreg d (some nm0) ks vs body rest _ hd h hlen hpd dm cl (f + 1) (by
      simp only [List.length_cons, List.length_append] at hf ⊢
      omega)

end Edn.Proofs.CmplX
