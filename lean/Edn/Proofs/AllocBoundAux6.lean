/-
  Edn.Proofs.AllocBoundAux6 — induction over the six readers, part 2: the element loop of
  lists / vectors / sets and the entry loop of maps.  An element pays for its own requests and for
  the one request of the builder; an entry for the rewritten key and the two requests of the map
  builder; the closing delimiter (four units) for the final array(s), the scratch array of the
  duplicate check and the collection value.
-/
import Edn.Proofs.AllocBoundAux5

namespace Edn.Proofs.AllocBound
open Edn.Model Edn.Proofs Edn.Proofs.AllocBasic

theorem good_qualifyKey {cfg : Cfg} {N : Nat} (n : Bytes) (k : Val) (g : Good cfg N k) (hN : 0 < N) :
    Good cfg N (qualifyKey n k) := by
  unfold qualifyKey
  split
  · split
    · exact Good.kw _ _ _ hN
    · split
      · exact Good.kw _ _ _ hN
      · exact g
  · split
    · exact Good.sym _ _ _ _ hN (fun _ h => by cases h)
    · split
      · exact Good.sym _ _ _ _ hN (fun _ h => by cases h)
      · exact g
  · exact g

section
variable {x : ACtx} {input : Bytes} (H : Hyp x input)
include H

/-- the request of a collection (or tagged) value at the end of a form -/
theorem value_rel_L (st st'' stE : St) (a a1 : ASt) (v : Val) (gv : Good x.ctx.cfg (input.length + 1) v)
    (ha1 : a1.arena = .alive)
    (hc : a1.reqs + Psi (input.length + 1) a1.bufs + 1 + 4 * st''.rest.length
        ≤ a.reqs + Psi (input.length + 1) a.bufs + 4 * st.rest.length + 2) :
    RelL x.ctx.cfg (input.length + 1) st a
      (let (okV, a2) := a1.request x.orc .arena
       if !okV then (.err oomErr stE, a2) else (.ok v st'', a2)) := by
  have hr := request_ff (N := input.length + 1) H.orc .arena a1 0 ha1
  rcases hq : a1.request x.orc .arena with ⟨ok, a2⟩
  rw [hq] at hr
  obtain ⟨hok, hst⟩ := hr
  dsimp only at hok hst ⊢
  subst hok
  simp only [Bool.not_true, Bool.false_eq_true, ↓reduceIte]
  exact ⟨hst.1, gv, by have := hst.2; simp only; omega⟩

theorem readSeqA_bstep (f : Nat) (hV : BV x input f) (hS : BS x input f) : BS x input (f + 1) := by
  intro d dm kind start st a b acc ha hsuf hstart gacc
  unfold readSeqA
  dsimp only
  have h1 := hV (d + 1) dm st a ha hsuf
  rcases hq : readValueA x f (d + 1) dm st a with ⟨r, a'⟩
  rw [hq] at h1
  obtain ⟨ha', h1c⟩ := h1
  cases r with
  | ok v st' =>
    dsimp only at h1c ⊢
    obtain ⟨gv, hc1⟩ := h1c
    have hsuf' := (VA_ok_suffix H ha hq).trans hsuf
    obtain ⟨⟨b', hb'⟩, h2⟩ := add_stp (N := input.length + 1) H.orc b a' ha'
    rcases hq2 : b.add x a' with ⟨ob, a1⟩
    rw [hq2] at hb' h2
    dsimp only at hb' h2
    subst hb'
    dsimp only
    exact (hS d dm kind start st' a1 b' (v :: acc) h2.1 hsuf' hstart (GoodL.cons gv gacc)).after
      (by have := h2.2; omega)
  | err e st' =>
    dsimp only at h1c ⊢
    split <;> exact ⟨ha', by somega⟩
  | closer st' =>
    dsimp only at h1c ⊢
    split
    · exact ⟨ha', by somega⟩
    · next c r hr =>
      have hlen : st'.rest.length = r.length + 1 := by rw [hr]; rfl
      split
      · exact ⟨ha', by somega⟩
      · obtain ⟨hokF, h2⟩ := finish_stp (N := input.length + 1) H.orc b a' ha'
        rcases hq2 : b.finish x a' with ⟨okF, a1⟩
        rw [hq2] at hokF h2
        dsimp only at hokF h2
        subst hokF
        simp only [Bool.not_true, Bool.false_eq_true, ↓reduceIte]
        have hc2 := h2.2
        split
        · exact value_rel_L H st _ _ a a1 _ (Good.list _ _ _ hstart (fun _ h => by cases h) gacc.reverse) h2.1
            (by simp only; omega)
        · split
          · exact value_rel_L H st _ _ a a1 _ (Good.vec _ _ _ hstart (fun _ h => by cases h) gacc.reverse) h2.1
              (by simp only; omega)
          · have h3 := hasDuplicatesA_stp (N := input.length + 1) H.orc acc.reverse a1 gacc.reverse h2.1
            rcases hq3 : hasDuplicatesA x acc.reverse a1 with ⟨⟨dup, ys⟩, a2⟩
            rw [hq3] at h3
            dsimp only at h3 ⊢
            have hc3 := h3.1.2
            split
            · exact ⟨h3.1.1, by somega⟩
            · split
              · exact ⟨h3.1.1, by somega⟩
              · exact value_rel_L H st _ _ a a2 _ (Good.set _ _ _ hstart (fun _ h => by cases h) h3.2) h3.1.1
                  (by simp only; omega)

theorem readMapA_bstep (f : Nat) (hV : BV x input f) (hM : BM x input f) : BM x input (f + 1) := by
  intro d dm start ns st a b ks vs ha hsuf hstart gks gvs
  unfold readMapA
  dsimp only
  have h1 := hV (d + 1) dm st a ha hsuf
  rcases hq : readValueA x f (d + 1) dm st a with ⟨r, a'⟩
  rw [hq] at h1
  obtain ⟨ha', h1c⟩ := h1
  cases r with
  | err e st' =>
    dsimp only at h1c ⊢
    split <;> exact ⟨ha', by somega⟩
  | closer st' =>
    dsimp only at h1c ⊢
    split
    · exact ⟨ha', by somega⟩
    · next c r hr =>
      have hlen : st'.rest.length = r.length + 1 := by rw [hr]; rfl
      split
      · exact ⟨ha', by somega⟩
      · obtain ⟨hokF, h2⟩ := finishPair_stp (N := input.length + 1) H.orc b a' ha'
        rcases hq2 : b.finishPair x a' with ⟨okF, a1⟩
        rw [hq2] at hokF h2
        dsimp only at hokF h2
        subst hokF
        simp only [Bool.not_true, Bool.false_eq_true, ↓reduceIte]
        have hc2 := h2.2
        have h3 := hasDuplicatesA_stp (N := input.length + 1) H.orc ks.reverse a1 gks.reverse h2.1
        rcases hq3 : hasDuplicatesA x ks.reverse a1 with ⟨⟨dup, keys'⟩, a2⟩
        rw [hq3] at h3
        dsimp only at h3 ⊢
        have hc3 := h3.1.2
        split
        · exact ⟨h3.1.1, by somega⟩
        · split
          · exact ⟨h3.1.1, by somega⟩
          · exact value_rel_L H st _ _ a a2 _
              (Good.map _ _ _ _ hstart (fun _ h => by cases h) h3.2 gvs.reverse) h3.1.1 (by simp only; omega)
  | ok k st' =>
    dsimp only at h1c ⊢
    obtain ⟨gk, hc1⟩ := h1c
    have hsuf' := (VA_ok_suffix H ha hq).trans hsuf
    have h2 := hV (d + 1) dm st' a' ha' hsuf'
    rcases hq2 : readValueA x f (d + 1) dm st' a' with ⟨r2, a''⟩
    rw [hq2] at h2
    obtain ⟨ha'', h2c⟩ := h2
    cases r2 with
    | closer st'' => dsimp only at h2c ⊢; exact ⟨ha'', by somega⟩
    | err e st'' => dsimp only at h2c ⊢; split <;> exact ⟨ha'', by somega⟩
    | ok v st'' =>
      dsimp only at h2c ⊢
      obtain ⟨gv, hc2⟩ := h2c
      have hsuf'' := (VA_ok_suffix H ha' hq2).trans hsuf'
      have gk' : Good x.ctx.cfg (input.length + 1) (match ns with | some n => qualifyKey n k | none => k) := by
        split
        · exact good_qualifyKey _ _ gk (Nat.succ_pos _)
        · exact gk
      -- the rewritten key
      have hk : ∀ rk : Bool × ASt, rk = (if ns.isSome && qualifyAllocs k then a''.request x.orc .arena else (true, a'')) →
          rk.1 = true ∧ Stp (input.length + 1) 1 a'' rk.2 := by
        intro rk hrk; subst hrk
        split
        · exact request_ff H.orc .arena a'' 0 ha''
        · exact ⟨rfl, (Stp.refl ha'').mono (Nat.zero_le _)⟩
      generalize hg : (if ns.isSome && qualifyAllocs k then a''.request x.orc .arena else (true, a'')) = rk
      obtain ⟨hokK, h3⟩ := hk rk hg.symm
      rcases rk with ⟨okK, a1⟩
      dsimp only at hokK h3 ⊢
      subst hokK
      simp only [Bool.not_true, Bool.false_eq_true, ↓reduceIte]
      obtain ⟨⟨b', hb'⟩, h4⟩ := addPair_stp (N := input.length + 1) H.orc b a1 h3.1
      rcases hq4 : b.addPair x a1 with ⟨ob, a2⟩
      rw [hq4] at hb' h4
      dsimp only at hb' h4
      subst hb'
      dsimp only
      exact RelL.after (st := st) (a := a)
        (hM d dm start ns st'' a2 b' _ (v :: vs) h4.1 hsuf'' hstart (GoodL.cons gk' gks) (GoodL.cons gv gvs))
        (by have := h3.2; have := h4.2; omega)

end

end Edn.Proofs.AllocBound
