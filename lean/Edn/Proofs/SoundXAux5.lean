/-
  Edn.Proofs.SoundXAux5 — soundness of the dispatch step of `readValue` in every configuration,
  given the soundness of the functions it calls.
-/
import Edn.Proofs.SoundXAux4
import Edn.Proofs.SoundAux4

namespace Edn.Proofs.SndX
open Edn.Model Edn.Spec Edn.Generated Edn.Proofs
open Edn.Proofs.Snd (Fits fits_zero closerByte_0 closerByte_1 closerByte_2)

variable {N : NumJ} {S : StrJ}

theorem elems_nil (cfg : Cfg) : Elems cfg [] := fun _ h => by cases h

theorem seqVal_md {cfg : Cfg} {kind : Nat} {xs : List Val} {a : Val} (h : SeqVal cfg kind xs a) : a.md = none := by
  unfold SeqVal at h
  split at h
  · rw [h]; rfl
  · split at h
    · rw [h]; rfl
    · rw [h.1]; rfl

/-- a sequence collection: from the element loop to the form -/
theorem goodV_of_seq {cfg : Cfg} {d : Nat} {cl : List Call} {open_ cs : Bytes} {kind : Nat} {r : Res}
    (h : GoodS cfg N S d kind [] { rest := cs, calls := cl } r)
    (hform : ∀ k xs body rest a, FormSeqX cfg N S k xs body (closerByte kind :: rest) → SeqVal cfg kind xs a →
      FormX cfg N S (k + 1) a (open_ ++ (body ++ [closerByte kind])) rest) :
    GoodV cfg N S d { rest := open_ ++ cs, calls := cl } r := by
  refine ⟨?_, fun st' e => absurd e (h.2 st')⟩
  intro v st' e
  obtain ⟨k, xs, body, h1, h2, h3, h4, h5⟩ := h.1 v st' e
  simp only [List.reverse_nil, stripML_nil, List.nil_append] at h4
  refine ⟨k + 1, open_ ++ (body ++ [closerByte kind]), ?_, h2, ?_, fun _ => by omega, mdOK_of_stripM (seqVal_md h4)⟩
  · show open_ ++ cs = _
    simp only [] at h1
    rw [h1]; simp
  · exact hform k xs body st'.rest (stripM v) h3 h4

theorem rvStep_sound (ctx : Ctx) (hN : NumExact ctx.cfg N) (hS : StrExact ctx.cfg S) {RV : RVT} {RS : RST} {RM : RMT} {RN RT RMe : R4T}
    (hV : SV ctx.cfg N S RV) (hSS : SS ctx.cfg N S RS) (hM : SM ctx.cfg N S RM) (hNs : SN ctx.cfg N S RN)
    (hT : ST ctx.cfg N S RT) (hMe : SMe ctx.cfg N S RMe) (d : Nat) (dm : Bool) (cl : List Call) (c : UInt8) (cs : Bytes) :
    GoodV ctx.cfg N S d { rest := c :: cs, calls := cl } (rvStep ctx RV RS RM RN RT RMe d dm cl c cs) := by
  unfold rvStep
  simp only []
  cases hd : dispatch ctx.cfg c with
  | string =>
    simp only []
    exact goodV_leaf _ _ _ (leaf_not_closer ctx _).1 (fun v st' h => string_ok hS d ctx rfl c cs cl v st' hd h)
  | character =>
    simp only []
    exact goodV_leaf _ _ _ (leaf_not_closer ctx _).2.1 (fun v st' h => character_ok d ctx rfl c cs cl v st' hd h)
  | listOpen =>
    simp only []
    have hcc := dispX_listOpen hd
    subst hcc
    split
    · exact goodV_err _ _ _ _ _ _ _
    · rename_i hdeep
      have hdd : d < Tables.maxNestingDepth := by simpa using hdeep
      refine goodV_of_seq (open_ := [0x28]) (hSS d dm 0 _ { rest := cs, calls := cl } [] hdd (elems_nil _)) ?_
      intro k xs body rest a hseq hval
      simp only [SeqVal, if_true] at hval
      subst hval
      exact .list k xs body rest hseq
  | vectorOpen =>
    simp only []
    have hcc := dispX_vectorOpen hd
    subst hcc
    split
    · exact goodV_err _ _ _ _ _ _ _
    · rename_i hdeep
      have hdd : d < Tables.maxNestingDepth := by simpa using hdeep
      refine goodV_of_seq (open_ := [0x5B]) (hSS d dm 1 _ { rest := cs, calls := cl } [] hdd (elems_nil _)) ?_
      intro k xs body rest a hseq hval
      simp only [SeqVal, Nat.one_ne_zero, if_false, if_true] at hval
      subst hval
      exact .vec k xs body rest hseq
  | mapOpen =>
    simp only []
    have hcc := dispX_mapOpen hd
    subst hcc
    split
    · exact goodV_err _ _ _ _ _ _ _
    · rename_i hdeep
      have hdd : d < Tables.maxNestingDepth := by simpa using hdeep
      have h := hM d dm (Ctx.pos ctx (0x7B :: cs)) none { rest := cs, calls := cl } [] [] hdd (elems_nil _) rfl
      refine ⟨?_, fun st' e => absurd e (h.2 st')⟩
      intro v st' e
      obtain ⟨k, ks', vs', body, h1, h2, h3, h4, h5, h6, h7⟩ := h.1 v st' e
      simp only [List.reverse_nil, stripML_nil, List.nil_append, qualC] at h5 h6
      refine ⟨k + 1, 0x7B :: (body ++ [0x7D]), ?_, h2, ?_, fun _ => by omega, mdOK_of_stripM (by rw [h5]; rfl)⟩
      · show 0x7B :: cs = _
        simp only [] at h1
        rw [h1]; simp
      · rw [h5]
        exact .map k ks' vs' body st'.rest h3 h4 h6
  | hash =>
    simp only []
    have hcc := dispatch_hash hd
    subst hcc
    cases cs with
    | nil =>
      simp only []
      have h := hT d dm (Ctx.pos ctx [0x23]) { rest := [], calls := cl }
      refine ⟨?_, fun st' e => absurd e (h.2 st')⟩
      intro v st' e
      obtain ⟨k, tag, ns, nm, a, tok, h1, -, hl, -⟩ := h.1 v st' e
      exfalso
      simp only [] at h1
      have := hl.1
      cases tag with
      | nil => exact this rfl
      | cons _ _ => cases h1
    | cons nx cs' =>
      simp only []
      split
      · rename_i hnx
        have : nx = 0x23 := by simpa using hnx
        subst this
        exact goodV_leaf _ _ _ (leaf_not_closer ctx _).2.2.2.1 (fun v st' h => symbolic_ok d ctx cs' cl v st' h)
      split
      · exact goodV_err _ _ _ _ _ _ _
      rename_i hnx1 hdeep
      have hdd : d < Tables.maxNestingDepth := by simpa using hdeep
      split
      · rename_i hnx
        have : nx = 0x7B := by simpa using hnx
        subst this
        refine goodV_of_seq (open_ := [0x23, 0x7B]) (hSS d dm 2 _ { rest := cs', calls := cl } [] hdd (elems_nil _)) ?_
        intro k xs body rest a hseq hval
        simp only [SeqVal] at hval
        rw [if_neg (by decide), if_neg (by decide)] at hval
        obtain ⟨rfl, hpd⟩ := hval
        exact .set k xs body rest hseq hpd
      rename_i hnx2
      split
      · rename_i hnx
        have : nx = 0x5F := by simpa using hnx
        subst this
        -- a discarded form, then the form (or the closing delimiter)
        cases h1 : RV (d + 1) true { rest := cs', calls := cl } with
        | err e st1 => exact goodV_err _ _ _ _ _ _ _
        | closer st1 => exact goodV_err _ _ _ _ _ _ _
        | ok b st1 =>
          simp only []
          obtain ⟨k1, tok1, e1, c1, f1, b1, -⟩ := (hV (d + 1) true { rest := cs', calls := cl }).1 b st1 h1
          simp only [] at e1 c1
          have hb1 : d + (k1 + 1) ≤ Tables.maxNestingDepth := by
            have := b1 (by omega)
            omega
          have h2 := hV d dm st1
          constructor
          · intro v st' e
            obtain ⟨k2, tok2, e2, c2, f2, b2, m2⟩ := h2.1 v st' e
            refine ⟨max k1 (k2 - 1) + 1, 0x23 :: 0x5F :: (tok1 ++ tok2), ?_, by rw [c2, c1], ?_, ?_, m2⟩
            · show 0x23 :: 0x5F :: cs' = _
              rw [e1, e2]; simp
            · rw [e2] at f1
              exact .discard (max k1 (k2 - 1)) (stripM v) (stripM b) tok1 tok2 st'.rest
                (formX_mono f1 _ (Nat.le_max_left _ _)) (formX_mono f2 _ (by have := Nat.le_max_right k1 (k2 - 1); omega))
            · intro hdm
              have := b2 hdm
              rcases Nat.le_total k1 (k2 - 1) with hle | hle
              · rw [Nat.max_eq_right hle]; omega
              · rw [Nat.max_eq_left hle]; omega
          · intro st' e
            obtain ⟨k2, tr2, e2, c2, t2, b2, hpos, hcl⟩ := h2.2 st' e
            refine ⟨max k1 (k2 - 1) + 1, [] ++ 0x23 :: 0x5F :: (tok1 ++ tr2), ?_, by rw [c2, c1], ?_, ?_, hpos, hcl⟩
            · show 0x23 :: 0x5F :: cs' = _
              rw [e1, e2]; simp
            · rw [e2] at f1
              exact .discard (max k1 (k2 - 1)) (stripM b) [] tok1 tr2 st'.rest .nil
                (formX_mono f1 _ (Nat.le_max_left _ _)) (trailX_mono t2 _ (by have := Nat.le_max_right k1 (k2 - 1); omega))
            · intro hdm
              have := b2 hdm
              rcases Nat.le_total k1 (k2 - 1) with hle | hle
              · rw [Nat.max_eq_right hle]; omega
              · rw [Nat.max_eq_left hle]; omega
      rename_i hnx3
      split
      · -- a namespaced map
        rename_i hnx4
        simp only [Bool.and_eq_true, beq_iff_eq] at hnx4
        obtain ⟨hclj, rfl⟩ := hnx4
        have h := hNs d dm (Ctx.pos ctx (0x23 :: 0x3A :: cs')) cs' cl hdd
        refine ⟨?_, fun st' e => absurd e (h.2 st')⟩
        intro v st' e
        obtain ⟨k, name, tr, body, ks, vs, h1, h2, hl, hden, hb, hseq, hlen, hpd, hv, hk⟩ := h.1 v st' e
        simp only [] at h1 h2
        refine ⟨k + 1, 0x23 :: 0x3A :: (name ++ (tr ++ 0x7B :: (body ++ [0x7D]))), ?_, h2, ?_, fun _ => by omega,
          mdOK_of_stripM (by rw [hv]; rfl)⟩
        · show 0x23 :: 0x3A :: cs' = _
          rw [h1]; simp
        · rw [hv]
          exact .nsmap k name tr body st'.rest ks vs hclj hl hden hb hseq hlen hpd
      rename_i hnx4
      -- a tagged element
      have h := hT d dm (Ctx.pos ctx (0x23 :: nx :: cs')) { rest := nx :: cs', calls := cl }
      refine ⟨?_, fun st' e => absurd e (h.2 st')⟩
      intro v st' e
      obtain ⟨k, tag, ns, nm, a, tok, h1, h2, hl, hden, hsep, hf, hv, hb⟩ := h.1 v st' e
      simp only [] at h1 h2
      refine ⟨k + 1, 0x23 :: (tag ++ tok), ?_, h2, ?_, fun _ => by have := hb (by omega); omega,
        mdOK_of_stripM (by rw [hv]; rfl)⟩
      · show 0x23 :: nx :: cs' = _
        rw [h1]; simp
      · rw [hv]
        refine .tagged k tag ns nm a tok st'.rest hl hden ?_ hsep hf
        cases tag with
        | nil => exact absurd rfl hl.1
        | cons t0 tt =>
          simp only [List.cons_append, List.cons.injEq] at h1
          simp only [List.head?_cons, ne_eq, Option.some.injEq]
          intro ht0
          rw [h1.1, ht0] at hnx3
          simp at hnx3
  | sign =>
    simp only []
    have hsg : c = 0x2B ∨ c = 0x2D := by simpa using dispatch_sign hd
    have hnd : is09 c = false := by rcases hsg with rfl | rfl <;> decide
    have hnm : dispatch ctx.cfg c ≠ .metadata := by rw [hd]; decide
    cases cs with
    | nil =>
      simp only []
      exact goodV_leaf _ _ _ (leaf_not_closer ctx _).2.2.1
        (fun v st' h => identifier_ok d ctx c [] cl v st' ⟨hnd, fun _ nx t' e => by cases e⟩ hnm h)
    | cons nx t =>
      simp only []
      split
      · rename_i hnx
        exact goodV_leaf _ _ _ (leaf_not_closer ctx _).2.2.2.2
          (fun v st' h => number_ok hN d ctx rfl c (nx :: t) cl v st' (.inr ⟨hsg, nx, t, rfl, hnx⟩) h)
      · rename_i hnx
        refine goodV_leaf _ _ _ (leaf_not_closer ctx _).2.2.1
          (fun v st' h => identifier_ok d ctx c (nx :: t) cl v st' ⟨hnd, fun _ nx' t' e => ?_⟩ hnm h)
        simp only [List.cons.injEq] at e
        rw [← e.1]
        simpa using hnx
  | digit =>
    simp only []
    exact goodV_leaf _ _ _ (leaf_not_closer ctx _).2.2.2.2
      (fun v st' h => number_ok hN d ctx rfl c cs cl v st' (.inl (dispatch_digit hd)) h)
  | delimiter =>
    simp only []
    split
    · exact goodV_err _ _ _ _ _ _ _
    · rename_i hd0
      refine ⟨fun _ _ e => (by cases e), ?_⟩
      intro st' e
      simp only [Res.closer.injEq] at e
      subst e
      have hpos : 0 < d := by
        have : d ≠ 0 := by simpa using hd0
        omega
      exact ⟨0, [], rfl, rfl, .blank 0 [] _ .nil, fits_zero d, hpos, c, cs, rfl, dispX_delimiter hd⟩
  | metadata =>
    simp only []
    obtain ⟨hclj, rfl⟩ := (dispX_metadata_iff c).mp hd
    split
    · exact goodV_err _ _ _ _ _ _ _
    · rename_i hdeep
      have hdd : d < Tables.maxNestingDepth := by simpa using hdeep
      have h := hMe d dm (Ctx.pos ctx (0x5E :: cs)) { rest := cs, calls := cl } hdd
      refine ⟨?_, fun st' e => absurd e (h.2 st')⟩
      intro v st' e
      obtain ⟨k, am, af, nks, nvs, tokm, tokf, h1, h2, hfm, hme, hff, hmt, hv, hmd, hk⟩ := h.1 v st' e
      simp only [] at h1 h2
      refine ⟨k + 1, 0x5E :: (tokm ++ tokf), ?_, h2, ?_, fun _ => by omega, hmd⟩
      · show 0x5E :: cs = _
        rw [h1]; simp
      · rw [hv]
        exact .withMeta k am af nks nvs tokm tokf st'.rest hclj hfm hme hff hmt
  | identifier =>
    simp only []
    obtain ⟨h1, h2, h3⟩ := dispX_identifier hd
    have hnm : dispatch ctx.cfg c ≠ .metadata := by rw [hd]; decide
    exact goodV_leaf _ _ _ (leaf_not_closer ctx _).2.2.1
      (fun v st' h => identifier_ok d ctx c cs cl v st' ⟨h3, fun hsg => by rcases hsg with e | e <;> contradiction⟩ hnm h)

/-- `readValue` with positive fuel -/
theorem rvOuter_sound (ctx : Ctx) (hN : NumExact ctx.cfg N) (hS : StrExact ctx.cfg S) {RV : RVT} {RS : RST} {RM : RMT} {RN RT RMe : R4T}
    (hV : SV ctx.cfg N S RV) (hSS : SS ctx.cfg N S RS) (hM : SM ctx.cfg N S RM) (hNs : SN ctx.cfg N S RN)
    (hT : ST ctx.cfg N S RT) (hMe : SMe ctx.cfg N S RMe) : SV ctx.cfg N S (rvOuter ctx RV RS RM RN RT RMe) := by
  intro d dm st
  unfold rvOuter
  cases hs : st.rest with
  | nil => exact goodV_err _ _ _ _ _ _ _
  | cons c0 t =>
    simp only []
    cases hw : (if isPreWs c0 = true then skipWs (c0 :: t) else c0 :: t) with
    | nil => exact goodV_err _ _ _ _ _ _ _
    | cons c cs =>
      simp only []
      obtain ⟨tr, hb, htr⟩ := Snd.preSkip_inv hw
      have h := rvStep_sound ctx hN hS hV hSS hM hNs hT hMe d dm st.calls c cs
      constructor
      · intro v st' e
        obtain ⟨k, tok, e1, c1, f1, b1, m1⟩ := h.1 v st' e
        simp only [] at e1 c1
        refine ⟨k, tr ++ tok, ?_, c1, .blank k _ tr tok st'.rest hb f1, b1, m1⟩
        rw [hs, htr, e1]; simp
      · intro st' e
        obtain ⟨k, tr2, e1, c1, t1, b1, hpos, hcl⟩ := h.2 st' e
        simp only [] at e1 c1
        refine ⟨k, tr ++ tr2, ?_, c1, trailX_blank hb t1, b1, hpos, hcl⟩
        rw [hs, htr, e1]; simp

/-- at a `:` the reader with positive fuel is the identifier reader -/
theorem rvOuter_colon (ctx : Ctx) {RV : RVT} {RS : RST} {RM : RMT} {RN RT RMe : R4T} (d : Nat) (dm : Bool) (cs : Bytes)
    (cl : List Call) :
    rvOuter ctx RV RS RM RN RT RMe d dm { rest := 0x3A :: cs, calls := cl } =
      readIdentifier ctx { rest := 0x3A :: cs, calls := cl } := by
  have hp : isPreWs 0x3A = false := by decide +kernel
  simp only [rvOuter, hp, Bool.false_eq_true, if_false, rvStep, dispX_colon]

end Edn.Proofs.SndX
