/-
  Edn.Proofs.ExpNumberSoundAux5 — the separators do not change what a token denotes: removing them
  from an `ExpNum` token gives a core token (`CoreNum Cfg.core`) whose payload is the payload of
  the original token with the separators removed from the texts it keeps (`unsepVal`: integers
  and doubles are the same, big integers / big decimals keep the same text up to the separators).
-/
import Edn.Spec.ExpNumLit
import Edn.Proofs.NumberReader
import Edn.Proofs.CljNumberSoundAux6
import Edn.Proofs.ExpNumberSoundAux1
import Edn.Proofs.ExpNumberSoundAux3

namespace Edn.Proofs.ExpN
open Edn.Model Edn.Spec Edn.Proofs Edn.Proofs.CNum Edn.Proofs.CljN

/-! ## the parts of a token without their separators -/

theorem mem_unsep {c : UInt8} {l : Bytes} : c ∈ unsep l ↔ c ∈ l ∧ c ≠ 0x5F := by
  simp [unsep]

theorem unsep_uRun {l : Bytes} (h : URun true is09 l) : ∀ c ∈ unsep l, is09 c = true := by
  intro c hc
  obtain ⟨hm, hne⟩ := mem_unsep.mp hc
  rcases h c hm with h | ⟨-, h⟩
  · exact h
  · exact absurd h hne

theorem unsep_sign {sg : Bytes} {neg : Bool} (h : SignTok sg neg) : unsep sg = sg :=
  unsep_of_not_mem (sign_noU h)

theorem digit_ne_sep {d : UInt8} (h : is09 d = true) : d ≠ 0x5F := (is09_props h).2.2.2.2.1

theorem range_of_is09 {c : UInt8} (h : is09 c = true) : 0x30 ≤ c ∧ c ≤ 0x39 := by
  simpa [is09] using h

/-- integer part: a core decimal integer with the same value -/
theorem unsep_expInt {ip : Bytes} (h : ExpInt ip) :
    DecDigits (unsep ip) ∧ natOfDigits (unsep ip) = radixNat 10 ip ∧ (unsep ip).head? = ip.head? := by
  have hall : ∀ c ∈ unsep ip, is09 c = true := by
    rcases h with rfl | h
    · intro c hc
      have : c = 0x30 := by simpa [unsep] using hc
      rw [this]; decide
    · exact unsep_uRun (nzRun_uRun h)
  have hval : natOfDigits (unsep ip) = radixNat 10 ip := by
    have e : radixNat 10 ip = digitsValR 10 (unsep ip) := rfl
    rw [e, digitsValR_ten _ hall]
  have hhead : (unsep ip).head? = ip.head? := by
    rcases h with rfl | h
    · rfl
    · obtain ⟨d, t, rfl, hd, -, -⟩ := nzRun_cons h
      rw [unsep_cons_ne (digit_ne_sep hd)]
      rfl
  refine ⟨?_, hval, hhead⟩
  rcases h with rfl | h
  · exact ⟨by simp [unsep], fun c hc => range_of_is09 (hall c hc), by simp [unsep]⟩
  · obtain ⟨d, t, rfl, hd, hd0, -⟩ := nzRun_cons h
    refine ⟨?_, fun c hc => range_of_is09 (hall c hc), ?_⟩
    · rw [unsep_cons_ne (digit_ne_sep hd)]
      simp
    · intro _
      rw [hhead]
      simp [hd0]

theorem unsep_frac {fr : Bytes} (h : CljFrac true fr) : FracPart (unsep fr) ∧ (fr = [] ↔ unsep fr = []) := by
  rcases h with rfl | ⟨fd, rfl, hfd, -⟩
  · exact ⟨Or.inl rfl, by simp [unsep]⟩
  · have e : unsep (0x2E :: fd) = 0x2E :: unsep fd := unsep_cons_ne (by decide) fd
    rw [e]
    exact ⟨Or.inr ⟨unsep fd, rfl, unsep_uRun hfd⟩, by simp⟩

theorem unsep_exp {ex : Bytes} (h : CljExp true ex) : ExpPart (unsep ex) ∧ (ex = [] ↔ unsep ex = []) := by
  rcases h with rfl | ⟨e, es, ed, rfl, he, hes, d, t, rfl, hd, ht⟩
  · exact ⟨Or.inl rfl, by simp [unsep]⟩
  · have hne : e ≠ 0x5F := by rcases he with rfl | rfl <;> decide
    have hes' : unsep es = es := by
      rcases hes with rfl | rfl | rfl <;> rfl
    have e1 : unsep (e :: (es ++ d :: t)) = e :: (es ++ d :: unsep t) := by
      rw [unsep_cons_ne hne, unsep_append, hes', unsep_cons_ne (digit_ne_sep hd)]
    rw [e1]
    refine ⟨Or.inr ⟨e, es, d :: unsep t, rfl, he, hes, by simp, ?_⟩, by simp⟩
    intro c hc
    rcases List.mem_cons.mp hc with rfl | hc
    · exact hd
    · exact unsep_uRun ht c hc

theorem unsep_body (ip fr ex : Bytes) : unsep (ip ++ fr ++ ex) = unsep ip ++ unsep fr ++ unsep ex := by
  rw [unsep_append, unsep_append]

/-! ## the text of a float token satisfies the hypotheses of `parseDouble_unsep` -/

theorem isE_digit {c : UInt8} (h : is09 c = true) : isE c = false := by
  have hp := dec_props h
  have h1 : (c == 0x65) = false := by simpa using hp.2.2.2.2.2.2.1
  have h2 : (c == 0x45) = false := by simpa using hp.2.2.2.2.2.2.2.1
  simp [isE, h1, h2]

theorem isE_uRun {l : Bytes} (h : URun true is09 l) : ∀ c ∈ l, isE c = false := by
  intro c hc
  rcases h c hc with h | ⟨-, rfl⟩
  · exact isE_digit h
  · decide

theorem isE_sign {sg : Bytes} {neg : Bool} (h : SignTok sg neg) : ∀ c ∈ sg, isE c = false := by
  rcases h with ⟨rfl, -⟩ | ⟨rfl, -⟩ | ⟨rfl, -⟩
  · intro c hc; simp at hc
  · intro c hc; simp only [List.mem_singleton] at hc; subst hc; decide
  · intro c hc; simp only [List.mem_singleton] at hc; subst hc; decide

theorem isE_expInt {ip : Bytes} (h : ExpInt ip) : ∀ c ∈ ip, isE c = false :=
  isE_uRun (fun c hc => cljInt_uRun c hc)
where
  cljInt_uRun : ∀ c ∈ ip, is09 c = true ∨ (true = true ∧ c = 0x5F) := by
    rcases h with rfl | h
    · intro c hc
      simp only [List.mem_singleton] at hc
      subst hc
      exact Or.inl (by decide)
    · exact nzRun_uRun h

theorem isE_frac {fr : Bytes} (h : CljFrac true fr) : ∀ c ∈ fr, isE c = false := by
  rcases h with rfl | ⟨fd, rfl, hfd, -⟩
  · intro c hc; simp at hc
  · intro c hc
    rcases List.mem_cons.mp hc with rfl | hc
    · decide
    · exact isE_uRun hfd c hc

theorem noESep_exp {ex : Bytes} (h : CljExp true ex) : noESep ex = true := by
  rcases h with rfl | ⟨e, es, ed, rfl, -, hes, d, t, rfl, hd, ht⟩
  · rfl
  · have hrest : ∀ c ∈ es ++ d :: t, isE c = false := by
      intro c hc
      rcases List.mem_append.mp hc with hc | hc
      · rcases hes with rfl | rfl | rfl
        · simp at hc
        · simp only [List.mem_singleton] at hc; subst hc; decide
        · simp only [List.mem_singleton] at hc; subst hc; decide
      · exact isE_uRun (uRun_cons (Or.inl hd) ht) c hc
    have hhead : ((es ++ d :: t).head? == some 0x5F) = false := by
      rcases hes with rfl | rfl | rfl
      · simpa using digit_ne_sep hd
      · rfl
      · rfl
    rw [noESep_cons, hhead, noESep_of_noE _ hrest]
    simp

theorem mantissa_text {sg ip fr ex : Bytes} {neg : Bool} (hs : SignTok sg neg) (hm : ExpMantissa ip fr ex) :
    (sg ++ ip ++ fr ++ ex).head? ≠ some 0x5F ∧ noESep (sg ++ ip ++ fr ++ ex) = true := by
  constructor
  · have hip : ip.head? ≠ some 0x5F := by
      rcases hm.hip with rfl | h
      · decide
      · obtain ⟨d, t, rfl, hd, -, -⟩ := nzRun_cons h
        intro e
        exact digit_ne_sep hd (by simpa using e)
    have hne : ip ≠ [] := cljInt_ne (expInt_cljInt hm.hip)
    rcases hs with ⟨rfl, -⟩ | ⟨rfl, -⟩ | ⟨rfl, -⟩
    · cases ip with
      | nil => exact absurd rfl hne
      | cons d t => exact hip
    · simp
    · simp
  · have hpre : ∀ c ∈ sg ++ ip ++ fr, isE c = false := by
      intro c hc
      simp only [List.mem_append] at hc
      rcases hc with (hc | hc) | hc
      · exact isE_sign hs c hc
      · exact isE_expInt hm.hip c hc
      · exact isE_frac hm.hfr c hc
    rw [noESep_append_of_noE _ _ hpre]
    exact noESep_exp hm.hex

/-- the double of a float token is the double of the token without its separators, read without
    the experimental flag -/
theorem float_unsep {sg ip fr ex : Bytes} {neg : Bool} (hs : SignTok sg neg) (hm : ExpMantissa ip fr ex) :
    parseDouble expCfg (sg ++ ip ++ fr ++ ex) = parseDouble Cfg.core (unsep (sg ++ ip ++ fr ++ ex)) :=
  parseDouble_unsep (mantissa_text hs hm).1 (mantissa_text hs hm).2

/-! ## tokens -/

theorem unsep_mantissa {ip fr ex : Bytes} (hm : ExpMantissa ip fr ex) :
    DecDigits (unsep ip) ∧ FracPart (unsep fr) ∧ ExpPart (unsep ex) ∧
      ((fr ≠ [] ∨ ex ≠ []) → (unsep fr ≠ [] ∨ unsep ex ≠ [])) ∧
      (fr = [] → ex = [] → unsep fr = [] ∧ unsep ex = []) := by
  obtain ⟨h1, -, -⟩ := unsep_expInt hm.hip
  obtain ⟨h2, h2'⟩ := unsep_frac hm.hfr
  obtain ⟨h3, h3'⟩ := unsep_exp hm.hex
  refine ⟨h1, h2, h3, ?_, fun a b => ⟨h2'.mp a, h3'.mp b⟩⟩
  rintro (h | h)
  · exact Or.inl (fun e => h (h2'.mpr e))
  · exact Or.inr (fun e => h (h3'.mpr e))

/-- removing the separators from a token gives a core token; the payload changes only by the
    separators in the texts it keeps -/
theorem expNum_unsep {tok : Bytes} {v : NumVal} (h : ExpNum tok v) :
    CoreNum Cfg.core (unsep tok) (unsepVal v) := by
  cases h with
  | dec sg ip neg hs hip =>
    obtain ⟨hd, hval, -⟩ := unsep_expInt hip
    rw [unsep_append, unsep_sign hs]
    unfold intPayload
    rw [← hval]
    by_cases hr : (if neg = true then natOfDigits (unsep ip) ≤ 9223372036854775808
        else natOfDigits (unsep ip) ≤ 9223372036854775807)
    · rw [if_pos hr]
      exact CoreNum.int sg (unsep ip) neg hs hd hr
    · rw [if_neg hr]
      exact CoreNum.big sg (unsep ip) neg hs hd hr
  | decN sg ip neg hs hip =>
    obtain ⟨hd, -, -⟩ := unsep_expInt hip
    rw [unsep_append, unsep_append, unsep_sign hs]
    exact CoreNum.bigN sg (unsep ip) neg hs hd
  | float sg ip fr ex neg hs hm hne =>
    obtain ⟨h1, h2, h3, h4, -⟩ := unsep_mantissa hm
    rw [float_unsep hs hm]
    refine CoreNum.float _ ⟨sg, unsep ip, unsep fr, unsep ex, neg, ?_, hs, h1, h2, h3, h4 hne⟩
    rw [unsep_append, unsep_append, unsep_append, unsep_sign hs]
  | decM sg ip fr ex neg hs hm hu =>
    obtain ⟨h1, h2, h3, h4, h5⟩ := unsep_mantissa hm
    have e : unsep (sg ++ ip ++ fr ++ ex ++ [0x4D]) = sg ++ unsep (ip ++ fr ++ ex) ++ [0x4D] := by
      have e0 : sg ++ ip ++ fr ++ ex ++ [0x4D] = sg ++ (ip ++ fr ++ ex) ++ [0x4D] := by simp
      rw [e0, unsep_append, unsep_append, unsep_sign hs]
      rfl
    rw [e]
    refine CoreNum.bigdec sg _ neg hs ?_ ?_
    · rw [unsep_body]
      by_cases hz : fr = [] ∧ ex = []
      · obtain ⟨e1, e2⟩ := h5 hz.1 hz.2
        left
        rw [e1, e2]
        simpa using h1
      · right
        refine ⟨[], unsep ip, unsep fr, unsep ex, false, by simp, Or.inl ⟨rfl, rfl⟩, h1, h2, h3, h4 ?_⟩
        by_cases h6 : fr = []
        · exact Or.inr (fun h7 => hz ⟨h6, h7⟩)
        · exact Or.inl h6
    · intro c hc
      obtain ⟨-, -, hhead⟩ := unsep_expInt hm.hip
      have hne : unsep ip ≠ [] := h1.1
      have hc' : (unsep ip).head? = some c := by
        rw [unsep_body] at hc
        cases hu' : unsep ip with
        | nil => exact absurd hu' hne
        | cons d t =>
          rw [hu'] at hc
          simpa using hc
      have hd : is09 c = true := by
        have hm' : c ∈ unsep ip := List.mem_of_mem_head? hc'
        obtain ⟨-, hall, -⟩ := h1
        simpa [is09] using hall c hm'
      have hp := is09_props hd
      exact ⟨hp.2.2.2.1, hp.2.2.1⟩

/-- on a token without separators nothing is removed from the payload either -/
theorem expNum_unsepVal_of_noU {tok : Bytes} {v : NumVal} (h : ExpNum tok v) (hn : (0x5F : UInt8) ∉ tok) :
    unsepVal v = v := by
  cases h with
  | dec sg ip neg hs hip =>
    have hip' : (0x5F : UInt8) ∉ ip := fun h => hn (List.mem_append_right _ h)
    unfold intPayload
    by_cases hr : (if neg = true then radixNat 10 ip ≤ 9223372036854775808
        else radixNat 10 ip ≤ 9223372036854775807)
    · rw [if_pos hr]
      rfl
    · rw [if_neg hr]
      show NumVal.bigint neg 10 (unsep ip) = _
      rw [unsep_of_not_mem hip']
  | decN sg ip neg hs hip =>
    have hip' : (0x5F : UInt8) ∉ ip := fun h => hn (by simp [h])
    show NumVal.bigint neg 10 (unsep ip) = _
    rw [unsep_of_not_mem hip']
  | float sg ip fr ex neg hs hm hne => rfl
  | decM sg ip fr ex neg hs hm hu =>
    have hb : (0x5F : UInt8) ∉ ip ++ fr ++ ex := by
      intro h
      apply hn
      simp only [List.mem_append] at h ⊢
      rcases h with (h | h) | h
      · exact Or.inl (Or.inl (Or.inl (Or.inr h)))
      · exact Or.inl (Or.inl (Or.inr h))
      · exact Or.inl (Or.inr h)
    show NumVal.bigdec neg (unsep (ip ++ fr ++ ex)) = _
    rw [unsep_of_not_mem hb]

end Edn.Proofs.ExpN
