/-
  Edn.Proofs.FlagIndepAux1 — flag independence (C18) of the number reader: whatever the core
  configuration accepts, every configuration reads identically.
-/
import Edn.Proofs.FuelAux1
import Edn.Proofs.FlagIndepAux0

namespace Edn.Proofs
open Edn.Model

/-! ## byte facts -/

/-- `validate_number_delimiter` accepts a cursor whose first byte (0 at the end) is `c` -/
def termOK (c : UInt8) : Bool := c == 0 || isNumTerm c

def termFactsB (c : UInt8) : Bool :=
  !termOK c || (c != 0x5F && c != 0x2F && c != 0x72 && c != 0x52 && c != 0x78 && c != 0x58 &&
    !is09 c && c != 0x4E && c != 0x4D && c != 0x65 && c != 0x45 && c != 0x2E)
theorem termFactsB_all : ∀ c, termFactsB c = true := forall_u8_bool _ (by decide +kernel)

structure TermFacts (c : UInt8) : Prop where
  us : (c == 0x5F) = false
  slash : (c == 0x2F) = false
  r : (c == 0x72) = false
  R : (c == 0x52) = false
  x : (c == 0x78) = false
  X : (c == 0x58) = false
  dig : is09 c = false
  N : (c == 0x4E) = false
  M : (c == 0x4D) = false
  e : (c == 0x65) = false
  E : (c == 0x45) = false
  dot : (c == 0x2E) = false

theorem termFacts {c : UInt8} (h : termOK c = true) : TermFacts c := by
  have := termFactsB_all c
  simp only [termFactsB, h, Bool.not_true, Bool.false_or, Bool.and_eq_true, bne_iff_ne, ne_eq,
    Bool.not_eq_true'] at this
  obtain ⟨⟨⟨⟨⟨⟨⟨⟨⟨⟨⟨h1, h2⟩, h3⟩, h4⟩, h5⟩, h6⟩, h7⟩, h8⟩, h9⟩, h10⟩, h11⟩, h12⟩ := this
  exact ⟨by simpa using h1, by simpa using h2, by simpa using h3, by simpa using h4,
    by simpa using h5, by simpa using h6, h7, by simpa using h8, by simpa using h9,
    by simpa using h10, by simpa using h11, by simpa using h12⟩

theorem numDelimOk_termOK {s : Bytes} (h : numDelimOk s = true) : termOK (peek s) = true := by
  cases s with
  | nil => rfl
  | cons c cs =>
    simp only [numDelimOk] at h
    simp only [termOK, peek, List.headD_cons, h, Bool.or_true]

theorem finishNum_ok {v v' : NumVal} {s rest : Bytes} (h : finishNum v s = .ok v' rest) :
    v' = v ∧ rest = s ∧ TermFacts (peek s) := by
  unfold finishNum at h
  split at h
  · rename_i hd
    cases h
    exact ⟨rfl, rfl, termFacts (numDelimOk_termOK hd)⟩
  · cases h

theorem is09_ne_us {c : UInt8} (h : is09 c = true) : c ≠ 0x5F := by
  intro hc; subst hc; exact absurd h (by decide)

/-! ## cursors that advanced over underscore-free bytes -/

def Adv (s t : Bytes) : Prop := ∃ pre, s = pre ++ t ∧ (0x5F : UInt8) ∉ pre

theorem Adv.refl (s : Bytes) : Adv s s := ⟨[], rfl, by simp⟩

theorem Adv.trans {s t u : Bytes} (h1 : Adv s t) (h2 : Adv t u) : Adv s u := by
  obtain ⟨p1, rfl, hp1⟩ := h1
  obtain ⟨p2, rfl, hp2⟩ := h2
  refine ⟨p1 ++ p2, by simp, ?_⟩
  simp only [List.mem_append, not_or]
  exact ⟨hp1, hp2⟩

theorem Adv.suffix {s t : Bytes} (h : Adv s t) : t <:+ s := by
  obtain ⟨p, rfl, _⟩ := h
  exact List.suffix_append _ _

theorem slice_append (pre t : Bytes) : slice (pre ++ t) t = pre := by
  unfold slice
  simp

theorem Adv.slice_noUS {s t : Bytes} (h : Adv s t) : (0x5F : UInt8) ∉ slice s t := by
  obtain ⟨p, rfl, hp⟩ := h
  rw [slice_append]; exact hp

theorem Adv.lastIsUS {s t : Bytes} (h : Adv s t) : lastIsUnderscore s t = false := by
  have hn := h.slice_noUS
  unfold lastIsUnderscore
  cases hl : (slice s t).getLast? with
  | none => rfl
  | some x =>
    have hx : x ∈ slice s t := List.mem_of_getLast? hl
    have : x ≠ 0x5F := fun hc => hn (hc ▸ hx)
    simpa using this

theorem Adv.adv {s : Bytes} (h : (peek s == 0x5F) = false) : Adv s (adv s) := by
  cases s with
  | nil => exact Adv.refl _
  | cons c cs =>
    refine ⟨[c], rfl, ?_⟩
    simp only [peek, List.headD_cons] at h
    simp only [List.mem_singleton]
    intro hc; rw [← hc] at h; simp at h

theorem mem_takeWhile_p (p : UInt8 → Bool) : ∀ (s : Bytes) (x : UInt8), x ∈ s.takeWhile p → p x = true := by
  intro s
  induction s with
  | nil => intro x hx; simp at hx
  | cons c cs ih =>
    intro x hx
    rw [List.takeWhile_cons] at hx
    by_cases hc : p c = true
    · simp only [hc, ↓reduceIte, List.mem_cons] at hx
      rcases hx with rfl | hx
      · exact hc
      · exact ih x hx
    · simp only [hc] at hx; simp at hx

theorem Adv.dropWhile (p : UInt8 → Bool) (hp : ∀ c, p c = true → c ≠ 0x5F) (s : Bytes) :
    Adv s (s.dropWhile p) := by
  refine ⟨s.takeWhile p, (List.takeWhile_append_dropWhile).symm, ?_⟩
  intro hm
  exact hp _ (mem_takeWhile_p p s _ hm) rfl

theorem Adv.drop09 (s : Bytes) : Adv s (s.dropWhile is09) :=
  Adv.dropWhile is09 (fun _ h => is09_ne_us h) s

/-! ## the digit loops -/

theorem peek_dropWhile_cons {c : UInt8} {cs : Bytes} (h : is09 c = true) :
    (c :: cs).dropWhile is09 = cs.dropWhile is09 := by
  simp [h]

theorem decDigitsLoop_eq (exp : Bool) : ∀ (f : Nat) (s : Bytes),
    (exp = false ∨ (peek (s.dropWhile is09) == 0x5F) = false) → s.length < f →
    decDigitsLoop exp f s = .ok (s.dropWhile is09) := by
  intro f
  induction f with
  | zero => intro s _ h; omega
  | succ f ih =>
    intro s hx hl
    cases s with
    | nil => rfl
    | cons c cs =>
      by_cases hc : is09 c = true
      · rw [decDigitsLoop_step exp f (c :: cs) hc]
        rw [peek_dropWhile_cons hc] at hx ⊢
        simp only [List.length_cons] at hl
        exact ih cs hx (by omega)
      · have hc' : is09 c = false := by simpa using hc
        have hd : (c :: cs).dropWhile is09 = c :: cs := by simp [hc']
        rw [hd] at hx ⊢
        rw [decDigitsLoop]
        simp only [peek, List.headD_cons] at hx ⊢
        have hE : (exp && c == 0x5F) = false := by
          rcases hx with hx | hx
          · rw [hx]; rfl
          · rw [hx]; simp
        simp only [hc', hE, Bool.false_eq_true, ↓reduceIte]
        split <;> rfl

theorem fracDigits_eq (exp : Bool) : ∀ (s : Bytes),
    (exp = false ∨ (peek (s.dropWhile is09) == 0x5F) = false) →
    fracDigits exp s = s.dropWhile is09 := by
  intro s
  unfold fracDigits
  induction s with
  | nil => intro _; rfl
  | cons c cs ih =>
    intro hx
    by_cases hc : is09 c = true
    · rw [peek_dropWhile_cons hc] at hx ⊢
      rw [List.dropWhile_cons]
      simp only [hc, Bool.true_or, ↓reduceIte]
      exact ih hx
    · have hc' : is09 c = false := by simpa using hc
      have hd : (c :: cs).dropWhile is09 = c :: cs := by simp [hc']
      rw [hd] at hx ⊢
      simp only [peek, List.headD_cons] at hx
      have hE : (exp && c == 0x5F) = false := by
        rcases hx with hx | hx
        · rw [hx]; rfl
        · rw [hx]; simp
      rw [List.dropWhile_cons]
      simp only [hc', hE, Bool.or_self, Bool.false_eq_true, ↓reduceIte]

/-! ## underscore-free digit texts are converted identically -/

theorem us_and {exp : Bool} {c : UInt8} (h : c ≠ 0x5F) : (exp && c == 0x5F) = false := by
  have : (c == 0x5F) = false := by simpa using h
  rw [this, Bool.and_false]

theorem fastSmall_noUS (exp : Bool) : ∀ (l : Bytes) (v : Nat) (m : Bool), (0x5F : UInt8) ∉ l →
    fastSmall exp v m l = fastSmall false v m l := by
  intro l
  induction l with
  | nil => intro v m _; rfl
  | cons c cs ih =>
    intro v m h
    simp only [List.mem_cons, not_or] at h
    rw [fastSmall, fastSmall]
    simp only [us_and (Ne.symm h.1), Bool.false_eq_true, ↓reduceIte]
    split
    · rfl
    · exact ih _ _ h.2

theorem scalarDigits_noUS (exp : Bool) (radix cutoff cutlim : Nat) : ∀ (l : Bytes) (v : Nat),
    (0x5F : UInt8) ∉ l →
    scalarDigits exp radix cutoff cutlim v l = scalarDigits false radix cutoff cutlim v l := by
  intro l
  induction l with
  | nil => intro v _; rfl
  | cons c cs ih =>
    intro v h
    simp only [List.mem_cons, not_or] at h
    rw [scalarDigits, scalarDigits]
    simp only [us_and (Ne.symm h.1), Bool.false_eq_true, ↓reduceIte]
    cases digitValue c radix with
    | none => rfl
    | some d =>
      simp only []
      split
      · rfl
      · exact ih _ h.2

theorem scalarDigits10_noUS (exp : Bool) (cutoff cutlim : Nat) : ∀ (l : Bytes) (v : Nat),
    (0x5F : UInt8) ∉ l →
    scalarDigits10 exp cutoff cutlim v l = scalarDigits10 false cutoff cutlim v l := by
  intro l
  induction l with
  | nil => intro v _; rfl
  | cons c cs ih =>
    intro v h
    simp only [List.mem_cons, not_or] at h
    rw [scalarDigits10, scalarDigits10]
    simp only [us_and (Ne.symm h.1), Bool.false_eq_true, ↓reduceIte]
    split
    · rfl
    · split
      · rfl
      · exact ih _ h.2

theorem accDigits_noUS (exp : Bool) : ∀ (l : Bytes) (m n : Nat), (0x5F : UInt8) ∉ l →
    accDigits exp m n l = accDigits false m n l := by
  intro l
  induction l with
  | nil => intro m n _; rfl
  | cons c cs ih =>
    intro m n h
    simp only [List.mem_cons, not_or] at h
    rw [accDigits, accDigits]
    simp only [us_and (Ne.symm h.1), Bool.false_eq_true, ↓reduceIte]
    split
    · exact ih _ _ h.2
    · rfl

theorem accDigits_rest_mem : ∀ (l : Bytes) (m n : Nat) (x : UInt8),
    x ∈ (accDigits false m n l).2.2 → x ∈ l := by
  intro l
  induction l with
  | nil => intro m n x hx; simp [accDigits] at hx
  | cons c cs ih =>
    intro m n x hx
    rw [accDigits] at hx
    simp only [Bool.false_and, Bool.false_eq_true, ↓reduceIte] at hx
    split at hx
    · exact List.mem_cons_of_mem _ (ih _ _ x hx)
    · exact hx

theorem accExp_noUS (exp : Bool) : ∀ (l : Bytes) (v : Nat), (0x5F : UInt8) ∉ l →
    accExp exp v l = accExp false v l := by
  intro l
  induction l with
  | nil => intro v _; rfl
  | cons c cs ih =>
    intro v h
    simp only [List.mem_cons, not_or] at h
    rw [accExp, accExp]
    simp only [us_and (Ne.symm h.1), Bool.false_eq_true, ↓reduceIte]
    split
    · split
      · rfl
      · exact ih _ h.2
    · rfl

theorem swarLoop_rest_mem (maxVal : Nat) : ∀ (f v : Nat) (s : Bytes) (v' : Nat) (r : Bytes),
    swarLoop maxVal f v s = some (v', r) → ∀ x, x ∈ r → x ∈ s := by
  intro f
  induction f with
  | zero =>
    intro v s v' r h x hx
    rw [swarLoop] at h
    cases h; exact hx
  | succ f ih =>
    intro v s v' r h x hx
    rw [swarLoop] at h
    simp only [] at h
    split at h
    · split at h
      · split at h
        · cases h
        · split at h
          · cases h
          · split at h
            · cases h
            · exact List.mem_of_mem_drop (ih _ _ _ _ h x hx)
      · cases h; exact hx
    · cases h; exact hx

theorem parseInt64_noUS (cfg : Cfg) (digits : Bytes) (radix : Nat) (neg : Bool)
    (h : (0x5F : UInt8) ∉ digits) :
    parseInt64 cfg digits radix neg = parseInt64 Cfg.core digits radix neg := by
  unfold parseInt64
  simp only [show Cfg.core.exp = false from rfl]
  rw [fastSmall_noUS cfg.exp digits 0 false h, scalarDigits_noUS cfg.exp radix _ _ digits 0 h]
  generalize (if neg = true then 9223372036854775808 else 9223372036854775807 : Nat) = mv
  cases hs : swarLoop mv (digits.length + 1) 0 digits with
  | none => rfl
  | some p =>
    obtain ⟨v, rest⟩ := p
    simp only []
    rw [scalarDigits10_noUS cfg.exp _ _ rest v
      (fun hm => h (swarLoop_rest_mem mv _ _ _ _ _ hs _ hm))]

theorem intOrBig_noUS (cfg : Cfg) (digits : Bytes) (radix : Nat) (neg : Bool)
    (h : (0x5F : UInt8) ∉ digits) :
    intOrBig cfg digits radix neg = intOrBig Cfg.core digits radix neg := by
  unfold intOrBig
  rw [parseInt64_noUS cfg digits radix neg h]

theorem intOrBig_numNoUS (cfg : Cfg) (digits : Bytes) (radix : Nat) (neg : Bool)
    (h : (0x5F : UInt8) ∉ digits) : numNoUS (intOrBig cfg digits radix neg) := by
  unfold intOrBig
  cases parseInt64 cfg digits radix neg with
  | none => exact h
  | some i => trivial

/-! ### `parseDouble` -/

def pdSign (text : Bytes) : Bool × Bytes :=
  match text with
    | c :: r => if c == 0x2D then (true, r) else if c == 0x2B then (false, r) else (false, c :: r)
    | [] => (false, [])

def pdFrac (exp : Bool) (m1 n1 : Nat) (s1 : Bytes) : Nat × Nat × Nat × Bytes :=
  match s1 with
    | c :: r =>
      if c == 0x2E then
        let (m, n, r') := accDigits exp m1 n1 r
        (m, n, n - n1, r')
      else (m1, n1, 0, c :: r)
    | [] => (m1, n1, 0, [])

def pdExpo (exp : Bool) (e10 : Int) (s2 : Bytes) : Int :=
  match s2 with
    | c :: r =>
      if c == 0x65 || c == 0x45 then
        let (eneg, r1) := match r with
          | d :: r' => if d == 0x2D then (true, r') else if d == 0x2B then (false, r') else (false, d :: r')
          | [] => (false, [])
        let ev := accExp exp 0 r1
        e10 + (if eneg then -(ev : Int) else (ev : Int))
      else e10
    | [] => e10

theorem parseDouble_eq (cfg : Cfg) (text : Bytes) : parseDouble cfg text =
    (let a := accDigits cfg.exp 0 0 (pdSign text).2
     let b := pdFrac cfg.exp a.1 a.2.1 a.2.2
     let e10 := pdExpo cfg.exp (-(b.2.2.1 : Int)) b.2.2.2
     let fast := if b.2.1 ≤ 15 then parseDoubleFast b.1 e10 (pdSign text).1 else none
     match fast with
     | some r => r
     | none => strtodSpec text) := rfl

theorem pdSign_mem (text : Bytes) (x : UInt8) (h : x ∈ (pdSign text).2) : x ∈ text := by
  unfold pdSign at h
  cases text with
  | nil => exact h
  | cons c r =>
    simp only [] at h
    split at h
    · exact List.mem_cons_of_mem _ h
    · split at h
      · exact List.mem_cons_of_mem _ h
      · exact h

theorem pdFrac_noUS (exp : Bool) (m1 n1 : Nat) (s1 : Bytes) (h : (0x5F : UInt8) ∉ s1) :
    pdFrac exp m1 n1 s1 = pdFrac false m1 n1 s1 := by
  unfold pdFrac
  cases s1 with
  | nil => rfl
  | cons c r =>
    simp only [List.mem_cons, not_or] at h
    simp only []
    rw [accDigits_noUS exp r m1 n1 h.2]

theorem pdFrac_rest_mem (m1 n1 : Nat) (s1 : Bytes) (x : UInt8)
    (h : x ∈ (pdFrac false m1 n1 s1).2.2.2) : x ∈ s1 := by
  unfold pdFrac at h
  cases s1 with
  | nil => exact h
  | cons c r =>
    simp only [] at h
    split at h
    · exact List.mem_cons_of_mem _ (accDigits_rest_mem r m1 n1 x h)
    · exact h

theorem pdExpo_noUS (exp : Bool) (e10 : Int) (s2 : Bytes) (h : (0x5F : UInt8) ∉ s2) :
    pdExpo exp e10 s2 = pdExpo false e10 s2 := by
  unfold pdExpo
  cases s2 with
  | nil => rfl
  | cons c r =>
    simp only [List.mem_cons, not_or] at h
    simp only []
    cases r with
    | nil => rfl
    | cons d r' =>
      have h2 := h.2
      simp only [List.mem_cons, not_or] at h2
      simp only []
      split
      · split
        · simp only []; rw [accExp_noUS exp r' 0 h2.2]
        · split
          · simp only []; rw [accExp_noUS exp r' 0 h2.2]
          · simp only []; rw [accExp_noUS exp (d :: r') 0 h.2]
      · rfl

theorem parseDouble_noUS (cfg : Cfg) (text : Bytes) (h : (0x5F : UInt8) ∉ text) :
    parseDouble cfg text = parseDouble Cfg.core text := by
  rw [parseDouble_eq, parseDouble_eq]
  simp only [show Cfg.core.exp = false from rfl]
  have h1 : (0x5F : UInt8) ∉ (pdSign text).2 := fun hm => h (pdSign_mem _ _ hm)
  rw [accDigits_noUS cfg.exp _ 0 0 h1]
  have h2 : (0x5F : UInt8) ∉ (accDigits false 0 0 (pdSign text).2).2.2 :=
    fun hm => h1 (accDigits_rest_mem _ _ _ _ hm)
  rw [pdFrac_noUS cfg.exp _ _ _ h2]
  have h3 : (0x5F : UInt8) ∉ (pdFrac false (accDigits false 0 0 (pdSign text).2).1
      (accDigits false 0 0 (pdSign text).2).2.1 (accDigits false 0 0 (pdSign text).2).2.2).2.2.2 :=
    fun hm => h2 (pdFrac_rest_mem _ _ _ _ hm)
  rw [pdExpo_noUS cfg.exp _ _ h3]

/-! ## the shared tails -/

theorem core_exp : Cfg.core.exp = false := rfl
theorem core_clj : Cfg.core.clj = false := rfl

/-- what the statements below conclude about an accepted core outcome -/
def SameOK (o : NumOut) (s : Bytes) (v : NumVal) (rest : Bytes) : Prop :=
  o = .ok v rest ∧ rest <:+ s ∧ numNoUS v

/-- the byte at which the core configuration's digit loop stopped, when core accepts -/
structure Stop (c : UInt8) : Prop where
  us : (c == 0x5F) = false
  r : (c == 0x72) = false
  R : (c == 0x52) = false
  x : (c == 0x78) = false
  X : (c == 0x58) = false

theorem TermFacts.stop {c : UInt8} (h : TermFacts c) : Stop c := ⟨h.us, h.r, h.R, h.x, h.X⟩

theorem Stop.of_beq {c k : UInt8} (h : (c == k) = true) (hk : Stop k) : Stop c := by
  simp only [beq_iff_eq] at h; rw [h]; exact hk

theorem stop_N : Stop 0x4E := ⟨by decide, by decide, by decide, by decide, by decide⟩
theorem stop_M : Stop 0x4D := ⟨by decide, by decide, by decide, by decide, by decide⟩
theorem stop_e : Stop 0x65 := ⟨by decide, by decide, by decide, by decide, by decide⟩
theorem stop_E : Stop 0x45 := ⟨by decide, by decide, by decide, by decide, by decide⟩
theorem stop_dot : Stop 0x2E := ⟨by decide, by decide, by decide, by decide, by decide⟩

theorem suffix_adv (s : Bytes) : adv s <:+ s := List.tail_suffix s

theorem decimalTail_core (cfg : Cfg) (start : Bytes) (neg hd he : Bool) (ds s : Bytes)
    (v : NumVal) (rest : Bytes) (hds : Adv ds s) (hst : Adv start s)
    (h : decimalTail Cfg.core start neg hd he ds s = .ok v rest) :
    SameOK (decimalTail cfg start neg hd he ds s) s v rest ∧ Stop (peek s) := by
  unfold decimalTail at h ⊢
  simp only [core_exp, core_clj, Bool.false_and, Bool.false_eq_true, ↓reduceIte] at h
  simp only [hds.lastIsUS, Bool.and_false, Bool.false_eq_true, ↓reduceIte]
  by_cases hN : (peek s == 0x4E && !hd && !he) = true
  · simp only [hN, ↓reduceIte] at h ⊢
    obtain ⟨rfl, rfl, _⟩ := finishNum_ok h
    simp only [Bool.and_eq_true] at hN
    have hp : Stop (peek s) := Stop.of_beq hN.1.1 stop_N
    exact ⟨⟨h, suffix_adv s, hds.slice_noUS⟩, hp⟩
  · simp only [hN, Bool.false_eq_true, ↓reduceIte] at h ⊢
    by_cases hM : (peek s == 0x4D) = true
    · simp only [hM, ↓reduceIte] at h ⊢
      obtain ⟨rfl, rfl, _⟩ := finishNum_ok h
      have hp : Stop (peek s) := Stop.of_beq hM stop_M
      exact ⟨⟨h, suffix_adv s, hds.slice_noUS⟩, hp⟩
    · simp only [hM, Bool.false_eq_true, ↓reduceIte] at h ⊢
      -- core ends with `finishNum` on `s` in both remaining cases
      have hT : TermFacts (peek s) := by
        split at h
        · exact (finishNum_ok h).2.2
        · exact (finishNum_ok h).2.2
      simp only [hT.slash, Bool.and_false, Bool.false_and, Bool.false_eq_true, ↓reduceIte]
      split at h
      · rename_i hf
        simp only [hf, ↓reduceIte]
        obtain ⟨rfl, rfl, _⟩ := finishNum_ok h
        rw [parseDouble_noUS cfg _ hst.slice_noUS]
        exact ⟨⟨h, List.suffix_refl _, trivial⟩, hT.stop⟩
      · rename_i hf
        simp only [hf, Bool.false_eq_true, ↓reduceIte]
        obtain ⟨rfl, rfl, _⟩ := finishNum_ok h
        rw [intOrBig_noUS cfg _ 10 neg hds.slice_noUS]
        exact ⟨⟨h, List.suffix_refl _, intOrBig_numNoUS _ _ _ _ hds.slice_noUS⟩, hT.stop⟩

theorem SameOK.mono {o : NumOut} {s s' : Bytes} {v : NumVal} {rest : Bytes}
    (h : SameOK o s v rest) (hs : s <:+ s') : SameOK o s' v rest :=
  ⟨h.1, h.2.1.trans hs, h.2.2⟩

theorem exponentPart_core (cfg : Cfg) (start : Bytes) (neg hd : Bool) (ds s : Bytes)
    (v : NumVal) (rest : Bytes) (hds : Adv ds s) (hst : Adv start s)
    (hp : (peek s == 0x5F) = false)
    (h : exponentPart Cfg.core start neg hd ds s = .ok v rest) :
    SameOK (exponentPart cfg start neg hd ds s) s v rest := by
  unfold exponentPart at h ⊢
  simp only [core_exp] at h
  simp only [] at h ⊢
  generalize hs2 : (if (peek (adv s) == 43 || peek (adv s) == 45) = true then adv (adv s)
    else adv s) = s2 at h ⊢
  have ha2 : Adv s s2 := by
    subst hs2
    split
    · rename_i hc
      refine (Adv.adv hp).trans (Adv.adv ?_)
      simp only [Bool.or_eq_true, beq_iff_eq] at hc
      rcases hc with hc | hc <;> (rw [hc]; rfl)
    · exact Adv.adv hp
  split at h
  · cases h
  · rename_i hc
    simp only [hc, Bool.false_eq_true, ↓reduceIte]
    rw [fracDigits_eq false s2 (Or.inl rfl)] at h
    have ha3 : Adv s (s2.dropWhile is09) := ha2.trans (Adv.drop09 s2)
    obtain ⟨hsame, hpk⟩ := decimalTail_core cfg start neg hd true ds _ v rest
      (hds.trans ha3) (hst.trans ha3) h
    rw [fracDigits_eq cfg.exp s2 (Or.inr hpk.us)]
    exact hsame.mono ha3.suffix

theorem afterMantissa_core (cfg : Cfg) (start : Bytes) (neg hd : Bool) (ds s : Bytes)
    (v : NumVal) (rest : Bytes) (hds : Adv ds s) (hst : Adv start s)
    (h : afterMantissa Cfg.core start neg hd ds s = .ok v rest) :
    SameOK (afterMantissa cfg start neg hd ds s) s v rest ∧ Stop (peek s) := by
  unfold afterMantissa at h ⊢
  simp only [core_exp, Bool.false_and, Bool.false_eq_true, ↓reduceIte] at h
  simp only [hds.lastIsUS, Bool.and_false, Bool.false_eq_true, ↓reduceIte]
  split at h
  · rename_i hc
    simp only [hc, ↓reduceIte]
    have hp : Stop (peek s) := by
      simp only [Bool.or_eq_true] at hc
      rcases hc with hc | hc
      · exact Stop.of_beq hc stop_e
      · exact Stop.of_beq hc stop_E
    exact ⟨exponentPart_core cfg start neg hd ds s v rest hds hst hp.us h, hp⟩
  · rename_i hc
    simp only [hc, Bool.false_eq_true, ↓reduceIte]
    exact decimalTail_core cfg start neg hd false ds s v rest hds hst h

theorem decimalPart_core (cfg : Cfg) (start : Bytes) (neg : Bool) (ds s : Bytes)
    (v : NumVal) (rest : Bytes) (hds : Adv ds s) (hst : Adv start s)
    (hp : (peek s == 0x5F) = false)
    (h : decimalPart Cfg.core start neg ds s = .ok v rest) :
    SameOK (decimalPart cfg start neg ds s) s v rest := by
  unfold decimalPart at h ⊢
  simp only [core_exp, Bool.false_and, Bool.false_eq_true, ↓reduceIte] at h
  rw [fracDigits_eq false _ (Or.inl rfl)] at h
  -- the byte after the `.` is not an underscore: core would stop there and fail
  have hus : (peek (adv s) == 0x5F) = false := by
    cases hc : (peek (adv s) == 0x5F) with
    | false => rfl
    | true =>
      exfalso
      have hne : (adv s).dropWhile is09 = adv s := by
        cases hs1 : adv s with
        | nil => rfl
        | cons c cs =>
          rw [hs1] at hc
          simp only [peek, List.headD_cons, beq_iff_eq] at hc
          subst hc
          rfl
      rw [hne] at h
      have ha1 : Adv s (adv s) := Adv.adv hp
      have := (afterMantissa_core cfg start neg true ds _ v rest (hds.trans ha1) (hst.trans ha1) h).2.us
      rw [hc] at this
      cases this
  simp only [hus, Bool.and_false, Bool.false_eq_true, ↓reduceIte]
  have ha3 : Adv s ((adv s).dropWhile is09) := (Adv.adv hp).trans (Adv.drop09 _)
  obtain ⟨hsame, hpk⟩ := afterMantissa_core cfg start neg true ds _ v rest
    (hds.trans ha3) (hst.trans ha3) h
  rw [fracDigits_eq cfg.exp _ (Or.inr hpk.us)]
  exact hsame.mono ha3.suffix

/-! ## the paths of `readNumber` -/

theorem decPath_core (cfg : Cfg) (s0 : Bytes) (neg : Bool) (s : Bytes)
    (v : NumVal) (rest : Bytes) (hst : Adv s0 s)
    (h : decPath Cfg.core s0 neg s = .ok v rest) :
    SameOK (decPath cfg s0 neg s) s v rest ∧ Stop (peek (s.dropWhile is09)) := by
  unfold decPath at h ⊢
  simp only [core_exp] at h
  rw [decDigitsLoop_eq false _ s (Or.inl rfl) (Nat.lt_succ_self _)] at h
  simp only [] at h
  have ha : Adv s (s.dropWhile is09) := Adv.drop09 s
  have hpk : Stop (peek (s.dropWhile is09)) := by
    split at h
    · rename_i hc; exact Stop.of_beq hc stop_dot
    · exact (afterMantissa_core cfg s0 neg false s _ v rest ha (hst.trans ha) h).2
  rw [decDigitsLoop_eq cfg.exp _ s (Or.inr hpk.us) (Nat.lt_succ_self _)]
  simp only []
  refine ⟨?_, hpk⟩
  split at h
  · rename_i hc
    simp only [hc, ↓reduceIte]
    exact (decimalPart_core cfg s0 neg s _ v rest ha (hst.trans ha) hpk.us h).mono ha.suffix
  · rename_i hc
    simp only [hc, Bool.false_eq_true, ↓reduceIte]
    exact (afterMantissa_core cfg s0 neg false s _ v rest ha (hst.trans ha) h).1.mono ha.suffix

def notDigitFactsB (c : UInt8) : Bool :=
  is09 c || (c != 0x30 && !(0x31 ≤ c && c ≤ 0x37) && c != 0x38 && c != 0x39)
theorem notDigitFactsB_all : ∀ c, notDigitFactsB c = true := forall_u8_bool _ (by decide +kernel)

theorem notDigit_facts {c : UInt8} (h : is09 c = false) :
    (c == 0x30) = false ∧ (0x31 ≤ c && c ≤ 0x37) = false ∧ (c == 0x38) = false ∧ (c == 0x39) = false := by
  have := notDigitFactsB_all c
  simp only [notDigitFactsB, h, Bool.false_or, Bool.and_eq_true, bne_iff_ne, ne_eq,
    Bool.not_eq_true'] at this
  obtain ⟨⟨⟨h1, h2⟩, h3⟩, h4⟩ := this
  exact ⟨by simpa using h1, h2, by simpa using h3, by simpa using h4⟩

theorem cljBranchOf_none (cfg : Cfg) (neg : Bool) (ds s1 : Bytes) (hd : is09 (peek s1) = false)
    (hx : (peek s1 == 0x78) = false) (hX : (peek s1 == 0x58) = false) :
    cljBranchOf cfg neg ds s1 = (none, s1) := by
  obtain ⟨h0, h17, h8, h9⟩ := notDigit_facts hd
  have hdw : s1.dropWhile (· == 0x30) = s1 := by
    cases s1 with
    | nil => rfl
    | cons c cs =>
      simp only [peek, List.headD_cons] at h0
      rw [List.dropWhile_cons]
      simp only [h0, Bool.false_eq_true, ↓reduceIte]
  unfold cljBranchOf
  simp only [hdw, hd, hx, hX, h17, h8, h9, Bool.or_self, Bool.false_eq_true, ↓reduceIte]
  split <;> rfl

theorem zeroPath_core (cfg : Cfg) (s0 : Bytes) (neg : Bool) (ds s1 : Bytes)
    (v : NumVal) (rest : Bytes) (hds : Adv ds s1) (hst : Adv s0 s1)
    (h : zeroPath Cfg.core s0 neg ds s1 = .ok v rest) :
    SameOK (zeroPath cfg s0 neg ds s1) s1 v rest ∧ is09 (peek s1) = false ∧ Stop (peek s1) := by
  have hd : is09 (peek s1) = false := by
    cases hc : is09 (peek s1) with
    | false => rfl
    | true =>
      exfalso
      unfold zeroPath cljBranchOf at h
      simp only [core_clj, hc, Bool.false_eq_true, ↓reduceIte] at h
      cases h
  have hcore : cljBranchOf Cfg.core neg ds s1 = (none, s1) := by
    unfold cljBranchOf
    simp only [core_clj, hd, Bool.false_eq_true, ↓reduceIte]
  unfold zeroPath at h
  rw [hcore] at h
  simp only [core_clj, Bool.false_and, Bool.false_eq_true, ↓reduceIte] at h
  by_cases hdot : (peek s1 == 0x2E) = true
  · have hstop := Stop.of_beq hdot stop_dot
    unfold zeroPath
    rw [cljBranchOf_none cfg neg ds s1 hd hstop.x hstop.X]
    simp only [hdot, ↓reduceIte] at h ⊢
    exact ⟨decimalPart_core cfg s0 neg ds s1 v rest hds hst hstop.us h, hd, hstop⟩
  simp only [hdot, Bool.false_eq_true, ↓reduceIte] at h
  by_cases hN : (peek s1 == 0x4E) = true
  · have hstop := Stop.of_beq hN stop_N
    unfold zeroPath
    rw [cljBranchOf_none cfg neg ds s1 hd hstop.x hstop.X]
    simp only [hdot, hN, Bool.false_eq_true, ↓reduceIte] at h ⊢
    obtain ⟨rfl, rfl, _⟩ := finishNum_ok h
    refine ⟨⟨h, suffix_adv s1, ?_⟩, hd, hstop⟩
    simp [numNoUS]
  simp only [hN, Bool.false_eq_true, ↓reduceIte] at h
  by_cases hM : (peek s1 == 0x4D) = true
  · have hstop := Stop.of_beq hM stop_M
    unfold zeroPath
    rw [cljBranchOf_none cfg neg ds s1 hd hstop.x hstop.X]
    simp only [hdot, hN, hM, Bool.false_eq_true, ↓reduceIte] at h ⊢
    obtain ⟨rfl, rfl, _⟩ := finishNum_ok h
    refine ⟨⟨h, suffix_adv s1, ?_⟩, hd, hstop⟩
    simp [numNoUS]
  simp only [hM, Bool.false_eq_true, ↓reduceIte] at h
  by_cases hE : (peek s1 == 0x65 || peek s1 == 0x45) = true
  · have hstop : Stop (peek s1) := by
      simp only [Bool.or_eq_true] at hE
      rcases hE with hc | hc
      · exact Stop.of_beq hc stop_e
      · exact Stop.of_beq hc stop_E
    unfold zeroPath
    rw [cljBranchOf_none cfg neg ds s1 hd hstop.x hstop.X]
    simp only [hdot, hN, hM, hE, Bool.false_eq_true, ↓reduceIte] at h ⊢
    exact ⟨exponentPart_core cfg s0 neg false ds s1 v rest hds hst hstop.us h, hd, hstop⟩
  simp only [hE, Bool.false_eq_true, ↓reduceIte] at h
  obtain ⟨rfl, rfl, hT⟩ := finishNum_ok h
  have hstop := hT.stop
  unfold zeroPath
  rw [cljBranchOf_none cfg neg ds rest hd hstop.x hstop.X]
  simp only [hdot, hN, hM, hE, hT.slash, Bool.and_false, Bool.false_eq_true, ↓reduceIte]
  exact ⟨⟨h, List.suffix_refl _, trivial⟩, hd, hstop⟩

theorem radixFormOf_none (cfg : Cfg) (neg : Bool) (s : Bytes)
    (hr : (peek (s.dropWhile is09) == 0x72) = false)
    (hR : (peek (s.dropWhile is09) == 0x52) = false) :
    radixFormOf cfg neg s = none := by
  unfold radixFormOf
  simp only []
  split
  · cases hrp : s.dropWhile is09 with
    | nil => rfl
    | cons r rrest =>
      rw [hrp] at hr hR
      simp only [peek, List.headD_cons] at hr hR
      simp only [hr, hR, Bool.or_self, Bool.false_eq_true, ↓reduceIte]
  · rfl

theorem dropWhile_of_peek {s : Bytes} (h : is09 (peek s) = false) : s.dropWhile is09 = s := by
  cases s with
  | nil => rfl
  | cons c cs =>
    simp only [peek, List.headD_cons] at h
    rw [List.dropWhile_cons]
    simp only [h, Bool.false_eq_true, ↓reduceIte]

theorem readNumberBody_core (cfg : Cfg) (s0 : Bytes) (neg : Bool) (s : Bytes)
    (v : NumVal) (rest : Bytes) (hst : Adv s0 s)
    (h : readNumberBody Cfg.core s0 neg s = .ok v rest) :
    SameOK (readNumberBody cfg s0 neg s) s v rest := by
  unfold readNumberBody at h ⊢
  have hc : radixFormOf Cfg.core neg s = none := by
    unfold radixFormOf
    simp only [core_clj, Bool.false_and, Bool.false_eq_true, ↓reduceIte]
  rw [hc] at h
  simp only [] at h
  split at h
  · rename_i h0
    have hus : (peek s == 0x5F) = false := by
      simp only [beq_iff_eq] at h0; rw [h0]; rfl
    have ha : Adv s (adv s) := Adv.adv hus
    obtain ⟨hsame, hd, hstop⟩ := zeroPath_core cfg s0 neg s (adv s) v rest ha (hst.trans ha) h
    have hdw : s.dropWhile is09 = adv s := by
      cases s with
      | nil => rfl
      | cons c cs =>
        simp only [peek, List.headD_cons, beq_iff_eq] at h0
        subst h0
        rw [List.dropWhile_cons]
        simp only [show is09 (48 : UInt8) = true from by decide, ↓reduceIte]
        exact dropWhile_of_peek hd
    rw [radixFormOf_none cfg neg s (hdw ▸ hstop.r) (hdw ▸ hstop.R)]
    simp only [h0, ↓reduceIte]
    exact hsame.mono (suffix_adv s)
  · rename_i h0
    obtain ⟨hsame, hstop⟩ := decPath_core cfg s0 neg s v rest hst h
    rw [radixFormOf_none cfg neg s hstop.r hstop.R]
    simp only [h0, Bool.false_eq_true, ↓reduceIte]
    exact hsame

/-- numbers: whatever the core configuration accepts, every configuration reads identically;
    the rest is a suffix of the input and big-number digit texts contain no underscore -/
theorem readNumber_core_ok_aux (cfg : Cfg) (s : Bytes) (v : NumVal) (rest : Bytes)
    (h : readNumber Cfg.core s = .ok v rest) :
    readNumber cfg s = .ok v rest ∧ rest <:+ s ∧ numNoUS v := by
  rw [readNumber_eq] at h ⊢
  split at h
  · rename_i hc
    simp only [hc, ↓reduceIte]
    have hus : (peek s == 0x5F) = false := by
      simp only [Bool.or_eq_true, beq_iff_eq] at hc
      rcases hc with hc | hc <;> (rw [hc]; rfl)
    exact (readNumberBody_core cfg s _ (adv s) v rest (Adv.adv hus) h).mono (suffix_adv s)
  · rename_i hc
    simp only [hc, Bool.false_eq_true, ↓reduceIte]
    exact readNumberBody_core cfg s false s v rest (Adv.refl s) h

end Edn.Proofs
