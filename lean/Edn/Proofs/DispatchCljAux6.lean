/-
  Edn.Proofs.DispatchCljAux6 — why the whole-document dispatch theorem is not stated on the
  registry-free tree once the Clojure flag is on: two inputs with the same registry-free tree
  and different results under the same registry (kernel-checked on the model).
-/
import Edn.Spec.DispatchClj
namespace Edn.Proofs
open Edn.Model Edn.Spec

namespace CljCounterexample

/-- `id` = the identity handler, `ka` = the handler returning the keyword `:a` -/
def reg (tag : Bytes) : Option Handler :=
  if tag == [0x69, 0x64] then some ⟨"id", fun v => some v⟩
  else if tag == [0x6B, 0x61] then some ⟨"ka", fun _ => some (.kw (mkHdr 0 0) none [0x61])⟩
  else none

def cfg : Cfg := ⟨true, false⟩

def inpP : Bytes := "#:p{#id :a 1}".toUTF8.toList
def inpQ : Bytes := "#:q{#id :a 1}".toUTF8.toList

/-- the fields of a one-entry map whose key is a tagged keyword and whose value is an integer -/
structure Shape where
  hMap : Hdr
  hTagged : Hdr
  tag : Bytes
  hKw : Hdr
  name : Bytes
  hInt : Hdr
  i : Int
deriving DecidableEq

def mkV (p : Shape) : Val :=
  .map p.hMap none [.tagged p.hTagged none p.tag (.kw p.hKw none p.name)] [.int p.hInt p.i]

def shapeOut : Outcome → Option Shape
  | .value (.map h none [.tagged h2 none tag (.kw h3 none nm)] [.int h4 i]) => some ⟨h, h2, tag, h3, nm, h4, i⟩
  | _ => none

theorem shapeOut_sound {o : Outcome} {p : Shape}
    (h : shapeOut o = some p) : o = .value (mkV p) := by
  unfold shapeOut at h
  split at h
  · cases h; rfl
  · cases h

/-- the namespace of the first key of a map result -/
def keyNs : Outcome → Option Bytes
  | .value (.map _ _ (.kw _ (some ns) _ :: _) _) => some ns
  | _ => none

/-- `#:p{#id :a 1}` and `#:q{#id :a 1}` read to the same tree without a registry -/
theorem same_registry_free_tree :
    ∃ v0, (read cfg {} inpP).out = .value v0 ∧ (read cfg {} inpQ).out = .value v0 := by
  have hP : shapeOut (read cfg {} inpP).out
      = some ⟨mkHdr 13 0, mkHdr 9 3, [0x69, 0x64], mkHdr 5 3, [0x61], mkHdr 2 1, 1⟩ := by decide +kernel
  have hQ : shapeOut (read cfg {} inpQ).out
      = some ⟨mkHdr 13 0, mkHdr 9 3, [0x69, 0x64], mkHdr 5 3, [0x61], mkHdr 2 1, 1⟩ := by decide +kernel
  exact ⟨_, shapeOut_sound hP, shapeOut_sound hQ⟩

/-- with the registry the key is qualified with the prefix after the handler returned -/
theorem different_registry_results :
    keyNs (read cfg { registry := some reg } inpP).out = some [0x70] ∧
    keyNs (read cfg { registry := some reg } inpQ).out = some [0x71] := by
  constructor <;> decide +kernel

/-- No function of the registry-free tree gives the result of the registry run (Clojure
    configuration, the registry `reg`, passthrough mode): in particular not
    `fun v0 => dispatchV cfg reg 0 (eraseCache v0)`. -/
theorem registry_free_tree_insufficient :
    ¬ ∃ F : Val → DOne, ∀ (input : Bytes) (v0 : Val), (read cfg {} input).out = .value v0 →
      ReadIs (read cfg { registry := some reg } input) input.length (F v0) := by
  rintro ⟨F, hF⟩
  obtain ⟨v0, hP, hQ⟩ := same_registry_free_tree
  obtain ⟨kP, kQ⟩ := different_registry_results
  have h1 := hF inpP v0 hP
  have h2 := hF inpQ v0 hQ
  rcases hfv : F v0 with ⟨calls, ⟨code, s, e⟩ | v⟩
  · rw [hfv] at h1
    obtain ⟨⟨es, ee, ho, _, _⟩, _⟩ := h1
    rw [ho] at kP
    cases kP
  · rw [hfv] at h1 h2
    have e1 : (read cfg { registry := some reg } inpP).out = .value v := h1.1
    have e2 : (read cfg { registry := some reg } inpQ).out = .value v := h2.1
    rw [e1] at kP
    rw [e2] at kQ
    rw [kP] at kQ
    exact absurd kQ (by decide)

/-! ## stacked annotations: the boundaries between annotations are lost -/

def inpA : Bytes := "^{#id :a 1,,,#ka :b 2} [3]".toUTF8.toList
def inpB : Bytes := "^{#id :a 1}^{#ka :b 2} [3]".toUTF8.toList

/-- the fields of a one-element vector of an integer whose metadata map has two entries
    "tagged keyword ↦ integer" -/
structure ShapeM where
  hVec : Hdr
  hMd : Hdr
  hT1 : Hdr
  tag1 : Bytes
  hK1 : Hdr
  n1 : Bytes
  hI1 : Hdr
  i1 : Int
  hT2 : Hdr
  tag2 : Bytes
  hK2 : Hdr
  n2 : Bytes
  hI2 : Hdr
  i2 : Int
  hX : Hdr
  x : Int
deriving DecidableEq

def mkM (p : ShapeM) : Val :=
  .vec p.hVec (some (.map p.hMd none
    [.tagged p.hT1 none p.tag1 (.kw p.hK1 none p.n1), .tagged p.hT2 none p.tag2 (.kw p.hK2 none p.n2)]
    [.int p.hI1 p.i1, .int p.hI2 p.i2])) [.int p.hX p.x]

def shapeOutM : Outcome → Option ShapeM
  | .value (.vec hv (some (.map hm none
      [.tagged t1 none g1 (.kw k1 none n1), .tagged t2 none g2 (.kw k2 none n2)]
      [.int a1 i1, .int a2 i2])) [.int hx x]) =>
    some ⟨hv, hm, t1, g1, k1, n1, a1, i1, t2, g2, k2, n2, a2, i2, hx, x⟩
  | _ => none

theorem shapeOutM_sound {o : Outcome} {p : ShapeM} (h : shapeOutM o = some p) : o = .value (mkM p) := by
  unfold shapeOutM at h
  split at h
  · cases h; rfl
  · cases h

def theShapeM : ShapeM :=
  ⟨mkHdr 26 0, synthHdr, mkHdr 24 18, [0x69, 0x64], mkHdr 20 18, [0x61], mkHdr 17 16, 1,
    mkHdr 13 7, [0x6B, 0x61], mkHdr 9 7, [0x62], mkHdr 6 5, 2, mkHdr 2 1, 3⟩

/-- `^{#id :a 1,,,#ka :b 2} [3]` and `^{#id :a 1}^{#ka :b 2} [3]` read to the same tree without
    a registry (the entries of all annotations, outermost first, in one synthesised map) -/
theorem same_registry_free_tree_meta :
    ∃ v0, (read cfg {} inpA).out = .value v0 ∧ (read cfg {} inpB).out = .value v0 := by
  have hA : shapeOutM (read cfg {} inpA).out = some theShapeM := by decide +kernel
  have hB : shapeOutM (read cfg {} inpB).out = some theShapeM := by decide +kernel
  exact ⟨_, shapeOutM_sound hA, shapeOutM_sound hB⟩

/-- with the registry (`#ka :b` ↦ `:a`): one annotation with two keys `:a` is a DUPLICATE_KEY
    error over the annotation map (offsets 1 … 22), two annotations merge silently; the same
    two calls are made in both -/
theorem different_registry_results_meta :
    (match (read cfg { registry := some reg } inpA).out with
      | .error code es ee => code == .duplicateKey && es.offset == 1 && ee.offset == 22
      | _ => false) = true ∧
    (match (read cfg { registry := some reg } inpB).out with
      | .value (.vec _ (some (.map _ _ [.kw _ none n] [.int _ 1])) [_]) => n == [0x61]
      | _ => false) = true ∧
    (read cfg { registry := some reg } inpA).calls = [⟨"id", 20, 18⟩, ⟨"ka", 9, 7⟩] ∧
    (read cfg { registry := some reg } inpB).calls = [⟨"id", 20, 18⟩, ⟨"ka", 9, 7⟩] := by
  refine ⟨?_, ?_, ?_, ?_⟩ <;> decide +kernel

end CljCounterexample
end Edn.Proofs
