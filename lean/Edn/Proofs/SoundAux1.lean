/-
  Edn.Proofs.SoundAux1 — structural facts about the liberal grammar (`Edn.Spec.Grammar`):
  the nesting bound is monotone, blanks compose, a form is never empty; the inversion of the
  whitespace skipper into `Blank`; byte facts about the dispatch table of the core configuration.
-/
import Edn.Spec.Grammar
import Edn.Proofs.Trivia
import Edn.Proofs.CompleteAux2

namespace Edn.Proofs.Snd
open Edn.Model Edn.Spec Edn.Generated Edn.Proofs

/-! ### the nesting bound is monotone -/

mutual
theorem form_mono : ∀ {k : Nat} {a : Val} {tok rest : Bytes}, Form k a tok rest → ∀ k', k ≤ k' → Form k' a tok rest
  | _, _, _, _, .blank k a tr tok rest ht h, k', hk => .blank k' a tr tok rest ht (form_mono h k' hk)
  | _, _, _, _, .discard k a b tok1 tok2 rest hd h, k', hk => by
    cases k' with
    | zero => omega
    | succ k'' => exact .discard k'' a b tok1 tok2 rest (form_mono hd k'' (by omega)) (form_mono h (k'' + 1) (by omega))
  | _, _, _, _, .number k tok rest v hn ht, k', _ => .number k' tok rest v hn ht
  | _, _, _, _, .ident k tok rest a hl hs hd ht, k', _ => .ident k' tok rest a hl hs hd ht
  | _, _, _, _, .str k sp rest h, k', _ => .str k' sp rest h
  | _, _, _, _, .char k body rest cp h hcp ht, k', _ => .char k' body rest cp h hcp ht
  | _, _, _, _, .symbolic k tok rest bits h, k', _ => .symbolic k' tok rest bits h
  | _, _, _, _, .list k xs body rest h, k', hk => by
    cases k' with
    | zero => omega
    | succ k'' => exact .list k'' xs body rest (formSeq_mono h k'' (by omega))
  | _, _, _, _, .vec k xs body rest h, k', hk => by
    cases k' with
    | zero => omega
    | succ k'' => exact .vec k'' xs body rest (formSeq_mono h k'' (by omega))
  | _, _, _, _, .set k xs body rest h hd, k', hk => by
    cases k' with
    | zero => omega
    | succ k'' => exact .set k'' xs body rest (formSeq_mono h k'' (by omega)) hd
  | _, _, _, _, .map k ks vs body rest h hl hd, k', hk => by
    cases k' with
    | zero => omega
    | succ k'' => exact .map k'' ks vs body rest (formSeq_mono h k'' (by omega)) hl hd
  | _, _, _, _, .tagged k tag ns nm a tok rest hl hd hu hsep h, k', hk => by
    cases k' with
    | zero => omega
    | succ k'' => exact .tagged k'' tag ns nm a tok rest hl hd hu hsep (form_mono h k'' (by omega))

theorem formSeq_mono : ∀ {k : Nat} {xs : List Val} {body after : Bytes}, FormSeq k xs body after →
    ∀ k', k ≤ k' → FormSeq k' xs body after
  | _, _, _, _, .nil k tr after ht, k', hk => .nil k' tr after (trail_mono ht k' hk)
  | _, _, _, _, .cons k a xs tok body after h hr, k', hk =>
    .cons k' a xs tok body after (form_mono h k' hk) (formSeq_mono hr k' hk)

theorem trail_mono : ∀ {k : Nat} {tr after : Bytes}, Trail k tr after → ∀ k', k ≤ k' → Trail k' tr after
  | _, _, _, .blank k tr after ht, k', _ => .blank k' tr after ht
  | _, _, _, .discard k b tr tok tr' after ht hd hr, k', hk => by
    cases k' with
    | zero => omega
    | succ k'' => exact .discard k'' b tr tok tr' after ht (form_mono hd k'' (by omega)) (trail_mono hr (k'' + 1) (by omega))
end

/-! ### blanks -/

theorem blank_append {a b : Bytes} (ha : Blank a) (hb : Blank b) : Blank (a ++ b) := by
  induction ha with
  | nil => exact hb
  | ws c t hw _ ih => exact .ws c (t ++ b) hw ih
  | comment body t hbd _ ih =>
    have e : 0x3B :: (body ++ 0x0A :: t) ++ b = 0x3B :: (body ++ 0x0A :: (t ++ b)) := by simp
    rw [e]
    exact .comment body (t ++ b) hbd ih

/-- blanks in front of a trail -/
theorem trail_blank {k : Nat} {tr tr' after : Bytes} (hb : Blank tr) (h : Trail k tr' after) :
    Trail k (tr ++ tr') after := by
  cases h with
  | blank _ _ _ ht => exact .blank k _ after (blank_append hb ht)
  | discard k b tr0 tok tr1 _ ht hd hr =>
    have e : tr ++ (tr0 ++ 0x23 :: 0x5F :: (tok ++ tr1)) = (tr ++ tr0) ++ 0x23 :: 0x5F :: (tok ++ tr1) := by simp
    rw [e]
    exact .discard k b (tr ++ tr0) tok tr1 after (blank_append hb ht) hd hr

/-! ### the whitespace skipper, inverted -/

theorem skipWsScalarAux_inv : ∀ (s : Bytes) (c : UInt8) (cs : Bytes),
    (skipWsScalarAux false s = c :: cs → ∃ tr, Blank tr ∧ s = tr ++ c :: cs) ∧
    (skipWsScalarAux true s = c :: cs →
      ∃ body tr, (∀ b ∈ body, b ≠ 0x0A) ∧ Blank tr ∧ s = body ++ 0x0A :: (tr ++ c :: cs)) := by
  intro s
  induction s with
  | nil =>
    intro c cs
    constructor <;> intro h <;> simp [skipWsScalarAux] at h
  | cons x xs ih =>
    intro c cs
    constructor
    · intro h
      rw [skipWsScalarAux_false_cons] at h
      by_cases h1 : (x == 0x3B) = true
      · rw [if_pos h1] at h
        obtain ⟨body, tr, hb, ht, rfl⟩ := (ih c cs).2 h
        have hx : x = 0x3B := by simpa using h1
        subst hx
        refine ⟨0x3B :: (body ++ 0x0A :: tr), .comment body tr hb ht, by simp⟩
      · rw [if_neg h1] at h
        by_cases h2 : isWs x = true
        · rw [if_pos h2] at h
          obtain ⟨tr, ht, rfl⟩ := (ih c cs).1 h
          exact ⟨x :: tr, .ws x tr h2 ht, rfl⟩
        · rw [if_neg h2] at h
          exact ⟨[], .nil, h⟩
    · intro h
      rw [skipWsScalarAux] at h
      by_cases h1 : (x == 0x0A) = true
      · rw [if_pos h1] at h
        obtain ⟨tr, ht, rfl⟩ := (ih c cs).1 h
        have hx : x = 0x0A := by simpa using h1
        subst hx
        exact ⟨[], tr, by simp, ht, rfl⟩
      · rw [if_neg h1] at h
        obtain ⟨body, tr, hb, ht, rfl⟩ := (ih c cs).2 h
        refine ⟨x :: body, tr, ?_, ht, rfl⟩
        intro b hbm
        rcases List.mem_cons.mp hbm with rfl | hbm
        · simpa using h1
        · exact hb b hbm

/-- what the skipper removed in front of a byte is blank -/
theorem skipWs_inv {s : Bytes} {c : UInt8} {cs : Bytes} (h : skipWs s = c :: cs) :
    ∃ tr, Blank tr ∧ s = tr ++ c :: cs := by
  rw [skipWs_eq] at h
  exact (skipWsScalarAux_inv s c cs).1 h

/-- the bytes `readValue` dispatches on, and the blanks in front of them -/
theorem preSkip_inv {c0 : UInt8} {t : Bytes} {c : UInt8} {cs : Bytes}
    (h : (if isPreWs c0 = true then skipWs (c0 :: t) else c0 :: t) = c :: cs) :
    ∃ tr, Blank tr ∧ c0 :: t = tr ++ c :: cs := by
  by_cases hp : isPreWs c0 = true
  · rw [if_pos hp] at h
    exact skipWs_inv h
  · rw [if_neg hp] at h
    exact ⟨[], .nil, h⟩

/-! ### the dispatch table of the core configuration -/

def coreDispFacts (c : UInt8) : Bool :=
  (!decide (dispatch Cfg.core c = .string) || c == 0x22) &&
  (!decide (dispatch Cfg.core c = .character) || c == 0x5C) &&
  (!decide (dispatch Cfg.core c = .listOpen) || c == 0x28) &&
  (!decide (dispatch Cfg.core c = .vectorOpen) || c == 0x5B) &&
  (!decide (dispatch Cfg.core c = .mapOpen) || c == 0x7B) &&
  (!decide (dispatch Cfg.core c = .hash) || c == 0x23) &&
  (!decide (dispatch Cfg.core c = .delimiter) || (c == 0x29 || c == 0x5D || c == 0x7D)) &&
  !decide (dispatch Cfg.core c = .metadata) &&
  (!decide (dispatch Cfg.core c = .identifier) || !(c == 0x2B || c == 0x2D || is09 c)) &&
  (isDelim c || (decide (dispatch Cfg.core c = .identifier) || decide (dispatch Cfg.core c = .sign) || decide (dispatch Cfg.core c = .digit))) &&
  (!isDelim c || !(is09 c || c == 0x2B || c == 0x2D || c == 0x5F || c == 0x3A)) &&
  (!(isWs c || c == 0x3B) || isDelim c)

theorem coreDispFacts_all : ∀ c, coreDispFacts c = true := forall_u8_bool _ (by decide +kernel)

theorem disp_string {c : UInt8} (h : dispatch Cfg.core c = .string) : c = 0x22 := by
  have := coreDispFacts_all c
  simp only [coreDispFacts, h, Bool.and_eq_true] at this
  simpa using this.1.1.1.1.1.1.1.1.1.1.1

theorem disp_character {c : UInt8} (h : dispatch Cfg.core c = .character) : c = 0x5C := by
  have := coreDispFacts_all c
  simp only [coreDispFacts, h, Bool.and_eq_true] at this
  simpa using this.1.1.1.1.1.1.1.1.1.1.2

theorem disp_listOpen {c : UInt8} (h : dispatch Cfg.core c = .listOpen) : c = 0x28 := by
  have := coreDispFacts_all c
  simp only [coreDispFacts, h, Bool.and_eq_true] at this
  simpa using this.1.1.1.1.1.1.1.1.1.2

theorem disp_vectorOpen {c : UInt8} (h : dispatch Cfg.core c = .vectorOpen) : c = 0x5B := by
  have := coreDispFacts_all c
  simp only [coreDispFacts, h, Bool.and_eq_true] at this
  simpa using this.1.1.1.1.1.1.1.1.2

theorem disp_mapOpen {c : UInt8} (h : dispatch Cfg.core c = .mapOpen) : c = 0x7B := by
  have := coreDispFacts_all c
  simp only [coreDispFacts, h, Bool.and_eq_true] at this
  simpa using this.1.1.1.1.1.1.1.2

theorem disp_hash {c : UInt8} (h : dispatch Cfg.core c = .hash) : c = 0x23 := by
  have := coreDispFacts_all c
  simp only [coreDispFacts, h, Bool.and_eq_true] at this
  simpa using this.1.1.1.1.1.1.2

theorem disp_delimiter {c : UInt8} (h : dispatch Cfg.core c = .delimiter) : c = 0x29 ∨ c = 0x5D ∨ c = 0x7D := by
  have := coreDispFacts_all c
  simp only [coreDispFacts, h, Bool.and_eq_true] at this
  simpa [or_assoc] using this.1.1.1.1.1.2

theorem disp_not_metadata (c : UInt8) : dispatch Cfg.core c ≠ .metadata := by
  intro h
  have := coreDispFacts_all c
  simp only [coreDispFacts, h, Bool.and_eq_true] at this
  simpa using this.1.1.1.1.2

theorem disp_identifier {c : UInt8} (h : dispatch Cfg.core c = .identifier) :
    c ≠ 0x2B ∧ c ≠ 0x2D ∧ is09 c = false := by
  have := coreDispFacts_all c
  simp only [coreDispFacts, h, Bool.and_eq_true] at this
  simpa [and_assoc] using this.1.1.1.2

theorem nondelim_disp {c : UInt8} (h : isDelim c = false) :
    dispatch Cfg.core c = .identifier ∨ dispatch Cfg.core c = .sign ∨ dispatch Cfg.core c = .digit := by
  have := coreDispFacts_all c
  simp only [coreDispFacts, h, Bool.and_eq_true] at this
  simpa [or_assoc] using this.1.1.2

theorem delim_facts {c : UInt8} (h : isDelim c = true) :
    is09 c = false ∧ c ≠ 0x2B ∧ c ≠ 0x2D ∧ c ≠ 0x5F ∧ c ≠ 0x3A := by
  have := coreDispFacts_all c
  simp only [coreDispFacts, h, Bool.and_eq_true] at this
  simpa [and_assoc] using this.1.2

theorem ws_delim {c : UInt8} (h : (isWs c || c == 0x3B) = true) : isDelim c = true := by
  have := coreDispFacts_all c
  simp only [coreDispFacts, h, Bool.and_eq_true] at this
  simpa using this.2

theorem is09_iff (c : UInt8) : is09 c = true ↔ (0x30 ≤ c ∧ c ≤ 0x39) := by
  simp [is09]

end Edn.Proofs.Snd
