/-
  Edn.Proofs.CompleteNum — C03/C04, token level: decimal integer literals are read exactly as
  rendered, in every context and configuration: as the 64-bit integer equal to their value
  when it fits, as a big integer with the literal's sign and digits otherwise or with `N`.
-/
import Edn.Spec.Renders
import Edn.Proofs.Fuel
import Edn.Proofs.Number
import Edn.Proofs.Scan

namespace Edn.Proofs
open Edn.Model Edn.Spec

/-- `edn_read_number` itself on a decimal integer token followed by a terminator -/
theorem readNumber_decimal (cfg : Cfg) (sg ds : Bytes) (neg : Bool) (rest : Bytes)
    (hs : SignTok sg neg) (hd : DecDigits ds) (ht : TermStart rest) :
    readNumber cfg (sg ++ ds ++ rest) =
      .ok (if (if neg then natOfDigits ds ≤ 9223372036854775808 else natOfDigits ds ≤ 9223372036854775807)
           then .int (if neg then -(natOfDigits ds : Int) else (natOfDigits ds : Int))
           else .bigint neg 10 ds) rest := by
  sorry

theorem readNumber_decimalN (cfg : Cfg) (sg ds : Bytes) (neg : Bool) (rest : Bytes)
    (hs : SignTok sg neg) (hd : DecDigits ds) (ht : TermStart rest) :
    readNumber cfg (sg ++ ds ++ 0x4E :: rest) = .ok (.bigint neg 10 ds) rest := by
  sorry

theorem reads_int (cfg : Cfg) (opts : Opts) (d : Nat) (sg ds : Bytes) (neg : Bool) (hs : SignTok sg neg) (hd : DecDigits ds)
    (hr : if neg then natOfDigits ds ≤ 9223372036854775808 else natOfDigits ds ≤ 9223372036854775807) :
    Reads cfg opts d (.int hdr0 (if neg then -(natOfDigits ds : Int) else (natOfDigits ds : Int))) (sg ++ ds) := by
  sorry

theorem reads_bigOverflow (cfg : Cfg) (opts : Opts) (d : Nat) (sg ds : Bytes) (neg : Bool) (hs : SignTok sg neg) (hd : DecDigits ds)
    (hr : ¬ (if neg then natOfDigits ds ≤ 9223372036854775808 else natOfDigits ds ≤ 9223372036854775807)) :
    Reads cfg opts d (.bigint hdr0 neg 10 ds) (sg ++ ds) := by
  sorry

theorem reads_bigN (cfg : Cfg) (opts : Opts) (d : Nat) (sg ds : Bytes) (neg : Bool) (hs : SignTok sg neg) (hd : DecDigits ds) :
    Reads cfg opts d (.bigint hdr0 neg 10 ds) (sg ++ ds ++ [0x4E]) := by
  sorry

end Edn.Proofs
