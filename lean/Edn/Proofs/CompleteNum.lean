/-
  Edn.Proofs.CompleteNum — C03/C04, token level: decimal integer literals are read exactly as
  rendered, in every context and configuration: as the 64-bit integer equal to their value
  when it fits, as a big integer with the literal's sign and digits otherwise or with `N`.
-/
import Edn.Spec.Renders
import Edn.Proofs.Fuel
import Edn.Proofs.Number
import Edn.Proofs.Scan
import Edn.Proofs.CompleteNumAux1

namespace Edn.Proofs
open Edn.Model Edn.Spec

/-- `edn_read_number` itself on a decimal integer token followed by a terminator -/
theorem readNumber_decimal (cfg : Cfg) (sg ds : Bytes) (neg : Bool) (rest : Bytes)
    (hs : SignTok sg neg) (hd : DecDigits ds) (ht : TermStart rest) :
    readNumber cfg (sg ++ ds ++ rest) =
      .ok (if (if neg then natOfDigits ds ≤ 9223372036854775808 else natOfDigits ds ≤ 9223372036854775807)
           then .int (if neg then -(natOfDigits ds : Int) else (natOfDigits ds : Int))
           else .bigint neg 10 ds) rest := by
  obtain ⟨hall, hz | ⟨d, t, rfl, hnz⟩⟩ := CNum.decDigits_cases hd
  · subst hz
    have hst := CNum.term_props (CNum.peek_term ht)
    have h2 := CNum.stopProps2_unpack hst
    rw [List.append_assoc, CNum.readNumber_sign cfg sg _ neg hs (by rfl)]
    have hz : natOfDigits [0x30] = 0 := by decide
    simp only [List.singleton_append, CNum.numBody_zero_aux cfg _ neg rest h2.1, h2.2.1, h2.2.2.1,
      h2.2.2.2, Bool.and_false, Bool.false_eq_true, ↓reduceIte, CNum.finishNum_term _ ht, hz]
    cases neg <;> simp
  · have hst := CNum.term_props (CNum.peek_term ht)
    have h2 := CNum.stopProps2_unpack hst
    rw [List.append_assoc, CNum.readNumber_sign cfg sg (d :: t ++ rest) neg hs (hall d (by simp))]
    rw [CNum.numBody_nonzero cfg _ neg d t rest hall hnz h2.1,
      CNum.afterMantissa_plain cfg _ neg (d :: t) rest hst, CNum.finishNum_term _ ht,
      CNum.intOrBig_decimal cfg (d :: t) neg (by simp) hall]

theorem readNumber_decimalN (cfg : Cfg) (sg ds : Bytes) (neg : Bool) (rest : Bytes)
    (hs : SignTok sg neg) (hd : DecDigits ds) (ht : TermStart rest) :
    readNumber cfg (sg ++ ds ++ 0x4E :: rest) = .ok (.bigint neg 10 ds) rest := by
  have hN : CNum.stopProps (peek (0x4E :: rest)) = true := by
    show CNum.stopProps 0x4E = true
    decide
  obtain ⟨hall, hz | ⟨d, t, rfl, hnz⟩⟩ := CNum.decDigits_cases hd
  · subst hz
    rw [List.append_assoc, CNum.readNumber_sign cfg sg _ neg hs (by rfl)]
    simp only [List.singleton_append, CNum.numBody_zero_aux cfg _ neg _ hN]
    exact CNum.finishNum_term _ ht
  · rw [List.append_assoc, CNum.readNumber_sign cfg sg (d :: t ++ 0x4E :: rest) neg hs (hall d (by simp))]
    rw [CNum.numBody_nonzero cfg _ neg d t _ hall hnz hN,
      CNum.afterMantissa_N cfg _ neg (d :: t) rest hall, CNum.finishNum_term _ ht]

theorem reads_int (cfg : Cfg) (opts : Opts) (d : Nat) (sg ds : Bytes) (neg : Bool) (hs : SignTok sg neg) (hd : DecDigits ds)
    (hr : if neg then natOfDigits ds ≤ 9223372036854775808 else natOfDigits ds ≤ 9223372036854775807) :
    Reads cfg opts d (.int hdr0 (if neg then -(natOfDigits ds : Int) else (natOfDigits ds : Int))) (sg ++ ds) := by
  have h1 := CNum.tok_first hs hd []
  rw [List.append_nil] at h1
  refine CNum.reads_number cfg opts d (sg ++ ds)
    (.int (if neg then -(natOfDigits ds : Int) else (natOfDigits ds : Int))) _ h1 ?_ (fun _ => rfl)
  intro rest ht
  rw [readNumber_decimal cfg sg ds neg rest hs hd ht, if_pos hr]

theorem reads_bigOverflow (cfg : Cfg) (opts : Opts) (d : Nat) (sg ds : Bytes) (neg : Bool) (hs : SignTok sg neg) (hd : DecDigits ds)
    (hr : ¬ (if neg then natOfDigits ds ≤ 9223372036854775808 else natOfDigits ds ≤ 9223372036854775807)) :
    Reads cfg opts d (.bigint hdr0 neg 10 ds) (sg ++ ds) := by
  have h1 := CNum.tok_first hs hd []
  rw [List.append_nil] at h1
  refine CNum.reads_number cfg opts d (sg ++ ds) (.bigint neg 10 ds) _ h1 ?_ (fun _ => rfl)
  intro rest ht
  rw [readNumber_decimal cfg sg ds neg rest hs hd ht, if_neg hr]

theorem reads_bigN (cfg : Cfg) (opts : Opts) (d : Nat) (sg ds : Bytes) (neg : Bool) (hs : SignTok sg neg) (hd : DecDigits ds) :
    Reads cfg opts d (.bigint hdr0 neg 10 ds) (sg ++ ds ++ [0x4E]) := by
  refine CNum.reads_number cfg opts d (sg ++ ds ++ [0x4E]) (.bigint neg 10 ds) _
    (CNum.tok_first hs hd [0x4E]) ?_ (fun _ => rfl)
  intro rest ht
  rw [List.append_assoc, List.singleton_append]
  exact readNumber_decimalN cfg sg ds neg rest hs hd ht

end Edn.Proofs
