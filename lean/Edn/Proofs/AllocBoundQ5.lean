/-
  Edn.Proofs.AllocBoundQ5 — induction over the six readers, part 1: the relation `RelL` for the
  functions entered after an opening byte read when `L0 + 1` bytes were left (that byte paid four
  requests, two of which they may use, and reserved `Rsv L0 = 16 * (L0 + 1)²` for the looks of the
  duplicate check / metadata merge at the end of the form), and the step of `readValueA`.
  Port of Edn.Proofs.AllocBoundAux5.
-/
import Edn.Proofs.AllocBoundQ3
import Edn.Proofs.AllocBoundQ4
import Edn.Proofs.AllocBoundAux5

namespace Edn.Proofs.AllocBoundQ
open Edn.Model Edn.Proofs Edn.Proofs.AllocBasic Edn.Proofs.AllocBound

/-- what the opening byte reserves for the looks at the end of the form -/
def Rsv (L0 : Nat) : Nat := 16 * ((L0 + 1) * (L0 + 1))

theorem Pot_open' {L1 L0 L : Nat} (h1 : L1 ≤ L0) (h0 : L0 + 1 ≤ L) : Pot L1 + 4 + Rsv L0 ≤ Pot L :=
  Pot_open h1 h0

/-- `S` nodes out of at most `2 * L0`: the reserve pays four requests per pair -/
theorem Rsv_pays {S L0 : Nat} (h : S ≤ 2 * L0) : 4 * (S * S) ≤ Rsv L0 := by
  have h1 : S * S ≤ (2 * (L0 + 1)) * (2 * (L0 + 1)) := Nat.mul_le_mul (by omega) (by omega)
  have h2 : (2 * (L0 + 1)) * (2 * (L0 + 1)) = 4 * ((L0 + 1) * (L0 + 1)) := by grind
  unfold Rsv
  omega

theorem Rsv_pays2 {A B L0 : Nat} (hA : A ≤ 2 * L0) (hB : B ≤ 2 * L0 + 2) : 2 * (A * B) ≤ Rsv L0 := by
  have h1 : A * B ≤ (2 * (L0 + 1)) * (2 * (L0 + 1)) := Nat.mul_le_mul (by omega) (by omega)
  have h2 : (2 * (L0 + 1)) * (2 * (L0 + 1)) = 4 * ((L0 + 1) * (L0 + 1)) := by grind
  unfold Rsv
  omega

/-- the relation for `readSeqA` … `readMetaA` -/
def RelL (L0 : Nat) (st : St) (a : ASt) (r : Res × ASt) : Prop :=
  r.2.arena = .alive ∧
  match r.1 with
  | .ok v st' => sz v + 2 * st'.rest.length ≤ 2 * L0 + 2 ∧
      r.2.reqs + Pot st'.rest.length ≤ a.reqs + Pot st.rest.length + 2 + Rsv L0
  | .closer st' => st'.rest.length ≤ L0 ∧
      r.2.reqs + Pot st'.rest.length ≤ a.reqs + Pot st.rest.length + 2 + Rsv L0
  | .err _ _ => r.2.reqs ≤ a.reqs + Pot st.rest.length + 4 + Rsv L0

theorem RelL.toV {L0 : Nat} {st1 st : St} {a : ASt} {r : Res × ASt} (h : RelL L0 st1 a r)
    (h1 : st1.rest.length ≤ L0) (h0 : L0 + 1 ≤ st.rest.length) : RelV st a r := by
  obtain ⟨ha, h2⟩ := h
  refine ⟨ha, ?_⟩
  have hp := Pot_open' h1 h0
  rcases r with ⟨r, a'⟩
  cases r with
  | ok v st' => exact ⟨by have := h2.1; somega, by have := h2.2; somega⟩
  | closer st' => exact ⟨by have := h2.1; somega, by have := h2.2; somega⟩
  | err e st' => simp only at h2 ⊢; omega

theorem RelV.mono {st1 st : St} {a : ASt} {r : Res × ASt} (h : RelV st1 a r)
    (hlen : st1.rest.length ≤ st.rest.length) : RelV st a r := by
  obtain ⟨ha, h2⟩ := h
  refine ⟨ha, ?_⟩
  have hp := Pot_mono hlen
  rcases r with ⟨r, a'⟩
  cases r with
  | ok v st' => exact ⟨by have := h2.1; somega, by have := h2.2; somega⟩
  | closer st' => exact ⟨by have := h2.1; somega, by have := h2.2; somega⟩
  | err e st' => simp only at h2 ⊢; omega

/-- sequencing: a result related to an intermediate state whose cost the bytes read so far paid for -/
theorem RelV.after {st1 st : St} {a1 a : ASt} {r : Res × ASt} (h : RelV st1 a1 r)
    (hlen : st1.rest.length ≤ st.rest.length)
    (hc : a1.reqs + Pot st1.rest.length ≤ a.reqs + Pot st.rest.length) : RelV st a r := by
  obtain ⟨ha, h2⟩ := h
  refine ⟨ha, ?_⟩
  rcases r with ⟨r, a'⟩
  cases r with
  | ok v st' => exact ⟨by have := h2.1; somega, by have := h2.2; somega⟩
  | closer st' => exact ⟨by have := h2.1; somega, by have := h2.2; somega⟩
  | err e st' => simp only at h2 ⊢; omega

theorem RelL.after {L0 : Nat} {st1 st : St} {a1 a : ASt} {r : Res × ASt} (h : RelL L0 st1 a1 r)
    (hc : a1.reqs + Pot st1.rest.length ≤ a.reqs + Pot st.rest.length) : RelL L0 st a r := by
  obtain ⟨ha, h2⟩ := h
  refine ⟨ha, ?_⟩
  rcases r with ⟨r, a'⟩
  cases r with
  | ok v st' => exact ⟨h2.1, by have := h2.2; somega⟩
  | closer st' => exact ⟨h2.1, by have := h2.2; somega⟩
  | err e st' => simp only at h2 ⊢; omega

/-! ## the six readers -/

section
variable {x : ACtx} (H : HypQ x)

abbrev BV (x : ACtx) (f : Nat) : Prop :=
  ∀ d dm st a, a.arena = .alive → RelV st a (readValueA x f d dm st a)
abbrev BS (x : ACtx) (f : Nat) : Prop :=
  ∀ d dm kind start st a b acc L0, a.arena = .alive → szL acc + 2 * st.rest.length ≤ 2 * L0 →
    RelL L0 st a (readSeqA x f d dm kind start st a b acc)
abbrev BM (x : ACtx) (f : Nat) : Prop :=
  ∀ d dm start ns st a b ks vs L0, a.arena = .alive → szL ks + szL vs + 2 * st.rest.length ≤ 2 * L0 →
    RelL L0 st a (readMapA x f d dm start ns st a b ks vs)
abbrev BN (x : ACtx) (f : Nat) : Prop :=
  ∀ d dm start st a L0, a.arena = .alive → st.rest.length ≤ L0 →
    RelL L0 st a (readNsMapA x f d dm start st a)
abbrev BT (x : ACtx) (f : Nat) : Prop :=
  ∀ d dm start st a L0, a.arena = .alive → st.rest.length ≤ L0 →
    RelL L0 st a (readTaggedA x f d dm start st a)
abbrev BMe (x : ACtx) (f : Nat) : Prop :=
  ∀ d dm start st a L0, a.arena = .alive → st.rest.length ≤ L0 →
    RelL L0 st a (readMetaA x f d dm start st a)

include H

omit H in
/-- `#_ form form` -/
theorem discardA_rel (f : Nat) (hV : BV x f) (d : Nat) (dm : Bool) (st0 : St) (e : ErrInfo) (a : ASt)
    (ha : a.arena = .alive) :
    RelV st0 a (match readValueA x f (d + 1) true st0 a with
      | (.ok _ st', a') => readValueA x f d dm st' a'
      | (.closer st', a') => (.err e st', a')
      | (.err e' st', a') => (.err e' st', a')) := by
  have h1 := hV (d + 1) true st0 a ha
  rcases hq : readValueA x f (d + 1) true st0 a with ⟨r, a'⟩
  rw [hq] at h1
  obtain ⟨ha', h1c⟩ := h1
  cases r with
  | ok v st' =>
    dsimp only at h1c ⊢
    have h2 := hV d dm st' a' ha'
    exact h2.after (by have := h1c.1; omega) (by have := h1c.2; omega)
  | closer st' => dsimp only at h1c ⊢; exact ⟨ha', by somega⟩
  | err e' st' => dsimp only at h1c ⊢; exact ⟨ha', by somega⟩

theorem readValueA_bstep (f : Nat) (hV : BV x f) (hS : BS x f) (hM : BM x f) (hN : BN x f)
    (hT : BT x f) (hMe : BMe x f) : BV x (f + 1) := by
  intro d dm st a ha
  unfold readValueA
  dsimp only
  have noCost : ∀ (e : ErrInfo) (st' : St), RelV st a (.err e st', a) :=
    fun e st' => ⟨ha, by simp only; omega⟩
  split
  · exact noCost _ _
  · next c0 t hs0 =>
    have hpre := pre_suffix c0 st.rest
    generalize (if isPreWs c0 = true then skipWs st.rest else st.rest) = s at hpre ⊢
    cases s with
    | nil => exact noCost _ _
    | cons c cs =>
      dsimp only
      have hsuf1 : (c :: cs) <:+ st.rest := hpre
      have hlen1 := hsuf1.length_le
      simp only [List.length_cons] at hlen1
      let stc : St := { rest := c :: cs, calls := st.calls }
      let sto : St := { rest := cs, calls := st.calls }
      -- a result obtained from the state at `c :: cs`
      have up : ∀ r, RelV stc a r → RelV st a r :=
        fun r h => h.mono (by simp only [stc, List.length_cons]; omega)
      -- a result obtained after the opening byte
      have upL : ∀ r, RelL cs.length sto a r → RelV st a r :=
        fun r h => h.toV (Nat.le_refl _) (by omega)
      have hnil : szL [] + 2 * sto.rest.length ≤ 2 * cs.length := by simp [szL, sto]
      have hnil2 : szL [] + szL [] + 2 * sto.rest.length ≤ 2 * cs.length := by simp [szL, sto]
      split
      · next hdisp =>
        exact up _ (readStringA_rel H stc a ha cs (congrArg (· :: cs) (dispatch_string hdisp)))
      · exact up _ (readCharacterA_rel H stc a ha (readCharacter_progress x.ctx stc (List.cons_ne_nil _ _)))
      · split
        · exact noCost _ _
        · exact upL _ (hS _ _ _ _ sto a _ _ _ ha hnil)
      · split
        · exact noCost _ _
        · exact upL _ (hS _ _ _ _ sto a _ _ _ ha hnil)
      · split
        · exact noCost _ _
        · exact upL _ (hM _ _ _ _ sto a _ _ _ _ ha hnil2)
      · -- `#`
        split
        · next nx cs' =>
          simp only [List.length_cons] at hlen1
          split
          · exact up _ (readSymbolicA_rel H stc a ha (readSymbolic_progress x.ctx stc (by simp [stc])))
          · split
            · exact noCost _ _
            · split
              · exact (hS _ _ _ _ { rest := cs', calls := st.calls } a _ _ cs'.length ha (by simp [szL])).toV
                  (Nat.le_refl _) (by omega)
              · split
                · exact (discardA_rel f hV d dm { rest := cs', calls := st.calls } _ a ha).mono
                    (by simp only; omega)
                · split
                  · exact upL _ (hN _ _ _ sto a _ ha (Nat.le_refl _))
                  · exact upL _ (hT _ _ _ sto a _ ha (Nat.le_refl _))
        · exact upL _ (hT _ _ _ sto a _ ha (Nat.le_refl _))
      · -- sign
        next hdisp =>
        have hsg := dispatch_sign hdisp
        split
        · next nx t =>
          split
          · next hnx =>
            exact up _ (readNumberResA_rel H stc a ha
              (readNumberRes_progress x.ctx stc c (nx :: t) rfl (Or.inr ⟨hsg, nx, t, rfl, hnx⟩)))
          · exact up _ (readIdentifierA_rel H stc a ha)
        · exact up _ (readIdentifierA_rel H stc a ha)
      · next hdisp =>
        exact up _ (readNumberResA_rel H stc a ha
          (readNumberRes_progress x.ctx stc c cs rfl (Or.inl (dispatch_digit hdisp))))
      · split
        · exact noCost _ _
        · exact ⟨ha, by simp only [List.length_cons]; omega,
            by have := Pot_mono (L' := (c :: cs).length) (L := st.rest.length) (by simp only [List.length_cons]; omega)
               simp only at this ⊢; omega⟩
      · split
        · exact noCost _ _
        · exact upL _ (hMe _ _ _ sto a _ ha (Nat.le_refl _))
      · exact up _ (readIdentifierA_rel H stc a ha)

end

end Edn.Proofs.AllocBoundQ
