/-
  Edn.Proofs.SoundAux5 — soundness of the element loops (`readSeq`, `readMap`) and of
  `readTagged`, given the soundness of the functions they call.
-/
import Edn.Proofs.SoundAux4

namespace Edn.Proofs.Snd
open Edn.Model Edn.Spec Edn.Generated Edn.Proofs

theorem elems_cons {d : Nat} {v : Val} {acc : List Val} (_hd : d < Tables.maxNestingDepth)
    (hv : ValOK Cfg.core (d + 1) v) (h : Elems Cfg.core acc) : Elems Cfg.core (v :: acc) := by
  intro x hx
  rcases List.mem_cons.mp hx with rfl | hx
  · obtain ⟨h1, h2, h3⟩ := hv
    refine ⟨?_, h2, h3⟩
    have := nest_le_rec
    show depth x < Tables.maxRecursionDepth + 1
    omega
  · exact h x hx

theorem elems_reverse {xs : List Val} (h : Elems Cfg.core xs) : Elems Cfg.core xs.reverse :=
  fun x hx => h x (List.mem_reverse.mp hx)

theorem stripL_snoc (acc : List Val) (v : Val) (xs : List Val) :
    stripL (v :: acc).reverse ++ xs = stripL acc.reverse ++ strip v :: xs := by
  rw [List.reverse_cons, Cmpl.stripL_append, Cmpl.stripL_cons, Cmpl.stripL_nil]
  simp

/-- the duplicate check passed: the elements are pairwise distinct, and come back with the same content -/
theorem noDup_facts {xs ys : List Val} (hel : Elems Cfg.core xs) (h : hasDuplicates Cfg.core xs = (false, ys)) :
    stripL ys = stripL xs ∧ pairwiseDistinct Cfg.core (stripL xs) := by
  obtain ⟨h1, -, -, -, -⟩ := hasDuplicates_iff Cfg.core xs hel
  have e2 := Cmpl.stripL_hasDuplicates Cfg.core xs
  rw [h] at h1 e2
  exact ⟨e2, (Cmpl.pairwiseDistinct_stripL Cfg.core xs).mpr (h1.mp rfl)⟩

theorem rsStep_sound (ctx : Ctx) (hc : ctx.cfg = Cfg.core) {RV : RVT} {RS : RST}
    (hV : SV RV) (hI : InvV RV) (hS : SS RS) : SS (rsStep ctx RV RS) := by
  intro d dm kind start st acc hd hel
  unfold rsStep
  cases h1 : RV (d + 1) dm st with
  | err e st1 =>
    simp only []
    split <;> exact goodS_err _ _ _ _ _ _
  | ok v st1 =>
    simp only []
    obtain ⟨k1, tok, e1, c1, f1, b1⟩ := (hV (d + 1) dm st).1 v st1 h1
    have hel' := elems_cons hd (hI (d + 1) dm st v st1 (by omega) h1) hel
    have ih := hS d dm kind start st1 (v :: acc) hd hel'
    refine ⟨?_, ih.2⟩
    intro w st' e
    obtain ⟨k, xs, body, e2, c2, hseq, hval, hbk⟩ := ih.1 w st' e
    have hb1 := b1 (by omega)
    refine ⟨max k1 k, strip v :: xs, tok ++ body, ?_, by rw [c2, c1], ?_, ?_, ?_⟩
    · rw [e1, e2]; simp
    · rw [e2] at f1
      exact .cons _ (strip v) xs tok body _ (form_mono f1 _ (Nat.le_max_left _ _))
        (formSeq_mono hseq _ (Nat.le_max_right _ _))
    · rw [stripL_snoc] at hval
      exact hval
    · rcases Nat.le_total k1 k with hle | hle
      · rw [Nat.max_eq_right hle]; exact hbk
      · rw [Nat.max_eq_left hle]; omega
  | closer st1 =>
    simp only []
    obtain ⟨k, tr, e1, c1, t1, bk, -, c, t, hr, -⟩ := (hV (d + 1) dm st).2 st1 h1
    have hbk := bk (by omega)
    rw [hr]
    simp only []
    split
    · exact goodS_err _ _ _ _ _ _
    rename_i hcb
    have hcb' : c = closerByte kind := by simpa using hcb
    subst hcb'
    have hnil : FormSeq k [] tr (closerByte kind :: t) := .nil k tr _ (by rw [← hr]; exact t1)
    have hbase : ∀ (w : Val), SeqVal kind (stripL acc.reverse ++ []) (strip w) →
        GoodS d kind acc st (.ok w { rest := t, calls := st1.calls }) := by
      intro w hw
      refine ⟨?_, fun _ e => by cases e⟩
      intro w' st' e
      simp only [Res.ok.injEq] at e
      obtain ⟨rfl, rfl⟩ := e
      exact ⟨k, [], tr, by rw [e1, hr], c1, hnil, hw, by omega⟩
    by_cases hk0 : kind = 0
    · subst hk0
      simp only [BEq.rfl, if_true]
      apply hbase
      simp [SeqVal, strip]
    · have hk0' : (kind == 0) = false := by simpa using hk0
      simp only [hk0', Bool.false_eq_true, if_false]
      by_cases hk1 : kind = 1
      · subst hk1
        simp only [BEq.rfl, if_true]
        apply hbase
        simp [SeqVal, strip]
      · have hk1' : (kind == 1) = false := by simpa using hk1
        simp only [hk1', Bool.false_eq_true, if_false, hc]
        cases hh : hasDuplicates Cfg.core acc.reverse with
        | mk dup ys =>
          simp only []
          cases dup with
          | true => exact goodS_err _ _ _ _ _ _
          | false =>
            simp only [Bool.false_eq_true, if_false]
            obtain ⟨hs1, hs2⟩ := noDup_facts (elems_reverse hel) hh
            apply hbase
            simp only [SeqVal, if_neg hk0, if_neg hk1, strip, List.append_nil, hs1]
            exact ⟨trivial, hs2⟩

theorem interleaveKV_cons (k v : Val) (ks vs : List Val) :
    interleaveKV (k :: ks) (v :: vs) = k :: v :: interleaveKV ks vs := by
  rw [interleaveKV]

theorem rmStep_sound (ctx : Ctx) (hc : ctx.cfg = Cfg.core) {RV : RVT} {RM : RMT}
    (hV : SV RV) (hI : InvV RV) (hM : SM RM) : SM (rmStep ctx RV RM) := by
  intro d dm start st ks vs hd hel hlen
  unfold rmStep
  simp only []
  cases h1 : RV (d + 1) dm st with
  | err e st1 =>
    simp only []
    split <;> exact goodM_err _ _ _ _ _ _
  | closer st1 =>
    simp only []
    obtain ⟨k, tr, e1, c1, t1, bk, -, c, t, hr, -⟩ := (hV (d + 1) dm st).2 st1 h1
    have hbk := bk (by omega)
    rw [hr]
    simp only []
    split
    · exact goodM_err _ _ _ _ _ _
    rename_i hcb
    have hcb' : c = 0x7D := by simpa using hcb
    subst hcb'
    simp only [hc]
    cases hh : hasDuplicates Cfg.core ks.reverse with
    | mk dup ys =>
      simp only []
      cases dup with
      | true => exact goodM_err _ _ _ _ _ _
      | false =>
        simp only [Bool.false_eq_true, if_false]
        obtain ⟨hs1, hs2⟩ := noDup_facts (elems_reverse hel) hh
        refine ⟨?_, fun _ e => by cases e⟩
        intro w' st' e
        simp only [Res.ok.injEq] at e
        obtain ⟨rfl, rfl⟩ := e
        refine ⟨k, [], [], tr, by rw [e1, hr], c1, ?_, rfl, ?_, ?_, by omega⟩
        · have : interleaveKV [] [] = [] := by simp [interleaveKV]
          rw [this]
          exact .nil k tr _ (by rw [← hr]; exact t1)
        · simp only [strip, List.append_nil, hs1]
        · simp only [List.append_nil]; exact hs2
  | ok kv st1 =>
    simp only []
    obtain ⟨k1, tok1, e1, c1, f1, b1⟩ := (hV (d + 1) dm st).1 kv st1 h1
    have hb1 := b1 (by omega)
    cases h2 : RV (d + 1) dm st1 with
    | err e st2 =>
      simp only []
      split <;> exact goodM_err _ _ _ _ _ _
    | closer st2 => exact goodM_err _ _ _ _ _ _
    | ok v st2 =>
      simp only []
      obtain ⟨k2, tok2, e2, c2, f2, b2⟩ := (hV (d + 1) dm st1).1 v st2 h2
      have hb2 := b2 (by omega)
      have hel' := elems_cons hd (hI (d + 1) dm st kv st1 (by omega) h1) hel
      have ih := hM d dm start st2 (kv :: ks) (v :: vs) hd hel' (by simp [hlen])
      refine ⟨?_, ih.2⟩
      intro w st' e
      obtain ⟨k, ks', vs', body, e3, c3, hseq, hl, hval, hpd, hbk⟩ := ih.1 w st' e
      refine ⟨max (max k1 k2) k, strip kv :: ks', strip v :: vs', tok1 ++ (tok2 ++ body), ?_, by rw [c3, c2, c1], ?_, by simp [hl], ?_, ?_, ?_⟩
      · rw [e1, e2, e3]; simp
      · rw [interleaveKV_cons]
        rw [e2, e3] at f1
        rw [e3] at f2
        have hk1 : k1 ≤ max (max k1 k2) k := Nat.le_trans (Nat.le_max_left _ _) (Nat.le_max_left _ _)
        have hk2 : k2 ≤ max (max k1 k2) k := Nat.le_trans (Nat.le_max_right _ _) (Nat.le_max_left _ _)
        refine .cons _ (strip kv) _ tok1 (tok2 ++ body) _ (form_mono (by simpa using f1) _ hk1) ?_
        exact .cons _ (strip v) _ tok2 body _ (form_mono f2 _ hk2) (formSeq_mono hseq _ (Nat.le_max_right _ _))
      · rw [stripL_snoc, stripL_snoc] at hval
        exact hval
      · rw [stripL_snoc] at hpd
        exact hpd
      · have h12 : d + 1 + max k1 k2 ≤ Tables.maxNestingDepth := by
          rcases Nat.le_total k1 k2 with hle | hle
          · rw [Nat.max_eq_right hle]; omega
          · rw [Nat.max_eq_left hle]; omega
        rcases Nat.le_total (max k1 k2) k with hle | hle
        · rw [Nat.max_eq_right hle]; exact hbk
        · rw [Nat.max_eq_left hle]; exact h12

theorem rtStep_sound (ctx : Ctx) (hreg : ctx.opts.registry = none) {RV : RVT} (hV : SV RV) : ST (rtStep ctx RV) := by
  intro d dm start st
  unfold rtStep
  simp only []
  cases hs : st.rest with
  | nil => exact goodT_err _ _ _ _
  | cons c t =>
    simp only []
    split
    · exact goodT_err _ _ _ _
    cases hid : readIdentifier ctx st with
    | err e st1 => exact goodT_err _ _ _ _
    | closer st1 =>
      have := (leaf_not_closer ctx st).2.2.1
      rw [hid] at this
      cases this
    | ok tagv st1 =>
      obtain ⟨tag, e1, c1, hl, hds, hden⟩ := readIdentifier_sound ctx st st1 tagv hid
      cases tagv with
      | sym h md ns nm =>
        simp only []
        cases h2 : RV (d + 1) dm st1 with
        | err e st2 => exact goodT_err _ _ _ _
        | closer st2 => exact goodT_err _ _ _ _
        | ok v st2 =>
          simp only [hreg]
          obtain ⟨k, tok, e2, c2, f2, b2⟩ := (hV (d + 1) dm st1).1 v st2 h2
          refine ⟨?_, fun _ e => by cases e⟩
          intro w st' e
          simp only [Res.ok.injEq] at e
          obtain ⟨rfl, rfl⟩ := e
          have htag : slice (c :: t) st1.rest = tag := by
            rw [← hs, e1, slice_append_left]
          refine ⟨k, tag, ns, nm, strip v, tok, by rw [e1, e2], by rw [c2, c1], hl, by simpa [strip] using hden, ?_, f2, ?_, b2⟩
          · have hne := form_ne_nil f2
            cases tok with
            | nil => exact absurd rfl hne
            | cons t0 tt =>
              refine ⟨t0, tt, rfl, ?_⟩
              rcases hds with h0 | ⟨c', t', h0, hdl⟩
              · rw [h0] at e2; cases e2
              · rw [h0] at e2
                simp only [List.cons_append, List.cons.injEq] at e2
                rw [← e2.1]; exact hdl
          · simp only [strip, htag]
      | _ => exact goodT_err _ _ _ _

end Edn.Proofs.Snd
