/-
  Edn.Proofs.FlagIndepAux5 — flag independence (C18): the simulation between the run of the
  core configuration and the run of an arbitrary configuration, by induction on the fuel.
-/
import Edn.Proofs.FlagIndepAux4

namespace Edn.Proofs
open Edn.Model Edn.Spec Edn.Generated

/-- how the result `r1` of a configuration is related to the result `r0` of the core
    configuration on the same state: a value whose strings are core strings is matched by a
    value that differs in cache cells only, with the same state; "closer" is matched by
    "closer"; `s` bounds the rest (suffix) -/
def RelV (cfg : Cfg) (s : Bytes) (r0 r1 : Res) : Prop :=
  match r0 with
  | .ok v st' => (NoExt s ∨ coreStrings v = true) →
      st'.rest <:+ s ∧ flagOK cfg v ∧ ∃ v', r1 = .ok v' st' ∧ eraseCache v' = eraseCache v
  | .closer st' => st'.rest <:+ s ∧ r1 = .closer st'
  | .err _ _ => True

theorem RelV_mono {cfg : Cfg} {s s' : Bytes} {r0 r1 : Res} (h : RelV cfg s r0 r1) (hs : s <:+ s') :
    RelV cfg s' r0 r1 := by
  cases r0 with
  | ok v st' =>
    intro hv
    obtain ⟨h1, h2, h3⟩ := h (hv.imp (fun hx => hx.suffix hs) id)
    exact ⟨h1.trans hs, h2, h3⟩
  | closer st' => exact ⟨h.1.trans hs, h.2⟩
  | err e st' => trivial

theorem RelV_leaf {cfg : Cfg} {s : Bytes} {r0 r1 : Res} (hc : r0.isCloser = false)
    (h : ∀ v st', r0 = .ok v st' → (NoExt s ∨ coreStrings v = true) →
      r1 = .ok v st' ∧ st'.rest <:+ s ∧ flagOK cfg v) :
    RelV cfg s r0 r1 := by
  cases r0 with
  | ok v st' =>
    intro hv
    obtain ⟨h1, h2, h3⟩ := h v st' rfl hv
    exact ⟨h2, h3, v, h1, rfl⟩
  | closer st' => cases hc
  | err e st' => trivial

abbrev C0 (o : Opts) : Ctx := { cfg := Cfg.core, opts := o }
abbrev C1 (cfg : Cfg) (o : Opts) : Ctx := { cfg := cfg, opts := o }

section
variable (cfg : Cfg) (o : Opts)

def FiV (f : Nat) : Prop :=
  ∀ d dm st, d ≤ Tables.maxNestingDepth → NoTrig st.rest →
    RelV cfg st.rest (readValue (C0 o) f d dm st) (readValue (C1 cfg o) f d dm st)

def FiS (f : Nat) : Prop :=
  ∀ d dm kind start st acc acc', d < Tables.maxNestingDepth → NoTrig st.rest →
    eraseCacheL acc' = eraseCacheL acc → flagOKL cfg acc →
    (∀ x ∈ acc, VOK Cfg.core (d + 1) x) → (∀ x ∈ acc', VOK cfg (d + 1) x) →
    RelV cfg st.rest (readSeq (C0 o) f d dm kind start st acc) (readSeq (C1 cfg o) f d dm kind start st acc')

def FiM (f : Nat) : Prop :=
  ∀ d dm start st ks vs ks' vs', d < Tables.maxNestingDepth → NoTrig st.rest →
    eraseCacheL ks' = eraseCacheL ks → eraseCacheL vs' = eraseCacheL vs →
    flagOKL cfg ks → flagOKL cfg vs →
    (∀ x ∈ ks, VOK Cfg.core (d + 1) x) → (∀ x ∈ ks', VOK cfg (d + 1) x) →
    RelV cfg st.rest (readMap (C0 o) f d dm start none st ks vs) (readMap (C1 cfg o) f d dm start none st ks' vs')

def FiT (f : Nat) : Prop :=
  ∀ d dm start st, (d < Tables.maxNestingDepth ∨ st.rest = []) → NoTrig st.rest →
    RelV cfg st.rest (readTagged (C0 o) f d dm start st) (readTagged (C1 cfg o) f d dm start st)

theorem VOK_cons {c : Cfg} {d : Nat} {x : Val} {xs : List Val} (hx : VOK c d x) (h : ∀ y ∈ xs, VOK c d y) :
    ∀ y ∈ x :: xs, VOK c d y := by
  intro y hy
  rcases List.mem_cons.mp hy with rfl | hy
  · exact hx
  · exact h y hy

theorem readSeq_notCloser (ctx : Ctx) (f d : Nat) (dm : Bool) (kind start : Nat) (st : St) (acc : List Val)
    (st' : St) : readSeq ctx f d dm kind start st acc ≠ .closer st' := by
  intro h
  have := (reader_noCloser ctx f).2.1 d dm kind start st acc
  rw [h] at this; cases this

theorem readMap_notCloser (ctx : Ctx) (f d : Nat) (dm : Bool) (start : Nat) (ns : Option Bytes) (st : St)
    (ks vs : List Val) (st' : St) : readMap ctx f d dm start ns st ks vs ≠ .closer st' := by
  intro h
  have := (reader_noCloser ctx f).2.2.1 d dm start ns st ks vs
  rw [h] at this; cases this

theorem readTagged_notCloser (ctx : Ctx) (f d : Nat) (dm : Bool) (start : Nat) (st : St)
    (st' : St) : readTagged ctx f d dm start st ≠ .closer st' := by
  intro h
  have := (reader_noCloser ctx f).2.2.2.2.1 d dm start st
  rw [h] at this; cases this

theorem FiS_succ (hreg : o.registry = none) (f : Nat) (hV : FiV cfg o f) (hS : FiS cfg o f) :
    FiS cfg o (f + 1) := by
  intro d dm kind start st acc acc' hd hn he hg hv0 hv1
  rw [readSeq_succ, readSeq_succ]
  unfold rsStep
  have hrel := hV (d + 1) dm st (by omega) hn
  cases hr : readValue (C0 o) f (d + 1) dm st with
  | ok x st1 =>
    rw [hr] at hrel
    simp only []
    cases hr0 : readSeq (C0 o) f d dm kind start st1 (x :: acc) with
    | err e st' => trivial
    | closer st' => exact absurd hr0 (readSeq_notCloser _ _ _ _ _ _ _ _ _)
    | ok v st' =>
      intro hcs
      have hcx : NoExt st.rest ∨ coreStrings x = true := by
        refine hcs.imp id (fun hg => ?_)
        have hxs := readSeq_ok_acc _ _ _ _ _ _ _ _ _ _ hr0 hg
        unfold coreStringsL at hxs
        rw [Bool.and_eq_true] at hxs
        exact hxs.1
      obtain ⟨hsuf, hgx, x', hx', hex⟩ := hrel hcx
      rw [hx']
      simp only []
      have hvx := readValue_inv (C0 o) hreg f (d + 1) dm st st1 x (by omega) hr
      have hvx' := readValue_inv (C1 cfg o) hreg f (d + 1) dm st st1 x' (by omega) hx'
      have := hS d dm kind start st1 (x :: acc) (x' :: acc') hd (hn.suffix hsuf)
        (eraseCacheL_cons_congr hex he) (flagOKL_cons cfg hgx hg) (VOK_cons hvx hv0) (VOK_cons hvx' hv1)
      rw [hr0] at this
      obtain ⟨h1, h2, h3⟩ := this (hcs.imp (fun hx => hx.suffix hsuf) id)
      exact ⟨h1.trans hsuf, h2, h3⟩
  | err e st1 =>
    simp only []
    split <;> trivial
  | closer st1 =>
    rw [hr] at hrel
    obtain ⟨hsuf, hr1⟩ := hrel
    rw [hr1]
    simp only []
    cases hs : st1.rest with
    | nil => trivial
    | cons c r =>
      simp only []
      have hsr : r <:+ st.rest := by
        have : r <:+ st1.rest := by rw [hs]; exact List.suffix_cons _ _
        exact this.trans hsuf
      by_cases hcl : (c != closerByte kind) = true
      · rw [if_pos hcl]; trivial
      rw [if_neg hcl, if_neg hcl]
      by_cases hk0 : (kind == 0) = true
      · rw [if_pos hk0, if_pos hk0]
        intro _
        refine ⟨hsr, ?_, _, rfl, ?_⟩
        · unfold flagOK; exact flagOKL_reverse cfg hg
        · unfold eraseCache
          rw [eraseCacheL_reverse_congr he]
          rfl
      rw [if_neg hk0, if_neg hk0]
      by_cases hk1 : (kind == 1) = true
      · rw [if_pos hk1, if_pos hk1]
        intro _
        refine ⟨hsr, ?_, _, rfl, ?_⟩
        · unfold flagOK; exact flagOKL_reverse cfg hg
        · unfold eraseCache
          rw [eraseCacheL_reverse_congr he]
          rfl
      rw [if_neg hk1, if_neg hk1]
      obtain ⟨hd1, hd2, hd3⟩ := hasDuplicates_flag cfg acc.reverse acc'.reverse (eraseCacheL_reverse_congr he)
        (Elems_of_VOK (VOK_reverse hv0)) (Elems_of_VOK (VOK_reverse hv1)) (flagOKL_reverse cfg hg)
      show RelV cfg st.rest
        (if (hasDuplicates (C0 o).cfg acc.reverse).1 = true then _ else _)
        (if (hasDuplicates (C1 cfg o).cfg acc'.reverse).1 = true then _ else _)
      show RelV cfg st.rest
        (if (hasDuplicates Cfg.core acc.reverse).1 = true then _ else _)
        (if (hasDuplicates cfg acc'.reverse).1 = true then _ else _)
      rw [hd1]
      by_cases hdup : (hasDuplicates Cfg.core acc.reverse).1 = true
      · rw [if_pos hdup]; trivial
      rw [if_neg hdup, if_neg hdup]
      intro _
      refine ⟨hsr, ?_, _, rfl, ?_⟩
      · unfold flagOK; exact hd3
      · unfold eraseCache
        rw [hd2]
        rfl

theorem FiM_succ (hreg : o.registry = none) (f : Nat) (hV : FiV cfg o f) (hM : FiM cfg o f) :
    FiM cfg o (f + 1) := by
  intro d dm start st ks vs ks' vs' hd hn hek hev hgk hgv hv0 hv1
  rw [readMap_succ, readMap_succ]
  unfold rmStep
  simp only []
  have hrel := hV (d + 1) dm st (by omega) hn
  cases hr : readValue (C0 o) f (d + 1) dm st with
  | ok k st1 =>
    rw [hr] at hrel
    simp only []
    cases hr2 : readValue (C0 o) f (d + 1) dm st1 with
    | err e st2 =>
      simp only []
      split <;> trivial
    | closer st2 => trivial
    | ok x st2 =>
      simp only []
      cases hr0 : readMap (C0 o) f d dm start none st2 (k :: ks) (x :: vs) with
      | err e st' => trivial
      | closer st' => exact absurd hr0 (readMap_notCloser _ _ _ _ _ _ _ _ _ _)
      | ok v st' =>
        intro hcs
        have hck : NoExt st.rest ∨ (coreStrings k = true ∧ coreStrings x = true) := by
          refine hcs.imp id (fun hg => ?_)
          obtain ⟨hks, hvs⟩ := readMap_ok_acc _ _ _ _ _ _ _ _ _ _ hr0 hg
          unfold coreStringsL at hks hvs
          rw [Bool.and_eq_true] at hks hvs
          exact ⟨hks.1, hvs.1⟩
        obtain ⟨hsuf, hgk1, k', hk', hek1⟩ := hrel (hck.imp id (·.1))
        rw [hk']
        simp only []
        have hn1 := hn.suffix hsuf
        have hrel2 := hV (d + 1) dm st1 (by omega) hn1
        rw [hr2] at hrel2
        obtain ⟨hsuf2, hgx, x', hx', hex⟩ := hrel2 (hck.imp (fun hx => hx.suffix hsuf) (·.2))
        rw [hx']
        simp only []
        have hvk := readValue_inv (C0 o) hreg f (d + 1) dm st st1 k (by omega) hr
        have hvk' := readValue_inv (C1 cfg o) hreg f (d + 1) dm st st1 k' (by omega) hk'
        have := hM d dm start st2 (k :: ks) (x :: vs) (k' :: ks') (x' :: vs') hd (hn1.suffix hsuf2)
          (eraseCacheL_cons_congr hek1 hek) (eraseCacheL_cons_congr hex hev)
          (flagOKL_cons cfg hgk1 hgk) (flagOKL_cons cfg hgx hgv) (VOK_cons hvk hv0) (VOK_cons hvk' hv1)
        rw [hr0] at this
        obtain ⟨h1, h2, h3⟩ := this (hcs.imp (fun hx => hx.suffix (hsuf2.trans hsuf)) id)
        exact ⟨(h1.trans hsuf2).trans hsuf, h2, h3⟩
  | err e st1 =>
    simp only []
    split <;> trivial
  | closer st1 =>
    rw [hr] at hrel
    obtain ⟨hsuf, hr1⟩ := hrel
    rw [hr1]
    simp only []
    cases hs : st1.rest with
    | nil => trivial
    | cons c r =>
      simp only []
      have hsr : r <:+ st.rest := by
        have : r <:+ st1.rest := by rw [hs]; exact List.suffix_cons _ _
        exact this.trans hsuf
      by_cases hcl : (c != 0x7D) = true
      · rw [if_pos hcl]; trivial
      rw [if_neg hcl, if_neg hcl]
      obtain ⟨hd1, hd2, hd3⟩ := hasDuplicates_flag cfg ks.reverse ks'.reverse (eraseCacheL_reverse_congr hek)
        (Elems_of_VOK (VOK_reverse hv0)) (Elems_of_VOK (VOK_reverse hv1)) (flagOKL_reverse cfg hgk)
      show RelV cfg st.rest
        (if (hasDuplicates Cfg.core ks.reverse).1 = true then _ else _)
        (if (hasDuplicates cfg ks'.reverse).1 = true then _ else _)
      rw [hd1]
      by_cases hdup : (hasDuplicates Cfg.core ks.reverse).1 = true
      · rw [if_pos hdup]; trivial
      rw [if_neg hdup, if_neg hdup]
      intro _
      refine ⟨hsr, ?_, _, rfl, ?_⟩
      · unfold flagOK; exact ⟨hd3, flagOKL_reverse cfg hgv⟩
      · unfold eraseCache
        rw [hd2, eraseCacheL_reverse_congr hev]
        rfl

theorem FiT_succ (hreg : o.registry = none) (f : Nat) (hV : FiV cfg o f) : FiT cfg o (f + 1) := by
  intro d dm start st hd hn
  rw [readTagged_succ, readTagged_succ]
  unfold rtStep
  simp only []
  cases hs : st.rest with
  | nil => trivial
  | cons c t =>
    have hlt : d < Tables.maxNestingDepth := by
      rcases hd with h | h
      · exact h
      · rw [hs] at h; cases h
    simp only []
    split
    · trivial
    · rw [readIdentifier_flag (C1 cfg o) (C0 o) st]
      cases hr : readIdentifier (C0 o) st with
      | closer st1 =>
        have := (leaf_not_closer (C0 o) st).2.2.1
        rw [hr] at this; cases this
      | err e st1 => trivial
      | ok tagv st1 =>
        simp only []
        have hsuf1 := (readIdentifier_ok cfg (C0 o) st st1 tagv hr).1
        rw [hs] at hsuf1
        cases tagv with
        | sym hh md ns nm =>
          simp only []
          have hrel := hV (d + 1) dm st1 (by omega) (by rw [hs] at hn; exact hn.suffix hsuf1)
          cases hr2 : readValue (C0 o) f (d + 1) dm st1 with
          | closer st2 => trivial
          | err e st2 => trivial
          | ok v st2 =>
            rw [hr2] at hrel
            simp only [hreg]
            intro hcs
            have hcv : NoExt st1.rest ∨ coreStrings v = true :=
              hcs.imp (fun hx => hx.suffix hsuf1) (fun hg => by unfold coreStrings at hg; exact hg)
            obtain ⟨hsuf2, hgv, v', hv', hev⟩ := hrel hcv
            rw [hv']
            simp only []
            refine ⟨hsuf2.trans hsuf1, ?_, _, rfl, ?_⟩
            · unfold flagOK; exact hgv
            · unfold eraseCache
              rw [hev]
              rfl
        | _ => trivial

theorem no_mem_nil' {P : Val → Prop} : ∀ x ∈ ([] : List Val), P x := fun _ h => nomatch h

theorem rvStep_rel (f : Nat) (hV : FiV cfg o f) (hS : FiS cfg o f) (hM : FiM cfg o f)
    (hT : FiT cfg o f) (d : Nat) (dm : Bool) (calls : List Call) (c : UInt8) (cs : Bytes)
    (hd : d ≤ Tables.maxNestingDepth) (hn : NoTrig (c :: cs)) :
    RelV cfg (c :: cs)
      (rvStep (C0 o) (readValue (C0 o) f) (readSeq (C0 o) f) (readMap (C0 o) f) (readNsMap (C0 o) f)
        (readTagged (C0 o) f) (readMeta (C0 o) f) d dm calls c cs)
      (rvStep (C1 cfg o) (readValue (C1 cfg o) f) (readSeq (C1 cfg o) f) (readMap (C1 cfg o) f)
        (readNsMap (C1 cfg o) f) (readTagged (C1 cfg o) f) (readMeta (C1 cfg o) f) d dm calls c cs) := by
  unfold rvStep
  simp only []
  have hc : c ≠ 0x5E := fun h => hn.1 (by rw [h]; exact List.mem_cons_self)
  rw [dispatch_flag cfg hc]
  obtain ⟨l1, l2, l3, l4, l5⟩ := leaf_not_closer (C0 o) { rest := c :: cs, calls := calls }
  have hcs : cs <:+ c :: cs := List.suffix_cons _ _
  have hident : RelV cfg (c :: cs) (readIdentifier (C0 o) { rest := c :: cs, calls := calls })
      (readIdentifier (C1 cfg o) { rest := c :: cs, calls := calls }) := by
    apply RelV_leaf l3
    intro v st' hr _
    exact ⟨hr, readIdentifier_ok cfg _ _ _ _ hr⟩
  have hnum : RelV cfg (c :: cs) (readNumberRes (C0 o) { rest := c :: cs, calls := calls })
      (readNumberRes (C1 cfg o) { rest := c :: cs, calls := calls }) := by
    apply RelV_leaf l5
    intro v st' hr _
    exact readNumberRes_core_ok cfg o o _ _ _ hr
  cases hdisp : dispatch Cfg.core c with
  | string =>
    simp only []
    rw [readString_flag cfg o o _ hn.2.1]
    apply RelV_leaf l1
    intro v st' hr hv
    obtain ⟨h1, hh, dd, e, rfl, hinf⟩ := readString_core_ok o _ _ _ hr
    exact ⟨hr, h1, hv.elim (fun hx => flagOK_str_noExt cfg _ _ _ (hx.infix hinf)) (flagOK_str cfg _ _ _)⟩
  | character =>
    simp only []
    have := dispatch_core_character hdisp
    subst this
    apply RelV_leaf l2
    intro v st' hr _
    exact readCharacter_core_ok cfg o o _ _ _ cs rfl hn.2.2.1 hn.2.2.2.1 hr
  | listOpen =>
    simp only []
    split
    · trivial
    · rename_i h
      exact RelV_mono (hS d dm 0 _ { rest := cs, calls := calls } [] [] (lt_of_not_deep h) (hn.suffix hcs) rfl
        (flagOKL_nil cfg) no_mem_nil' no_mem_nil') hcs
  | vectorOpen =>
    simp only []
    split
    · trivial
    · rename_i h
      exact RelV_mono (hS d dm 1 _ { rest := cs, calls := calls } [] [] (lt_of_not_deep h) (hn.suffix hcs) rfl
        (flagOKL_nil cfg) no_mem_nil' no_mem_nil') hcs
  | mapOpen =>
    simp only []
    split
    · trivial
    · rename_i h
      exact RelV_mono (hM d dm _ { rest := cs, calls := calls } [] [] [] [] (lt_of_not_deep h) (hn.suffix hcs)
        rfl rfl (flagOKL_nil cfg) (flagOKL_nil cfg) no_mem_nil' no_mem_nil') hcs
  | hash =>
    simp only []
    have hc23 := dispatch_hash hdisp
    subst hc23
    cases cs with
    | nil => exact RelV_mono (hT d dm _ { rest := [], calls := calls } (Or.inr rfl) (hn.suffix hcs)) hcs
    | cons nx cs' =>
      simp only []
      by_cases h1 : (nx == 0x23) = true
      · rw [if_pos h1, if_pos h1]
        apply RelV_leaf l4
        intro v st' hr _
        exact ⟨hr, readSymbolic_ok cfg _ _ _ _ hr⟩
      rw [if_neg h1, if_neg h1]
      split
      · trivial
      rename_i h
      have hlt := lt_of_not_deep h
      by_cases h2 : (nx == 0x7B) = true
      · rw [if_pos h2, if_pos h2]
        exact RelV_mono (hS d dm 2 _ { rest := cs', calls := calls } [] [] hlt
          (hn.suffix ((List.suffix_cons _ _).trans hcs)) rfl (flagOKL_nil cfg) no_mem_nil' no_mem_nil')
          ((List.suffix_cons _ _).trans hcs)
      rw [if_neg h2, if_neg h2]
      by_cases h3 : (nx == 0x5F) = true
      · rw [if_pos h3, if_pos h3]
        have : nx = 0x5F := by simpa using h3
        subst this
        have hne : NoExt (0x23 :: 0x5F :: cs') := hn.2.2.2.2.resolve_left (fun h' => h' ⟨[], cs', rfl⟩)
        have hcs2 : cs' <:+ 0x23 :: 0x5F :: cs' := (List.suffix_cons _ _).trans hcs
        have hrel := hV (d + 1) true { rest := cs', calls := calls } (by omega) (hn.suffix hcs2)
        cases hr : readValue (C0 o) f (d + 1) true { rest := cs', calls := calls } with
        | err e st1 => trivial
        | closer st1 =>
          rw [hr] at hrel
          rw [hrel.2]
          trivial
        | ok x st1 =>
          rw [hr] at hrel
          obtain ⟨hsuf, _, x', hx', _⟩ := hrel (Or.inl (hne.suffix hcs2))
          rw [hx']
          simp only []
          exact RelV_mono (hV d dm st1 hd (hn.suffix (hsuf.trans hcs2))) (hsuf.trans hcs2)
      rw [if_neg h3, if_neg h3]
      have hrt := RelV_mono (hT d dm (List.length (0x23 :: nx :: cs')) { rest := nx :: cs', calls := calls }
        (Or.inl hlt) (hn.suffix hcs)) hcs
      rw [if_neg (by simp [Cfg.core])]
      by_cases h4 : ((C1 cfg o).cfg.clj && nx == 0x3A) = true
      · rw [if_pos h4]
        have : nx = 0x3A := by
          simp only [Bool.and_eq_true, beq_iff_eq] at h4; exact h4.2
        subst this
        obtain ⟨e, st', he⟩ := readTagged_colon (C0 o) f d dm (List.length (0x23 :: 0x3A :: cs'))
          { rest := 0x3A :: cs', calls := calls } cs' rfl
        show RelV cfg _ (readTagged (C0 o) f d dm (List.length (0x23 :: 0x3A :: cs'))
          { rest := 0x3A :: cs', calls := calls }) _
        rw [he]
        trivial
      · rw [if_neg h4]
        exact hrt
  | sign =>
    simp only []
    cases cs with
    | nil => exact hident
    | cons nx t =>
      simp only []
      split
      · exact hnum
      · exact hident
  | digit => exact hnum
  | delimiter =>
    simp only []
    split
    · trivial
    · exact ⟨List.suffix_refl _, rfl⟩
  | metadata => exact absurd hdisp (dispatch_core_not_meta c)
  | identifier => exact hident

theorem FiV_succ (f : Nat) (hV : FiV cfg o f) (hS : FiS cfg o f) (hM : FiM cfg o f)
    (hT : FiT cfg o f) : FiV cfg o (f + 1) := by
  intro d dm st hd hn
  rw [readValue_succ, readValue_succ]
  unfold rvOuter
  cases hs : st.rest with
  | nil => trivial
  | cons c0 t =>
    simp only []
    have hsuf : (if isPreWs c0 = true then skipWs (c0 :: t) else c0 :: t) <:+ c0 :: t := by
      split
      · exact skipWs_suffix _
      · exact List.suffix_refl _
    cases hw : (if isPreWs c0 = true then skipWs (c0 :: t) else c0 :: t) with
    | nil => trivial
    | cons c cs =>
      simp only []
      rw [hw] at hsuf
      rw [hs] at hn
      exact RelV_mono (rvStep_rel cfg o f hV hS hM hT d dm st.calls c cs hd (hn.suffix hsuf)) hsuf

theorem reader_flag (hreg : o.registry = none) : ∀ (f : Nat),
    FiV cfg o f ∧ FiS cfg o f ∧ FiM cfg o f ∧ FiT cfg o f := by
  intro f
  induction f with
  | zero =>
    refine ⟨?_, ?_, ?_, ?_⟩
    · intro d dm st _ _; rw [readValue_zero]; trivial
    · intro d dm kind start st acc acc' _ _ _ _ _ _; rw [readSeq_zero]; trivial
    · intro d dm start st ks vs ks' vs' _ _ _ _ _ _ _ _; rw [readMap_zero]; trivial
    · intro d dm start st _ _; rw [readTagged_zero]; trivial
  | succ f ih =>
    obtain ⟨hV, hS, hM, hT⟩ := ih
    exact ⟨FiV_succ cfg o f hV hS hM hT, FiS_succ cfg o hreg f hV hS, FiM_succ cfg o hreg f hV hM,
      FiT_succ cfg o hreg f hV⟩

end

/-- the simulation, for `readValue` -/
theorem readValue_flag (cfg : Cfg) (opts : Opts) (hreg : opts.registry = none)
    (f d : Nat) (dm : Bool) (st st' : St) (v : Val)
    (hd : d ≤ Tables.maxNestingDepth) (hn : NoTrig st.rest)
    (h : readValue { cfg := Cfg.core, opts := opts } f d dm st = .ok v st')
    (hs : coreStrings v = true) :
    ∃ v', readValue { cfg := cfg, opts := opts } f d dm st = .ok v' st' ∧ eraseCache v' = eraseCache v := by
  have := (reader_flag cfg opts hreg f).1 d dm st hd hn
  rw [show readValue (C0 opts) f d dm st = .ok v st' from h] at this
  exact (this (Or.inr hs)).2.2

end Edn.Proofs
