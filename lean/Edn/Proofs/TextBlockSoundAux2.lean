/-
  Edn.Proofs.TextBlockSoundAux2 — converse direction of C20, the scanner of one line:
  whatever `tbContent` / `tbLine` return is a well-formed source line followed by its
  terminator, and a failure means the input ended inside a body.
-/
import Edn.Proofs.TextBlockSoundAux1

namespace Edn.Proofs
open Edn.Model Edn.Spec

/-- the terminator of a line -/
def tbTerm (terminal : Bool) : Bytes := if terminal then [0x22, 0x22, 0x22] else [0x0A]

theorem tbTerm_length_pos (tm : Bool) : 0 < (tbTerm tm).length := by cases tm <;> simp [tbTerm]

/-- the four cases of one step of `tbContent` -/
theorem tbContent_cases (c : UInt8) (r : Bytes) :
    (∃ r', c :: r = 0x5C :: 0x22 :: 0x22 :: 0x22 :: r') ∨
    (∃ r', c :: r = 0x22 :: 0x22 :: 0x22 :: r') ∨
    (c = 0x0A) ∨
    (c ≠ 0x0A ∧ ¬ [0x22, 0x22, 0x22] <+: c :: r ∧ ¬ [0x5C, 0x22, 0x22, 0x22] <+: c :: r) := by
  by_cases he : [0x5C, 0x22, 0x22, 0x22] <+: c :: r
  · obtain ⟨t, ht⟩ := he
    exact .inl ⟨t, by rw [← ht]; rfl⟩
  · by_cases hq : [0x22, 0x22, 0x22] <+: c :: r
    · obtain ⟨t, ht⟩ := hq
      exact .inr (.inl ⟨t, by rw [← ht]; rfl⟩)
    · by_cases hlf : c = 0x0A
      · exact .inr (.inr (.inl hlf))
      · exact .inr (.inr (.inr ⟨hlf, hq, he⟩))

theorem endOK_nil : EndOK [] := by simp [EndOK]

theorem endOK_cons (c : UInt8) (b : Bytes) (hne : b ≠ []) (h : EndOK b) : EndOK (c :: b) := by
  obtain ⟨a, b', rfl⟩ := List.exists_cons_of_ne_nil hne
  unfold EndOK at h ⊢
  rw [List.getLast?_cons_cons]
  exact ⟨h.1, fun hq => (h.2 hq).trans (List.suffix_cons c _)⟩

theorem endOK_esc (b : Bytes) (h : EndOK b) : EndOK (0x5C :: 0x22 :: 0x22 :: 0x22 :: b) := by
  by_cases hne : b = []
  · subst hne; decide
  · exact endOK_cons _ _ (by simp) (endOK_cons _ _ (by simp) (endOK_cons _ _ (by simp) (endOK_cons _ _ hne h)))

/-- a successful content scan: the content is the accumulator followed by a body `b`, the input
    is `b`, the terminator and the rest; `b` is a well-formed body, and one that may stand
    directly before the closing delimiter when that is what ended the scan -/
theorem tbContent_sound : ∀ (f : Nat) (acc : Bytes) (esc : Bool) (s content : Bytes) (esc' tm : Bool) (rest : Bytes),
    tbContent f acc esc s = some (content, esc', tm, rest) →
      ∃ b, content = acc.reverse ++ b ∧ s = b ++ tbTerm tm ++ rest ∧ TbBody b ∧ (tm = true → EndOK b) := by
  intro f
  induction f with
  | zero => intro acc esc s content esc' tm rest h; simp [tbContent] at h
  | succ f ih =>
    intro acc esc s content esc' tm rest h
    cases s with
    | nil => simp [tbContent] at h
    | cons c r =>
      rcases tbContent_cases c r with ⟨r', hr⟩ | ⟨r', hr⟩ | hlf | ⟨hlf, hq, he⟩
      · rw [hr, tbContent_esc] at h
        obtain ⟨b, h1, h2, h3, h4⟩ := ih _ _ _ _ _ _ _ h
        refine ⟨0x5C :: 0x22 :: 0x22 :: 0x22 :: b, ?_, ?_, .esc b h3, fun ht => endOK_esc b (h4 ht)⟩
        · rw [h1]; simp
        · rw [hr, h2]; simp
      · rw [hr, tbContent_close] at h
        simp only [Option.some.injEq, Prod.mk.injEq] at h
        obtain ⟨rfl, -, rfl, rfl⟩ := h
        exact ⟨[], by simp, by rw [hr]; simp [tbTerm], .nil, fun _ => endOK_nil⟩
      · subst hlf
        rw [tbContent_lf] at h
        simp only [Option.some.injEq, Prod.mk.injEq] at h
        obtain ⟨rfl, -, rfl, rfl⟩ := h
        exact ⟨[], by simp, by simp [tbTerm], .nil, fun h => by cases h⟩
      · rw [tbContent_other _ _ _ _ _ hlf hq he] at h
        obtain ⟨b, h1, h2, h3, h4⟩ := ih _ _ _ _ _ _ _ h
        have hpre : c :: b <+: c :: r := by
          rw [h2, List.append_assoc]; exact List.prefix_append _ _
        refine ⟨c :: b, ?_, ?_, .plain c b hlf (not_prefix_of_prefix hq hpre) (not_prefix_of_prefix he hpre) h3, ?_⟩
        · rw [h1]; simp
        · rw [h2]; simp
        · intro ht
          by_cases hne : b = []
          · subst hne
            subst ht
            simp only [tbTerm, if_true, List.nil_append] at h2
            subst h2
            have h5 : c ≠ 0x5C := by rintro rfl; exact he ⟨rest, rfl⟩
            have h6 : c ≠ 0x22 := by rintro rfl; exact hq ⟨0x22 :: rest, rfl⟩
            simp [EndOK, h5, h6]
          · exact endOK_cons c b hne (h4 ht)

/-- a failed content scan with enough fuel: the input is a body cut by the end of the input -/
theorem tbContent_none : ∀ (f : Nat) (acc : Bytes) (esc : Bool) (s : Bytes),
    s.length < f → tbContent f acc esc s = none → TbBody s := by
  intro f
  induction f with
  | zero => intro acc esc s hf; omega
  | succ f ih =>
    intro acc esc s hf h
    cases s with
    | nil => exact .nil
    | cons c r =>
      rcases tbContent_cases c r with ⟨r', hr⟩ | ⟨r', hr⟩ | hlf | ⟨hlf, hq, he⟩
      · rw [hr, tbContent_esc] at h
        rw [hr]
        have hl : r'.length < f := by
          have := congrArg List.length hr
          simp at this hf; omega
        exact .esc r' (ih _ _ _ hl h)
      · rw [hr, tbContent_close] at h; cases h
      · subst hlf; rw [tbContent_lf] at h; cases h
      · rw [tbContent_other _ _ _ _ _ hlf hq he] at h
        exact .plain c r hlf hq he (ih _ _ _ (by simp at hf; omega) h)

/-! ### one line -/

theorem takeWhile_blank (s : Bytes) : ∀ c ∈ s.takeWhile isBlank, isBlank c = true := by
  induction s with
  | nil => simp
  | cons a t ih =>
    intro c hc
    rw [List.takeWhile_cons] at hc
    split at hc
    · rename_i ha
      rcases List.mem_cons.mp hc with rfl | hc
      · exact ha
      · exact ih c hc
    · cases hc

theorem dropWhile_head (s : Bytes) : ∀ c, (s.dropWhile isBlank).head? = some c → isBlank c = false := by
  intro c hc
  have := List.head?_dropWhile_not isBlank s
  rw [hc] at this
  simpa using this

/-- a scanned line is a well-formed source line, its terminator and the rest -/
theorem tbLine_sound (s : Bytes) (ln : TbLine) (rest : Bytes) (h : tbLine s = some (ln, rest)) :
    s = ln.indent ++ ln.content ++ tbTerm ln.terminal ++ rest ∧
    (⟨ln.indent, ln.content⟩ : SrcLine).WF ∧ (ln.terminal = true → EndOK ln.content) := by
  unfold tbLine at h
  simp only [] at h
  cases hc : tbContent ((s.dropWhile isBlank).length + 1) [] false (s.dropWhile isBlank) with
  | none => rw [hc] at h; cases h
  | some x =>
    obtain ⟨content, esc, tm, rest'⟩ := x
    rw [hc] at h
    simp only [Option.some.injEq, Prod.mk.injEq] at h
    obtain ⟨rfl, rfl⟩ := h
    obtain ⟨b, h1, h2, h3, h4⟩ := tbContent_sound _ _ _ _ _ _ _ _ hc
    simp only [List.reverse_nil, List.nil_append] at h1
    subst h1
    refine ⟨?_, ⟨takeWhile_blank s, ?_, h3⟩, h4⟩
    · simp only []
      rw [List.append_assoc, List.append_assoc, ← List.append_assoc content, ← h2, List.takeWhile_append_dropWhile]
    · intro c hc'
      apply dropWhile_head s c
      rw [h2]
      cases content with
      | nil => cases hc'
      | cons a t => simpa using hc'

/-- a line scan fails only when the input ends inside the body of the line -/
theorem tbLine_none (s : Bytes) (h : tbLine s = none) : TbBody (s.dropWhile isBlank) := by
  unfold tbLine at h
  simp only [] at h
  cases hc : tbContent ((s.dropWhile isBlank).length + 1) [] false (s.dropWhile isBlank) with
  | none => exact tbContent_none _ _ _ _ (Nat.lt_succ_self _) hc
  | some x => rw [hc] at h; cases h

/-- conversely -/
theorem tbLine_eof (s : Bytes) (h : TbBody (s.dropWhile isBlank)) : tbLine s = none := by
  unfold tbLine
  simp only []
  rw [tbContent_eof h _ _ _ (Nat.le_succ _)]

theorem tbLine_rest_lt (s : Bytes) (ln : TbLine) (rest : Bytes) (h : tbLine s = some (ln, rest)) :
    rest.length < s.length := by
  have h1 := (tbLine_sound s ln rest h).1
  have h2 := tbTerm_length_pos ln.terminal
  have := congrArg List.length h1
  simp at this; omega

/-! ### deciding well-formedness (for examples) -/

/-- a body is well-formed exactly when the content scanner runs into the end of the input on it -/
theorem tbBody_iff_scan (b : Bytes) : TbBody b ↔ (tbContent (b.length + 1) [] false b).isNone = true := by
  rw [Option.isNone_iff_eq_none]
  exact ⟨fun h => tbContent_eof h _ _ _ (Nat.le_succ _), tbContent_none _ _ _ _ (Nat.lt_succ_self _)⟩

instance (b : Bytes) : Decidable (TbBody b) := decidable_of_iff _ (tbBody_iff_scan b).symm

theorem srcLine_wf_iff (l : SrcLine) :
    l.WF ↔ (∀ c ∈ l.indent, isBlank c = true) ∧ (l.body.head?.all fun c => !isBlank c) = true ∧ TbBody l.body := by
  unfold SrcLine.WF
  cases l.body.head? <;> simp

instance (l : SrcLine) : Decidable l.WF := decidable_of_iff _ (srcLine_wf_iff l).symm

end Edn.Proofs
