/-
  Edn.Proofs.AllocBoundAux3 — the duplicate check (pairwise / sorted copy / hash table) of a
  collection of good trees costs at most ONE unit of the potential (its scratch array) under a
  fault-free oracle and hands back good trees; the builders cost one request per element (two per
  map entry) at most, the metadata step at most five.
-/
import Edn.Proofs.AllocBoundAux2

namespace Edn.Proofs.AllocBound
open Edn.Model Edn.Proofs.AllocBasic

section
variable {N : Nat} {x : ACtx} (horc : ∀ n, x.orc n = false)
include horc

theorem hasDupLinearA_stp (xs : List Val) (a : ASt) (g : GoodL x.ctx.cfg N xs) (ha : a.arena = .alive) :
    Stp N 0 a (hasDupLinearA x xs a).2 := by
  induction xs generalizing a with
  | nil => exact Stp.refl ha
  | cons v vs ih =>
    unfold hasDupLinearA
    have h1 := anyA_stp (equalA x) (equalA_stp horc) v vs a g.head g.tail ha
    rcases hq : anyA (equalA x) v vs a with ⟨r, a1⟩
    rw [hq] at h1
    cases r
    · exact h1.trans (ih a1 g.tail h1.1)
    · exact h1

theorem hashAtA_stp (is : List Nat) (arr : Array Val) (a : ASt) (g : GoodL x.ctx.cfg N arr.toList)
    (ha : a.arena = .alive) :
    Stp N 0 a (hashAtA x is arr a).2 ∧ GoodL x.ctx.cfg N (hashAtA x is arr a).1.toList := by
  induction is generalizing arr a with
  | nil => exact ⟨Stp.refl ha, g⟩
  | cons i is ih =>
    unfold hashAtA
    split
    · exact ih arr a g ha
    · next v hv =>
      have gv : Good x.ctx.cfg N v := g v (by
        have := Array.mem_of_getElem? hv
        exact Array.mem_toList_iff.mpr this)
      have h1 := hashOpA_stp (N := N) horc v a gv ha
      rcases hq : hashOpA x v a with ⟨⟨h, v'⟩, a1⟩
      rw [hq] at h1
      dsimp only at h1 ⊢
      have g' : GoodL x.ctx.cfg N (arr.setIfInBounds i v').toList := by
        intro y hy
        rw [Array.toList_setIfInBounds] at hy
        rcases List.mem_or_eq_of_mem_set hy with h | h
        · exact g y h
        · rw [h]; exact h1.2
      have h2 := ih (arr.setIfInBounds i v') a1 g' h1.1.1
      exact ⟨h1.1.trans h2.1, h2.2⟩

theorem runsA_stp (f : Nat) (xs : List Val) (a : ASt) (g : GoodL x.ctx.cfg N xs) (ha : a.arena = .alive) :
    Stp N 0 a (runsA x f xs a).2 := by
  induction f generalizing xs a with
  | zero => unfold runsA; exact Stp.refl ha
  | succ f ih =>
    cases xs with
    | nil => unfold runsA; exact Stp.refl ha
    | cons v vs =>
      unfold runsA
      dsimp only
      have g1 : GoodL x.ctx.cfg N (v :: vs.takeWhile (·.hdr.hc == v.hdr.hc)) :=
        GoodL.cons g.head (g.tail.sub (fun y hy => (List.takeWhile_sublist _).subset hy))
      have g2 : GoodL x.ctx.cfg N (vs.dropWhile (·.hdr.hc == v.hdr.hc)) :=
        g.tail.sub (fun y hy => (List.dropWhile_sublist _).subset hy)
      have h1 := hasDupLinearA_stp (N := N) horc (v :: vs.takeWhile (·.hdr.hc == v.hdr.hc)) a g1 ha
      rcases hq : hasDupLinearA x (v :: vs.takeWhile (·.hdr.hc == v.hdr.hc)) a with ⟨r, a1⟩
      rw [hq] at h1
      cases r
      · exact h1.trans (ih _ a1 g2 h1.1)
      · exact h1

omit horc in
theorem mem_insertByHash (v y : Val) (l : List Val) (h : y ∈ insertByHash v l) : y = v ∨ y ∈ l := by
  induction l with
  | nil =>
    simp only [insertByHash, List.mem_singleton] at h
    exact Or.inl h
  | cons z zs ih =>
    unfold insertByHash at h
    split at h
    · rcases List.mem_cons.mp h with h | h
      · exact Or.inl h
      · exact Or.inr h
    · rcases List.mem_cons.mp h with h | h
      · exact Or.inr (h ▸ List.mem_cons_self ..)
      · rcases ih h with h | h
        · exact Or.inl h
        · exact Or.inr (List.mem_cons_of_mem _ h)

omit horc in
theorem mem_sortByHash (xs : List Val) (y : Val) (h : y ∈ sortByHash xs) : y ∈ xs := by
  have key : ∀ (xs acc : List Val), y ∈ xs.foldl (fun acc v => insertByHash v acc) acc → y ∈ xs ∨ y ∈ acc := by
    intro xs
    induction xs with
    | nil => intro acc h; exact Or.inr h
    | cons v vs ih =>
      intro acc h
      simp only [List.foldl_cons] at h
      rcases ih _ h with h | h
      · exact Or.inl (List.mem_cons_of_mem _ h)
      · rcases mem_insertByHash v y acc h with h | h
        · exact Or.inl (h ▸ List.mem_cons_self ..)
        · exact Or.inr h
  rcases key xs [] h with h | h
  · exact h
  · cases h

theorem hasDupSortedA_stp (xs : List Val) (a : ASt) (g : GoodL x.ctx.cfg N xs) (ha : a.arena = .alive) :
    Stp N 1 a (hasDupSortedA x xs a).2 ∧ GoodL x.ctx.cfg N (hasDupSortedA x xs a).1.2 := by
  unfold hasDupSortedA
  have h0 := (rawAlloc_ff (N := N) horc .malloc a ha).2
  rcases hq0 : a.rawAlloc x.orc .malloc with ⟨o, a1⟩
  rw [hq0] at h0
  cases o with
  | none =>
    dsimp only
    have h1 := hasDupLinearA_stp (N := N) horc xs a1 g h0.1
    rcases hq1 : hasDupLinearA x xs a1 with ⟨r, a2⟩
    rw [hq1] at h1
    exact ⟨h0.trans h1, g⟩
  | some i =>
    dsimp only
    have h1 := hashAtA_stp (N := N) horc (x.sortTouch xs.length) xs.toArray a1 (by simpa using g) h0.1
    rcases hq1 : hashAtA x (x.sortTouch xs.length) xs.toArray a1 with ⟨arr, a2⟩
    rw [hq1] at h1
    dsimp only at h1 ⊢
    have h2 := hashAtA_stp (N := N) horc (List.range xs.length) arr a2 h1.2 h1.1.1
    rcases hq2 : hashAtA x (List.range xs.length) arr a2 with ⟨arr2, a3⟩
    rw [hq2] at h2
    dsimp only at h2 ⊢
    have h3 := runsA_stp (N := N) horc (arr2.toList.length + 1) (sortByHash arr2.toList) a3
      (h2.2.sub (mem_sortByHash _)) h2.1.1
    rcases hq3 : runsA x (arr2.toList.length + 1) (sortByHash arr2.toList) a3 with ⟨r, a4⟩
    rw [hq3] at h3
    exact ⟨((h0.trans h1.1).trans h2.1).trans (h3.trans (free_stp i a4 h3.1)), h2.2⟩

theorem tableLoopA_stp (xs seen : List Val) (a : ASt) (g : GoodL x.ctx.cfg N xs) (gs : GoodL x.ctx.cfg N seen)
    (ha : a.arena = .alive) :
    Stp N 0 a (tableLoopA x xs seen a).2 ∧ GoodL x.ctx.cfg N (tableLoopA x xs seen a).1.2 := by
  induction xs generalizing seen a with
  | nil => exact ⟨Stp.refl ha, gs.reverse⟩
  | cons v rest ih =>
    unfold tableLoopA
    have h1 := hashOpA_stp (N := N) horc v a g.head ha
    rcases hq : hashOpA x v a with ⟨⟨h, v'⟩, a1⟩
    rw [hq] at h1
    dsimp only at h1 ⊢
    have gc : GoodL x.ctx.cfg N (seen.reverse.filter (·.hdr.hc == h)) :=
      gs.reverse.sub (fun y hy => (List.mem_filter.mp hy).1)
    have h2 := anyA_stp (fun e y => equalA x y e) (equalA_flip_stp horc) v' (seen.reverse.filter (·.hdr.hc == h)) a1
      h1.2 gc h1.1.1
    rcases hq2 : anyA (fun e y => equalA x y e) v' (seen.reverse.filter (·.hdr.hc == h)) a1 with ⟨r, a2⟩
    rw [hq2] at h2
    cases r
    · have h3 := ih (v' :: seen) a2 g.tail (GoodL.cons h1.2 gs) h2.1
      exact ⟨(h1.1.trans h2).trans h3.1, h3.2⟩
    · exact ⟨h1.1.trans h2, gs.reverse.append (GoodL.cons h1.2 g.tail)⟩

theorem hasDupTableA_stp (xs : List Val) (a : ASt) (g : GoodL x.ctx.cfg N xs) (ha : a.arena = .alive) :
    Stp N 1 a (hasDupTableA x xs a).2 ∧ GoodL x.ctx.cfg N (hasDupTableA x xs a).1.2 := by
  unfold hasDupTableA
  obtain ⟨⟨i, hi⟩, h0⟩ := rawAlloc_ff (N := N) horc .calloc a ha
  rcases hq0 : a.rawAlloc x.orc .calloc with ⟨o, a1⟩
  rw [hq0] at h0 hi
  dsimp only at hi
  subst hi
  dsimp only
  have h1 := tableLoopA_stp (N := N) horc xs [] a1 g GoodL.nil h0.1
  rcases hq1 : tableLoopA x xs [] a1 with ⟨r, a2⟩
  rw [hq1] at h1
  exact ⟨h0.trans (h1.1.trans (free_stp i a2 h1.1.1)), h1.2⟩

/-- `edn_has_duplicates`: at most one request beyond the materialised buffers -/
theorem hasDuplicatesA_stp (xs : List Val) (a : ASt) (g : GoodL x.ctx.cfg N xs) (ha : a.arena = .alive) :
    Stp N 1 a (hasDuplicatesA x xs a).2 ∧ GoodL x.ctx.cfg N (hasDuplicatesA x xs a).1.2 := by
  unfold hasDuplicatesA
  split
  · exact ⟨(Stp.refl ha).mono (Nat.zero_le _), g⟩
  · split
    · have h1 := hasDupLinearA_stp (N := N) horc xs a g ha
      rcases hq : hasDupLinearA x xs a with ⟨r, a1⟩
      rw [hq] at h1
      exact ⟨h1.mono (Nat.zero_le _), g⟩
    · split
      · exact hasDupSortedA_stp horc xs a g ha
      · exact hasDupTableA_stp horc xs a g ha

/-! ## Builders -/

theorem add_stp (b : BSt) (a : ASt) (ha : a.arena = .alive) :
    (∃ b', (b.add x a).1 = some b') ∧ Stp N 1 a (b.add x a).2 := by
  unfold BSt.add
  split
  · have hr := request_ff (N := N) horc .arena a 0 ha
    rcases hq : a.request x.orc .arena with ⟨ok, a1⟩
    rw [hq] at hr
    obtain ⟨hok, hst⟩ := hr
    dsimp only at hok hst ⊢
    subst hok
    exact ⟨⟨_, rfl⟩, hst⟩
  · exact ⟨⟨_, rfl⟩, (Stp.refl ha).mono (Nat.zero_le _)⟩

theorem finish_stp (b : BSt) (a : ASt) (ha : a.arena = .alive) :
    (b.finish x a).1 = true ∧ Stp N 1 a (b.finish x a).2 := by
  unfold BSt.finish
  split
  · exact request_ff horc .arena a 0 ha
  · exact ⟨rfl, (Stp.refl ha).mono (Nat.zero_le _)⟩

theorem addPair_stp (b : BSt) (a : ASt) (ha : a.arena = .alive) :
    (∃ b', (b.addPair x a).1 = some b') ∧ Stp N 2 a (b.addPair x a).2 := by
  unfold BSt.addPair
  split
  · have hr := request_ff (N := N) horc .arena a 0 ha
    rcases hq : a.request x.orc .arena with ⟨ok, a1⟩
    rw [hq] at hr
    obtain ⟨hok, hst⟩ := hr
    dsimp only at hok hst ⊢
    subst hok
    have hr2 := request_ff (N := N) horc .arena a1 0 hst.1
    rcases hq2 : a1.request x.orc .arena with ⟨ok2, a2⟩
    rw [hq2] at hr2
    obtain ⟨hok2, hst2⟩ := hr2
    dsimp only at hok2 hst2 ⊢
    subst hok2
    exact ⟨⟨_, rfl⟩, hst.trans hst2⟩
  · exact ⟨⟨_, rfl⟩, (Stp.refl ha).mono (Nat.zero_le _)⟩

theorem finishPair_stp (b : BSt) (a : ASt) (ha : a.arena = .alive) :
    (b.finishPair x a).1 = true ∧ Stp N 2 a (b.finishPair x a).2 := by
  unfold BSt.finishPair
  split
  · have hr := request_ff (N := N) horc .arena a 0 ha
    rcases hq : a.request x.orc .arena with ⟨ok, a1⟩
    rw [hq] at hr
    obtain ⟨hok, hst⟩ := hr
    dsimp only at hok hst ⊢
    subst hok
    have hr2 := request_ff (N := N) horc .arena a1 0 hst.1
    rcases hq2 : a1.request x.orc .arena with ⟨ok2, a2⟩
    rw [hq2] at hr2
    obtain ⟨hok2, hst2⟩ := hr2
    dsimp only at hok2 hst2 ⊢
    subst hok2
    exact ⟨rfl, hst.trans hst2⟩
  · exact ⟨rfl, (Stp.refl ha).mono (Nat.zero_le _)⟩

/-! ## Metadata -/

theorem metaEntryA_stp (m : Val) (a : ASt) (ha : a.arena = .alive) :
    (metaEntryA x m a).1 = true ∧ Stp N 3 a (metaEntryA x m a).2 := by
  unfold metaEntryA
  split
  · exact ⟨rfl, (Stp.refl ha).mono (Nat.zero_le _)⟩
  · have hr := request_ff (N := N) horc .arena a 0 ha
    rcases hq : a.request x.orc .arena with ⟨ok, a1⟩
    rw [hq] at hr
    obtain ⟨hok, hst⟩ := hr
    dsimp only at hok hst ⊢
    subst hok
    simp only [Bool.not_true, Bool.false_eq_true, ↓reduceIte]
    have hr2 := request_ff (N := N) horc .arena a1 0 hst.1
    rcases hq2 : a1.request x.orc .arena with ⟨ok2, a2⟩
    rw [hq2] at hr2
    obtain ⟨hok2, hst2⟩ := hr2
    dsimp only at hok2 hst2 ⊢
    subst hok2
    have hr3 := request_ff (N := N) horc .arena a2 0 hst2.1
    rcases hq3 : a2.request x.orc .arena with ⟨ok3, a3⟩
    rw [hq3] at hr3
    obtain ⟨hok3, hst3⟩ := hr3
    dsimp only at hok3 hst3 ⊢
    subst hok3
    exact ⟨rfl, (hst.trans hst2).trans hst3⟩

theorem keepOldA_stp (newKeys ks vs : List Val) (a : ASt) (gn : GoodL x.ctx.cfg N newKeys)
    (gk : GoodL x.ctx.cfg N ks) (gv : GoodL x.ctx.cfg N vs) (ha : a.arena = .alive) :
    Stp N 0 a (keepOldA x newKeys ks vs a).2 ∧ GoodL x.ctx.cfg N (keepOldA x newKeys ks vs a).1.1 ∧
      GoodL x.ctx.cfg N (keepOldA x newKeys ks vs a).1.2 := by
  induction ks generalizing vs a with
  | nil => cases vs <;> exact ⟨Stp.refl ha, GoodL.nil, GoodL.nil⟩
  | cons k ks ih =>
    cases vs with
    | nil => exact ⟨Stp.refl ha, GoodL.nil, GoodL.nil⟩
    | cons v vs =>
      unfold keepOldA
      have h1 := anyA_stp (equalA x) (equalA_stp horc) k newKeys a gk.head gn ha
      rcases hq1 : anyA (equalA x) k newKeys a with ⟨found, a1⟩
      rw [hq1] at h1
      dsimp only
      have h2 := ih vs a1 gk.tail gv.tail h1.1
      rcases hq2 : keepOldA x newKeys ks vs a1 with ⟨⟨ks', vs'⟩, a2⟩
      rw [hq2] at h2
      dsimp only at h2 ⊢
      refine ⟨h1.trans h2.1, ?_, ?_⟩
      · split
        · exact h2.2.1
        · exact GoodL.cons gk.head h2.2.1
      · split
        · exact h2.2.2
        · exact GoodL.cons gv.head h2.2.2

/-- Step 3 of `edn_read_metadata`: at most five requests beyond the materialised buffers -/
theorem attachMetaA_stp (m form : Val) (nks nvs : List Val) (a : ASt) (gf : Good x.ctx.cfg N form)
    (gk : GoodL x.ctx.cfg N nks) (gv : GoodL x.ctx.cfg N nvs) (hN : 0 < N) (ha : a.arena = .alive) :
    Stp N 5 a (attachMetaA x m form nks nvs a).2 ∧
      (∀ form', (attachMetaA x m form nks nvs a).1 = some form' → Good x.ctx.cfg N form') := by
  unfold attachMetaA
  split
  · next h md ks vs hmd =>
    have gm := gf.md hmd
    have h1 := metaEntryA_stp (N := N) horc m a ha
    rcases hq1 : metaEntryA x m a with ⟨okE, a1⟩
    rw [hq1] at h1
    obtain ⟨hok, hst1⟩ := h1
    dsimp only at hok hst1
    subst hok
    simp only [Bool.not_true, Bool.false_eq_true, ↓reduceIte]
    have hr2 := request_ff (N := N) horc .arena a1 0 hst1.1
    rcases hq2 : a1.request x.orc .arena with ⟨ok2, a2⟩
    rw [hq2] at hr2
    obtain ⟨hok2, hst2⟩ := hr2
    dsimp only at hok2 hst2 ⊢
    subst hok2
    have hr3 := request_ff (N := N) horc .arena a2 0 hst2.1
    rcases hq3 : a2.request x.orc .arena with ⟨ok3, a3⟩
    rw [hq3] at hr3
    obtain ⟨hok3, hst3⟩ := hr3
    dsimp only at hok3 hst3 ⊢
    subst hok3
    simp only [Bool.and_self, Bool.not_true, Bool.false_eq_true, ↓reduceIte]
    have h4 := keepOldA_stp (N := N) horc nks ks vs a3 gk (good_map_k gm) (good_map_v gm) hst3.1
    rcases hq4 : keepOldA x nks ks vs a3 with ⟨⟨oks, ovs⟩, a4⟩
    rw [hq4] at h4
    dsimp only at h4 ⊢
    have hall : Stp N 5 a a4 := ((hst1.trans hst2).trans hst3).trans h4.1
    split
    · exact ⟨hall, fun _ h => by cases h⟩
    · refine ⟨hall, fun form' h => ?_⟩
      cases h
      apply gf.setMd
      intro m' hm'
      cases hm'
      cases gm with
      | map _ _ _ _ hs hmd' _ _ =>
        exact Good.map _ _ _ _ hs hmd' (gk.append h4.2.1) (gv.append h4.2.2)
  · have hr := request_ff (N := N) horc .arena a 0 ha
    rcases hq : a.request x.orc .arena with ⟨ok, a1⟩
    rw [hq] at hr
    obtain ⟨hok, hst⟩ := hr
    dsimp only at hok hst ⊢
    subst hok
    simp only [Bool.not_true, Bool.false_eq_true, ↓reduceIte]
    have h2 := metaEntryA_stp (N := N) horc m a1 hst.1
    rcases hq2 : metaEntryA x m a1 with ⟨okE, a2⟩
    rw [hq2] at h2
    obtain ⟨hok2, hst2⟩ := h2
    dsimp only at hok2 hst2
    subst hok2
    simp only [Bool.not_true, Bool.false_eq_true, ↓reduceIte]
    refine ⟨(hst.trans hst2).mono (by omega), fun form' h => ?_⟩
    cases h
    apply gf.setMd
    intro m' hm'
    cases hm'
    exact Good.map _ _ _ _ hN (fun _ h => by cases h) gk gv

end

end Edn.Proofs.AllocBound
