/-
  Edn.Proofs.DoubleSpecAux1 — the accumulators of `parse_double_from_buffer`
  (`accDigits`, `accExp`) against the uncapped accumulator `decimalParts.digs`.
-/
import Edn.Proofs.Float

namespace Edn.Proofs.DoubleSpecAux
open Edn.Model Edn.Spec

/-- the uncapped, underscore-skipping digit accumulator of `decimalParts` -/
abbrev D := decimalParts.digs

theorem D_nil (m n : Nat) : D m n [] = (m, n, []) := by
  unfold D; rw [decimalParts.digs]

theorem D_cons (m n : Nat) (c : UInt8) (cs : Bytes) :
    D m n (c :: cs) =
      if c == 0x5F then D m n cs
      else if is09 c then D (m * 10 + dval c) (n + 1) cs else (m, n, c :: cs) := by
  unfold D; rw [decimalParts.digs]

theorem accDigits_nil (e : Bool) (m n : Nat) : accDigits e m n [] = (m, n, []) := by
  rw [accDigits]

theorem accDigits_cons (e : Bool) (m n : Nat) (c : UInt8) (cs : Bytes) :
    accDigits e m n (c :: cs) =
      if e && c == 0x5F then accDigits e m n cs
      else if is09 c then accDigits e (if n < 18 then m * 10 + dval c else m) (n + 1) cs
      else (m, n, c :: cs) := by
  rw [accDigits]

theorem accExp_nil (e : Bool) (v : Nat) : accExp e v [] = v := by
  rw [accExp]

theorem accExp_cons (e : Bool) (v : Nat) (c : UInt8) (cs : Bytes) :
    accExp e v (c :: cs) =
      if e && c == 0x5F then accExp e v cs
      else if is09 c then
        (if v * 10 + dval c > 1000 then 1000 else accExp e (v * 10 + dval c) cs)
      else v := by
  rw [accExp]

theorem us_not09 : is09 (0x5F : UInt8) = false := by decide

/-- the digit count never decreases -/
theorem accDigits_mono (e : Bool) : ∀ (s : Bytes) (m n : Nat), n ≤ (accDigits e m n s).2.1 := by
  intro s
  induction s with
  | nil => intro m n; rw [accDigits_nil]; exact Nat.le_refl _
  | cons c cs ih =>
    intro m n
    rw [accDigits_cons]
    split
    · exact ih m n
    · split
      · exact Nat.le_trans (Nat.le_succ n) (ih _ (n + 1))
      · exact Nat.le_refl _

/-- the mantissa never decreases -/
theorem D_mono : ∀ (s : Bytes) (m n : Nat), m ≤ (D m n s).1 := by
  intro s
  induction s with
  | nil => intro m n; rw [D_nil]; exact Nat.le_refl _
  | cons c cs ih =>
    intro m n
    rw [D_cons]
    split
    · exact ih m n
    · split
      · exact Nat.le_trans (by omega) (ih _ (n + 1))
      · exact Nat.le_refl _

/-- the rest is made of bytes of the input -/
theorem D_rest_mem : ∀ (s : Bytes) (m n : Nat) (x : UInt8), x ∈ (D m n s).2.2 → x ∈ s := by
  intro s
  induction s with
  | nil => intro m n x; rw [D_nil]; exact id
  | cons c cs ih =>
    intro m n x
    rw [D_cons]
    split
    · intro h; exact List.mem_cons_of_mem _ (ih m n x h)
    · split
      · intro h; exact List.mem_cons_of_mem _ (ih _ _ x h)
      · exact id

/-- `accDigits` against `digs`: same rest and same number of digits (whatever the mantissas) -/
theorem accDigits_digs_rest (e : Bool) : ∀ (s : Bytes) (m m' n k : Nat), (e = false → (0x5F : UInt8) ∉ s) →
    (accDigits e m n s).2.2 = (D m' k s).2.2 ∧
    (accDigits e m n s).2.1 + k = (D m' k s).2.1 + n := by
  intro s
  induction s with
  | nil => intro m m' n k _; rw [accDigits_nil, D_nil]; exact ⟨rfl, Nat.add_comm _ _⟩
  | cons c cs ih =>
    intro m m' n k hus
    have hus' : e = false → (0x5F : UInt8) ∉ cs := fun he hm => hus he (List.mem_cons_of_mem _ hm)
    rw [accDigits_cons, D_cons]
    by_cases hc : c = 0x5F
    · subst hc
      have he : e = true := by
        cases e with
        | true => rfl
        | false => exact absurd (List.mem_cons_self) (hus rfl)
      subst he
      simp only [Bool.true_and, beq_self_eq_true, if_true]
      exact ih m m' n k hus'
    · have h1 : (c == 0x5F) = false := by simpa using hc
      simp only [h1, Bool.and_false, Bool.false_eq_true, if_false]
      by_cases hd : is09 c = true
      · simp only [hd, if_true]
        obtain ⟨a, b⟩ := ih (if n < 18 then m * 10 + dval c else m) (m' * 10 + dval c) (n + 1) (k + 1) hus'
        exact ⟨a, by omega⟩
      · have hd' : is09 c = false := by simpa using hd
        simp only [hd', Bool.false_eq_true, if_false]
        exact ⟨trivial, Nat.add_comm _ _⟩

/-- ... and the same mantissa as long as the 18-digit cap was not reached -/
theorem accDigits_digs_mant (e : Bool) : ∀ (s : Bytes) (m n k : Nat), (e = false → (0x5F : UInt8) ∉ s) →
    (accDigits e m n s).2.1 ≤ 18 → (accDigits e m n s).1 = (D m k s).1 := by
  intro s
  induction s with
  | nil => intro m n k _ _; rw [accDigits_nil, D_nil]
  | cons c cs ih =>
    intro m n k hus
    have hus' : e = false → (0x5F : UInt8) ∉ cs := fun he hm => hus he (List.mem_cons_of_mem _ hm)
    rw [accDigits_cons, D_cons]
    by_cases hc : c = 0x5F
    · subst hc
      have he : e = true := by
        cases e with
        | true => rfl
        | false => exact absurd (List.mem_cons_self) (hus rfl)
      subst he
      simp only [Bool.true_and, beq_self_eq_true, if_true]
      exact ih m n k hus'
    · have h1 : (c == 0x5F) = false := by simpa using hc
      simp only [h1, Bool.and_false, Bool.false_eq_true, if_false]
      by_cases hd : is09 c = true
      · simp only [hd, if_true]
        by_cases hn : n < 18
        · simp only [hn, if_true]
          exact ih (m * 10 + dval c) (n + 1) (k + 1) hus'
        · simp only [hn, if_false]
          intro hle
          have hmono := accDigits_mono e cs m (n + 1)
          omega
      · have hd' : is09 c = false := by simpa using hd
        simp only [hd', Bool.false_eq_true, if_false]
        intro _; trivial

/-- `accExp` is `digs` clamped at 1000 -/
theorem accExp_digs (e : Bool) : ∀ (s : Bytes) (v k : Nat), (e = false → (0x5F : UInt8) ∉ s) → v ≤ 1000 →
    accExp e v s = min (D v k s).1 1000 := by
  intro s
  induction s with
  | nil => intro v k _ hv; rw [accExp_nil, D_nil]; exact (Nat.min_eq_left hv).symm
  | cons c cs ih =>
    intro v k hus hv
    have hus' : e = false → (0x5F : UInt8) ∉ cs := fun he hm => hus he (List.mem_cons_of_mem _ hm)
    rw [accExp_cons, D_cons]
    by_cases hc : c = 0x5F
    · subst hc
      have he : e = true := by
        cases e with
        | true => rfl
        | false => exact absurd (List.mem_cons_self) (hus rfl)
      subst he
      simp only [Bool.true_and, beq_self_eq_true, if_true]
      exact ih v k hus' hv
    · have h1 : (c == 0x5F) = false := by simpa using hc
      simp only [h1, Bool.and_false, Bool.false_eq_true, if_false]
      by_cases hd : is09 c = true
      · simp only [hd, if_true]
        by_cases hv' : v * 10 + dval c > 1000
        · simp only [hv', if_true]
          have := D_mono cs (v * 10 + dval c) (k + 1)
          omega
        · simp only [hv', if_false]
          exact ih _ (k + 1) hus' (by omega)
      · have hd' : is09 c = false := by simpa using hd
        simp only [hd', Bool.false_eq_true, if_false]
        exact (Nat.min_eq_left hv).symm

end Edn.Proofs.DoubleSpecAux
