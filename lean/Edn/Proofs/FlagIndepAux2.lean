/-
  Edn.Proofs.FlagIndepAux2 — flag independence (C18), leaf level: trigger patterns, the
  dispatch table, string decoding, suffix lemmas for the scanners and the leaf readers, and
  "what core accepts, every configuration reads identically" for each leaf reader.
-/
import Edn.Proofs.Fuel
import Edn.Proofs.FlagIndepAux0

namespace Edn.Proofs
open Edn.Model Edn.Spec Edn.Generated

/-! ## trigger patterns -/

/-- the escape letters that only an extension decodes inside strings: `\f`, `\b`, `\u`, `\0`..`\7` -/
def extEscape (c : UInt8) : Bool := c == 0x66 || c == 0x62 || c == 0x75 || isOct c

/-- no backslash is followed by one of the extension escape letters -/
def NoExt (s : Bytes) : Prop := ∀ c, extEscape c = true → ¬ [0x5C, c] <:+: s

/-- the trigger-free inputs (same body as `NoTriggers` in `Edn.Proofs.FlagIndep`) -/
def NoTrig (s : Bytes) : Prop :=
  0x5E ∉ s ∧ ¬ [0x22, 0x22, 0x22, 0x0A] <:+: s ∧ ¬ [0x5C, 0x0C] <:+: s ∧ ¬ [0x5C, 0x08] <:+: s ∧
  (¬ [0x23, 0x5F] <:+: s ∨ NoExt s)

theorem not_infix_suffix {p s t : Bytes} (h : ¬ p <:+: s) (hs : t <:+ s) : ¬ p <:+: t :=
  fun hp => h (hp.trans hs.isInfix)

theorem not_infix_infix {p s t : Bytes} (h : ¬ p <:+: s) (hs : t <:+: s) : ¬ p <:+: t :=
  fun hp => h (hp.trans hs)

theorem NoExt.infix {s t : Bytes} (h : NoExt s) (hs : t <:+: s) : NoExt t :=
  fun c hc => not_infix_infix (h c hc) hs

theorem NoExt.suffix {s t : Bytes} (h : NoExt s) (hs : t <:+ s) : NoExt t := h.infix hs.isInfix

theorem NoTrig.suffix {s t : Bytes} (h : NoTrig s) (hs : t <:+ s) : NoTrig t :=
  ⟨fun hm => h.1 (hs.subset hm), not_infix_suffix h.2.1 hs, not_infix_suffix h.2.2.1 hs,
    not_infix_suffix h.2.2.2.1 hs,
    h.2.2.2.2.imp (fun h' => not_infix_suffix h' hs) (fun h' => h'.suffix hs)⟩

theorem not_infix_of_prefix {p s : Bytes} (h : ¬ p <:+: s) : ¬ p <+: s :=
  fun hp => h hp.isInfix

/-! ## dispatch -/

def dispSame (cfg : Cfg) (c : UInt8) : Bool := c == 0x5E || decide (dispatch cfg c = dispatch Cfg.core c)

theorem dispSame_all (cfg : Cfg) : ∀ c, dispSame cfg c = true := by
  obtain ⟨clj, exp⟩ := cfg
  cases clj <;> cases exp <;> exact forall_u8_bool _ (by decide +kernel)

/-- the dispatch class depends on the flags for the byte `^` only -/
theorem dispatch_flag (cfg : Cfg) {c : UInt8} (h : c ≠ 0x5E) : dispatch cfg c = dispatch Cfg.core c := by
  have := dispSame_all cfg c
  simp only [dispSame, Bool.or_eq_true, beq_iff_eq, decide_eq_true_eq] at this
  rcases this with h' | h'
  · exact absurd h' h
  · exact h'

def dispCoreOk (c : UInt8) : Bool :=
  decide (dispatch Cfg.core c ≠ .metadata) && decide (dispatch Cfg.core c = .character → c = 0x5C) &&
  decide (dispatch Cfg.core c = .string → c = 0x22)

theorem dispCoreOk_all : ∀ c, dispCoreOk c = true := forall_u8_bool _ (by decide +kernel)

theorem dispatch_core_not_meta (c : UInt8) : dispatch Cfg.core c ≠ .metadata := by
  have := dispCoreOk_all c
  simp only [dispCoreOk, Bool.and_eq_true, decide_eq_true_eq] at this
  exact this.1.1

theorem dispatch_core_character {c : UInt8} (h : dispatch Cfg.core c = .character) : c = 0x5C := by
  have := dispCoreOk_all c
  simp only [dispCoreOk, Bool.and_eq_true, decide_eq_true_eq] at this
  exact this.1.2 h

theorem dispatch_core_string {c : UInt8} (h : dispatch Cfg.core c = .string) : c = 0x22 := by
  have := dispCoreOk_all c
  simp only [dispCoreOk, Bool.and_eq_true, decide_eq_true_eq] at this
  exact this.2 h

/-! ## string decoding -/

theorem decodeEscape_core_some (cfg : Cfg) (r : Bytes) (x : Bytes × Bytes)
    (h : decodeEscape Cfg.core r = some x) : decodeEscape cfg r = some x := by
  cases r with
  | nil => rw [decodeEscape] at h; cases h
  | cons c r =>
    rw [decodeEscape] at h ⊢
    by_cases h1 : (c == 0x22) = true
    · rw [if_pos h1] at h ⊢; exact h
    rw [if_neg h1] at h ⊢
    by_cases h2 : (c == 0x5C) = true
    · rw [if_pos h2] at h ⊢; exact h
    rw [if_neg h2] at h ⊢
    by_cases h3 : (c == 0x6E) = true
    · rw [if_pos h3] at h ⊢; exact h
    rw [if_neg h3] at h ⊢
    by_cases h4 : (c == 0x74) = true
    · rw [if_pos h4] at h ⊢; exact h
    rw [if_neg h4] at h ⊢
    by_cases h5 : (c == 0x72) = true
    · rw [if_pos h5] at h ⊢; exact h
    rw [if_neg h5] at h
    rw [if_neg (by decide)] at h
    cases h

theorem decodeString_core_some (cfg : Cfg) : ∀ (f : Nat) (s out : Bytes),
    decodeString Cfg.core f s = some out → decodeString cfg f s = some out := by
  intro f
  induction f with
  | zero => intro s out h; rw [decodeString] at h; cases h
  | succ f ih =>
    intro s out h
    cases s with
    | nil => rw [decodeString] at h ⊢; exact h
    | cons c r =>
      rw [decodeString] at h ⊢
      split
      · rename_i hc
        rw [if_pos hc] at h
        cases he : decodeEscape Cfg.core r with
        | none => rw [he] at h; simp at h
        | some x =>
          obtain ⟨o, r'⟩ := x
          rw [he] at h
          rw [decodeEscape_core_some cfg r _ he]
          simp only [] at h ⊢
          cases hd : decodeString Cfg.core f r' with
          | none => rw [hd] at h; simp at h
          | some o' => rw [hd] at h; rw [ih _ _ hd]; exact h
      · rename_i hc
        rw [if_neg hc] at h
        cases hd : decodeString Cfg.core f r with
        | none => rw [hd] at h; simp at h
        | some o' => rw [hd] at h; rw [ih _ _ hd]; exact h

theorem stringGet_core_some (cfg : Cfg) (data : Bytes) (esc : Bool) (out : Bytes)
    (h : stringGet Cfg.core data esc = some out) : stringGet cfg data esc = some out := by
  unfold stringGet at h ⊢
  split
  · rename_i he; rw [if_pos he] at h; exact h
  · rename_i he; rw [if_neg he] at h; exact decodeString_core_some cfg _ _ _ h

/-- a string that decodes in the core configuration has the same content everywhere -/
theorem stringContent_core (cfg : Cfg) (data : Bytes) (esc : Bool)
    (h : (stringContent Cfg.core data esc).1 = true) :
    stringContent cfg data esc = stringContent Cfg.core data esc := by
  unfold stringContent at h ⊢
  split
  · rfl
  · cases hd : decodeString Cfg.core (data.length + 1) data with
    | none => rename_i he; rw [if_neg he, hd] at h; simp at h
    | some o => rw [decodeString_core_some cfg _ _ _ hd]

/-! ## strings without extension escapes decode identically -/

theorem decodeEscape_core_rest (e : UInt8) (r' : Bytes) (x : Bytes × Bytes)
    (h : decodeEscape Cfg.core (e :: r') = some x) : x.2 = r' := by
  rw [decodeEscape] at h
  by_cases h1 : (e == 0x22) = true
  · rw [if_pos h1] at h; cases h; rfl
  rw [if_neg h1] at h
  by_cases h2 : (e == 0x5C) = true
  · rw [if_pos h2] at h; cases h; rfl
  rw [if_neg h2] at h
  by_cases h3 : (e == 0x6E) = true
  · rw [if_pos h3] at h; cases h; rfl
  rw [if_neg h3] at h
  by_cases h4 : (e == 0x74) = true
  · rw [if_pos h4] at h; cases h; rfl
  rw [if_neg h4] at h
  by_cases h5 : (e == 0x72) = true
  · rw [if_pos h5] at h; cases h; rfl
  rw [if_neg h5] at h
  rw [if_neg (by decide)] at h
  cases h

theorem decodeEscape_noExt (cfg : Cfg) (e : UInt8) (r' : Bytes) (he : extEscape e = false) :
    decodeEscape cfg (e :: r') = decodeEscape Cfg.core (e :: r') := by
  unfold extEscape at he
  simp only [Bool.or_eq_false_iff] at he
  obtain ⟨⟨⟨e1, e2⟩, e3⟩, e4⟩ := he
  rw [decodeEscape, decodeEscape]
  by_cases h1 : (e == 0x22) = true
  · rw [if_pos h1, if_pos h1]
  rw [if_neg h1, if_neg h1]
  by_cases h2 : (e == 0x5C) = true
  · rw [if_pos h2, if_pos h2]
  rw [if_neg h2, if_neg h2]
  by_cases h3 : (e == 0x6E) = true
  · rw [if_pos h3, if_pos h3]
  rw [if_neg h3, if_neg h3]
  by_cases h4 : (e == 0x74) = true
  · rw [if_pos h4, if_pos h4]
  rw [if_neg h4, if_neg h4]
  by_cases h5 : (e == 0x72) = true
  · rw [if_pos h5, if_pos h5]
  rw [if_neg h5, if_neg h5]
  rw [if_neg (show ¬ Cfg.core.clj = true by decide)]
  split
  · rw [e1, e2, e3, e4]
    simp only [Bool.false_eq_true, ↓reduceIte]
  · rfl

theorem decodeString_noExt (cfg : Cfg) : ∀ (f : Nat) (d : Bytes), NoExt d →
    decodeString cfg f d = decodeString Cfg.core f d := by
  intro f
  induction f with
  | zero => intro d _; rw [decodeString, decodeString]
  | succ f ih =>
    intro d hd
    cases d with
    | nil => rw [decodeString, decodeString]
    | cons c r =>
      rw [decodeString, decodeString]
      by_cases hc : (c == 0x5C) = true
      · rw [if_pos hc, if_pos hc]
        have hc' : c = 0x5C := by simpa using hc
        subst hc'
        cases r with
        | nil => rw [decodeEscape, decodeEscape]
        | cons e r' =>
          have he : extEscape e = false := by
            cases hx : extEscape e with
            | false => rfl
            | true => exact absurd ⟨[], r', rfl⟩ (hd e hx)
          rw [decodeEscape_noExt cfg e r' he]
          cases hde : decodeEscape Cfg.core (e :: r') with
          | none => rfl
          | some x =>
            obtain ⟨out, r''⟩ := x
            have := decodeEscape_core_rest e r' _ hde
            simp only [] at this
            subst this
            simp only []
            rw [ih r'' (hd.suffix ((List.suffix_cons _ _).trans (List.suffix_cons _ _)))]
      · rw [if_neg hc, if_neg hc, ih r (hd.suffix (List.suffix_cons _ _))]

/-- a string without extension escapes has the same content everywhere -/
theorem stringContent_noExt (cfg : Cfg) (data : Bytes) (esc : Bool) (h : NoExt data) :
    stringContent cfg data esc = stringContent Cfg.core data esc := by
  unfold stringContent
  rw [decodeString_noExt cfg _ _ h]

/-! ## suffix lemmas for the scanners -/

theorem skipWsScalarAux_suffix : ∀ (s : Bytes) (b : Bool), skipWsScalarAux b s <:+ s := by
  intro s
  induction s with
  | nil => intro b; cases b <;> exact List.suffix_refl _
  | cons c cs ih =>
    intro b
    have h1 := (ih true).trans (List.suffix_cons c cs)
    have h2 := (ih false).trans (List.suffix_cons c cs)
    cases b with
    | true =>
      rw [skipWsScalarAux]
      split
      · exact h2
      · exact h1
    | false =>
      rw [skipWsScalarAux]
      split
      · exact h1
      · split
        · exact h2
        · exact List.suffix_refl _

theorem skipWs_suffix (s : Bytes) : skipWs s <:+ s := by
  rw [skipWs_eq]; exact skipWsScalarAux_suffix s false

theorem findQuoteScalarAux_suffix : ∀ (s : Bytes) (sk bs : Bool) (q : Bytes) (e : Bool),
    findQuoteScalarAux sk bs s = some (q, e) → q <:+ s := by
  intro s
  induction s with
  | nil => intro sk bs q e h; simp [findQuoteScalarAux] at h
  | cons c cs ih =>
    intro sk bs q e h
    cases sk with
    | true =>
      rw [findQuoteScalarAux] at h
      exact (ih _ _ _ _ h).trans (List.suffix_cons c cs)
    | false =>
      rw [findQuoteScalarAux] at h
      split at h
      · exact (ih _ _ _ _ h).trans (List.suffix_cons c cs)
      · split at h
        · simp only [Option.some.injEq, Prod.mk.injEq] at h
          rw [← h.1]; exact List.suffix_refl _
        · exact (ih _ _ _ _ h).trans (List.suffix_cons c cs)

theorem findQuote_suffix (s q : Bytes) (e : Bool) (h : findQuote s = some (q, e)) : q <:+ s := by
  rw [findQuote_eq] at h
  exact findQuoteScalarAux_suffix s false false q e h

theorem tail_suffix (s : Bytes) : s.tail <:+ s := List.tail_suffix s

/-! ## characters -/

theorem strBytes_formfeed' : strBytes "formfeed" = [0x66, 0x6F, 0x72, 0x6D, 0x66, 0x65, 0x65, 0x64] := by
  decide +kernel
theorem strBytes_backspace' : strBytes "backspace" = [0x62, 0x61, 0x63, 0x6B, 0x73, 0x70, 0x61, 0x63, 0x65] := by
  decide +kernel

def delimNotHex (c : UInt8) : Bool := !isDelim c || (hexDigit? c).isNone
theorem delimNotHex_all : ∀ c, delimNotHex c = true := forall_u8_bool _ (by decide +kernel)

theorem hexDigit_none_of_delim {c : UInt8} (h : isDelim c = true) : hexDigit? c = none := by
  have := delimNotHex_all c
  simpa [delimNotHex, h] using this

def validSingleSame (cfg : Cfg) (c : UInt8) : Bool :=
  c == 0x0C || c == 0x08 || isValidSingleChar cfg c == isValidSingleChar Cfg.core c
theorem validSingleSame_all (cfg : Cfg) : ∀ c, validSingleSame cfg c = true := by
  obtain ⟨clj, exp⟩ := cfg
  cases clj <;> cases exp <;> exact forall_u8_bool _ (by decide +kernel)

theorem isValidSingleChar_flag (cfg : Cfg) {c : UInt8} (h1 : c ≠ 0x0C) (h2 : c ≠ 0x08) :
    isValidSingleChar cfg c = isValidSingleChar Cfg.core c := by
  have := validSingleSame_all cfg c
  simp only [validSingleSame, Bool.or_eq_true, beq_iff_eq] at this
  rcases this with (h | h) | h
  · exact absurd h h1
  · exact absurd h h2
  · exact h

theorem hexMore_stop (k v : Nat) (q : Bytes) (h : q = [] ∨ isDelim (peek q) = true) :
    hexMore k v q = (v, q) := by
  cases k with
  | zero => rfl
  | succ k =>
    cases q with
    | nil => rfl
    | cons c r =>
      rcases h with h | h
      · cases h
      · have h' : isDelim c = true := h
        rw [hexMore, hexDigit_none_of_delim h']

theorem hex4_suffix {q : Bytes} {x : Nat × Bytes} (h : hex4? q = some x) : x.2 <:+ q := by
  unfold hex4? at h
  split at h
  · split at h
    · cases h
      exact ⟨[_, _, _, _], rfl⟩
    · cases h
  · cases h

theorem charNamed_suffix {p : Bytes} {nm : String} {cp : Nat} {x : Nat × Bytes}
    (h : charNamed p nm cp = some x) : x.2 <:+ p := by
  unfold charNamed at h
  split at h
  · cases h; exact List.drop_suffix _ _
  · cases h

/-- the part of `charBody` after the named characters -/
def charTail (cfg : Cfg) (p : Bytes) : Except Nat (Nat × Bytes) :=
  let c := peek p
  let c1 := peek p.tail
  if cfg.clj && c == 0x6F && !p.tail.isEmpty && is09 c1 then
    match octalChar p.tail with
    | none => .error p.tail.length
    | some x => .ok x
  else if c == 0x75 && !p.tail.isEmpty && (hexDigit? c1).isSome then
    let q := p.tail
    match hex4? q with
    | none => .error (q.length - 4)
    | some (v, q') =>
      if cfg.exp then .ok (hexMore 2 v q') else .ok (v, q')
  else if !isValidSingleChar cfg c then .error (p.length - 1)
  else .ok (c.toNat, p.tail)

def charExt (cfg : Cfg) (p : Bytes) : Option (Nat × Bytes) :=
  if cfg.clj then (charNamed p "formfeed" 0x0C).orElse (fun _ => charNamed p "backspace" 0x08) else none

theorem charBody_eq (ctx : Ctx) (p : Bytes) :
    charBody ctx p =
      match charNamed p "newline" 0x0A with
      | some x => .ok x
      | none => match charNamed p "return" 0x0D with
      | some x => .ok x
      | none => match charNamed p "space" 0x20 with
      | some x => .ok x
      | none => match charNamed p "tab" 0x09 with
      | some x => .ok x
      | none =>
      match charExt ctx.cfg p with
      | some x => .ok x
      | none => charTail ctx.cfg p := rfl

theorem charTail_core_ok (cfg : Cfg) (p : Bytes) (cp : Nat) (rest : Bytes)
    (h : charTail Cfg.core p = .ok (cp, rest))
    (hd : rest = [] ∨ isDelim (peek rest) = true)
    (h1 : peek p ≠ 0x0C) (h2 : peek p ≠ 0x08) :
    charTail cfg p = .ok (cp, rest) ∧ rest <:+ p := by
  unfold charTail at h ⊢
  simp only [] at h ⊢
  rw [if_neg (by simp [Cfg.core])] at h
  by_cases ho : (cfg.clj && peek p == 0x6F && !p.tail.isEmpty && is09 (peek p.tail)) = true
  · exfalso
    simp only [Bool.and_eq_true, beq_iff_eq, Bool.not_eq_true'] at ho
    obtain ⟨⟨⟨_, hc⟩, hne⟩, h09⟩ := ho
    rw [hc] at h
    have e1 : ((0x6F : UInt8) == 0x75) = false := by decide
    have e2 : isValidSingleChar Cfg.core 0x6F = true := by decide +kernel
    rw [e1, Bool.false_and, Bool.false_and, if_neg Bool.false_ne_true, e2] at h
    rw [if_neg (by decide)] at h
    cases h
    obtain ⟨_, hnd, _, _⟩ := is09_facts h09
    rcases hd with hd | hd
    · rw [hd] at hne; cases hne
    · rw [hnd] at hd; cases hd
  rw [if_neg ho]
  by_cases hu : (peek p == 0x75 && !p.tail.isEmpty && (hexDigit? (peek p.tail)).isSome) = true
  · rw [if_pos hu] at h ⊢
    cases hx : hex4? p.tail with
    | none => rw [hx] at h; cases h
    | some x =>
      obtain ⟨v, q'⟩ := x
      rw [hx] at h
      simp only [] at h ⊢
      rw [if_neg (by simp [Cfg.core])] at h
      cases h
      refine ⟨?_, (hex4_suffix hx).trans (tail_suffix p)⟩
      rw [hexMore_stop 2 _ _ hd]
      split <;> rfl
  · rw [if_neg hu] at h ⊢
    rw [isValidSingleChar_flag cfg h1 h2]
    split at h
    · cases h
    · rename_i hv
      rw [if_neg hv]
      cases h
      exact ⟨rfl, tail_suffix p⟩

theorem charTail_core_letter (a b : UInt8) (t : Bytes)
    (ha : (a == 0x75) = false) (hv : isValidSingleChar Cfg.core a = true) :
    charTail Cfg.core (a :: b :: t) = .ok (a.toNat, b :: t) := by
  unfold charTail
  simp only []
  have ha' : (peek (a :: b :: t) == 0x75) = false := ha
  have hv' : isValidSingleChar Cfg.core (peek (a :: b :: t)) = true := hv
  rw [if_neg (by simp [Cfg.core]), ha', Bool.false_and, Bool.false_and, if_neg Bool.false_ne_true, hv']
  rfl

theorem charNamed_prefix {p : Bytes} {nm : String} {cp : Nat} {x : Nat × Bytes}
    (h : charNamed p nm cp = some x) : ∃ t, p = strBytes nm ++ t := by
  unfold charNamed at h
  split at h
  · rename_i hs
    unfold startsWith at hs
    rw [List.isPrefixOf_iff_prefix] at hs
    obtain ⟨t, ht⟩ := hs
    exact ⟨t, ht.symm⟩
  · cases h

theorem charExt_core_none (cfg : Cfg) (p : Bytes) (cp : Nat) (rest : Bytes)
    (h : charTail Cfg.core p = .ok (cp, rest))
    (hd : rest = [] ∨ isDelim (peek rest) = true) : charExt cfg p = none := by
  unfold charExt
  split
  · have key : ∀ (nm : String) (c : Nat) (a b : UInt8) (l : Bytes), strBytes nm = a :: b :: l →
        (a == 0x75) = false → isValidSingleChar Cfg.core a = true → isDelim b = false →
        charNamed p nm c = none := by
      intro nm c a b l hnm ha hv hb
      cases hc : charNamed p nm c with
      | none => rfl
      | some x =>
        exfalso
        obtain ⟨t, ht⟩ := charNamed_prefix hc
        rw [hnm] at ht
        rw [ht] at h
        simp only [List.cons_append] at h
        rw [charTail_core_letter a b _ ha hv] at h
        cases h
        rcases hd with hd | hd
        · cases hd
        · rw [show peek (b :: (l ++ t)) = b from rfl, hb] at hd; cases hd
    rw [key "formfeed" 0x0C _ _ _ strBytes_formfeed' (by decide) (by decide +kernel) (by decide +kernel),
      key "backspace" 0x08 _ _ _ strBytes_backspace' (by decide) (by decide +kernel) (by decide +kernel)]
    rfl
  · rfl

theorem charExt_core (p : Bytes) : charExt Cfg.core p = none := rfl

theorem charBody_core_ok (cfg : Cfg) (o o' : Opts) (p : Bytes) (cp : Nat) (rest : Bytes)
    (h : charBody { cfg := Cfg.core, opts := o } p = .ok (cp, rest))
    (hd : rest = [] ∨ isDelim (peek rest) = true)
    (h1 : peek p ≠ 0x0C) (h2 : peek p ≠ 0x08) :
    charBody { cfg := cfg, opts := o' } p = .ok (cp, rest) ∧ rest <:+ p := by
  rw [charBody_eq] at h ⊢
  cases hn1 : charNamed p "newline" 0x0A with
  | some x => rw [hn1] at h; cases h; exact ⟨rfl, charNamed_suffix hn1⟩
  | none =>
  rw [hn1] at h
  simp only [] at h ⊢
  cases hn2 : charNamed p "return" 0x0D with
  | some x => rw [hn2] at h; cases h; exact ⟨rfl, charNamed_suffix hn2⟩
  | none =>
  rw [hn2] at h
  simp only [] at h ⊢
  cases hn3 : charNamed p "space" 0x20 with
  | some x => rw [hn3] at h; cases h; exact ⟨rfl, charNamed_suffix hn3⟩
  | none =>
  rw [hn3] at h
  simp only [] at h ⊢
  cases hn4 : charNamed p "tab" 0x09 with
  | some x => rw [hn4] at h; cases h; exact ⟨rfl, charNamed_suffix hn4⟩
  | none =>
  rw [hn4] at h
  simp only [] at h ⊢
  rw [charExt_core] at h
  simp only [] at h
  rw [charExt_core_none cfg p cp rest h hd]
  exact charTail_core_ok cfg p cp rest h hd h1 h2

theorem peek_ne_of_not_infix {a b : UInt8} {t : Bytes} (hb : b ≠ 0) (h : ¬ [a, b] <:+: a :: t) :
    peek t ≠ b := by
  intro hp
  cases t with
  | nil => exact hb hp.symm
  | cons c r =>
    have : c = b := hp
    subst this
    exact h ⟨[], r, rfl⟩

theorem flagOK_char (cfg : Cfg) (h : Hdr) (cp : Nat) : flagOK cfg (.char h cp) := by
  unfold flagOK; trivial

theorem readCharacter_core_ok (cfg : Cfg) (o o' : Opts) (st st' : St) (v : Val) (t : Bytes)
    (hs : st.rest = 0x5C :: t) (h1 : ¬ [0x5C, 0x0C] <:+: st.rest) (h2 : ¬ [0x5C, 0x08] <:+: st.rest)
    (h : readCharacter { cfg := Cfg.core, opts := o } st = .ok v st') :
    readCharacter { cfg := cfg, opts := o' } st = .ok v st' ∧ st'.rest <:+ st.rest ∧ flagOK cfg v := by
  rw [readCharacter_eq] at h ⊢
  rw [hs] at h1 h2
  have p1 := peek_ne_of_not_infix (by decide) h1
  have p2 := peek_ne_of_not_infix (by decide) h2
  have ht : st.rest.tail = t := by rw [hs]; rfl
  rw [ht] at h ⊢
  split at h
  · cases h
  · rename_i hne
    rw [if_neg hne]
    cases hb : charBody { cfg := Cfg.core, opts := o } t with
    | error ee => rw [hb] at h; cases h
    | ok x =>
      obtain ⟨cp, rest⟩ := x
      rw [hb] at h
      simp only [] at h
      split at h
      · cases h
      · rename_i hcp
        split at h
        · cases h
        · rename_i hdel
          have hd : rest = [] ∨ isDelim (peek rest) = true := by
            cases rest with
            | nil => exact Or.inl rfl
            | cons c r =>
              right
              simpa using hdel
          obtain ⟨hb', hsuf⟩ := charBody_core_ok cfg o o' t cp rest hb hd p1 p2
          rw [hb']
          simp only []
          rw [if_neg hcp, if_neg hdel]
          cases h
          refine ⟨rfl, ?_, flagOK_char _ _ _⟩
          rw [hs]
          exact hsuf.trans (List.suffix_cons _ _)

/-! ## strings, identifiers, symbolic values -/

theorem readString_flag (cfg : Cfg) (o o' : Opts) (st : St) (h : ¬ [0x22, 0x22, 0x22, 0x0A] <:+: st.rest) :
    readString { cfg := cfg, opts := o' } st = readString { cfg := Cfg.core, opts := o } st := by
  have hp : startsWith st.rest [0x22, 0x22, 0x22, 0x0A] = false := by
    cases hsw : startsWith st.rest [0x22, 0x22, 0x22, 0x0A] with
    | false => rfl
    | true =>
      unfold startsWith at hsw
      rw [List.isPrefixOf_iff_prefix] at hsw
      exact absurd hsw.isInfix h
  unfold readString
  simp only []
  rw [hp, Bool.and_false, Bool.and_false]
  rfl

theorem readString_core_ok (o : Opts) (st st' : St) (v : Val)
    (h : readString { cfg := Cfg.core, opts := o } st = .ok v st') :
    st'.rest <:+ st.rest ∧ ∃ hd d e, v = .str hd d e ∧ d <:+: st.rest := by
  unfold readString at h
  simp only [] at h
  rw [if_neg (by simp [Cfg.core])] at h
  cases hq : findQuote st.rest.tail with
  | none => rw [hq] at h; cases h
  | some x =>
    obtain ⟨q, esc⟩ := x
    rw [hq] at h
    simp only [] at h
    cases h
    refine ⟨(tail_suffix q).trans ((findQuote_suffix _ _ _ hq).trans (tail_suffix _)), _, _, _, rfl, ?_⟩
    unfold slice
    exact (List.take_prefix _ _).isInfix.trans (tail_suffix _).isInfix

theorem flagOK_str (cfg : Cfg) (hd : Hdr) (d : Bytes) (e : Bool) (h : coreStrings (.str hd d e) = true) :
    flagOK cfg (.str hd d e) := by
  unfold flagOK
  unfold coreStrings at h
  exact stringContent_core cfg d e h

theorem flagOK_str_noExt (cfg : Cfg) (hd : Hdr) (d : Bytes) (e : Bool) (h : NoExt d) :
    flagOK cfg (.str hd d e) := by
  unfold flagOK
  exact stringContent_noExt cfg d e h

theorem readIdentifier_flag (ctx ctx' : Ctx) (st : St) : readIdentifier ctx st = readIdentifier ctx' st := rfl

theorem readSymbolic_flag (ctx ctx' : Ctx) (st : St) : readSymbolic ctx st = readSymbolic ctx' st := rfl

theorem readIdentifier_ok (cfg : Cfg) (ctx : Ctx) (st st' : St) (v : Val) (h : readIdentifier ctx st = .ok v st') :
    st'.rest <:+ st.rest ∧ flagOK cfg v := by
  unfold readIdentifier at h
  simp only [] at h
  repeat' split at h
  all_goals first
    | (cases h; exact ⟨List.drop_suffix _ _, by unfold flagOK; trivial⟩)
    | cases h

theorem readSymbolic_ok (cfg : Cfg) (ctx : Ctx) (st st' : St) (v : Val) (h : readSymbolic ctx st = .ok v st') :
    st'.rest <:+ st.rest ∧ flagOK cfg v := by
  unfold readSymbolic at h
  simp only [] at h
  repeat' split at h
  all_goals first
    | (cases h; exact ⟨(List.drop_suffix _ _).trans (List.drop_suffix _ _), by unfold flagOK; trivial⟩)
    | cases h

end Edn.Proofs
