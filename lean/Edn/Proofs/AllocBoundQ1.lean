/-
  Edn.Proofs.AllocBoundQ1 — vocabulary of the UNCONDITIONAL polynomial bound on the number of
  allocation requests of a fault-free read (stretch of task E17, property C02).

  The linear bound of Edn.Proofs.AllocBound needs every string literal to decode: a literal whose
  escapes do not decode is asked for again at every look of `edn_value_equal` / `edn_value_hash`.
  Here nothing is assumed about the literals; instead every look is paid for:

  * `sz v`: number of nodes of the tree `v`, metadata included.  A value read from `c` bytes has at
    most `2 * c` nodes.
  * `StpQ c a a'`: from `a` to `a'` at most `c` requests were made (and the parser's arena is alive).
  * equality of `u` and `w` makes at most `2 * (sz u * sz w)` requests, hashing `v` at most `sz v`;
    the duplicate check of a collection whose elements have `S` nodes at most `1 + 4 * S * S`.
  * `Pot L`: the potential of `L` bytes still to be read, `4 * L + 16 * (1² + 2² + … + L²)`: a byte
    read when `L + 1` bytes are left pays four requests and reserves `16 * (L + 1)²` for the
    duplicate check / metadata merge of the form it opens (which has at most `2 * L` nodes).
-/
import Edn.Proofs.AllocBoundAux3

namespace Edn.Proofs.AllocBoundQ
open Edn.Model Edn.Proofs.AllocBasic Edn.Proofs.AllocBound

/-! ## Size of a tree -/

mutual
/-- number of nodes, metadata included -/
def sz : Val → Nat
  | .nil _ => 1
  | .bool _ _ => 1
  | .int _ _ => 1
  | .bigint _ _ _ _ => 1
  | .float _ _ => 1
  | .bigdec _ _ _ => 1
  | .ratio _ _ _ => 1
  | .bigratio _ _ _ _ => 1
  | .char _ _ => 1
  | .str _ _ _ => 1
  | .sym _ md _ _ => 1 + szO md
  | .kw _ _ _ => 1
  | .list _ md xs => 1 + szO md + szL xs
  | .vec _ md xs => 1 + szO md + szL xs
  | .map _ md ks vs => 1 + szO md + szL ks + szL vs
  | .set _ md xs => 1 + szO md + szL xs
  | .tagged _ md _ v => 1 + szO md + sz v
  | .ext _ _ _ => 1
def szL : List Val → Nat
  | [] => 0
  | v :: vs => sz v + szL vs
def szO : Option Val → Nat
  | none => 0
  | some v => sz v
end

theorem sz_pos (v : Val) : 1 ≤ sz v := by
  cases v <;> simp only [sz] <;> omega

theorem sz_setHdr (v : Val) (h : Hdr) : sz (v.setHdr h) = sz v := by
  cases v <;> simp only [Val.setHdr, sz]

theorem szL_append (xs ys : List Val) : szL (xs ++ ys) = szL xs + szL ys := by
  induction xs with
  | nil => simp [szL]
  | cons v vs ih => simp only [List.cons_append, szL, ih]; omega

theorem szL_reverse (xs : List Val) : szL xs.reverse = szL xs := by
  induction xs with
  | nil => rfl
  | cons v vs ih => simp only [List.reverse_cons, szL_append, szL, ih]; omega

theorem length_le_szL (xs : List Val) : xs.length ≤ szL xs := by
  induction xs with
  | nil => simp [szL]
  | cons v vs ih => have := sz_pos v; simp only [List.length_cons, szL]; omega

theorem sz_le_szL {v : Val} {xs : List Val} (h : v ∈ xs) : sz v ≤ szL xs := by
  induction xs with
  | nil => cases h
  | cons y ys ih =>
    simp only [szL]
    cases h with
    | head => omega
    | tail _ h => have := ih h; omega

theorem szL_sublist {xs ys : List Val} (h : List.Sublist xs ys) : szL xs ≤ szL ys := by
  induction h with
  | slnil => exact Nat.le_refl _
  | cons a _ ih => simp only [szL]; omega
  | cons_cons a _ ih => simp only [szL]; omega

theorem szL_takeWhile_dropWhile (p : Val → Bool) (xs : List Val) :
    szL (xs.takeWhile p) + szL (xs.dropWhile p) = szL xs := by
  rw [← szL_append, List.takeWhile_append_dropWhile]

/-- the metadata of a value is part of it -/
theorem szO_md_le (v : Val) : szO v.md ≤ sz v := by
  cases v <;> simp only [Val.md, sz, szO] <;> omega

/-- replacing the metadata -/
theorem sz_setMd (v : Val) (m : Option Val) (ht : v.metaTarget = true) :
    sz (v.setMd m) + szO v.md = sz v + szO m := by
  cases v <;> simp only [Val.metaTarget] at ht <;> simp only [Val.setMd, Val.md, sz] <;> first | omega | cases ht

/-! ## Counting requests -/

/-- from `a` to `a'` at most `c` requests; the parser's arena is alive -/
def StpQ (c : Nat) (a a' : ASt) : Prop := a'.arena = .alive ∧ a'.reqs ≤ a.reqs + c

theorem Psi_zero (b : List Nat) : Psi 0 b = 0 := rfl

theorem StpQ.of {c : Nat} {a a' : ASt} (h : Stp 0 c a a') : StpQ c a a' :=
  ⟨h.1, by have := h.2; simp only [Psi_zero] at this; omega⟩

theorem StpQ.refl {a : ASt} (ha : a.arena = .alive) : StpQ 0 a a := ⟨ha, Nat.le_refl _⟩

theorem StpQ.trans {c1 c2 : Nat} {a a1 a2 : ASt} (h1 : StpQ c1 a a1) (h2 : StpQ c2 a1 a2) :
    StpQ (c1 + c2) a a2 := ⟨h2.1, by have := h1.2; have := h2.2; omega⟩

theorem StpQ.mono {c c' : Nat} {a a' : ASt} (h : StpQ c a a') (hc : c ≤ c') : StpQ c' a a' :=
  ⟨h.1, by have := h.2; omega⟩

theorem StpQ.zero {c : Nat} {a : ASt} (ha : a.arena = .alive) : StpQ c a a := (StpQ.refl ha).mono (Nat.zero_le _)

section
variable {orc : Nat → Bool} (horc : ∀ n, orc n = false)
include horc

theorem requestQ (k : ReqKind) (a : ASt) (old : Nat) (ha : a.arena = .alive) :
    (a.request orc k old).1 = true ∧ StpQ 1 a (a.request orc k old).2 :=
  ⟨(request_ff (N := 0) horc k a old ha).1, .of (request_ff (N := 0) horc k a old ha).2⟩

theorem rawAllocQ (k : ReqKind) (a : ASt) (ha : a.arena = .alive) :
    (∃ i, (a.rawAlloc orc k).1 = some i) ∧ StpQ 1 a (a.rawAlloc orc k).2 :=
  ⟨(rawAlloc_ff (N := 0) horc k a ha).1, .of (rawAlloc_ff (N := 0) horc k a ha).2⟩

theorem reallocQ (old : Nat) (a : ASt) (ha : a.arena = .alive) :
    (∃ i, (a.realloc orc old).1 = some i) ∧ StpQ 1 a (a.realloc orc old).2 :=
  ⟨(realloc_ff (N := 0) horc old a ha).1, .of (realloc_ff (N := 0) horc old a ha).2⟩

end

theorem freeQ (i : Nat) (a : ASt) (ha : a.arena = .alive) : StpQ 0 a (a.free i) := .of (free_stp i a ha)
theorem releaseQ (b : TbBuf) (a : ASt) (ha : a.arena = .alive) : StpQ 0 a (b.release a) := .of (release_stp b a ha)

section
variable {x : ACtx} (horc : ∀ n, x.orc n = false)
include horc

theorem addQ (b : BSt) (a : ASt) (ha : a.arena = .alive) :
    (∃ b', (b.add x a).1 = some b') ∧ StpQ 1 a (b.add x a).2 :=
  ⟨(add_stp (N := 0) horc b a ha).1, .of (add_stp (N := 0) horc b a ha).2⟩

theorem finishQ (b : BSt) (a : ASt) (ha : a.arena = .alive) :
    (b.finish x a).1 = true ∧ StpQ 1 a (b.finish x a).2 :=
  ⟨(finish_stp (N := 0) horc b a ha).1, .of (finish_stp (N := 0) horc b a ha).2⟩

theorem addPairQ (b : BSt) (a : ASt) (ha : a.arena = .alive) :
    (∃ b', (b.addPair x a).1 = some b') ∧ StpQ 2 a (b.addPair x a).2 :=
  ⟨(addPair_stp (N := 0) horc b a ha).1, .of (addPair_stp (N := 0) horc b a ha).2⟩

theorem finishPairQ (b : BSt) (a : ASt) (ha : a.arena = .alive) :
    (b.finishPair x a).1 = true ∧ StpQ 2 a (b.finishPair x a).2 :=
  ⟨(finishPair_stp (N := 0) horc b a ha).1, .of (finishPair_stp (N := 0) horc b a ha).2⟩

theorem metaEntryQ (m : Val) (a : ASt) (ha : a.arena = .alive) :
    (metaEntryA x m a).1 = true ∧ StpQ 3 a (metaEntryA x m a).2 :=
  ⟨(metaEntryA_stp (N := 0) horc m a ha).1, .of (metaEntryA_stp (N := 0) horc m a ha).2⟩

/-- one look at a string: one request at most -/
theorem strContentQ (h : Hdr) (data : Bytes) (esc : Bool) (a : ASt) (ha : a.arena = .alive) :
    StpQ 1 a (strContentA x h data esc a).2 := by
  unfold strContentA
  split
  · exact StpQ.zero ha
  · split
    · exact StpQ.zero ha
    · have hr := requestQ horc .arena a 0 ha
      rcases hq : a.request x.orc .arena with ⟨ok, a1⟩
      rw [hq] at hr
      obtain ⟨hok, hst⟩ := hr
      simp only at hok hst
      subst hok
      simp only [Bool.not_true, Bool.false_eq_true, ↓reduceIte]
      split
      · exact ⟨hst.1, hst.2⟩
      · exact hst

/-- one look at the digits of a big number: one request at most -/
theorem cleanQ (h : Hdr) (d : Bytes) (a : ASt) (ha : a.arena = .alive) : StpQ 1 a (cleanA x h d a).2 := by
  unfold cleanA
  split
  · exact StpQ.zero ha
  · split
    · exact StpQ.zero ha
    · have hr := requestQ horc .arena a 0 ha
      rcases hq : a.request x.orc .arena with ⟨ok, a1⟩
      rw [hq] at hr
      obtain ⟨hok, hst⟩ := hr
      simp only at hok hst
      subst hok
      simp only [Bool.not_true, Bool.false_eq_true, ↓reduceIte]
      exact ⟨hst.1, hst.2⟩

end

/-! ## The potential -/

/-- `16 * (1² + … + L²)` -/
def Q : Nat → Nat
  | 0 => 0
  | L + 1 => Q L + 16 * ((L + 1) * (L + 1))

/-- potential of `L` bytes still to be read -/
def Pot (L : Nat) : Nat := 4 * L + Q L

theorem Pot_succ (L : Nat) : Pot (L + 1) = Pot L + 4 + 16 * ((L + 1) * (L + 1)) := by
  simp only [Pot, Q]; omega

theorem Pot_step {L' L : Nat} (h : L' ≤ L) : Pot L' + 4 * (L - L') ≤ Pot L := by
  induction L with
  | zero => have : L' = 0 := by omega
            subst this; simp
  | succ L ih =>
    rcases Nat.lt_or_ge L' (L + 1) with hlt | hge
    · have := ih (by omega)
      rw [Pot_succ]; omega
    · have : L' = L + 1 := by omega
      subst this; simp

theorem Pot_mono {L' L : Nat} (h : L' ≤ L) : Pot L' ≤ Pot L := by
  have := Pot_step h; omega

/-- the byte read when `L0 + 1` bytes are left pays four requests and reserves `16 * (L0 + 1)²` -/
theorem Pot_open {L1 L0 L : Nat} (h1 : L1 ≤ L0) (h0 : L0 + 1 ≤ L) :
    Pot L1 + 4 + 16 * ((L0 + 1) * (L0 + 1)) ≤ Pot L := by
  have := Pot_mono h1
  have := Pot_mono h0
  have := Pot_succ L0
  omega

theorem Q_le (L : Nat) : Q L ≤ 16 * (L * (L * L)) := by
  induction L with
  | zero => simp [Q]
  | succ L ih =>
    simp only [Q]
    have h1 : L * (L * L) ≤ L * ((L + 1) * (L + 1)) :=
      Nat.mul_le_mul_left _ (Nat.mul_le_mul (Nat.le_succ _) (Nat.le_succ _))
    have h2 : (L + 1) * ((L + 1) * (L + 1)) = L * ((L + 1) * (L + 1)) + (L + 1) * (L + 1) := by
      rw [Nat.add_mul, Nat.one_mul]
    omega

/-! ## Hypotheses, and the relation the induction over the reader maintains -/

/-- hypotheses of the bound: nothing about the input -/
structure HypQ (x : ACtx) : Prop where
  orc : ∀ n, x.orc n = false
  reg : x.ctx.opts.registry = none

/-- what the induction maintains for a reader result: the parser's arena stays alive; a value has
    at most two nodes per byte consumed and cost at most the potential released minus two; a closing
    delimiter does not move backwards and cost at most the potential released; an error ends the
    read, whatever was spent stays within the potential plus two -/
def RelV (st : St) (a : ASt) (r : Res × ASt) : Prop :=
  r.2.arena = .alive ∧
  match r.1 with
  | .ok v st' => sz v + 2 * st'.rest.length ≤ 2 * st.rest.length ∧
      r.2.reqs + Pot st'.rest.length + 2 ≤ a.reqs + Pot st.rest.length
  | .closer st' => st'.rest.length ≤ st.rest.length ∧
      r.2.reqs + Pot st'.rest.length ≤ a.reqs + Pot st.rest.length
  | .err _ _ => r.2.reqs ≤ a.reqs + Pot st.rest.length + 2

end Edn.Proofs.AllocBoundQ
