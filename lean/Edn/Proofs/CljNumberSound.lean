/-
  Edn.Proofs.CljNumberSound — exactness of the number reader with the Clojure flag (either
  setting of the experimental flag): started where the dispatcher sends a number,
  `edn_read_number` returns a payload and a continuation point **iff** the bytes consumed are a
  token of `Edn.Spec.CljNum` denoting that payload and the continuation is an admissible end
  (`Edn.Spec.CljNumEnd`).

  STATEMENT CHANGE with respect to the core theorem (`readNumber_core_sound`): the conclusion
  `TermStart rest` is false with the Clojure flag.  A ratio that denotes an integer (`4/2`, `0/5`)
  makes `edn_read_number` return early (number.c, the two `return value;` in the ratio block and
  the `create_ratio_zero:` path), *without* `validate_number_delimiter`; the denominator scan
  only requires the next byte to be a delimiter of the identifier table, which contains two bytes
  that are not number terminators: `\` (0x5C) and DEL (0x7F).  Counterexample (checked below):
  `4/2\a` reads as the integer 2 with rest `\a`, although `2\a`, `1/2\a` and `4\a` are errors.
  So the end condition is `CljNumEnd tok v rest`: `TermStart rest`, or — for a token containing
  `/` whose payload is an `int` — any delimiter start.  With that end condition the reader is
  sound and complete.
-/
import Edn.Spec.CljNumLit
import Edn.Proofs.NumberReader
import Edn.Proofs.CljNumberSoundAux4
import Edn.Proofs.CljNumberSoundAux5
import Edn.Proofs.CljNumberSoundAux6

namespace Edn.Proofs
open Edn.Model Edn.Spec

/-- the counterexample to `TermStart rest` (Clojure flag, either experimental setting) -/
example : readNumber ⟨true, false⟩ "4/2\\a".toUTF8.toList = .ok (.int 2) "\\a".toUTF8.toList := by
  decide +kernel
example : readNumber ⟨true, false⟩ "0/5\\a".toUTF8.toList = .ok (.int 0) "\\a".toUTF8.toList := by
  decide +kernel
example : readNumber ⟨true, false⟩ "2\\a".toUTF8.toList = .err "\\a".toUTF8.toList := by
  decide +kernel
example : readNumber ⟨true, false⟩ "1/2\\a".toUTF8.toList = .err "\\a".toUTF8.toList := by
  decide +kernel
example : isNumTerm 0x5C = false ∧ isDelim 0x5C = true := by decide +kernel

/-- soundness with the Clojure flag; `s` starts where the dispatcher sends a number (a digit, or
    a sign followed by a digit) -/
theorem readNumber_clj_sound (cfg : Cfg) (hc : cfg.clj = true) (s rest : Bytes) (v : NumVal)
    (hstart : ∃ c t, s = c :: t ∧ (is09 c = true ∨ ((c = 0x2B ∨ c = 0x2D) ∧ ∃ nx t', t = nx :: t' ∧ is09 nx = true)))
    (h : readNumber cfg s = .ok v rest) :
    ∃ tok, s = tok ++ rest ∧ CljNum cfg tok v ∧ CljNumEnd tok v rest := by
  obtain ⟨c, t, rfl, hcs⟩ := hstart
  have hsg : ∃ sg body neg, c :: t = sg ++ body ∧ SignTok sg neg ∧ is09 (peek body) = true := by
    rcases hcs with hcs | ⟨hcs | hcs, nx, t', rfl, hnx⟩
    · exact ⟨[], c :: t, false, rfl, Or.inl ⟨rfl, rfl⟩, hcs⟩
    · subst hcs
      exact ⟨[0x2B], nx :: t', false, rfl, Or.inr (Or.inl ⟨rfl, rfl⟩), hnx⟩
    · subst hcs
      exact ⟨[0x2D], nx :: t', true, rfl, Or.inr (Or.inr ⟨rfl, rfl⟩), hnx⟩
  obtain ⟨sg, body, neg, hs0, hs, hb⟩ := hsg
  rw [hs0] at h ⊢
  rw [CNum.readNumber_sign cfg sg body neg hs hb] at h
  exact CljN.numBody_sound cfg hc sg neg body v rest hs hb h

/-- a token without `/` ends at a terminator -/
theorem CljN.term_of_end {tok : Bytes} {v : NumVal} {rest : Bytes} (hns : ∀ c ∈ tok, CljN.OkB c)
    (ht : CljNumEnd tok v rest) : TermStart rest := by
  rcases ht with ht | ⟨hm, -, -⟩
  · exact ht
  · exact absurd rfl (hns _ hm).2.2

/-- completeness with the Clojure flag: every `CljNum` token followed by an admissible end is read
    as what it denotes -/
theorem readNumber_clj_complete_end (cfg : Cfg) (hc : cfg.clj = true) (tok rest : Bytes) (v : NumVal)
    (h : CljNum cfg tok v) (ht : CljNumEnd tok v rest) : readNumber cfg (tok ++ rest) = .ok v rest := by
  cases h with
  | dec sg ip neg hs hip =>
    have ht' : TermStart rest := by
      refine CljN.term_of_end ?_ ht
      intro c hc'
      rcases List.mem_append.mp hc' with hc' | hc'
      · exact CljN.sign_okB hs c hc'
      · exact CljN.cljInt_okB hip c hc'
    rw [List.append_assoc, CNum.readNumber_sign cfg sg _ neg hs (CljN.cljInt_peek hip _)]
    exact CljN.body_dec cfg hc _ neg ip rest hip ht'
  | decN sg ip neg hs hip =>
    have ht' : TermStart rest := by
      refine CljN.term_of_end ?_ ht
      intro c hc'
      simp only [List.mem_append, List.mem_singleton] at hc'
      rcases hc' with (hc' | hc') | hc'
      · exact CljN.sign_okB hs c hc'
      · exact CljN.cljInt_okB hip c hc'
      · subst hc'; exact ⟨by decide, by decide, by decide⟩
    have e : sg ++ ip ++ [0x4E] ++ rest = sg ++ (ip ++ 0x4E :: rest) := by simp
    rw [e, CNum.readNumber_sign cfg sg _ neg hs (CljN.cljInt_peek hip _)]
    exact CljN.body_decN cfg hc _ neg ip rest hip ht'
  | float sg ip fr ex neg hs hm hne =>
    have ht' : TermStart rest := by
      refine CljN.term_of_end ?_ ht
      intro c hc'
      have e : sg ++ ip ++ fr ++ ex = sg ++ (ip ++ fr ++ ex) := by simp
      rw [e] at hc'
      rcases List.mem_append.mp hc' with hc' | hc'
      · exact CljN.sign_okB hs c hc'
      · exact CljN.mantissa_okB hm c hc'
    have e : sg ++ ip ++ fr ++ ex ++ rest = sg ++ (ip ++ (fr ++ (ex ++ rest))) := by simp
    rw [e, CNum.readNumber_sign cfg sg _ neg hs (CljN.cljInt_peek hm.hip _),
      CljN.body_float cfg hc _ neg ip fr ex rest hm hne ht', ← e, CNum.slice_append]
  | decM sg ip fr ex neg hs hm hu =>
    have ht' : TermStart rest := by
      refine CljN.term_of_end ?_ ht
      intro c hc'
      have e : sg ++ ip ++ fr ++ ex ++ [0x4D] = sg ++ ((ip ++ fr ++ ex) ++ [0x4D]) := by simp
      rw [e] at hc'
      rcases List.mem_append.mp hc' with hc' | hc'
      · exact CljN.sign_okB hs c hc'
      · rcases List.mem_append.mp hc' with hc' | hc'
        · exact CljN.mantissa_okB hm c hc'
        · simp only [List.mem_singleton] at hc'
          subst hc'; exact ⟨by decide, by decide, by decide⟩
    have e : sg ++ ip ++ fr ++ ex ++ [0x4D] ++ rest = sg ++ (ip ++ (fr ++ (ex ++ 0x4D :: rest))) := by simp
    rw [e, CNum.readNumber_sign cfg sg _ neg hs (CljN.cljInt_peek hm.hip _)]
    exact CljN.body_decM cfg hc _ neg ip fr ex rest hm hu ht'
  | ratio sg nd dd neg hs hn hd =>
    have hend : TermStart rest ∨ ((∃ i, ratioValue cfg neg nd dd = .int i) ∧ DelimStart rest) := by
      rcases ht with ht | ⟨-, hi, hdl⟩
      · exact Or.inl ht
      · exact Or.inr ⟨hi, hdl⟩
    have e : sg ++ nd ++ [0x2F] ++ dd ++ rest = sg ++ (nd ++ 0x2F :: (dd ++ rest)) := by simp
    rw [e, CNum.readNumber_sign cfg sg _ neg hs (CljN.cljInt_peek (Or.inr hn) _)]
    exact CljN.body_ratio cfg hc _ neg nd dd rest hn hd hend
  | zeroRatio sg zs dd neg hs hz hd =>
    have hdl : DelimStart rest := by
      rcases ht with ht | ⟨-, -, hdl⟩
      · exact CljN.delimStart_of_term ht
      · exact hdl
    have e : sg ++ zs ++ [0x2F] ++ dd ++ rest = sg ++ (zs ++ 0x2F :: (dd ++ rest)) := by simp
    rw [e, CNum.readNumber_sign cfg sg _ neg hs (CljN.cljInt_peek (exp := cfg.exp) (Or.inl hz) _)]
    exact CljN.body_zeroRatio cfg hc _ neg zs dd rest hz hd hdl
  | hex sg zs hs x neg suf hs' hz hx hh =>
    have ht' : TermStart rest := by
      refine CljN.term_of_end ?_ ht
      intro c hc'
      simp only [List.mem_append, List.mem_singleton] at hc'
      rcases hc' with (((hc' | hc') | hc') | hc') | hc'
      · exact CljN.sign_okB hs' c hc'
      · exact CljN.okB_digit (CljN.zeroRun_all09 hz c hc')
      · subst hc'
        rcases hx with rfl | rfl <;> exact ⟨by decide, by decide, by decide⟩
      · exact CljN.hexRun_okB (CljN.digRun_uRun hh) c hc'
      · exact CljN.suffix_okB suf c hc'
    have e : sg ++ zs ++ [x] ++ hs ++ suf.bytes ++ rest = sg ++ (zs ++ x :: (hs ++ (suf.bytes ++ rest))) := by
      simp
    rw [e, CNum.readNumber_sign cfg sg _ neg hs' (CljN.cljInt_peek (exp := cfg.exp) (Or.inl hz) _)]
    exact CljN.body_hex cfg hc _ neg zs x hs suf rest hz hx hh ht'
  | octal sg zs os neg suf hs hz ho hfirst =>
    have ht' : TermStart rest := by
      refine CljN.term_of_end ?_ ht
      intro c hc'
      simp only [List.mem_append] at hc'
      rcases hc' with ((hc' | hc') | hc') | hc'
      · exact CljN.sign_okB hs c hc'
      · exact CljN.okB_digit (CljN.zeroRun_all09 hz c hc')
      · exact CljN.hexRun_okB (CljN.octRun_hex (CljN.digRun_uRun ho)) c hc'
      · exact CljN.suffix_okB suf c hc'
    have e : sg ++ zs ++ os ++ suf.bytes ++ rest = sg ++ (zs ++ (os ++ (suf.bytes ++ rest))) := by simp
    rw [e, CNum.readNumber_sign cfg sg _ neg hs (CljN.cljInt_peek (exp := cfg.exp) (Or.inl hz) _)]
    exact CljN.body_octal cfg hc _ neg zs os suf rest hz ho hfirst ht'
  | radix sg rp ds r neg suf hs hrp hrv hr hd hu hsuf =>
    have ht' : TermStart rest := by
      rcases ht with ht | ⟨hm, -, -⟩
      · exact ht
      · exfalso
        simp only [List.mem_append, List.mem_singleton] at hm
        rcases hm with (((hm | hm) | hm) | hm) | hm
        · exact (CljN.sign_okB hs _ hm).2.2 rfl
        · exact (CljN.okB_digit (hrp.2 _ hm)).2.2 rfl
        · rcases hr with rfl | rfl <;> exact absurd hm (by decide)
        · rcases CljN.digRun_uRun hd _ hm with h | ⟨-, h⟩
          · exact (CljN.radix_props hrv.2 h).2.2.2.1 rfl
          · exact absurd h (by decide)
        · exact (CljN.suffix_okB suf _ hm).2.2 rfl
    have hpk : is09 (peek (rp ++ r :: (ds ++ (suf.bytes ++ rest)))) = true := by
      obtain ⟨hne', hall⟩ := hrp
      cases rp with
      | nil => exact absurd rfl hne'
      | cons d t => exact hall d (by simp)
    have e : sg ++ rp ++ [r] ++ ds ++ suf.bytes ++ rest = sg ++ (rp ++ r :: (ds ++ (suf.bytes ++ rest))) := by
      simp
    rw [e, CNum.readNumber_sign cfg sg _ neg hs hpk]
    exact CljN.body_radix cfg hc _ neg rp r ds suf rest hrp hrv hr hd hu hsuf ht'

/-- completeness in the form of `readNumber_core_complete`: in front of the end of the input or a
    terminator -/
theorem readNumber_clj_complete (cfg : Cfg) (hc : cfg.clj = true) (tok rest : Bytes) (v : NumVal)
    (h : CljNum cfg tok v) (ht : TermStart rest) : readNumber cfg (tok ++ rest) = .ok v rest :=
  readNumber_clj_complete_end cfg hc tok rest v h (Or.inl ht)

/-- with the Clojure flag the number reader accepts exactly the `CljNum` grammar -/
theorem readNumber_clj_iff (cfg : Cfg) (hc : cfg.clj = true) (s rest : Bytes) (v : NumVal)
    (hstart : ∃ c t, s = c :: t ∧ (is09 c = true ∨ ((c = 0x2B ∨ c = 0x2D) ∧ ∃ nx t', t = nx :: t' ∧ is09 nx = true))) :
    readNumber cfg s = .ok v rest ↔ ∃ tok, s = tok ++ rest ∧ CljNum cfg tok v ∧ CljNumEnd tok v rest := by
  constructor
  · exact readNumber_clj_sound cfg hc s rest v hstart
  · rintro ⟨tok, rfl, hn, ht⟩
    exact readNumber_clj_complete_end cfg hc tok rest v hn ht

/-! ## the grammar itself -/

/-- nothing of core EDN is lost: every core number token is a `CljNum` token with the same payload
    (so with the Clojure flag it is still read as before: `readNumber_clj_complete`) -/
theorem cljNum_of_coreNum (cfg : Cfg) (tok : Bytes) (v : NumVal) (h : CoreNum cfg tok v) : CljNum cfg tok v :=
  CljN.coreNum_cljNum cfg h

/-- what the experimental flag changes in `edn_read_number`: without it no accepted token contains
    a `_` … -/
theorem cljNum_no_separator (cfg : Cfg) (he : cfg.exp = false) (tok : Bytes) (v : NumVal)
    (h : CljNum cfg tok v) : (0x5F : UInt8) ∉ tok :=
  CljN.cljNum_noU cfg he h

/-- … and that is all it changes: a token without `_` is a token with the same payload under
    either setting -/
theorem cljNum_flag_irrelevant (cfg1 cfg2 : Cfg) (tok : Bytes) (v : NumVal) (hn : (0x5F : UInt8) ∉ tok) :
    CljNum cfg1 tok v ↔ CljNum cfg2 tok v :=
  ⟨CljN.cljNum_flag cfg1 cfg2 hn, CljN.cljNum_flag cfg2 cfg1 hn⟩

/-- consequently the reader itself does not depend on the experimental flag on input whose
    consumed part has no `_` -/
theorem readNumber_clj_exp_irrelevant (e1 e2 : Bool) (s rest : Bytes) (v : NumVal)
    (hstart : ∃ c t, s = c :: t ∧ (is09 c = true ∨ ((c = 0x2B ∨ c = 0x2D) ∧ ∃ nx t', t = nx :: t' ∧ is09 nx = true)))
    (hn : (0x5F : UInt8) ∉ slice s rest)
    (h : readNumber ⟨true, e1⟩ s = .ok v rest) : readNumber ⟨true, e2⟩ s = .ok v rest := by
  obtain ⟨tok, rfl, hc, hend⟩ := readNumber_clj_sound ⟨true, e1⟩ rfl s rest v hstart h
  rw [CNum.slice_append] at hn
  exact readNumber_clj_complete_end ⟨true, e2⟩ rfl tok rest v (CljN.cljNum_flag _ _ hn hc) hend

/-- the payload of a float token is the correctly rounded double of the exact decimal value of its
    text (separators ignored) -/
theorem cljNum_float_value (cfg : Cfg) (sg ip fr ex : Bytes) (neg : Bool) (hs : SignTok sg neg)
    (hm : CljMantissa cfg.exp ip fr ex) :
    parseDouble cfg (sg ++ ip ++ fr ++ ex) =
      (let p := decimalParts (sg ++ ip ++ fr ++ ex); withSign p.1 (ofDec p.2.1 p.2.2)) :=
  CljN.cljNum_float_value cfg sg ip fr ex neg hs hm

/-! ## boundary cases, evaluated by the kernel (Clojure flag; `F` = experimental flag off, `T` = on) -/

section examples
private def b (s : String) : Bytes := s.toUTF8.toList
private abbrev F : Cfg := ⟨true, false⟩
private abbrev T : Cfg := ⟨true, true⟩

-- hexadecimal
example : readNumber F (b "0x") = .err [] := by decide +kernel
example : readNumber F (b "0xG") = .err (b "G") := by decide +kernel
example : readNumber F (b "0x1F") = .ok (.int 31) [] := by decide +kernel
example : readNumber F (b "00x1F") = .ok (.int 31) [] := by decide +kernel
example : readNumber F (b "-0x8000000000000000") = .ok (.int (-9223372036854775808)) [] := by decide +kernel
example : readNumber F (b "-0x8000000000000001") = .ok (.bigint true 16 (b "8000000000000001")) [] := by
  decide +kernel
example : readNumber F (b "0x1FN") = .ok (.bigint false 16 (b "1F")) [] := by decide +kernel
example : readNumber F (b "0x1FM") = .ok (.bigdec false (b "1F")) [] := by decide +kernel
example : readNumber F (b "0x1_F") = .err (b "_F") := by decide +kernel
example : readNumber T (b "0x1_F") = .ok (.int 31) [] := by decide +kernel
example : readNumber T (b "0x1_") = .ok (.int 1) [] := by decide +kernel
example : readNumber T (b "0x1_N") = .ok (.bigint false 16 (b "1_")) [] := by decide +kernel
example : readNumber T (b "0x_1") = .err (b "_1") := by decide +kernel
-- octal and runs of zeros
example : readNumber F (b "07") = .ok (.int 7) [] := by decide +kernel
example : readNumber F (b "007") = .ok (.int 7) [] := by decide +kernel
example : readNumber F (b "08") = .err (b "8") := by decide +kernel
example : readNumber T (b "0_7") = .err (b "_7") := by decide +kernel
example : readNumber F (b "07N") = .ok (.bigint false 8 (b "07")) [] := by decide +kernel
example : readNumber F (b "0777777777777777777777777") =
    .ok (.bigint false 8 (b "0777777777777777777777777")) [] := by decide +kernel
example : readNumber F (b "000") = .ok (.int 0) [] := by decide +kernel
example : readNumber F (b "00N") = .ok (.bigint false 10 (b "0")) [] := by decide +kernel
example : readNumber F (b "00.5M") = .ok (.bigdec false (b "00.5")) [] := by decide +kernel
-- radix
example : readNumber F (b "36rZ") = .ok (.int 35) [] := by decide +kernel
example : readNumber F (b "37r1") = .err (b "37r1") := by decide +kernel
example : readNumber F (b "1r0") = .err (b "1r0") := by decide +kernel
example : readNumber F (b "2r102") = .err (b "2") := by decide +kernel
example : readNumber F (b "010r19") = .ok (.int 19) [] := by decide +kernel
example : readNumber F (b "2r101M") = .ok (.bigdec false (b "101")) [] := by decide +kernel
example : readNumber F (b "2r101N") = .err (b "N") := by decide +kernel
example : readNumber F (b "24r1N") = .ok (.int 47) [] := by decide +kernel
example : readNumber T (b "2r1__0") = .ok (.int 2) [] := by decide +kernel
example : readNumber T (b "2r1_") = .err [] := by decide +kernel
-- ratios
example : readNumber F (b "2/4") = .ok (.ratio 1 2) [] := by decide +kernel
example : readNumber F (b "-1/2") = .ok (.ratio (-1) 2) [] := by decide +kernel
example : readNumber F (b "0/5") = .ok (.int 0) [] := by decide +kernel
example : readNumber F (b "1/0") = .err [] := by decide +kernel
example : readNumber F (b "1/-2") = .err (b "-2") := by decide +kernel
example : readNumber T (b "1_0/2") = .ok (.int 5) [] := by decide +kernel
example : readNumber T (b "1/2_0") = .err (b "_0") := by decide +kernel
-- suffixes and separators in decimal forms
example : readNumber T (b "1__0") = .ok (.int 10) [] := by decide +kernel
example : readNumber T (b "1_") = .err [] := by decide +kernel
example : readNumber T (b "1_N") = .err (b "N") := by decide +kernel
example : readNumber T (b "1_0N") = .ok (.bigint false 10 (b "1_0")) [] := by decide +kernel
example : readNumber T (b "1._5") = .err (b "_5") := by decide +kernel
example : readNumber T (b "1.5_M") = .err (b "M") := by decide +kernel
example : readNumber T (b "1.5_e5") = .err (b "e5") := by decide +kernel
example : readNumber T (b "1e_5") = .err (b "_5") := by decide +kernel
example : readNumber F (b "1.5N") = .err (b "N") := by decide +kernel
-- floats: empty fraction, zeros in front, trailing separators
example : readNumber F (b "1.") = .ok (.float 4607182418800017408) [] := by decide +kernel
example : readNumber F (b "00.5") = .ok (.float 4602678819172646912) [] := by decide +kernel
example : readNumber T (b "1.5_") = .ok (.float 4609434218613702656) [] := by decide +kernel
example : readNumber T (b "1e1_0") = .ok (.float 4756540486875873280) [] := by decide +kernel
example : readNumber F (b "1.5_") = .err (b "_") := by decide +kernel

end examples

end Edn.Proofs
