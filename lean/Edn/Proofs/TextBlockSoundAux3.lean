/-
  Edn.Proofs.TextBlockSoundAux3 — converse direction of C20, the scanner of all lines:
  the three outcomes of `tbLines` (closed block, input ends after a line feed, input ends inside
  a line) and what each says about the input.
-/
import Edn.Proofs.TextBlockSoundAux2

namespace Edn.Spec
open Edn.Model

/-- complete well-formed lines, then a line cut by the end of the input: no line feed and no
    closing delimiter after `ls` starts -/
def CutLine (body ls : Bytes) : Prop :=
  ∃ lines : List SrcLine, (∀ l ∈ lines, l.WF) ∧ body = encodeLines lines ++ ls ∧ ls ≠ [] ∧
    TbBody (ls.dropWhile isBlank)

/-- complete well-formed lines and nothing else: the closing delimiter is missing -/
def Unclosed (body : Bytes) : Prop :=
  ∃ lines : List SrcLine, (∀ l ∈ lines, l.WF) ∧ body = encodeLines lines

/-- complete well-formed lines, then the line with the closing delimiter (indentation `ind`,
    body `b`, possibly empty), then `rest` -/
def ClosedAt (body rest : Bytes) : Prop :=
  ∃ (lines : List SrcLine) (ind b : Bytes), (∀ l ∈ lines, l.WF) ∧ (⟨ind, b⟩ : SrcLine).WF ∧ EndOK b ∧
    body = encodeLines lines ++ ind ++ b ++ [0x22, 0x22, 0x22] ++ rest

end Edn.Spec

namespace Edn.Proofs
open Edn.Model Edn.Spec

/-- what an outcome of the line scanner says about its input -/
def TbOutcome (s : Bytes) : Except TbErr (List TbLine × Bytes) → Prop
  | .ok (_, rest) => ClosedAt s rest
  | .error .missingCloser => Unclosed s
  | .error (.eofInLine ls) => CutLine s ls

theorem tbOutcome_cons (l : SrcLine) (hl : l.WF) (s : Bytes) (r : Except TbErr (List TbLine × Bytes))
    (h : TbOutcome s r) : TbOutcome (l.indent ++ l.body ++ [0x0A] ++ s) r := by
  have hall : ∀ lines : List SrcLine, (∀ x ∈ lines, x.WF) → ∀ x ∈ l :: lines, x.WF := by
    intro lines h x hx
    rcases List.mem_cons.mp hx with rfl | hx
    · exact hl
    · exact h x hx
  match r, h with
  | .ok (_, rest), ⟨lines, ind, b, h1, h2, h3, h4⟩ =>
    exact ⟨l :: lines, ind, b, hall lines h1, h2, h3, by rw [h4, encodeLines_cons]; simp⟩
  | .error .missingCloser, ⟨lines, h1, h2⟩ =>
    exact ⟨l :: lines, hall lines h1, by rw [h2, encodeLines_cons]⟩
  | .error (.eofInLine ls), ⟨lines, h1, h2, h3, h4⟩ =>
    exact ⟨l :: lines, hall lines h1, by rw [h2, encodeLines_cons]; simp, h3, h4⟩

/-- with enough fuel, the outcome of the line scanner describes the input -/
theorem tbLines_outcome : ∀ (f : Nat) (s : Bytes) (acc : List TbLine), s.length < f →
    TbOutcome s (tbLines f s acc) := by
  intro f
  induction f with
  | zero => intro s acc hf; omega
  | succ f ih =>
    intro s acc hf
    rw [tbLines_succ]
    by_cases hs : s = []
    · subst hs
      simp only [List.isEmpty_nil, if_true]
      exact ⟨[], by simp, rfl⟩
    · have hs' : s.isEmpty = false := by simpa using hs
      rw [hs']
      simp only [Bool.false_eq_true, if_false]
      cases hl : tbLine s with
      | none =>
        exact ⟨[], by simp, by simp [encodeLines_nil], hs, tbLine_none s hl⟩
      | some x =>
        obtain ⟨ln, rest⟩ := x
        obtain ⟨h1, h2, h3⟩ := tbLine_sound s ln rest hl
        simp only []
        cases ht : ln.terminal with
        | true =>
          simp only [if_true]
          refine ⟨[], ln.indent, ln.content, by simp, h2, h3 ht, ?_⟩
          rw [h1, ht]; simp [tbTerm, encodeLines_nil]
        | false =>
          simp only [Bool.false_eq_true, if_false]
          have hlt := tbLine_rest_lt s ln rest hl
          have := tbOutcome_cons ⟨ln.indent, ln.content⟩ h2 rest _ (ih rest (ln :: acc) (by omega))
          rw [ht] at h1
          simp only [tbTerm, Bool.false_eq_true, if_false] at h1
          rw [h1]
          exact this

/-- the closing line and the lines before it as a block of the specification -/
theorem closedAt_block (body rest : Bytes) (h : ClosedAt body rest) :
    ∃ (lines : List SrcLine) (c : Closer), (∀ l ∈ lines, l.WF) ∧ c.WFx lines ∧
      body = encodeBlock lines c ++ rest := by
  obtain ⟨lines, ind, b, h1, h2, h3, h4⟩ := h
  by_cases hb : b = []
  · subst hb
    refine ⟨lines, .ownLine ind, h1, h2.1, ?_⟩
    rw [h4, encodeBlock_own]; simp
  · refine ⟨lines ++ [⟨ind, b⟩], .inline, ?_, ⟨⟨ind, b⟩, by simp, hb, h3⟩, ?_⟩
    · intro l hl
      rcases List.mem_append.mp hl with hl | hl
      · exact h1 l hl
      · rw [List.mem_singleton.mp hl]; exact h2
    · rw [h4, encodeBlock_inline]

/-! ### the forward direction for the exact well-formedness -/

theorem hasEsc_append_esc (p r : Bytes) : hasEsc (p ++ 0x5C :: 0x22 :: 0x22 :: 0x22 :: r) = true := by
  induction p with
  | nil => simp [hasEsc]
  | cons a p ih => simp [hasEsc, ih]

theorem tbLine_close_x (ind body rest : Bytes) (hi : ∀ c ∈ ind, isBlank c = true)
    (hh : ∀ c, body.head? = some c → isBlank c = false) (hb : TbBody body) (he : EndOK body) :
    tbLine (ind ++ body ++ [0x22, 0x22, 0x22] ++ rest) = some (closeTb ind body, rest) := by
  by_cases hq : body.getLast? = some 0x22
  · obtain ⟨p, hp⟩ := he.2 hq
    subst hp
    have hpb : TbBody p := tbBody_prefix hb p (List.prefix_append _ _)
    have hx : ∀ c, (p ++ 0x5C :: 0x22 :: 0x22 :: 0x22 :: 0x22 :: 0x22 :: 0x22 :: rest).head? = some c →
        isBlank c = false := by
      cases p with
      | nil => intro c hc; simp at hc; subst hc; decide
      | cons a p => simpa using hh
    obtain ⟨h1, h2⟩ := span_blank ind _ hi hx
    have e : ind ++ (p ++ [0x5C, 0x22, 0x22, 0x22]) ++ [0x22, 0x22, 0x22] ++ rest =
        ind ++ (p ++ 0x5C :: 0x22 :: 0x22 :: 0x22 :: 0x22 :: 0x22 :: 0x22 :: rest) := by simp
    unfold tbLine
    rw [e, h1, h2]
    simp only []
    obtain ⟨f', hf', h⟩ := tbContent_through hpb
      ((p ++ 0x5C :: 0x22 :: 0x22 :: 0x22 :: 0x22 :: 0x22 :: 0x22 :: rest).length + 1) 2 [] false
      (0x5C :: 0x22 :: 0x22 :: 0x22 :: 0x22 :: 0x22 :: 0x22 :: rest) (by simp) (by simp)
    obtain ⟨k, rfl⟩ : ∃ k, f' = k + 2 := ⟨f' - 2, by omega⟩
    rw [h, tbContent_esc, tbContent_close]
    simp [closeTb, hasEsc_append_esc]
  · exact tbLine_close ind body rest hi hh hb he.1 hq

theorem tbLines_block_x (lines : List SrcLine) (hl : ∀ l ∈ lines, l.WF) (ind body rest : Bytes)
    (hw : (⟨ind, body⟩ : SrcLine).WF) (he : EndOK body) (s : Bytes)
    (hs : s = encodeLines lines ++ (ind ++ body ++ [0x22, 0x22, 0x22] ++ rest)) :
    tbLines (s.length + 2) s [] = .ok (lines.map toTb ++ [closeTb ind body], rest) := by
  have hlen := enc_length lines
  rw [encodeLines_eq] at hs
  obtain ⟨k, hk⟩ : ∃ k, s.length + 2 = (k + 1) + lines.length :=
    ⟨s.length + 1 - lines.length, by subst hs; simp at hlen ⊢; omega⟩
  rw [hk, hs, tbLines_enc lines hl, tbLines_succ, tbLine_close_x ind body rest hw.1 hw.2.1 hw.2.2 he]
  simp [closeTb]

/-- `readTextBlockBody_encode` for the exact well-formedness -/
theorem readTextBlockBody_encode_x (lines : List SrcLine) (c : Closer) (rest : Bytes)
    (hl : ∀ l ∈ lines, l.WF) (hc : c.WFx lines) :
    readTextBlockBody (encodeBlock lines c ++ rest) = .ok (blockText lines c, rest) := by
  cases c with
  | ownLine ind =>
    have h := tbLines_block_x lines hl ind [] rest ⟨hc, by simp, .nil⟩ endOK_nil
      (encodeBlock lines (.ownLine ind) ++ rest) (by simp [encodeBlock, encodeLines])
    unfold readTextBlockBody
    rw [h]
    simp only [tbRender_own]
  | inline =>
    obtain ⟨l, hlast, hne, he⟩ := hc
    have hsplit : lines.dropLast ++ [l] = lines := dropLast_concat_of_getLast? lines l hlast
    have hwf : l.WF := hl l (List.mem_of_getLast? hlast)
    have hl' : ∀ x ∈ lines.dropLast, x.WF := fun x hx => hl x (List.dropLast_subset _ hx)
    have h := tbLines_block_x lines.dropLast hl' l.indent l.body rest hwf he
      (encodeBlock lines .inline ++ rest) (by simp [encodeBlock, encodeLines, hlast])
    unfold readTextBlockBody
    rw [h]
    simp only [tbRender_inline _ l hne, hsplit]

/-! ### the forward direction for the two failures -/

theorem tbLines_unclosed (lines : List SrcLine) (hl : ∀ l ∈ lines, l.WF) (s : Bytes)
    (hs : s = encodeLines lines) : tbLines (s.length + 2) s [] = .error .missingCloser := by
  have hlen := enc_length lines
  rw [encodeLines_eq] at hs
  obtain ⟨k, hk⟩ : ∃ k, s.length + 2 = (k + 1) + lines.length :=
    ⟨s.length + 1 - lines.length, by subst hs; omega⟩
  have := tbLines_enc lines hl (k + 1) [] []
  rw [List.append_nil] at this
  rw [hk, hs, this, tbLines_succ]
  simp

theorem tbLines_cut (lines : List SrcLine) (hl : ∀ l ∈ lines, l.WF) (ls : Bytes) (hne : ls ≠ [])
    (hb : TbBody (ls.dropWhile isBlank)) (s : Bytes) (hs : s = encodeLines lines ++ ls) :
    tbLines (s.length + 2) s [] = .error (.eofInLine ls) := by
  have hlen := enc_length lines
  rw [encodeLines_eq] at hs
  obtain ⟨k, hk⟩ : ∃ k, s.length + 2 = (k + 1) + lines.length :=
    ⟨s.length + 1 - lines.length, by subst hs; simp at hlen ⊢; omega⟩
  rw [hk, hs, tbLines_enc lines hl, tbLines_succ, tbLine_eof ls hb]
  have : ls.isEmpty = false := by simpa using hne
  simp [this]

end Edn.Proofs
