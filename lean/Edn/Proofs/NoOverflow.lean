/-
  Edn.Proofs.NoOverflow — C01 (arithmetic half): the accumulators that the C code keeps in
  fixed-width signed or unsigned integers never leave their range, for every input.
  (The model computes in unbounded naturals; these theorems show the values it computes
  are the ones a 64-bit / 32-bit machine computes without overflow.)
-/
import Edn.Model.Number
import Edn.Proofs.Number

namespace Edn.Proofs
open Edn.Model
open Edn.Proofs.NumInt (dval_le_nine digitValue_lt)

/-- the float mantissa accumulator (`int64_t mantissa`) stays below 10^18 < 2^63 -/
theorem accDigits_bound (exp : Bool) : ∀ (s : Bytes) (m n : Nat), m < 10 ^ (min n 18) →
    (accDigits exp m n s).1 < 10 ^ 18 := by
  intro s
  induction s with
  | nil =>
    intro m n h
    rw [accDigits]
    exact Nat.lt_of_lt_of_le h (Nat.pow_le_pow_right (by decide) (Nat.min_le_right _ _))
  | cons c cs ih =>
    intro m n h
    rw [accDigits]
    split
    · exact ih m n h
    · split
      · rename_i h9
        apply ih
        have hd := dval_le_nine h9
        by_cases hn : n < 18
        · rw [if_pos hn]
          have e1 : min n 18 = n := Nat.min_eq_left (by omega)
          have e2 : min (n + 1) 18 = n + 1 := Nat.min_eq_left (by omega)
          rw [e1] at h
          rw [e2, Nat.pow_succ]
          omega
        · rw [if_neg hn]
          have e1 : min n 18 = 18 := Nat.min_eq_right (by omega)
          have e2 : min (n + 1) 18 = 18 := Nat.min_eq_right (by omega)
          rw [e1] at h
          rw [e2]
          exact h
      · exact Nat.lt_of_lt_of_le h (Nat.pow_le_pow_right (by decide) (Nat.min_le_right _ _))

/-- the exponent accumulator (`int64_t exp_value`) never exceeds 10009 -/
theorem accExp_bound (exp : Bool) : ∀ (s : Bytes) (v : Nat), v ≤ 1000 → accExp exp v s ≤ 10009 := by
  intro s
  induction s with
  | nil => intro v h; rw [accExp]; omega
  | cons c cs ih =>
    intro v h
    rw [accExp]
    split
    · exact ih v h
    · split
      · simp only []
        split
        · omega
        · apply ih; omega
      · omega

/-- the radix prefix accumulator (`int radix_val`) never exceeds 369 -/
theorem radixPrefixValue_bound : ∀ (s : Bytes) (v : Nat), v ≤ 369 → (∀ c ∈ s, is09 c = true) →
    radixPrefixValue v s ≤ 369 := by
  intro s
  induction s with
  | nil => intro v h _; rw [radixPrefixValue]; exact h
  | cons c cs ih =>
    intro v h hall
    rw [radixPrefixValue]
    apply ih
    · have hd := dval_le_nine (hall c (List.mem_cons_self))
      split <;> omega
    · intro x hx; exact hall x (List.mem_cons_of_mem _ hx)

/-- the cutoff / cutlim test guarantees that the next accumulator value is within `maxVal` -/
theorem cutoff_step {radix cutoff cutlim maxVal v d : Nat}
    (hc : cutoff = maxVal / radix) (hl : cutlim = maxVal % radix) (hd : d < radix)
    (h1 : ¬ v > cutoff) (h2 : ¬ (v = cutoff ∧ d > cutlim)) : v * radix + d ≤ maxVal := by
  have hdm := Nat.div_add_mod maxVal radix
  rw [← hc, ← hl] at hdm
  rw [Nat.mul_comm] at hdm
  by_cases hv : v = cutoff
  · subst hv
    have : d ≤ cutlim := by
      apply Nat.le_of_not_gt; intro hgt; exact h2 ⟨rfl, hgt⟩
    omega
  · have hlt : v + 1 ≤ cutoff := by omega
    have := Nat.mul_le_mul_right radix hlt
    rw [Nat.add_mul] at this
    omega

theorem w64_of_le {x maxVal : Nat} (hmax : maxVal ≤ 9223372036854775808) (h : x ≤ maxVal) : w64 x = x := by
  unfold w64 two64
  exact Nat.mod_eq_of_lt (by omega)

/-- the 64-bit accumulator of `parse_int64_from_buffer` never wraps: in every loop the value
    before reduction modulo 2^64 is already below 2^64 (so `w64` is the identity wherever the
    model applies it) -/
theorem scalarDigits_no_wrap (exp : Bool) (radix cutoff cutlim maxVal : Nat) (hr : 2 ≤ radix ∧ radix ≤ 36)
    (hmax : maxVal ≤ 9223372036854775808) (hc : cutoff = maxVal / radix) (hl : cutlim = maxVal % radix) :
    ∀ (s : Bytes) (v : Nat), v ≤ maxVal → ∀ r, scalarDigits exp radix cutoff cutlim v s = some r → r ≤ maxVal := by
  intro s
  induction s with
  | nil =>
    intro v hv r h
    rw [scalarDigits] at h
    cases h; exact hv
  | cons c cs ih =>
    intro v hv r h
    rw [scalarDigits] at h
    split at h
    · exact ih v hv r h
    · cases hdv : digitValue c radix with
      | none =>
        rw [hdv] at h
        cases h; exact hv
      | some d =>
        rw [hdv] at h
        simp only [] at h
        split at h
        · cases h
        · rename_i hno
          simp only [Bool.or_eq_true, decide_eq_true_eq, Bool.and_eq_true, beq_iff_eq, not_or] at hno
          have hstep := cutoff_step hc hl (digitValue_lt hdv) hno.1 hno.2
          rw [w64_of_le hmax hstep] at h
          exact ih _ hstep r h

theorem scalarDigits10_no_wrap (exp : Bool) (cutoff cutlim maxVal : Nat)
    (hmax : maxVal ≤ 9223372036854775808) (hc : cutoff = maxVal / 10) (hl : cutlim = maxVal % 10) :
    ∀ (s : Bytes) (v : Nat), v ≤ maxVal → ∀ r, scalarDigits10 exp cutoff cutlim v s = some r → r ≤ maxVal := by
  intro s
  induction s with
  | nil =>
    intro v hv r h
    rw [scalarDigits10] at h
    cases h; exact hv
  | cons c cs ih =>
    intro v hv r h
    rw [scalarDigits10] at h
    split at h
    · exact ih v hv r h
    · split at h
      · cases h; exact hv
      · rename_i h9
        simp only [Bool.not_eq_true, Bool.not_eq_false'] at h9
        simp only [] at h
        split at h
        · cases h
        · rename_i hno
          simp only [Bool.or_eq_true, decide_eq_true_eq, Bool.and_eq_true, beq_iff_eq, not_or] at hno
          have hd : dval c < 10 := by have := dval_le_nine h9; omega
          have hstep := cutoff_step hc hl hd hno.1 hno.2
          rw [w64_of_le hmax hstep] at h
          exact ih _ hstep r h

theorem swarLoop_no_wrap (maxVal : Nat) (hmax : maxVal ≤ 9223372036854775808) :
    ∀ (f v : Nat) (s : Bytes), v ≤ maxVal → ∀ r rest, swarLoop maxVal f v s = some (r, rest) → r ≤ maxVal := by
  intro f
  induction f with
  | zero =>
    intro v s hv r rest h
    rw [swarLoop] at h
    cases h; exact hv
  | succ f ih =>
    intro v s hv r rest h
    rw [swarLoop] at h
    by_cases h8 : 8 ≤ s.length
    · rw [if_pos h8] at h
      simp only [] at h
      by_cases hf : eightDigitsFast (load64le s) = true
      · rw [if_pos hf] at h
        by_cases h1 : v > maxVal / 100000000
        · rw [if_pos h1] at h; cases h
        · rw [if_neg h1] at h
          by_cases h2 : w64 (v * 100000000 + (parseEightDigits (load64le s)).toNat) < v
          · rw [if_pos h2] at h; cases h
          · rw [if_neg h2] at h
            by_cases h3 : w64 (v * 100000000 + (parseEightDigits (load64le s)).toNat) > maxVal
            · rw [if_pos h3] at h; cases h
            · rw [if_neg h3] at h
              exact ih _ _ (by omega) r rest h
      · rw [if_neg hf] at h
        cases h; exact hv
    · rw [if_neg h8] at h
      cases h; exact hv

/-- the unwrapped SWAR step value is below 2^64, so `w64` is the identity in `swarLoop` -/
theorem swarLoop_step_lt (maxVal v eight : Nat) (hmax : maxVal ≤ 9223372036854775808)
    (he : eight < 100000000) (hv : ¬ v > maxVal / 100000000) :
    w64 (v * 100000000 + eight) = v * 100000000 + eight := by
  unfold w64 two64
  apply Nat.mod_eq_of_lt
  have : maxVal / 100000000 ≤ 9223372036854775808 / 100000000 := Nat.div_le_div_right hmax
  omega

theorem fastSmall_bound (exp : Bool) : ∀ (s : Bytes) (v : Nat) (moved : Bool),
    (fastSmall exp v moved s).1 < (v + 1) * 10 ^ s.length := by
  intro s
  induction s with
  | nil => intro v moved; rw [fastSmall]; simp
  | cons c cs ih =>
    intro v moved
    rw [fastSmall]
    have hpos : 0 < 10 ^ cs.length := Nat.pow_pos (by decide)
    simp only [List.length_cons, Nat.pow_succ]
    split
    · have := ih v true
      have h2 : (v + 1) * 10 ^ cs.length ≤ (v + 1) * (10 ^ cs.length * 10) := by
        apply Nat.mul_le_mul_left; omega
      omega
    · split
      · have h2 : (v + 1) * 1 ≤ (v + 1) * (10 ^ cs.length * 10) := by
          apply Nat.mul_le_mul_left; omega
        simp only []
        omega
      · rename_i h9
        simp only [Bool.not_eq_true, Bool.not_eq_false'] at h9
        have hd := dval_le_nine h9
        have := ih (v * 10 + dval c) true
        have h2 : (v * 10 + dval c + 1) * 10 ^ cs.length ≤ ((v + 1) * 10) * 10 ^ cs.length := by
          apply Nat.mul_le_mul_right; omega
        rw [Nat.mul_assoc, Nat.mul_comm 10] at h2
        omega

/-- the result of `parse_int64_from_buffer` always fits the signed 64-bit range (so the final
    conversion and negation are defined) -/
theorem parseInt64_in_range (cfg : Cfg) (ds : Bytes) (radix : Nat) (hr : 2 ≤ radix ∧ radix ≤ 36) (neg : Bool) (i : Int)
    (h : parseInt64 cfg ds radix neg = some i) : -9223372036854775808 ≤ i ∧ i ≤ 9223372036854775807 := by
  -- general tiers: a natural `v ≤ maxVal`
  have hfin : ∀ v : Nat, v ≤ (if neg then 9223372036854775808 else 9223372036854775807) →
      (-9223372036854775808 : Int) ≤ (if neg then -(v : Int) else (v : Int)) ∧
      (if neg then -(v : Int) else (v : Int)) ≤ 9223372036854775807 := by
    intro v hv
    cases neg <;> simp only [if_true, if_false, Bool.false_eq_true] at hv ⊢ <;> omega
  have hmaxle : (if neg then 9223372036854775808 else 9223372036854775807 : Nat) ≤ 9223372036854775808 := by
    cases neg <;> simp
  unfold parseInt64 at h
  simp only [] at h
  split at h
  · -- small tier
    rename_i r hsmall
    cases h
    split at hsmall
    · rename_i hcond
      simp only [Bool.and_eq_true, beq_iff_eq, decide_eq_true_eq] at hcond
      have hb := fastSmall_bound cfg.exp ds 0 false
      have hp : 10 ^ ds.length ≤ 10 ^ 3 := Nat.pow_le_pow_right (by decide) hcond.2
      generalize fastSmall cfg.exp 0 false ds = p at hsmall hb
      obtain ⟨v, moved⟩ := p
      simp only [] at hsmall hb
      split at hsmall
      · cases hsmall
        apply hfin
        have : v < 1000 := by omega
        cases neg <;> simp <;> omega
      · cases hsmall
    · cases hsmall
  · split at h
    · cases h
    · rename_i v hval
      cases h
      apply hfin
      split at hval
      · -- radix 10
        rename_i h10
        have h10' : radix = 10 := by simpa using h10
        subst h10'
        split at hval
        · cases hval
        · rename_i v0 rest hsw
          have h0 := swarLoop_no_wrap _ hmaxle _ 0 ds (Nat.zero_le _) v0 rest hsw
          exact scalarDigits10_no_wrap cfg.exp _ _ _ hmaxle rfl rfl rest v0 h0 v hval
      · exact scalarDigits_no_wrap cfg.exp radix _ _ _ hr hmaxle rfl rfl ds 0 (Nat.zero_le _) v hval

end Edn.Proofs
