/-
  Edn.Proofs.NoOverflow — C01 (arithmetic half): the accumulators that the C code keeps in
  fixed-width signed or unsigned integers never leave their range, for every input.
  (The model computes in unbounded naturals; these theorems show the values it computes
  are the ones a 64-bit / 32-bit machine computes without overflow.)
-/
import Edn.Model.Number
import Edn.Proofs.Number

namespace Edn.Proofs
open Edn.Model

/-- the float mantissa accumulator (`int64_t mantissa`) stays below 10^18 < 2^63 -/
theorem accDigits_bound (exp : Bool) : ∀ (s : Bytes) (m n : Nat), m < 10 ^ (min n 18) →
    (accDigits exp m n s).1 < 10 ^ 18 := by
  sorry

/-- the exponent accumulator (`int64_t exp_value`) never exceeds 10009 -/
theorem accExp_bound (exp : Bool) : ∀ (s : Bytes) (v : Nat), v ≤ 1000 → accExp exp v s ≤ 10009 := by
  sorry

/-- the radix prefix accumulator (`int radix_val`) never exceeds 369 -/
theorem radixPrefixValue_bound : ∀ (s : Bytes) (v : Nat), v ≤ 369 → (∀ c ∈ s, is09 c = true) →
    radixPrefixValue v s ≤ 369 := by
  sorry

/-- the 64-bit accumulator of `parse_int64_from_buffer` never wraps: in every loop the value
    before reduction modulo 2^64 is already below 2^64 (so `w64` is the identity wherever the
    model applies it) -/
theorem scalarDigits_no_wrap (exp : Bool) (radix cutoff cutlim maxVal : Nat) (hr : 2 ≤ radix ∧ radix ≤ 36)
    (hmax : maxVal ≤ 9223372036854775808) (hc : cutoff = maxVal / radix) (hl : cutlim = maxVal % radix) :
    ∀ (s : Bytes) (v : Nat), v ≤ maxVal → ∀ r, scalarDigits exp radix cutoff cutlim v s = some r → r ≤ maxVal := by
  sorry

theorem scalarDigits10_no_wrap (exp : Bool) (cutoff cutlim maxVal : Nat)
    (hmax : maxVal ≤ 9223372036854775808) (hc : cutoff = maxVal / 10) (hl : cutlim = maxVal % 10) :
    ∀ (s : Bytes) (v : Nat), v ≤ maxVal → ∀ r, scalarDigits10 exp cutoff cutlim v s = some r → r ≤ maxVal := by
  sorry

theorem swarLoop_no_wrap (maxVal : Nat) (hmax : maxVal ≤ 9223372036854775808) :
    ∀ (f v : Nat) (s : Bytes), v ≤ maxVal → ∀ r rest, swarLoop maxVal f v s = some (r, rest) → r ≤ maxVal := by
  sorry

/-- the result of `parse_int64_from_buffer` always fits the signed 64-bit range (so the final
    conversion and negation are defined) -/
theorem parseInt64_in_range (cfg : Cfg) (ds : Bytes) (radix : Nat) (hr : 2 ≤ radix ∧ radix ≤ 36) (neg : Bool) (i : Int)
    (h : parseInt64 cfg ds radix neg = some i) : -9223372036854775808 ≤ i ∧ i ≤ 9223372036854775807 := by
  sorry

end Edn.Proofs
