/-
  Edn.Proofs.ReReadAux5 — continuation independence ("cut") of the two leaf readers
  `readCharacter` and `readIdentifier`: when the reader succeeds on `t ++ r` and leaves a rest
  that still contains all of `r`, it succeeds on `t` alone with the same payload, the
  corresponding rest and both header positions smaller by `r.length`.
-/
import Edn.Proofs.ReReadAux0

namespace Edn.Proofs
open Edn.Model Edn.Spec

/-! ## list facts -/

theorem peek_append_of_ne {a : Bytes} (r : Bytes) (h : a ≠ []) : peek (a ++ r) = peek a := by
  cases a with
  | nil => exact absurd rfl h
  | cons c cs => rfl

theorem isEmpty_append_of_ne {a : Bytes} (r : Bytes) (h : a ≠ []) : (a ++ r).isEmpty = false := by
  cases a with
  | nil => exact absurd rfl h
  | cons c cs => rfl

theorem takeWhile_take_append (q : UInt8 → Bool) : ∀ (a b : Bytes) (n : Nat),
    (((a ++ b).take n).takeWhile q).length ≤ a.length →
    ((a ++ b).take n).takeWhile q = (a.take n).takeWhile q := by
  intro a
  induction a with
  | nil =>
    intro b n h
    simp only [List.length_nil, Nat.le_zero_eq, List.length_eq_zero_iff] at h
    rw [h]; simp
  | cons x a ih =>
    intro b n h
    cases n with
    | zero => simp
    | succ n =>
      simp only [List.cons_append, List.take_succ_cons, List.takeWhile_cons] at h ⊢
      cases hq : q x with
      | false => simp
      | true =>
        simp only [hq, ↓reduceIte, List.length_cons, Nat.add_le_add_iff_right] at h ⊢
        rw [ih b n h]

/-! ## characters -/

theorem charNamed_cut_some {p r : Bytes} {nm : String} {cp : Nat} (hn : nm.length = (strBytes nm).length)
    {x : Nat × Bytes} (h : charNamed (p ++ r) nm cp = some x) (hl : r.length ≤ x.2.length) :
    ∃ p', x = (cp, p' ++ r) ∧ charNamed p nm cp = some (cp, p') := by
  unfold charNamed startsWith at h
  unfold charNamed startsWith
  split at h
  · rename_i hp
    cases h
    have hpre := List.isPrefixOf_iff_prefix.mp hp
    have hlen := hpre.length_le
    simp only [List.length_drop, List.length_append] at hl hlen
    have hle : (strBytes nm).length ≤ p.length := by omega
    have hpre' : strBytes nm <+: p := List.prefix_of_prefix_length_le hpre (List.prefix_append p r) hle
    refine ⟨p.drop nm.length, ?_, ?_⟩
    · rw [List.drop_append_of_le_length (by omega)]
    · rw [if_pos (List.isPrefixOf_iff_prefix.mpr hpre')]
  · cases h

theorem charNamed_cut_none {p r : Bytes} {nm : String} {cp : Nat}
    (h : charNamed (p ++ r) nm cp = none) : charNamed p nm cp = none := by
  unfold charNamed startsWith at h
  unfold charNamed startsWith
  split at h
  · cases h
  · rename_i hp
    rw [if_neg]
    intro hp'
    exact hp (List.isPrefixOf_iff_prefix.mpr ((List.isPrefixOf_iff_prefix.mp hp').trans (List.prefix_append p r)))

theorem hexMore_cut : ∀ (k v : Nat) (a r : Bytes), r.length ≤ (hexMore k v (a ++ r)).2.length →
    hexMore k v (a ++ r) = ((hexMore k v a).1, (hexMore k v a).2 ++ r) := by
  intro k
  induction k with
  | zero => intro v a r _; simp [hexMore]
  | succ k ih =>
    intro v a r h
    cases a with
    | nil =>
      cases r with
      | nil => simp [hexMore]
      | cons c r' =>
        simp only [List.nil_append] at h ⊢
        rw [hexMore] at h ⊢
        cases hd : hexDigit? c with
        | none => simp [hexMore]
        | some d =>
          simp only [hd] at h
          have := hexMore_len k (v * 16 + d) r'
          simp only [List.length_cons] at h
          omega
    | cons c a' =>
      simp only [List.cons_append] at h ⊢
      rw [hexMore] at h ⊢
      rw [hexMore]
      cases hd : hexDigit? c with
      | none => simp
      | some d =>
        simp only [hd] at h ⊢
        exact ih _ _ _ h

theorem hex4_len_eq {q : Bytes} {x : Nat × Bytes} (h : hex4? q = some x) : x.2.length + 4 = q.length := by
  unfold hex4? at h
  split at h
  · split at h
    · cases h; simp only [List.length_cons]
    · cases h
  · cases h

theorem hex4_cut {q r : Bytes} {v : Nat} {q' : Bytes} (h : hex4? (q ++ r) = some (v, q'))
    (hl : r.length ≤ q'.length) : ∃ q'', q' = q'' ++ r ∧ hex4? q = some (v, q'') := by
  have hlen := hex4_len_eq h
  simp only [List.length_append] at hlen
  match q, h, hlen with
  | a :: b :: c :: d :: q0, h, _ =>
    simp only [List.cons_append] at h
    unfold hex4? at h ⊢
    simp only [] at h ⊢
    split at h
    · rename_i w x y z h1 h2 h3 h4
      simp only [Option.some.injEq, Prod.mk.injEq] at h
      exact ⟨q0, h.2.symm, by simp only [h.1]⟩
    · cases h
  | [], _, hlen => simp only [List.length_nil] at hlen; omega
  | [_], _, hlen => simp only [List.length_cons, List.length_nil] at hlen; omega
  | [_, _], _, hlen => simp only [List.length_cons, List.length_nil] at hlen; omega
  | [_, _, _], _, hlen => simp only [List.length_cons, List.length_nil] at hlen; omega

theorem octalChar_cut {q r : Bytes} {v : Nat} {rest : Bytes} (h : octalChar (q ++ r) = some (v, rest))
    (hl : r.length ≤ rest.length) : ∃ q', rest = q' ++ r ∧ octalChar q = some (v, q') := by
  unfold octalChar at h ⊢
  simp only [] at h ⊢
  split at h
  · cases h
  · rename_i hne
    split at h
    · cases h
    · rename_i h89
      split at h
      · cases h
      · rename_i hv
        simp only [Option.some.injEq, Prod.mk.injEq] at h
        obtain ⟨hv', hrest⟩ := h
        have hdl : (((q ++ r).take 3).takeWhile isOct).length ≤ (q ++ r).length :=
          Nat.le_trans (List.takeWhile_sublist _).length_le (List.take_sublist _ _).length_le
        have hd : (((q ++ r).take 3).takeWhile isOct).length ≤ q.length := by
          rw [← hrest] at hl
          simp only [List.length_drop, List.length_append] at hl hdl
          omega
        have heq := takeWhile_take_append isOct q r 3 hd
        rw [heq] at hne h89 hv hv' hrest hd
        rw [List.drop_append_of_le_length hd] at hrest h89
        rw [if_neg hne]
        have h89' : ¬ ((peek (List.drop ((q.take 3).takeWhile isOct).length q) == 0x38 ||
            peek (List.drop ((q.take 3).takeWhile isOct).length q) == 0x39) = true) := by
          cases hdq : List.drop ((q.take 3).takeWhile isOct).length q with
          | nil => decide
          | cons c cs =>
            rw [hdq] at h89
            exact h89
        rw [if_neg h89', if_neg hv]
        exact ⟨_, hrest.symm, by rw [hv']⟩

theorem octalChar_lt {s : Bytes} {x : Nat × Bytes} (h : octalChar s = some x) : x.2.length < s.length := by
  unfold octalChar at h
  simp only [] at h
  split at h
  · cases h
  · rename_i hne
    split at h
    · cases h
    · split at h
      · cases h
      · cases h
        have hdl : ((s.take 3).takeWhile isOct).length ≤ s.length :=
          Nat.le_trans (List.takeWhile_sublist _).length_le (List.take_sublist _ _).length_le
        have hpos : 0 < ((s.take 3).takeWhile isOct).length := by
          cases hd : (s.take 3).takeWhile isOct with
          | nil => rw [hd] at hne; exact absurd rfl hne
          | cons c cs => simp
        simp only [List.length_drop]
        omega

theorem charNamed_lt {p : Bytes} {nm : String} {cp : Nat} {x : Nat × Bytes}
    (h : charNamed p nm cp = some x) (hn : 0 < nm.length) (hp : p ≠ []) : x.2.length < p.length := by
  unfold charNamed at h
  have hpos : 0 < p.length := List.length_pos_iff.mpr hp
  split at h
  · cases h; simp only [List.length_drop]; omega
  · cases h

/-- the part of `charBody` after the named characters -/
def charTail (ctx : Ctx) (p : Bytes) : Except Nat (Nat × Bytes) :=
  let c := peek p
  let c1 := peek p.tail
  if ctx.cfg.clj && c == 0x6F && !p.tail.isEmpty && is09 c1 then
    match octalChar p.tail with
    | none => .error (ctx.pos p.tail)
    | some x => .ok x
  else if c == 0x75 && !p.tail.isEmpty && (hexDigit? c1).isSome then
    let q := p.tail
    match hex4? q with
    | none => .error (q.length - 4)
    | some (v, q') =>
      if ctx.cfg.exp then .ok (hexMore 2 v q') else .ok (v, q')
  else if !isValidSingleChar ctx.cfg c then .error (p.length - 1)
  else .ok (c.toNat, p.tail)

theorem charTail_lt (ctx : Ctx) (p : Bytes) (x : Nat × Bytes) (hp : p ≠ []) (h : charTail ctx p = .ok x) :
    x.2.length < p.length := by
  unfold charTail at h
  have hpos : 0 < p.length := List.length_pos_iff.mpr hp
  have ht : p.tail.length + 1 = p.length := by simp only [List.length_tail]; omega
  simp only [] at h
  split at h
  · split at h
    · cases h
    · rename_i y hy; cases h
      have := octalChar_lt hy; omega
  · split at h
    · split at h
      · cases h
      · rename_i v q' hq
        have := hex4_len_eq hq
        simp only [] at this
        split at h
        · cases h
          have := hexMore_len 2 v q'; omega
        · cases h; simp only []; omega
    · split at h
      · cases h
      · cases h; simp only []; omega

theorem charTail_cons (ctx : Ctx) (c : UInt8) (q : Bytes) :
    charTail ctx (c :: q) =
      if ctx.cfg.clj && c == 0x6F && !q.isEmpty && is09 (peek q) then
        match octalChar q with
        | none => .error (ctx.pos q)
        | some x => .ok x
      else if c == 0x75 && !q.isEmpty && (hexDigit? (peek q)).isSome then
        match hex4? q with
        | none => .error (q.length - 4)
        | some (v, q') =>
          if ctx.cfg.exp then .ok (hexMore 2 v q') else .ok (v, q')
      else if !isValidSingleChar ctx.cfg c then .error ((c :: q).length - 1)
      else .ok (c.toNat, q) := rfl

theorem charTail_cut (ctx : Ctx) (p r : Bytes) (hp : p ≠ []) (cp : Nat) (rest : Bytes)
    (h : charTail ctx (p ++ r) = .ok (cp, rest)) (hl : r.length ≤ rest.length) :
    ∃ p', rest = p' ++ r ∧ charTail ctx p = .ok (cp, p') := by
  cases p with
  | nil => exact absurd rfl hp
  | cons c p1 =>
    rw [List.cons_append, charTail_cons] at h
    rw [charTail_cons]
    cases p1 with
    | nil =>
      -- the code point is the single byte `c`: the big run may not look into `r`
      rw [List.nil_append] at h
      rw [show ([] : Bytes).isEmpty = true from rfl]
      simp only [Bool.not_true, Bool.and_false, Bool.false_and, Bool.false_eq_true, ↓reduceIte]
      by_cases hc : (ctx.cfg.clj && c == 0x6F && !r.isEmpty && is09 (peek r)) = true
      · rw [if_pos hc] at h
        cases hy : octalChar r with
        | none => rw [hy] at h; cases h
        | some y =>
          rw [hy] at h; cases h
          have := octalChar_lt hy
          simp only [] at this; omega
      · rw [if_neg hc] at h
        by_cases hc2 : (c == 0x75 && !r.isEmpty && (hexDigit? (peek r)).isSome) = true
        · rw [if_pos hc2] at h
          cases hq : hex4? r with
          | none => rw [hq] at h; cases h
          | some y =>
            obtain ⟨v, q'⟩ := y
            rw [hq] at h
            simp only [] at h
            have := hex4_len_eq hq
            simp only [] at this
            by_cases hexp : ctx.cfg.exp = true
            · rw [if_pos hexp] at h
              simp only [Except.ok.injEq] at h
              have hml := hexMore_len 2 v q'
              rw [h] at hml; simp only [] at hml; omega
            · rw [if_neg hexp] at h
              cases h; omega
        · rw [if_neg hc2] at h
          by_cases hvs : (!isValidSingleChar ctx.cfg c) = true
          · rw [if_pos hvs] at h; cases h
          · rw [if_neg hvs] at h ⊢
            cases h
            exact ⟨[], rfl, rfl⟩
    | cons c1 p2 =>
      rw [List.cons_append, show (c1 :: (p2 ++ r)).isEmpty = false from rfl,
        show peek (c1 :: (p2 ++ r)) = c1 from rfl] at h
      rw [show (c1 :: p2).isEmpty = false from rfl, show peek (c1 :: p2) = c1 from rfl]
      by_cases hc : (ctx.cfg.clj && c == 0x6F && !false && is09 c1) = true
      · rw [if_pos hc] at h ⊢
        cases hy : octalChar (c1 :: (p2 ++ r)) with
        | none => rw [hy] at h; cases h
        | some y =>
          rw [hy] at h
          cases h
          obtain ⟨q', h1, h2⟩ := octalChar_cut (q := c1 :: p2) hy hl
          rw [h2]
          exact ⟨q', h1, rfl⟩
      · rw [if_neg hc] at h ⊢
        by_cases hc2 : (c == 0x75 && !false && (hexDigit? c1).isSome) = true
        · rw [if_pos hc2] at h ⊢
          cases hq : hex4? (c1 :: (p2 ++ r)) with
          | none => rw [hq] at h; cases h
          | some y =>
            obtain ⟨v, q'⟩ := y
            rw [hq] at h
            simp only [] at h
            have hlen := hex4_len hq
            by_cases hexp : ctx.cfg.exp = true
            · rw [if_pos hexp] at h
              simp only [Except.ok.injEq] at h
              have hml := hexMore_len 2 v q'
              have hl' : r.length ≤ q'.length := by
                rw [h] at hml; simp only [] at hml; omega
              obtain ⟨q'', h1, h2⟩ := hex4_cut (q := c1 :: p2) hq hl'
              rw [h2]
              simp only [hexp, ↓reduceIte]
              subst h1
              have hc := hexMore_cut 2 v q'' r (by rw [h]; exact hl)
              rw [h] at hc
              simp only [Prod.mk.injEq] at hc
              refine ⟨(hexMore 2 v q'').2, hc.2, ?_⟩
              rw [hc.1]
            · rw [if_neg hexp] at h
              cases h
              obtain ⟨q'', h1, h2⟩ := hex4_cut (q := c1 :: p2) hq hl
              rw [h2]
              simp only [hexp, Bool.false_eq_true, ↓reduceIte]
              exact ⟨q'', h1, rfl⟩
        · rw [if_neg hc2] at h ⊢
          by_cases hvs : (!isValidSingleChar ctx.cfg c) = true
          · rw [if_pos hvs] at h; cases h
          · rw [if_neg hvs] at h ⊢
            cases h
            exact ⟨c1 :: p2, rfl, rfl⟩

theorem charBody_eq (ctx : Ctx) (p : Bytes) : charBody ctx p =
      match charNamed p "newline" 0x0A with
      | some x => .ok x
      | none => match charNamed p "return" 0x0D with
      | some x => .ok x
      | none => match charNamed p "space" 0x20 with
      | some x => .ok x
      | none => match charNamed p "tab" 0x09 with
      | some x => .ok x
      | none =>
      match (if ctx.cfg.clj then (charNamed p "formfeed" 0x0C).orElse (fun _ => charNamed p "backspace" 0x08) else none) with
      | some x => .ok x
      | none => charTail ctx p := rfl

theorem charBody_cut (ctx : Ctx) (p r : Bytes) (hp : p ≠ []) (cp : Nat) (rest : Bytes)
    (h : charBody ctx (p ++ r) = .ok (cp, rest)) (hl : r.length ≤ rest.length) :
    ∃ p', rest = p' ++ r ∧ charBody ctx p = .ok (cp, p') := by
  rw [charBody_eq] at h ⊢
  cases h1 : charNamed (p ++ r) "newline" 0x0A with
  | some x =>
    rw [h1] at h
    simp only [Except.ok.injEq] at h
    subst h
    obtain ⟨p', hx, hs⟩ := charNamed_cut_some (by decide +kernel) h1 hl
    simp only [Prod.mk.injEq] at hx
    rw [hs]
    refine ⟨p', hx.2, ?_⟩
    rw [hx.1]
  | none =>
    rw [h1] at h
    rw [charNamed_cut_none h1]
    simp only [] at h ⊢
    clear h1
    cases h1 : charNamed (p ++ r) "return" 0x0D with
    | some x =>
      rw [h1] at h
      simp only [Except.ok.injEq] at h
      subst h
      obtain ⟨p', hx, hs⟩ := charNamed_cut_some (by decide +kernel) h1 hl
      simp only [Prod.mk.injEq] at hx
      rw [hs]
      refine ⟨p', hx.2, ?_⟩
      rw [hx.1]
    | none =>
      rw [h1] at h
      rw [charNamed_cut_none h1]
      simp only [] at h ⊢
      clear h1
      cases h1 : charNamed (p ++ r) "space" 0x20 with
      | some x =>
        rw [h1] at h
        simp only [Except.ok.injEq] at h
        subst h
        obtain ⟨p', hx, hs⟩ := charNamed_cut_some (by decide +kernel) h1 hl
        simp only [Prod.mk.injEq] at hx
        rw [hs]
        refine ⟨p', hx.2, ?_⟩
        rw [hx.1]
      | none =>
        rw [h1] at h
        rw [charNamed_cut_none h1]
        simp only [] at h ⊢
        clear h1
        cases h1 : charNamed (p ++ r) "tab" 0x09 with
        | some x =>
          rw [h1] at h
          simp only [Except.ok.injEq] at h
          subst h
          obtain ⟨p', hx, hs⟩ := charNamed_cut_some (by decide +kernel) h1 hl
          simp only [Prod.mk.injEq] at hx
          rw [hs]
          refine ⟨p', hx.2, ?_⟩
          rw [hx.1]
        | none =>
          rw [h1] at h
          rw [charNamed_cut_none h1]
          simp only [] at h ⊢
          clear h1
          cases hclj : ctx.cfg.clj with
          | false =>
            simp only [hclj, Bool.false_eq_true, ↓reduceIte] at h ⊢
            exact charTail_cut ctx p r hp cp rest h hl
          | true =>
            simp only [hclj, ↓reduceIte] at h ⊢
            cases h1 : charNamed (p ++ r) "formfeed" 0x0C with
            | some x =>
              rw [h1] at h
              simp only [Option.orElse_some, Except.ok.injEq] at h
              subst h
              obtain ⟨p', hx, hs⟩ := charNamed_cut_some (by decide +kernel) h1 hl
              simp only [Prod.mk.injEq] at hx
              rw [hs]
              simp only [Option.orElse_some]
              refine ⟨p', hx.2, ?_⟩
              rw [hx.1]
            | none =>
              rw [h1] at h
              rw [charNamed_cut_none h1]
              simp only [Option.orElse_none] at h ⊢
              clear h1
              cases h1 : charNamed (p ++ r) "backspace" 0x08 with
              | some x =>
                rw [h1] at h
                simp only [Except.ok.injEq] at h
                subst h
                obtain ⟨p', hx, hs⟩ := charNamed_cut_some (by decide +kernel) h1 hl
                simp only [Prod.mk.injEq] at hx
                rw [hs]
                refine ⟨p', hx.2, ?_⟩
                rw [hx.1]
              | none =>
                rw [h1] at h
                rw [charNamed_cut_none h1]
                simp only [] at h ⊢
                clear h1
                exact charTail_cut ctx p r hp cp rest h hl

theorem charBody_lt (ctx : Ctx) (p : Bytes) (x : Nat × Bytes) (hp : p ≠ []) (h : charBody ctx p = .ok x) :
    x.2.length < p.length := by
  rw [charBody_eq] at h
  cases h1 : charNamed p "newline" 0x0A with
  | some y =>
    rw [h1] at h
    simp only [Except.ok.injEq] at h
    subst h
    exact charNamed_lt h1 (by decide) hp
  | none =>
    rw [h1] at h
    simp only [] at h
    clear h1
    cases h1 : charNamed p "return" 0x0D with
    | some y =>
      rw [h1] at h
      simp only [Except.ok.injEq] at h
      subst h
      exact charNamed_lt h1 (by decide) hp
    | none =>
      rw [h1] at h
      simp only [] at h
      clear h1
      cases h1 : charNamed p "space" 0x20 with
      | some y =>
        rw [h1] at h
        simp only [Except.ok.injEq] at h
        subst h
        exact charNamed_lt h1 (by decide) hp
      | none =>
        rw [h1] at h
        simp only [] at h
        clear h1
        cases h1 : charNamed p "tab" 0x09 with
        | some y =>
          rw [h1] at h
          simp only [Except.ok.injEq] at h
          subst h
          exact charNamed_lt h1 (by decide) hp
        | none =>
          rw [h1] at h
          simp only [] at h
          clear h1
          cases hclj : ctx.cfg.clj with
          | false =>
            simp only [hclj, Bool.false_eq_true, ↓reduceIte] at h
            exact charTail_lt ctx p x hp h
          | true =>
            simp only [hclj, ↓reduceIte] at h
            cases h1 : charNamed p "formfeed" 0x0C with
            | some y =>
              rw [h1] at h
              simp only [Option.orElse_some, Except.ok.injEq] at h
              subst h
              exact charNamed_lt h1 (by decide) hp
            | none =>
              rw [h1] at h
              simp only [Option.orElse_none] at h
              clear h1
              cases h1 : charNamed p "backspace" 0x08 with
              | some y =>
                rw [h1] at h
                simp only [Except.ok.injEq] at h
                subst h
                exact charNamed_lt h1 (by decide) hp
              | none =>
                rw [h1] at h
                simp only [] at h
                clear h1
                exact charTail_lt ctx p x hp h

theorem shiftV_char (k a b cp : Nat) : shiftV k (.char (mkHdr a b) cp) = .char (mkHdr (a + k) (b + k)) cp := by
  simp [shiftV, shiftHdr, Val.setHdr, Val.hdr, mkHdr]

theorem readCharacter_cons (ctx : Ctx) (x : UInt8) (q : Bytes) (cl : List Call) :
    readCharacter ctx { rest := x :: q, calls := cl } =
      if q.isEmpty then
        .err (mkErr .invalidCharacter (some (x :: q).length) (some q.length)) { rest := x :: q, calls := cl }
      else
        match charBody ctx q with
        | .error ee => .err (mkErr .invalidCharacter (some (x :: q).length) (some ee)) { rest := x :: q, calls := cl }
        | .ok (cp, rest) =>
          if cp > 0x10FFFF then .err (mkErr .invalidCharacter (some (x :: q).length) (some rest.length)) { rest := x :: q, calls := cl }
          else if !rest.isEmpty && !isDelim (peek rest) then
            .err (mkErr .invalidCharacter (some (x :: q).length) (some rest.length)) { rest := x :: q, calls := cl }
          else .ok (.char (mkHdr (x :: q).length rest.length) cp) { rest := rest, calls := cl } := by
  rfl

theorem readCharacter_cut (ctx : Ctx) (t r : Bytes) (cl : List Call) (v : Val) (st' : St)
    (h : readCharacter ctx { rest := t ++ r, calls := cl } = .ok v st') (hl : r.length ≤ st'.rest.length) :
    ∃ t' v', st' = { rest := t' ++ r, calls := cl } ∧
      readCharacter ctx { rest := t, calls := cl } = .ok v' { rest := t', calls := cl } ∧ shiftV r.length v' = v := by
  cases t with
  | nil =>
    exfalso
    cases r with
    | nil => rw [readCharacter_eq] at h; simp at h
    | cons c cs =>
      have hp := readCharacter_progress' ctx { rest := [] ++ c :: cs, calls := cl } (by simp)
      rw [h] at hp
      simp only [Progress, List.nil_append] at hp
      omega
  | cons x p =>
    rw [List.cons_append, readCharacter_cons] at h
    rw [readCharacter_cons]
    by_cases he : (p ++ r).isEmpty = true
    · rw [if_pos he] at h; cases h
    · rw [if_neg he] at h
      cases hb : charBody ctx (p ++ r) with
      | error ee => rw [hb] at h; cases h
      | ok y =>
        obtain ⟨cp, rest⟩ := y
        rw [hb] at h
        simp only [] at h
        by_cases h1 : cp > 0x10FFFF
        · rw [if_pos h1] at h; cases h
        · rw [if_neg h1] at h
          by_cases h2 : (!rest.isEmpty && !isDelim (peek rest)) = true
          · rw [if_pos h2] at h; cases h
          · rw [if_neg h2] at h
            simp only [Res.ok.injEq] at h
            obtain ⟨hv, hst⟩ := h
            subst hst
            simp only [] at hl
            by_cases hpe : p = []
            · exfalso
              subst hpe
              rw [List.nil_append] at hb he
              have hr : r ≠ [] := by intro hr; rw [hr] at he; exact he rfl
              have := charBody_lt ctx r _ hr hb
              simp only [] at this
              omega
            · obtain ⟨p', hrest, hs⟩ := charBody_cut ctx p r hpe cp rest hb hl
              subst hrest
              have hpne : p.isEmpty = false := by
                cases p with
                | nil => exact absurd rfl hpe
                | cons _ _ => rfl
              rw [hpne, hs]
              simp only [Bool.false_eq_true, ↓reduceIte]
              rw [if_neg h1]
              have h2' : ¬ ((!p'.isEmpty && !isDelim (peek p')) = true) := by
                cases p' with
                | nil => simp
                | cons c cs => exact h2
              rw [if_neg h2']
              refine ⟨p', _, rfl, rfl, ?_⟩
              rw [shiftV_char, ← hv]
              simp only [List.length_cons, List.length_append]
              congr 2
              omega

/-! ## identifiers -/

theorem scanIdentRawAux_len_ge : ∀ (s : Bytes) (i : Nat) (sl : Option Nat) (prev col : Bool),
    i ≤ (scanIdentRawAux i sl prev col s).len := by
  intro s
  induction s with
  | nil => intro i sl prev col; simp [scanIdentRawAux]
  | cons c cs ih =>
    intro i sl prev col
    rw [scanIdentRawAux]
    split
    · exact Nat.le_refl _
    · have := ih (i + 1) (if (c == 0x2F && sl.isNone) = true then some i else sl) (c == 0x3A) (col || (c == 0x3A && prev))
      simp only [] at this ⊢
      omega

theorem scanIdentRawAux_len_le : ∀ (s : Bytes) (i : Nat) (sl : Option Nat) (prev col : Bool),
    (scanIdentRawAux i sl prev col s).len ≤ i + s.length := by
  intro s
  induction s with
  | nil => intro i sl prev col; simp [scanIdentRawAux]
  | cons c cs ih =>
    intro i sl prev col
    rw [scanIdentRawAux]
    split
    · simp
    · have := ih (i + 1) (if (c == 0x2F && sl.isNone) = true then some i else sl) (c == 0x3A) (col || (c == 0x3A && prev))
      simp only [List.length_cons] at this ⊢
      omega

theorem scanIdentRawAux_cut : ∀ (u r : Bytes) (i : Nat) (sl : Option Nat) (prev col : Bool),
    (scanIdentRawAux i sl prev col (u ++ r)).len ≤ i + u.length →
    scanIdentRawAux i sl prev col (u ++ r) = scanIdentRawAux i sl prev col u := by
  intro u
  induction u with
  | nil =>
    intro r i sl prev col h
    cases r with
    | nil => rfl
    | cons c cs =>
      simp only [List.nil_append, List.length_nil, Nat.add_zero] at h ⊢
      rw [scanIdentRawAux] at h ⊢
      by_cases hd : isDelim c = true
      · rw [if_pos hd]; simp [scanIdentRawAux]
      · rw [if_neg hd] at h
        have := scanIdentRawAux_len_ge cs (i + 1) (if (c == 0x2F && sl.isNone) = true then some i else sl) (c == 0x3A)
          (col || (c == 0x3A && prev))
        simp only [] at h
        omega
  | cons c cs ih =>
    intro r i sl prev col h
    simp only [List.cons_append] at h ⊢
    rw [scanIdentRawAux] at h ⊢
    rw [scanIdentRawAux]
    by_cases hd : isDelim c = true
    · rw [if_pos hd, if_pos hd]
    · rw [if_neg hd] at h ⊢
      rw [if_neg hd]
      simp only [] at h ⊢
      apply ih
      simp only [List.length_cons] at h
      omega

theorem identSplit_len (len : Nat) (sl : Option Nat) (h : (identSplit len sl).valid = true) :
    (identSplit len sl).len = len := by
  unfold identSplit at h ⊢
  split
  · rename_i h0; simp [h0] at h
  · rename_i h0
    split
    · split
      · rename_i h1; simp at h1; simp [h1]
      · split
        · rename_i h1 h2; simp [h0, h1, h2] at h
        · split
          · rename_i h1 h2 h3; simp [h0, h1, h2, h3] at h
          · rfl
    · rfl

/-- a valid scan consumed exactly the raw token -/
theorem scanIdent_len_raw (s : Bytes) (h : (scanIdent s).valid = true) :
    (scanIdent s).len = (scanIdentRaw s).len ∧ scanIdent s = identSplit (scanIdentRaw s).len (scanIdentRaw s).slash := by
  rw [scanIdent_eq_spec] at h ⊢
  unfold scanIdentSpec at h ⊢
  simp only [] at h ⊢
  by_cases hc : (scanIdentRaw s).colons = true
  · rw [if_pos hc] at h; cases h
  · rw [if_neg hc] at h ⊢
    exact ⟨identSplit_len _ _ h, rfl⟩

theorem scanIdent_cut (t r : Bytes) (h : (scanIdent (t ++ r)).valid = true)
    (hl : (scanIdent (t ++ r)).len ≤ t.length) : scanIdent t = scanIdent (t ++ r) := by
  have h1 := (scanIdent_len_raw _ h).1
  have hraw : scanIdentRaw (t ++ r) = scanIdentRaw t := by
    unfold scanIdentRaw
    apply scanIdentRawAux_cut
    rw [h1] at hl
    unfold scanIdentRaw at hl
    omega
  rw [scanIdent_eq_spec, scanIdent_eq_spec]
  unfold scanIdentSpec
  rw [hraw]

/-- what `readIdentifier` does with a valid scan -/
def identBody (sc : IdentScan) (tok : Bytes) (start stop : Nat) (st' : St) : Res :=
  let h : Hdr := (mkHdr (start) (stop))
  let serr : Res := .err (mkErr .invalidSyntax (some start) (some stop)) st'
  match sc.ns with
  | none =>
    let name := tok
    if peek name == 0x3A then
      let kw := name.tail
      if kw.isEmpty then serr
      else if peek kw == 0x3A then serr
      else .ok (.kw h none kw) st'
    else if name == strBytes "nil" then .ok (.nil h) st'
    else if name == strBytes "true" then .ok (.bool h true) st'
    else if name == strBytes "false" then .ok (.bool h false) st'
    else .ok (.sym h none none name) st'
  | some k =>
    let ns := tok.take k
    let name := (tok.drop (k + 1)).take sc.nameLen
    if peek ns == 0x3A then
      let kns := ns.tail
      if kns.isEmpty then serr
      else if peek kns == 0x3A then serr
      else .ok (.kw h (some kns) name) st'
    else .ok (.sym h none (some ns) name) st'

theorem readIdentifier_eq (ctx : Ctx) (s : Bytes) (cl : List Call) :
    readIdentifier ctx { rest := s, calls := cl } =
      if !(scanIdent s).valid then .err (mkErr .invalidSyntax (some s.length) (some s.length)) { rest := s, calls := cl }
      else identBody (scanIdent s) (s.take (scanIdent s).len) s.length (s.drop (scanIdent s).len).length
        { rest := s.drop (scanIdent s).len, calls := cl } := by
  rfl

theorem shiftV_kw (k a b : Nat) (ns : Option Bytes) (nm : Bytes) :
    shiftV k (.kw (mkHdr a b) ns nm) = .kw (mkHdr (a + k) (b + k)) ns nm := by
  simp [shiftV, shiftHdr, Val.setHdr, Val.hdr, mkHdr]
theorem shiftV_nil (k a b : Nat) : shiftV k (.nil (mkHdr a b)) = .nil (mkHdr (a + k) (b + k)) := by
  simp [shiftV, shiftHdr, Val.setHdr, Val.hdr, mkHdr]
theorem shiftV_bool (k a b : Nat) (x : Bool) : shiftV k (.bool (mkHdr a b) x) = .bool (mkHdr (a + k) (b + k)) x := by
  simp [shiftV, shiftHdr, Val.setHdr, Val.hdr, mkHdr]
theorem shiftV_sym (k a b : Nat) (ns : Option Bytes) (nm : Bytes) :
    shiftV k (.sym (mkHdr a b) none ns nm) = .sym (mkHdr (a + k) (b + k)) none ns nm := by
  simp [shiftV, shiftO, shiftHdr, mkHdr]

theorem identBody_shift (sc : IdentScan) (tok : Bytes) (a b k : Nat) (st1 st2 : St) (v : Val) (st'' : St)
    (h : identBody sc tok (a + k) (b + k) st1 = .ok v st'') :
    st'' = st1 ∧ ∃ v', identBody sc tok a b st2 = .ok v' st2 ∧ shiftV k v' = v := by
  unfold identBody at h ⊢
  simp only [] at h ⊢
  cases hns : sc.ns with
  | none =>
    rw [hns] at h
    simp only [] at h ⊢
    by_cases c1 : (peek tok == 0x3A) = true
    · rw [if_pos c1] at h ⊢
      by_cases c2 : tok.tail.isEmpty = true
      · rw [if_pos c2] at h; cases h
      · rw [if_neg c2] at h ⊢
        by_cases c3 : (peek tok.tail == 0x3A) = true
        · rw [if_pos c3] at h; cases h
        · rw [if_neg c3] at h ⊢
          cases h
          exact ⟨rfl, _, rfl, shiftV_kw _ _ _ _ _⟩
    · rw [if_neg c1] at h ⊢
      by_cases c2 : (tok == strBytes "nil") = true
      · rw [if_pos c2] at h ⊢
        cases h
        exact ⟨rfl, _, rfl, shiftV_nil _ _ _⟩
      · rw [if_neg c2] at h ⊢
        by_cases c3 : (tok == strBytes "true") = true
        · rw [if_pos c3] at h ⊢
          cases h
          exact ⟨rfl, _, rfl, shiftV_bool _ _ _ _⟩
        · rw [if_neg c3] at h ⊢
          by_cases c4 : (tok == strBytes "false") = true
          · rw [if_pos c4] at h ⊢
            cases h
            exact ⟨rfl, _, rfl, shiftV_bool _ _ _ _⟩
          · rw [if_neg c4] at h ⊢
            cases h
            exact ⟨rfl, _, rfl, shiftV_sym _ _ _ _ _⟩
  | some j =>
    rw [hns] at h
    simp only [] at h ⊢
    by_cases c1 : (peek (tok.take j) == 0x3A) = true
    · rw [if_pos c1] at h ⊢
      by_cases c2 : (tok.take j).tail.isEmpty = true
      · rw [if_pos c2] at h; cases h
      · rw [if_neg c2] at h ⊢
        by_cases c3 : (peek (tok.take j).tail == 0x3A) = true
        · rw [if_pos c3] at h; cases h
        · rw [if_neg c3] at h ⊢
          cases h
          exact ⟨rfl, _, rfl, shiftV_kw _ _ _ _ _⟩
    · rw [if_neg c1] at h ⊢
      cases h
      exact ⟨rfl, _, rfl, shiftV_sym _ _ _ _ _⟩

theorem readIdentifier_cut (ctx : Ctx) (t r : Bytes) (cl : List Call) (v : Val) (st' : St)
    (h : readIdentifier ctx { rest := t ++ r, calls := cl } = .ok v st') (hl : r.length ≤ st'.rest.length) :
    ∃ t' v', st' = { rest := t' ++ r, calls := cl } ∧
      readIdentifier ctx { rest := t, calls := cl } = .ok v' { rest := t', calls := cl } ∧ shiftV r.length v' = v := by
  rw [readIdentifier_eq] at h ⊢
  by_cases hv : (!(scanIdent (t ++ r)).valid) = true
  · rw [if_pos hv] at h; cases h
  · rw [if_neg hv] at h
    have hv' : (scanIdent (t ++ r)).valid = true := by simpa using hv
    have hle : (scanIdent (t ++ r)).len ≤ (t ++ r).length := by
      rw [(scanIdent_len_raw _ hv').1]
      have := scanIdentRawAux_len_le (t ++ r) 0 none false false
      unfold scanIdentRaw
      omega
    have hst := (identBody_shift _ _ _ _ 0 _ { rest := [], calls := [] } _ _ h).1
    have hL : (scanIdent (t ++ r)).len ≤ t.length := by
      rw [hst] at hl
      simp only [List.length_drop, List.length_append] at hl hle
      omega
    have hsc := scanIdent_cut t r hv' hL
    rw [hsc]
    rw [if_neg hv]
    rw [List.take_append_of_le_length hL, List.drop_append_of_le_length hL, List.length_append,
      List.length_append] at h
    obtain ⟨hst', v', hs, hsh⟩ := identBody_shift _ _ _ _ _ _
      { rest := List.drop (scanIdent (t ++ r)).len t, calls := cl } _ _ h
    exact ⟨_, v', hst', hs, hsh⟩

/-- the identifier reader never answers "closing delimiter" -/
theorem readIdentifier_not_closer (ctx : Ctx) (st st' : St) : readIdentifier ctx st ≠ .closer st' := by
  unfold readIdentifier
  simp only []
  repeat' split
  all_goals (intro h; cases h)

/-- kind of the value is preserved by the cut (needed by the tagged-literal reader, which tests
    whether the tag is a symbol) -/
theorem shiftV_isSym (k : Nat) (v : Val) :
    (∃ h md ns nm, shiftV k v = .sym h md ns nm) ↔ (∃ h md ns nm, v = .sym h md ns nm) := by
  cases v <;> simp [shiftV, Val.setHdr]

end Edn.Proofs
