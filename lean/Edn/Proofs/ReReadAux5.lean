/-
  Edn.Proofs.ReReadAux5 — continuation independence ("cut") of the two leaf readers
  `readCharacter` and `readIdentifier`: when the reader succeeds on `t ++ r` and leaves a rest
  that still contains all of `r`, it succeeds on `t` alone with the same payload, the
  corresponding rest and both header positions smaller by `r.length`.
-/
import Edn.Proofs.ReReadAux0

namespace Edn.Proofs
open Edn.Model Edn.Spec

/-! ## list facts -/

theorem peek_append_of_ne {a : Bytes} (r : Bytes) (h : a ≠ []) : peek (a ++ r) = peek a := by
  cases a with
  | nil => exact absurd rfl h
  | cons c cs => rfl

theorem isEmpty_append_of_ne {a : Bytes} (r : Bytes) (h : a ≠ []) : (a ++ r).isEmpty = false := by
  cases a with
  | nil => exact absurd rfl h
  | cons c cs => rfl

theorem takeWhile_take_append (q : UInt8 → Bool) : ∀ (a b : Bytes) (n : Nat),
    (((a ++ b).take n).takeWhile q).length ≤ a.length →
    ((a ++ b).take n).takeWhile q = (a.take n).takeWhile q := by
  intro a
  induction a with
  | nil =>
    intro b n h
    simp only [List.length_nil, Nat.le_zero_eq, List.length_eq_zero_iff] at h
    rw [h]; simp
  | cons x a ih =>
    intro b n h
    cases n with
    | zero => simp
    | succ n =>
      simp only [List.cons_append, List.take_succ_cons, List.takeWhile_cons] at h ⊢
      cases hq : q x with
      | false => simp
      | true =>
        simp only [hq, ↓reduceIte, List.length_cons, Nat.add_le_add_iff_right] at h ⊢
        rw [ih b n h]

/-! ## characters -/

theorem charNamed_cut_some {p r : Bytes} {nm : String} {cp : Nat} (hn : nm.length = (strBytes nm).length)
    {x : Nat × Bytes} (h : charNamed (p ++ r) nm cp = some x) (hl : r.length ≤ x.2.length) :
    ∃ p', x = (cp, p' ++ r) ∧ charNamed p nm cp = some (cp, p') := by
  unfold charNamed startsWith at h
  unfold charNamed startsWith
  split at h
  · rename_i hp
    cases h
    have hpre := List.isPrefixOf_iff_prefix.mp hp
    have hlen := hpre.length_le
    simp only [List.length_drop, List.length_append] at hl hlen
    have hle : (strBytes nm).length ≤ p.length := by omega
    have hpre' : strBytes nm <+: p := List.prefix_of_prefix_length_le hpre (List.prefix_append p r) hle
    refine ⟨p.drop nm.length, ?_, ?_⟩
    · rw [List.drop_append_of_le_length (by omega)]
    · rw [if_pos (List.isPrefixOf_iff_prefix.mpr hpre')]
  · cases h

theorem charNamed_cut_none {p r : Bytes} {nm : String} {cp : Nat}
    (h : charNamed (p ++ r) nm cp = none) : charNamed p nm cp = none := by
  unfold charNamed startsWith at h
  unfold charNamed startsWith
  split at h
  · cases h
  · rename_i hp
    rw [if_neg]
    intro hp'
    exact hp (List.isPrefixOf_iff_prefix.mpr ((List.isPrefixOf_iff_prefix.mp hp').trans (List.prefix_append p r)))

theorem hexMore_cut : ∀ (k v : Nat) (a r : Bytes), r.length ≤ (hexMore k v (a ++ r)).2.length →
    hexMore k v (a ++ r) = ((hexMore k v a).1, (hexMore k v a).2 ++ r) := by
  intro k
  induction k with
  | zero => intro v a r _; simp [hexMore]
  | succ k ih =>
    intro v a r h
    cases a with
    | nil =>
      cases r with
      | nil => simp [hexMore]
      | cons c r' =>
        simp only [List.nil_append] at h ⊢
        rw [hexMore] at h ⊢
        cases hd : hexDigit? c with
        | none => simp [hexMore]
        | some d =>
          simp only [hd] at h
          have := hexMore_len k (v * 16 + d) r'
          simp only [List.length_cons] at h
          omega
    | cons c a' =>
      simp only [List.cons_append] at h ⊢
      rw [hexMore] at h ⊢
      rw [hexMore]
      cases hd : hexDigit? c with
      | none => simp
      | some d =>
        simp only [hd] at h ⊢
        exact ih _ _ _ h

theorem hex4_len_eq {q : Bytes} {x : Nat × Bytes} (h : hex4? q = some x) : x.2.length + 4 = q.length := by
  unfold hex4? at h
  split at h
  · split at h
    · cases h; simp only [List.length_cons]
    · cases h
  · cases h

theorem hex4_cut {q r : Bytes} {v : Nat} {q' : Bytes} (h : hex4? (q ++ r) = some (v, q'))
    (hl : r.length ≤ q'.length) : ∃ q'', q' = q'' ++ r ∧ hex4? q = some (v, q'') := by
  have hlen := hex4_len_eq h
  simp only [List.length_append] at hlen
  match q, h, hlen with
  | a :: b :: c :: d :: q0, h, _ =>
    simp only [List.cons_append] at h
    unfold hex4? at h ⊢
    simp only [] at h ⊢
    split at h
    · rename_i w x y z h1 h2 h3 h4
      simp only [Option.some.injEq, Prod.mk.injEq] at h
      exact ⟨q0, h.2.symm, by simp only [h.1]⟩
    · cases h
  | [], _, hlen => simp only [List.length_nil] at hlen; omega
  | [_], _, hlen => simp only [List.length_cons, List.length_nil] at hlen; omega
  | [_, _], _, hlen => simp only [List.length_cons, List.length_nil] at hlen; omega
  | [_, _, _], _, hlen => simp only [List.length_cons, List.length_nil] at hlen; omega

theorem octalChar_cut {q r : Bytes} {v : Nat} {rest : Bytes} (h : octalChar (q ++ r) = some (v, rest))
    (hl : r.length ≤ rest.length) : ∃ q', rest = q' ++ r ∧ octalChar q = some (v, q') := by
  unfold octalChar at h ⊢
  simp only [] at h ⊢
  split at h
  · cases h
  · rename_i hne
    split at h
    · cases h
    · rename_i h89
      split at h
      · cases h
      · rename_i hv
        simp only [Option.some.injEq, Prod.mk.injEq] at h
        obtain ⟨hv', hrest⟩ := h
        have hdl : (((q ++ r).take 3).takeWhile isOct).length ≤ (q ++ r).length :=
          Nat.le_trans (List.takeWhile_sublist _).length_le (List.take_sublist _ _).length_le
        have hd : (((q ++ r).take 3).takeWhile isOct).length ≤ q.length := by
          rw [← hrest] at hl
          simp only [List.length_drop, List.length_append] at hl hdl
          omega
        have heq := takeWhile_take_append isOct q r 3 hd
        rw [heq] at hne h89 hv hv' hrest hd
        rw [List.drop_append_of_le_length hd] at hrest h89
        rw [if_neg hne]
        have h89' : ¬ ((peek (List.drop ((q.take 3).takeWhile isOct).length q) == 0x38 ||
            peek (List.drop ((q.take 3).takeWhile isOct).length q) == 0x39) = true) := by
          cases hdq : List.drop ((q.take 3).takeWhile isOct).length q with
          | nil => decide
          | cons c cs =>
            rw [hdq] at h89
            exact h89
        rw [if_neg h89', if_neg hv]
        exact ⟨_, hrest.symm, by rw [hv']⟩

theorem octalChar_lt {s : Bytes} {x : Nat × Bytes} (h : octalChar s = some x) : x.2.length < s.length := by
  unfold octalChar at h
  simp only [] at h
  split at h
  · cases h
  · rename_i hne
    split at h
    · cases h
    · split at h
      · cases h
      · cases h
        have hdl : ((s.take 3).takeWhile isOct).length ≤ s.length :=
          Nat.le_trans (List.takeWhile_sublist _).length_le (List.take_sublist _ _).length_le
        have hpos : 0 < ((s.take 3).takeWhile isOct).length := by
          cases hd : (s.take 3).takeWhile isOct with
          | nil => rw [hd] at hne; exact absurd rfl hne
          | cons c cs => simp
        simp only [List.length_drop]
        omega

theorem charNamed_lt {p : Bytes} {nm : String} {cp : Nat} {x : Nat × Bytes}
    (h : charNamed p nm cp = some x) (hn : 0 < nm.length) (hp : p ≠ []) : x.2.length < p.length := by
  unfold charNamed at h
  have hpos : 0 < p.length := List.length_pos_iff.mpr hp
  split at h
  · cases h; simp only [List.length_drop]; omega
  · cases h

/-- the part of `charBody` after the named characters -/
def charTail (ctx : Ctx) (p : Bytes) : Except Nat (Nat × Bytes) :=
  let c := peek p
  let c1 := peek p.tail
  if ctx.cfg.clj && c == 0x6F && !p.tail.isEmpty && is09 c1 then
    match octalChar p.tail with
    | none => .error (ctx.pos p.tail)
    | some x => .ok x
  else if c == 0x75 && !p.tail.isEmpty && (hexDigit? c1).isSome then
    let q := p.tail
    match hex4? q with
    | none => .error (q.length - 4)
    | some (v, q') =>
      if ctx.cfg.exp then .ok (hexMore 2 v q') else .ok (v, q')
  else if !isValidSingleChar ctx.cfg c then .error (p.length - 1)
  else .ok (c.toNat, p.tail)

theorem charTail_lt (ctx : Ctx) (p : Bytes) (x : Nat × Bytes) (hp : p ≠ []) (h : charTail ctx p = .ok x) :
    x.2.length < p.length := by
  unfold charTail at h
  have hpos : 0 < p.length := List.length_pos_iff.mpr hp
  have ht : p.tail.length + 1 = p.length := by simp only [List.length_tail]; omega
  simp only [] at h
  split at h
  · split at h
    · cases h
    · rename_i y hy; cases h
      have := octalChar_lt hy; omega
  · split at h
    · split at h
      · cases h
      · rename_i v q' hq
        have := hex4_len_eq hq
        simp only [] at this
        split at h
        · cases h
          have := hexMore_len 2 v q'; omega
        · cases h; simp only []; omega
    · split at h
      · cases h
      · cases h; simp only []; omega

theorem charTail_cons (ctx : Ctx) (c : UInt8) (q : Bytes) :
    charTail ctx (c :: q) =
      if ctx.cfg.clj && c == 0x6F && !q.isEmpty && is09 (peek q) then
        match octalChar q with
        | none => .error (ctx.pos q)
        | some x => .ok x
      else if c == 0x75 && !q.isEmpty && (hexDigit? (peek q)).isSome then
        match hex4? q with
        | none => .error (q.length - 4)
        | some (v, q') =>
          if ctx.cfg.exp then .ok (hexMore 2 v q') else .ok (v, q')
      else if !isValidSingleChar ctx.cfg c then .error ((c :: q).length - 1)
      else .ok (c.toNat, q) := rfl

theorem charTail_cut (ctx : Ctx) (p r : Bytes) (hp : p ≠ []) (cp : Nat) (rest : Bytes)
    (h : charTail ctx (p ++ r) = .ok (cp, rest)) (hl : r.length ≤ rest.length) :
    ∃ p', rest = p' ++ r ∧ charTail ctx p = .ok (cp, p') := by
  cases p with
  | nil => exact absurd rfl hp
  | cons c p1 =>
    rw [List.cons_append, charTail_cons] at h
    rw [charTail_cons]
    cases p1 with
    | nil =>
      -- the code point is the single byte `c`: the big run may not look into `r`
      rw [List.nil_append] at h
      rw [show ([] : Bytes).isEmpty = true from rfl]
      simp only [Bool.not_true, Bool.and_false, Bool.false_and, Bool.false_eq_true, ↓reduceIte]
      by_cases hc : (ctx.cfg.clj && c == 0x6F && !r.isEmpty && is09 (peek r)) = true
      · rw [if_pos hc] at h
        cases hy : octalChar r with
        | none => rw [hy] at h; cases h
        | some y =>
          rw [hy] at h; cases h
          have := octalChar_lt hy
          simp only [] at this; omega
      · rw [if_neg hc] at h
        by_cases hc2 : (c == 0x75 && !r.isEmpty && (hexDigit? (peek r)).isSome) = true
        · rw [if_pos hc2] at h
          cases hq : hex4? r with
          | none => rw [hq] at h; cases h
          | some y =>
            obtain ⟨v, q'⟩ := y
            rw [hq] at h
            simp only [] at h
            have := hex4_len_eq hq
            simp only [] at this
            by_cases hexp : ctx.cfg.exp = true
            · rw [if_pos hexp] at h
              simp only [Except.ok.injEq] at h
              have hml := hexMore_len 2 v q'
              rw [h] at hml; simp only [] at hml; omega
            · rw [if_neg hexp] at h
              cases h; omega
        · rw [if_neg hc2] at h
          by_cases hvs : (!isValidSingleChar ctx.cfg c) = true
          · rw [if_pos hvs] at h; cases h
          · rw [if_neg hvs] at h ⊢
            cases h
            exact ⟨[], rfl, rfl⟩
    | cons c1 p2 =>
      rw [List.cons_append, show (c1 :: (p2 ++ r)).isEmpty = false from rfl,
        show peek (c1 :: (p2 ++ r)) = c1 from rfl] at h
      rw [show (c1 :: p2).isEmpty = false from rfl, show peek (c1 :: p2) = c1 from rfl]
      by_cases hc : (ctx.cfg.clj && c == 0x6F && !false && is09 c1) = true
      · rw [if_pos hc] at h ⊢
        cases hy : octalChar (c1 :: (p2 ++ r)) with
        | none => rw [hy] at h; cases h
        | some y =>
          rw [hy] at h
          cases h
          obtain ⟨q', h1, h2⟩ := octalChar_cut (q := c1 :: p2) hy hl
          rw [h2]
          exact ⟨q', h1, rfl⟩
      · rw [if_neg hc] at h ⊢
        by_cases hc2 : (c == 0x75 && !false && (hexDigit? c1).isSome) = true
        · rw [if_pos hc2] at h ⊢
          cases hq : hex4? (c1 :: (p2 ++ r)) with
          | none => rw [hq] at h; cases h
          | some y =>
            obtain ⟨v, q'⟩ := y
            rw [hq] at h
            simp only [] at h
            have hlen := hex4_len hq
            by_cases hexp : ctx.cfg.exp = true
            · rw [if_pos hexp] at h
              simp only [Except.ok.injEq] at h
              have hml := hexMore_len 2 v q'
              have hl' : r.length ≤ q'.length := by
                rw [h] at hml; simp only [] at hml; omega
              obtain ⟨q'', h1, h2⟩ := hex4_cut (q := c1 :: p2) hq hl'
              rw [h2]
              simp only [hexp, ↓reduceIte]
              subst h1
              have hc := hexMore_cut 2 v q'' r (by rw [h]; exact hl)
              rw [h] at hc
              simp only [Prod.mk.injEq] at hc
              refine ⟨(hexMore 2 v q'').2, hc.2, ?_⟩
              rw [hc.1]
            · rw [if_neg hexp] at h
              cases h
              obtain ⟨q'', h1, h2⟩ := hex4_cut (q := c1 :: p2) hq hl
              rw [h2]
              simp only [hexp, Bool.false_eq_true, ↓reduceIte]
              exact ⟨q'', h1, rfl⟩
        · rw [if_neg hc2] at h ⊢
          by_cases hvs : (!isValidSingleChar ctx.cfg c) = true
          · rw [if_pos hvs] at h; cases h
          · rw [if_neg hvs] at h ⊢
            cases h
            exact ⟨c1 :: p2, rfl, rfl⟩

end Edn.Proofs
