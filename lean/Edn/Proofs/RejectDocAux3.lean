/-
  Edn.Proofs.RejectDocAux3 — C10, whole documents: the transport theorem.  An error raised in
  front of `s` at the end of an open context `pre` is the error of the whole `pre ++ s`
  ("the first defect decides the class"): every error through a flat context, every error but
  the end of the input through opened collections.
-/
import Edn.Proofs.RejectDocAux2

namespace Edn.Proofs.RejectDoc
open Edn.Model Edn.Spec Edn.Generated Edn.Proofs Edn.Proofs.Cmpl

theorem coll_assoc (o body pre s : Bytes) : (o ++ (body ++ pre)) ++ s = o ++ (body ++ (pre ++ s)) := by
  simp only [List.append_assoc]

/-- an error of the open element of a collection, after `n` complete forms, as the error of
    the collection: hard errors unchanged, the end of the input as UNTERMINATED_COLLECTION -/
theorem site_of_elem (opts : Opts) (hreg : opts.registry = none) (d : Nat) (dm : Bool) (kind k n : Nat) (body x : Bytes)
    (hd : d + 1 + k ≤ Tables.maxNestingDepth) (hb : Forms k n body x) (e : ErrInfo) (r : Bytes)
    (h : SiteErr opts (d + 1) dm x e r) :
    SiteErr opts d dm (opener kind ++ (body ++ x)) (loopErr (opener kind ++ (body ++ x)).length e r) r := by
  by_cases hk : kind < 3
  · apply site_of_loopS opts d dm kind hk _ _ _ (by omega)
    exact rs_forms opts hreg hb d dm kind _ hd _ _ (loopS_of_site opts d dm kind _ x e r h)
  · apply site_of_loopM opts d dm kind (by omega) _ _ _ (by omega)
    obtain ⟨m, rfl | rfl⟩ : ∃ m, n = 2 * m ∨ n = 2 * m + 1 := ⟨n / 2, by omega⟩
    · exact rm_forms opts hreg k x d dm _ hd _ _ (loopM_of_site opts d dm _ x e r h) m body hb
    · obtain ⟨body1, tok, a, rfl, h1, h2⟩ := hb.snoc
      rw [List.append_assoc]
      exact rm_forms opts hreg k (tok ++ x) d dm _ hd _ _ (loopM_of_site2 opts hreg d dm _ h2 hd e r h) m body1 h1

/-- **Transport.**  Through a flat context every error arrives unchanged; through opened
    collections every error but UNEXPECTED_EOF does. -/
theorem desc_err (opts : Opts) (hreg : opts.registry = none) {s : Bytes} {c : Bool} {d : Nat} {dm : Bool} {pre : Bytes}
    {d' : Nat} {dm' : Bool} (h : Desc s c d dm pre d' dm') (e : ErrInfo) (r : Bytes)
    (hs : SiteErr opts d' dm' s e r) (hc : c = false ∨ e.code ≠ .unexpectedEof) :
    SiteErr opts d dm (pre ++ s) e r := by
  induction h with
  | here c d dm => simpa using hs
  | blank c d dm tr pre d' dm' ht _ ih =>
    intro cl f hf
    match f, hf with
    | f + 1, hf =>
      rw [List.append_assoc, readValue_trivia_prefix _ f d dm tr _ cl (blank_toPlain ht)]
      exact ih hs hc cl (f + 1) (by simp only [List.length_append] at hf ⊢; omega)
  | skip c d dm k b tok pre d' dm' hd hf _ ih =>
    intro cl f hfu
    have e1 : (0x23 :: 0x5F :: (tok ++ pre)) ++ s = 0x23 :: 0x5F :: (tok ++ (pre ++ s)) := by simp
    rw [e1] at hfu ⊢
    simp only [List.length_cons, List.length_append] at hfu
    match f, hfu with
    | f + 1, hfu =>
      obtain ⟨v, hv⟩ := form_read_at opts hreg hf (d + 1) (by omega) true cl f (by simp only [List.length_append]; omega)
      rw [(discard_is_trivia (cctx opts) f d dm tok (pre ++ s) cl cl v (by omega) hv).2]
      exact ih hs hc cl f (by simp only [List.length_append]; omega)
  | discard c d dm pre d' dm' hd _ ih =>
    intro cl f hfu
    simp only [List.cons_append, List.length_cons, List.length_append] at hfu ⊢
    match f, hfu with
    | f + 1, hfu =>
      rw [rv_discard_eq _ f d dm _ cl hd, ih hs hc cl f (by simp only [List.length_append]; omega)]
  | tag c d dm tg ns nm pre d' dm' hd hl hden hu hsep _ ih =>
    intro cl f hfu
    have e1 : (0x23 :: (tg ++ pre)) ++ s = 0x23 :: (tg ++ (pre ++ s)) := by simp
    rw [e1] at hfu ⊢
    have hp : 0 < tg.length := List.length_pos_iff.mpr hl.1
    simp only [List.length_cons, List.length_append] at hfu
    match f, hfu with
    | f + 2, hfu =>
      rw [rv_tag_eq _ hreg f d dm tg ns nm (pre ++ s) cl hd hl hden hu hsep,
        ih hs hc cl f (by simp only [List.length_append]; omega)]
  | coll d dm kind k n body pre d' dm' hd hb _ ih =>
    have hne : e.code ≠ .unexpectedEof := by
      rcases hc with hc | hc
      · cases hc
      · exact hc
    have := site_of_elem opts hreg d dm kind k n body (pre ++ s) hd hb e r (ih hs (Or.inr hne))
    rw [loopErr_hard hne] at this
    rw [coll_assoc]
    exact this

/-! ## sites: the end of the input -/

/-- the error `readValue` raises at the end of the input at depth `d` -/
def eofE (d : Nat) : ErrInfo := { code := .unexpectedEof, es := none, ee := none, eofTop := d == 0 }

/-- only blanks and comments (the last one possibly unclosed) are left -/
theorem site_eof (opts : Opts) (d : Nat) (dm : Bool) (s : Bytes) (h : skipWsScalar s = []) :
    SiteErr opts d dm s (eofE d) [] := by
  intro cl f hf
  match f, hf with
  | f + 1, _ => rw [readValue_trivia_only _ f d dm s cl h]; rfl

/-- a lone `#` ends the input -/
theorem site_hash (opts : Opts) (d : Nat) (dm : Bool) (tr : Bytes) (ht : Blank tr) :
    SiteErr opts d dm (tr ++ [0x23]) (mkErr .unexpectedEof (some 1) (some 0)) [] := by
  intro cl f hf
  simp only [List.length_append, List.length_cons, List.length_nil] at hf
  match f, hf with
  | f + 2, _ =>
    rw [readValue_trivia_prefix _ (f + 1) d dm tr _ cl (blank_toPlain ht), readValue_succ]
    unfold rvOuter
    have hp : isPreWs 0x23 = false := by decide +kernel
    simp only [hp, Bool.false_eq_true, ↓reduceIte]
    unfold rvStep
    simp only [Cmpl.dispatch_hash]
    rw [readTagged_succ]
    rfl

/-! ## sites: a closing delimiter -/

/-- a closing delimiter where a top-level form is expected -/
theorem site_closer_top (opts : Opts) (dm : Bool) (c : UInt8) (rest : Bytes) (hc : IsCloser c) :
    SiteErr opts 0 dm (c :: rest) (mkErr .unmatchedDelimiter) (c :: rest) := by
  intro cl f hf
  match f, hf with
  | f + 1, _ => exact stray_closer _ f dm c rest cl hc

/-- blanks and discarded forms in front of a closing delimiter start with a delimiter byte -/
theorem trail_delimStart {k : Nat} {tr : Bytes} {c : UInt8} {rest : Bytes} (h : Trail k tr (c :: rest)) (hc : IsCloser c) :
    DelimStart (tr ++ c :: rest) := by
  have hcd : isDelim c = true := by rcases hc with rfl | rfl | rfl <;> decide +kernel
  have hb : ∀ {t : Bytes} (x : Bytes), Blank t → t ≠ [] → DelimStart (t ++ x) := by
    intro t x ht hne
    cases t with
    | nil => exact absurd rfl hne
    | cons c0 t0 => exact Or.inr ⟨c0, t0 ++ x, rfl, (blank_head_term ht).2⟩
  cases h with
  | blank _ _ _ ht =>
    by_cases hn : tr = []
    · subst hn; exact Or.inr ⟨c, rest, rfl, hcd⟩
    · exact hb _ ht hn
  | discard k b tr0 tok tr1 _ ht hd hr =>
    by_cases hn : tr0 = []
    · subst hn
      exact Or.inr ⟨0x23, _, rfl, by decide +kernel⟩
    · rw [List.append_assoc]
      exact hb _ ht hn

/-- `#_` with nothing to discard before a closing delimiter -/
theorem site_discard_closer (opts : Opts) (d : Nat) (dm : Bool) (tr : Bytes) (c : UInt8) (rest : Bytes)
    (hd : d < Tables.maxNestingDepth) (h : Snd.TrailL opts d tr (c :: rest)) :
    SiteErr opts d dm (0x23 :: 0x5F :: (tr ++ c :: rest))
      (mkErr .invalidDiscard (some ((tr ++ c :: rest).length + 2)) (some (tr ++ c :: rest).length)) (c :: rest) := by
  intro cl f hf
  simp only [List.length_cons] at hf
  match f, hf with
  | f + 1, hf => rw [rv_discard_eq _ f d dm _ cl hd, h true cl f (by omega)]

/-- `#tag` with nothing to apply to before a closing delimiter -/
theorem site_tag_closer (opts : Opts) (hreg : opts.registry = none) (d : Nat) (dm : Bool) (tg : Bytes) (ns : Option Bytes) (nm : Bytes)
    (tr : Bytes) (c : UInt8) (rest : Bytes)
    (hd : d < Tables.maxNestingDepth) (hl : IdentLex tg) (hden : IdentDenotes tg (.sym hdr0 none ns nm))
    (hu : tg.head? ≠ some 0x5F) (hsep : DelimStart (tr ++ c :: rest)) (h : Snd.TrailL opts d tr (c :: rest)) :
    SiteErr opts d dm (0x23 :: (tg ++ (tr ++ c :: rest)))
      (mkErr .invalidSyntax (some ((tg ++ (tr ++ c :: rest)).length + 1)) (some (rest.length + 1))) (c :: rest) := by
  intro cl f hf
  have hp : 0 < tg.length := List.length_pos_iff.mpr hl.1
  simp only [List.length_cons, List.length_append] at hf
  match f, hf with
  | f + 2, hf =>
    rw [rv_tag_eq _ hreg f d dm tg ns nm _ cl hd hl hden hu hsep, h dm cl f (by simp only [List.length_append, List.length_cons]; omega)]
    rfl

end Edn.Proofs.RejectDoc
