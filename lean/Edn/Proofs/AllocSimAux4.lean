/-
  Edn.Proofs.AllocSimAux4 — refinement, part 4: the duplicate check with its scratch allocations
  and lazily materialised payloads (`hasDuplicatesA`) against the duplicate check under an
  allocation outcome (`hasDuplicatesF`, Edn.Model.Uniq): whenever the parser's arena is alive and
  its count of refused requests does not move during the check, the verdict is the one of
  `hasDuplicatesF cfg c m` for the outcome `(c, m)` of the two scratch allocations, and — when
  there is no duplicate — the elements come back with the same cache cells filled.  With an
  oracle that fails nothing `c = m = true`, and `hasDuplicatesF cfg true true = hasDuplicates cfg`.
-/
import Edn.Proofs.AllocSimAux2
import Edn.Proofs.AllocSimAux3
import Edn.Proofs.Faults

namespace Edn.Proofs.AllocSim
open Edn.Model Edn.Proofs.AllocBasic Edn.Proofs

/-- like `Sim` with a property of the result instead of its value -/
def SimP {α : Type} (x : ACtx) (r : α × ASt) (a : ASt) (R : α → Prop) : Prop :=
  Fr x a r.2 ∧ (a.arena = .alive → r.2.failedArena = a.failedArena → R r.1)

theorem hasDupLinearA_sim (x : ACtx) (xs : List Val) (a : ASt) :
    Sim x (hasDupLinearA x xs a) a (dupPairs (equal x.ctx.cfg) xs) := by
  induction xs generalizing a with
  | nil => exact Sim.pure x a _
  | cons v vs ih =>
    unfold hasDupLinearA dupPairs
    have h1 := anyA_sim (equalA_sim x) v vs a
    rcases hq : anyA (equalA x) v vs a with ⟨r, a1⟩
    rw [hq] at h1
    simp only
    cases r <;> simp only [Bool.false_eq_true, ↓reduceIte]
    · have h2 := ih a1
      refine Sim.seq h1 h2.1 (fun _ ha1 e1 hc => ?_)
      simp only at e1 ha1 hc ⊢
      rw [← e1, Bool.false_or]
      exact h2.2 ha1 hc
    · refine Sim.seq h1 (Fr.refl x _) (fun _ _ e1 _ => ?_)
      simp only at e1 ⊢
      rw [← e1, Bool.true_or]

theorem hashAtA_sim (x : ACtx) (is : List Nat) : ∀ (arr : Array Val) (a : ASt),
    Sim x (hashAtA x is arr a) a (hashAtL x.ctx.cfg is arr.toList).toArray := by
  induction is with
  | nil => intro arr a; exact Sim.pure x a _
  | cons i is ih =>
    intro arr a
    unfold hashAtA hashAtL
    rw [Array.getElem?_toList]
    cases hi : arr[i]? with
    | none => exact ih arr a
    | some v =>
      simp only
      have h1 := hashOpA_sim x v a
      rcases hq : hashOpA x v a with ⟨⟨c, v'⟩, a1⟩
      rw [hq] at h1
      simp only
      have h2 := ih (arr.setIfInBounds i v') a1
      refine Sim.seq h1 h2.1 (fun _ ha1 e1 hc => ?_)
      simp only at e1 ha1 hc ⊢
      have e2 := h2.2 ha1 hc
      rw [e2, Array.toList_setIfInBounds]
      have : v' = fillC x.ctx.cfg v := by unfold fillC; rw [← e1]
      rw [this]

theorem runsA_sim (x : ACtx) (f : Nat) : ∀ (l : List Val) (a : ASt),
    Sim x (runsA x f l a) a (runs (equal x.ctx.cfg) f l) := by
  induction f with
  | zero => intro l a; unfold runsA runs; exact Sim.pure x a _
  | succ f ih =>
    intro l a
    cases l with
    | nil => unfold runsA runs; exact Sim.pure x a _
    | cons v vs =>
      unfold runsA runs
      simp only
      have h1 := hasDupLinearA_sim x (v :: vs.takeWhile (·.hdr.hc == v.hdr.hc)) a
      rcases hq : hasDupLinearA x (v :: vs.takeWhile (·.hdr.hc == v.hdr.hc)) a with ⟨r, a1⟩
      rw [hq] at h1
      simp only
      cases r <;> simp only [Bool.false_eq_true, ↓reduceIte]
      · have h2 := ih (vs.dropWhile (·.hdr.hc == v.hdr.hc)) a1
        refine Sim.seq h1 h2.1 (fun _ ha1 e1 hc => ?_)
        simp only at e1 ha1 hc ⊢
        rw [← e1, Bool.false_or]
        exact h2.2 ha1 hc
      · refine Sim.seq h1 (Fr.refl x _) (fun _ _ e1 _ => ?_)
        simp only at e1 ⊢
        rw [← e1, Bool.true_or]

theorem hasDupSortedA_sim (x : ACtx) (xs : List Val) (a : ASt) :
    Sim x (hasDupSortedA x xs a) a (hasDupSortedF x.ctx.cfg (a.rawAlloc x.orc .malloc).1.isSome xs) := by
  unfold hasDupSortedA hasDupSortedF
  have h0 := rawAlloc_fr x .malloc a
  rcases hq0 : a.rawAlloc x.orc .malloc with ⟨o, a1⟩
  rw [hq0] at h0
  have s0 : Sim x ((), a1) a () := ⟨h0, fun _ _ => rfl⟩
  cases o with
  | none =>
    simp only [Option.isSome_none, Bool.false_eq_true, ↓reduceIte]
    have h1 := hasDupLinearA_sim x xs a1
    rcases hq1 : hasDupLinearA x xs a1 with ⟨r, a2⟩
    rw [hq1] at h1
    refine Sim.seq s0 h1.1 (fun _ ha1 _ hc => ?_)
    simp only at ha1 hc ⊢
    have := h1.2 ha1 hc
    simp only at this
    rw [this, hasDupLinear_eq]
  | some i =>
    simp only [Option.isSome_some, ↓reduceIte]
    have h1 := hashAtA_sim x (x.sortTouch xs.length) xs.toArray a1
    rcases hq1 : hashAtA x (x.sortTouch xs.length) xs.toArray a1 with ⟨arr, a2⟩
    rw [hq1] at h1
    simp only
    have h2 := hashAtA_sim x (List.range xs.length) arr a2
    rcases hq2 : hashAtA x (List.range xs.length) arr a2 with ⟨arr2, a3⟩
    rw [hq2] at h2
    simp only
    have h3 := runsA_sim x (arr2.toList.length + 1) (sortByHash arr2.toList) a3
    rcases hq3 : runsA x (arr2.toList.length + 1) (sortByHash arr2.toList) a3 with ⟨r, a4⟩
    rw [hq3] at h3
    have s1 : Sim x (arr, a2) a (hashAtL x.ctx.cfg (x.sortTouch xs.length) xs).toArray :=
      Sim.seq s0 h1.1 (fun _ ha1 _ hc => by simpa using h1.2 ha1 hc)
    have s2 : Sim x (arr2, a3) a (xs.map (fillC x.ctx.cfg)).toArray :=
      Sim.seq s1 h2.1 (fun _ ha2 e1 hc => by
        have := h2.2 ha2 hc
        simp only at e1 this ⊢
        rw [this, e1]
        show (hashAtL x.ctx.cfg (List.range xs.length) (hashAtL x.ctx.cfg (x.sortTouch xs.length) xs)).toArray = _
        rw [hashAtL_all])
    have hf : Fr x a3 (a4.free i) := h3.1.trans (free_fr x i a4)
    refine Sim.seq s2 hf (fun _ ha3 e2 hc => ?_)
    simp only at ha3 e2 hc ⊢
    have e3 := h3.2 ha3 hc
    simp only at e3
    subst e2
    rw [e3, runs_sortByHash, hasDupHashed_eq]
    rfl

/-- the pure counterpart of `tableLoopA` -/
def tableLoopP (cfg : Cfg) : List Val → List Val → Bool × List Val
  | [], seen => (false, seen.reverse)
  | v :: rest, seen =>
    let v' := fillC cfg v
    if (seen.reverse.filter (·.hdr.hc == (hashOp cfg v).1)).any (fun y => equal cfg y v')
    then (true, seen.reverse ++ v' :: rest) else tableLoopP cfg rest (v' :: seen)

theorem tableLoopA_sim (x : ACtx) (xs : List Val) : ∀ (seen : List Val) (a : ASt),
    Sim x (tableLoopA x xs seen a) a (tableLoopP x.ctx.cfg xs seen) := by
  induction xs with
  | nil => intro seen a; exact Sim.pure x a _
  | cons v rest ih =>
    intro seen a
    unfold tableLoopA tableLoopP
    have h1 := hashOpA_sim x v a
    rcases hq : hashOpA x v a with ⟨⟨h, v'⟩, a1⟩
    rw [hq] at h1
    simp only
    have h2' := anyA_sim (p := fun e y => equalA x y e) (q := fun e y => equal x.ctx.cfg y e)
      (fun u w a => equalA_sim x w u a) v' (seen.reverse.filter (·.hdr.hc == h)) a1
    rcases hq2 : anyA (fun e y => equalA x y e) v' (seen.reverse.filter (·.hdr.hc == h)) a1 with ⟨r, a2⟩
    rw [hq2] at h2'
    have s2 : Sim x ((h, v', r), a2) a ((hashOp x.ctx.cfg v).1, fillC x.ctx.cfg v,
        (seen.reverse.filter (·.hdr.hc == (hashOp x.ctx.cfg v).1)).any (fun y => equal x.ctx.cfg y (fillC x.ctx.cfg v))) :=
      Sim.seq h1 h2'.1 (fun _ ha1 e1 hc => by
        have e2 := h2'.2 ha1 hc
        simp only at e1 e2 ⊢
        have ea := congrArg Prod.fst e1
        have eb := congrArg Prod.snd e1
        simp only at ea eb
        subst ea eb
        rw [e2]; rfl)
    cases r <;> simp only [Bool.false_eq_true, ↓reduceIte]
    · have h3 := ih (v' :: seen) a2
      refine Sim.seq s2 h3.1 (fun _ ha2 e hc => ?_)
      simp only [Prod.mk.injEq] at e ha2 hc ⊢
      obtain ⟨e1, e2, e3⟩ := e
      rw [h3.2 ha2 hc, ← e3, e2]
      simp
    · refine Sim.seq s2 (Fr.refl x _) (fun _ _ e _ => ?_)
      simp only [Prod.mk.injEq] at e ⊢
      obtain ⟨e1, e2, e3⟩ := e
      rw [← e3, e2]
      simp

theorem tableLoopP_spec (cfg : Cfg) (xs : List Val) : ∀ (seen : List Val),
    (tableLoopP cfg xs seen).1 = crossDup (qh (equal cfg)) seen.reverse (xs.map (fillC cfg)) ∧
    ((tableLoopP cfg xs seen).1 = false → (tableLoopP cfg xs seen).2 = seen.reverse ++ xs.map (fillC cfg)) := by
  induction xs with
  | nil => intro seen; simp [tableLoopP, crossDup]
  | cons v rest ih =>
    intro seen
    unfold tableLoopP
    simp only [List.map_cons]
    rw [crossDup, List.any_filter, hashOp_fst]
    have : (seen.reverse.any fun a => a.hdr.hc == (fillC cfg v).hdr.hc && equal cfg a (fillC cfg v)) =
        seen.reverse.any (fun z => qh (equal cfg) z (fillC cfg v)) := rfl
    rw [this]
    cases hc : seen.reverse.any (fun z => qh (equal cfg) z (fillC cfg v))
    · simp only [Bool.false_eq_true, ↓reduceIte, Bool.false_or]
      obtain ⟨i1, i2⟩ := ih (fillC cfg v :: seen)
      rw [List.reverse_cons] at i1 i2
      refine ⟨i1, fun h => ?_⟩
      rw [i2 h]; simp
    · simp

/-- what is known of the outcome `r` of the duplicate check on `xs` -/
def DupOut (x : ACtx) (xs : List Val) (r : Bool × List Val) : Prop :=
  ∃ c m, r.1 = (hasDuplicatesF x.ctx.cfg c m xs).1 ∧ (r.1 = false → r.2 = (hasDuplicatesF x.ctx.cfg c m xs).2) ∧
    (NoFault x → c = true ∧ m = true)

/-- the two strategies that use scratch memory, under an allocation outcome -/
def tableF (cfg : Cfg) (c m : Bool) (xs : List Val) : Bool × List Val :=
  if c then (hasDupHashed cfg (xs.map fun v => (hashOp cfg v).2), xs.map fun v => (hashOp cfg v).2)
  else hasDupSortedF cfg m xs

theorem hasDupSortedA_out (x : ACtx) (xs : List Val) (a : ASt) :
    SimP x (hasDupSortedA x xs a) a (fun r => ∃ m, r = hasDupSortedF x.ctx.cfg m xs ∧ (NoFault x → m = true)) := by
  have h := hasDupSortedA_sim x xs a
  exact ⟨h.1, fun ha hc => ⟨_, h.2 ha hc, fun hx => rawAlloc_nofault x hx .malloc a (by decide)⟩⟩

theorem hasDupTableA_out (x : ACtx) (xs : List Val) (a : ASt) :
    SimP x (hasDupTableA x xs a) a (fun r => ∃ c m, r.1 = (tableF x.ctx.cfg c m xs).1 ∧
      (r.1 = false → r.2 = (tableF x.ctx.cfg c m xs).2) ∧ (NoFault x → c = true ∧ m = true)) := by
  unfold hasDupTableA
  have h0 := rawAlloc_fr x .calloc a
  have hn := fun hx => rawAlloc_nofault x hx .calloc a (by decide)
  rcases hq0 : a.rawAlloc x.orc .calloc with ⟨o, a1⟩
  rw [hq0] at h0 hn
  cases o with
  | none =>
    simp only
    have h1 := hasDupSortedA_out x xs a1
    refine ⟨h0.trans h1.1, fun ha hc => ?_⟩
    obtain ⟨c1, c2⟩ := Fr.squeeze h0 h1.1 hc
    obtain ⟨m, e, hm⟩ := h1.2 (h0.arena.trans ha) c2
    refine ⟨false, m, ?_, fun _ => ?_, fun hx => ?_⟩
    · rw [e]; rfl
    · rw [e]; rfl
    · exact absurd (hn hx) (by simp)
  | some i =>
    simp only
    have h1 := tableLoopA_sim x xs [] a1
    rcases hq1 : tableLoopA x xs [] a1 with ⟨r, a2⟩
    rw [hq1] at h1
    simp only
    have hf : Fr x a (a2.free i) := h0.trans (h1.1.trans (free_fr x i a2))
    refine ⟨hf, fun ha hc => ?_⟩
    obtain ⟨c1, c2⟩ := Fr.squeeze h0 (h1.1.trans (free_fr x i a2)) hc
    have e := h1.2 (h0.arena.trans ha) c2
    simp only at e
    obtain ⟨p1, p2⟩ := tableLoopP_spec x.ctx.cfg xs []
    rw [← e] at p1 p2
    simp only [List.reverse_nil, List.nil_append] at p1 p2
    refine ⟨true, true, ?_, fun h => ?_, fun _ => ⟨rfl, rfl⟩⟩
    · rw [p1, ← dupPairs_eq_crossDup, ← hasDupHashed_eq]; rfl
    · rw [p2 h]; rfl

theorem hasDuplicatesA_out (x : ACtx) (xs : List Val) (a : ASt) :
    SimP x (hasDuplicatesA x xs a) a (DupOut x xs) := by
  unfold hasDuplicatesA DupOut hasDuplicatesF
  by_cases h1 : xs.length ≤ 1
  · simp only [if_pos h1]
    exact ⟨Fr.refl x a, fun _ _ => ⟨true, true, rfl, fun _ => rfl, fun _ => ⟨rfl, rfl⟩⟩⟩
  · simp only [if_neg h1]
    by_cases h2 : xs.length ≤ Generated.Tables.linearThreshold
    · simp only [if_pos h2]
      have hl := hasDupLinearA_sim x xs a
      rcases hq : hasDupLinearA x xs a with ⟨r, a1⟩
      rw [hq] at hl
      refine ⟨hl.1, fun ha hc => ⟨true, true, ?_, fun _ => rfl, fun _ => ⟨rfl, rfl⟩⟩⟩
      have := hl.2 ha hc
      simp only at this ⊢
      rw [this, hasDupLinear_eq]
    · simp only [if_neg h2]
      by_cases h3 : xs.length ≤ Generated.Tables.sortedThreshold
      · simp only [if_pos h3]
        have hs := hasDupSortedA_out x xs a
        refine ⟨hs.1, fun ha hc => ?_⟩
        obtain ⟨m, e, hm⟩ := hs.2 ha hc
        exact ⟨true, m, by rw [e], fun _ => by rw [e], fun hx => ⟨rfl, hm hx⟩⟩
      · simp only [if_neg h3]
        have ht := hasDupTableA_out x xs a
        refine ⟨ht.1, fun ha hc => ?_⟩
        obtain ⟨c, m, e1, e2, e3⟩ := ht.2 ha hc
        refine ⟨c, m, ?_, fun h => ?_, e3⟩
        · rw [e1]; unfold tableF; cases c <;> rfl
        · rw [e2 h]; unfold tableF; cases c <;> rfl

/-- refinement of the duplicate check: with an oracle that fails nothing and a live arena the
    verdict is the one of `hasDuplicates`, the elements are its elements when there is no
    duplicate, and the arena is still alive -/
theorem hasDuplicatesA_nofault (x : ACtx) (hx : NoFault x) (xs : List Val) (a : ASt) (ha : a.arena = .alive) :
    (hasDuplicatesA x xs a).1.1 = (hasDuplicates x.ctx.cfg xs).1 ∧
    ((hasDuplicatesA x xs a).1.1 = false → (hasDuplicatesA x xs a).1.2 = (hasDuplicates x.ctx.cfg xs).2) ∧
    (hasDuplicatesA x xs a).2.arena = .alive ∧
    (hasDuplicatesA x xs a).2.failedArena = a.failedArena := by
  have h := hasDuplicatesA_out x xs a
  obtain ⟨c, m, e1, e2, e3⟩ := h.2 ha (h.1.quiet hx)
  obtain ⟨rfl, rfl⟩ := e3 hx
  rw [hasDuplicatesF_nofault] at e1 e2
  exact ⟨e1, e2, h.1.arena.trans ha, h.1.quiet hx⟩

end Edn.Proofs.AllocSim
