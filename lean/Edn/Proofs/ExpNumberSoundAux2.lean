/-
  Edn.Proofs.ExpNumberSoundAux2 — the number reader with the experimental flag only: completeness
  of the body of `edn_read_number` (after the sign) on each class of `ExpNum` token.
-/
import Edn.Spec.ExpNumLit
import Edn.Proofs.NumberReader
import Edn.Proofs.CljNumberSoundAux5
import Edn.Proofs.ExpNumberSoundAux1

namespace Edn.Proofs.ExpN
open Edn.Model Edn.Spec Edn.Proofs Edn.Proofs.CNum Edn.Proofs.CljN

/-- a decimal mantissa leads to `decimalTail` at its end -/
theorem decimal_fwd (s0 : Bytes) (neg : Bool) (ip fr ex T : Bytes) (hm : ExpMantissa ip fr ex)
    (hT : stopProps (peek T) = true) :
    numBody expCfg s0 neg (ip ++ (fr ++ (ex ++ T))) =
      decimalTail expCfg s0 neg (!fr.isEmpty) (!ex.isEmpty) (ip ++ (fr ++ (ex ++ T))) T := by
  have hrad := radixPart_noclj expCfg rfl neg (ip ++ (fr ++ (ex ++ T)))
  obtain ⟨hstopA, -⟩ := peekX_facts hm.hfr hm.hex hT
  have hsA := NRd.stopA_unpack hstopA
  have hsep : ex ≠ [] → NoTrailU (ip ++ fr) :=
    fun hne => noTrailU_append_of (expInt_noTrail hm.hip) (hm.hsep hne)
  rcases hm.hip with rfl | hn
  · have hpk : (peek ([0x30] ++ (fr ++ (ex ++ T))) == 0x30) = true := rfl
    rw [numBody_stages, hrad]
    simp only [hpk, ↓reduceIte]
    have e : [0x30] ++ (fr ++ (ex ++ T)) = 0x30 :: (fr ++ (ex ++ T)) := rfl
    rw [e, zeroPart_noclj expCfg rfl, zeroRest_noclj expCfg rfl]
    simp only [hsA.1, Bool.false_eq_true, ↓reduceIte]
    exact afterIp_fwd expCfg s0 neg [0x30] fr ex T hm.hfr hm.hex hsep hT
  · rw [numBody_nz expCfg s0 neg ip _ hn hrad hsA.1 hsA.2.1]
    exact afterIp_fwd expCfg s0 neg ip fr ex T hm.hfr hm.hex hsep hT

theorem mantissa_int {ip : Bytes} (hip : ExpInt ip) : ExpMantissa ip [] [] :=
  ⟨hip, Or.inl rfl, Or.inl rfl, fun h => absurd rfl h⟩

theorem body_dec (s0 : Bytes) (neg : Bool) (ip rest : Bytes) (hip : ExpInt ip) (ht : TermStart rest) :
    numBody expCfg s0 neg (ip ++ rest) = .ok (intPayload neg 10 ip) rest := by
  have hst := term_props (peek_term ht)
  have h2 := stopProps2_unpack hst
  have := decimal_fwd s0 neg ip [] [] rest (mantissa_int hip) h2.1
  simp only [List.nil_append, List.isEmpty_nil, Bool.not_true] at this
  rw [this, decimalTail_int expCfg s0 neg ip rest hst, finishNum_term _ ht,
    intOrBig_run expCfg 10 (by omega) ip neg (expInt_digRun hip)]

theorem body_decN (s0 : Bytes) (neg : Bool) (ip rest : Bytes) (hip : ExpInt ip) (ht : TermStart rest) :
    numBody expCfg s0 neg (ip ++ 0x4E :: rest) = .ok (.bigint neg 10 ip) rest := by
  have hN : stopProps (peek (0x4E :: rest)) = true := by
    show stopProps 0x4E = true
    decide
  have := decimal_fwd s0 neg ip [] [] (0x4E :: rest) (mantissa_int hip) hN
  simp only [List.nil_append, List.isEmpty_nil, Bool.not_true] at this
  rw [this, decimalTail_N expCfg s0 neg ip rest (expInt_noTrail hip), finishNum_term _ ht]

theorem body_float (s0 : Bytes) (neg : Bool) (ip fr ex rest : Bytes) (hm : ExpMantissa ip fr ex)
    (hne : fr ≠ [] ∨ ex ≠ []) (ht : TermStart rest) :
    numBody expCfg s0 neg (ip ++ (fr ++ (ex ++ rest))) =
      .ok (.float (parseDouble expCfg (slice s0 rest))) rest := by
  have hst := term_props (peek_term ht)
  have h2 := stopProps2_unpack hst
  have hb : (!fr.isEmpty || !ex.isEmpty) = true := by
    rcases hne with h | h
    · cases fr with
      | nil => exact absurd rfl h
      | cons _ _ => rfl
    · cases ex with
      | nil => exact absurd rfl h
      | cons _ _ => simp
  rw [decimal_fwd s0 neg ip fr ex rest hm h2.1,
    NRd.decimalTail_float expCfg s0 neg _ _ _ rest hst hb, finishNum_term _ ht]

theorem body_decM (s0 : Bytes) (neg : Bool) (ip fr ex rest : Bytes) (hm : ExpMantissa ip fr ex)
    (hu : NoTrailU (ip ++ fr ++ ex)) (ht : TermStart rest) :
    numBody expCfg s0 neg (ip ++ (fr ++ (ex ++ 0x4D :: rest))) = .ok (.bigdec neg (ip ++ fr ++ ex)) rest := by
  have hM : stopProps (peek (0x4D :: rest)) = true := by
    show stopProps 0x4D = true
    decide
  have e : ip ++ (fr ++ (ex ++ 0x4D :: rest)) = (ip ++ fr ++ ex) ++ 0x4D :: rest := by simp
  rw [decimal_fwd s0 neg ip fr ex _ hm hM, e, decimalTail_M' expCfg s0 neg _ _ _ rest hu,
    finishNum_term _ ht]

end Edn.Proofs.ExpN
