/-
  Edn.Proofs.AllocBoundQ2 — what a look costs, whatever the literals: equality of `u` and `w` makes
  at most `2 * (sz u * sz w)` requests (two per pair of leaves compared), hashing `v` at most `sz v`
  (one per leaf).
-/
import Edn.Proofs.AllocBoundQ1

namespace Edn.Proofs.AllocBoundQ
open Edn.Model Edn.Proofs.AllocBasic Edn.Proofs.AllocBound

theorem StpQ.mono2 {A B A' B' : Nat} {a a' : ASt} (h : StpQ (2 * (A * B)) a a') (hA : A ≤ A') (hB : B ≤ B') :
    StpQ (2 * (A' * B')) a a' :=
  h.mono (Nat.mul_le_mul_left _ (Nat.mul_le_mul hA hB))

/-- a comparison that costs two requests per pair of nodes at most -/
abbrev CostCmp (p : Val → Val → ASt → Bool × ASt) : Prop :=
  ∀ u w a, a.arena = .alive → StpQ (2 * (sz u * sz w)) a (p u w a).2

theorem anyA_q (p : Val → Val → ASt → Bool × ASt) (hp : CostCmp p) (v : Val) (ys : List Val) (a : ASt)
    (ha : a.arena = .alive) : StpQ (2 * (sz v * szL ys)) a (anyA p v ys a).2 := by
  induction ys generalizing a with
  | nil => exact StpQ.zero ha
  | cons y ys ih =>
    unfold anyA
    have h1 := hp v y a ha
    rcases hq : p v y a with ⟨r, a1⟩
    rw [hq] at h1
    cases r
    · exact (h1.trans (ih a1 h1.1)).mono (by simp only [szL]; grind)
    · exact h1.mono (by simp only [szL]; grind)

theorem allZipA_q (p : Val → Val → ASt → Bool × ASt) (hp : CostCmp p) (xs ys : List Val) (a : ASt)
    (ha : a.arena = .alive) : StpQ (2 * (szL xs * szL ys)) a (allZipA p xs ys a).2 := by
  induction xs generalizing ys a with
  | nil => cases ys <;> exact StpQ.zero ha
  | cons v vs ih =>
    cases ys with
    | nil => exact StpQ.zero ha
    | cons y ys =>
      unfold allZipA
      have h1 := hp v y a ha
      rcases hq : p v y a with ⟨r, a1⟩
      rw [hq] at h1
      cases r
      · exact h1.mono (by simp only [szL]; grind)
      · exact (h1.trans (ih ys a1 h1.1)).mono (by simp only [szL]; grind)

theorem allAnyA_q (p : Val → Val → ASt → Bool × ASt) (hp : CostCmp p) (xs ys : List Val) (a : ASt)
    (ha : a.arena = .alive) : StpQ (2 * (szL xs * szL ys)) a (allAnyA p xs ys a).2 := by
  induction xs generalizing a with
  | nil => exact StpQ.zero ha
  | cons v vs ih =>
    unfold allAnyA
    have h1 := anyA_q p hp v ys a ha
    rcases hq : anyA p v ys a with ⟨r, a1⟩
    rw [hq] at h1
    cases r
    · exact h1.mono (by simp only [szL]; grind)
    · exact (h1.trans (ih a1 h1.1)).mono (by simp only [szL]; grind)

theorem mapEntryA_q (p : Val → Val → ASt → Bool × ASt) (hp : CostCmp p) (k v : Val) (ks vs : List Val) (a : ASt)
    (ha : a.arena = .alive) : StpQ (2 * ((sz k + sz v) * (szL ks + szL vs))) a (mapEntryA p k v ks vs a).2 := by
  induction ks generalizing vs a with
  | nil => cases vs <;> exact StpQ.zero ha
  | cons k' ks ih =>
    cases vs with
    | nil => exact StpQ.zero ha
    | cons v' vs =>
      unfold mapEntryA
      have h1 := hp k k' a ha
      rcases hq : p k k' a with ⟨r, a1⟩
      rw [hq] at h1
      cases r
      · exact (h1.trans (ih vs a1 h1.1)).mono (by simp only [szL]; grind)
      · exact (h1.trans (hp v v' a1 h1.1)).mono (by simp only [szL]; grind)

theorem mapAllA_q (p : Val → Val → ASt → Bool × ASt) (hp : CostCmp p) (ks' vs' ks vs : List Val) (a : ASt)
    (ha : a.arena = .alive) :
    StpQ (2 * ((szL ks + szL vs) * (szL ks' + szL vs'))) a (mapAllA p ks' vs' ks vs a).2 := by
  induction ks generalizing vs a with
  | nil => cases vs <;> exact StpQ.zero ha
  | cons k ks ih =>
    cases vs with
    | nil => exact StpQ.zero ha
    | cons v vs =>
      unfold mapAllA
      have h1 := mapEntryA_q p hp k v ks' vs' a ha
      rcases hq : mapEntryA p k v ks' vs' a with ⟨r, a1⟩
      rw [hq] at h1
      cases r
      · exact h1.mono (by simp only [szL]; grind)
      · exact (h1.trans (ih vs a1 h1.1)).mono (by simp only [szL]; grind)

section
variable {x : ACtx} (horc : ∀ n, x.orc n = false)
include horc

theorem digitsEqA_q (h h' : Hdr) (d d' : Bytes) (a : ASt) (ha : a.arena = .alive) :
    StpQ 2 a (digitsEqA x h d h' d' a).2 := by
  unfold digitsEqA
  have h1 := cleanQ horc h d a ha
  rcases hq : cleanA x h d a with ⟨da, a1⟩
  rw [hq] at h1
  dsimp only
  have h2 := cleanQ horc h' d' a1 h1.1
  rcases hq2 : cleanA x h' d' a1 with ⟨db, a2⟩
  rw [hq2] at h2
  exact h1.trans h2

theorem strEqA_q (h h' : Hdr) (d d' : Bytes) (e e' : Bool) (a : ASt) (ha : a.arena = .alive) :
    StpQ 2 a (strEqA x h d e h' d' e' a).2 := by
  unfold strEqA
  have h1 := strContentQ horc h d e a ha
  rcases hq : strContentA x h d e a with ⟨ca, a1⟩
  rw [hq] at h1
  dsimp only
  have h2 := strContentQ horc h' d' e' a1 h1.1
  rcases hq2 : strContentA x h' d' e' a1 with ⟨cb, a2⟩
  rw [hq2] at h2
  exact h1.trans h2

theorem equalFA_q (f : Nat) : CostCmp (equalFA x f) := by
  induction f with
  | zero => intro va vb a ha; exact StpQ.zero ha
  | succ f ih =>
    intro va vb a ha
    unfold equalFA
    split
    · exact StpQ.zero ha
    · split
      · exact StpQ.zero ha
      · split
        all_goals first
          | exact StpQ.zero ha
          | (repeat' split
             all_goals first
               | exact StpQ.zero ha
               | exact (digitsEqA_q horc _ _ _ _ a ha).mono (by simp only [sz]; omega)
               | exact (strEqA_q horc _ _ _ _ _ _ a ha).mono (by simp only [sz]; omega)
               | exact (allZipA_q _ ih _ _ a ha).mono2 (by simp only [sz]; omega) (by simp only [sz]; omega)
               | exact (allAnyA_q _ ih _ _ a ha).mono2 (by simp only [sz]; omega) (by simp only [sz]; omega)
               | exact (mapAllA_q _ ih _ _ _ _ a ha).mono2 (by simp only [sz]; omega) (by simp only [sz]; omega)
               | exact (ih _ _ a ha).mono2 (by simp only [sz]; omega) (by simp only [sz]; omega))

/-- `edn_value_equal`: two requests per pair of nodes at most -/
theorem equalA_q : CostCmp (equalA x) := equalFA_q horc _

theorem equalA_flip_q : CostCmp (fun e y => equalA x y e) :=
  fun u w a ha => (equalA_q horc w u a ha).mono (by rw [Nat.mul_comm (sz w)]; exact Nat.le_refl _)

theorem hash_q :
    (∀ v a, a.arena = .alive → StpQ (sz v) a (hashVA x v a).2) ∧
    (∀ ks vs a, a.arena = .alive → StpQ (szL ks + szL vs) a (hashPairsA x ks vs a).2) ∧
    (∀ xs a, a.arena = .alive → StpQ (szL xs) a (hashListA x xs a).2) := by
  apply hashVA.mutual_induct x
    (fun v a => a.arena = .alive → StpQ (sz v) a (hashVA x v a).2)
    (fun ks vs a => a.arena = .alive → StpQ (szL ks + szL vs) a (hashPairsA x ks vs a).2)
    (fun xs a => a.arena = .alive → StpQ (szL xs) a (hashListA x xs a).2)
  case case1 =>
    intro h neg radix d a dd a1 e ha; unfold hashVA; rw [e]
    have := cleanQ horc h d a ha; rw [e] at this; exact this
  case case2 =>
    intro h neg t a dd a1 e ha; unfold hashVA; rw [e]
    have := cleanQ horc h t a ha; rw [e] at this; exact this
  case case3 =>
    intro h data esc a c a1 e ha; unfold hashVA; rw [e]
    have := strContentQ horc h data esc a ha; rw [e] at this; exact this
  case case4 =>
    intro h md xs a hs a1 e ih ha; unfold hashVA; rw [e]; rw [e] at ih
    exact (ih ha).mono (by simp only [sz]; omega)
  case case5 =>
    intro h md xs a hs a1 e ih ha; unfold hashVA; rw [e]; rw [e] at ih
    exact (ih ha).mono (by simp only [sz]; omega)
  case case6 =>
    intro h md xs a hs a1 e ih ha; unfold hashVA; rw [e]; rw [e] at ih
    exact (ih ha).mono (by simp only [sz]; omega)
  case case7 =>
    intro h md ks vs a hs a1 e ih ha; unfold hashVA; rw [e]; rw [e] at ih
    exact (ih ha).mono (by simp only [sz]; omega)
  case case8 =>
    intro h md tag v a hv a1 e ih ha; unfold hashVA; rw [e]; rw [e] at ih
    exact (ih ha).mono (by simp only [sz]; omega)
  case case19 =>
    intro k ks v vs a hv a1 e1 hv2 a2 e2 hs a3 e3 ih1 ih2 ih3 ha
    unfold hashPairsA; rw [e1]; dsimp only; rw [e2]; dsimp only; rw [e3]
    rw [e1] at ih1; rw [e2] at ih2; rw [e3] at ih3
    have s1 := ih1 ha
    have s2 := ih2 s1.1
    have s3 := ih3 s2.1
    exact ((s1.trans s2).trans s3).mono (by simp only [szL]; omega)
  case case20 =>
    intro ks vs a hne ha
    unfold hashPairsA
    split
    · next k ks' v vs' => exact (hne k ks' v vs' rfl rfl).elim
    · exact StpQ.zero ha
  case case21 => intro a ha; unfold hashListA; exact StpQ.zero ha
  case case22 =>
    intro v vs a hv a1 e1 hs a2 e2 ih1 ih2 ha
    unfold hashListA; rw [e1]; dsimp only; rw [e2]
    rw [e1] at ih1; rw [e2] at ih2
    have s1 := ih1 ha
    exact (s1.trans (ih2 s1.1)).mono (by simp only [szL]; omega)
  all_goals (intros; unfold hashVA; exact StpQ.zero (by assumption))

/-- `edn_value_hash`: one request per node at most; the value with its cache filled has the same size -/
theorem hashOpA_q (v : Val) (a : ASt) (ha : a.arena = .alive) :
    StpQ (sz v) a (hashOpA x v a).2 ∧ sz (hashOpA x v a).1.2 = sz v := by
  unfold hashOpA
  dsimp only
  split
  · exact ⟨StpQ.zero ha, rfl⟩
  · have h := (hash_q horc).1 v a ha
    rcases hq : hashVA x v a with ⟨hv, a1⟩
    rw [hq] at h
    exact ⟨h, sz_setHdr _ _⟩

end

end Edn.Proofs.AllocBoundQ
