/-
  Edn.Proofs.SoundAux6 — the converse direction, token level: every token of the liberal grammar
  (`Edn.Spec.Grammar`) is read as what it denotes, whatever follows it within the grammar's
  follower condition (no separator needed).
-/
import Edn.Proofs.SoundAux3
import Edn.Proofs.Complete

namespace Edn.Proofs.Snd
open Edn.Model Edn.Spec Edn.Generated Edn.Proofs

/-- "the reader reads `tok`, followed by `rest`, as a value with content `a`" — the liberal
    counterpart of `Edn.Spec.Reads` (core configuration; the follower is fixed) -/
def ReadsL (opts : Opts) (d : Nat) (a : Val) (tok rest : Bytes) : Prop :=
  ∀ (dm : Bool) (cl : List Call) (f : Nat), 2 * (tok.length + rest.length) + 2 ≤ f →
    ∃ v, readValue { cfg := Cfg.core, opts := opts } f d dm { rest := tok ++ rest, calls := cl }
          = .ok v { rest := rest, calls := cl } ∧ strip v = a

theorem ReadsL.of_reads {opts : Opts} {d : Nat} {a : Val} {tok rest : Bytes}
    (h : Reads Cfg.core opts d a tok) (ht : TermStart rest) : ReadsL opts d a tok rest :=
  fun dm cl f hf => h dm rest cl f ht hf

/-- the value can be chosen independently of the fuel -/
theorem ReadsL.uniform {opts : Opts} {d : Nat} {a : Val} {tok rest : Bytes} (h : ReadsL opts d a tok rest)
    (dm : Bool) (cl : List Call) :
    ∃ v, strip v = a ∧ ∀ f, 2 * (tok ++ rest).length + 2 ≤ f →
      readValue { cfg := Cfg.core, opts := opts } f d dm { rest := tok ++ rest, calls := cl } = .ok v { rest := rest, calls := cl } := by
  obtain ⟨v, hv, hs⟩ := h dm cl (2 * (tok.length + rest.length) + 2) (Nat.le_refl _)
  refine ⟨v, hs, ?_⟩
  intro f hf
  rw [← hv]
  apply readValue_fuel_irrelevant
  · exact hf
  · show 2 * (tok ++ rest).length + 2 ≤ _
    rw [List.length_append]
    exact Nat.le_refl _

/-! ### what a delimiter start excludes -/

def delimFacts (c : UInt8) : Bool :=
  !isDelim c || (!is09 c && !(hexDigit? c).isSome && c != 0x65 && c != 0x70 && c != 0x61)

theorem delimFacts_all : ∀ c, delimFacts c = true := forall_u8_bool _ (by decide +kernel)

theorem delim_props {c : UInt8} (h : isDelim c = true) :
    is09 c = false ∧ (hexDigit? c).isSome = false ∧ c ≠ 0x65 ∧ c ≠ 0x70 ∧ c ≠ 0x61 := by
  have := delimFacts_all c
  simp only [delimFacts, h, Bool.not_true, Bool.false_or, Bool.and_eq_true, Bool.not_eq_true', bne_iff_ne, ne_eq] at this
  exact ⟨this.1.1.1.1, this.1.1.1.2, this.1.1.2, this.1.2, this.2⟩

theorem dstart_delim {rest : Bytes} (h : DelimStart rest) : (!rest.isEmpty && !isDelim (peek rest)) = false := by
  rcases h with rfl | ⟨c, t, rfl, hc⟩
  · rfl
  · simp [peek, hc]

theorem dstart_hex {rest : Bytes} (h : DelimStart rest) :
    (!rest.isEmpty && (hexDigit? (peek rest)).isSome) = false := by
  rcases h with rfl | ⟨c, t, rfl, hc⟩
  · rfl
  · simp [peek, (delim_props hc).2.1]

theorem dstart_not_prefix {rest : Bytes} (h : DelimStart rest) (b : UInt8) (l : Bytes) (hb : isDelim b = false) :
    (b :: l).isPrefixOf rest = false := by
  rcases h with rfl | ⟨c, t, rfl, hc⟩
  · rfl
  · have : (b == c) = false := by
      cases hq : (b == c)
      · rfl
      · have : b = c := by simpa using hq
        rw [this, hc] at hb; cases hb
    rw [List.isPrefixOf_cons_cons, this, Bool.false_and]

/-! ### strings -/

theorem rawStr_findQuoteScalar {sp : Bytes} (h : RawStr sp) (rest : Bytes) :
    ∀ bs, findQuoteScalar bs (sp ++ 0x22 :: rest) = some (0x22 :: rest, bs || sp.contains 0x5C) := by
  induction h with
  | nil =>
    intro bs
    rw [List.nil_append, findQuoteScalar_cons]
    simp
  | plain b t h1 h2 _ ih =>
    intro bs
    rw [List.cons_append, findQuoteScalar_cons]
    have e1 : (b == 0x5C) = false := by simpa using h2
    have e2 : (b == 0x22) = false := by simpa using h1
    simp only [e1, e2, Bool.false_eq_true, if_false]
    rw [ih bs]
    have : ¬ (0x5C : UInt8) = b := fun h => h2 h.symm
    simp [this]
  | esc b t _ ih =>
    intro bs
    rw [List.cons_append, findQuoteScalar_cons]
    simp only [BEq.rfl, if_true, List.cons_append]
    rw [ih true]
    simp

theorem readsL_str (opts : Opts) (d : Nat) (sp rest : Bytes) (h : RawStr sp) :
    ReadsL opts d (.str hdr0 sp (sp.contains 0x5C)) (0x22 :: (sp ++ [0x22])) rest := by
  intro dm cl f hf
  obtain ⟨f', rfl⟩ : ∃ f', f = f' + 1 := ⟨f - 1, by omega⟩
  have hs : (0x22 :: (sp ++ [0x22])) ++ rest = 0x22 :: (sp ++ 0x22 :: rest) := by simp
  rw [hs, readValue_quote]
  unfold readString
  have hexp : (Cfg.core.exp && startsWith (0x22 :: (sp ++ 0x22 :: rest)) [0x22, 0x22, 0x22, 0x0A]) = false := rfl
  simp only [hexp, Bool.false_eq_true, if_false, List.tail_cons, findQuote_eq, rawStr_findQuoteScalar h rest false,
    Bool.false_or, slice_append_left]
  exact ⟨_, rfl, rfl⟩

/-! ### characters -/

theorem charTok_append_isEmpty (body rest : Bytes) (cp : Nat) (h : CharTok body cp) :
    (body ++ rest).isEmpty = false := by
  cases h with
  | newline => show (strBytes "newline" ++ rest).isEmpty = false; rw [strBytes_newline]; rfl
  | ret => show (strBytes "return" ++ rest).isEmpty = false; rw [strBytes_return]; rfl
  | space => show (strBytes "space" ++ rest).isEmpty = false; rw [strBytes_space]; rfl
  | tab => show (strBytes "tab" ++ rest).isEmpty = false; rw [strBytes_tab]; rfl
  | unicode a b c d cp hx => rfl
  | single c hc => rfl

theorem charTok_ok (opts : Opts) (body rest : Bytes) (cp : Nat) (h : CharTok body cp) (hr : DelimStart rest) :
    charBody { cfg := Cfg.core, opts := opts } (body ++ rest) = .ok (cp, rest) := by
  cases h with
  | newline =>
    show charBody _ (strBytes "newline" ++ rest) = _
    simp [charBody, charNamed, strBytes_newline, len_newline, startsWith]
  | ret =>
    show charBody _ (strBytes "return" ++ rest) = _
    simp [charBody, charNamed, strBytes_newline, strBytes_return, len_return, startsWith]
  | space =>
    show charBody _ (strBytes "space" ++ rest) = _
    simp [charBody, charNamed, strBytes_newline, strBytes_return, strBytes_space, len_space, startsWith]
  | tab =>
    show charBody _ (strBytes "tab" ++ rest) = _
    simp [charBody, charNamed, strBytes_newline, strBytes_return, strBytes_space, strBytes_tab, len_tab,
      startsWith]
  | unicode a b c d cp hx =>
    obtain ⟨w, x, y, z, hw, _, _, _, _, _⟩ := hex4?_cons_some hx
    have hx' := hex4?_append hx rest
    have hclj : Cfg.core.clj = false := rfl
    have hexp : Cfg.core.exp = false := rfl
    simp [charBody, charNamed, strBytes_newline, strBytes_return, strBytes_space, strBytes_tab,
      startsWith, peek, hw, hx', hclj, hexp]
  | single c hc =>
    have e1 := dstart_not_prefix hr 0x65 [0x77, 0x6C, 0x69, 0x6E, 0x65] (by decide +kernel)
    have e2 := dstart_not_prefix hr 0x65 [0x74, 0x75, 0x72, 0x6E] (by decide +kernel)
    have e3 := dstart_not_prefix hr 0x70 [0x61, 0x63, 0x65] (by decide +kernel)
    have e4 := dstart_not_prefix hr 0x61 [0x62] (by decide +kernel)
    have hh := dstart_hex hr
    have hclj : Cfg.core.clj = false := rfl
    simp only [Bool.and_eq_false_iff, Bool.not_eq_false'] at hh
    simp only [charBody, charNamed, strBytes_newline, strBytes_return, strBytes_space, strBytes_tab,
      startsWith, List.cons_append, List.nil_append,
      List.isPrefixOf_cons_cons, e1, e2, e3, e4, Bool.and_false, Bool.false_eq_true, if_false,
      peek_cons, List.tail_cons, hc, Bool.not_true, hclj, Bool.false_and]
    rcases hh with hh | hh <;> simp [hh]

theorem readsL_char (opts : Opts) (d : Nat) (body rest : Bytes) (cp : Nat) (h : CharTok body cp) (hcp : cp ≤ 0x10FFFF)
    (hr : DelimStart rest) : ReadsL opts d (.char hdr0 cp) (0x5C :: body) rest := by
  intro dm cl f hf
  obtain ⟨f', rfl⟩ : ∃ f', f = f' + 1 := ⟨f - 1, by omega⟩
  have hb := charTok_append_isEmpty body rest cp h
  rw [List.cons_append, readValue_backslash, readCharacter_eq]
  simp only [List.tail_cons, hb, Bool.false_eq_true, if_false, charTok_ok opts body rest cp h hr,
    show ¬ cp > 0x10FFFF from by omega, dstart_delim hr]
  exact ⟨_, rfl, rfl⟩

/-! ### symbolic floats -/

theorem readValue_hashhash (ctx : Ctx) (f d : Nat) (dm : Bool) (t : Bytes) (cl : List Call) :
    readValue ctx (f + 1) d dm { rest := 0x23 :: 0x23 :: t, calls := cl }
      = readSymbolic ctx { rest := 0x23 :: 0x23 :: t, calls := cl } := by
  rw [readValue_succ]
  have hp : isPreWs 0x23 = false := by decide +kernel
  simp only [rvOuter, hp, Bool.false_eq_true, if_false, rvStep, Cmpl.dispatch_hash, BEq.rfl, if_true]

theorem strBytes_Inf : strBytes "Inf" = [0x49, 0x6E, 0x66] := by decide +kernel
theorem strBytes_negInf : strBytes "-Inf" = [0x2D, 0x49, 0x6E, 0x66] := by decide +kernel
theorem strBytes_NaN : strBytes "NaN" = [0x4E, 0x61, 0x4E] := by decide +kernel

theorem readsL_symbolic (opts : Opts) (d : Nat) (tok rest : Bytes) (bits : UInt64) (h : SymbolicTok tok bits) :
    ReadsL opts d (.float hdr0 bits) tok rest := by
  intro dm cl f hf
  obtain ⟨f', rfl⟩ : ∃ f', f = f' + 1 := ⟨f - 1, by omega⟩
  cases h with
  | inf =>
    rw [symInf_bytes, List.cons_append, List.cons_append, readValue_hashhash]
    refine ⟨.float (mkHdr (rest.length + 5) rest.length) infBits, ?_, rfl⟩
    unfold readSymbolic
    simp [startsWith, strBytes_Inf, Ctx.pos, mkHdr]
  | negInf =>
    rw [symNegInf_bytes, List.cons_append, List.cons_append, readValue_hashhash]
    refine ⟨.float (mkHdr (rest.length + 6) rest.length) negInfBits, ?_, rfl⟩
    unfold readSymbolic
    simp [startsWith, strBytes_Inf, strBytes_negInf, Ctx.pos, mkHdr]
  | nan =>
    rw [symNaN_bytes, List.cons_append, List.cons_append, readValue_hashhash]
    refine ⟨.float (mkHdr (rest.length + 5) rest.length) nanBits, ?_, rfl⟩
    unfold readSymbolic
    simp [startsWith, strBytes_Inf, strBytes_negInf, strBytes_NaN, Ctx.pos, mkHdr]

end Edn.Proofs.Snd
