/-
  Edn.Proofs.AllocLedgerSound2 — the accounting half of the trace checker: every block a granted
  `malloc` / `calloc` / `realloc` of the trace has returned is, at any moment, either in the
  checker's list of live blocks or gone (freed, or taken away by a granted `realloc`).  Hence
  `all_released`: when the checker ends with an empty list, every such block of the trace has been
  released — nothing is leaked.
-/
import Edn.Proofs.AllocLedgerSound

namespace Edn.Proofs.AllocLedger
open Edn.Model

/-- the raw request kinds other than the two `malloc`s of `edn_arena_create` -/
def plainKind (k : ReqKind) : Prop := k = .malloc ∨ k = .calloc ∨ k = .realloc

/-- the accounts of the checker after it has read `t` -/
structure AInv (t : List Ev) (L : Led) : Prop where
  /-- request indices seen so far -/
  ids : ∀ k id f o, Ev.req k id f o ∈ t → id ≤ L.last
  /-- the pending arena record is a block of `edn_arena_create` -/
  pend : ∀ p, L.pend = some p → p ≤ L.last ∧ ∀ k f o, plainKind k → Ev.req k p f o ∉ t
  /-- every block handed out is live or gone -/
  acct : ∀ k i o, plainKind k → Ev.req k i false o ∈ t → i ∈ L.live ∨ Gone i t

theorem Gone.snoc {i : Nat} {t : List Ev} (h : Gone i t) (e : Ev) : Gone i (t ++ [e]) := by
  rcases h with h | ⟨n, h⟩
  · exact Or.inl (List.mem_append_left _ h)
  · exact Or.inr ⟨n, List.mem_append_left _ h⟩

/-- the common part of all steps -/
theorem AInv.snoc {t : List Ev} {L L' : Led} {e : Ev} (h : AInv t L) (hlast : L.last ≤ L'.last)
    (hlive : ∀ i ∈ L.live, i ∈ L'.live ∨ Gone i (t ++ [e]) ∨ L.pend = some i)
    (hreq : ∀ k id f o, e = .req k id f o → id = L'.last ∧ L.last < id ∧ (plainKind k → f = false → id ∈ L'.live))
    (hpend : ∀ p, L'.pend = some p → L.pend = some p ∨ (p = L'.last ∧ L.last < p ∧ ∃ f o, e = .req .arenaNew p f o)) :
    AInv (t ++ [e]) L' := by
  refine ⟨fun k id f o hm => ?_, fun p hp => ?_, fun k i o hk hm => ?_⟩
  · rcases List.mem_append.mp hm with hm | hm
    · exact Nat.le_trans (h.ids k id f o hm) hlast
    · exact Nat.le_of_eq (hreq k id f o (List.mem_singleton.mp hm).symm).1
  · rcases hpend p hp with hp | ⟨hp1, hp2, f', o', he⟩
    · obtain ⟨h1, h2⟩ := h.pend p hp
      refine ⟨Nat.le_trans h1 hlast, fun k f o hk hm => ?_⟩
      rcases List.mem_append.mp hm with hm | hm
      · exact h2 k f o hk hm
      · have := (hreq k p f o (List.mem_singleton.mp hm).symm).2.1
        omega
    · refine ⟨Nat.le_of_eq hp1, fun k f o hk hm => ?_⟩
      rcases List.mem_append.mp hm with hm | hm
      · have := h.ids k p f o hm; omega
      · have he2 := List.mem_singleton.mp hm
        rw [he] at he2
        cases he2
        rcases hk with hk | hk | hk <;> cases hk
  · rcases List.mem_append.mp hm with hm | hm
    · rcases h.acct k i o hk hm with hl | hg
      · rcases hlive i hl with h1 | h1 | h1
        · exact Or.inl h1
        · exact Or.inr h1
        · exact absurd hm ((h.pend i h1).2 k false o hk)
      · exact Or.inr (hg.snoc e)
    · exact Or.inl ((hreq k i false o (List.mem_singleton.mp hm).symm).2.2 hk rfl)

theorem not_plain_arena : ¬ plainKind .arena := by intro h; rcases h with h | h | h <;> cases h
theorem not_plain_arenaTmp : ¬ plainKind .arenaTmp := by intro h; rcases h with h | h | h <;> cases h
theorem not_plain_arenaNew : ¬ plainKind .arenaNew := by intro h; rcases h with h | h | h <;> cases h

/-- one step of the checker keeps the accounts -/
theorem AInv.step {t : List Ev} {L L' : Led} (e : Ev) (h : AInv t L) (hs : L.step e = some L') : AInv (t ++ [e]) L' := by
  cases e with
  | req k id failed old =>
    unfold Led.step at hs
    by_cases hid : id = L.last + 1
    · subst hid
      simp only [bne_self_eq_false, Bool.false_eq_true, ↓reduceIte] at hs
      -- a request that leaves the live blocks and the pending record alone
      have quiet : ∀ (hq : plainKind k → failed = true), AInv (t ++ [.req k (L.last + 1) failed old]) { L with last := L.last + 1 } := by
        intro hq
        refine h.snoc (Nat.le_succ _) (fun i hi => Or.inl hi) (fun k' id' f' o' he => ?_) (fun p hp => Or.inl hp)
        cases he
        exact ⟨rfl, Nat.lt_succ_self _, fun hk hf => by rw [hq hk] at hf; cases hf⟩
      -- a granted request that returns one more live block
      have grant : ∀ (pd : Option Nat), (pd = L.pend ∨ (k = .arenaNew ∧ pd = some (L.last + 1))) → failed = false →
          AInv (t ++ [.req k (L.last + 1) failed old]) { L with last := L.last + 1, live := (L.last + 1) :: L.live, pend := pd } := by
        intro pd hpd hf
        refine h.snoc (Nat.le_succ _) (fun i hi => Or.inl (List.mem_cons_of_mem _ hi)) (fun k' id' f' o' he => ?_) (fun p hp => ?_)
        · cases he
          exact ⟨rfl, Nat.lt_succ_self _, fun _ _ => List.mem_cons_self⟩
        · rcases hpd with hpd | ⟨hk, hpd⟩
          · exact Or.inl (hpd ▸ hp)
          · have hp : pd = some p := hp
            rw [hpd] at hp
            cases hp
            subst hk
            exact Or.inr ⟨rfl, Nat.lt_succ_self _, failed, old, rfl⟩
      cases k with
      | arena =>
        simp only at hs
        split at hs
        · cases hs; exact quiet (fun hk => absurd hk not_plain_arena)
        · cases hs
      | arenaTmp =>
        simp only at hs
        split at hs
        · cases hs; exact quiet (fun hk => absurd hk not_plain_arenaTmp)
        · cases hs
      | malloc =>
        cases failed
        · simp only [Bool.false_eq_true, ↓reduceIte] at hs
          cases hs; exact grant L.pend (Or.inl rfl) rfl
        · simp only [↓reduceIte] at hs
          cases hs; exact quiet (fun _ => rfl)
      | calloc =>
        cases failed
        · simp only [Bool.false_eq_true, ↓reduceIte] at hs
          cases hs; exact grant L.pend (Or.inl rfl) rfl
        · simp only [↓reduceIte] at hs
          cases hs; exact quiet (fun _ => rfl)
      | arenaNew =>
        cases failed
        · simp only [Bool.false_eq_true, ↓reduceIte] at hs
          split at hs
          · next hp =>
            cases hs; exact grant (some (L.last + 1)) (Or.inr ⟨rfl, rfl⟩) rfl
          · next p hp =>
            cases hs
            -- the arena is complete: its record leaves the list without an event of its own
            refine h.snoc (Nat.le_succ _) (fun i hi => ?_) (fun k' id' f' o' he => ?_) (fun q hq => by cases hq)
            · by_cases hip : i = p
              · exact Or.inr (Or.inr (hip ▸ hp))
              · exact Or.inl ((List.mem_erase_of_ne hip).mpr hi)
            · cases he
              exact ⟨rfl, Nat.lt_succ_self _, fun hk => absurd hk not_plain_arenaNew⟩
        · simp only [↓reduceIte] at hs
          cases hs; exact quiet (fun _ => rfl)
      | realloc =>
        simp only at hs
        split at hs
        · cases hs
        · cases failed
          · simp only [Bool.false_eq_true, ↓reduceIte] at hs
            cases hs
            refine h.snoc (Nat.le_succ _) (fun i hi => ?_) (fun k' id' f' o' he => ?_) (fun p hp => Or.inl hp)
            · by_cases hio : i = old
              · exact Or.inr (Or.inl (Or.inr ⟨L.last + 1, hio ▸ List.mem_append_right _ List.mem_cons_self⟩))
              · exact Or.inl (List.mem_cons_of_mem _ ((List.mem_erase_of_ne hio).mpr hi))
            · cases he
              exact ⟨rfl, Nat.lt_succ_self _, fun _ _ => List.mem_cons_self⟩
          · simp only [↓reduceIte] at hs
            cases hs; exact quiet (fun _ => rfl)
    · have : (id != L.last + 1) = true := by simpa using hid
      simp only [this, ↓reduceIte] at hs
      cases hs
  | free id =>
    simp only [Led.step] at hs
    split at hs
    · cases hs
      refine h.snoc (Nat.le_refl _) (fun i hi => ?_) (fun k' id' f' o' he => by cases he) (fun p hp => ?_)
      · by_cases hii : i = id
        · exact Or.inr (Or.inl (Or.inl (hii ▸ List.mem_append_right _ List.mem_cons_self)))
        · exact Or.inl ((List.mem_erase_of_ne hii).mpr hi)
      · have hp : (if L.pend == some id then none else L.pend) = some p := hp
        split at hp
        · cases hp
        · exact Or.inl hp
    · cases hs
  | destroy b =>
    simp only [Led.step] at hs
    have keep : ∀ L'' : Led, L''.last = L.last → L''.live = L.live → L''.pend = L.pend → AInv (t ++ [.destroy b]) L'' := by
      intro L'' h1 h2 h3
      exact h.snoc (Nat.le_of_eq h1.symm) (fun i hi => Or.inl (h2 ▸ hi)) (fun k' id' f' o' he => by cases he) (fun p hp => Or.inl (h3 ▸ hp))
    split at hs
    · cases hs
    · cases b
      · simp only [Bool.false_eq_true, ↓reduceIte] at hs
        split at hs
        · cases hs
        · cases hs; exact keep _ rfl rfl rfl
      · simp only [↓reduceIte] at hs
        split at hs
        · cases hs
        · cases hs; exact keep _ rfl rfl rfl

theorem AInv.init : AInv [] {} := ⟨nofun, nofun, nofun⟩

theorem AInv.run (t0 t : List Ev) (L L' : Led) (h : AInv t0 L) (hr : run t L = some L') : AInv (t0 ++ t) L' := by
  induction t generalizing t0 L with
  | nil => cases hr; simpa using h
  | cons e t ih =>
    unfold Edn.Proofs.AllocLedger.run at hr
    cases hs : L.step e with
    | none => rw [hs] at hr; cases hr
    | some L1 =>
      rw [hs] at hr
      have := ih (t0 ++ [e]) L1 (h.step e hs) hr
      simpa using this

/-- Nothing is leaked: when the checker has read the whole trace and no raw block is live in its
    ledger, every block that a granted `malloc`, `calloc` or `realloc` of the trace returned has
    been freed, or handed to a granted `realloc` (whose result is then accounted for in turn). -/
theorem all_released {t : List Ev} {L : Led} (hr : run t {} = some L) (hl : L.live = []) :
    ∀ k i o, plainKind k → Ev.req k i false o ∈ t → Ev.free i ∈ t ∨ ∃ n, Ev.req .realloc n false i ∈ t := by
  intro k i o hk hm
  have h := AInv.run [] t {} L AInv.init hr
  simp only [List.nil_append] at h
  rcases h.acct k i o hk hm with h1 | h1
  · rw [hl] at h1; cases h1
  · exact h1

end Edn.Proofs.AllocLedger
