/-
  Edn.Proofs.ExpNumberSoundAux3 — removing the separators from the text of a float does not change
  its exact decimal value (`decimalParts`), hence not the double `parse_double_from_buffer` returns:
  `parseDouble expCfg text = parseDouble Cfg.core (unsep text)` for every text that does not start
  with a separator and has no separator directly after an `e` / `E`.
-/
import Edn.Spec.ExpNumLit
import Edn.Proofs.DoubleSpec

namespace Edn.Proofs.ExpN
open Edn.Model Edn.Spec Edn.Proofs Edn.Proofs.DoubleSpecAux

/-! ## `unsep` -/

theorem unsep_nil : unsep [] = [] := rfl

theorem unsep_cons_sep (t : Bytes) : unsep (0x5F :: t) = unsep t := by
  simp [unsep]

theorem unsep_cons_ne {c : UInt8} (h : c ≠ 0x5F) (t : Bytes) : unsep (c :: t) = c :: unsep t := by
  simp [unsep, h]

theorem unsep_append (a b : Bytes) : unsep (a ++ b) = unsep a ++ unsep b := by
  simp [unsep]

theorem unsep_noU (t : Bytes) : (0x5F : UInt8) ∉ unsep t := by
  simp [unsep]

theorem unsep_of_not_mem {t : Bytes} (h : (0x5F : UInt8) ∉ t) : unsep t = t := by
  unfold unsep
  rw [List.filter_eq_self]
  intro c hc
  have : c ≠ 0x5F := fun e => h (e ▸ hc)
  simpa using this

theorem unsep_idem (t : Bytes) : unsep (unsep t) = unsep t := unsep_of_not_mem (unsep_noU t)

theorem head_unsep {t : Bytes} (h : t.head? ≠ some 0x5F) : (unsep t).head? = t.head? := by
  cases t with
  | nil => rfl
  | cons c r =>
    have hc : c ≠ 0x5F := fun e => h (by simp [e])
    rw [unsep_cons_ne hc]
    rfl

/-! ## the digit accumulator of `decimalParts` -/

theorem D_unsep : ∀ (s : Bytes) (m n : Nat),
    D m n (unsep s) = ((D m n s).1, (D m n s).2.1, unsep (D m n s).2.2) := by
  intro s
  induction s with
  | nil => intro m n; rw [unsep_nil, D_nil]; rfl
  | cons c cs ih =>
    intro m n
    by_cases hc : c = 0x5F
    · subst hc
      rw [unsep_cons_sep, D_cons]
      simp only [beq_self_eq_true, if_true]
      exact ih m n
    · have h1 : (c == 0x5F) = false := by simpa using hc
      rw [unsep_cons_ne hc, D_cons, D_cons]
      simp only [h1, Bool.false_eq_true, if_false]
      by_cases hd : is09 c = true
      · simp only [hd, if_true]
        exact ih _ _
      · have hd' : is09 c = false := by simpa using hd
        simp only [hd', Bool.false_eq_true, if_false]
        rw [unsep_cons_ne hc]

theorem D_rest_head : ∀ (s : Bytes) (m n : Nat), (D m n s).2.2.head? ≠ some 0x5F := by
  intro s
  induction s with
  | nil => intro m n; rw [D_nil]; simp
  | cons c cs ih =>
    intro m n
    rw [D_cons]
    by_cases hc : c = 0x5F
    · subst hc
      simp only [beq_self_eq_true, if_true]
      exact ih m n
    · have h1 : (c == 0x5F) = false := by simpa using hc
      simp only [h1, Bool.false_eq_true, if_false]
      by_cases hd : is09 c = true
      · simp only [hd, if_true]
        exact ih _ _
      · have hd' : is09 c = false := by simpa using hd
        simp only [hd', Bool.false_eq_true, if_false, List.head?_cons]
        intro e
        exact hc (Option.some.inj e)

theorem D_rest_suffix : ∀ (s : Bytes) (m n : Nat), ∃ a, s = a ++ (D m n s).2.2 := by
  intro s
  induction s with
  | nil => intro m n; rw [D_nil]; exact ⟨[], rfl⟩
  | cons c cs ih =>
    intro m n
    rw [D_cons]
    split
    · obtain ⟨a, ha⟩ := ih m n
      exact ⟨c :: a, by rw [List.cons_append, ← ha]⟩
    · split
      · obtain ⟨a, ha⟩ := ih (m * 10 + dval c) (n + 1)
        exact ⟨c :: a, by rw [List.cons_append, ← ha]⟩
      · exact ⟨[], rfl⟩

/-! ## no separator directly after an `e` / `E` -/

def isE (c : UInt8) : Bool := c == 0x65 || c == 0x45

/-- no `e_` / `E_` anywhere in the text -/
def noESep : Bytes → Bool
  | [] => true
  | c :: r => (!isE c || !(r.head? == some 0x5F)) && noESep r

theorem noESep_cons (c : UInt8) (r : Bytes) :
    noESep (c :: r) = ((!isE c || !(r.head? == some 0x5F)) && noESep r) := rfl

theorem noESep_append_of_noE : ∀ (a b : Bytes), (∀ c ∈ a, isE c = false) → noESep (a ++ b) = noESep b := by
  intro a
  induction a with
  | nil => intro b _; rfl
  | cons c a ih =>
    intro b h
    rw [List.cons_append, noESep_cons, h c (by simp), ih b (fun x hx => h x (by simp [hx]))]
    rfl

theorem noESep_of_noE (a : Bytes) (h : ∀ c ∈ a, isE c = false) : noESep a = true := by
  have := noESep_append_of_noE a [] h
  rw [List.append_nil] at this
  rw [this]
  rfl

theorem noESep_suffix : ∀ (a b : Bytes), noESep (a ++ b) = true → noESep b = true := by
  intro a
  induction a with
  | nil => intro b h; exact h
  | cons c a ih =>
    intro b h
    rw [List.cons_append, noESep_cons, Bool.and_eq_true] at h
    exact ih b h.2

theorem noESep_head {c : UInt8} {r : Bytes} (h : noESep (c :: r) = true) (hc : isE c = true) :
    r.head? ≠ some 0x5F := by
  rw [noESep_cons, Bool.and_eq_true, hc] at h
  intro e
  rw [e] at h
  exact absurd h.1 (by decide)

/-! ## the phases of `decimalParts` -/

theorem pdSign_unsep {text : Bytes} (h : text.head? ≠ some 0x5F) :
    pdSign (unsep text) = ((pdSign text).1, unsep (pdSign text).2) := by
  cases text with
  | nil => rfl
  | cons c r =>
    have hc : c ≠ 0x5F := fun e => h (by simp [e])
    rw [unsep_cons_ne hc]
    unfold pdSign
    by_cases h1 : (c == 0x2D) = true
    · simp only [h1, if_true]
    · simp only [h1, Bool.false_eq_true, if_false]
      by_cases h2 : (c == 0x2B) = true
      · simp only [h2, if_true]
      · simp only [h2, Bool.false_eq_true, if_false]
        rw [unsep_cons_ne hc]

theorem pdSign_suffix (text : Bytes) : ∃ a, text = a ++ (pdSign text).2 := by
  cases text with
  | nil => exact ⟨[], rfl⟩
  | cons c r =>
    unfold pdSign
    by_cases h1 : (c == 0x2D) = true
    · simp only [h1, if_true]
      exact ⟨[c], rfl⟩
    · simp only [h1, Bool.false_eq_true, if_false]
      by_cases h2 : (c == 0x2B) = true
      · simp only [h2, if_true]
        exact ⟨[c], rfl⟩
      · simp only [h2, Bool.false_eq_true, if_false]
        exact ⟨[], rfl⟩

theorem dpFrac_unsep (m1 : Nat) {s1 : Bytes} (h : s1.head? ≠ some 0x5F) :
    dpFrac m1 (unsep s1) = ((dpFrac m1 s1).1, (dpFrac m1 s1).2.1, unsep (dpFrac m1 s1).2.2) := by
  cases s1 with
  | nil => rfl
  | cons c r =>
    have hc : c ≠ 0x5F := fun e => h (by simp [e])
    rw [unsep_cons_ne hc]
    by_cases hd : c = 0x2E
    · subst hd
      rw [dpFrac_dot, dpFrac_dot, D_unsep]
    · rw [dpFrac_other _ _ _ hd, dpFrac_other _ _ _ hd, unsep_cons_ne hc]

theorem dpFrac_rest_head (m1 : Nat) {s1 : Bytes} (h : s1.head? ≠ some 0x5F) :
    (dpFrac m1 s1).2.2.head? ≠ some 0x5F := by
  cases s1 with
  | nil => exact h
  | cons c r =>
    by_cases hd : c = 0x2E
    · subst hd
      rw [dpFrac_dot]
      exact D_rest_head r m1 0
    · rw [dpFrac_other _ _ _ hd]
      exact h

theorem dpFrac_rest_suffix (m1 : Nat) (s1 : Bytes) : ∃ a, s1 = a ++ (dpFrac m1 s1).2.2 := by
  cases s1 with
  | nil => exact ⟨[], rfl⟩
  | cons c r =>
    by_cases hd : c = 0x2E
    · subst hd
      rw [dpFrac_dot]
      obtain ⟨a, ha⟩ := D_rest_suffix r m1 0
      exact ⟨0x2E :: a, by rw [List.cons_append, ← ha]⟩
    · rw [dpFrac_other _ _ _ hd]
      exact ⟨[], rfl⟩

theorem dpExp_unsep {s2 : Bytes} (h : s2.head? ≠ some 0x5F) (hg : noESep s2 = true) :
    dpExp (unsep s2) = dpExp s2 := by
  cases s2 with
  | nil => rfl
  | cons c r =>
    have hc : c ≠ 0x5F := fun e => h (by simp [e])
    rw [unsep_cons_ne hc]
    unfold dpExp
    by_cases he : (c == 0x65 || c == 0x45) = true
    · simp only [he, if_true]
      have hr : r.head? ≠ some 0x5F := noESep_head hg he
      rw [dpSign_eq, dpSign_eq, pdSign_unsep hr, D_unsep]
    · simp only [he, Bool.false_eq_true, if_false]

theorem dpAcc_unsep {s : Bytes} (hg : noESep s = true) : dpAcc (unsep s) = dpAcc s := by
  rw [dpAcc_eq, dpAcc_eq, D_unsep]
  simp only []
  have h1 := D_rest_head s 0 0
  obtain ⟨a1, ha1⟩ := D_rest_suffix s 0 0
  rw [dpFrac_unsep _ h1]
  simp only []
  have h2 := dpFrac_rest_head (D 0 0 s).1 h1
  obtain ⟨a2, ha2⟩ := dpFrac_rest_suffix (D 0 0 s).1 (D 0 0 s).2.2
  have hg2 : noESep (dpFrac (D 0 0 s).1 (D 0 0 s).2.2).2.2 = true := by
    apply noESep_suffix a2
    rw [← ha2]
    apply noESep_suffix a1
    rw [← ha1]
    exact hg
  rw [dpExp_unsep h2 hg2]

/-- the exact decimal value of a text is the one of the text without its separators -/
theorem decimalParts_unsep {text : Bytes} (h : text.head? ≠ some 0x5F) (hg : noESep text = true) :
    decimalParts (unsep text) = decimalParts text := by
  rw [decimalParts_eq, decimalParts_eq, pdSign_unsep h]
  simp only []
  obtain ⟨a, ha⟩ := pdSign_suffix text
  have hg' : noESep (pdSign text).2 = true := by
    apply noESep_suffix a
    rw [← ha]
    exact hg
  rw [dpAcc_unsep hg']

/-- … hence the double is the same: with the experimental flag on the text, without it on the
    text with the separators removed -/
theorem parseDouble_unsep {text : Bytes} (h : text.head? ≠ some 0x5F) (hg : noESep text = true) :
    parseDouble expCfg text = parseDouble Cfg.core (unsep text) := by
  rw [parseDouble_of_noUnderscore expCfg text (fun he => Bool.noConfusion he),
    parseDouble_of_noUnderscore Cfg.core (unsep text) (fun _ => unsep_noU text),
    decimalParts_unsep h hg]

end Edn.Proofs.ExpN
