/-
  Edn.Proofs.CharSoundAux1 — helper lemmas for Edn.Proofs.CharSound: the code-point part
  of `readCharacter` (`charBody`) read back into the grammar `CharTokX` (soundness).
-/
import Edn.Spec.CharLit
import Edn.Proofs.CompleteStrCharAux2
import Edn.Proofs.StrSoundAux1

namespace Edn.Proofs
open Edn.Model Edn.Spec

theorem len_formfeed : "formfeed".length = 8 := by decide
theorem len_backspace : "backspace".length = 9 := by decide

/-! ### names -/

theorem charNamed_some {p : Bytes} {nm : String} {c : Nat} {x : Nat × Bytes}
    (hl : (strBytes nm).length = nm.length) (h : charNamed p nm c = some x) :
    x.1 = c ∧ p = strBytes nm ++ x.2 := by
  unfold charNamed at h
  split at h
  · rename_i hs
    cases h
    obtain ⟨t, ht⟩ := List.isPrefixOf_iff_prefix.mp hs
    refine ⟨rfl, ?_⟩
    subst ht
    simp [← hl]
  · cases h

theorem strBytes_len_newline : (strBytes "newline").length = "newline".length := by decide +kernel
theorem strBytes_len_return : (strBytes "return").length = "return".length := by decide +kernel
theorem strBytes_len_space : (strBytes "space").length = "space".length := by decide +kernel
theorem strBytes_len_tab : (strBytes "tab").length = "tab".length := by decide +kernel
theorem strBytes_len_formfeed : (strBytes "formfeed").length = "formfeed".length := by decide +kernel
theorem strBytes_len_backspace : (strBytes "backspace").length = "backspace".length := by decide +kernel

/-! ### the part of `charBody` behind the names -/

def charTail (ctx : Ctx) (p : Bytes) : Except Nat (Nat × Bytes) :=
  let c := peek p
  let c1 := peek p.tail
  if ctx.cfg.clj && c == 0x6F && !p.tail.isEmpty && is09 c1 then
    match octalChar p.tail with
    | none => .error (ctx.pos p.tail)
    | some x => .ok x
  else if c == 0x75 && !p.tail.isEmpty && (hexDigit? c1).isSome then
    let q := p.tail
    match hex4? q with
    | none => .error (q.length - 4)
    | some (v, q') =>
      if ctx.cfg.exp then .ok (hexMore 2 v q') else .ok (v, q')
  else if !isValidSingleChar ctx.cfg c then .error (p.length - 1)
  else .ok (c.toNat, p.tail)

theorem charBody_eq (ctx : Ctx) (p : Bytes) :
    charBody ctx p =
      match charNamed p "newline" 0x0A with
      | some x => .ok x
      | none => match charNamed p "return" 0x0D with
      | some x => .ok x
      | none => match charNamed p "space" 0x20 with
      | some x => .ok x
      | none => match charNamed p "tab" 0x09 with
      | some x => .ok x
      | none =>
      match (if ctx.cfg.clj then (charNamed p "formfeed" 0x0C).orElse (fun _ => charNamed p "backspace" 0x08) else none) with
      | some x => .ok x
      | none => charTail ctx p := rfl

/-! ### octal -/

theorem mem_takeWhile_true {α : Type} {p : α → Bool} : ∀ {l : List α} {x : α}, x ∈ l.takeWhile p → p x = true := by
  intro l
  induction l with
  | nil => intro x hx; simp at hx
  | cons a l ih =>
    intro x hx
    by_cases ha : p a = true
    · simp only [List.takeWhile_cons, ha, if_true, List.mem_cons] at hx
      rcases hx with rfl | hx
      · exact ha
      · exact ih hx
    · simp [ha] at hx

theorem octalChar_sound {s r : Bytes} {v : Nat} (h : octalChar s = some (v, r)) :
    ∃ ds, s = ds ++ r ∧ OctDigits ds ∧ v = octValue ds := by
  unfold octalChar at h
  simp only [] at h
  have hpre : (List.takeWhile isOct (List.take 3 s)) <+: s :=
    (List.takeWhile_prefix isOct).trans (List.take_prefix 3 s)
  have hlen : (List.takeWhile isOct (List.take 3 s)).length ≤ 3 :=
    Nat.le_trans (List.takeWhile_prefix isOct).length_le (by simp; omega)
  have hall : ∀ d ∈ List.takeWhile isOct (List.take 3 s), isOct d = true := fun d hd => mem_takeWhile_true hd
  generalize List.takeWhile isOct (List.take 3 s) = digs at h hpre hlen hall
  obtain ⟨t, rfl⟩ := hpre
  split at h
  · cases h
  · rename_i hne
    split at h
    · cases h
    · split at h
      · cases h
      · rename_i _ hv
        simp only [Option.some.injEq, Prod.mk.injEq] at h
        obtain ⟨rfl, rfl⟩ := h
        refine ⟨digs, by simp, ⟨?_, hlen, hall, ?_⟩, rfl⟩
        · cases digs with
          | nil => simp at hne
          | cons _ _ => simp
        · exact Nat.le_of_not_gt hv

/-! ### hex -/

theorem hexMore_sound : ∀ (k v : Nat) (s r : Bytes) (cp : Nat), hexMore k v s = (cp, r) →
    ∃ ext, s = ext ++ r ∧ ext.length ≤ k ∧ (∀ d ∈ ext, (hexDigit? d).isSome = true) ∧
      cp = ext.foldl (fun a c => a * 16 + (hexDigit? c).getD 0) v := by
  intro k
  induction k with
  | zero =>
    intro v s r cp h
    simp only [hexMore, Prod.mk.injEq] at h
    obtain ⟨rfl, rfl⟩ := h
    exact ⟨[], rfl, by simp, by simp, rfl⟩
  | succ k ih =>
    intro v s r cp h
    cases s with
    | nil =>
      simp only [hexMore, Prod.mk.injEq] at h
      obtain ⟨rfl, rfl⟩ := h
      exact ⟨[], rfl, by simp, by simp, rfl⟩
    | cons c t =>
      rw [hexMore] at h
      cases hd : hexDigit? c with
      | none =>
        simp only [hd, Prod.mk.injEq] at h
        obtain ⟨rfl, rfl⟩ := h
        exact ⟨[], rfl, by simp, by simp, rfl⟩
      | some d =>
        simp only [hd] at h
        obtain ⟨ext, rfl, hl, hall, hcp⟩ := ih _ _ _ _ h
        refine ⟨c :: ext, rfl, by simp; omega, ?_, ?_⟩
        · intro x hx
          rcases List.mem_cons.mp hx with rfl | hx
          · simp [hd]
          · exact hall x hx
        · simp [List.foldl_cons, hd, hcp]

theorem hexValue_four {a b c d : UInt8} {w x y z : Nat} (hw : hexDigit? a = some w) (hx : hexDigit? b = some x)
    (hy : hexDigit? c = some y) (hz : hexDigit? d = some z) (ext : Bytes) :
    hexValue (a :: b :: c :: d :: ext) =
      ext.foldl (fun a c => a * 16 + (hexDigit? c).getD 0) (((w * 16 + x) * 16 + y) * 16 + z) := by
  simp [hexValue, List.foldl_cons, hw, hx, hy, hz]

/-! ### soundness of the code-point part -/

theorem peek_eq_head {p : Bytes} (hp : p ≠ []) : p = peek p :: p.tail := by
  cases p with
  | nil => exact absurd rfl hp
  | cons c t => rfl

theorem charTail_sound (ctx : Ctx) (p r : Bytes) (cp : Nat) (hp : p ≠ [])
    (h : charTail ctx p = .ok (cp, r)) : ∃ body, p = body ++ r ∧ CharTokX ctx.cfg body cp := by
  unfold charTail at h
  simp only [] at h
  have hpe := peek_eq_head hp
  split at h
  · -- octal
    rename_i hc
    simp only [Bool.and_eq_true, beq_iff_eq] at hc
    obtain ⟨⟨⟨hclj, hc0⟩, _⟩, _⟩ := hc
    cases ho : octalChar p.tail with
    | none => simp [ho] at h
    | some x =>
      simp only [ho, Except.ok.injEq] at h
      subst h
      obtain ⟨ds, hs, hod, hv⟩ := octalChar_sound ho
      refine ⟨0x6F :: ds, ?_, ?_⟩
      · rw [hpe, hc0, List.cons_append, ← hs]
      · rw [hv]; exact .octal hclj ds hod
  · split at h
    · -- unicode
      rename_i _ hc
      simp only [Bool.and_eq_true, beq_iff_eq] at hc
      obtain ⟨⟨hc0, _⟩, _⟩ := hc
      cases hx : hex4? p.tail with
      | none => simp [hx] at h
      | some x =>
        obtain ⟨v, q'⟩ := x
        simp only [hx] at h
        match hq : p.tail, hx with
        | a :: b :: c :: d :: q, hx =>
          obtain ⟨w, x, y, z, hw, hx', hy, hz, hv, rfl⟩ := hex4?_cons_some hx
          have hall4 : ∀ e ∈ [a, b, c, d], (hexDigit? e).isSome = true := by
            intro e he
            simp only [List.mem_cons, List.mem_nil_iff, or_false] at he
            rcases he with rfl | rfl | rfl | rfl <;> simp [hw, hx', hy, hz]
          cases he : ctx.cfg.exp with
          | false =>
            simp only [he, Bool.false_eq_true, if_false, Except.ok.injEq, Prod.mk.injEq] at h
            obtain ⟨rfl, rfl⟩ := h
            refine ⟨[0x75, a, b, c, d], ?_, ?_⟩
            · rw [hpe, hc0, hq]; rfl
            · have := CharTokX.unicode (cfg := ctx.cfg) [a, b, c, d] hall4 (.inl rfl)
              rwa [hexValue_four hw hx' hy hz [], List.foldl_nil, ← hv] at this
          | true =>
            simp only [he, if_true, Except.ok.injEq] at h
            obtain ⟨ext, rfl, hl, hall, hcp⟩ := hexMore_sound _ _ _ _ _ h
            refine ⟨0x75 :: a :: b :: c :: d :: ext, ?_, ?_⟩
            · rw [hpe, hc0, hq]; simp
            · have := CharTokX.unicode (cfg := ctx.cfg) (a :: b :: c :: d :: ext) (by
                intro e he'
                simp only [List.mem_cons] at he'
                rcases he' with rfl | rfl | rfl | rfl | he'
                · simp [hw]
                · simp [hx']
                · simp [hy]
                · simp [hz]
                · exact hall e he') (by
                  simp only [List.length_cons]
                  have : ext.length = 0 ∨ ext.length = 1 ∨ ext.length = 2 := by omega
                  rcases this with h0 | h0 | h0
                  · left; omega
                  · right; exact ⟨he, .inl (by omega)⟩
                  · right; exact ⟨he, .inr (by omega)⟩)
              rwa [hexValue_four hw hx' hy hz ext, ← hv, ← hcp] at this
        | [], hx => simp [hex4?] at hx
        | [_], hx => simp [hex4?] at hx
        | [_, _], hx => simp [hex4?] at hx
        | [_, _, _], hx => simp [hex4?] at hx
    · split at h
      · cases h
      · rename_i hv
        simp only [Except.ok.injEq, Prod.mk.injEq] at h
        obtain ⟨rfl, rfl⟩ := h
        refine ⟨[peek p], hpe, .single _ (by simpa using hv)⟩

theorem charBody_sound (ctx : Ctx) (p r : Bytes) (cp : Nat) (hp : p ≠ [])
    (h : charBody ctx p = .ok (cp, r)) : ∃ body, p = body ++ r ∧ CharTokX ctx.cfg body cp := by
  rw [charBody_eq] at h
  cases h1 : charNamed p "newline" 0x0A with
  | some x =>
    simp only [h1, Except.ok.injEq] at h; subst h
    obtain ⟨e1, e2⟩ := charNamed_some strBytes_len_newline h1
    simp only [] at e1 e2
    exact ⟨_, e2, by rw [e1]; exact .newline⟩
  | none =>
  simp only [h1] at h
  cases h2 : charNamed p "return" 0x0D with
  | some x =>
    simp only [h2, Except.ok.injEq] at h; subst h
    obtain ⟨e1, e2⟩ := charNamed_some strBytes_len_return h2
    simp only [] at e1 e2
    exact ⟨_, e2, by rw [e1]; exact .ret⟩
  | none =>
  simp only [h2] at h
  cases h3 : charNamed p "space" 0x20 with
  | some x =>
    simp only [h3, Except.ok.injEq] at h; subst h
    obtain ⟨e1, e2⟩ := charNamed_some strBytes_len_space h3
    simp only [] at e1 e2
    exact ⟨_, e2, by rw [e1]; exact .space⟩
  | none =>
  simp only [h3] at h
  cases h4 : charNamed p "tab" 0x09 with
  | some x =>
    simp only [h4, Except.ok.injEq] at h; subst h
    obtain ⟨e1, e2⟩ := charNamed_some strBytes_len_tab h4
    simp only [] at e1 e2
    exact ⟨_, e2, by rw [e1]; exact .tab⟩
  | none =>
  simp only [h4] at h
  cases hclj : ctx.cfg.clj with
  | false =>
    simp only [hclj, Bool.false_eq_true, if_false] at h
    exact charTail_sound ctx p r cp hp h
  | true =>
    simp only [hclj, if_true] at h
    cases h5 : charNamed p "formfeed" 0x0C with
    | some x =>
      simp only [h5, Option.orElse_some, Except.ok.injEq] at h; subst h
      obtain ⟨e1, e2⟩ := charNamed_some strBytes_len_formfeed h5
      simp only [] at e1 e2
      exact ⟨_, e2, by rw [e1]; exact .formfeed hclj⟩
    | none =>
      simp only [h5, Option.orElse_none] at h
      cases h6 : charNamed p "backspace" 0x08 with
      | some x =>
        simp only [h6, Except.ok.injEq] at h; subst h
        obtain ⟨e1, e2⟩ := charNamed_some strBytes_len_backspace h6
        simp only [] at e1 e2
        exact ⟨_, e2, by rw [e1]; exact .backspace hclj⟩
      | none =>
        simp only [h6] at h
        exact charTail_sound ctx p r cp hp h

end Edn.Proofs
