/-
  Edn.Proofs.AllocLedgerSound — what a well-formed trace (`TraceOK`, the checker of
  Edn.Proofs.AllocLedgerAux1 does not get stuck) means on the positions of the trace:

  * `free_has_request`: a `free id` is preceded by a granted raw request that returned `id`;
  * `free_once`: … and there is no other `free id`, neither before nor after it;
  * `free_not_after_realloc`: … and no granted `realloc` has taken `id` away before it;
  * `realloc_of_live`: `realloc(old)`, granted or not, is applied to a block a granted raw
    request has returned and that has neither been freed nor reallocated away before;
  * `realloc_takes_away`: after a granted `realloc(old)` the block `old` is never freed nor
    reallocated again;
  * `destroy_once`: each of the two arenas is destroyed at most once.
-/
import Edn.Proofs.AllocLedgerAux1

namespace Edn.Proofs.AllocLedger
open Edn.Model

/-- the request kinds that return a raw heap block -/
def rawKind (k : ReqKind) : Prop := k = .malloc ∨ k = .calloc ∨ k = .realloc ∨ k = .arenaNew

/-- a granted raw request of the trace has returned block `i` -/
def Obtained (i : Nat) (t : List Ev) : Prop := ∃ k old, rawKind k ∧ Ev.req k i false old ∈ t

/-- block `i` has been freed, or a granted `realloc` has taken it away -/
def Gone (i : Nat) (t : List Ev) : Prop := Ev.free i ∈ t ∨ ∃ n, Ev.req .realloc n false i ∈ t

/-- what the checker knows after it has read `t` -/
structure LInv (t : List Ev) (L : Led) : Prop where
  live : ∀ i ∈ L.live, i ≤ L.last ∧ Obtained i t ∧ ¬ Gone i t
  gone : ∀ i, Gone i t → i ≤ L.last
  nodup : L.live.Nodup
  dT : L.dT = false → Ev.destroy true ∉ t
  dP : L.dP = false → Ev.destroy false ∉ t

theorem Obtained.snoc {i : Nat} {t : List Ev} (h : Obtained i t) (e : Ev) : Obtained i (t ++ [e]) := by
  obtain ⟨k, old, hk, hm⟩ := h
  exact ⟨k, old, hk, List.mem_append_left _ hm⟩

/-- an event that frees nothing and takes nothing away -/
def Harmless (e : Ev) : Prop := (∀ i, e ≠ .free i) ∧ (∀ n i, e ≠ .req .realloc n false i)

theorem gone_snoc_harmless {i : Nat} {t : List Ev} {e : Ev} (he : Harmless e) (h : Gone i (t ++ [e])) : Gone i t := by
  rcases h with h | ⟨n, h⟩
  · rcases List.mem_append.mp h with h | h
    · exact Or.inl h
    · exact absurd (List.mem_singleton.mp h).symm (he.1 i)
  · rcases List.mem_append.mp h with h | h
    · exact Or.inr ⟨n, h⟩
    · exact absurd (List.mem_singleton.mp h).symm (he.2 n i)

/-- an event that changes neither the live blocks nor the destroyed flags (but may advance the
    request counter) keeps the invariant -/
theorem LInv.same {t : List Ev} {L L' : Led} {e : Ev} (h : LInv t L) (he : Harmless e) (hd : ∀ b, e ≠ .destroy b)
    (hl : L'.live = L.live) (hlast : L.last ≤ L'.last) (hdT : L'.dT = L.dT) (hdP : L'.dP = L.dP) :
    LInv (t ++ [e]) L' := by
  refine ⟨fun i hi => ?_, fun i hg => ?_, hl ▸ h.nodup, fun hf => ?_, fun hf => ?_⟩
  · rw [hl] at hi
    obtain ⟨h1, h2, h3⟩ := h.live i hi
    exact ⟨Nat.le_trans h1 hlast, h2.snoc e, fun hg => h3 (gone_snoc_harmless he hg)⟩
  · exact Nat.le_trans (h.gone i (gone_snoc_harmless he hg)) hlast
  · intro hm
    rcases List.mem_append.mp hm with hm | hm
    · exact h.dT (hdT ▸ hf) hm
    · exact hd true (List.mem_singleton.mp hm).symm
  · intro hm
    rcases List.mem_append.mp hm with hm | hm
    · exact h.dP (hdP ▸ hf) hm
    · exact hd false (List.mem_singleton.mp hm).symm

/-- a granted raw request that takes nothing away: one more live block -/
theorem LInv.alloc {t : List Ev} {L L' : Led} {k : ReqKind} {old : Nat} (h : LInv t L) (hk : rawKind k)
    (he : Harmless (.req k (L.last + 1) false old))
    (hl : L'.live = (L.last + 1) :: L.live) (hlast : L'.last = L.last + 1) (hdT : L'.dT = L.dT) (hdP : L'.dP = L.dP) :
    LInv (t ++ [.req k (L.last + 1) false old]) L' := by
  have hfresh : L.last + 1 ∉ L.live := fun hm => by have := (h.live _ hm).1; omega
  refine ⟨fun i hi => ?_, fun i hg => ?_, ?_, fun hf => ?_, fun hf => ?_⟩
  · rw [hl] at hi
    rcases List.mem_cons.mp hi with rfl | hi
    · refine ⟨by omega, ⟨k, old, hk, List.mem_append_right _ List.mem_cons_self⟩, fun hg => ?_⟩
      have := h.gone _ (gone_snoc_harmless he hg)
      omega
    · obtain ⟨h1, h2, h3⟩ := h.live i hi
      exact ⟨by omega, h2.snoc _, fun hg => h3 (gone_snoc_harmless he hg)⟩
  · have := h.gone i (gone_snoc_harmless he hg); omega
  · rw [hl]; exact List.nodup_cons.mpr ⟨hfresh, h.nodup⟩
  · intro hm
    rcases List.mem_append.mp hm with hm | hm
    · exact h.dT (hdT ▸ hf) hm
    · cases List.mem_singleton.mp hm
  · intro hm
    rcases List.mem_append.mp hm with hm | hm
    · exact h.dP (hdP ▸ hf) hm
    · cases List.mem_singleton.mp hm

/-- blocks leave the ledger without an event of their own (taken over by a completed arena) -/
theorem LInv.shrink {t : List Ev} {L L' : Led} (h : LInv t L) (hl : ∀ i ∈ L'.live, i ∈ L.live) (hn : L'.live.Nodup)
    (hlast : L'.last = L.last) (hdT : L'.dT = L.dT) (hdP : L'.dP = L.dP) : LInv t L' :=
  ⟨fun i hi => hlast ▸ h.live i (hl i hi), fun i hg => hlast ▸ h.gone i hg, hn, fun hf => h.dT (hdT ▸ hf),
    fun hf => h.dP (hdP ▸ hf)⟩

theorem harmless_req {k : ReqKind} {id : Nat} {failed : Bool} {old : Nat} (h : k ≠ .realloc ∨ failed = true) :
    Harmless (.req k id failed old) := by
  refine ⟨fun i => nofun, fun n i he => ?_⟩
  cases he
  rcases h with h | h
  · exact h rfl
  · cases h

/-- one step of the checker keeps the invariant -/
theorem LInv.step {t : List Ev} {L L' : Led} (e : Ev) (h : LInv t L) (hs : L.step e = some L') : LInv (t ++ [e]) L' := by
  cases e with
  | req k id failed old =>
    unfold Led.step at hs
    by_cases hid : id = L.last + 1
    · subst hid
      simp only [bne_self_eq_false, Bool.false_eq_true, ↓reduceIte] at hs
      cases k with
      | arena =>
        simp only at hs
        split at hs
        · cases hs; exact h.same (harmless_req (Or.inl nofun)) nofun rfl (Nat.le_succ _) rfl rfl
        · cases hs
      | arenaTmp =>
        simp only at hs
        split at hs
        · cases hs; exact h.same (harmless_req (Or.inl nofun)) nofun rfl (Nat.le_succ _) rfl rfl
        · cases hs
      | malloc =>
        cases failed
        · simp only [Bool.false_eq_true, ↓reduceIte] at hs
          cases hs; exact h.alloc (Or.inl rfl) (harmless_req (Or.inl nofun)) rfl rfl rfl rfl
        · simp only [↓reduceIte] at hs
          cases hs; exact h.same (harmless_req (Or.inr rfl)) nofun rfl (Nat.le_succ _) rfl rfl
      | calloc =>
        cases failed
        · simp only [Bool.false_eq_true, ↓reduceIte] at hs
          cases hs; exact h.alloc (Or.inr (Or.inl rfl)) (harmless_req (Or.inl nofun)) rfl rfl rfl rfl
        · simp only [↓reduceIte] at hs
          cases hs; exact h.same (harmless_req (Or.inr rfl)) nofun rfl (Nat.le_succ _) rfl rfl
      | arenaNew =>
        cases failed
        · simp only [Bool.false_eq_true, ↓reduceIte] at hs
          split at hs
          · cases hs; exact h.alloc (Or.inr (Or.inr (Or.inr rfl))) (harmless_req (Or.inl nofun)) rfl rfl rfl rfl
          · next p _ =>
            cases hs
            have h1 : LInv (t ++ [.req .arenaNew (L.last + 1) false old]) { L with last := L.last + 1 } :=
              h.same (harmless_req (Or.inl nofun)) nofun rfl (Nat.le_succ _) rfl rfl
            exact h1.shrink (fun i hi => List.mem_of_mem_erase hi) (h.nodup.erase _) rfl rfl rfl
        · simp only [↓reduceIte] at hs
          cases hs; exact h.same (harmless_req (Or.inr rfl)) nofun rfl (Nat.le_succ _) rfl rfl
      | realloc =>
        simp only at hs
        split at hs
        · cases hs
        · next hold =>
          have hold : old ∈ L.live := by simpa using hold
          cases failed
          · simp only [Bool.false_eq_true, ↓reduceIte] at hs
            cases hs
            -- the old block is taken away, the new one is live
            have hfresh : L.last + 1 ∉ L.live := fun hm => by have := (h.live _ hm).1; omega
            have gone_cases : ∀ i, Gone i (t ++ [.req .realloc (L.last + 1) false old]) → Gone i t ∨ i = old := by
              intro i hg
              rcases hg with hg | ⟨n, hg⟩
              · rcases List.mem_append.mp hg with hg | hg
                · exact Or.inl (Or.inl hg)
                · cases List.mem_singleton.mp hg
              · rcases List.mem_append.mp hg with hg | hg
                · exact Or.inl (Or.inr ⟨n, hg⟩)
                · cases List.mem_singleton.mp hg; exact Or.inr rfl
            refine ⟨fun i hi => ?_, fun i hg => ?_, ?_, fun hf => ?_, fun hf => ?_⟩
            · rcases List.mem_cons.mp hi with rfl | hi
              · refine ⟨Nat.le_refl _, ⟨.realloc, old, Or.inr (Or.inr (Or.inl rfl)), List.mem_append_right _ List.mem_cons_self⟩, fun hg => ?_⟩
                rcases gone_cases _ hg with hg | hg
                · have := h.gone _ hg; omega
                · exact hfresh (hg ▸ hold)
              · have hi' : i ∈ L.live ∧ i ≠ old := by
                  have := (h.nodup.mem_erase_iff).mp hi
                  exact ⟨this.2, this.1⟩
                obtain ⟨h1, h2, h3⟩ := h.live i hi'.1
                refine ⟨Nat.le_succ_of_le h1, h2.snoc _, fun hg => ?_⟩
                rcases gone_cases _ hg with hg | hg
                · exact h3 hg
                · exact hi'.2 hg
            · rcases gone_cases _ hg with hg | hg
              · exact Nat.le_succ_of_le (h.gone i hg)
              · rw [hg]; exact Nat.le_succ_of_le (h.live old hold).1
            · exact List.nodup_cons.mpr ⟨fun hm => hfresh (List.mem_of_mem_erase hm), h.nodup.erase _⟩
            · intro hm
              rcases List.mem_append.mp hm with hm | hm
              · exact h.dT hf hm
              · cases List.mem_singleton.mp hm
            · intro hm
              rcases List.mem_append.mp hm with hm | hm
              · exact h.dP hf hm
              · cases List.mem_singleton.mp hm
          · simp only [↓reduceIte] at hs
            cases hs; exact h.same (harmless_req (Or.inr rfl)) nofun rfl (Nat.le_succ _) rfl rfl
    · have : (id != L.last + 1) = true := by simpa using hid
      simp only [this, ↓reduceIte] at hs
      cases hs
  | free id =>
    simp only [Led.step] at hs
    split at hs
    · next hc =>
      have hid : id ∈ L.live := by simpa using hc
      cases hs
      have gone_cases : ∀ i, Gone i (t ++ [.free id]) → Gone i t ∨ i = id := by
        intro i hg
        rcases hg with hg | ⟨n, hg⟩
        · rcases List.mem_append.mp hg with hg | hg
          · exact Or.inl (Or.inl hg)
          · cases List.mem_singleton.mp hg; exact Or.inr rfl
        · rcases List.mem_append.mp hg with hg | hg
          · exact Or.inl (Or.inr ⟨n, hg⟩)
          · cases List.mem_singleton.mp hg
      refine ⟨fun i hi => ?_, fun i hg => ?_, h.nodup.erase _, fun hf => ?_, fun hf => ?_⟩
      · have hi' := (h.nodup.mem_erase_iff).mp hi
        obtain ⟨h1, h2, h3⟩ := h.live i hi'.2
        refine ⟨h1, h2.snoc _, fun hg => ?_⟩
        rcases gone_cases _ hg with hg | hg
        · exact h3 hg
        · exact hi'.1 hg
      · rcases gone_cases _ hg with hg | hg
        · exact h.gone i hg
        · rw [hg]; exact (h.live id hid).1
      · intro hm
        rcases List.mem_append.mp hm with hm | hm
        · exact h.dT hf hm
        · cases List.mem_singleton.mp hm
      · intro hm
        rcases List.mem_append.mp hm with hm | hm
        · exact h.dP hf hm
        · cases List.mem_singleton.mp hm
    · cases hs
  | destroy b =>
    simp only [Led.step] at hs
    have harm : Harmless (.destroy b) := ⟨fun i => nofun, fun n i => nofun⟩
    split at hs
    · cases hs
    · cases b
      · simp only [Bool.false_eq_true, ↓reduceIte] at hs
        split at hs
        · cases hs
        · next hdp =>
          cases hs
          refine ⟨fun i hi => ?_, fun i hg => h.gone i (gone_snoc_harmless harm hg), h.nodup, fun hf => ?_, fun hf => by cases hf⟩
          · obtain ⟨h1, h2, h3⟩ := h.live i hi
            exact ⟨h1, h2.snoc _, fun hg => h3 (gone_snoc_harmless harm hg)⟩
          · intro hm
            rcases List.mem_append.mp hm with hm | hm
            · exact h.dT hf hm
            · cases List.mem_singleton.mp hm
      · simp only [↓reduceIte] at hs
        split at hs
        · cases hs
        · next hdt =>
          cases hs
          refine ⟨fun i hi => ?_, fun i hg => h.gone i (gone_snoc_harmless harm hg), h.nodup, (fun hf => by cases hf), fun hf => ?_⟩
          · obtain ⟨h1, h2, h3⟩ := h.live i hi
            exact ⟨h1, h2.snoc _, fun hg => h3 (gone_snoc_harmless harm hg)⟩
          · intro hm
            rcases List.mem_append.mp hm with hm | hm
            · exact h.dP hf hm
            · cases List.mem_singleton.mp hm

theorem LInv.init : LInv [] {} :=
  ⟨nofun, (fun i h => by rcases h with h | ⟨n, h⟩ <;> cases h), List.nodup_nil, fun _ => nofun, fun _ => nofun⟩

/-- the checker's ledger after a prefix of a trace satisfies the invariant -/
theorem LInv.run (t0 t : List Ev) (L L' : Led) (h : LInv t0 L) (hr : run t L = some L') : LInv (t0 ++ t) L' := by
  induction t generalizing t0 L with
  | nil => cases hr; simpa using h
  | cons e t ih =>
    unfold Edn.Proofs.AllocLedger.run at hr
    cases hs : L.step e with
    | none => rw [hs] at hr; cases hr
    | some L1 =>
      rw [hs] at hr
      have := ih (t0 ++ [e]) L1 (h.step e hs) hr
      simpa using this

/-- a well-formed trace taken apart at one of its events -/
theorem traceOK_split {t1 t2 : List Ev} {e : Ev} (h : TraceOK (t1 ++ e :: t2)) :
    ∃ L1 L2 L, run t1 {} = some L1 ∧ LInv t1 L1 ∧ L1.step e = some L2 ∧ run t2 L2 = some L := by
  unfold TraceOK at h
  rw [run_append] at h
  cases h1 : run t1 {} with
  | none => rw [h1] at h; cases h
  | some L1 =>
    rw [h1] at h
    have h : (run (e :: t2) L1).isSome = true := h
    cases hs : L1.step e with
    | none => simp [Edn.Proofs.AllocLedger.run, hs] at h
    | some L2 =>
      have h : (run t2 L2).isSome = true := by simpa [Edn.Proofs.AllocLedger.run, hs] using h
      cases h2 : run t2 L2 with
      | none => rw [h2] at h; cases h
      | some L =>
        have := LInv.run [] t1 {} L1 LInv.init h1
        exact ⟨L1, L2, L, rfl, by simpa using this, hs, h2⟩

/-! ## A block that is gone stays gone -/

/-- block `i` has been handed out before and is not live -/
def Dead (i : Nat) (L : Led) : Prop := i ≤ L.last ∧ i ∉ L.live

theorem Dead.step {i : Nat} {L L' : Led} (e : Ev) (h : Dead i L) (hs : L.step e = some L') :
    Dead i L' ∧ e ≠ .free i ∧ ∀ n f, e ≠ .req .realloc n f i := by
  obtain ⟨h1, h2⟩ := h
  cases e with
  | req k id failed old =>
    unfold Led.step at hs
    by_cases hid : id = L.last + 1
    · subst hid
      simp only [bne_self_eq_false, Bool.false_eq_true, ↓reduceIte] at hs
      have hne : i ≠ L.last + 1 := by omega
      cases k with
      | arena =>
        simp only at hs
        split at hs
        · cases hs; exact ⟨⟨Nat.le_succ_of_le h1, h2⟩, nofun, nofun⟩
        · cases hs
      | arenaTmp =>
        simp only at hs
        split at hs
        · cases hs; exact ⟨⟨Nat.le_succ_of_le h1, h2⟩, nofun, nofun⟩
        · cases hs
      | malloc =>
        cases failed
        · simp only [Bool.false_eq_true, ↓reduceIte] at hs
          cases hs; exact ⟨⟨Nat.le_succ_of_le h1, fun hm => by rcases List.mem_cons.mp hm with hm | hm; exact hne hm; exact h2 hm⟩, nofun, nofun⟩
        · simp only [↓reduceIte] at hs
          cases hs; exact ⟨⟨Nat.le_succ_of_le h1, h2⟩, nofun, nofun⟩
      | calloc =>
        cases failed
        · simp only [Bool.false_eq_true, ↓reduceIte] at hs
          cases hs; exact ⟨⟨Nat.le_succ_of_le h1, fun hm => by rcases List.mem_cons.mp hm with hm | hm; exact hne hm; exact h2 hm⟩, nofun, nofun⟩
        · simp only [↓reduceIte] at hs
          cases hs; exact ⟨⟨Nat.le_succ_of_le h1, h2⟩, nofun, nofun⟩
      | arenaNew =>
        cases failed
        · simp only [Bool.false_eq_true, ↓reduceIte] at hs
          split at hs
          · cases hs; exact ⟨⟨Nat.le_succ_of_le h1, fun hm => by rcases List.mem_cons.mp hm with hm | hm; exact hne hm; exact h2 hm⟩, nofun, nofun⟩
          · cases hs; exact ⟨⟨Nat.le_succ_of_le h1, fun hm => h2 (List.mem_of_mem_erase hm)⟩, nofun, nofun⟩
        · simp only [↓reduceIte] at hs
          cases hs; exact ⟨⟨Nat.le_succ_of_le h1, h2⟩, nofun, nofun⟩
      | realloc =>
        simp only at hs
        split at hs
        · cases hs
        · next hold =>
          have hold : old ∈ L.live := by simpa using hold
          have hio : ∀ n f, Ev.req .realloc (L.last + 1) failed old ≠ .req .realloc n f i := by
            intro n f he; cases he; exact h2 hold
          cases failed
          · simp only [Bool.false_eq_true, ↓reduceIte] at hs
            cases hs
            exact ⟨⟨Nat.le_succ_of_le h1, fun hm => by rcases List.mem_cons.mp hm with hm | hm; exact hne hm; exact h2 (List.mem_of_mem_erase hm)⟩, nofun, hio⟩
          · simp only [↓reduceIte] at hs
            cases hs; exact ⟨⟨Nat.le_succ_of_le h1, h2⟩, nofun, hio⟩
    · have : (id != L.last + 1) = true := by simpa using hid
      simp only [this, ↓reduceIte] at hs
      cases hs
  | free id =>
    simp only [Led.step] at hs
    split at hs
    · next hc =>
      have hid : id ∈ L.live := by simpa using hc
      cases hs
      exact ⟨⟨h1, fun hm => h2 (List.mem_of_mem_erase hm)⟩, fun he => by cases he; exact h2 hid, nofun⟩
    · cases hs
  | destroy b =>
    simp only [Led.step] at hs
    split at hs
    · cases hs
    · cases b
      · simp only [Bool.false_eq_true, ↓reduceIte] at hs
        split at hs
        · cases hs
        · cases hs; exact ⟨⟨h1, h2⟩, nofun, nofun⟩
      · simp only [↓reduceIte] at hs
        split at hs
        · cases hs
        · cases hs; exact ⟨⟨h1, h2⟩, nofun, nofun⟩

theorem Dead.run {i : Nat} (t : List Ev) (L L' : Led) (h : Dead i L) (hr : run t L = some L') :
    Ev.free i ∉ t ∧ ∀ n f, Ev.req .realloc n f i ∉ t := by
  induction t generalizing L with
  | nil => exact ⟨nofun, fun _ _ => nofun⟩
  | cons e t ih =>
    unfold Edn.Proofs.AllocLedger.run at hr
    cases hs : L.step e with
    | none => rw [hs] at hr; cases hr
    | some L1 =>
      rw [hs] at hr
      obtain ⟨hd, h1, h2⟩ := h.step e hs
      obtain ⟨i1, i2⟩ := ih L1 hd hr
      refine ⟨fun hm => ?_, fun n f hm => ?_⟩
      · rcases List.mem_cons.mp hm with hm | hm
        · exact h1 hm.symm
        · exact i1 hm
      · rcases List.mem_cons.mp hm with hm | hm
        · exact h2 n f hm.symm
        · exact i2 n f hm

/-! ## The statements -/

/-- every `free` is of a block that a granted raw request has returned before -/
theorem free_has_request {t1 t2 : List Ev} {id : Nat} (h : TraceOK (t1 ++ .free id :: t2)) :
    ∃ k old, rawKind k ∧ Ev.req k id false old ∈ t1 := by
  obtain ⟨L1, L2, L, _, hinv, hs, _⟩ := traceOK_split h
  simp only [Led.step] at hs
  split at hs
  · next hc => exact (hinv.live id (by simpa using hc)).2.1
  · cases hs

/-- never twice: no other `free` of the same block, neither before nor after -/
theorem free_once {t1 t2 : List Ev} {id : Nat} (h : TraceOK (t1 ++ .free id :: t2)) :
    Ev.free id ∉ t1 ∧ Ev.free id ∉ t2 := by
  obtain ⟨L1, L2, L, _, hinv, hs, hr⟩ := traceOK_split h
  simp only [Led.step] at hs
  split at hs
  · next hc =>
    have hid : id ∈ L1.live := by simpa using hc
    obtain ⟨hle, _, hng⟩ := hinv.live id hid
    cases hs
    refine ⟨fun hm => hng (Or.inl hm), ?_⟩
    have hd : Dead id { L1 with live := L1.live.erase id, pend := if L1.pend == some id then none else L1.pend } :=
      ⟨hle, fun hm => ((hinv.nodup.mem_erase_iff).mp hm).1 rfl⟩
    exact (hd.run t2 _ L hr).1
  · cases hs

/-- a freed block has not been reallocated away before, and is not reallocated afterwards -/
theorem free_not_after_realloc {t1 t2 : List Ev} {id : Nat} (h : TraceOK (t1 ++ .free id :: t2)) :
    (∀ n, Ev.req .realloc n false id ∉ t1) ∧ (∀ n f, Ev.req .realloc n f id ∉ t2) := by
  obtain ⟨L1, L2, L, _, hinv, hs, hr⟩ := traceOK_split h
  simp only [Led.step] at hs
  split at hs
  · next hc =>
    have hid : id ∈ L1.live := by simpa using hc
    obtain ⟨hle, _, hng⟩ := hinv.live id hid
    cases hs
    refine ⟨fun n hm => hng (Or.inr ⟨n, hm⟩), ?_⟩
    have hd : Dead id { L1 with live := L1.live.erase id, pend := if L1.pend == some id then none else L1.pend } :=
      ⟨hle, fun hm => ((hinv.nodup.mem_erase_iff).mp hm).1 rfl⟩
    exact (hd.run t2 _ L hr).2
  · cases hs

/-- `realloc(old)`, granted or refused, is applied to a live block: one that a granted raw request
    has returned and that has neither been freed nor reallocated away -/
theorem realloc_of_live {t1 t2 : List Ev} {n old : Nat} {failed : Bool}
    (h : TraceOK (t1 ++ .req .realloc n failed old :: t2)) :
    (∃ k o, rawKind k ∧ Ev.req k old false o ∈ t1) ∧ Ev.free old ∉ t1 ∧ ∀ m, Ev.req .realloc m false old ∉ t1 := by
  obtain ⟨L1, L2, L, _, hinv, hs, _⟩ := traceOK_split h
  simp only [Led.step] at hs
  split at hs
  · cases hs
  · split at hs
    · cases hs
    · next hold =>
      have hold : old ∈ L1.live := by simpa using hold
      obtain ⟨_, hob, hng⟩ := hinv.live old hold
      exact ⟨hob, fun hm => hng (Or.inl hm), fun m hm => hng (Or.inr ⟨m, hm⟩)⟩

/-- after a granted `realloc(old)` the block `old` is neither freed nor reallocated again -/
theorem realloc_takes_away {t1 t2 : List Ev} {n old : Nat}
    (h : TraceOK (t1 ++ .req .realloc n false old :: t2)) :
    Ev.free old ∉ t2 ∧ ∀ m f, Ev.req .realloc m f old ∉ t2 := by
  obtain ⟨L1, L2, L, _, hinv, hs, hr⟩ := traceOK_split h
  simp only [Led.step] at hs
  split at hs
  · cases hs
  · next hn =>
    have hn : n = L1.last + 1 := by simpa using hn
    split at hs
    · cases hs
    · next hold =>
      have hold : old ∈ L1.live := by simpa using hold
      simp only [Bool.false_eq_true, ↓reduceIte] at hs
      cases hs
      have hle := (hinv.live old hold).1
      have hd : Dead old { L1 with last := n, live := n :: L1.live.erase old } := by
        refine ⟨by show old ≤ n; omega, fun hm => ?_⟩
        rcases List.mem_cons.mp hm with hm | hm
        · omega
        · exact ((hinv.nodup.mem_erase_iff).mp hm).1 rfl
      exact hd.run t2 _ L hr

/-- each arena is destroyed at most once -/
theorem destroy_once {t1 t2 : List Ev} {b : Bool} (h : TraceOK (t1 ++ .destroy b :: t2)) :
    Ev.destroy b ∉ t1 := by
  obtain ⟨L1, L2, L, _, hinv, hs, _⟩ := traceOK_split h
  simp only [Led.step] at hs
  split at hs
  · cases hs
  · cases b
    · simp only [Bool.false_eq_true, ↓reduceIte] at hs
      split at hs
      · cases hs
      · next hdp => exact hinv.dP (by simpa using hdp)
    · simp only [↓reduceIte] at hs
      split at hs
      · cases hs
      · next hdt => exact hinv.dT (by simpa using hdt)

end Edn.Proofs.AllocLedger
