/-
  Edn.Proofs.TextBlockAux3 — no line feed inside a rendered line (for the end-of-line rule).
-/
import Edn.Proofs.TextBlockAux2

namespace Edn.Proofs
open Edn.Model Edn.Spec

theorem tbBody_noLF (b : Bytes) (h : TbBody b) : ∀ c ∈ b, c ≠ 0x0A := by
  induction h with
  | nil => simp
  | esc r _ ih =>
    intro c hc
    simp only [List.mem_cons] at hc
    rcases hc with rfl | rfl | rfl | rfl | hc
    · decide
    · decide
    · decide
    · decide
    · exact ih c hc
  | plain a r hlf _ _ _ ih =>
    intro c hc
    simp only [List.mem_cons] at hc
    rcases hc with rfl | hc
    · exact hlf
    · exact ih c hc

theorem tbUnescape_mem (x : Bytes) : ∀ c ∈ tbUnescape x, c ∈ x := by
  induction x using tbUnescape.induct with
  | case1 r ih =>
    intro c hc
    rw [tbUnescape_esc] at hc
    simp only [List.mem_cons] at hc ⊢
    rcases hc with h | h | h | h
    · exact .inr (.inl h)
    · exact .inr (.inl h)
    · exact .inr (.inl h)
    · exact .inr (.inr (.inr (.inr (ih c h))))
  | case2 a r hne ih =>
    intro c hc
    have hp : ¬ [0x5C, 0x22, 0x22, 0x22] <+: a :: r := by
      rintro ⟨t, ht⟩
      have := ht.symm
      simp only [List.cons_append, List.nil_append, List.cons.injEq] at this
      exact hne t this.1 this.2
    rw [tbUnescape_cons a r hp] at hc
    simp only [List.mem_cons] at hc ⊢
    rcases hc with h | h
    · exact .inl h
    · exact .inr (ih c h)
  | case3 => simp [tbUnescape]

theorem tbUnescape_ne_nil (x : Bytes) (h : x ≠ []) : tbUnescape x ≠ [] := by
  cases x with
  | nil => exact absurd rfl h
  | cons a r =>
    by_cases hp : [0x5C, 0x22, 0x22, 0x22] <+: a :: r
    · obtain ⟨t, ht⟩ := hp
      rw [← ht]
      simp [tbUnescape_esc]
    · rw [tbUnescape_cons a r hp]; simp

theorem dropWhile_nil_all {α : Type} (p : α → Bool) (l : List α) (h : l.dropWhile p = []) :
    ∀ x ∈ l, p x = true := by
  induction l with
  | nil => simp
  | cons a r ih =>
    rw [List.dropWhile_cons] at h
    split at h
    · rename_i hp
      intro x hx
      rcases List.mem_cons.mp hx with rfl | hx
      · exact hp
      · exact ih h x hx
    · cases h

theorem trimRight_ne_nil (b : Bytes) (hb : b ≠ []) (hh : ∀ c, b.head? = some c → isBlank c = false) :
    trimRight b ≠ [] := by
  intro h
  cases b with
  | nil => exact hb rfl
  | cons a r =>
    have ha := hh a rfl
    unfold trimRight at h
    rw [List.reverse_eq_nil_iff] at h
    have := dropWhile_nil_all _ _ h a (by simp)
    rw [ha] at this
    exact Bool.noConfusion this

theorem trimRight_mem (b : Bytes) : ∀ c ∈ trimRight b, c ∈ b := by
  intro c hc
  rw [← trimRight_append b]
  exact List.mem_append_left _ hc

theorem lineText_noLF (n : Nat) (l : SrcLine) (hl : l.WF) : ∀ c ∈ lineText n l, c ≠ 0x0A := by
  intro c hc
  unfold lineText at hc
  split at hc
  · simp at hc
  · rcases List.mem_append.mp hc with h | h
    · have := hl.1 c (List.mem_of_mem_drop h)
      rintro rfl
      exact absurd this (by decide)
    · exact tbBody_noLF _ hl.2.2 c (trimRight_mem _ c (tbUnescape_mem _ c h))

theorem lineText_ne_nil (n : Nat) (l : SrcLine) (hl : l.WF) (hb : l.body ≠ []) : lineText n l ≠ [] := by
  unfold lineText
  rw [if_neg (by simpa using hb)]
  intro h
  exact tbUnescape_ne_nil _ (trimRight_ne_nil _ hb hl.2.1) (List.append_eq_nil_iff.mp h).2

end Edn.Proofs
