/-
  Edn.Proofs.AllocBasic — structural facts about the allocation state of Edn.Model.ReaderA:
  what one request does to the counter, the trace and the ledger; monotonicity (`ASt.Le`: the
  counter only grows, the trace is only extended) of every primitive and of the leaf readers;
  the number reader with abstracted value creation instantiated with `finishNum` is `readNumber`;
  the fast-path test used to decide about the heap copy is the one inside `parseDouble`; the leaf
  readers agree with their counterparts of Edn.Model.Reader when their request succeeds.
  (The simulation between `readValueA` and `readValue` is not here.)
-/
import Edn.Model.ReaderA

namespace Edn.Proofs.AllocBasic
open Edn.Model

/-! ## One request -/

theorem request_reqs (orc : Nat → Bool) (k : ReqKind) (a : ASt) (old : Nat) :
    (a.request orc k old).2.reqs = a.reqs + 1 := rfl

theorem request_trace (orc : Nat → Bool) (k : ReqKind) (a : ASt) (old : Nat) :
    (a.request orc k old).2.trace =
      .req k (a.reqs + 1) (orc (a.reqs + 1) || (k == .arena && a.arena != .alive)) old :: a.trace := rfl

theorem request_live (orc : Nat → Bool) (k : ReqKind) (a : ASt) (old : Nat) :
    (a.request orc k old).2.live = a.live := rfl

theorem request_arena (orc : Nat → Bool) (k : ReqKind) (a : ASt) (old : Nat) :
    (a.request orc k old).2.arena = a.arena := rfl

theorem request_tmp (orc : Nat → Bool) (k : ReqKind) (a : ASt) (old : Nat) :
    (a.request orc k old).2.tmp = a.tmp := rfl

theorem request_bufs (orc : Nat → Bool) (k : ReqKind) (a : ASt) (old : Nat) :
    (a.request orc k old).2.bufs = a.bufs := rfl

/-- the answer of a request: the oracle, and for the parser's arena its existence -/
theorem request_ok (orc : Nat → Bool) (k : ReqKind) (a : ASt) (old : Nat) :
    (a.request orc k old).1 = (!(orc (a.reqs + 1) || (k == .arena && a.arena != .alive))) := rfl

/-- the parser arena's count of refused requests moves exactly when an existing arena refuses -/
theorem request_failedArena (orc : Nat → Bool) (k : ReqKind) (a : ASt) (old : Nat) :
    (a.request orc k old).2.failedArena =
      if k == .arena && a.arena == .alive && orc (a.reqs + 1) then a.failedArena + 1 else a.failedArena := rfl

/-- raw requests and requests on the temporary arena never touch it -/
theorem request_failedArena_other (orc : Nat → Bool) (k : ReqKind) (a : ASt) (old : Nat) (hk : k ≠ .arena) :
    (a.request orc k old).2.failedArena = a.failedArena := by
  rw [request_failedArena]
  cases k <;> first | exact absurd rfl hk | rfl

/-- a granted request leaves it alone -/
theorem request_failedArena_granted (orc : Nat → Bool) (k : ReqKind) (a : ASt) (old : Nat)
    (h : (a.request orc k old).1 = true) : (a.request orc k old).2.failedArena = a.failedArena := by
  rw [request_failedArena]
  rw [request_ok] at h
  cases ho : orc (a.reqs + 1)
  · simp
  · rw [ho] at h; simp at h

/-- a request that the oracle fails, fails -/
theorem request_fails_of_orc (orc : Nat → Bool) (k : ReqKind) (a : ASt) (old : Nat)
    (h : orc (a.reqs + 1) = true) : (a.request orc k old).1 = false := by
  simp [request_ok, h]

/-- without an arena every request on it fails, whatever the oracle says -/
theorem request_fails_without_arena (orc : Nat → Bool) (a : ASt) (old : Nat)
    (h : a.arena ≠ .alive) : (a.request orc .arena old).1 = false := by
  have hb : (a.arena != ArenaSt.alive) = true := by
    cases ha : a.arena
    · rfl
    · exact absurd ha h
    · rfl
  rw [request_ok, hb]
  cases orc (a.reqs + 1) <;> rfl

/-- a request the oracle lets through succeeds when its arena exists (raw requests need none) -/
theorem request_succeeds (orc : Nat → Bool) (k : ReqKind) (a : ASt) (old : Nat)
    (h : orc (a.reqs + 1) = false) (hk : k = .arena → a.arena = .alive) :
    (a.request orc k old).1 = true := by
  rw [request_ok, h]
  cases k
  · rw [hk rfl]; rfl
  all_goals rfl

/-! ## Monotonicity -/

/-- `b` is a later state than `a`: at least as many requests, and the trace of `a` is the older
    part of the trace of `b` (traces are stored newest first) -/
def ASt.Le (a b : ASt) : Prop := a.reqs ≤ b.reqs ∧ a.trace <:+ b.trace

theorem Le.refl (a : ASt) : ASt.Le a a := ⟨Nat.le_refl _, List.suffix_refl _⟩

theorem Le.trans {a b c : ASt} (h1 : ASt.Le a b) (h2 : ASt.Le b c) : ASt.Le a c :=
  ⟨Nat.le_trans h1.1 h2.1, List.IsSuffix.trans h1.2 h2.2⟩

theorem request_le (orc : Nat → Bool) (k : ReqKind) (a : ASt) (old : Nat) :
    ASt.Le a (a.request orc k old).2 :=
  ⟨Nat.le_succ _, List.suffix_cons _ _⟩

theorem free_reqs (id : Nat) (a : ASt) : (a.free id).reqs = a.reqs := rfl

theorem free_le (id : Nat) (a : ASt) : ASt.Le a (a.free id) :=
  ⟨Nat.le_refl _, List.suffix_cons _ _⟩

theorem freeAll_le (ids : List Nat) (a : ASt) : ASt.Le a (a.freeAll ids) := by
  induction ids generalizing a with
  | nil => exact Le.refl a
  | cons i is ih =>
    show ASt.Le a ((a.free i).freeAll is)
    exact Le.trans (free_le i a) (ih (a.free i))

theorem freeAll_reqs (ids : List Nat) (a : ASt) : (a.freeAll ids).reqs = a.reqs := by
  induction ids generalizing a with
  | nil => rfl
  | cons i is ih =>
    show ((a.free i).freeAll is).reqs = a.reqs
    rw [ih (a.free i)]; rfl

theorem rawAlloc_reqs (orc : Nat → Bool) (k : ReqKind) (a : ASt) :
    (a.rawAlloc orc k).2.reqs = a.reqs + 1 := by
  unfold ASt.rawAlloc
  cases h : (a.request orc k).1 <;> simp [h, request_reqs]

theorem rawAlloc_le (orc : Nat → Bool) (k : ReqKind) (a : ASt) : ASt.Le a (a.rawAlloc orc k).2 := by
  unfold ASt.rawAlloc
  cases h : (a.request orc k).1 <;> simp only [h] <;> exact request_le orc k a 0

/-- the id of a block is the index of the request that returned it, and the block is live -/
theorem rawAlloc_some (orc : Nat → Bool) (k : ReqKind) (a : ASt) (i : Nat)
    (h : (a.rawAlloc orc k).1 = some i) :
    i = a.reqs + 1 ∧ (a.rawAlloc orc k).2.live = i :: a.live := by
  unfold ASt.rawAlloc at h ⊢
  cases hr : (a.request orc k).1
  · simp [hr] at h
  · simp only [hr, ↓reduceIte] at h ⊢
    have e : i = a.reqs + 1 := (Option.some.inj h).symm
    subst e
    exact ⟨rfl, rfl⟩

/-- a refused raw request leaves the ledger alone -/
theorem rawAlloc_none (orc : Nat → Bool) (k : ReqKind) (a : ASt)
    (h : (a.rawAlloc orc k).1 = none) : (a.rawAlloc orc k).2.live = a.live := by
  unfold ASt.rawAlloc at h ⊢
  cases hr : (a.request orc k).1
  · simp only [hr, Bool.false_eq_true, ↓reduceIte]; rfl
  · simp [hr] at h

theorem realloc_reqs (orc : Nat → Bool) (old : Nat) (a : ASt) :
    (a.realloc orc old).2.reqs = a.reqs + 1 := by
  unfold ASt.realloc
  cases h : (a.request orc .realloc old).1 <;> simp [h, request_reqs]

theorem realloc_le (orc : Nat → Bool) (old : Nat) (a : ASt) : ASt.Le a (a.realloc orc old).2 := by
  unfold ASt.realloc
  cases h : (a.request orc .realloc old).1 <;> simp only [h] <;> exact request_le orc .realloc a old

theorem arenaDestroy_le (tmp : Bool) (a : ASt) : ASt.Le a (a.arenaDestroy tmp) := by
  unfold ASt.arenaDestroy
  cases tmp <;> exact ⟨Nat.le_refl _, List.suffix_cons _ _⟩

theorem arenaDestroy_reqs (tmp : Bool) (a : ASt) : (a.arenaDestroy tmp).reqs = a.reqs := by
  unfold ASt.arenaDestroy
  cases tmp <;> rfl

theorem arenaCreate_le (orc : Nat → Bool) (tmp : Bool) (a : ASt) : ASt.Le a (a.arenaCreate orc tmp).2 := by
  unfold ASt.arenaCreate
  have h1 := rawAlloc_le orc .arenaNew a
  split
  · next a1 e1 => rw [e1] at h1; exact h1
  · next i a1 e1 =>
    rw [e1] at h1
    have h2 := rawAlloc_le orc .arenaNew a1
    split
    · next a2 e2 => rw [e2] at h2; exact Le.trans h1 (Le.trans h2 (free_le i a2))
    · next j a2 e2 =>
      rw [e2] at h2
      refine Le.trans h1 (Le.trans h2 ?_)
      cases tmp <;> exact ⟨Nat.le_refl _, List.suffix_refl _⟩

/-- `edn_arena_create` makes one or two requests -/
theorem arenaCreate_reqs (orc : Nat → Bool) (tmp : Bool) (a : ASt) :
    a.reqs + 1 ≤ (a.arenaCreate orc tmp).2.reqs ∧ (a.arenaCreate orc tmp).2.reqs ≤ a.reqs + 2 := by
  unfold ASt.arenaCreate
  have h1 := rawAlloc_reqs orc .arenaNew a
  split
  · next a1 e1 => rw [e1] at h1; simp only at h1 ⊢; omega
  · next i a1 e1 =>
    rw [e1] at h1
    have h2 := rawAlloc_reqs orc .arenaNew a1
    split
    · next a2 e2 => rw [e2] at h2; simp only [free_reqs] at h1 h2 ⊢; omega
    · next j a2 e2 =>
      rw [e2] at h2
      cases tmp <;> simp only [Bool.false_eq_true, ↓reduceIte] at h1 h2 ⊢ <;> omega

theorem rawAlloc_arena (orc : Nat → Bool) (k : ReqKind) (a : ASt) : (a.rawAlloc orc k).2.arena = a.arena := by
  unfold ASt.rawAlloc
  cases hq : (a.request orc k).1 <;> simp [hq, request_arena]

/-- a failed creation leaves the arena field as it was (no arena) -/
theorem arenaCreate_failed_parser (orc : Nat → Bool) (a : ASt) (h : (a.arenaCreate orc false).1 = false) :
    (a.arenaCreate orc false).2.arena = a.arena := by
  unfold ASt.arenaCreate at h ⊢
  have h1 := rawAlloc_arena orc .arenaNew a
  split
  · next a1 e1 => rw [e1] at h1; exact h1
  · next i a1 e1 =>
    rw [e1] at h1 h
    have h2 := rawAlloc_arena orc .arenaNew a1
    split
    · next a2 e2 => rw [e2] at h2; show (a2.free i).arena = a.arena; rw [← h1, ← h2]; rfl
    · next j a2 e2 => dsimp only at h; rw [e2] at h; simp at h

/-! ## Lazily materialised payloads -/

theorem strContentA_le (x : ACtx) (h : Hdr) (data : Bytes) (esc : Bool) (a : ASt) :
    ASt.Le a (strContentA x h data esc a).2 := by
  unfold strContentA
  split
  · exact Le.refl a
  · split
    · exact Le.refl a
    · cases hr : (a.request x.orc .arena).1
      · simp only [hr]; exact request_le x.orc .arena a 0
      · simp only [hr]
        cases decodeString x.ctx.cfg (data.length + 1) data with
        | none => exact request_le x.orc .arena a 0
        | some d => exact ⟨Nat.le_succ _, List.suffix_cons _ _⟩

/-- a literal without escapes is looked at without any request -/
theorem strContentA_plain (x : ACtx) (h : Hdr) (data : Bytes) (a : ASt) :
    strContentA x h data false a = ((true, data), a) := by
  simp [strContentA]

/-- once the decoded text exists no further request is made and the content is the pure one -/
theorem strContentA_cached (x : ACtx) (h : Hdr) (data : Bytes) (a : ASt) (hc : a.bufs.contains h.s = true) :
    strContentA x h data true a = (stringContent x.ctx.cfg data true, a) := by
  unfold strContentA
  rw [hc]
  rfl

/-- a successful request gives the pure content -/
theorem strContentA_granted (x : ACtx) (h : Hdr) (data : Bytes) (esc : Bool) (a : ASt)
    (hok : (a.request x.orc .arena).1 = true) :
    (strContentA x h data esc a).1 = stringContent x.ctx.cfg data esc := by
  unfold strContentA stringContent
  cases esc with
  | false => simp
  | true =>
    simp only [Bool.not_true, Bool.false_eq_true, ↓reduceIte]
    split
    · rfl
    · simp only [hok, Bool.not_true, Bool.false_eq_true, ↓reduceIte]
      cases decodeString x.ctx.cfg (data.length + 1) data <;> rfl

theorem cleanA_le (x : ACtx) (h : Hdr) (d : Bytes) (a : ASt) : ASt.Le a (cleanA x h d a).2 := by
  unfold cleanA
  split
  · exact Le.refl a
  · split
    · exact Le.refl a
    · cases hr : (a.request x.orc .arena).1
      · simp only [hr]; exact request_le x.orc .arena a 0
      · simp only [hr]; exact ⟨Nat.le_succ _, List.suffix_cons _ _⟩

/-- digits without underscores (always so without the experimental flag) need no request -/
theorem cleanA_plain (x : ACtx) (h : Hdr) (d : Bytes) (a : ASt)
    (hp : (x.ctx.cfg.exp && d.contains 0x5F) = false) : cleanA x h d a = (some d, a) := by
  unfold cleanA
  rw [hp]
  rfl

/-! ## Leaf readers -/

theorem readIdentifierA_le (x : ACtx) (st : St) (a : ASt) : ASt.Le a (readIdentifierA x st a).2 := by
  unfold readIdentifierA
  cases readIdentifier x.ctx st with
  | ok v st' =>
    cases hr : (a.request x.orc .arena).1 <;> simp only [hr] <;> exact request_le x.orc .arena a 0
  | closer st' => exact Le.refl a
  | err e st' => exact Le.refl a

theorem readCharacterA_le (x : ACtx) (st : St) (a : ASt) : ASt.Le a (readCharacterA x st a).2 := by
  unfold readCharacterA
  cases readCharacter x.ctx st with
  | ok v st' =>
    cases hr : (a.request x.orc .arena).1 <;> simp only [hr] <;> exact request_le x.orc .arena a 0
  | closer st' => exact Le.refl a
  | err e st' => exact Le.refl a

theorem readSymbolicA_le (x : ACtx) (st : St) (a : ASt) : ASt.Le a (readSymbolicA x st a).2 := by
  unfold readSymbolicA
  cases readSymbolic x.ctx st with
  | ok v st' =>
    cases hr : (a.request x.orc .arena).1 <;> simp only [hr] <;> exact request_le x.orc .arena a 0
  | closer st' => exact Le.refl a
  | err e st' => exact Le.refl a

/-- with its request granted the identifier reader is the one of Edn.Model.Reader -/
theorem readIdentifierA_granted (x : ACtx) (st : St) (a : ASt)
    (hok : (a.request x.orc .arena).1 = true) : (readIdentifierA x st a).1 = readIdentifier x.ctx st := by
  unfold readIdentifierA
  cases readIdentifier x.ctx st <;> simp [hok]

theorem readCharacterA_granted (x : ACtx) (st : St) (a : ASt)
    (hok : (a.request x.orc .arena).1 = true) : (readCharacterA x st a).1 = readCharacter x.ctx st := by
  unfold readCharacterA
  cases readCharacter x.ctx st <;> simp [hok]

theorem readSymbolicA_granted (x : ACtx) (st : St) (a : ASt)
    (hok : (a.request x.orc .arena).1 = true) : (readSymbolicA x st a).1 = readSymbolic x.ctx st := by
  unfold readSymbolicA
  cases readSymbolic x.ctx st <;> simp [hok]

/-- an error of the pure leaf reader is reproduced without any request -/
theorem readIdentifierA_err (x : ACtx) (st : St) (a : ASt) (e : ErrInfo) (st' : St)
    (h : readIdentifier x.ctx st = .err e st') : readIdentifierA x st a = (.err e st', a) := by
  simp [readIdentifierA, h]

/-- a refused value is OUT_OF_MEMORY without a range, after the token for an identifier … -/
theorem readIdentifierA_refused (x : ACtx) (st : St) (a : ASt) (v : Val) (st' : St)
    (h : readIdentifier x.ctx st = .ok v st') (hno : (a.request x.orc .arena).1 = false) :
    (readIdentifierA x st a).1 = .err oomErr st' := by
  simp [readIdentifierA, h, hno]

/-- … and before it for a character literal -/
theorem readCharacterA_refused (x : ACtx) (st : St) (a : ASt) (v : Val) (st' : St)
    (h : readCharacter x.ctx st = .ok v st') (hno : (a.request x.orc .arena).1 = false) :
    (readCharacterA x st a).1 = .err oomErr st := by
  simp [readCharacterA, h, hno]

/-! ## Builders -/

theorem BSt.add_le (x : ACtx) (b : BSt) (a : ASt) : ASt.Le a (b.add x a).2 := by
  unfold BSt.add
  split
  · cases hr : (a.request x.orc .arena).1 <;> simp only [hr] <;> exact request_le x.orc .arena a 0
  · exact Le.refl a

/-- an add that does not need to grow makes no request and cannot fail -/
theorem BSt.add_room (x : ACtx) (b : BSt) (a : ASt) (h : b.count < b.cap) :
    b.add x a = (some { b with count := b.count + 1 }, a) := by
  unfold BSt.add
  simp [Nat.not_le.mpr h]

theorem BSt.finish_le (x : ACtx) (b : BSt) (a : ASt) : ASt.Le a (b.finish x a).2 := by
  unfold BSt.finish
  split
  · exact request_le x.orc .arena a 0
  · exact Le.refl a

/-- an empty collection, or one whose array already lives in the arena, finishes without a request -/
theorem BSt.finish_free (x : ACtx) (b : BSt) (a : ASt) (h : b.heap = true ∨ b.count = 0) :
    b.finish x a = (true, a) := by
  unfold BSt.finish
  cases h with
  | inl h => simp [h]
  | inr h => simp [h]

theorem BSt.addPair_le (x : ACtx) (b : BSt) (a : ASt) : ASt.Le a (b.addPair x a).2 := by
  unfold BSt.addPair
  split
  · have h1 := request_le x.orc .arena a 0
    have h2 := request_le x.orc .arena (a.request x.orc .arena).2 0
    cases hr1 : (a.request x.orc .arena).1 <;>
      cases hr2 : ((a.request x.orc .arena).2.request x.orc .arena).1 <;>
        simp only [hr1, hr2, Bool.and_self, Bool.and_false, Bool.false_and, Bool.false_eq_true, ↓reduceIte] <;>
          exact Le.trans h1 h2
  · exact Le.refl a

/-! ## Numbers -/

theorem radixTailK_eq (cfg : Cfg) (neg : Bool) (radix : Nat) (allowN : Bool) (digitsStart s : Bytes) :
    radixTailK cfg finishNumK NumOut.err neg radix allowN digitsStart s = radixTail cfg neg radix allowN digitsStart s := by
  unfold radixTailK radixTail finishNumK
  simp only [↓reduceIte]

theorem decimalTailK_eq (cfg : Cfg) (start : Bytes) (neg hasDec hasExp : Bool) (digitsStart s : Bytes) :
    decimalTailK cfg finishNumK NumOut.err start neg hasDec hasExp digitsStart s =
      decimalTail cfg start neg hasDec hasExp digitsStart s := by
  unfold decimalTailK decimalTail finishNumK
  simp only [↓reduceIte, Bool.false_eq_true]
  rfl

theorem exponentPartK_eq (cfg : Cfg) (start : Bytes) (neg hasDec : Bool) (digitsStart s : Bytes) :
    exponentPartK cfg finishNumK NumOut.err start neg hasDec digitsStart s =
      exponentPart cfg start neg hasDec digitsStart s := by
  unfold exponentPartK exponentPart
  simp only [decimalTailK_eq]

theorem afterMantissaK_eq (cfg : Cfg) (start : Bytes) (neg hasDec : Bool) (digitsStart s : Bytes) :
    afterMantissaK cfg finishNumK NumOut.err start neg hasDec digitsStart s =
      afterMantissa cfg start neg hasDec digitsStart s := by
  unfold afterMantissaK afterMantissa
  simp only [decimalTailK_eq, exponentPartK_eq]

theorem decimalPartK_eq (cfg : Cfg) (start : Bytes) (neg : Bool) (digitsStart s : Bytes) :
    decimalPartK cfg finishNumK NumOut.err start neg digitsStart s = decimalPart cfg start neg digitsStart s := by
  unfold decimalPartK decimalPart
  simp only [afterMantissaK_eq]

theorem finishNumK_true (v : NumVal) (s : Bytes) : finishNumK v s true = finishNum v s := rfl
theorem finishNumK_false (v : NumVal) (s : Bytes) : finishNumK v s false = .ok v s := rfl

/-- the number reader with abstracted value creation, instantiated with the pure value creation,
    is the number reader of Edn.Model.Number.  (After the rewriting both sides are the same text;
    they differ in the names of the auxiliary matchers only, which are unfolded by name.) -/
theorem readNumberK_eq (cfg : Cfg) (s : Bytes) :
    readNumberK cfg finishNumK NumOut.err s = readNumber cfg s := by
  unfold readNumberK readNumber
  simp -zeta only [radixTailK_eq, decimalPartK_eq, exponentPartK_eq, afterMantissaK_eq, finishNumK_true,
    finishNumK_false]
  delta readNumberK.match_5 readNumber.match_3 readNumberK.match_3 readNumber.match_1 readNumberK.match_1
    parseDouble.match_1 decimalTailK.match_4 decimalTail.match_4
  rfl

/-- `parseDouble` is the fast path when it applies and `strtod` otherwise; `parseDoubleFastOpt` is
    that fast path -/
theorem parseDouble_eq (cfg : Cfg) (text : Bytes) :
    parseDouble cfg text = (match parseDoubleFastOpt cfg text with
                           | some r => r
                           | none => strtodSpec text) := by
  unfold parseDouble parseDoubleFastOpt
  rfl

/-- a literal that fits the stack buffer never reaches the heap -/
theorem floatNeedsHeap_short (cfg : Cfg) (text : Bytes) (h : text.length < floatStackBuffer) :
    floatNeedsHeap cfg text = false := by
  unfold floatNeedsHeap
  simp [Nat.not_le.mpr h]

/-! ## The duplicate check -/

theorem hasDuplicatesA_small (x : ACtx) (xs : List Val) (a : ASt) (h : xs.length ≤ 1) :
    hasDuplicatesA x xs a = ((false, xs), a) := by
  simp [hasDuplicatesA, h]

end Edn.Proofs.AllocBasic
