/-
  Edn.Proofs.CljNumberSoundAux5 — the number reader with the Clojure flag: completeness of the
  body of `edn_read_number` (after the sign) on each class of token.
-/
import Edn.Spec.CljNumLit
import Edn.Proofs.NumberReader
import Edn.Proofs.CljNumberSoundAux1
import Edn.Proofs.CljNumberSoundAux2
import Edn.Proofs.CljNumberSoundAux3
import Edn.Proofs.CljNumberSoundAux4

namespace Edn.Proofs.CljN
open Edn.Model Edn.Spec Edn.Proofs Edn.Proofs.CNum

/-! ## the stages on well-formed input -/

/-- the radix test fails on bytes without `r` / `R` -/
theorem radixPart_none' (cfg : Cfg) (neg : Bool) (w T : Bytes) (hw : ∀ c ∈ w, OkB c)
    (hT1 : is09 (peek T) = false) (hT2 : (peek T == 0x72 || peek T == 0x52) = false) :
    radixPart cfg neg (w ++ T) = none := by
  obtain ⟨run, W, rfl, hrun, hW, -⟩ := dropWhile_split is09 (by decide) w
  cases W with
  | nil =>
    rw [List.append_nil]
    exact radixPart_none cfg neg run T hrun hT1 hT2
  | cons c W' =>
    have hc := hw c (by simp)
    have e : (run ++ c :: W') ++ T = run ++ (c :: (W' ++ T)) := by simp
    rw [e]
    refine radixPart_none cfg neg run _ hrun hW ?_
    have h1 : (c == 0x72) = false := by simpa using hc.1
    have h2 : (c == 0x52) = false := by simpa using hc.2.1
    simp [peek_cons, h1, h2]

theorem numBody_zeros (cfg : Cfg) (hc : cfg.clj = true) (s0 : Bytes) (neg : Bool) (zs X : Bytes) (hz : ZeroRun zs)
    (hrad : radixPart cfg neg (zs ++ X) = none) (hstop : NRd.stopA (peek X) = true) :
    numBody cfg s0 neg (zs ++ X) = zeroRest cfg s0 neg (zs ++ X) X := by
  have hsp := NRd.stopA_unpack hstop
  have hpk : (peek (zs ++ X) == 0x30) = true := by
    obtain ⟨t, rfl, -⟩ := zeroRun_cons hz
    rfl
  rw [numBody_stages, hrad]
  simp only [hpk, ↓reduceIte]
  rw [zeroPart_eq cfg hc s0 neg zs X hz hsp.2.2.2.2.2.2.1]
  simp only [hsp.2.2.2.2.1, hsp.2.2.2.2.2.1, hsp.2.2.2.2.2.2.2.1, hsp.2.2.2.2.2.2.2.2.1,
    hsp.2.2.2.2.2.2.2.2.2, Bool.or_self, Bool.false_eq_true, ↓reduceIte]

theorem numBody_nz (cfg : Cfg) (s0 : Bytes) (neg : Bool) (ip X : Bytes) (hn : NzRun cfg.exp ip)
    (hrad : radixPart cfg neg (ip ++ X) = none) (h1 : is09 (peek X) = false) (h2 : (peek X == 0x5F) = false) :
    numBody cfg s0 neg (ip ++ X) = afterIp cfg s0 neg (ip ++ X) X := by
  have hpk : (peek (ip ++ X) == 0x30) = false := by
    obtain ⟨d, t, rfl, -, hd0, -⟩ := nzRun_cons hn
    simpa [peek_cons] using hd0
  rw [numBody_stages, hrad]
  simp only [hpk, Bool.false_eq_true, ↓reduceIte]
  exact nonzeroPart_eq cfg s0 neg _ X
    (decLoop_run cfg.exp X h1 (fun _ => h2) ip _ (nzRun_uRun hn) hn.2.2 (by simp))

theorem zeroRest_afterIp (cfg : Cfg) (s0 : Bytes) (neg : Bool) (zs X : Bytes) (hz : ZeroRun zs)
    (h : peek X = 0x2E ∨ peek X = 0x65 ∨ peek X = 0x45) :
    zeroRest cfg s0 neg (zs ++ X) X = afterIp cfg s0 neg (zs ++ X) X := by
  have hl : lastIsUnderscore (zs ++ X) X = false :=
    (lastIsUnderscore_iff zs X).mpr (noTrailU_of_not_mem (zeroRun_noU hz))
  unfold zeroRest afterIp
  rcases h with h | h | h
  · simp only [h, BEq.rfl, ↓reduceIte]
  · have e1 : ((0x65 : UInt8) == 0x2E) = false := by decide
    have e2 : ((0x65 : UInt8) == 0x4E) = false := by decide
    have e3 : ((0x65 : UInt8) == 0x4D) = false := by decide
    unfold afterMantissa
    simp only [h, e1, e2, e3, BEq.rfl, Bool.true_or, Bool.false_eq_true, ↓reduceIte, hl, Bool.and_false]
  · have e1 : ((0x45 : UInt8) == 0x2E) = false := by decide
    have e2 : ((0x45 : UInt8) == 0x4E) = false := by decide
    have e3 : ((0x45 : UInt8) == 0x4D) = false := by decide
    unfold afterMantissa
    simp only [h, e1, e2, e3, BEq.rfl, Bool.or_true, Bool.false_eq_true, ↓reduceIte, hl, Bool.and_false]

/-- the byte after the integer part of a mantissa -/
theorem peekX_facts {exp : Bool} {fr ex T : Bytes} (hfr : CljFrac exp fr) (hex : CljExp exp ex)
    (hT : stopProps (peek T) = true) :
    NRd.stopA (peek (fr ++ (ex ++ T))) = true ∧
      ((fr ≠ [] ∨ ex ≠ []) → peek (fr ++ (ex ++ T)) = 0x2E ∨ peek (fr ++ (ex ++ T)) = 0x65 ∨
        peek (fr ++ (ex ++ T)) = 0x45) := by
  rcases hfr with rfl | ⟨fd, rfl, -, -⟩
  · rcases hex with rfl | ⟨e, es, ed, rfl, he, -, -⟩
    · refine ⟨NRd.stopA_of_stopProps hT, ?_⟩
      rintro (h | h) <;> exact absurd rfl h
    · rcases he with rfl | rfl
      · exact ⟨(by decide : NRd.stopA 0x65 = true), fun _ => Or.inr (Or.inl rfl)⟩
      · exact ⟨(by decide : NRd.stopA 0x45 = true), fun _ => Or.inr (Or.inr rfl)⟩
  · exact ⟨(by decide : NRd.stopA 0x2E = true), fun _ => Or.inl rfl⟩

theorem mantissa_okB {exp : Bool} {ip fr ex : Bytes} (hm : CljMantissa exp ip fr ex) :
    ∀ c ∈ ip ++ fr ++ ex, OkB c := by
  intro c hc
  simp only [List.mem_append] at hc
  rcases hc with (hc | hc) | hc
  · exact cljInt_okB hm.hip c hc
  · exact cljFrac_okB hm.hfr c hc
  · exact cljExp_okB hm.hex c hc

/-- a decimal mantissa (other than a bare run of zeros) leads to `decimalTail` at its end -/
theorem decimal_fwd (cfg : Cfg) (hc : cfg.clj = true) (s0 : Bytes) (neg : Bool) (ip fr ex T : Bytes)
    (hm : CljMantissa cfg.exp ip fr ex) (hz : ZeroRun ip → fr ≠ [] ∨ ex ≠ [])
    (hT : stopProps (peek T) = true) :
    numBody cfg s0 neg (ip ++ (fr ++ (ex ++ T))) =
      decimalTail cfg s0 neg (!fr.isEmpty) (!ex.isEmpty) (ip ++ (fr ++ (ex ++ T))) T := by
  have hsp := stopProps_unpack hT
  have hrad : radixPart cfg neg (ip ++ (fr ++ (ex ++ T))) = none := by
    have e : ip ++ (fr ++ (ex ++ T)) = (ip ++ fr ++ ex) ++ T := by simp
    rw [e]
    exact radixPart_none' cfg neg _ T (mantissa_okB hm) hsp.1 (by simp [hsp.2.2.1, hsp.2.2.2.1])
  obtain ⟨hstopA, hpkX⟩ := peekX_facts hm.hfr hm.hex hT
  have hsA := NRd.stopA_unpack hstopA
  have hsep : ex ≠ [] → NoTrailU (ip ++ fr) :=
    fun hne => noTrailU_append_of (cljInt_noTrail hm.hip) (hm.hsep hne)
  rcases hm.hip with hzr | hn
  · rw [numBody_zeros cfg hc s0 neg ip _ hzr hrad hstopA,
      zeroRest_afterIp cfg s0 neg ip _ hzr (hpkX (hz hzr))]
    exact afterIp_fwd cfg s0 neg ip fr ex T hm.hfr hm.hex hsep hT
  · rw [numBody_nz cfg s0 neg ip _ hn hrad hsA.1 hsA.2.1]
    exact afterIp_fwd cfg s0 neg ip fr ex T hm.hfr hm.hex hsep hT

theorem mantissa_int {exp : Bool} {ip : Bytes} (hip : CljInt exp ip) : CljMantissa exp ip [] [] :=
  ⟨hip, Or.inl rfl, Or.inl rfl, fun h => absurd rfl h⟩

/-- a bare run of zeros leads to `zeroRest` -/
theorem zeros_fwd (cfg : Cfg) (hc : cfg.clj = true) (s0 : Bytes) (neg : Bool) (zs T : Bytes) (hz : ZeroRun zs)
    (hT : stopProps (peek T) = true) :
    numBody cfg s0 neg (zs ++ T) = zeroRest cfg s0 neg (zs ++ T) T := by
  have hsp := stopProps_unpack hT
  refine numBody_zeros cfg hc s0 neg zs T hz ?_ (NRd.stopA_of_stopProps hT)
  exact radixPart_none' cfg neg zs T (cljInt_okB (exp := cfg.exp) (Or.inl hz)) hsp.1
    (by simp [hsp.2.2.1, hsp.2.2.2.1])

/-! ## the decimal classes -/

theorem body_dec (cfg : Cfg) (hc : cfg.clj = true) (s0 : Bytes) (neg : Bool) (ip rest : Bytes)
    (hip : CljInt cfg.exp ip) (ht : TermStart rest) :
    numBody cfg s0 neg (ip ++ rest) = .ok (intPayload neg 10 ip) rest := by
  have hst := term_props (peek_term ht)
  have h2 := stopProps2_unpack hst
  have hsp := stopProps_unpack h2.1
  rcases hip with hz | hn
  · rw [zeros_fwd cfg hc s0 neg ip rest hz h2.1, intPayload_zeros neg ip hz]
    unfold zeroRest
    simp only [hsp.2.2.2.2.1, hsp.2.2.2.2.2.1, hsp.2.2.2.2.2.2.1, h2.2.1, h2.2.2.1, h2.2.2.2,
      Bool.or_self, Bool.and_false, Bool.false_eq_true, ↓reduceIte]
    exact finishNum_term _ ht
  · have := decimal_fwd cfg hc s0 neg ip [] [] rest (mantissa_int (Or.inr hn))
      (fun hz => by
        exfalso
        obtain ⟨d, t, rfl, -, hd0, -⟩ := nzRun_cons hn
        obtain ⟨t', e, -⟩ := zeroRun_cons hz
        injection e with e1 _
        exact hd0 e1) h2.1
    simp only [List.nil_append, List.isEmpty_nil, Bool.not_true] at this
    rw [this, decimalTail_int cfg s0 neg ip rest hst, finishNum_term _ ht,
      intOrBig_run cfg 10 (by omega) ip neg (nzRun_digRun hn)]

theorem nz_not_zero {exp : Bool} {ip : Bytes} (hn : NzRun exp ip) : ZeroRun ip → False := by
  intro hz
  obtain ⟨d, t, rfl, -, hd0, -⟩ := nzRun_cons hn
  obtain ⟨t', e, -⟩ := zeroRun_cons hz
  injection e with e1 _
  exact hd0 e1

theorem nz_zeroNorm {exp : Bool} {ip : Bytes} (hn : NzRun exp ip) : zeroNorm ip = ip := by
  obtain ⟨d, t, rfl, -, hd0, -⟩ := nzRun_cons hn
  exact zeroNorm_of_mem (c := d) (by simp) hd0

theorem body_decN (cfg : Cfg) (hc : cfg.clj = true) (s0 : Bytes) (neg : Bool) (ip rest : Bytes)
    (hip : CljInt cfg.exp ip) (ht : TermStart rest) :
    numBody cfg s0 neg (ip ++ 0x4E :: rest) = .ok (.bigint neg 10 (zeroNorm ip)) rest := by
  have hN : stopProps (peek (0x4E :: rest)) = true := by
    show stopProps 0x4E = true
    decide
  rcases hip with hz | hn
  · rw [zeros_fwd cfg hc s0 neg ip _ hz hN, zeroNorm_zeros hz]
    have hpk : peek (0x4E :: rest) = 0x4E := rfl
    have hadv : adv (0x4E :: rest) = rest := rfl
    have e1 : ((0x4E : UInt8) == 0x2E) = false := by decide
    unfold zeroRest
    simp only [hpk, hadv, e1, BEq.rfl, Bool.false_eq_true, ↓reduceIte]
    exact finishNum_term _ ht
  · have := decimal_fwd cfg hc s0 neg ip [] [] (0x4E :: rest) (mantissa_int (Or.inr hn))
      (fun hz => (nz_not_zero hn hz).elim) hN
    simp only [List.nil_append, List.isEmpty_nil, Bool.not_true] at this
    rw [this, decimalTail_N cfg s0 neg ip rest hn.2.2, finishNum_term _ ht, nz_zeroNorm hn]

theorem body_float (cfg : Cfg) (hc : cfg.clj = true) (s0 : Bytes) (neg : Bool) (ip fr ex rest : Bytes)
    (hm : CljMantissa cfg.exp ip fr ex) (hne : fr ≠ [] ∨ ex ≠ []) (ht : TermStart rest) :
    numBody cfg s0 neg (ip ++ (fr ++ (ex ++ rest))) = .ok (.float (parseDouble cfg (slice s0 rest))) rest := by
  have hst := term_props (peek_term ht)
  have h2 := stopProps2_unpack hst
  have hb : (!fr.isEmpty || !ex.isEmpty) = true := by
    rcases hne with h | h
    · cases fr with
      | nil => exact absurd rfl h
      | cons _ _ => rfl
    · cases ex with
      | nil => exact absurd rfl h
      | cons _ _ => simp
  rw [decimal_fwd cfg hc s0 neg ip fr ex rest hm (fun _ => hne) h2.1,
    NRd.decimalTail_float cfg s0 neg _ _ _ rest hst hb, finishNum_term _ ht]

theorem body_decM (cfg : Cfg) (hc : cfg.clj = true) (s0 : Bytes) (neg : Bool) (ip fr ex rest : Bytes)
    (hm : CljMantissa cfg.exp ip fr ex) (hu : NoTrailU (ip ++ fr ++ ex)) (ht : TermStart rest) :
    numBody cfg s0 neg (ip ++ (fr ++ (ex ++ 0x4D :: rest))) =
      .ok (.bigdec neg (zeroNorm (ip ++ fr ++ ex))) rest := by
  have hM : stopProps (peek (0x4D :: rest)) = true := by
    show stopProps 0x4D = true
    decide
  by_cases hz : ZeroRun ip ∧ fr = [] ∧ ex = []
  · obtain ⟨hz, rfl, rfl⟩ := hz
    simp only [List.nil_append, List.append_nil]
    rw [zeros_fwd cfg hc s0 neg ip _ hz hM, zeroNorm_zeros hz]
    have hpk : peek (0x4D :: rest) = 0x4D := rfl
    have hadv : adv (0x4D :: rest) = rest := rfl
    have e1 : ((0x4D : UInt8) == 0x2E) = false := by decide
    have e2 : ((0x4D : UInt8) == 0x4E) = false := by decide
    unfold zeroRest
    simp only [hpk, hadv, e1, e2, BEq.rfl, Bool.false_eq_true, ↓reduceIte]
    exact finishNum_term _ ht
  · have hz' : ZeroRun ip → fr ≠ [] ∨ ex ≠ [] := by
      intro hzr
      by_cases h1 : fr = []
      · by_cases h2 : ex = []
        · exact absurd ⟨hzr, h1, h2⟩ hz
        · exact Or.inr h2
      · exact Or.inl h1
    have hnz : fr = [] → ex = [] → NzRun cfg.exp ip := by
      intro h1 h2
      rcases hm.hip with hzr | hn
      · exact absurd ⟨hzr, h1, h2⟩ hz
      · exact hn
    have e : ip ++ (fr ++ (ex ++ 0x4D :: rest)) = (ip ++ fr ++ ex) ++ 0x4D :: rest := by simp
    rw [decimal_fwd cfg hc s0 neg ip fr ex _ hm hz' hM, e,
      decimalTail_M' cfg s0 neg _ _ _ rest hu, finishNum_term _ ht, zeroNorm_body hm.hfr hm.hex hnz]

theorem body_ratio (cfg : Cfg) (hc : cfg.clj = true) (s0 : Bytes) (neg : Bool) (nd dd rest : Bytes)
    (hn : NzRun cfg.exp nd) (hd : RatioDen dd)
    (hend : TermStart rest ∨ ((∃ i, ratioValue cfg neg nd dd = .int i) ∧ DelimStart rest)) :
    numBody cfg s0 neg (nd ++ 0x2F :: (dd ++ rest)) = .ok (ratioValue cfg neg nd dd) rest := by
  have hS : stopProps (peek (0x2F :: (dd ++ rest))) = true := by
    show stopProps 0x2F = true
    decide
  have hdl : DelimStart rest := by
    rcases hend with h | ⟨-, h⟩
    · exact delimStart_of_term h
    · exact h
  have := decimal_fwd cfg hc s0 neg nd [] [] (0x2F :: (dd ++ rest)) (mantissa_int (Or.inr hn))
    (fun hz => (nz_not_zero hn hz).elim) hS
  simp only [List.nil_append, List.isEmpty_nil, Bool.not_true] at this
  rw [this, decimalTail_slash cfg hc s0 neg nd _ hn.2.2]
  unfold ratioBranch
  rw [ratioDen_fwd dd rest hd hdl]
  simp only [slice_append]
  have hpn : ∃ V, parseInt64 cfg nd 10 neg = inRange neg V :=
    ⟨_, parseInt64_run cfg 10 (by omega) nd neg (nzRun_digRun hn)⟩
  rcases ratioOut_eq cfg neg nd dd rest hpn hd with ⟨i, hv, ho⟩ | ⟨hni, ho⟩
  · rw [ho, hv]
  · rw [ho]
    rcases hend with h | ⟨⟨i, hi⟩, -⟩
    · exact finishNum_term _ h
    · exact absurd hi (hni i)

theorem body_zeroRatio (cfg : Cfg) (hc : cfg.clj = true) (s0 : Bytes) (neg : Bool) (zs dd rest : Bytes)
    (hz : ZeroRun zs) (hd : RatioDen dd) (hdl : DelimStart rest) :
    numBody cfg s0 neg (zs ++ 0x2F :: (dd ++ rest)) = .ok (.int 0) rest := by
  have hS : stopProps (peek (0x2F :: (dd ++ rest))) = true := by
    show stopProps 0x2F = true
    decide
  rw [zeros_fwd cfg hc s0 neg zs _ hz hS]
  have hpk : peek (0x2F :: (dd ++ rest)) = 0x2F := rfl
  have hadv : adv (0x2F :: (dd ++ rest)) = dd ++ rest := rfl
  have e1 : ((0x2F : UInt8) == 0x2E) = false := by decide
  have e2 : ((0x2F : UInt8) == 0x4E) = false := by decide
  have e3 : ((0x2F : UInt8) == 0x4D) = false := by decide
  have e4 : ((0x2F : UInt8) == 0x65) = false := by decide
  have e5 : ((0x2F : UInt8) == 0x45) = false := by decide
  unfold zeroRest
  simp only [hpk, hadv, e1, e2, e3, e4, e5, hc, BEq.rfl, Bool.or_self, Bool.and_self, Bool.false_eq_true,
    ↓reduceIte, ratioDen_fwd dd rest hd hdl]

/-! ## hexadecimal, octal, radix -/

theorem digRun_peek {exp : Bool} {p : UInt8 → Bool} {l : Bytes} (h : DigRun exp p l) (T : Bytes) :
    p (peek (l ++ T)) = true := by
  obtain ⟨d, t, rfl, hd, -⟩ := h
  exact hd

theorem body_hex (cfg : Cfg) (hc : cfg.clj = true) (s0 : Bytes) (neg : Bool) (zs : Bytes) (x : UInt8)
    (hs : Bytes) (suf : NumSuffix) (rest : Bytes) (hz : ZeroRun zs) (hx : x = 0x78 ∨ x = 0x58)
    (hh : DigRun cfg.exp (isRadixDigit 16) hs) (ht : TermStart rest) :
    numBody cfg s0 neg (zs ++ x :: (hs ++ (suf.bytes ++ rest))) = .ok (radixPayload suf neg 16 hs) rest := by
  have hx1 : is09 x = false := by rcases hx with rfl | rfl <;> decide
  have hx2 : (x == 0x72 || x == 0x52) = false := by rcases hx with rfl | rfl <;> decide
  have hx3 : (x == 0x30) = false := by rcases hx with rfl | rfl <;> decide
  have hx4 : (x == 0x78 || x == 0x58) = true := by rcases hx with rfl | rfl <;> decide
  have hrad : radixPart cfg neg (zs ++ x :: (hs ++ (suf.bytes ++ rest))) = none :=
    radixPart_none cfg neg zs _ (zeroRun_all09 hz) hx1 hx2
  have hpk : (peek (zs ++ x :: (hs ++ (suf.bytes ++ rest))) == 0x30) = true := by
    obtain ⟨t, rfl, -⟩ := zeroRun_cons hz
    rfl
  rw [numBody_stages, hrad]
  simp only [hpk, ↓reduceIte]
  rw [zeroPart_eq cfg hc s0 neg zs (x :: (hs ++ (suf.bytes ++ rest))) hz hx3]
  have hdg : (digitValue (peek (hs ++ (suf.bytes ++ rest))) 16).isSome = true := digRun_peek hh _
  simp only [peek_cons, adv_cons, hx4, ↓reduceIte, hdg]
  have := loopTail_fwd cfg neg 16 (by omega) false true [] hs rest suf (digRun_uRun hh)
    (fun h => Bool.noConfusion h) ht (fun _ => rfl) (fun _ => by decide) (fun _ => by decide)
  simp only [List.nil_append] at this
  rw [this, radixOut_run cfg suf neg 16 (by omega) hs hh]

theorem body_octal (cfg : Cfg) (hc : cfg.clj = true) (s0 : Bytes) (neg : Bool) (zs os : Bytes)
    (suf : NumSuffix) (rest : Bytes) (hz : ZeroRun zs) (ho : DigRun cfg.exp (isRadixDigit 8) os)
    (hfirst : os.head? ≠ some 0x30) (ht : TermStart rest) :
    numBody cfg s0 neg (zs ++ (os ++ (suf.bytes ++ rest))) = .ok (radixPayload suf neg 8 (zs ++ os)) rest := by
  have hst := term_props (peek_term ht)
  have hsp := stopProps_unpack (stopProps2_unpack hst).1
  have hrad : radixPart cfg neg (zs ++ (os ++ (suf.bytes ++ rest))) = none := by
    have e : zs ++ (os ++ (suf.bytes ++ rest)) = (zs ++ os ++ suf.bytes) ++ rest := by simp
    rw [e]
    refine radixPart_none' cfg neg _ rest ?_ hsp.1 (by simp [hsp.2.2.1, hsp.2.2.2.1])
    intro c hc'
    simp only [List.mem_append] at hc'
    rcases hc' with (hc' | hc') | hc'
    · exact okB_digit (zeroRun_all09 hz c hc')
    · exact hexRun_okB (octRun_hex (digRun_uRun ho)) c hc'
    · exact suffix_okB suf c hc'
  have hpk : (peek (zs ++ (os ++ (suf.bytes ++ rest))) == 0x30) = true := by
    obtain ⟨t, rfl, -⟩ := zeroRun_cons hz
    rfl
  obtain ⟨o, ot, rfl, hod, hot⟩ := ho
  have ho1 := NRd.octal_props hod
  have ho0 : (o == 0x30) = false := by
    cases h : o == 0x30
    · rfl
    · exfalso
      apply hfirst
      simp only [List.head?_cons]
      rw [eq_of_beq h]
  have ho17 := ho1.2.2.2 ho0
  rw [numBody_stages, hrad]
  simp only [hpk, ↓reduceIte]
  have hp0 : (peek (o :: ot ++ (suf.bytes ++ rest)) == 0x30) = false := ho0
  have hp1 : (peek (o :: ot ++ (suf.bytes ++ rest)) == 0x78) = false := ho1.2.1
  have hp2 : (peek (o :: ot ++ (suf.bytes ++ rest)) == 0x58) = false := ho1.2.2.1
  have hp3 : (decide (0x31 ≤ peek (o :: ot ++ (suf.bytes ++ rest))) &&
      decide (peek (o :: ot ++ (suf.bytes ++ rest)) ≤ 0x37)) = true := ho17
  rw [zeroPart_eq cfg hc s0 neg zs _ hz hp0]
  simp only [hp1, hp2, hp3, Bool.or_self, Bool.false_eq_true, ↓reduceIte]
  have hrun : URun cfg.exp (isRadixDigit 8) (o :: ot) := uRun_cons (Or.inl hod) hot
  have := loopTail_fwd cfg neg 8 (by omega) false true zs (o :: ot) rest suf hrun
    (fun h => Bool.noConfusion h) ht (fun _ => rfl) (fun _ => by decide) (fun _ => by decide)
  rw [this]
  have hdr' : DigRun cfg.exp (isRadixDigit 8) (zs ++ o :: ot) := by
    obtain ⟨t, rfl, ht0⟩ := zeroRun_cons hz
    refine ⟨0x30, t ++ o :: ot, rfl, by decide, uRun_append ?_ hrun⟩
    intro c hc'
    rw [ht0 c hc']
    exact Or.inl (by decide)
  rw [radixOut_run cfg suf neg 8 (by omega) _ hdr']

theorem body_radix (cfg : Cfg) (hc : cfg.clj = true) (s0 : Bytes) (neg : Bool) (rp : Bytes) (r : UInt8)
    (ds : Bytes) (suf : NumSuffix) (rest : Bytes) (hrp : rp ≠ [] ∧ AllDigits rp)
    (hrv : 2 ≤ natOfDigits rp ∧ natOfDigits rp ≤ 36) (hr : r = 0x72 ∨ r = 0x52)
    (hd : DigRun cfg.exp (isRadixDigit (natOfDigits rp)) ds) (hu : NoTrailU ds)
    (hsuf : suf = .none ∨ (suf = .M ∧ isRadixDigit (natOfDigits rp) 0x4D = false)) (ht : TermStart rest) :
    numBody cfg s0 neg (rp ++ r :: (ds ++ (suf.bytes ++ rest))) =
      .ok (radixPayload suf neg (natOfDigits rp) ds) rest := by
  have hval := radixPrefix_of_nat hrv.2
  rw [numBody_stages, radixPart_some cfg hc neg rp r _ hrp.1 hrp.2 hr, hval]
  have hdg : (digitValue (peek (ds ++ (suf.bytes ++ rest))) (natOfDigits rp)).isSome = true := digRun_peek hd _
  simp only [hrv, and_self, ↓reduceIte, hdg]
  have := loopTail_fwd cfg neg (natOfDigits rp) hrv.2 true false [] ds rest suf (digRun_uRun hd)
    (fun _ => hu) ht
    (fun h => by
      rcases hsuf with h' | ⟨h', -⟩ <;> rw [h] at h' <;> exact NumSuffix.noConfusion h')
    (fun h => by
      rcases hsuf with h' | ⟨-, h'⟩
      · rw [h] at h'; exact NumSuffix.noConfusion h'
      · exact h')
    (fun h => by
      rcases hsuf with h' | ⟨h', -⟩ <;> rw [h] at h' <;> exact NumSuffix.noConfusion h')
  simp only [List.nil_append] at this
  rw [this, radixOut_run cfg suf neg _ hrv ds hd]

end Edn.Proofs.CljN
