/-
  Edn.Proofs.AllocSimAux2 — refinement, part 2: equality (`equalFA` against `equalF`) and hashing
  (`hashVA`, `hashOpA` against `hashV`, `hashOp`) with their lazily materialised payloads: whenever
  the parser's arena is alive and its count of refused requests does not move during the call, the
  answer is the pure one (`Sim`).
-/
import Edn.Proofs.AllocSimAux1
namespace Edn.Proofs.AllocSim
open Edn.Model Edn.Proofs.AllocBasic Edn.Proofs

theorem digitsEqA_sim (x : ACtx) (ha hb : Hdr) (d d' : Bytes) (a : ASt) :
    Sim x (digitsEqA x ha d hb d' a) a (cleanDigits x.ctx.cfg d == cleanDigits x.ctx.cfg d') := by
  unfold digitsEqA
  have h1 := cleanA_sim x ha d a
  rcases hq : cleanA x ha d a with ⟨da, a1⟩
  rw [hq] at h1
  simp only
  have h2 := cleanA_sim x hb d' a1
  rcases hq2 : cleanA x hb d' a1 with ⟨db, a2⟩
  rw [hq2] at h2
  refine Sim.seq h1 h2.1 (fun _ ha1 e1 hc => ?_)
  simp only at e1 ha1 hc ⊢
  have e2 := h2.2 ha1 hc
  simp only at e2
  subst e1 e2
  rfl

theorem strEqA_sim (x : ACtx) (ha hb : Hdr) (d d' : Bytes) (e e' : Bool) (a : ASt) :
    Sim x (strEqA x ha d e hb d' e' a) a (stringContent x.ctx.cfg d e == stringContent x.ctx.cfg d' e') := by
  unfold strEqA
  have h1 := strContentA_sim x ha d e a
  rcases hq : strContentA x ha d e a with ⟨ca, a1⟩
  rw [hq] at h1
  simp only
  have h2 := strContentA_sim x hb d' e' a1
  rcases hq2 : strContentA x hb d' e' a1 with ⟨cb, a2⟩
  rw [hq2] at h2
  refine Sim.seq h1 h2.1 (fun _ ha1 e1 hc => ?_)
  simp only at e1 ha1 hc ⊢
  have e2 := h2.2 ha1 hc
  simp only at e2
  subst e1 e2
  rfl

theorem guard_sim {x : ACtx} {r : Bool × ASt} {a : ASt} {c c' v : Bool} (hc : (!c') = c)
    (h : Sim x r a v) : Sim x (if c = true then (false, a) else r) a (c' && v) := by
  cases c' <;> simp only [Bool.not_false, Bool.not_true] at hc <;> subst hc
  · exact Sim.pure x a _
  · simpa using h

theorem equalFA_sim (x : ACtx) (f : Nat) : PSpec x (equalFA x f) (equalF x.ctx.cfg f) := by
  induction f with
  | zero => intro u w a; exact Sim.pure x a _
  | succ f ih =>
    intro va vb a
    have hsucc := equalF_succ x.ctx.cfg f va vb
    unfold equalFA
    split
    · next h1 => rw [hsucc, if_pos h1]; exact Sim.pure x a _
    · next h1 =>
      split
      · next h2 => rw [hsucc, if_neg h1, if_pos h2]; exact Sim.pure x a _
      · next h2 =>
        rw [if_neg h1, if_neg h2] at hsucc
        split
        · next ha n r d hb n' r' d' =>
          rw [hsucc]
          show Sim x _ a (r == r' && n == n' && cleanDigits x.ctx.cfg d == cleanDigits x.ctx.cfg d')
          rw [Bool.and_assoc]
          exact guard_sim (by simp [bne]) (guard_sim (by simp [bne]) (digitsEqA_sim x ha hb d d' a))
        · next ha n t hb n' t' =>
          rw [hsucc]
          exact guard_sim (by simp [bne]) (digitsEqA_sim x ha hb t t' a)
        · next ha d e hb d' e' =>
          rw [hsucc]
          exact strEqA_sim x ha hb d d' e e' a
        · rw [hsucc]; exact guard_sim (by simp [bne]) (allZipA_sim ih _ _ a)
        · rw [hsucc]; exact guard_sim (by simp [bne]) (allZipA_sim ih _ _ a)
        · rw [hsucc]; exact guard_sim (by simp [bne]) (allZipA_sim ih _ _ a)
        · rw [hsucc]; exact guard_sim (by simp [bne]) (allZipA_sim ih _ _ a)
        · rw [hsucc]; exact guard_sim (by simp [bne]) (allAnyA_sim ih _ _ a)
        · rw [hsucc]; exact guard_sim (by simp [bne]) (mapAllA_sim ih _ _ _ _ a)
        · rw [hsucc]; exact guard_sim (by simp [bne]) (ih _ _ a)
        · rw [hsucc]; exact Sim.pure x a _

theorem equalA_sim (x : ACtx) : PSpec x (equalA x) (equal x.ctx.cfg) := equalFA_sim x maxDepthFuel

theorem hash_sim (x : ACtx) :
    (∀ v a, Sim x (hashVA x v a) a (hashV x.ctx.cfg v)) ∧
    (∀ ks vs a, Sim x (hashPairsA x ks vs a) a (pairHashes (hashList x.ctx.cfg ks) (hashList x.ctx.cfg vs))) ∧
    (∀ xs a, Sim x (hashListA x xs a) a (hashList x.ctx.cfg xs)) := by
  apply hashVA.mutual_induct x (fun v a => Sim x (hashVA x v a) a (hashV x.ctx.cfg v))
    (fun ks vs a => Sim x (hashPairsA x ks vs a) a (pairHashes (hashList x.ctx.cfg ks) (hashList x.ctx.cfg vs)))
    (fun xs a => Sim x (hashListA x xs a) a (hashList x.ctx.cfg xs))
  case case1 =>
    intro h neg radix d a dd a1 e
    have h1 := cleanA_sim x h d a
    unfold hashVA; rw [e] at h1 ⊢
    refine ⟨h1.1, fun ha hc => ?_⟩
    have := h1.2 ha hc
    simp only at this ⊢
    rw [this, hashV]; rfl
  case case2 =>
    intro h neg t a dd a1 e
    have h1 := cleanA_sim x h t a
    unfold hashVA; rw [e] at h1 ⊢
    refine ⟨h1.1, fun ha hc => ?_⟩
    have := h1.2 ha hc
    simp only at this ⊢
    rw [this, hashV]; rfl
  case case3 =>
    intro h data esc a c a1 e
    have h1 := strContentA_sim x h data esc a
    unfold hashVA; rw [e] at h1 ⊢
    refine ⟨h1.1, fun ha hc => ?_⟩
    have := h1.2 ha hc
    simp only at this ⊢
    rw [this, hashV]
  case case4 =>
    intro h md xs a hs a1 e ih
    unfold hashVA; rw [e] at ih ⊢
    refine ⟨ih.1, fun ha hc => ?_⟩
    have := ih.2 ha hc
    simp only at this ⊢
    rw [this, hashV]
  case case5 =>
    intro h md xs a hs a1 e ih
    unfold hashVA; rw [e] at ih ⊢
    refine ⟨ih.1, fun ha hc => ?_⟩
    have := ih.2 ha hc
    simp only at this ⊢
    rw [this, hashV]
  case case6 =>
    intro h md xs a hs a1 e ih
    unfold hashVA; rw [e] at ih ⊢
    refine ⟨ih.1, fun ha hc => ?_⟩
    have := ih.2 ha hc
    simp only at this ⊢
    rw [this, hashV]
  case case7 =>
    intro h md ks vs a hs a1 e ih
    unfold hashVA; rw [e] at ih ⊢
    refine ⟨ih.1, fun ha hc => ?_⟩
    have := ih.2 ha hc
    simp only at this ⊢
    rw [this, hashV]
  case case8 =>
    intro h md tag v a hv a1 e ih
    unfold hashVA; rw [e] at ih ⊢
    refine ⟨ih.1, fun ha hc => ?_⟩
    have := ih.2 ha hc
    simp only at this ⊢
    rw [this, hashV]
  case case19 =>
    intro k ks v vs a hv a1 e1 hv2 a2 e2 hs a3 e3 ih1 ih2 ih3
    unfold hashPairsA; rw [e1]; dsimp only; rw [e2]; dsimp only; rw [e3]
    rw [e1] at ih1; rw [e2] at ih2; rw [e3] at ih3
    have h12 : Sim x ((hv, hv2), a2) a (hashV x.ctx.cfg k, hashV x.ctx.cfg v) :=
      Sim.seq ih1 ih2.1 (fun _ ha1 q1 hc => by
        have q2 := ih2.2 ha1 hc
        simp only at q1 q2 ⊢
        rw [q1, q2])
    refine Sim.seq h12 ih3.1 (fun _ ha2 q12 hc => ?_)
    have q3 := ih3.2 ha2 hc
    simp only at q12 q3 ⊢
    rw [hashList, hashList, pairHashes, q3]
    have qa := congrArg Prod.fst q12
    have qb := congrArg Prod.snd q12
    simp only at qa qb
    rw [qa, qb]
  case case20 =>
    intro ks vs a hne
    unfold hashPairsA
    split
    · next k ks' v vs' => exact (hne k ks' v vs' rfl rfl).elim
    · have : pairHashes (hashList x.ctx.cfg ks) (hashList x.ctx.cfg vs) = [] := by
        cases ks with
        | nil => simp [hashList, pairHashes]
        | cons k ks' =>
          cases vs with
          | nil => simp [hashList, pairHashes]
          | cons v vs' => exact (hne k ks' v vs' rfl rfl).elim
      rw [this]; exact Sim.pure x a _
  case case21 => intro a; unfold hashListA; exact Sim.pure x a _
  case case22 =>
    intro v vs a hv a1 e1 hs a2 e2 ih1 ih2
    unfold hashListA; rw [e1]; dsimp only; rw [e2]
    rw [e1] at ih1; rw [e2] at ih2
    refine Sim.seq ih1 ih2.1 (fun _ ha1 q1 hc => ?_)
    have q2 := ih2.2 ha1 hc
    simp only at q1 q2 ⊢
    rw [hashList, q1, q2]
  all_goals (intros; unfold hashVA; exact Sim.pure x _ _)

theorem hashOpA_sim (x : ACtx) (v : Val) (a : ASt) : Sim x (hashOpA x v a) a (hashOp x.ctx.cfg v) := by
  unfold hashOpA hashOp
  simp only
  split
  · exact Sim.pure x a _
  · have h := (hash_sim x).1 v a
    rcases hq : hashVA x v a with ⟨hv, a1⟩
    rw [hq] at h
    refine ⟨h.1, fun ha hc => ?_⟩
    have := h.2 ha hc
    simp only at this ⊢
    rw [this]

end Edn.Proofs.AllocSim
