/- TEMPORARY stub of Edn.Proofs.ReReadAux3 (statements only); to be deleted. -/
import Edn.Proofs.ReReadAux0

namespace Edn.Proofs
open Edn.Model Edn.Spec

theorem finishNum_cut (v0 : NumVal) (u r : Bytes) : NumCut r (finishNum v0 (u ++ r)) (finishNum v0 u) := by sorry

theorem ratioDenominator_cut (u r : Bytes) : ExCut r (ratioDenominator (u ++ r)) (ratioDenominator u) := by sorry

theorem radixTail_cut (cfg : Cfg) (neg : Bool) (radix : Nat) (allowN : Bool) (ds u r : Bytes) :
    NumCut r (radixTail cfg neg radix allowN (ds ++ r) (u ++ r)) (radixTail cfg neg radix allowN ds u) := by sorry

theorem decimalTail_cut (cfg : Cfg) (start : Bytes) (neg hasDec hasExp : Bool) (ds u r : Bytes) :
    NumCut r (decimalTail cfg (start ++ r) neg hasDec hasExp (ds ++ r) (u ++ r))
      (decimalTail cfg start neg hasDec hasExp ds u) := by sorry

theorem exponentPart_cut (cfg : Cfg) (start : Bytes) (neg hasDec : Bool) (ds u r : Bytes) :
    NumCut r (exponentPart cfg (start ++ r) neg hasDec (ds ++ r) (u ++ r))
      (exponentPart cfg start neg hasDec ds u) := by sorry

theorem afterMantissa_cut (cfg : Cfg) (start : Bytes) (neg hasDec : Bool) (ds u r : Bytes) :
    NumCut r (afterMantissa cfg (start ++ r) neg hasDec (ds ++ r) (u ++ r))
      (afterMantissa cfg start neg hasDec ds u) := by sorry

theorem decimalPart_cut (cfg : Cfg) (start : Bytes) (neg : Bool) (ds u r : Bytes) :
    NumCut r (decimalPart cfg (start ++ r) neg (ds ++ r) (u ++ r))
      (decimalPart cfg start neg ds u) := by sorry

end Edn.Proofs
