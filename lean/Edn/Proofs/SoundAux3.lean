/-
  Edn.Proofs.SoundAux3 — the statements carried through the fuel induction of the soundness
  theorem, and the leaf readers brought into that form.
-/
import Edn.Proofs.SoundAux2
import Edn.Proofs.NumberSound
import Edn.Proofs.IdentSound
import Edn.Proofs.ReaderInv

namespace Edn.Proofs.Snd
open Edn.Model Edn.Spec Edn.Generated Edn.Proofs

/-- the nesting `k` of what was read at depth `d` fits the reader's limit (when `d` itself does) -/
def Fits (d k : Nat) : Prop := d ≤ Tables.maxNestingDepth → d + k ≤ Tables.maxNestingDepth

theorem fits_zero (d : Nat) : Fits d 0 := fun h => h

/-- what a value outcome of `readValue` (at depth `d`) means -/
def OkV (d : Nat) (st : St) (v : Val) (st' : St) : Prop :=
  ∃ k tok, st.rest = tok ++ st'.rest ∧ st'.calls = st.calls ∧ Form k (strip v) tok st'.rest ∧ Fits d k

/-- what a "closing delimiter seen" outcome of `readValue` means -/
def CloserV (d : Nat) (st st' : St) : Prop :=
  ∃ k tr, st.rest = tr ++ st'.rest ∧ st'.calls = st.calls ∧ Trail k tr st'.rest ∧ Fits d k ∧ 0 < d ∧
    ∃ c t, st'.rest = c :: t ∧ (c = 0x29 ∨ c = 0x5D ∨ c = 0x7D)

/-- the content of a sequence collection of the given kind -/
def SeqVal (kind : Nat) (ys : List Val) (a : Val) : Prop :=
  if kind = 0 then a = .list hdr0 none ys
  else if kind = 1 then a = .vec hdr0 none ys
  else a = .set hdr0 none ys ∧ pairwiseDistinct Cfg.core ys

/-- what a value outcome of `readTagged` means (`st.rest` starts after the `#`) -/
def OkT (d : Nat) (st : St) (v : Val) (st' : St) : Prop :=
  ∃ k tag ns nm a tok, st.rest = tag ++ (tok ++ st'.rest) ∧ st'.calls = st.calls ∧ IdentLex tag ∧
    IdentDenotes tag (.sym hdr0 none ns nm) ∧ (∃ c t, tok = c :: t ∧ isDelim c = true) ∧
    Form k a tok st'.rest ∧ strip v = .tagged hdr0 none tag a ∧ Fits (d + 1) k

/-- the two outcomes of `readValue` that carry information -/
def GoodV (d : Nat) (st : St) (r : Res) : Prop :=
  (∀ v st', r = .ok v st' → OkV d st v st') ∧ (∀ st', r = .closer st' → CloserV d st st')

def GoodS (d kind : Nat) (acc : List Val) (st : St) (r : Res) : Prop :=
  (∀ v st', r = .ok v st' →
    ∃ k xs body, st.rest = body ++ closerByte kind :: st'.rest ∧ st'.calls = st.calls ∧
      FormSeq k xs body (closerByte kind :: st'.rest) ∧ SeqVal kind (stripL acc.reverse ++ xs) (strip v) ∧
      d + 1 + k ≤ Tables.maxNestingDepth) ∧
  (∀ st', r ≠ .closer st')

def GoodM (d : Nat) (ks vs : List Val) (st : St) (r : Res) : Prop :=
  (∀ v st', r = .ok v st' →
    ∃ k ks' vs' body, st.rest = body ++ 0x7D :: st'.rest ∧ st'.calls = st.calls ∧
      FormSeq k (interleaveKV ks' vs') body (0x7D :: st'.rest) ∧ ks'.length = vs'.length ∧
      strip v = .map hdr0 none (stripL ks.reverse ++ ks') (stripL vs.reverse ++ vs') ∧
      pairwiseDistinct Cfg.core (stripL ks.reverse ++ ks') ∧ d + 1 + k ≤ Tables.maxNestingDepth) ∧
  (∀ st', r ≠ .closer st')

def GoodT (d : Nat) (st : St) (r : Res) : Prop :=
  (∀ v st', r = .ok v st' → OkT d st v st') ∧ (∀ st', r ≠ .closer st')

def SV (RV : RVT) : Prop := ∀ d dm st, GoodV d st (RV d dm st)

/-- the reader invariant (`ReaderInv`), needed for the duplicate check -/
def InvV (RV : RVT) : Prop :=
  ∀ d dm st v st', d ≤ Tables.maxNestingDepth → RV d dm st = .ok v st' → ValOK Cfg.core d v

def SS (RS : RST) : Prop :=
  ∀ d dm kind start st acc, d < Tables.maxNestingDepth → Elems Cfg.core acc → GoodS d kind acc st (RS d dm kind start st acc)

def SM (RM : RMT) : Prop :=
  ∀ d dm start st ks vs, d < Tables.maxNestingDepth → Elems Cfg.core ks → ks.length = vs.length →
    GoodM d ks vs st (RM d dm start none st ks vs)

def ST (RT : R4T) : Prop := ∀ d dm start st, GoodT d st (RT d dm start st)

theorem goodV_err (d : Nat) (st : St) (e : ErrInfo) (st' : St) : GoodV d st (.err e st') :=
  ⟨fun _ _ h => (by cases h), fun _ h => (by cases h)⟩
theorem goodS_err (d kind : Nat) (acc : List Val) (st : St) (e : ErrInfo) (st' : St) : GoodS d kind acc st (.err e st') :=
  ⟨fun _ _ h => (by cases h), fun _ h => (by cases h)⟩
theorem goodM_err (d : Nat) (ks vs : List Val) (st : St) (e : ErrInfo) (st' : St) : GoodM d ks vs st (.err e st') :=
  ⟨fun _ _ h => (by cases h), fun _ h => (by cases h)⟩
theorem goodT_err (d : Nat) (st : St) (e : ErrInfo) (st' : St) : GoodT d st (.err e st') :=
  ⟨fun _ _ h => (by cases h), fun _ h => (by cases h)⟩

theorem goodV_leaf {d : Nat} {st : St} {r : Res} (hn : r.isCloser = false) (h : ∀ v st', r = .ok v st' → OkV d st v st') :
    GoodV d st r :=
  ⟨h, fun st' e => by rw [e] at hn; cases hn⟩

/-! ### a form is never empty -/

theorem coreNum_ne_nil {tok : Bytes} {v : NumVal} (h : CoreNum Cfg.core tok v) : tok ≠ [] := by
  have hdd : ∀ {ds : Bytes}, DecDigits ds → ds ≠ [] := fun h => h.1
  have hft : ∀ {t : Bytes}, FloatTok t → t ≠ [] := by
    rintro t ⟨sg, ip, fr, ex, neg, rfl, -, hip, -, -, -⟩ he
    have := hdd hip
    simp only [List.append_eq_nil_iff] at he
    exact this he.1.1.2
  cases h with
  | int sg ds neg hs hd hr => intro he; simp at he; exact hdd hd he.2
  | big sg ds neg hs hd hr => intro he; simp at he; exact hdd hd he.2
  | bigN sg ds neg hs hd => intro he; simp at he
  | float tok h => exact hft h
  | bigdec sg body neg hs hb hnosign => intro he; simp at he

theorem form_ne_nil : ∀ {k : Nat} {a : Val} {tok rest : Bytes}, Form k a tok rest → tok ≠ []
  | _, _, _, _, .blank k a tr tok rest ht h => by
    intro he
    have := form_ne_nil h
    simp at he
    exact this he.2
  | _, _, _, _, .discard .. => by simp
  | _, _, _, _, .number k tok rest v hn ht => coreNum_ne_nil hn
  | _, _, _, _, .ident k tok rest a hl hs hd ht => hl.1
  | _, _, _, _, .str .. => by simp
  | _, _, _, _, .char .. => by simp
  | _, _, _, _, .symbolic k tok rest bits h => by cases h <;> decide +kernel
  | _, _, _, _, .list .. => by simp
  | _, _, _, _, .vec .. => by simp
  | _, _, _, _, .set .. => by simp
  | _, _, _, _, .map .. => by simp
  | _, _, _, _, .tagged .. => by simp

/-! ### leaf readers -/

theorem strip_numToVal (h : Hdr) (v : NumVal) : strip (numToVal h v) = numToVal hdr0 v := by
  cases v <;> simp [numToVal, strip]

theorem string_ok (d : Nat) (ctx : Ctx) (hc : ctx.cfg = Cfg.core) (c : UInt8) (cs : Bytes) (cl : List Call) (v : Val) (st' : St)
    (hd : dispatch Cfg.core c = .string)
    (h : readString ctx { rest := c :: cs, calls := cl } = .ok v st') : OkV d { rest := c :: cs, calls := cl } v st' := by
  obtain ⟨sp, hcs, hcl, hr, hv⟩ := readString_sound ctx hc c cs cl v st' h
  have := disp_string hd
  subst this
  refine ⟨0, 0x22 :: (sp ++ [0x22]), ?_, hcl, ?_⟩
  · show 0x22 :: cs = _
    rw [hcs]; simp
  · rw [hv]
    exact ⟨.str 0 sp st'.rest hr, fits_zero d⟩

theorem character_ok (d : Nat) (ctx : Ctx) (hc : ctx.cfg = Cfg.core) (c : UInt8) (cs : Bytes) (cl : List Call) (v : Val) (st' : St)
    (hd : dispatch Cfg.core c = .character)
    (h : readCharacter ctx { rest := c :: cs, calls := cl } = .ok v st') : OkV d { rest := c :: cs, calls := cl } v st' := by
  obtain ⟨body, cp, hcs, hcl, htok, hcp, hds, hv⟩ := readCharacter_sound ctx hc c cs cl v st' h
  have := disp_character hd
  subst this
  refine ⟨0, 0x5C :: body, ?_, hcl, ?_⟩
  · show 0x5C :: cs = _
    rw [hcs]; simp
  · rw [hv]
    exact ⟨.char 0 body st'.rest cp htok hcp hds, fits_zero d⟩

theorem symbolic_ok (d : Nat) (ctx : Ctx) (p : Bytes) (cl : List Call) (v : Val) (st' : St)
    (h : readSymbolic ctx { rest := 0x23 :: 0x23 :: p, calls := cl } = .ok v st') :
    OkV d { rest := 0x23 :: 0x23 :: p, calls := cl } v st' := by
  obtain ⟨tok, bits, h1, hcl, htok, hv⟩ := readSymbolic_sound ctx p cl v st' h
  refine ⟨0, tok, h1, hcl, ?_⟩
  rw [hv]
  exact ⟨.symbolic 0 tok st'.rest bits htok, fits_zero d⟩

theorem number_ok (d : Nat) (ctx : Ctx) (hc : ctx.cfg = Cfg.core) (c : UInt8) (cs : Bytes) (cl : List Call) (v : Val) (st' : St)
    (hstart : is09 c = true ∨ ((c = 0x2B ∨ c = 0x2D) ∧ ∃ nx t', cs = nx :: t' ∧ is09 nx = true))
    (h : readNumberRes ctx { rest := c :: cs, calls := cl } = .ok v st') : OkV d { rest := c :: cs, calls := cl } v st' := by
  unfold readNumberRes at h
  simp only [hc] at h
  cases hn : readNumber Cfg.core (c :: cs) with
  | err cur => rw [hn] at h; cases h
  | ok nv rest =>
    rw [hn] at h
    simp only [Res.ok.injEq] at h
    obtain ⟨rfl, rfl⟩ := h
    obtain ⟨tok, h1, h2, h3⟩ := readNumber_core_sound (c :: cs) rest nv ⟨c, cs, rfl, hstart⟩ hn
    refine ⟨0, tok, h1, rfl, ?_⟩
    rw [strip_numToVal]
    exact ⟨.number 0 tok rest nv h2 h3, fits_zero d⟩

theorem identifier_ok (d : Nat) (ctx : Ctx) (c : UInt8) (cs : Bytes) (cl : List Call) (v : Val) (st' : St)
    (hstart : is09 c = false ∧ ((c = 0x2B ∨ c = 0x2D) → ∀ nx t', cs = nx :: t' → is09 nx = false))
    (h : readIdentifier ctx { rest := c :: cs, calls := cl } = .ok v st') : OkV d { rest := c :: cs, calls := cl } v st' := by
  obtain ⟨tok, h1, hcl, hl, hds, hden⟩ := readIdentifier_sound ctx _ st' v h
  refine ⟨0, tok, h1, hcl, .ident 0 tok st'.rest _ hl ?_ hden hds, fits_zero d⟩
  intro c' t' htok
  subst htok
  simp only [List.cons_append, List.cons.injEq] at h1
  obtain ⟨rfl, hcs⟩ := h1
  refine ⟨?_, ?_⟩
  · rw [← is09_iff]
    simp [hstart.1]
  · intro hsg d t'' ht
    subst ht
    rw [← is09_iff]
    simp [hstart.2 hsg d (t'' ++ st'.rest) hcs]

end Edn.Proofs.Snd
