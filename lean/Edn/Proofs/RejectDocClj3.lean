/-
  Edn.Proofs.RejectDocClj3 — the defect *sites* of the Clojure extensions: what `readValue` makes
  of a metadata marker lacking its annotation or its target, of an annotation / target of the
  wrong kind, and of a namespaced-map prefix that is not an unqualified keyword followed by `{`.
-/
import Edn.Proofs.RejectDocClj2
import Edn.Proofs.NsMap

namespace Edn.Proofs.RejectDocClj
open Edn.Model Edn.Spec Edn.Generated Edn.Proofs Edn.Proofs.Cmpl Edn.Proofs.RejectDoc Edn.Proofs.RejectDocX

/-- blanks, comments and complete discarded forms of the grammar in front of a closing delimiter:
    `readValue` one level below depth `d` reports that delimiter -/
theorem trailRX_of_trailX (cfg : Cfg) (opts : Opts) (hreg : opts.registry = none) {k : Nat} {tr : Bytes} {c : UInt8} {rest : Bytes}
    (ht : TrailX cfg (numJOf cfg) (strJOf cfg) k tr (c :: rest)) (hc : IsCloser c) (d : Nat)
    (hd : d + 1 + k ≤ Tables.maxNestingDepth) : CmplX.TrailRX cfg opts d tr (c :: rest) :=
  trailX_reads opts hreg (numExact_of cfg) (strExact_of cfg) ht c rest rfl hc d hd

/-- only blanks and comments (the last one possibly unclosed) are left -/
theorem site_eofX (cfg : Cfg) (opts : Opts) (d : Nat) (dm : Bool) (s : Bytes) (h : skipWsScalar s = []) :
    SiteErrX cfg opts d dm s (eofE d) [] := by
  intro cl f hf
  match f, hf with
  | f + 1, _ => rw [readValue_trivia_only _ f d dm s cl h]; rfl

/-! ## (a) `^` with nothing to read the annotation from -/

theorem site_meta_closer (cfg : Cfg) (hclj : cfg.clj = true) (opts : Opts) (d : Nat) (dm : Bool) (tr : Bytes) (c : UInt8) (rest : Bytes)
    (hd : d < Tables.maxNestingDepth) (h : CmplX.TrailRX cfg opts d tr (c :: rest)) :
    SiteErrX cfg opts d dm (0x5E :: (tr ++ c :: rest))
      (mkErr .invalidSyntax (some ((tr ++ c :: rest).length + 1)) (some (rest.length + 1))) (c :: rest) := by
  intro cl f hf
  simp only [List.length_cons] at hf
  match f, hf with
  | f + 2, hf =>
    rw [rv_metaAnn_closer (xctx cfg opts) hclj f d dm _ cl hd _ (h dm cl f (by omega))]
    rfl

/-! ## (b) `^annotation` with nothing to read the target from -/

theorem site_metaTgt_closer (cfg : Cfg) (hclj : cfg.clj = true) (opts : Opts) (hreg : opts.registry = none) (d : Nat) (dm : Bool)
    (k : Nat) (am : Val) (nks nvs : List Val) (tokm tr : Bytes) (c : UInt8) (rest : Bytes)
    (hd : d + 1 + k ≤ Tables.maxNestingDepth) (hm : FX cfg k am tokm (tr ++ c :: rest))
    (he : metaEntriesC am = some (nks, nvs)) (h : CmplX.TrailRX cfg opts d tr (c :: rest)) :
    SiteErrX cfg opts d dm (0x5E :: (tokm ++ (tr ++ c :: rest)))
      (mkErr .invalidSyntax (some ((tokm ++ (tr ++ c :: rest)).length + 1)) (some (rest.length + 1))) (c :: rest) := by
  intro cl f hf
  simp only [List.length_cons, List.length_append] at hf
  match f, hf with
  | f + 2, hf =>
    obtain ⟨m, nks', nvs', hmr, hme⟩ := ann_read_at cfg opts hreg hm he (d + 1) (by omega) dm cl f
      (by simp only [List.length_append, List.length_cons]; omega)
    rw [rv_metaTgt_eq (xctx cfg opts) hclj f d dm tokm _ cl (by omega) m nks' nvs' hmr hme,
      h dm cl f (by simp only [List.length_append, List.length_cons]; omega)]
    rfl

/-! ## (c) `^annotation form` where the form cannot carry metadata -/

theorem site_meta_badTarget (cfg : Cfg) (hclj : cfg.clj = true) (opts : Opts) (hreg : opts.registry = none) (d : Nat) (dm : Bool)
    (k : Nat) (am af : Val) (nks nvs : List Val) (tokm tokf rest : Bytes)
    (hd : d + 1 + k ≤ Tables.maxNestingDepth) (hm : FX cfg k am tokm (tokf ++ rest))
    (he : metaEntriesC am = some (nks, nvs)) (hfm : FX cfg k af tokf rest) (ht : af.metaTarget = false) :
    SiteErrX cfg opts d dm (0x5E :: (tokm ++ (tokf ++ rest)))
      (mkErr .invalidSyntax (some ((tokm ++ (tokf ++ rest)).length + 1)) (some rest.length)) rest := by
  intro cl f hf
  simp only [List.length_cons, List.length_append] at hf
  match f, hf with
  | f + 2, hf =>
    obtain ⟨m, nks', nvs', hmr, hme⟩ := ann_read_at cfg opts hreg hm he (d + 1) (by omega) dm cl f
      (by simp only [List.length_append]; omega)
    obtain ⟨form, hfr, hfs⟩ := formX_read_at cfg opts hreg hfm (d + 1) (by omega) dm cl f
      (by simp only [List.length_append]; omega)
    have hmt : form.metaTarget = false := by rw [← SndX.metaTarget_stripM, hfs]; exact ht
    rw [rv_metaTgt_eq (xctx cfg opts) hclj f d dm tokm _ cl (by omega) m nks' nvs' hmr hme, hfr]
    simp only [hmt, Bool.not_false, if_true]

/-! ## (d) `^x` where `x` is not of an annotation kind -/

theorem site_meta_badAnn (cfg : Cfg) (hclj : cfg.clj = true) (opts : Opts) (hreg : opts.registry = none) (d : Nat) (dm : Bool)
    (k : Nat) (ax : Val) (tokx rest : Bytes)
    (hd : d + 1 + k ≤ Tables.maxNestingDepth) (hx : FX cfg k ax tokx rest) (he : metaEntriesC ax = none) :
    SiteErrX cfg opts d dm (0x5E :: (tokx ++ rest))
      (mkErr .invalidSyntax (some ((tokx ++ rest).length + 1)) (some rest.length)) rest := by
  intro cl f hf
  simp only [List.length_cons, List.length_append] at hf
  match f, hf with
  | f + 2, hf =>
    obtain ⟨m, hmr, hms⟩ := formX_read_at cfg opts hreg hx (d + 1) (by omega) dm cl f
      (by simp only [List.length_append]; omega)
    have hme : metaEntries m = none := by
      have h1 := SndX.metaEntriesC_stripM m
      rw [hms, he] at h1
      cases h : metaEntries m with
      | none => rfl
      | some p => rw [h] at h1; cases h1
    rw [rv_metaAnn_bad (xctx cfg opts) hclj f d dm _ cl (by omega) m _ hmr hme]

/-! ## (e) `#:` not followed by an unqualified keyword and `{` -/

/-- `#:` and an identifier token that is read as anything but an unqualified keyword -/
theorem rv_ns_bad (ctx : Ctx) (hclj : ctx.cfg.clj = true) (f d : Nat) (dm : Bool) (y : Bytes) (cl : List Call)
    (hd : d < Tables.maxNestingDepth) (v : Val) (st' : St)
    (h : readIdentifier ctx { rest := 0x3A :: y, calls := cl } = .ok v st') (hv : ∀ h name, v ≠ .kw h none name) :
    readValue ctx (f + 3) d dm { rest := 0x23 :: 0x3A :: y, calls := cl } =
      .err (mkErr .invalidSyntax (some (y.length + 2)) (some st'.rest.length)) st' := by
  rw [CmplX.readValue_nsOpen ctx hclj (f + 2) d dm _ cl hd]
  have hk : readValue ctx (f + 1) d dm { rest := 0x3A :: y, calls := cl } = .ok v st' := by
    rw [readValue_succ, SndX.rvOuter_colon, h]
  exact readNsMap_bad_prefix ctx (f + 1) d dm _ _ st' v hk hv

/-- `#:ns/name…`: the prefix is a qualified keyword -/
theorem site_ns_qualified (cfg : Cfg) (hclj : cfg.clj = true) (opts : Opts) (d : Nat) (dm : Bool) (q ns nm rest : Bytes)
    (hd : d < Tables.maxNestingDepth) (hl : IdentLex (0x3A :: q)) (hden : IdentDenotes (0x3A :: q) (.kw hdr0 (some ns) nm))
    (hsep : DelimStart rest) :
    SiteErrX cfg opts d dm (0x23 :: 0x3A :: (q ++ rest))
      (mkErr .invalidSyntax (some ((q ++ rest).length + 2)) (some rest.length)) rest := by
  intro cl f hf
  simp only [List.length_cons, List.length_append] at hf
  obtain ⟨f, rfl⟩ : ∃ f', f = f' + 3 := ⟨f - 3, by omega⟩
  obtain ⟨tv, htv, hstv⟩ := readIdentifier_complete (xctx cfg opts) (0x3A :: q) rest cl _ hl hsep hden
  rw [List.cons_append] at htv
  rw [rv_ns_bad (xctx cfg opts) hclj f d dm _ cl hd tv _ htv]
  intro h name he
  subst he
  simp only [strip, Val.kw.injEq, reduceCtorEq, false_and, and_false] at hstv

/-- `#:name` and then (after blanks and comments) anything but `{`, or nothing -/
theorem site_ns_noBrace (cfg : Cfg) (hclj : cfg.clj = true) (opts : Opts) (d : Nat) (dm : Bool) (name x : Bytes)
    (hd : d < Tables.maxNestingDepth) (hl : IdentLex (0x3A :: name)) (hden : IdentDenotes (0x3A :: name) (.kw hdr0 none name))
    (hsep : DelimStart x) (hx : ∀ r, skipWs x ≠ 0x7B :: r) :
    SiteErrX cfg opts d dm (0x23 :: 0x3A :: (name ++ x))
      (mkErr .invalidSyntax (some ((name ++ x).length + 2)) (some (skipWs x).length)) (skipWs x) := by
  intro cl f hf
  simp only [List.length_cons, List.length_append] at hf
  obtain ⟨f, rfl⟩ : ∃ f', f = f' + 3 := ⟨f - 3, by omega⟩
  have e' : (0x3A : UInt8) :: (name ++ x) = (0x3A :: name) ++ x := rfl
  obtain ⟨tv, htv, hstv⟩ := readIdentifier_complete (xctx cfg opts) (0x3A :: name) x cl _ hl hsep hden
  rw [CmplX.readValue_nsOpen (xctx cfg opts) hclj (f + 2) d dm _ cl hd, readNsMap_succ]
  unfold rnStep
  rw [readValue_succ, SndX.rvOuter_colon, e', htv]
  cases tv <;> simp only [strip, reduceCtorEq] at hstv
  case kw h0 ns0 nm0 =>
    simp only [Val.kw.injEq, true_and] at hstv
    obtain ⟨rfl, rfl⟩ := hstv
    simp only [Ctx.pos, List.length_append]
    cases hs : skipWs x with
    | nil => rfl
    | cons c r =>
      have hc : (c == 0x7B) = false := by
        apply Bool.eq_false_iff.mpr
        intro hc
        rw [beq_iff_eq] at hc
        subst hc
        exact hx r hs
      simp only [hc, Bool.false_eq_true, if_false]

/-- the same with the blanks spelled out: `#:name`, blanks, a byte other than `{` -/
theorem site_ns_other (cfg : Cfg) (hclj : cfg.clj = true) (opts : Opts) (d : Nat) (dm : Bool) (name tr : Bytes) (c : UInt8) (rest : Bytes)
    (hd : d < Tables.maxNestingDepth) (hl : IdentLex (0x3A :: name)) (hden : IdentDenotes (0x3A :: name) (.kw hdr0 none name))
    (ht : Blank tr) (hsep : DelimStart (tr ++ c :: rest)) (hw : isPreWs c = false) (hc : c ≠ 0x7B) :
    SiteErrX cfg opts d dm (0x23 :: 0x3A :: (name ++ (tr ++ c :: rest)))
      (mkErr .invalidSyntax (some ((name ++ (tr ++ c :: rest)).length + 2)) (some (rest.length + 1))) (c :: rest) := by
  have hs : skipWs (tr ++ c :: rest) = c :: rest := by
    rw [skipWs_trivia tr _ (blank_toPlain ht)]
    exact skipWs_nonws c rest hw
  have := site_ns_noBrace cfg hclj opts d dm name (tr ++ c :: rest) hd hl hden hsep
    (by intro r hr; rw [hs] at hr; exact hc (List.cons.inj hr).1)
  rw [hs] at this
  exact this

/-- `#:name` and blanks end the input -/
theorem site_ns_end (cfg : Cfg) (hclj : cfg.clj = true) (opts : Opts) (d : Nat) (dm : Bool) (name tr : Bytes)
    (hd : d < Tables.maxNestingDepth) (hl : IdentLex (0x3A :: name)) (hden : IdentDenotes (0x3A :: name) (.kw hdr0 none name))
    (ht : Blank tr) :
    SiteErrX cfg opts d dm (0x23 :: 0x3A :: (name ++ tr))
      (mkErr .invalidSyntax (some ((name ++ tr).length + 2)) (some 0)) [] := by
  have hs : skipWs tr = [] := by
    have := skipWs_trivia tr [] (blank_toPlain ht)
    rw [List.append_nil] at this
    rw [this]
    rfl
  have hsep : DelimStart tr := by
    cases tr with
    | nil => exact .inl rfl
    | cons c0 t => exact .inr ⟨c0, t, rfl, (blank_head_term ht).2⟩
  have := site_ns_noBrace cfg hclj opts d dm name tr hd hl hden hsep (by intro r hr; rw [hs] at hr; cases hr)
  rw [hs] at this
  exact this

/-! ## (f) a defect inside a discarded form -/

/-- the error of the form behind `#_` is the error of the discard -/
theorem site_in_discard (cfg : Cfg) (hclj : cfg.clj = true) (opts : Opts) (hreg : opts.registry = none) (d : Nat) (dm : Bool) (s : Bytes)
    (hd : d < Tables.maxNestingDepth) (e : ErrInfo) (r : Bytes) (h : SiteErrX cfg opts (d + 1) true s e r) :
    SiteErrX cfg opts d dm (0x23 :: 0x5F :: s) e r :=
  descClj_err cfg hclj opts hreg (.discard false d dm [] (d + 1) true hd (.here false (d + 1) true)) e r h (Or.inl rfl)

end Edn.Proofs.RejectDocClj
