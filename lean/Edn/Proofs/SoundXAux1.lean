/-
  Edn.Proofs.SoundXAux1 — `stripM` (content of a tree with its metadata) versus `strip`,
  structural equality, the duplicate check, headers and metadata cells.
-/
import Edn.Spec.GrammarX
import Edn.Proofs.CompleteAux1

namespace Edn.Proofs.SndX
open Edn.Model Edn.Spec Edn.Generated Edn.Proofs Edn.Proofs.Cmpl

/-! ### `stripML` is `map stripM` -/

theorem stripML_nil : stripML [] = [] := by rw [stripML]
theorem stripML_cons (x : Val) (xs : List Val) : stripML (x :: xs) = stripM x :: stripML xs := by rw [stripML]
theorem stripMO_none : stripMO none = none := by rw [stripMO]
theorem stripMO_some (m : Val) : stripMO (some m) = some (stripM m) := by rw [stripMO]

theorem stripML_eq_map : ∀ xs : List Val, stripML xs = xs.map stripM := by
  intro xs
  induction xs with
  | nil => rw [stripML_nil]; rfl
  | cons x xs ih => rw [stripML_cons, ih]; rfl

theorem length_stripML (xs : List Val) : (stripML xs).length = xs.length := by
  rw [stripML_eq_map, List.length_map]

theorem stripML_append (xs ys : List Val) : stripML (xs ++ ys) = stripML xs ++ stripML ys := by
  rw [stripML_eq_map, stripML_eq_map, stripML_eq_map, List.map_append]

theorem stripML_reverse (xs : List Val) : stripML xs.reverse = (stripML xs).reverse := by
  rw [stripML_eq_map, stripML_eq_map, List.map_reverse]

theorem stripML_snoc (acc : List Val) (v : Val) (xs : List Val) :
    stripML (v :: acc).reverse ++ xs = stripML acc.reverse ++ stripM v :: xs := by
  rw [List.reverse_cons, stripML_append, stripML_cons, stripML_nil]
  simp

/-! ### `strip` forgets what `stripM` keeps -/

theorem strip_stripM_aux : ∀ (n : Nat), (∀ a : Val, sizeOf a ≤ n → strip (stripM a) = strip a) := by
  intro n
  induction n with
  | zero =>
    intro a h
    cases a <;> simp at h <;> omega
  | succ n ih =>
    have hl : ∀ xs : List Val, sizeOf xs ≤ n → stripL (stripML xs) = stripL xs := by
      intro xs
      induction xs with
      | nil => intro _; rw [stripML_nil]
      | cons x xs ihx =>
        intro h
        simp at h
        rw [stripML_cons, stripL_cons, stripL_cons, ih x (by omega), ihx (by omega)]
    intro a h
    cases a <;> simp only [stripM, strip]
    case list h1 m xs => simp at h; rw [hl xs (by omega)]
    case vec h1 m xs => simp at h; rw [hl xs (by omega)]
    case set h1 m xs => simp at h; rw [hl xs (by omega)]
    case map h1 m ks vs => simp at h; rw [hl ks (by omega), hl vs (by omega)]
    case tagged h1 m t v => simp at h; rw [ih v (by omega)]

theorem strip_stripM (a : Val) : strip (stripM a) = strip a := strip_stripM_aux _ a (Nat.le_refl _)

theorem stripL_stripML (xs : List Val) : stripL (stripML xs) = stripL xs := by
  rw [stripL_eq_map, stripML_eq_map, stripL_eq_map, List.map_map]
  apply List.map_congr_left
  intro x _
  exact strip_stripM x

/-- equality does not see headers, caches or metadata -/
theorem Eqv_stripM_iff (cfg : Cfg) (a b : Val) : Eqv cfg (stripM a) (stripM b) ↔ Eqv cfg a b := by
  rw [← Eqv_strip_iff cfg (stripM a) (stripM b), strip_stripM, strip_stripM, Eqv_strip_iff]

theorem Eqv_stripM_left (cfg : Cfg) (a b : Val) : Eqv cfg (stripM a) b ↔ Eqv cfg a b := by
  rw [← Eqv_strip_iff cfg (stripM a) b, strip_stripM, Eqv_strip_iff]

theorem Eqv_stripM_right (cfg : Cfg) (a b : Val) : Eqv cfg a (stripM b) ↔ Eqv cfg a b := by
  rw [← Eqv_strip_iff cfg a (stripM b), strip_stripM, Eqv_strip_iff]

theorem pairwiseDistinct_stripML (cfg : Cfg) (xs : List Val) :
    pairwiseDistinct cfg (stripML xs) ↔ pairwiseDistinct cfg xs := by
  unfold pairwiseDistinct
  rw [stripML_eq_map, List.pairwise_map]
  constructor
  · intro h
    refine List.Pairwise.imp ?_ h
    intro x y hxy
    rw [Eqv_stripM_iff, Eqv_stripM_iff] at hxy
    exact hxy
  · intro h
    refine List.Pairwise.imp ?_ h
    intro x y hxy
    rw [Eqv_stripM_iff, Eqv_stripM_iff]
    exact hxy

/-! ### headers, caches, numbers -/

theorem stripM_setHdr (v : Val) (h : Hdr) : stripM (v.setHdr h) = stripM v := by
  cases v <;> simp only [Val.setHdr, stripM]

theorem stripM_hashOp (cfg : Cfg) (v : Val) : stripM (hashOp cfg v).2 = stripM v := by
  rcases hashOp_snd cfg v with e | e
  · rw [e]
  · rw [e, stripM_setHdr]

theorem stripML_hasDuplicates (cfg : Cfg) (xs : List Val) :
    stripML (hasDuplicates cfg xs).2 = stripML xs := by
  unfold hasDuplicates
  by_cases h1 : xs.length ≤ 1
  · rw [if_pos h1]
  · rw [if_neg h1]
    by_cases h2 : xs.length ≤ Tables.linearThreshold
    · rw [if_pos h2]
    · rw [if_neg h2]
      show stripML (xs.map fun x => (hashOp cfg x).2) = stripML xs
      rw [stripML_eq_map, stripML_eq_map, List.map_map]
      apply List.map_congr_left
      intro x _
      exact stripM_hashOp cfg x

theorem stripM_numToVal (h : Hdr) (v : NumVal) : stripM (numToVal h v) = numToVal hdr0 v := by
  cases v <;> simp [numToVal, stripM]

/-! ### metadata cells -/

theorem md_stripM (v : Val) : (stripM v).md = stripMO v.md := by
  cases v <;> simp only [stripM, Val.md, stripMO_none]

theorem metaTarget_stripM (v : Val) : (stripM v).metaTarget = v.metaTarget := by
  cases v <;> simp only [stripM, Val.metaTarget]

theorem stripM_setMd (v : Val) (m : Option Val) : stripM (v.setMd m) = (stripM v).setMd (stripMO m) := by
  cases v <;> simp only [stripM, Val.setMd]

theorem md_setHdr (v : Val) (h : Hdr) : (v.setHdr h).md = v.md := by
  cases v <;> rfl

theorem md_setMd_of_target (v : Val) (m : Option Val) (h : v.metaTarget = true) : (v.setMd m).md = m := by
  cases v <;> first | rfl | (simp [Val.metaTarget] at h)

/-! ### `stripM` is idempotent -/

theorem stripM_idem_aux : ∀ (n : Nat), (∀ a : Val, sizeOf a ≤ n → stripM (stripM a) = stripM a) := by
  intro n
  induction n with
  | zero =>
    intro a h
    cases a <;> simp at h <;> omega
  | succ n ih =>
    have hl : ∀ xs : List Val, sizeOf xs ≤ n → stripML (stripML xs) = stripML xs := by
      intro xs
      induction xs with
      | nil => intro _; rw [stripML_nil, stripML_nil]
      | cons x xs ihx =>
        intro h
        simp at h
        rw [stripML_cons, stripML_cons, ih x (by omega), ihx (by omega)]
    have ho : ∀ m : Option Val, sizeOf m ≤ n → stripMO (stripMO m) = stripMO m := by
      intro m h
      cases m with
      | none => rw [stripMO_none, stripMO_none]
      | some x =>
        simp at h
        rw [stripMO_some, stripMO_some, ih x (by omega)]
    intro a h
    cases a <;> simp only [stripM]
    case sym h1 m ns nm => simp at h; rw [ho m (by omega)]
    case list h1 m xs => simp at h; rw [ho m (by omega), hl xs (by omega)]
    case vec h1 m xs => simp at h; rw [ho m (by omega), hl xs (by omega)]
    case set h1 m xs => simp at h; rw [ho m (by omega), hl xs (by omega)]
    case map h1 m ks vs => simp at h; rw [ho m (by omega), hl ks (by omega), hl vs (by omega)]
    case tagged h1 m t v => simp at h; rw [ho m (by omega), ih v (by omega)]

theorem stripM_idem (a : Val) : stripM (stripM a) = stripM a := stripM_idem_aux _ a (Nat.le_refl _)

theorem stripML_idem (xs : List Val) : stripML (stripML xs) = stripML xs := by
  rw [stripML_eq_map, stripML_eq_map, List.map_map]
  apply List.map_congr_left
  intro x _
  exact stripM_idem x

end Edn.Proofs.SndX
