/-
  Edn.Proofs.FlagIndep — C18: feature flags only add syntax.  A document that the core
  configuration accepts and that contains none of the byte patterns the extensions claim
  for themselves reads to the same value under every combination of the flags.
-/
import Edn.Proofs.Fuel
import Edn.Proofs.ReaderInv

namespace Edn.Proofs
open Edn.Model

/-- byte patterns that only an extension gives a meaning to and that core EDN nevertheless
    accepts in some other role: `^` (metadata marker vs. symbol constituent), the
    triple-quote-newline opener (text block vs. empty string followed by a string), and a
    backslash directly followed by a form feed or backspace byte (rejected as a character
    literal by the Clojure flag).  Every other extension syntax (`#:`, `0x`, leading zeros,
    `NrD`, `/` or `_` in numbers, `\formfeed`, `\oNNN`, long `\u` escapes) is *rejected* by the
    core configuration, so "the core configuration accepts the document" already excludes it. -/
def NoTriggers (s : Bytes) : Prop :=
  0x5E ∉ s ∧ ¬ [0x22, 0x22, 0x22, 0x0A] <:+: s ∧ ¬ [0x5C, 0x0C] <:+: s ∧ ¬ [0x5C, 0x08] <:+: s

theorem NoTriggers.suffix {s t : Bytes} (h : NoTriggers s) (hs : t <:+ s) : NoTriggers t := by
  sorry

/-- numbers: whatever the core configuration accepts, every configuration reads identically -/
theorem readNumber_core_ok (cfg : Cfg) (s : Bytes) (v : NumVal) (rest : Bytes)
    (h : readNumber Cfg.core s = .ok v rest) : readNumber cfg s = .ok v rest := by
  sorry

/-- The main theorem.  If, in the core configuration, `edn_read_value` returns a value for a
    suffix without trigger patterns, and every string in that value uses only core escapes,
    then every configuration returns the same value up to cache cells (whose contents depend
    on the numbering of the type enumeration), the same remaining input and the same call
    log (same options, same depth, same discard mode; no handler registry, since handlers
    are arbitrary functions of the value incl. its cache cells). -/
theorem readValue_flag_independent (cfg : Cfg) (opts : Opts) (hreg : opts.registry = none)
    (f d : Nat) (dm : Bool) (st st' : St) (v : Val)
    (hd : d ≤ Edn.Generated.Tables.maxNestingDepth)
    (hn : NoTriggers st.rest)
    (h : readValue { cfg := Cfg.core, opts := opts } f d dm st = .ok v st')
    (hs : Edn.Spec.coreStrings v = true) :
    ∃ v', readValue { cfg := cfg, opts := opts } f d dm st = .ok v' st' ∧
      Edn.Spec.eraseCache v' = Edn.Spec.eraseCache v := by
  sorry

/-- top level: same tree (up to cache cells) under all four flag combinations -/
theorem read_flag_independent (cfg : Cfg) (opts : Opts) (hreg : opts.registry = none) (input : Bytes) (v : Val)
    (hn : NoTriggers input) (h : (read Cfg.core opts input).out = .value v)
    (hs : Edn.Spec.coreStrings v = true) :
    ∃ v', (read cfg opts input).out = .value v' ∧ Edn.Spec.eraseCache v' = Edn.Spec.eraseCache v := by
  sorry

/-- the bytes an ordinary string denotes do not depend on the flags unless the literal uses
    one of the additional escapes (`\f`, `\b`, `\u`, `\0`..`\7`) -/
theorem stringGet_flag_independent (cfg : Cfg) (data : Bytes) (esc : Bool) (out : Bytes)
    (h : stringGet Cfg.core data esc = some out) : stringGet cfg data esc = some out := by
  sorry

end Edn.Proofs
