/-
  Edn.Proofs.FlagIndep — C18: feature flags only add syntax.  A document that the core
  configuration accepts and that contains none of the byte patterns the extensions claim
  for themselves reads to the same value under every combination of the flags.

  Proof layout: `FlagIndepAux0` (shared definitions), `FlagIndepAux1` (numbers),
  `FlagIndepAux2` (trigger patterns, dispatch table, string decoding, leaf readers),
  `FlagIndepAux3` (equality / duplicate check up to cache cells), `FlagIndepAux4`
  (accumulators, `#:`), `FlagIndepAux5` (the simulation, by induction on the fuel).

  STATEMENT CHANGE (`NoTriggers`, one conjunct added).  As first written (four conjuncts)
  `readValue_flag_independent` and `read_flag_independent` are false: the hypothesis
  `coreStrings v` speaks about the strings of the *result*, but a discarded form `#_ form`
  is read, checked for duplicates and dropped, so its strings are not covered.  Two string
  literals that the core configuration cannot decode (and therefore compares by their raw
  text) may decode to the same bytes with the Clojure flag:

      #eval read ⟨false,false⟩ {} "#_ #{\"\\f\" \"\\u000c\"} 1".toUTF8.toList   -- value (int 1)
      #eval read ⟨true,false⟩  {} "#_ #{\"\\f\" \"\\u000c\"} 1".toUTF8.toList   -- error DUPLICATE_ELEMENT 3..19
      (also ⟨true,true⟩; the same with `"\7"` and `"\07"`)

  The input has none of the four original patterns and the result `1` contains no string.
  Repair: the fifth conjunct of `NoTriggers` — the input has no discard marker `#_`, *or* no
  backslash in it is followed by one of the extension escape letters `f b u 0..7` (`NoExt`;
  then every string literal, discarded or not, decodes identically in all configurations).
-/
import Edn.Proofs.Fuel
import Edn.Proofs.ReaderInv
import Edn.Proofs.FlagIndepAux5

namespace Edn.Proofs
open Edn.Model

/-- byte patterns that only an extension gives a meaning to and that core EDN nevertheless
    accepts in some other role: `^` (metadata marker vs. symbol constituent), the
    triple-quote-newline opener (text block vs. empty string followed by a string), and a
    backslash directly followed by a form feed or backspace byte (rejected as a character
    literal by the Clojure flag).  Every other extension syntax (`#:`, `0x`, leading zeros,
    `NrD`, `/` or `_` in numbers, `\formfeed`, `\oNNN`, long `\u` escapes) is *rejected* by the
    core configuration, so "the core configuration accepts the document" already excludes it.

    Fifth conjunct (added, see the header): string escapes are decoded lazily, so the core
    configuration accepts `"\f"` etc. inside a form that `#_` discards; such a document must
    not combine a discard marker with an extension escape pattern (`NoExt s`: no backslash
    is followed by `f`, `b`, `u` or an octal digit, `extEscape`). -/
def NoTriggers (s : Bytes) : Prop :=
  0x5E ∉ s ∧ ¬ [0x22, 0x22, 0x22, 0x0A] <:+: s ∧ ¬ [0x5C, 0x0C] <:+: s ∧ ¬ [0x5C, 0x08] <:+: s ∧
  (¬ [0x23, 0x5F] <:+: s ∨ NoExt s)

theorem NoTriggers.suffix {s t : Bytes} (h : NoTriggers s) (hs : t <:+ s) : NoTriggers t :=
  NoTrig.suffix h hs

/-- numbers: whatever the core configuration accepts, every configuration reads identically -/
theorem readNumber_core_ok (cfg : Cfg) (s : Bytes) (v : NumVal) (rest : Bytes)
    (h : readNumber Cfg.core s = .ok v rest) : readNumber cfg s = .ok v rest :=
  (readNumber_core_ok_aux cfg s v rest h).1

/-- The main theorem.  If, in the core configuration, `edn_read_value` returns a value for a
    suffix without trigger patterns, and every string in that value uses only core escapes,
    then every configuration returns the same value up to cache cells (whose contents depend
    on the numbering of the type enumeration), the same remaining input and the same call
    log (same options, same depth, same discard mode; no handler registry, since handlers
    are arbitrary functions of the value incl. its cache cells). -/
theorem readValue_flag_independent (cfg : Cfg) (opts : Opts) (hreg : opts.registry = none)
    (f d : Nat) (dm : Bool) (st st' : St) (v : Val)
    (hd : d ≤ Edn.Generated.Tables.maxNestingDepth)
    (hn : NoTriggers st.rest)
    (h : readValue { cfg := Cfg.core, opts := opts } f d dm st = .ok v st')
    (hs : Edn.Spec.coreStrings v = true) :
    ∃ v', readValue { cfg := cfg, opts := opts } f d dm st = .ok v' st' ∧
      Edn.Spec.eraseCache v' = Edn.Spec.eraseCache v :=
  readValue_flag cfg opts hreg f d dm st st' v hd hn h hs

/-- top level: same tree (up to cache cells) under all four flag combinations -/
theorem read_flag_independent (cfg : Cfg) (opts : Opts) (hreg : opts.registry = none) (input : Bytes) (v : Val)
    (hn : NoTriggers input) (h : (read Cfg.core opts input).out = .value v)
    (hs : Edn.Spec.coreStrings v = true) :
    ∃ v', (read cfg opts input).out = .value v' ∧ Edn.Spec.eraseCache v' = Edn.Spec.eraseCache v := by
  unfold Edn.Model.read at h ⊢
  simp only [] at h ⊢
  cases hr : readValue { cfg := Cfg.core, opts := opts } (readFuel input) 0 false { rest := input } with
  | ok v0 st =>
    rw [hr] at h
    simp only [] at h
    cases h
    obtain ⟨v', hv', he⟩ := readValue_flag_independent cfg opts hreg (readFuel input) 0 false
      { rest := input } st v (Nat.zero_le _) hn hr hs
    rw [hv']
    exact ⟨v', rfl, he⟩
  | closer st =>
    rw [hr] at h
    simp only [] at h
    cases h
  | err e st =>
    rw [hr] at h
    simp only [] at h
    repeat' split at h
    all_goals cases h

/-- the bytes an ordinary string denotes do not depend on the flags unless the literal uses
    one of the additional escapes (`\f`, `\b`, `\u`, `\0`..`\7`) -/
theorem stringGet_flag_independent (cfg : Cfg) (data : Bytes) (esc : Bool) (out : Bytes)
    (h : stringGet Cfg.core data esc = some out) : stringGet cfg data esc = some out :=
  stringGet_core_some cfg data esc out h

end Edn.Proofs
