/-
  Edn.Proofs.NumberReader — C04 / C05 at reader level: `edn_read_number` on each class of
  number token (followed by the end of input or a terminator) consumes exactly the token and
  returns the payload the class denotes.  Decimal integers: Edn.Proofs.CompleteNum.
-/
import Edn.Spec.NumberLit
import Edn.Proofs.CompleteNum
import Edn.Proofs.DoubleSpec

namespace Edn.Proofs
open Edn.Model Edn.Spec

/-- floats, every configuration: the payload is `parse_double_from_buffer` on the token … -/
theorem readNumber_float (cfg : Cfg) (tok rest : Bytes) (h : FloatTok tok) (ht : TermStart rest) :
    readNumber cfg (tok ++ rest) = .ok (.float (parseDouble cfg tok)) rest := by
  sorry

/-- … which is the correctly rounded double of the token's exact decimal value -/
theorem readNumber_float_value (cfg : Cfg) (tok rest : Bytes) (h : FloatTok tok) (ht : TermStart rest) :
    readNumber cfg (tok ++ rest) =
      .ok (.float (let p := decimalParts tok; withSign p.1 (ofDec p.2.1 p.2.2))) rest := by
  sorry

/-- big decimals: an integer or float token followed by `M` keeps its text (without the sign) -/
theorem readNumber_bigdec (cfg : Cfg) (sg body rest : Bytes) (neg : Bool) (hs : SignTok sg neg)
    (hb : DecDigits body ∨ FloatTok body) (hnosign : ∀ c, body.head? = some c → c ≠ 0x2B ∧ c ≠ 0x2D)
    (ht : TermStart rest) :
    readNumber cfg (sg ++ body ++ [0x4D] ++ rest) = .ok (.bigdec neg body) rest := by
  sorry

/-- Clojure flag: `0x` / `0X` hexadecimal integers -/
theorem readNumber_hex (cfg : Cfg) (hc : cfg.clj = true) (sg hs rest : Bytes) (x : UInt8) (neg : Bool) (hs' : SignTok sg neg)
    (hx : x = 0x78 ∨ x = 0x58) (hne : hs ≠ []) (hh : AllHex hs) (ht : TermStart rest) :
    readNumber cfg (sg ++ [0x30, x] ++ hs ++ rest) = .ok (intOrBig cfg hs 16 neg) rest := by
  sorry

/-- Clojure flag: a leading zero followed by octal digits -/
theorem readNumber_octal (cfg : Cfg) (hc : cfg.clj = true) (sg zs os rest : Bytes) (neg : Bool) (hs : SignTok sg neg)
    (hz : ∀ c ∈ zs, c = 0x30) (hne : os ≠ []) (ho : AllRadix 8 os) (hfirst : os.head? ≠ some 0x30) (ht : TermStart rest) :
    readNumber cfg (sg ++ 0x30 :: zs ++ os ++ rest) = .ok (intOrBig cfg (0x30 :: zs ++ os) 8 neg) rest := by
  sorry

/-- Clojure flag: `NrDDD` with radix N in 2..36 -/
theorem readNumber_radix (cfg : Cfg) (hc : cfg.clj = true) (sg rp ds rest : Bytes) (r : UInt8) (neg : Bool) (hs : SignTok sg neg)
    (hrp : rp ≠ [] ∧ AllDigits rp) (hrv : 2 ≤ natOfDigits rp ∧ natOfDigits rp ≤ 36) (hr : r = 0x72 ∨ r = 0x52)
    (hne : ds ≠ []) (hd : AllRadix (natOfDigits rp) ds) (ht : TermStart rest) :
    readNumber cfg (sg ++ rp ++ [r] ++ ds ++ rest) = .ok (intOrBig cfg ds (natOfDigits rp) neg) rest := by
  sorry

/-- Clojure flag: ratios `n/d` are reduced to lowest terms (see `ratioValue`) -/
theorem readNumber_ratio (cfg : Cfg) (hc : cfg.clj = true) (sg nd dd rest : Bytes) (neg : Bool) (hs : SignTok sg neg)
    (hn : DecDigits nd) (hd : dd ≠ [] ∧ AllDigits dd ∧ dd.head? ≠ some 0x30) (ht : TermStart rest) :
    readNumber cfg (sg ++ nd ++ [0x2F] ++ dd ++ rest) = .ok (ratioValue cfg neg nd dd) rest := by
  sorry

end Edn.Proofs
