/-
  Edn.Proofs.NumberReader — C04 / C05 at reader level: `edn_read_number` on each class of
  number token (followed by the end of input or a terminator) consumes exactly the token and
  returns the payload the class denotes.  Decimal integers: Edn.Proofs.CompleteNum.
-/
import Edn.Spec.NumberLit
import Edn.Proofs.CompleteNum
import Edn.Proofs.DoubleSpec
import Edn.Proofs.NumberReaderAux1
import Edn.Proofs.NumberReaderAux2
import Edn.Proofs.NumberReaderAux3

namespace Edn.Proofs
open Edn.Model Edn.Spec

/-- floats, every configuration: the payload is `parse_double_from_buffer` on the token … -/
theorem readNumber_float (cfg : Cfg) (tok rest : Bytes) (h : FloatTok tok) (ht : TermStart rest) :
    readNumber cfg (tok ++ rest) = .ok (.float (parseDouble cfg tok)) rest := by
  obtain ⟨sg, ip, fr, ex, neg, rfl, hs, hip, hfr, hex, hne⟩ := h
  have hst := CNum.term_props (CNum.peek_term ht)
  have h2 := CNum.stopProps2_unpack hst
  have hassoc : sg ++ ip ++ fr ++ ex ++ rest = sg ++ (ip ++ (fr ++ (ex ++ rest))) := by
    simp only [List.append_assoc]
  have hb : (!fr.isEmpty || !ex.isEmpty) = true := by
    rcases hne with h | h
    · cases fr with
      | nil => exact absurd rfl h
      | cons _ _ => rfl
    · cases ex with
      | nil => exact absurd rfl h
      | cons _ _ => simp
  rw [hassoc, CNum.readNumber_sign cfg sg _ neg hs (NRd.decDigits_peek hip _),
    NRd.numBody_mantissa cfg _ neg ip fr ex rest hip hfr hex
      (by rcases hne with h | h
          · exact Or.inl h
          · exact Or.inr (Or.inl h)) h2.1,
    NRd.decimalTail_float cfg _ neg _ _ _ rest hst hb, CNum.finishNum_term _ ht, ← hassoc,
    CNum.slice_append]

/-- … which is the correctly rounded double of the token's exact decimal value -/
theorem readNumber_float_value (cfg : Cfg) (tok rest : Bytes) (h : FloatTok tok) (ht : TermStart rest) :
    readNumber cfg (tok ++ rest) =
      .ok (.float (let p := decimalParts tok; withSign p.1 (ofDec p.2.1 p.2.2))) rest := by
  rw [readNumber_float cfg tok rest h ht,
    DoubleSpecAux.parseDouble_of_noUnderscore cfg tok (fun _ => NRd.floatTok_no_underscore h)]

/-- big decimals: an integer or float token followed by `M` keeps its text (without the sign) -/
theorem readNumber_bigdec (cfg : Cfg) (sg body rest : Bytes) (neg : Bool) (hs : SignTok sg neg)
    (hb : DecDigits body ∨ FloatTok body) (hnosign : ∀ c, body.head? = some c → c ≠ 0x2B ∧ c ≠ 0x2D)
    (ht : TermStart rest) :
    readNumber cfg (sg ++ body ++ [0x4D] ++ rest) = .ok (.bigdec neg body) rest := by
  -- both shapes are `ip ++ fr ++ ex`
  have hshape : ∃ ip fr ex, body = ip ++ fr ++ ex ∧ DecDigits ip ∧ FracPart fr ∧ ExpPart ex := by
    rcases hb with hb | ⟨sg', ip, fr, ex, neg', rfl, hs', hip, hfr, hex, -⟩
    · exact ⟨body, [], [], by simp, hb, Or.inl rfl, Or.inl rfl⟩
    · rcases hs' with ⟨rfl, -⟩ | ⟨rfl, -⟩ | ⟨rfl, -⟩
      · exact ⟨ip, fr, ex, by simp, hip, hfr, hex⟩
      · exact absurd rfl (hnosign 0x2B (by simp)).1
      · exact absurd rfl (hnosign 0x2D (by simp)).2
  obtain ⟨ip, fr, ex, rfl, hip, hfr, hex⟩ := hshape
  have hassoc : sg ++ (ip ++ fr ++ ex) ++ [0x4D] ++ rest = sg ++ (ip ++ fr ++ ex ++ 0x4D :: rest) := by
    simp only [List.append_assoc, List.singleton_append]
  have hpk : is09 (peek (ip ++ fr ++ ex ++ 0x4D :: rest)) = true := by
    have := NRd.decDigits_peek hip (fr ++ (ex ++ 0x4D :: rest))
    simpa only [List.append_assoc] using this
  rw [hassoc, CNum.readNumber_sign cfg sg _ neg hs hpk,
    NRd.numBody_bigdec cfg _ neg ip fr ex rest hip hfr hex ht]

/-- Clojure flag: `0x` / `0X` hexadecimal integers -/
theorem readNumber_hex (cfg : Cfg) (hc : cfg.clj = true) (sg hs rest : Bytes) (x : UInt8) (neg : Bool) (hs' : SignTok sg neg)
    (hx : x = 0x78 ∨ x = 0x58) (hne : hs ≠ []) (hh : AllHex hs) (ht : TermStart rest) :
    readNumber cfg (sg ++ [0x30, x] ++ hs ++ rest) = .ok (intOrBig cfg hs 16 neg) rest := by
  have hassoc : sg ++ [0x30, x] ++ hs ++ rest = sg ++ (0x30 :: x :: (hs ++ rest)) := by
    simp only [List.append_assoc, List.cons_append, List.nil_append]
  rw [hassoc, CNum.readNumber_sign cfg sg _ neg hs' (by rfl),
    NRd.numBody_hex cfg hc _ neg x hs rest hx hne hh ht]

/-- Clojure flag: a leading zero followed by octal digits -/
theorem readNumber_octal (cfg : Cfg) (hc : cfg.clj = true) (sg zs os rest : Bytes) (neg : Bool) (hs : SignTok sg neg)
    (hz : ∀ c ∈ zs, c = 0x30) (hne : os ≠ []) (ho : AllRadix 8 os) (hfirst : os.head? ≠ some 0x30) (ht : TermStart rest) :
    readNumber cfg (sg ++ 0x30 :: zs ++ os ++ rest) = .ok (intOrBig cfg (0x30 :: zs ++ os) 8 neg) rest := by
  have hassoc : sg ++ 0x30 :: zs ++ os ++ rest = sg ++ (0x30 :: zs ++ os ++ rest) := by
    simp only [List.append_assoc]
  rw [hassoc, CNum.readNumber_sign cfg sg _ neg hs (by rfl),
    NRd.numBody_octal cfg hc _ neg zs os rest hz hne ho hfirst ht]

/-- Clojure flag: `NrDDD` with radix N in 2..36 -/
theorem readNumber_radix (cfg : Cfg) (hc : cfg.clj = true) (sg rp ds rest : Bytes) (r : UInt8) (neg : Bool) (hs : SignTok sg neg)
    (hrp : rp ≠ [] ∧ AllDigits rp) (hrv : 2 ≤ natOfDigits rp ∧ natOfDigits rp ≤ 36) (hr : r = 0x72 ∨ r = 0x52)
    (hne : ds ≠ []) (hd : AllRadix (natOfDigits rp) ds) (ht : TermStart rest) :
    readNumber cfg (sg ++ rp ++ [r] ++ ds ++ rest) = .ok (intOrBig cfg ds (natOfDigits rp) neg) rest := by
  have hassoc : sg ++ rp ++ [r] ++ ds ++ rest = sg ++ (rp ++ r :: (ds ++ rest)) := by
    simp only [List.append_assoc, List.cons_append, List.nil_append]
  have hpk : is09 (peek (rp ++ r :: (ds ++ rest))) = true := by
    obtain ⟨hne', hall⟩ := hrp
    cases rp with
    | nil => exact absurd rfl hne'
    | cons d t => exact hall d (by simp)
  rw [hassoc, CNum.readNumber_sign cfg sg _ neg hs hpk,
    NRd.numBody_radix cfg hc _ neg rp r ds rest hrp hrv hr hne hd ht]

/-- Clojure flag: ratios `n/d` are reduced to lowest terms (see `ratioValue`).

    STATEMENT CHANGE (hypothesis `hzero` added): with the numerator `0` the reader takes the
    zero path of `edn_read_number`, which returns the integer 0 after validating the
    denominator's spelling only — it never converts the denominator, so it never produces the
    big-ratio form that `ratioValue` prescribes when the denominator does not fit 64 bits.
    Counterexample to the statement without `hzero` (Clojure flag on): `0/9223372036854775808`
    reads as `.int 0` whereas `ratioValue cfg false "0" "9223372036854775808"` is
    `.bigratio false "0" "9223372036854775808"` (see the `example`s below). -/
theorem readNumber_ratio (cfg : Cfg) (hc : cfg.clj = true) (sg nd dd rest : Bytes) (neg : Bool) (hs : SignTok sg neg)
    (hn : DecDigits nd) (hd : dd ≠ [] ∧ AllDigits dd ∧ dd.head? ≠ some 0x30) (ht : TermStart rest)
    (hzero : nd = [0x30] → natOfDigits dd ≤ 9223372036854775807) :
    readNumber cfg (sg ++ nd ++ [0x2F] ++ dd ++ rest) = .ok (ratioValue cfg neg nd dd) rest := by
  have hassoc : sg ++ nd ++ [0x2F] ++ dd ++ rest = sg ++ (nd ++ 0x2F :: (dd ++ rest)) := by
    simp only [List.append_assoc, List.cons_append, List.nil_append]
  rw [hassoc, CNum.readNumber_sign cfg sg _ neg hs (NRd.decDigits_peek hn _),
    NRd.numBody_ratio cfg hc _ neg nd dd rest hn hd hzero ht]

/-- the counterexample that makes `hzero` necessary -/
example : readNumber ⟨true, false⟩ "0/9223372036854775808".toUTF8.toList = .ok (.int 0) [] := by
  decide +kernel
example : ratioValue ⟨true, false⟩ false "0".toUTF8.toList "9223372036854775808".toUTF8.toList =
    .bigratio false "0".toUTF8.toList "9223372036854775808".toUTF8.toList := by
  decide +kernel

end Edn.Proofs
