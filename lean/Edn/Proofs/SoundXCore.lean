/-
  Edn.Proofs.SoundXCore — the grammar of all configurations specialises to the grammar of the
  core configuration: with both flags off, core numbers and ordinary strings,
  `FormX Cfg.core coreNumJ rawStrJ` is `Form` (no metadata, no namespaced maps, the core character
  names).
-/
import Edn.Spec.GrammarX
import Edn.Proofs.CharSound
import Edn.Proofs.SoundAux7

namespace Edn.Proofs
open Edn.Model Edn.Spec

/-- character tokens: the core ones are exactly the general ones with both flags off -/
theorem charTok_iff_X (body : Bytes) (cp : Nat) : CharTokX Cfg.core body cp ↔ CharTok body cp := by
  constructor
  · intro h
    cases h with
    | newline => exact .newline
    | ret => exact .ret
    | space => exact .space
    | tab => exact .tab
    | formfeed h => cases h
    | backspace h => cases h
    | octal h ds ho => cases h
    | unicode ds hd hl =>
      have hl4 : ds.length = 4 := by
        rcases hl with h | ⟨h, -⟩
        · exact h
        · cases h
      match ds, hl4 with
      | [a, b, c, d], _ =>
        have ha := hd a (by simp)
        have hb := hd b (by simp)
        have hc := hd c (by simp)
        have hd' := hd d (by simp)
        obtain ⟨w, hw⟩ := Option.isSome_iff_exists.mp ha
        obtain ⟨x, hx⟩ := Option.isSome_iff_exists.mp hb
        obtain ⟨y, hy⟩ := Option.isSome_iff_exists.mp hc
        obtain ⟨z, hz⟩ := Option.isSome_iff_exists.mp hd'
        rw [hexValue_four hw hx hy hz [], List.foldl_nil]
        refine .unicode a b c d _ ?_
        simp [hex4?, hw, hx, hy, hz]
    | single c hc => exact .single c hc
  · intro h
    cases h with
    | newline => exact .newline
    | ret => exact .ret
    | space => exact .space
    | tab => exact .tab
    | unicode a b c d cp hx =>
      obtain ⟨w, x, y, z, hw, hx', hy, hz, hv, _⟩ := hex4?_cons_some hx
      have := CharTokX.unicode (cfg := Cfg.core) [a, b, c, d] (by
        intro e he
        simp only [List.mem_cons, List.mem_nil_iff, or_false] at he
        rcases he with rfl | rfl | rfl | rfl <;> simp [hw, hx', hy, hz]) (.inl rfl)
      rwa [hexValue_four hw hx' hy hz [], List.foldl_nil, ← hv] at this
    | single c hc => exact .single c hc

theorem numStart_of_coreNum {tok : Bytes} {v : NumVal} (h : CoreNum Cfg.core tok v) (rest : Bytes) :
    NumStart (tok ++ rest) := by
  obtain ⟨c, t, rfl, hc⟩ := Snd.coreNum_first h
  refine ⟨c, t ++ rest, rfl, ?_⟩
  rcases hc with hc | ⟨hs, nx, t', rfl, hnx⟩
  · exact .inl hc
  · exact .inr ⟨hs, nx, t' ++ rest, rfl, hnx⟩

mutual
theorem formX_core_to_form : ∀ {k : Nat} {a : Val} {tok rest : Bytes},
    FormX Cfg.core coreNumJ rawStrJ k a tok rest → Form k a tok rest
  | _, _, _, _, .blank k a tr tok rest ht h => .blank k a tr tok rest ht (formX_core_to_form h)
  | _, _, _, _, .discard k a b tok1 tok2 rest hd h =>
    .discard k a b tok1 tok2 rest (formX_core_to_form hd) (formX_core_to_form h)
  | _, _, _, _, .number k tok rest v _ hn => .number k tok rest v hn.1 hn.2
  | _, _, _, _, .ident k tok rest a hl hs hd ht => .ident k tok rest a hl hs.1 hd ht
  | _, _, _, _, .str k tok rest data esc _ hs => by
    obtain ⟨hraw, rfl, rfl⟩ := hs
    exact .str k data rest hraw
  | _, _, _, _, .char k body rest cp h hcp ht => .char k body rest cp ((charTok_iff_X body cp).mp h) hcp ht
  | _, _, _, _, .symbolic k tok rest bits h => .symbolic k tok rest bits h
  | _, _, _, _, .list k xs body rest h => .list k xs body rest (formSeqX_core_to_form h)
  | _, _, _, _, .vec k xs body rest h => .vec k xs body rest (formSeqX_core_to_form h)
  | _, _, _, _, .set k xs body rest h hd => .set k xs body rest (formSeqX_core_to_form h) hd
  | _, _, _, _, .map k ks vs body rest h hl hd => .map k ks vs body rest (formSeqX_core_to_form h) hl hd
  | _, _, _, _, .tagged k tag ns nm a tok rest hl hd hu hsep h =>
    .tagged k tag ns nm a tok rest hl hd hu hsep (formX_core_to_form h)
  | _, _, _, _, .withMeta k am af nks nvs tokm tokf rest hc hm he hf ht => by cases hc
  | _, _, _, _, .nsmap k name tr body rest ks vs hc hl hden ht h hlen hd => by cases hc

theorem formSeqX_core_to_form : ∀ {k : Nat} {xs : List Val} {body after : Bytes},
    FormSeqX Cfg.core coreNumJ rawStrJ k xs body after → FormSeq k xs body after
  | _, _, _, _, .nil k tr after ht => .nil k tr after (trailX_core_to_form ht)
  | _, _, _, _, .cons k a xs tok body after h hr =>
    .cons k a xs tok body after (formX_core_to_form h) (formSeqX_core_to_form hr)

theorem trailX_core_to_form : ∀ {k : Nat} {tr after : Bytes},
    TrailX Cfg.core coreNumJ rawStrJ k tr after → Trail k tr after
  | _, _, _, .blank k tr after ht => .blank k tr after ht
  | _, _, _, .discard k b tr tok tr' after ht hd hr =>
    .discard k b tr tok tr' after ht (formX_core_to_form hd) (trailX_core_to_form hr)
end

mutual
theorem form_to_formX_core : ∀ {k : Nat} {a : Val} {tok rest : Bytes},
    Form k a tok rest → FormX Cfg.core coreNumJ rawStrJ k a tok rest
  | _, _, _, _, .blank k a tr tok rest ht h => .blank k a tr tok rest ht (form_to_formX_core h)
  | _, _, _, _, .discard k a b tok1 tok2 rest hd h =>
    .discard k a b tok1 tok2 rest (form_to_formX_core hd) (form_to_formX_core h)
  | _, _, _, _, .number k tok rest v hn ht => .number k tok rest v (numStart_of_coreNum hn rest) ⟨hn, ht⟩
  | _, _, _, _, .ident k tok rest a hl hs hd ht => .ident k tok rest a hl ⟨hs, fun h => by cases h⟩ hd ht
  | _, _, _, _, .str k sp rest h => .str k _ rest sp _ rfl ⟨h, rfl, rfl⟩
  | _, _, _, _, .char k body rest cp h hcp ht => .char k body rest cp ((charTok_iff_X body cp).mpr h) hcp ht
  | _, _, _, _, .symbolic k tok rest bits h => .symbolic k tok rest bits h
  | _, _, _, _, .list k xs body rest h => .list k xs body rest (formSeq_to_formSeqX_core h)
  | _, _, _, _, .vec k xs body rest h => .vec k xs body rest (formSeq_to_formSeqX_core h)
  | _, _, _, _, .set k xs body rest h hd => .set k xs body rest (formSeq_to_formSeqX_core h) hd
  | _, _, _, _, .map k ks vs body rest h hl hd => .map k ks vs body rest (formSeq_to_formSeqX_core h) hl hd
  | _, _, _, _, .tagged k tag ns nm a tok rest hl hd hu hsep h =>
    .tagged k tag ns nm a tok rest hl hd hu hsep (form_to_formX_core h)

theorem formSeq_to_formSeqX_core : ∀ {k : Nat} {xs : List Val} {body after : Bytes},
    FormSeq k xs body after → FormSeqX Cfg.core coreNumJ rawStrJ k xs body after
  | _, _, _, _, .nil k tr after ht => .nil k tr after (trail_to_trailX_core ht)
  | _, _, _, _, .cons k a xs tok body after h hr =>
    .cons k a xs tok body after (form_to_formX_core h) (formSeq_to_formSeqX_core hr)

theorem trail_to_trailX_core : ∀ {k : Nat} {tr after : Bytes},
    Trail k tr after → TrailX Cfg.core coreNumJ rawStrJ k tr after
  | _, _, _, .blank k tr after ht => .blank k tr after ht
  | _, _, _, .discard k b tr tok tr' after ht hd hr =>
    .discard k b tr tok tr' after ht (form_to_formX_core hd) (trail_to_trailX_core hr)
end

/-- **the new grammar specialises to the old one**: with both flags off (core numbers, ordinary
    strings) `FormX` is `Form` -/
theorem formX_core_iff_form (k : Nat) (a : Val) (tok rest : Bytes) :
    FormX Cfg.core coreNumJ rawStrJ k a tok rest ↔ Form k a tok rest :=
  ⟨formX_core_to_form, form_to_formX_core⟩

end Edn.Proofs
