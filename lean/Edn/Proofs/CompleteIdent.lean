/-
  Edn.Proofs.CompleteIdent — C03, token level: nil, booleans, keywords and symbols are read
  exactly as rendered, in every context.
-/
import Edn.Spec.Renders
import Edn.Proofs.Fuel
import Edn.Proofs.Scan

namespace Edn.Proofs
open Edn.Model Edn.Spec

theorem reads_nil (cfg : Cfg) (opts : Opts) (d : Nat) : Reads cfg opts d (.nil hdr0) "nil".toUTF8.toList := by
  sorry
theorem reads_true (cfg : Cfg) (opts : Opts) (d : Nat) : Reads cfg opts d (.bool hdr0 true) "true".toUTF8.toList := by
  sorry
theorem reads_false (cfg : Cfg) (opts : Opts) (d : Nat) : Reads cfg opts d (.bool hdr0 false) "false".toUTF8.toList := by
  sorry

theorem reads_kw (cfg : Cfg) (opts : Opts) (d : Nat) (tok : Bytes) (ns : Option Bytes) (nm : Bytes)
    (h : IdentTok (0x3A :: tok)) (hc : tok.head? ≠ some 0x3A) (hsp : splitIdent tok = some (ns, nm))
    (hne : tok ≠ []) (hsl : tok ≠ [0x2F]) :
    Reads cfg opts d (.kw hdr0 ns nm) (0x3A :: tok) := by
  sorry

theorem reads_sym (cfg : Cfg) (opts : Opts) (d : Nat) (tok : Bytes) (ns : Option Bytes) (nm : Bytes)
    (h : IdentTok tok) (hc : tok.head? ≠ some 0x3A) (hsp : splitIdent tok = some (ns, nm))
    (hres : tok ≠ "nil".toUTF8.toList ∧ tok ≠ "true".toUTF8.toList ∧ tok ≠ "false".toUTF8.toList) :
    Reads cfg opts d (.sym hdr0 none ns nm) tok := by
  sorry

/-- used by the tagged-element case: the identifier reader itself on a tag token followed by a
    delimiter byte -/
theorem readIdentifier_tag (ctx : Ctx) (tag : Bytes) (ns : Option Bytes) (nm : Bytes) (c : UInt8) (rest : Bytes) (cl : List Call)
    (ht : IdentTok tag) (hc : tag.head? ≠ some 0x3A) (hsp : splitIdent tag = some (ns, nm))
    (hres : tag ≠ "nil".toUTF8.toList ∧ tag ≠ "true".toUTF8.toList ∧ tag ≠ "false".toUTF8.toList)
    (hd : isDelim c = true) :
    ∃ h, readIdentifier ctx { rest := tag ++ c :: rest, calls := cl } =
      .ok (.sym h none ns nm) { rest := c :: rest, calls := cl } := by
  sorry

end Edn.Proofs
