/-
  Edn.Proofs.CompleteIdent — C03, token level: nil, booleans, keywords and symbols are read
  exactly as rendered, in every context.
-/
import Edn.Spec.Renders
import Edn.Proofs.Fuel
import Edn.Proofs.Scan
import Edn.Proofs.CompleteIdentAux3

namespace Edn.Proofs
open Edn.Model Edn.Spec

/-- `Reads` for an identifier token from the result of the identifier reader -/
private theorem reads_of_readIdentifier (cfg : Cfg) (opts : Opts) (d : Nat) (a : Val) (tok : Bytes)
    (ht : IdentTok tok)
    (h : ∀ (rest : Bytes) (cl : List Call), TermD rest →
      ∃ v, readIdentifier { cfg := cfg, opts := opts } { rest := tok ++ rest, calls := cl } =
        .ok v { rest := rest, calls := cl } ∧ strip v = a) :
    Reads cfg opts d a tok := by
  intro dm rest cl f hts hf
  obtain ⟨f', rfl⟩ : ∃ f', f = f' + 1 := ⟨f - 1, by omega⟩
  rw [readValue_identTok _ f' d dm tok rest cl ht hts]
  exact h rest cl (TermStart.termD hts)

theorem reads_nil (cfg : Cfg) (opts : Opts) (d : Nat) : Reads cfg opts d (.nil hdr0) "nil".toUTF8.toList := by
  rw [nil_bytes]
  apply reads_of_readIdentifier _ _ _ _ _ identTok_nil
  intro rest cl hr
  rw [readIdentifier_plain _ _ rest cl hr identTok_nil (by decide) (by decide)]
  simp only [strBytes_eq, nil_bytes, BEq.rfl, ↓reduceIte]
  exact ⟨_, rfl, by simp [strip]⟩
theorem reads_true (cfg : Cfg) (opts : Opts) (d : Nat) : Reads cfg opts d (.bool hdr0 true) "true".toUTF8.toList := by
  rw [true_bytes]
  apply reads_of_readIdentifier _ _ _ _ _ identTok_true
  intro rest cl hr
  rw [readIdentifier_plain _ _ rest cl hr identTok_true (by decide) (by decide)]
  have h1 : (([0x74, 0x72, 0x75, 0x65] : Bytes) == [0x6E, 0x69, 0x6C]) = false := by decide
  simp only [strBytes_eq, nil_bytes, true_bytes, h1, BEq.rfl, Bool.false_eq_true, ↓reduceIte]
  exact ⟨_, rfl, by simp [strip]⟩
theorem reads_false (cfg : Cfg) (opts : Opts) (d : Nat) : Reads cfg opts d (.bool hdr0 false) "false".toUTF8.toList := by
  rw [false_bytes]
  apply reads_of_readIdentifier _ _ _ _ _ identTok_false
  intro rest cl hr
  rw [readIdentifier_plain _ _ rest cl hr identTok_false (by decide) (by decide)]
  have h1 : (([0x66, 0x61, 0x6C, 0x73, 0x65] : Bytes) == [0x6E, 0x69, 0x6C]) = false := by decide
  have h2 : (([0x66, 0x61, 0x6C, 0x73, 0x65] : Bytes) == [0x74, 0x72, 0x75, 0x65]) = false := by decide
  simp only [strBytes_eq, nil_bytes, true_bytes, false_bytes, h1, h2, BEq.rfl, Bool.false_eq_true, ↓reduceIte]
  exact ⟨_, rfl, by simp [strip]⟩

theorem reads_kw (cfg : Cfg) (opts : Opts) (d : Nat) (tok : Bytes) (ns : Option Bytes) (nm : Bytes)
    (h : IdentTok (0x3A :: tok)) (hc : tok.head? ≠ some 0x3A) (hsp : splitIdent tok = some (ns, nm))
    (hne : tok ≠ []) (hsl : tok ≠ [0x2F]) :
    Reads cfg opts d (.kw hdr0 ns nm) (0x3A :: tok) := by
  apply reads_of_readIdentifier _ _ _ _ _ h
  intro rest cl hr
  exact ⟨_, readIdentifier_kw _ tok ns nm rest cl hr h hc hsp hne hsl, by simp [strip]⟩

theorem reads_sym (cfg : Cfg) (opts : Opts) (d : Nat) (tok : Bytes) (ns : Option Bytes) (nm : Bytes)
    (h : IdentTok tok) (hc : tok.head? ≠ some 0x3A) (hsp : splitIdent tok = some (ns, nm))
    (hres : tok ≠ "nil".toUTF8.toList ∧ tok ≠ "true".toUTF8.toList ∧ tok ≠ "false".toUTF8.toList) :
    Reads cfg opts d (.sym hdr0 none ns nm) tok := by
  apply reads_of_readIdentifier _ _ _ _ _ h
  intro rest cl hr
  exact ⟨_, readIdentifier_sym _ tok ns nm rest cl hr h hc hsp hres, by simp [strip]⟩

/-- used by the tagged-element case: the identifier reader itself on a tag token followed by a
    delimiter byte -/
theorem readIdentifier_tag (ctx : Ctx) (tag : Bytes) (ns : Option Bytes) (nm : Bytes) (c : UInt8) (rest : Bytes) (cl : List Call)
    (ht : IdentTok tag) (hc : tag.head? ≠ some 0x3A) (hsp : splitIdent tag = some (ns, nm))
    (hres : tag ≠ "nil".toUTF8.toList ∧ tag ≠ "true".toUTF8.toList ∧ tag ≠ "false".toUTF8.toList)
    (hd : isDelim c = true) :
    ∃ h, readIdentifier ctx { rest := tag ++ c :: rest, calls := cl } =
      .ok (.sym h none ns nm) { rest := c :: rest, calls := cl } :=
  ⟨_, readIdentifier_sym ctx tag ns nm (c :: rest) cl (.inr ⟨c, rest, rfl, hd⟩) ht hc hsp hres⟩

end Edn.Proofs
