/-
  Edn.Proofs.AllocSimAux5 — refinement, part 5: the leaf readers with their requests
  (`readStringA` incl. the text-block line buffer, `readCharacterA`, `readIdentifierA`,
  `readSymbolicA`, `readNumberResA`) against the leaf readers of Edn.Model.Reader.

  `Leaf x r a r0`: the allocation-aware leaf reader, started in `a`, returned `r`; `r0` is what the
  pure reader returns.  Then (frame) the arena keeps its state; (fault) `r` is `r0` or an error —
  never another value; (refinement) with an oracle that fails nothing and a live arena `r` is `r0`.
-/
import Edn.Proofs.AllocSimAux1

namespace Edn.Proofs.AllocSim
open Edn.Model Edn.Proofs.AllocBasic Edn.Proofs Edn.Proofs.AllocNumber

/-- an error that is neither the end of input between top-level forms nor the model's "out of
    fuel" -/
def isErr : Res → Prop
  | .err e _ => e.eofTop = false ∧ e.fuelOut = false
  | _ => False

structure Leaf (x : ACtx) (r : Res × ASt) (a : ASt) (r0 : Res) : Prop where
  fr : Fr x a r.2
  fault : r.1 = r0 ∨ isErr r.1
  exact : NoFault x → a.arena = .alive → r.1 = r0

theorem Leaf.pure (x : ACtx) (a : ASt) (r0 : Res) : Leaf x (r0, a) a r0 :=
  ⟨Fr.refl x a, Or.inl rfl, fun _ _ => rfl⟩

/-- a granted request on the parser's arena shows that the arena is alive -/
theorem request_true_alive (orc : Nat → Bool) (a : ASt) (old : Nat) (h : (a.request orc .arena old).1 = true) :
    a.arena = .alive := by
  rw [request_ok] at h
  cases ha : a.arena
  · rw [ha] at h; revert h; cases orc (a.reqs + 1) <;> decide
  · rfl
  · rw [ha] at h; revert h; cases orc (a.reqs + 1) <;> decide

/-- the common shape of `readCharacterA`, `readIdentifierA`, `readSymbolicA` and the ordinary
    string literal: the value is requested after the pure reader succeeded -/
theorem leaf_request (x : ACtx) (a : ASt) (r0 : Res) (stE : St) :
    Leaf x (match r0 with
            | .ok v st' =>
              let (ok, a1) := a.request x.orc .arena
              if ok then (.ok v st', a1) else (.err oomErr stE, a1)
            | r => (r, a)) a r0 := by
  cases r0 with
  | ok v st' =>
    simp only
    have hf := request_fr x .arena a 0
    cases hr : (a.request x.orc .arena).1
    · refine ⟨by simpa [hr] using hf, Or.inr ⟨rfl, rfl⟩, fun hx ha => ?_⟩
      have := request_nofault x hx .arena a 0 (fun _ => ha)
      rw [hr] at this; cases this
    · exact ⟨by simpa [hr] using hf, Or.inl (by simp), fun _ _ => by simp⟩
  | closer st' => exact Leaf.pure x a _
  | err e st' => exact Leaf.pure x a _

theorem readCharacterA_leaf (x : ACtx) (st : St) (a : ASt) :
    Leaf x (readCharacterA x st a) a (readCharacter x.ctx st) := by
  unfold readCharacterA
  exact leaf_request x a (readCharacter x.ctx st) st

theorem readSymbolicA_leaf (x : ACtx) (st : St) (a : ASt) :
    Leaf x (readSymbolicA x st a) a (readSymbolic x.ctx st) := by
  unfold readSymbolicA
  exact leaf_request x a (readSymbolic x.ctx st) st

theorem readIdentifierA_leaf (x : ACtx) (st : St) (a : ASt) :
    Leaf x (readIdentifierA x st a) a (readIdentifier x.ctx st) := by
  unfold readIdentifierA
  cases h : readIdentifier x.ctx st with
  | ok v st' =>
    have := leaf_request x a (.ok v st') st'
    simpa using this
  | closer st' => exact Leaf.pure x a _
  | err e st' => exact Leaf.pure x a _

/-! ## text blocks -/

/-- the pure outcome that corresponds to an outcome of the line loop with requests -/
def tbMatch (start : Nat) (o : TbOutA) (p : Except TbErr (List TbLine × Bytes)) : Prop :=
  match p with
  | .ok (ls, rest) => ∃ buf, o = .lines ls rest buf
  | .error .missingCloser => o = .fail (mkErr .invalidString (some start) (some 0)) []
  | .error (.eofInLine s) => o = .fail (mkErr .invalidString) s

def tbFail : TbOutA → Prop
  | .fail e _ => e.eofTop = false ∧ e.fuelOut = false
  | _ => False

theorem grow_fr (x : ACtx) (n : Nat) (buf : TbBuf) (a : ASt) : Fr x a (buf.grow x n a).2 := by
  unfold TbBuf.grow
  split
  · have h := realloc_fr x buf.arr a
    rcases hq : a.realloc x.orc buf.arr with ⟨o, a1⟩
    rw [hq] at h
    cases o <;> exact h
  · exact Fr.refl x a

theorem grow_nofault (x : ACtx) (hx : NoFault x) (n : Nat) (buf : TbBuf) (a : ASt) :
    (buf.grow x n a).1.isSome = true := by
  unfold TbBuf.grow
  split
  · have h := realloc_nofault x hx buf.arr a
    rcases hq : a.realloc x.orc buf.arr with ⟨o, a1⟩
    rw [hq] at h
    cases o
    · cases h
    · rfl
  · rfl

theorem tbLinesA_spec (x : ACtx) (start : Nat) : ∀ (f : Nat) (s : Bytes) (acc : List TbLine) (buf : TbBuf) (a : ASt),
    Fr x a (tbLinesA x start f s acc buf a).2 ∧
    (tbMatch start (tbLinesA x start f s acc buf a).1 (tbLines f s acc) ∨ tbFail (tbLinesA x start f s acc buf a).1) ∧
    (NoFault x → tbMatch start (tbLinesA x start f s acc buf a).1 (tbLines f s acc)) := by
  intro f
  induction f with
  | zero =>
    intro s acc buf a
    unfold tbLinesA tbLines
    exact ⟨release_fr x buf a, Or.inl rfl, fun _ => rfl⟩
  | succ f ih =>
    intro s acc buf a
    unfold tbLinesA tbLines
    split
    · exact ⟨release_fr x buf a, Or.inl rfl, fun _ => rfl⟩
    · have h1 := grow_fr x acc.length buf a
      have n1 := fun hx => grow_nofault x hx acc.length buf a
      rcases hg : buf.grow x acc.length a with ⟨ob, a1⟩
      rw [hg] at h1 n1
      cases ob with
      | none =>
        refine ⟨h1.trans (release_fr x buf a1), Or.inr ⟨rfl, rfl⟩, fun hx => ?_⟩
        exact absurd (n1 hx) (by simp)
      | some buf1 =>
        simp only
        cases hl : tbLine s with
        | none =>
          exact ⟨h1.trans (release_fr x buf1 a1), Or.inl rfl, fun _ => rfl⟩
        | some p =>
          obtain ⟨ln, rest⟩ := p
          simp only
          have h2 := rawAlloc_fr x .malloc a1
          have n2 := fun hx => rawAlloc_nofault x hx .malloc a1 (by decide)
          rcases hq : a1.rawAlloc x.orc .malloc with ⟨o, a2⟩
          rw [hq] at h2 n2
          cases o with
          | none =>
            refine ⟨h1.trans (h2.trans (release_fr x buf1 a2)), Or.inr ⟨rfl, rfl⟩, fun hx => ?_⟩
            exact absurd (n2 hx) (by simp)
          | some i =>
            simp only
            split
            · exact ⟨h1.trans h2, Or.inl ⟨_, rfl⟩, fun _ => ⟨_, rfl⟩⟩
            · obtain ⟨i1, i2, i3⟩ := ih rest (ln :: acc) { buf1 with ids := i :: buf1.ids } a2
              exact ⟨h1.trans (h2.trans i1), i2, i3⟩

/-- the end of `edn_parse_text_block` once the lines are there: the text, the release of the line
    buffer, the value -/
theorem tb_finish (x : ACtx) (st : St) (start : Nat) (ls : List TbLine) (rest : Bytes) (buf : TbBuf) (a2 : ASt) :
    Leaf x (let st' := { st with rest := rest }
            let (okT, a3) := a2.request x.orc .arena
            if !okT then (.err oomErr st', buf.release a3)
            else
              let a4 := buf.release a3
              let (okV, a5) := a4.request x.orc .arena
              if !okV then (.err oomErr st', a5)
              else (.ok (.str (mkHdr start (x.ctx.pos rest)) (tbRender ls) false) st',
                    { a5 with bufs := start :: a5.bufs })) a2
      (.ok (.str (mkHdr start (x.ctx.pos rest)) (tbRender ls) false) { st with rest := rest }) := by
  simp only
  have g1 := request_fr x .arena a2 0
  cases hr1 : (a2.request x.orc .arena).1
  · simp only [Bool.not_false, ↓reduceIte]
    refine ⟨g1.trans (release_fr x buf _), Or.inr ⟨rfl, rfl⟩, fun hx ha => ?_⟩
    have := request_nofault x hx .arena a2 0 (fun _ => ha)
    rw [hr1] at this; cases this
  · simp only [Bool.not_true, Bool.false_eq_true, ↓reduceIte]
    have g2 := request_fr x .arena (buf.release (a2.request x.orc .arena).2) 0
    have g12 := g1.trans ((release_fr x buf _).trans g2)
    cases hr2 : ((buf.release (a2.request x.orc .arena).2).request x.orc .arena).1
    · simp only [Bool.not_false, ↓reduceIte]
      refine ⟨g12, Or.inr ⟨rfl, rfl⟩, fun hx ha => ?_⟩
      have := request_nofault x hx .arena (buf.release (a2.request x.orc .arena).2) 0
        (fun _ => (g1.trans (release_fr x buf _)).arena.trans ha)
      rw [hr2] at this; cases this
    · simp only [Bool.not_true, Bool.false_eq_true, ↓reduceIte]
      exact ⟨g12.trans (Fr.of_eq rfl rfl), Or.inl rfl, fun _ _ => rfl⟩

theorem readTextBlockA_leaf (x : ACtx) (st : St) (a : ASt)
    (hc : (x.ctx.cfg.exp && startsWith st.rest [0x22, 0x22, 0x22, 0x0A]) = true) :
    Leaf x (readTextBlockA x st a) a (readString x.ctx st) := by
  unfold readTextBlockA readString readTextBlockBody
  simp only [hc, ↓reduceIte]
  have h0 := rawAlloc_fr x .malloc a
  have n0 := fun hx => rawAlloc_nofault x hx .malloc a (by decide)
  rcases hq0 : a.rawAlloc x.orc .malloc with ⟨o, a1⟩
  rw [hq0] at h0 n0
  cases o with
  | none => exact ⟨h0, Or.inr ⟨rfl, rfl⟩, fun hx _ => absurd (n0 hx) (by simp)⟩
  | some arr =>
    simp only
    obtain ⟨h1, f1, n1⟩ := tbLinesA_spec x (x.ctx.pos st.rest) ((st.rest.drop 4).length + 2) (st.rest.drop 4) [] { arr := arr } a1
    rcases hq1 : tbLinesA x (x.ctx.pos st.rest) ((st.rest.drop 4).length + 2) (st.rest.drop 4) [] { arr := arr } a1 with ⟨out, a2⟩
    rw [hq1] at h1 f1 n1
    simp only at h1 f1 n1
    have h01 := h0.trans h1
    cases out with
    | fail e rest =>
      simp only
      have hnt : e.eofTop = false ∧ e.fuelOut = false := by
        rcases f1 with f1 | f1
        · cases hp : tbLines ((st.rest.drop 4).length + 2) (st.rest.drop 4) [] with
          | error er =>
            rw [hp] at f1
            cases er with
            | missingCloser =>
              simp only [tbMatch, TbOutA.fail.injEq] at f1
              rw [f1.1]; exact ⟨rfl, rfl⟩
            | eofInLine s =>
              simp only [tbMatch, TbOutA.fail.injEq] at f1
              rw [f1.1]; exact ⟨rfl, rfl⟩
          | ok q =>
            rw [hp] at f1
            obtain ⟨buf, hb⟩ := f1
            cases hb
        · exact f1
      refine ⟨h01, Or.inr hnt, fun hx _ => ?_⟩
      have hm := n1 hx
      cases hp : tbLines ((st.rest.drop 4).length + 2) (st.rest.drop 4) [] with
      | error er =>
        rw [hp] at hm
        cases er with
        | missingCloser =>
          simp only [tbMatch, TbOutA.fail.injEq] at hm
          obtain ⟨rfl, rfl⟩ := hm; rfl
        | eofInLine s =>
          simp only [tbMatch, TbOutA.fail.injEq] at hm
          obtain ⟨rfl, rfl⟩ := hm; rfl
      | ok q =>
        rw [hp] at hm
        obtain ⟨buf, hb⟩ := hm
        cases hb
    | lines ls rest buf =>
      simp only
      have hm : tbMatch (x.ctx.pos st.rest) (.lines ls rest buf) (tbLines ((st.rest.drop 4).length + 2) (st.rest.drop 4) []) := by
        rcases f1 with f1 | f1
        · exact f1
        · exact f1.elim
      have L := tb_finish x st (x.ctx.pos st.rest) ls rest buf a2
      cases hp : tbLines ((st.rest.drop 4).length + 2) (st.rest.drop 4) [] with
      | error er =>
        rw [hp] at hm
        cases er <;> simp [tbMatch] at hm
      | ok q =>
        rw [hp] at hm
        obtain ⟨ls', rest'⟩ := q
        obtain ⟨buf', hb⟩ := hm
        simp only [TbOutA.lines.injEq] at hb
        obtain ⟨rfl, rfl, -⟩ := hb
        exact ⟨h01.trans L.fr, L.fault, fun hx ha => L.exact hx (h01.arena.trans ha)⟩

theorem readStringA_leaf (x : ACtx) (st : St) (a : ASt) : Leaf x (readStringA x st a) a (readString x.ctx st) := by
  unfold readStringA
  split
  · next hc => exact readTextBlockA_leaf x st a hc
  · exact leaf_request x a (readString x.ctx st) st

/-! ## numbers -/

theorem floatHeapA_fr (x : ACtx) (heap : Bool) (a : ASt) : Fr x a (floatHeapA x heap a).2 := by
  unfold floatHeapA
  have h := rawAlloc_fr x .malloc a
  split
  · split
    · next i a' e => rw [e] at h; exact h.trans (free_fr x i a')
    · next a' e => rw [e] at h; exact h
  · exact Fr.refl x a

theorem floatHeapA_nofault (x : ACtx) (hx : NoFault x) (heap : Bool) (a : ASt) : (floatHeapA x heap a).1 = true :=
  floatHeapA_granted x heap a (hx _)

theorem numCreateA_leaf (x : ACtx) (st : St) (a : ASt) (v : NumVal) (p : Bytes) (validate : Bool) :
    Leaf x (numCreateA x st a v p validate) a (numRes x.ctx st (finishNumK v p validate)) := by
  have g1 := request_fr x .arena a 0
  have g2 := floatHeapA_fr x (numNeedsHeap x.ctx.cfg v (slice st.rest p)) (a.request x.orc .arena).2
  refine ⟨?_, ?_, fun hx ha => ?_⟩
  · unfold numCreateA
    simp only
    repeat' split
    all_goals first | exact g1 | exact g1.trans g2
  · cases h1 : (a.request x.orc .arena).1
    · right
      rw [numCreateA_refused x st a v p validate h1]
      exact ⟨rfl, rfl⟩
    · unfold numCreateA numRes finishNumK finishNum
      simp only [h1, Bool.not_true, Bool.false_eq_true, ↓reduceIte]
      cases (floatHeapA x (numNeedsHeap x.ctx.cfg v (slice st.rest p)) (a.request x.orc .arena).2).1
      · exact Or.inr ⟨rfl, rfl⟩
      · simp only [Bool.not_true, Bool.false_eq_true, ↓reduceIte]
        cases validate <;> cases numDelimOk p <;> simp [isErr, numErrA]
  · exact numCreateA_granted x st a v p validate (request_nofault x hx .arena a 0 (fun _ => ha)) (hx _)

theorem readNumberResA_leaf (x : ACtx) (st : St) (a : ASt) :
    Leaf x (readNumberResA x st a) a (readNumberRes x.ctx st) := by
  rw [readNumberRes_eq, ← readNumberK_eq]
  unfold readNumberResA
  have hb : ∀ c, Leaf x (numErrA x.ctx st c, a) a (numRes x.ctx st (NumOut.err c)) := fun c => Leaf.pure x a _
  exact readNumberK_rel (fun (r : Res × ASt) (o : NumOut) => Leaf x r a (numRes x.ctx st o)) x.ctx.cfg
    (numCreateA x st a) (fun cur => (numErrA x.ctx st cur, a)) finishNumK NumOut.err
    (fun v s b => numCreateA_leaf x st a v s b) hb st.rest

end Edn.Proofs.AllocSim
