/-
  Edn.Proofs.EqualAux3 — the scalar kinds: one level of the equality recursion does not
  use its recursive call on them, is symmetric and transitive, and implies equal hashes.
-/
import Edn.Proofs.EqualAux2

namespace Edn.Proofs
open Edn.Model Edn.Spec

/-- kinds without operands -/
def leaf : Val → Bool
  | .list .. | .vec .. | .set .. | .map .. | .tagged .. => false
  | _ => true

theorem floatEq_symm (a b : UInt64) (h : floatEq a b = true) : floatEq b a = true := by
  unfold floatEq at h ⊢
  cases ha : isNaNBits a <;> cases hb : isNaNBits b <;> simp only [ha, hb] at h ⊢ <;>
    cases za : (a &&& 0x7FFFFFFFFFFFFFFF) == 0 <;> cases zb : (b &&& 0x7FFFFFFFFFFFFFFF) == 0 <;>
    simp_all

theorem floatEq_trans (a b c : UInt64) (h : floatEq a b = true) (h' : floatEq b c = true) :
    floatEq a c = true := by
  unfold floatEq at h h' ⊢
  cases ha : isNaNBits a <;> cases hb : isNaNBits b <;> cases hc : isNaNBits c <;>
    simp only [ha, hb, hc] at h h' ⊢ <;>
    cases za : (a &&& 0x7FFFFFFFFFFFFFFF) == 0 <;> cases zb : (b &&& 0x7FFFFFFFFFFFFFFF) == 0 <;>
    cases zc : (c &&& 0x7FFFFFFFFFFFFFFF) == 0 <;> simp_all

theorem floatEq_hash (a b : UInt64) (h : floatEq a b = true) : floatHashBits a = floatHashBits b := by
  unfold floatEq at h
  unfold floatHashBits
  cases ha : isNaNBits a <;> cases hb : isNaNBits b <;> simp only [ha, hb] at h ⊢ <;>
    cases za : (a &&& 0x7FFFFFFFFFFFFFFF) == 0 <;> cases zb : (b &&& 0x7FFFFFFFFFFFFFFF) == 0 <;>
    simp_all

theorem body_leaf_symm (cfg : Cfg) (p q : Val → Val → Bool) (a b : Val) (hl : leaf a = true)
    (h : body cfg p a b = true) : body cfg q b a = true := by
  cases a <;> first | exact absurd hl Bool.false_ne_true | skip
  all_goals cases b <;> first | exact absurd h Bool.false_ne_true | skip
  case float.float h1 x h2 y => exact floatEq_symm x y h
  case nil.nil => rfl
  all_goals
    simp only [body, Bool.and_eq_true, beq_iff_eq] at h ⊢
    simp_all

theorem body_leaf_trans (cfg : Cfg) (p p' q : Val → Val → Bool) (a b c : Val) (hl : leaf a = true)
    (h : body cfg p a b = true) (h' : body cfg p' b c = true) : body cfg q a c = true := by
  cases a <;> first | exact absurd hl Bool.false_ne_true | skip
  all_goals cases b <;> first | exact absurd h Bool.false_ne_true | skip
  all_goals cases c <;> first | exact absurd h' Bool.false_ne_true | skip
  case nil.nil.nil => rfl
  case float.float.float h1 x h2 y h3 z => exact floatEq_trans x y z h h'
  all_goals
    simp only [body, Bool.and_eq_true, beq_iff_eq] at h h' ⊢
    simp_all

theorem body_leaf_hash (cfg : Cfg) (p : Val → Val → Bool) (a b : Val) (hl : leaf a = true)
    (h : body cfg p a b = true) : hashV cfg a = hashV cfg b := by
  cases a <;> first | exact absurd hl Bool.false_ne_true | skip
  all_goals cases b <;> first | exact absurd h Bool.false_ne_true | skip
  case nil.nil => rfl
  case float.float h1 x h2 y =>
    show fnvWord _ (floatHashBits x) = fnvWord _ (floatHashBits y)
    rw [floatEq_hash x y h]; rfl
  all_goals
    simp only [body, Bool.and_eq_true, beq_iff_eq] at h
    simp only [hashV, tySeed]
    simp_all

end Edn.Proofs
