/-
  Edn.Proofs.RangesAux2 — the postcondition `Post` of the range proofs and the leaf readers.
-/
import Edn.Proofs.RangesAux1

namespace Edn.Proofs
open Edn.Model Edn.Spec

/-- error range against an upper bound `n` (unset components default to the stop position) -/
def ErrB (n : Nat) (e : ErrInfo) (st' : St) : Prop :=
  e.ee.getD st'.rest.length ≤ e.es.getD st'.rest.length ∧ e.es.getD st'.rest.length ≤ n

theorem ErrB.mono {n m : Nat} {e : ErrInfo} {st' : St} (h : ErrB n e st') (hnm : n ≤ m) : ErrB m e st' :=
  ⟨h.1, Nat.le_trans h.2 hnm⟩

/-- what the range proofs show about a reader result; `n` bounds the start of the value
    (or of the error range) from above -/
def Post (ctx : Ctx) (n : Nat) (r : Res) : Prop :=
  match r with
  | .ok v st' => ctx.opts.registry = none → OkPost n v st'
  | .closer _ => True
  | .err e st' => ErrB n e st'

theorem Post.mono {ctx : Ctx} {n m : Nat} {r : Res} (h : Post ctx n r) (hnm : n ≤ m) : Post ctx m r := by
  cases r with
  | ok v st' => exact fun hr => (h hr).mono hnm
  | closer st' => trivial
  | err e st' => exact ErrB.mono h hnm

def isLeaf : Val → Bool
  | .nil .. | .bool .. | .int .. | .bigint .. | .float .. | .bigdec .. | .ratio .. | .bigratio ..
  | .char .. | .str .. | .kw .. => true
  | .sym _ none _ _ => true
  | _ => false

theorem leaf_okPost {v : Val} {a b n : Nat} {st' : St} (hl : isLeaf v = true) (hh : v.hdr = mkHdr a b)
    (hb : st'.rest.length = b) (hab : b < a) (han : a ≤ n) : OkPost n v st' := by
  have hr : RangeOK v := by
    cases v <;> simp only [isLeaf] at hl <;> simp only [Val.hdr] at hh <;> subst hh <;>
      simp only [RangeOK, Val.hdr, mkHdr]
    all_goals first
      | exact Or.inr hab
      | skip
    case sym md _ _ =>
      cases md with
      | none => exact ⟨Or.inr hab, rangeOKO_none _⟩
      | some m => cases hl
    all_goals (cases hl)
  have hmd : v.md = none := by
    cases v <;> simp only [isLeaf] at hl <;> try rfl
    case sym md _ _ =>
      cases md with
      | none => rfl
      | some m => cases hl
    all_goals (cases hl)
  refine ⟨hr, by rw [hh]; rfl, by rw [hh]; exact hb.symm, by rw [hh, hb]; exact hab, by rw [hh]; exact han, ?_,
    mdTop_of_none hmd⟩
  cases v <;> first | trivial | (simp [isLeaf] at hl)

/-- leaf readers: the value is a leaf spanning exactly the bytes read; an error range is
    inside the bytes available (given that the cursor did not move backwards) -/
def LeafPost (st : St) (r : Res) : Prop :=
  match r with
  | .ok v st' => isLeaf v = true ∧ v.hdr = mkHdr st.rest.length st'.rest.length
  | .closer _ => True
  | .err e st' => st'.rest.length ≤ st.rest.length → ErrB st.rest.length e st'

theorem LeafPost.post {ctx : Ctx} {st : St} {r : Res} (h : LeafPost st r) (hp : Progress st r) :
    Post ctx st.rest.length r := by
  cases r with
  | ok v st' => exact fun _ => leaf_okPost h.1 h.2 rfl hp (Nat.le_refl _)
  | closer st' => trivial
  | err e st' => exact h hp

/-! ## leaf readers -/

theorem errB_some {n a b : Nat} {code : Err} {st' : St} (hba : b ≤ a) (han : a ≤ n) :
    ErrB n (mkErr code (some a) (some b)) st' := ⟨hba, han⟩

theorem errB_none {n : Nat} {code : Err} {st' : St} (h : st'.rest.length ≤ n) :
    ErrB n (mkErr code) st' := ⟨Nat.le_refl _, h⟩

theorem readString_leaf (ctx : Ctx) (st : St) : LeafPost st (readString ctx st) := by
  unfold readString
  simp only []
  split
  · split
    · exact ⟨rfl, rfl⟩
    · intro _; exact errB_some (Nat.zero_le _) (Nat.le_refl _)
    · intro h; exact errB_none h
  · split
    · intro _; exact errB_some (Nat.zero_le _) (Nat.le_refl _)
    · exact ⟨rfl, rfl⟩

theorem charBody_err (ctx : Ctx) (p : Bytes) (ee : Nat) (h : charBody ctx p = .error ee) : ee ≤ p.length := by
  unfold charBody at h
  have ht := tail_length_le p
  split at h
  · cases h
  split at h
  · cases h
  split at h
  · cases h
  split at h
  · cases h
  split at h
  · cases h
  simp only [] at h
  split at h
  · split at h
    · cases h; simp only [Ctx.pos]; omega
    · cases h
  · split at h
    · split at h
      · cases h; omega
      · split at h <;> cases h
    · split at h
      · cases h; omega
      · cases h

theorem readCharacter_leaf (ctx : Ctx) (st : St) : LeafPost st (readCharacter ctx st) := by
  rw [readCharacter_eq]
  have ht := tail_length_le st.rest
  split
  · intro _; exact errB_some ht (Nat.le_refl _)
  · split
    · rename_i ee heq
      have := charBody_err _ _ _ heq
      intro _; exact errB_some (by simp only [Ctx.pos]; omega) (Nat.le_refl _)
    · rename_i cp rest heq
      have := charBody_len _ _ _ heq
      simp only [] at this
      split
      · intro _; exact errB_some (by simp only [Ctx.pos]; omega) (Nat.le_refl _)
      · split
        · intro _; exact errB_some (by simp only [Ctx.pos]; omega) (Nat.le_refl _)
        · exact ⟨rfl, rfl⟩

theorem readIdentifier_leaf (ctx : Ctx) (st : St) : LeafPost st (readIdentifier ctx st) := by
  unfold readIdentifier
  simp only []
  have hd : (st.rest.drop (scanIdent st.rest).len).length ≤ st.rest.length := by
    simp only [List.length_drop]; omega
  split
  · intro _; exact errB_some (Nat.le_refl _) (Nat.le_refl _)
  · repeat' split
    all_goals first
      | exact ⟨rfl, rfl⟩
      | (intro _; exact errB_some hd (Nat.le_refl _))

theorem readSymbolic_leaf (ctx : Ctx) (st : St) : LeafPost st (readSymbolic ctx st) := by
  unfold readSymbolic
  simp only []
  repeat' split
  all_goals first
    | exact ⟨rfl, rfl⟩
    | (intro _; exact errB_some (Nat.zero_le _) (Nat.le_refl _))

theorem readNumberRes_leaf (ctx : Ctx) (st : St) : LeafPost st (readNumberRes ctx st) := by
  unfold readNumberRes
  simp only []
  split
  · rename_i v rest _
    refine ⟨?_, ?_⟩
    · cases v <;> rfl
    · cases v <;> rfl
  · intro h; exact errB_some h (Nat.le_refl _)

end Edn.Proofs
