/-
  Edn.Proofs.ReReadAux3 — continuation independence ("cut") of the tail functions of the
  number reader: `finishNum`, `ratioDenominator`, `radixTail`, `decimalTail`, `exponentPart`,
  `afterMantissa`, `decimalPart`.
-/
import Edn.Proofs.ReReadAux0

namespace Edn.Proofs
open Edn.Model Edn.Spec

/-! ### generic facts about cuts -/

theorem NumCut_nil (x : NumOut) : NumCut [] x x := by
  intro v rest h _
  exact ⟨rest, by simp, h⟩

theorem ExCut_nil (x : Except Bytes Bytes) : ExCut [] x x := by
  intro rest h _
  exact ⟨rest, by simp, h⟩

theorem NumCut_err (r c : Bytes) (small : NumOut) : NumCut r (.err c) small := by
  intro v rest h _
  cases h

theorem NumCut_ok (r w : Bytes) (v : NumVal) : NumCut r (.ok v (w ++ r)) (.ok v w) := by
  intro v' rest h _
  cases h
  exact ⟨w, rfl, rfl⟩

theorem NumCut_of_lt {r : Bytes} {big : NumOut} (small : NumOut) (h : numLen big < r.length) :
    NumCut r big small := by
  intro v rest hb hl
  subst hb
  simp only [numLen] at h
  omega

theorem NumCut_ite {r : Bytes} (c : Prop) [Decidable c] {a b a' b' : NumOut}
    (h1 : c → NumCut r a a') (h2 : ¬c → NumCut r b b') :
    NumCut r (if c then a else b) (if c then a' else b') := by
  by_cases hc : c
  · rw [if_pos hc, if_pos hc]; exact h1 hc
  · rw [if_neg hc, if_neg hc]; exact h2 hc

theorem peek_app {w : Bytes} (r : Bytes) (h : w ≠ []) : peek (w ++ r) = peek w := by
  cases w with
  | nil => exact absurd rfl h
  | cons a w => rfl

theorem adv_app {w : Bytes} (r : Bytes) (h : w ≠ []) : adv (w ++ r) = adv w ++ r := by
  cases w with
  | nil => exact absurd rfl h
  | cons a w => rfl

/-- a non-zero byte seen by the small run is seen by the big run as well -/
theorem peek_app_of_ne_zero {w : Bytes} (r : Bytes) {x : UInt8} (hx : x ≠ 0) (h : peek w = x) :
    peek (w ++ r) = x := by
  cases w with
  | nil => exact absurd h.symm hx
  | cons a w => exact h

theorem adv_length_lt {s : Bytes} (h : s ≠ []) : (adv s).length < s.length := by
  cases s with
  | nil => exact absurd rfl h
  | cons a s => simp [adv]

theorem slice_append_right_nil (a r : Bytes) : slice (a ++ r) r = slice a [] :=
  slice_append_right a [] r

theorem lastIsUnderscore_append_right (a b r : Bytes) :
    lastIsUnderscore (a ++ r) (b ++ r) = lastIsUnderscore a b := by
  unfold lastIsUnderscore
  rw [slice_append_right]

theorem dropWhile_cut (p : UInt8 → Bool) : ∀ (u r : Bytes),
    r.length ≤ ((u ++ r).dropWhile p).length → (u ++ r).dropWhile p = u.dropWhile p ++ r := by
  intro u
  induction u with
  | nil =>
    intro r h
    cases r with
    | nil => rfl
    | cons c r' =>
      simp only [List.nil_append, List.dropWhile_cons] at h ⊢
      cases hp : p c with
      | false => simp
      | true =>
        rw [hp] at h
        simp only [if_true] at h
        have := dropWhile_length_le p r'
        simp only [List.length_cons] at h
        omega
  | cons a u ih =>
    intro r h
    simp only [List.cons_append, List.dropWhile_cons] at h ⊢
    cases hp : p a with
    | false => simp
    | true =>
      rw [hp] at h
      simp only [if_true] at h ⊢
      exact ih r h

/-- when the scanner stops exactly at the boundary the big run stopped before `r` too -/
theorem dropWhile_cut_nil (p : UInt8 → Bool) (u r : Bytes)
    (h : r.length ≤ ((u ++ r).dropWhile p).length) (hu : u.dropWhile p = []) :
    (u ++ r).dropWhile p = r := by
  rw [dropWhile_cut p u r h, hu]; rfl

/-! ### finishNum -/

theorem finishNum_cut (v0 : NumVal) (u r : Bytes) : NumCut r (finishNum v0 (u ++ r)) (finishNum v0 u) := by
  intro v rest h _
  unfold finishNum at h ⊢
  cases u with
  | nil =>
    refine ⟨[], ?_, ?_⟩
    · split at h
      · cases h; rfl
      · cases h
    · split at h
      · cases h; rfl
      · cases h
  | cons a u' =>
    have hd : numDelimOk (a :: u' ++ r) = numDelimOk (a :: u') := rfl
    rw [hd] at h
    split at h
    · rename_i hok
      cases h
      exact ⟨a :: u', rfl, by rw [if_pos hok]⟩
    · cases h

theorem finishNum_nil (v : NumVal) : finishNum v [] = .ok v [] := rfl

/-! ### ratioDenominator -/

/-- the test after the denominator digits -/
def ratioEndOk (t : Bytes) : Bool :=
  !(peek t == 0x4E || peek t == 0x4D || peek t == 0x2F) && (t.isEmpty || isDelim (peek t))

theorem ratioDenominator_ok_iff (s rest : Bytes) :
    ratioDenominator s = .ok rest ↔
      (s ≠ [] ∧ is09 (peek s) = true ∧ (peek s == 0x30) = false ∧
        rest = s.dropWhile is09 ∧ ratioEndOk rest = true) := by
  unfold ratioDenominator ratioEndOk
  simp only []
  cases s with
  | nil => simp
  | cons a s' =>
    simp only [List.isEmpty_cons, Bool.false_or, ne_eq, reduceCtorEq, not_false_eq_true, true_and]
    cases h9 : is09 (peek (a :: s')) with
    | false => simp
    | true =>
      cases h0 : peek (a :: s') == 0x30 with
      | true => simp
      | false =>
        simp only [Bool.not_true, Bool.false_eq_true, if_false, true_and]
        generalize List.dropWhile is09 (a :: s') = t
        cases h1 : (peek t == 0x4E || peek t == 0x4D || peek t == 0x2F) with
        | true =>
          simp only [if_true, reduceCtorEq, false_iff, not_and]
          intro h; subst h; simp only [h1, Bool.not_true, Bool.false_and, Bool.false_eq_true,
            not_false_eq_true]
        | false =>
          simp only [Bool.false_eq_true, if_false]
          cases h2 : (t.isEmpty || isDelim (peek t)) with
          | true =>
            have : (!t.isEmpty && !isDelim (peek t)) = false := by
              cases hA : t.isEmpty <;> cases hB : isDelim (peek t) <;> simp_all
            simp only [this, Bool.false_eq_true, if_false, Except.ok.injEq]
            constructor
            · intro h; subst h; simp [h1, h2]
            · intro h; exact h.1.symm
          | false =>
            have : (!t.isEmpty && !isDelim (peek t)) = true := by
              cases hA : t.isEmpty <;> cases hB : isDelim (peek t) <;> simp_all
            simp only [this, if_true, reduceCtorEq, false_iff, not_and]
            intro h; subst h; simp [h1, h2]

theorem ratioEndOk_cut (w r : Bytes) (h : ratioEndOk (w ++ r) = true) : ratioEndOk w = true := by
  cases w with
  | nil => decide
  | cons a w' => exact h

theorem ratioDenominator_cut (u r : Bytes) : ExCut r (ratioDenominator (u ++ r)) (ratioDenominator u) := by
  intro rest h hl
  rw [ratioDenominator_ok_iff] at h
  obtain ⟨hne, h9, h0, hrest, hend⟩ := h
  cases u with
  | nil =>
    exfalso
    simp only [List.nil_append] at hne h9 hrest
    cases r with
    | nil => exact hne rfl
    | cons c r' =>
      have hc : is09 c = true := h9
      rw [hrest, List.dropWhile_cons, hc] at hl
      simp only [if_true, List.length_cons] at hl
      have := dropWhile_length_le is09 r'
      omega
  | cons a u' =>
    rw [hrest] at hl
    have hd := dropWhile_cut is09 (a :: u') r hl
    rw [hd] at hrest
    refine ⟨(a :: u').dropWhile is09, hrest, ?_⟩
    rw [ratioDenominator_ok_iff]
    refine ⟨by simp, h9, h0, rfl, ?_⟩
    rw [hrest] at hend
    exact ratioEndOk_cut _ _ hend

theorem ratioDenominator_ok_lt {s rest : Bytes} (h : ratioDenominator s = .ok rest) :
    rest.length < s.length := by
  rw [ratioDenominator_ok_iff] at h
  obtain ⟨hne, h9, _, hrest, _⟩ := h
  cases s with
  | nil => exact absurd rfl hne
  | cons c s' =>
    have hc : is09 c = true := h9
    rw [hrest, List.dropWhile_cons, hc]
    simp only [if_true, List.length_cons]
    have := dropWhile_length_le is09 s'
    omega

end Edn.Proofs
