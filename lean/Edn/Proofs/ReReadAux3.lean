/-
  Edn.Proofs.ReReadAux3 — continuation independence ("cut") of the tail functions of the
  number reader: `finishNum`, `ratioDenominator`, `radixTail`, `decimalTail`, `exponentPart`,
  `afterMantissa`, `decimalPart`.
-/
import Edn.Proofs.ReReadAux0

namespace Edn.Proofs
open Edn.Model Edn.Spec

/-! ### generic facts about cuts -/

theorem NumCut_nil (x : NumOut) : NumCut [] x x := by
  intro v rest h _
  exact ⟨rest, by simp, h⟩

theorem ExCut_nil (x : Except Bytes Bytes) : ExCut [] x x := by
  intro rest h _
  exact ⟨rest, by simp, h⟩

theorem NumCut_err (r c : Bytes) (small : NumOut) : NumCut r (.err c) small := by
  intro v rest h _
  cases h

theorem NumCut_ok (r w : Bytes) (v : NumVal) : NumCut r (.ok v (w ++ r)) (.ok v w) := by
  intro v' rest h _
  cases h
  exact ⟨w, rfl, rfl⟩

theorem NumCut_of_lt {r : Bytes} {big : NumOut} (small : NumOut) (h : numLen big < r.length) :
    NumCut r big small := by
  intro v rest hb hl
  subst hb
  simp only [numLen] at h
  omega

theorem NumCut_ite {r : Bytes} (c : Prop) [Decidable c] {a b a' b' : NumOut}
    (h1 : c → NumCut r a a') (h2 : ¬c → NumCut r b b') :
    NumCut r (if c then a else b) (if c then a' else b') := by
  by_cases hc : c
  · rw [if_pos hc, if_pos hc]; exact h1 hc
  · rw [if_neg hc, if_neg hc]; exact h2 hc

/-- the big run fails on a test that the small run can only pass if the big run passes it -/
theorem NumCut_ite_err {r : Bytes} (c c' : Prop) [Decidable c] [Decidable c'] {x : Bytes}
    {b a' b' : NumOut} (hcc : c' → c) (h : NumCut r b b') :
    NumCut r (if c then .err x else b) (if c' then a' else b') := by
  by_cases hc : c
  · rw [if_pos hc]; exact NumCut_err _ _ _
  · rw [if_neg hc, if_neg (fun h' => hc (hcc h'))]; exact h

theorem peek_app {w : Bytes} (r : Bytes) (h : w ≠ []) : peek (w ++ r) = peek w := by
  cases w with
  | nil => exact absurd rfl h
  | cons a w => rfl

theorem adv_app {w : Bytes} (r : Bytes) (h : w ≠ []) : adv (w ++ r) = adv w ++ r := by
  cases w with
  | nil => exact absurd rfl h
  | cons a w => rfl

/-- a non-zero byte seen by the small run is seen by the big run as well -/
theorem peek_app_of_ne_zero {w : Bytes} (r : Bytes) {x : UInt8} (hx : x ≠ 0) (h : peek w = x) :
    peek (w ++ r) = x := by
  cases w with
  | nil => exact absurd h.symm hx
  | cons a w => exact h

theorem adv_length_lt {s : Bytes} (h : s ≠ []) : (adv s).length < s.length := by
  cases s with
  | nil => exact absurd rfl h
  | cons a s => simp [adv]

theorem slice_append_right_nil (a r : Bytes) : slice (a ++ r) r = slice a [] :=
  slice_append_right a [] r

theorem lastIsUnderscore_append_right (a b r : Bytes) :
    lastIsUnderscore (a ++ r) (b ++ r) = lastIsUnderscore a b := by
  unfold lastIsUnderscore
  rw [slice_append_right]

theorem dropWhile_cut (p : UInt8 → Bool) : ∀ (u r : Bytes),
    r.length ≤ ((u ++ r).dropWhile p).length → (u ++ r).dropWhile p = u.dropWhile p ++ r := by
  intro u
  induction u with
  | nil =>
    intro r h
    cases r with
    | nil => rfl
    | cons c r' =>
      simp only [List.nil_append, List.dropWhile_cons] at h ⊢
      cases hp : p c with
      | false => simp
      | true =>
        rw [hp] at h
        simp only [if_true] at h
        have := dropWhile_length_le p r'
        simp only [List.length_cons] at h
        omega
  | cons a u ih =>
    intro r h
    simp only [List.cons_append, List.dropWhile_cons] at h ⊢
    cases hp : p a with
    | false => simp
    | true =>
      rw [hp] at h
      simp only [if_true] at h ⊢
      exact ih r h

/-- when the scanner stops exactly at the boundary the big run stopped before `r` too -/
theorem dropWhile_cut_nil (p : UInt8 → Bool) (u r : Bytes)
    (h : r.length ≤ ((u ++ r).dropWhile p).length) (hu : u.dropWhile p = []) :
    (u ++ r).dropWhile p = r := by
  rw [dropWhile_cut p u r h, hu]; rfl

/-! ### finishNum -/

theorem finishNum_cut (v0 : NumVal) (u r : Bytes) : NumCut r (finishNum v0 (u ++ r)) (finishNum v0 u) := by
  intro v rest h _
  unfold finishNum at h ⊢
  cases u with
  | nil =>
    refine ⟨[], ?_, ?_⟩
    · split at h
      · cases h; rfl
      · cases h
    · split at h
      · cases h; rfl
      · cases h
  | cons a u' =>
    have hd : numDelimOk (a :: u' ++ r) = numDelimOk (a :: u') := rfl
    rw [hd] at h
    split at h
    · rename_i hok
      cases h
      exact ⟨a :: u', rfl, by rw [if_pos hok]⟩
    · cases h

theorem finishNum_nil (v : NumVal) : finishNum v [] = .ok v [] := rfl

/-! ### ratioDenominator -/

/-- the test after the denominator digits -/
def ratioEndOk (t : Bytes) : Bool :=
  !(peek t == 0x4E || peek t == 0x4D || peek t == 0x2F) && (t.isEmpty || isDelim (peek t))

theorem ratioDenominator_ok_iff (s rest : Bytes) :
    ratioDenominator s = .ok rest ↔
      (s ≠ [] ∧ is09 (peek s) = true ∧ (peek s == 0x30) = false ∧
        rest = s.dropWhile is09 ∧ ratioEndOk rest = true) := by
  unfold ratioDenominator ratioEndOk
  simp only []
  cases s with
  | nil => simp
  | cons a s' =>
    simp only [List.isEmpty_cons, Bool.false_or, ne_eq, reduceCtorEq, not_false_eq_true, true_and]
    cases h9 : is09 (peek (a :: s')) with
    | false => simp
    | true =>
      cases h0 : peek (a :: s') == 0x30 with
      | true => simp
      | false =>
        simp only [Bool.not_true, Bool.false_eq_true, if_false, true_and]
        generalize List.dropWhile is09 (a :: s') = t
        cases h1 : (peek t == 0x4E || peek t == 0x4D || peek t == 0x2F) with
        | true =>
          simp only [if_true, reduceCtorEq, false_iff, not_and]
          intro h; subst h; simp only [h1, Bool.not_true, Bool.false_and, Bool.false_eq_true,
            not_false_eq_true]
        | false =>
          simp only [Bool.false_eq_true, if_false]
          cases h2 : (t.isEmpty || isDelim (peek t)) with
          | true =>
            have : (!t.isEmpty && !isDelim (peek t)) = false := by
              cases hA : t.isEmpty <;> cases hB : isDelim (peek t) <;> simp_all
            simp only [this, Bool.false_eq_true, if_false, Except.ok.injEq]
            constructor
            · intro h; subst h; simp [h1, h2]
            · intro h; exact h.1.symm
          | false =>
            have : (!t.isEmpty && !isDelim (peek t)) = true := by
              cases hA : t.isEmpty <;> cases hB : isDelim (peek t) <;> simp_all
            simp only [this, if_true, reduceCtorEq, false_iff, not_and]
            intro h; subst h; simp [h1, h2]

theorem ratioEndOk_cut (w r : Bytes) (h : ratioEndOk (w ++ r) = true) : ratioEndOk w = true := by
  cases w with
  | nil => decide
  | cons a w' => exact h

theorem ratioDenominator_cut (u r : Bytes) : ExCut r (ratioDenominator (u ++ r)) (ratioDenominator u) := by
  intro rest h hl
  rw [ratioDenominator_ok_iff] at h
  obtain ⟨hne, h9, h0, hrest, hend⟩ := h
  cases u with
  | nil =>
    exfalso
    simp only [List.nil_append] at hne h9 hrest
    cases r with
    | nil => exact hne rfl
    | cons c r' =>
      have hc : is09 c = true := h9
      rw [hrest, List.dropWhile_cons, hc] at hl
      simp only [if_true, List.length_cons] at hl
      have := dropWhile_length_le is09 r'
      omega
  | cons a u' =>
    rw [hrest] at hl
    have hd := dropWhile_cut is09 (a :: u') r hl
    rw [hd] at hrest
    refine ⟨(a :: u').dropWhile is09, hrest, ?_⟩
    rw [ratioDenominator_ok_iff]
    refine ⟨by simp, h9, h0, rfl, ?_⟩
    rw [hrest] at hend
    exact ratioEndOk_cut _ _ hend

theorem ratioDenominator_ok_lt {s rest : Bytes} (h : ratioDenominator s = .ok rest) :
    rest.length < s.length := by
  rw [ratioDenominator_ok_iff] at h
  obtain ⟨hne, h9, _, hrest, _⟩ := h
  cases s with
  | nil => exact absurd rfl hne
  | cons c s' =>
    have hc : is09 c = true := h9
    rw [hrest, List.dropWhile_cons, hc]
    simp only [if_true, List.length_cons]
    have := dropWhile_length_le is09 s'
    omega

/-! ### small facts used by the tails -/

theorem finishNum_ok {v v' : NumVal} {s rest : Bytes} (h : finishNum v s = .ok v' rest) :
    v' = v ∧ rest = s := by
  unfold finishNum at h
  split at h
  · cases h; exact ⟨rfl, rfl⟩
  · cases h

theorem numLen_ite_eq (c : Prop) [Decidable c] (a b : NumOut) (n : Nat) (ha : numLen a = n)
    (hb : numLen b = n) : numLen (if c then a else b) = n := by split <;> assumption

theorem numLen_ok {o : NumOut} {v : NumVal} {rest : Bytes} (h : o = .ok v rest) :
    rest.length = numLen o := by subst h; rfl

theorem peek_cons (a : UInt8) (u : Bytes) : peek (a :: u) = a := rfl
theorem adv_cons (a : UInt8) (u : Bytes) : adv (a :: u) = u := rfl
theorem peek_nil : peek [] = 0 := rfl
theorem adv_nil : adv [] = [] := rfl

theorem fracDigits_cut (exp : Bool) (u r : Bytes)
    (h : r.length ≤ (fracDigits exp (u ++ r)).length) :
    fracDigits exp (u ++ r) = fracDigits exp u ++ r :=
  dropWhile_cut _ u r h

theorem fracDigits_lt (exp : Bool) {s : Bytes} (h : is09 (peek s) = true) :
    (fracDigits exp s).length < s.length := by
  cases s with
  | nil => exact absurd h (by decide)
  | cons c s' =>
    have hc : is09 c = true := h
    unfold fracDigits
    rw [List.dropWhile_cons]
    simp only [hc, Bool.true_or, if_true, List.length_cons]
    have := dropWhile_length_le (fun c => is09 c || (exp && c == 0x5F)) s'
    omega

/-- scan fraction/exponent digits, then continue: the generic cut step -/
theorem fracDigits_then_cut (exp : Bool) (w r : Bytes) (G Gs : Bytes → NumOut)
    (hlen : ∀ s, numLen (G s) ≤ s.length) (hcut : ∀ w', NumCut r (G (w' ++ r)) (Gs w')) :
    NumCut r (G (fracDigits exp (w ++ r))) (Gs (fracDigits exp w)) := by
  by_cases hl : r.length ≤ (fracDigits exp (w ++ r)).length
  · rw [fracDigits_cut exp w r hl]; exact hcut _
  · apply NumCut_of_lt
    have := hlen (fracDigits exp (w ++ r))
    omega

/-! ### radixTail -/

theorem radixTail_nil (cfg : Cfg) (neg : Bool) (radix : Nat) (allowN : Bool) (ds : Bytes) :
    radixTail cfg neg radix allowN ds [] = .ok (intOrBig cfg (slice ds []) radix neg) [] := by
  cases allowN <;> rfl

theorem radixTail_ok_long {cfg : Cfg} {neg : Bool} {radix : Nat} {allowN : Bool} {ds s : Bytes}
    {v : NumVal} {rest : Bytes} (h : radixTail cfg neg radix allowN ds s = .ok v rest)
    (hne : s ≠ []) (hl : s.length ≤ rest.length) :
    rest = s ∧ v = intOrBig cfg (slice ds s) radix neg := by
  have ha := adv_length_lt hne
  have hlen := numLen_ok h
  unfold radixTail at h hlen
  simp only [] at h hlen
  by_cases hN : (allowN && peek s == 0x4E) = true
  · simp only [hN, if_true] at hlen
    rw [numLen_ite_eq _ _ _ (adv s).length rfl (finishNum_len _ _)] at hlen
    omega
  · simp only [hN, Bool.false_eq_true, if_false] at h hlen
    by_cases hM : (peek s == 0x4D) = true
    · simp only [hM, if_true] at hlen
      rw [numLen_ite_eq _ _ _ (adv s).length rfl (finishNum_len _ _)] at hlen
      omega
    · simp only [hM, if_false, Bool.false_eq_true, ite_self] at h
      split at h
      · cases h
      · obtain ⟨h1, h2⟩ := finishNum_ok h
        exact ⟨h2, h1⟩

theorem radixEnd_cut (allowN : Bool) (a : UInt8) (v : NumVal) (w r : Bytes) :
    NumCut r
      (if ((if allowN = true then peek (w ++ r) else a) == 0x2F) = true then .err (w ++ r)
        else finishNum v (w ++ r))
      (if ((if allowN = true then peek w else a) == 0x2F) = true then .err w else finishNum v w) := by
  cases allowN with
  | false =>
    simp only [Bool.false_eq_true, if_false]
    exact NumCut_ite _ (fun _ => NumCut_err _ _ _) (fun _ => finishNum_cut _ _ _)
  | true =>
    simp only [if_true]
    cases w with
    | nil =>
      have : (peek ([] : Bytes) == 0x2F) = false := by decide
      rw [this]
      simp only [Bool.false_eq_true, if_false]
      split
      · exact NumCut_err _ _ _
      · exact finishNum_cut _ _ _
    | cons b w' =>
      simp only [peek_append_cons, peek_cons]
      exact NumCut_ite _ (fun _ => NumCut_err _ _ _) (fun _ => finishNum_cut _ _ _)

theorem radixTail_cut (cfg : Cfg) (neg : Bool) (radix : Nat) (allowN : Bool) (ds u r : Bytes) :
    NumCut r (radixTail cfg neg radix allowN (ds ++ r) (u ++ r)) (radixTail cfg neg radix allowN ds u) := by
  cases r with
  | nil => simp only [List.append_nil]; exact NumCut_nil _
  | cons c r' =>
  cases u with
  | nil =>
    intro v rest hbig hl
    obtain ⟨h1, h2⟩ := radixTail_ok_long hbig (by simp) (by simpa using hl)
    refine ⟨[], h1, ?_⟩
    rw [radixTail_nil, h2, slice_append_right]
  | cons a u' =>
    unfold radixTail
    simp only [peek_append_cons, adv_append_cons, peek_cons, adv_cons, slice_append_right]
    by_cases hN : (allowN && a == 0x4E) = true
    · simp only [hN, if_true]
      exact radixEnd_cut allowN a _ u' _
    · simp only [hN]
      by_cases hM : (a == 0x4D) = true
      · simp only [hM, if_true]
        exact radixEnd_cut allowN a _ u' _
      · simp only [hM, if_false, Bool.false_eq_true]
        exact radixEnd_cut allowN a _ (a :: u') _

/-! ### decimalTail -/

/-- value creation of a ratio literal, after the denominator has been scanned up to `s'` -/
def ratioK (cfg : Cfg) (neg : Bool) (digits den s' : Bytes) : NumOut :=
  match parseInt64 cfg digits 10 neg, parseInt64 cfg den 10 false with
  | some n, some d =>
    let g := ratioGcd n d
    let n' := if g > 1 then n / (g : Int) else n
    let d' := if g > 1 then d / (g : Int) else d
    if n' == 0 then .ok (.int 0) s'
    else if d' == 1 then .ok (.int n') s'
    else finishNum (.ratio n' d') s'
  | _, some d =>
    if d == 1 then finishNum (.bigint neg 10 digits) s' else finishNum (.bigratio neg digits den) s'
  | _, none => finishNum (.bigratio neg digits den) s'

theorem decimalTail_eq (cfg : Cfg) (start : Bytes) (neg hasDec hasExp : Bool) (ds s : Bytes) :
    decimalTail cfg start neg hasDec hasExp ds s =
      if (cfg.exp && (peek s == 0x4E || peek s == 0x4D || peek s == 0x2F) && lastIsUnderscore ds s) = true
        then .err s
      else if (peek s == 0x4E && !hasDec && !hasExp) = true then
        finishNum (.bigint neg 10 (slice ds s)) (adv s)
      else if (peek s == 0x4D) = true then finishNum (.bigdec neg (slice ds s)) (adv s)
      else if (cfg.clj && peek s == 0x2F && !hasDec && !hasExp) = true then
        match ratioDenominator (adv s) with
        | .error cur => .err cur
        | .ok s' => ratioK cfg neg (slice ds s) (slice (adv s) s') s'
      else if (hasDec || hasExp) = true then finishNum (.float (parseDouble cfg (slice start s))) s
      else finishNum (intOrBig cfg (slice ds s) 10 neg) s := by
  unfold decimalTail ratioK
  rfl

theorem ratioK_len (cfg : Cfg) (neg : Bool) (digits den s' : Bytes) :
    numLen (ratioK cfg neg digits den s') = s'.length := by
  unfold ratioK
  split
  · simp only []
    apply numLen_ite_eq
    · rfl
    apply numLen_ite_eq
    · rfl
    · exact finishNum_len _ _
  · apply numLen_ite_eq <;> exact finishNum_len _ _
  · exact finishNum_len _ _

theorem ratioK_cut (cfg : Cfg) (neg : Bool) (digits den w r : Bytes) :
    NumCut r (ratioK cfg neg digits den (w ++ r)) (ratioK cfg neg digits den w) := by
  unfold ratioK
  cases parseInt64 cfg den 10 false with
  | none =>
    cases parseInt64 cfg digits 10 neg <;> exact finishNum_cut _ _ _
  | some d =>
    cases parseInt64 cfg digits 10 neg with
    | none =>
      exact NumCut_ite _ (fun _ => finishNum_cut _ _ _) (fun _ => finishNum_cut _ _ _)
    | some n =>
      simp only []
      apply NumCut_ite
      · intro _; exact NumCut_ok _ _ _
      · intro _
        apply NumCut_ite
        · intro _; exact NumCut_ok _ _ _
        · intro _; exact finishNum_cut _ _ _

theorem decimalTail_nil (cfg : Cfg) (start : Bytes) (neg hasDec hasExp : Bool) (ds : Bytes) :
    decimalTail cfg start neg hasDec hasExp ds [] =
      .ok (if (hasDec || hasExp) = true then .float (parseDouble cfg (slice start []))
           else intOrBig cfg (slice ds []) 10 neg) [] := by
  rw [decimalTail_eq]
  have h1 : (peek ([] : Bytes) == 0x4E) = false := by decide
  have h2 : (peek ([] : Bytes) == 0x4D) = false := by decide
  have h3 : (peek ([] : Bytes) == 0x2F) = false := by decide
  simp only [h1, h2, h3, Bool.or_false, Bool.and_false, Bool.false_and, Bool.false_eq_true, if_false]
  split <;> rfl

theorem decimalTail_ok_long {cfg : Cfg} {start : Bytes} {neg hasDec hasExp : Bool} {ds s : Bytes}
    {v : NumVal} {rest : Bytes} (h : decimalTail cfg start neg hasDec hasExp ds s = .ok v rest)
    (hne : s ≠ []) (hl : s.length ≤ rest.length) :
    rest = s ∧ v = (if (hasDec || hasExp) = true then .float (parseDouble cfg (slice start s))
           else intOrBig cfg (slice ds s) 10 neg) := by
  have ha := adv_length_lt hne
  rw [decimalTail_eq] at h
  split at h
  · cases h
  split at h
  · obtain ⟨_, h2⟩ := finishNum_ok h
    rw [h2] at hl; omega
  split at h
  · obtain ⟨_, h2⟩ := finishNum_ok h
    rw [h2] at hl; omega
  split at h
  · exfalso
    have hr := ratioDenominator_len (adv s)
    cases hrd : ratioDenominator (adv s) with
    | error cur => rw [hrd] at h; cases h
    | ok s' =>
      rw [hrd] at h hr
      simp only [exLen] at hr
      simp only [] at h
      have := numLen_ok h
      rw [ratioK_len] at this
      omega
  split at h
  · rename_i hc
    obtain ⟨h1, h2⟩ := finishNum_ok h
    exact ⟨h2, by rw [if_pos hc]; exact h1⟩
  · rename_i hc
    obtain ⟨h1, h2⟩ := finishNum_ok h
    exact ⟨h2, by rw [if_neg hc]; exact h1⟩

theorem decimalTail_cut (cfg : Cfg) (start : Bytes) (neg hasDec hasExp : Bool) (ds u r : Bytes) :
    NumCut r (decimalTail cfg (start ++ r) neg hasDec hasExp (ds ++ r) (u ++ r))
      (decimalTail cfg start neg hasDec hasExp ds u) := by
  cases r with
  | nil => simp only [List.append_nil]; exact NumCut_nil _
  | cons c r' =>
  cases u with
  | nil =>
    intro v rest hbig hl
    obtain ⟨h1, h2⟩ := decimalTail_ok_long hbig (by simp) (by simpa using hl)
    refine ⟨[], h1, ?_⟩
    rw [decimalTail_nil, h2, slice_append_right, slice_append_right]
  | cons a u' =>
    rw [decimalTail_eq, decimalTail_eq]
    simp only [peek_append_cons, adv_append_cons, peek_cons, adv_cons, slice_append_right,
      lastIsUnderscore_append_right]
    apply NumCut_ite
    · intro _; exact NumCut_err _ _ _
    intro _
    apply NumCut_ite
    · intro _; exact finishNum_cut _ _ _
    intro _
    apply NumCut_ite
    · intro _; exact finishNum_cut _ _ _
    intro _
    apply NumCut_ite
    · intro _
      cases hb : ratioDenominator (u' ++ c :: r') with
      | error cur => exact NumCut_err _ _ _
      | ok s' =>
        simp only []
        by_cases hl : (c :: r').length ≤ s'.length
        · obtain ⟨w, hw, hs⟩ := ratioDenominator_cut u' (c :: r') s' hb hl
          subst hw
          rw [hs]
          simp only [slice_append_right]
          exact ratioK_cut _ _ _ _ _ _
        · apply NumCut_of_lt
          rw [ratioK_len]
          omega
    intro _
    apply NumCut_ite
    · intro _; exact finishNum_cut _ _ _
    · intro _; exact finishNum_cut _ _ _

/-! ### exponentPart -/

/-- the exponent digits and what follows; `s2` is behind the optional sign -/
def expDigits (cfg : Cfg) (start : Bytes) (neg hasDec : Bool) (ds s2 : Bytes) : NumOut :=
  if (!is09 (peek s2)) = true then .err s2
  else decimalTail cfg start neg hasDec true ds (fracDigits cfg.exp s2)

/-- `exponentPart` behind the `e`/`E` -/
def expAfter (cfg : Cfg) (start : Bytes) (neg hasDec : Bool) (ds s1 : Bytes) : NumOut :=
  expDigits cfg start neg hasDec ds (if (peek s1 == 0x2B || peek s1 == 0x2D) = true then adv s1 else s1)

theorem exponentPart_eq (cfg : Cfg) (start : Bytes) (neg hasDec : Bool) (ds s : Bytes) :
    exponentPart cfg start neg hasDec ds s = expAfter cfg start neg hasDec ds (adv s) := rfl

theorem expDigits_len (cfg : Cfg) (start : Bytes) (neg hasDec : Bool) (ds s2 : Bytes) :
    numLen (expDigits cfg start neg hasDec ds s2) ≤ s2.length := by
  unfold expDigits
  apply numLen_ite
  · exact Nat.le_refl _
  · have := decimalTail_len cfg start neg hasDec true ds (fracDigits cfg.exp s2)
    have := fracDigits_len cfg.exp s2
    omega

theorem expAfter_len (cfg : Cfg) (start : Bytes) (neg hasDec : Bool) (ds s1 : Bytes) :
    numLen (expAfter cfg start neg hasDec ds s1) ≤ s1.length := by
  unfold expAfter
  have ha := adv_length_le s1
  split
  · have := expDigits_len cfg start neg hasDec ds (adv s1); omega
  · exact expDigits_len ..

theorem expDigits_cut (cfg : Cfg) (start : Bytes) (neg hasDec : Bool) (ds w r : Bytes) :
    NumCut r (expDigits cfg (start ++ r) neg hasDec (ds ++ r) (w ++ r))
      (expDigits cfg start neg hasDec ds w) := by
  cases r with
  | nil => simp only [List.append_nil]; exact NumCut_nil _
  | cons c r' =>
  cases w with
  | nil =>
    unfold expDigits
    by_cases h9 : is09 (peek ([] ++ c :: r')) = true
    · apply NumCut_of_lt
      rw [h9]
      simp only [Bool.not_true, Bool.false_eq_true, if_false]
      have := decimalTail_len cfg (start ++ c :: r') neg hasDec true (ds ++ c :: r')
        (fracDigits cfg.exp ([] ++ c :: r'))
      have := fracDigits_lt cfg.exp h9
      simp only [List.nil_append] at *
      omega
    · simp only [h9]
      exact NumCut_err _ _ _
  | cons b w' =>
    unfold expDigits
    simp only [peek_append_cons, peek_cons]
    apply NumCut_ite
    · intro _; exact NumCut_err _ _ _
    · intro _
      exact fracDigits_then_cut cfg.exp (b :: w') (c :: r')
        (fun s => decimalTail cfg (start ++ c :: r') neg hasDec true (ds ++ c :: r') s)
        (fun s => decimalTail cfg start neg hasDec true ds s)
        (fun s => decimalTail_len ..) (fun w'' => decimalTail_cut _ _ _ _ _ _ _ _)

theorem expAfter_cut (cfg : Cfg) (start : Bytes) (neg hasDec : Bool) (ds w r : Bytes) :
    NumCut r (expAfter cfg (start ++ r) neg hasDec (ds ++ r) (w ++ r))
      (expAfter cfg start neg hasDec ds w) := by
  cases r with
  | nil => simp only [List.append_nil]; exact NumCut_nil _
  | cons c r' =>
  cases w with
  | nil =>
    -- the small run fails; the big run consumes at least the first exponent digit
    intro v rest hbig hl
    exfalso
    unfold expAfter at hbig
    simp only [List.nil_append] at hbig
    have hlen := numLen_ok hbig
    split at hbig
    · have := expDigits_len cfg (start ++ c :: r') neg hasDec (ds ++ c :: r') (adv (c :: r'))
      rename_i hc
      simp only [hc, if_true] at hlen
      simp only [adv_cons, List.length_cons] at *
      omega
    · unfold expDigits at hbig
      split at hbig
      · cases hbig
      · rename_i h9
        have h9' : is09 (peek (c :: r')) = true := by simpa using h9
        have := fracDigits_lt cfg.exp h9'
        have := decimalTail_len cfg (start ++ c :: r') neg hasDec true (ds ++ c :: r')
          (fracDigits cfg.exp (c :: r'))
        have := numLen_ok hbig
        omega
  | cons b w' =>
    unfold expAfter
    simp only [peek_append_cons, adv_append_cons, peek_cons, adv_cons]
    by_cases hc : (b == 0x2B || b == 0x2D) = true
    · simp only [hc, if_true]
      exact expDigits_cut _ _ _ _ _ _ _
    · simp only [hc]
      exact expDigits_cut cfg start neg hasDec ds (b :: w') (c :: r')

theorem exponentPart_cut (cfg : Cfg) (start : Bytes) (neg hasDec : Bool) (ds u r : Bytes) :
    NumCut r (exponentPart cfg (start ++ r) neg hasDec (ds ++ r) (u ++ r))
      (exponentPart cfg start neg hasDec ds u) := by
  cases r with
  | nil => simp only [List.append_nil]; exact NumCut_nil _
  | cons c r' =>
  rw [exponentPart_eq, exponentPart_eq]
  cases u with
  | nil =>
    apply NumCut_of_lt
    have := expAfter_len cfg (start ++ c :: r') neg hasDec (ds ++ c :: r') (adv ([] ++ c :: r'))
    simp only [List.nil_append, adv_cons, List.length_cons] at *
    omega
  | cons a u' =>
    simp only [adv_append_cons, adv_cons]
    exact expAfter_cut _ _ _ _ _ _ _

theorem exponentPart_len_adv (cfg : Cfg) (start : Bytes) (neg hasDec : Bool) (ds s : Bytes) :
    numLen (exponentPart cfg start neg hasDec ds s) ≤ (adv s).length := by
  rw [exponentPart_eq]; exact expAfter_len ..

/-! ### afterMantissa -/

theorem afterMantissa_cut (cfg : Cfg) (start : Bytes) (neg hasDec : Bool) (ds u r : Bytes) :
    NumCut r (afterMantissa cfg (start ++ r) neg hasDec (ds ++ r) (u ++ r))
      (afterMantissa cfg start neg hasDec ds u) := by
  cases r with
  | nil => simp only [List.append_nil]; exact NumCut_nil _
  | cons c r' =>
  cases u with
  | nil =>
    have hs : afterMantissa cfg start neg hasDec ds [] = decimalTail cfg start neg hasDec false ds [] := rfl
    rw [hs]
    unfold afterMantissa
    simp only []
    split
    · split
      · exact NumCut_err _ _ _
      · apply NumCut_of_lt
        have := exponentPart_len_adv cfg (start ++ c :: r') neg hasDec (ds ++ c :: r') ([] ++ c :: r')
        simp only [List.nil_append, adv_cons, List.length_cons] at *
        omega
    · exact decimalTail_cut _ _ _ _ _ _ _ _
  | cons a u' =>
    unfold afterMantissa
    simp only [peek_append_cons, peek_cons, lastIsUnderscore_append_right]
    apply NumCut_ite
    · intro _
      apply NumCut_ite
      · intro _; exact NumCut_err _ _ _
      · intro _; exact exponentPart_cut _ _ _ _ _ _ _
    · intro _; exact decimalTail_cut _ _ _ _ _ _ _ _

/-! ### decimalPart -/

theorem decimalPart_len_adv (cfg : Cfg) (start : Bytes) (neg : Bool) (ds s : Bytes) :
    numLen (decimalPart cfg start neg ds s) ≤ (adv s).length := by
  unfold decimalPart
  simp only []
  apply numLen_ite
  · exact Nat.le_refl _
  · have := afterMantissa_len cfg start neg true ds (fracDigits cfg.exp (adv s))
    have := fracDigits_len cfg.exp (adv s)
    omega

theorem decimalPart_cut (cfg : Cfg) (start : Bytes) (neg : Bool) (ds u r : Bytes) :
    NumCut r (decimalPart cfg (start ++ r) neg (ds ++ r) (u ++ r))
      (decimalPart cfg start neg ds u) := by
  cases r with
  | nil => simp only [List.append_nil]; exact NumCut_nil _
  | cons c r' =>
  cases u with
  | nil =>
    apply NumCut_of_lt
    have := decimalPart_len_adv cfg (start ++ c :: r') neg (ds ++ c :: r') ([] ++ c :: r')
    simp only [List.nil_append, adv_cons, List.length_cons] at *
    omega
  | cons a u' =>
    unfold decimalPart
    simp only [adv_append_cons, adv_cons]
    apply NumCut_ite_err
    · intro h
      simp only [Bool.and_eq_true, beq_iff_eq] at h ⊢
      exact ⟨h.1, peek_app_of_ne_zero _ (by decide) h.2⟩
    · exact fracDigits_then_cut cfg.exp u' (c :: r')
        (fun s => afterMantissa cfg (start ++ c :: r') neg true (ds ++ c :: r') s)
        (fun s => afterMantissa cfg start neg true ds s)
        (fun s => afterMantissa_len ..) (fun w'' => afterMantissa_cut _ _ _ _ _ _ _)

end Edn.Proofs
