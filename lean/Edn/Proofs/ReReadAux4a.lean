/-
  Edn.Proofs.ReReadAux4a — continuation independence of the digit loops of the number reader
  (`decDigitsLoop`, `radixDigitsLoop`): fuel-independent cut lemmas, and small facts used by
  the cut proofs of the paths of `readNumber` (Edn.Proofs.ReReadAux4).
-/
import Edn.Proofs.ReReadAux3

set_option linter.unusedSimpArgs false

namespace Edn.Proofs
open Edn.Model Edn.Spec

/-! ## trivial cuts -/

theorem NumCut_of_numLen {r : Bytes} {big small : NumOut} (h : numLen big < r.length) :
    NumCut r big small := by
  intro v rest hb hl
  subst hb
  simp only [numLen] at h
  omega

theorem ExCut_error (r cur : Bytes) (small : Except Bytes Bytes) : ExCut r (.error cur) small := by
  intro rest h _
  cases h

theorem ExCut_ok (r u : Bytes) : ExCut r (.ok (u ++ r)) (.ok u) := by
  intro rest h _
  cases h
  exact ⟨u, rfl, rfl⟩

theorem ExCut_of_exLen {r : Bytes} {big small : Except Bytes Bytes} (h : exLen big < r.length) :
    ExCut r big small := by
  intro rest hb hl
  subst hb
  simp only [exLen] at h
  omega

theorem exLen_ite (c : Prop) [Decidable c] (a b : Except Bytes Bytes) (n : Nat) (ha : exLen a ≤ n) (hb : exLen b ≤ n) :
    exLen (if c then a else b) ≤ n := by split <;> assumption

/-! ## byte facts -/

def digitNotDelim (c : UInt8) : Bool := !(decide (digitValueRaw c < 37)) || (c != 0 && !isDelim c)
theorem digit_notDelim : ∀ c, digitNotDelim c = true := forall_u8_bool _ (by decide +kernel)

theorem digit_facts {c : UInt8} {radix : Nat} (hr : radix ≤ 36) (h : (digitValue c radix).isSome = true) :
    (c != 0 && !isDelim c) = true := by
  have := digit_notDelim c
  unfold digitValue at h
  simp only [] at h
  split at h
  · rename_i hlt
    have h37 : digitValueRaw c < 37 := by omega
    simpa [digitNotDelim, h37] using this
  · cases h

theorem underscore_facts : ((0x5F : UInt8) != 0 && !isDelim 0x5F) = true := by decide +kernel

theorem digitValue_zero {radix : Nat} (hr : radix ≤ 36) : (digitValue 0 radix).isSome = false := by
  cases h : (digitValue 0 radix).isSome with
  | false => rfl
  | true =>
    have := digit_facts hr h
    simp at this

/-! ## the digit loops return a suffix -/

theorem decDigitsLoop_suffix (exp : Bool) : ∀ (f : Nat) (s rest : Bytes),
    decDigitsLoop exp f s = .ok rest → rest <:+ s := by
  intro f
  induction f with
  | zero => intro s rest h; simp only [decDigitsLoop] at h; cases h; exact List.suffix_refl _
  | succ f ih =>
    intro s rest h
    rw [decDigitsLoop] at h
    simp only [] at h
    have ht : adv s <:+ s := List.tail_suffix s
    split at h
    · split at h
      · exact (ih _ _ h).trans ht
      · split at h
        · split at h
          · cases h
          · exact (ih _ _ h).trans ht
        · cases h; exact List.suffix_refl _
    · cases h; exact List.suffix_refl _

theorem radixDigitsLoop_suffix (exp : Bool) (radix : Nat) (strict : Bool) : ∀ (f : Nat) (s rest : Bytes),
    radixDigitsLoop exp radix strict f s = .ok rest → rest <:+ s := by
  intro f
  induction f with
  | zero => intro s rest h; simp only [radixDigitsLoop] at h; cases h; exact List.suffix_refl _
  | succ f ih =>
    intro s rest h
    rw [radixDigitsLoop] at h
    simp only [] at h
    have ht : adv s <:+ s := List.tail_suffix s
    split at h
    · split at h
      · exact (ih _ _ h).trans ht
      · split at h
        · split at h
          · cases h
          · exact (ih _ _ h).trans ht
        · cases h; exact List.suffix_refl _
    · cases h; exact List.suffix_refl _

/-! ## a leading digit or underscore is consumed -/

theorem decDigitsLoop_consume (exp : Bool) (f : Nat) (c : UInt8) (cs : Bytes)
    (h : is09 c = true ∨ (exp = true ∧ c = 0x5F)) :
    exLen (decDigitsLoop exp (f + 1) (c :: cs)) ≤ cs.length := by
  rw [decDigitsLoop]
  simp only [peek, adv, List.headD_cons, List.tail_cons]
  have hl := decDigitsLoop_len exp f cs
  rcases h with h | ⟨he, hc⟩
  · obtain ⟨h1, h2, _, _⟩ := is09_facts h
    simp only [h1, h2, h, Bool.not_false, Bool.and_self, ↓reduceIte]
    exact hl
  · subst hc he
    have := underscore_facts
    simp only [this, ↓reduceIte]
    have h9 : is09 0x5F = false := by decide
    simp only [h9, Bool.false_eq_true, ↓reduceIte, Bool.true_and, beq_self_eq_true]
    apply exLen_ite
    · simp only [exLen]; omega
    · exact hl

theorem radixDigitsLoop_consume (exp : Bool) (radix : Nat) (strict : Bool) (f : Nat) (c : UInt8) (cs : Bytes)
    (hr : radix ≤ 36)
    (h : (digitValue c radix).isSome = true ∨ (exp = true ∧ c = 0x5F)) :
    exLen (radixDigitsLoop exp radix strict (f + 1) (c :: cs)) ≤ cs.length := by
  rw [radixDigitsLoop]
  simp only [peek, adv, List.headD_cons, List.tail_cons]
  have hl := radixDigitsLoop_len exp radix strict f cs
  rcases h with h | ⟨he, hc⟩
  · have h1 := digit_facts hr h
    simp only [h1, h, ↓reduceIte]
    exact hl
  · subst hc he
    have := underscore_facts
    simp only [this, ↓reduceIte]
    apply exLen_ite
    · exact hl
    · simp only [Bool.true_and, beq_self_eq_true, ↓reduceIte]
      apply exLen_ite
      · simp only [exLen]; omega
      · exact hl

/-! ## cut lemmas of the digit loops (any sufficient fuel on either side) -/

theorem decDigitsLoop_nil (exp : Bool) (f : Nat) : decDigitsLoop exp f [] = .ok [] := by
  cases f with
  | zero => rfl
  | succ f => rw [decDigitsLoop]; rfl

theorem radixDigitsLoop_nil (exp : Bool) (radix : Nat) (strict : Bool) (f : Nat) :
    radixDigitsLoop exp radix strict f [] = .ok [] := by
  cases f with
  | zero => rfl
  | succ f => rw [radixDigitsLoop]; rfl

theorem decDigitsLoop_cut (exp : Bool) (r : Bytes) : ∀ (u : Bytes) (f f' : Nat),
    u.length + r.length < f → u.length < f' →
    ExCut r (decDigitsLoop exp f (u ++ r)) (decDigitsLoop exp f' u) := by
  intro u
  induction u with
  | nil =>
    intro f f' _ _ rest hbig hl
    have hs := decDigitsLoop_suffix exp f _ _ hbig
    rw [List.nil_append] at hs
    have : rest = r := hs.eq_of_length_le hl
    subst this
    exact ⟨[], rfl, decDigitsLoop_nil exp f'⟩
  | cons a u ih =>
    intro f f' hf hf'
    simp only [List.length_cons] at hf hf'
    cases f with
    | zero => omega
    | succ g =>
    cases f' with
    | zero => omega
    | succ g' =>
    rw [decDigitsLoop, decDigitsLoop]
    simp only [List.cons_append, peek, adv, List.headD_cons, List.tail_cons]
    by_cases h1 : (a != 0 && !isDelim a) = true
    case neg => simp only [h1, Bool.false_eq_true, reduceIte]; exact ExCut_ok r (a :: u)
    simp only [h1, Bool.false_eq_true, reduceIte]
    by_cases h2 : is09 a = true
    case pos => simp only [h2, Bool.false_eq_true, reduceIte]; exact ih g g' (by omega) (by omega)
    simp only [h2, Bool.false_eq_true, reduceIte]
    by_cases h3 : (exp && a == 0x5F) = true
    case neg => simp only [h3, Bool.false_eq_true, reduceIte]; exact ExCut_ok r (a :: u)
    simp only [h3, Bool.false_eq_true, reduceIte]
    cases u with
    | cons b u' =>
      simp only [List.cons_append, List.headD_cons]
      by_cases h4 : (b != 0x5F && !is09 b) = true
      · simp only [h4, Bool.false_eq_true, reduceIte]; exact ExCut_error _ _ _
      · simp only [h4, Bool.false_eq_true, reduceIte]
        exact ih g g' (by omega) (by omega)
    | nil =>
      simp only [List.nil_append]
      by_cases h4 : (r.headD 0 != 0x5F && !is09 (r.headD 0)) = true
      case pos => simp only [h4, Bool.false_eq_true, reduceIte]; exact ExCut_error _ _ _
      simp only [h4, Bool.false_eq_true, reduceIte]
      rw [Bool.not_eq_true] at h4
      cases r with
      | nil => exact absurd h4 (by decide)
      | cons c r' =>
        simp only [List.length_cons, List.length_nil] at hf
        cases g with
        | zero => omega
        | succ g2 =>
        apply ExCut_of_exLen
        have hexp : exp = true := by
          cases exp with
          | true => rfl
          | false => simp at h3
        have := decDigitsLoop_consume exp g2 c r' (by
          simp only [List.headD_cons] at h4
          cases h9 : is09 c with
          | true => exact Or.inl rfl
          | false =>
            right
            simp only [h9, Bool.not_false, Bool.and_true, bne_eq_false_iff_eq] at h4
            exact ⟨hexp, h4⟩)
        simp only [List.length_cons]
        omega

theorem radixDigitsLoop_cut (exp : Bool) (radix : Nat) (strict : Bool) (hr : radix ≤ 36) (r : Bytes) :
    ∀ (u : Bytes) (f f' : Nat), u.length + r.length < f → u.length < f' →
    ExCut r (radixDigitsLoop exp radix strict f (u ++ r)) (radixDigitsLoop exp radix strict f' u) := by
  intro u
  induction u with
  | nil =>
    intro f f' _ _ rest hbig hl
    have hs := radixDigitsLoop_suffix exp radix strict f _ _ hbig
    rw [List.nil_append] at hs
    have : rest = r := hs.eq_of_length_le hl
    subst this
    exact ⟨[], rfl, radixDigitsLoop_nil exp radix strict f'⟩
  | cons a u ih =>
    intro f f' hf hf'
    simp only [List.length_cons] at hf hf'
    cases f with
    | zero => omega
    | succ g =>
    cases f' with
    | zero => omega
    | succ g' =>
    rw [radixDigitsLoop, radixDigitsLoop]
    simp only [List.cons_append, peek, adv, List.headD_cons, List.tail_cons]
    by_cases h1 : (a != 0 && !isDelim a) = true
    case neg => simp only [h1, Bool.false_eq_true, reduceIte]; exact ExCut_ok r (a :: u)
    simp only [h1, Bool.false_eq_true, reduceIte]
    by_cases h2 : (digitValue a radix).isSome = true
    case pos => simp only [h2, Bool.false_eq_true, reduceIte]; exact ih g g' (by omega) (by omega)
    simp only [h2, Bool.false_eq_true, reduceIte]
    by_cases h3 : (exp && a == 0x5F) = true
    case neg => simp only [h3, Bool.false_eq_true, reduceIte]; exact ExCut_ok r (a :: u)
    simp only [h3, Bool.false_eq_true, reduceIte]
    cases u with
    | cons b u' =>
      simp only [List.cons_append, List.headD_cons]
      by_cases h4 : (strict && !(digitValue b radix).isSome && b != 0x5F) = true
      · simp only [h4, Bool.false_eq_true, reduceIte]; exact ExCut_error _ _ _
      · simp only [h4, Bool.false_eq_true, reduceIte]
        exact ih g g' (by omega) (by omega)
    | nil =>
      simp only [List.nil_append]
      by_cases h4 : (strict && !(digitValue (r.headD 0) radix).isSome && r.headD 0 != 0x5F) = true
      case pos => simp only [h4, Bool.false_eq_true, reduceIte]; exact ExCut_error _ _ _
      simp only [h4, Bool.false_eq_true, reduceIte]
      rw [Bool.not_eq_true] at h4
      have hz := digitValue_zero hr
      simp only [List.headD_nil, hz, Bool.not_false, Bool.and_true]
      cases strict with
      | false =>
        simp only [Bool.false_and, Bool.false_eq_true, reduceIte]
        exact ih g g' (by omega) (by omega)
      | true =>
        have h0 : ((0 : UInt8) != 0x5F) = true := by decide
        simp only [h0, Bool.and_self, Bool.false_eq_true, reduceIte]
        cases r with
        | nil =>
          simp only [List.headD_nil, hz, h0] at h4
          cases h4
        | cons c r' =>
          simp only [List.length_cons, List.length_nil] at hf
          cases g with
          | zero => omega
          | succ g2 =>
          apply ExCut_of_exLen
          have hexp : exp = true := by
            cases exp with
            | true => rfl
            | false => simp at h3
          have := radixDigitsLoop_consume exp radix true g2 c r' hr (by
            simp only [List.headD_cons, Bool.true_and] at h4
            cases h9 : (digitValue c radix).isSome with
            | true => exact Or.inl rfl
            | false =>
              right
              simp only [h9, Bool.not_false, Bool.true_and, bne_eq_false_iff_eq] at h4
              exact ⟨hexp, h4⟩)
          simp only [List.length_cons]
          omega

end Edn.Proofs
