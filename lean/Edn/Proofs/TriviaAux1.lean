/-
  Edn.Proofs.TriviaAux1 — helpers for Edn.Proofs.Trivia: leaf readers never touch the call
  log; the step functions of FuelAux3 keep the call log unchanged in discard mode.
-/
import Edn.Proofs.FuelAux3

namespace Edn.Proofs
open Edn.Model
open Edn.Generated

/-! ## leaf readers leave the call log alone -/

theorem leaf_calls (ctx : Ctx) (st : St) :
    (readString ctx st).st.calls = st.calls ∧ (readCharacter ctx st).st.calls = st.calls ∧
    (readIdentifier ctx st).st.calls = st.calls ∧ (readSymbolic ctx st).st.calls = st.calls ∧
    (readNumberRes ctx st).st.calls = st.calls := by
  refine ⟨?_, ?_, ?_, ?_, ?_⟩
  · unfold readString
    simp only []
    repeat' split
    all_goals rfl
  · rw [readCharacter_eq]
    repeat' split
    all_goals rfl
  · unfold readIdentifier
    simp only []
    repeat' split
    all_goals rfl
  · unfold readSymbolic
    simp only []
    repeat' split
    all_goals rfl
  · unfold readNumberRes
    simp only []
    repeat' split
    all_goals rfl

/-! ## discard mode: the step functions keep the call log -/

def DcV (RV : RVT) : Prop := ∀ d st, (RV d true st).st.calls = st.calls
def DcS (RS : RST) : Prop := ∀ d kind start st acc, (RS d true kind start st acc).st.calls = st.calls
def DcM (RM : RMT) : Prop := ∀ d start ns st ks vs, (RM d true start ns st ks vs).st.calls = st.calls
def Dc4 (R : R4T) : Prop := ∀ d start st, (R d true start st).st.calls = st.calls

theorem rvStep_calls (ctx : Ctx) {RV : RVT} {RS : RST} {RM : RMT} {RN RT RMe : R4T}
    (hV : DcV RV) (hS : DcS RS) (hM : DcM RM) (hN : Dc4 RN) (hT : Dc4 RT) (hMe : Dc4 RMe)
    (d : Nat) (calls : List Call) (c : UInt8) (cs : Bytes) :
    (rvStep ctx RV RS RM RN RT RMe d true calls c cs).st.calls = calls := by
  unfold rvStep
  simp only []
  obtain ⟨l1, l2, l3, l4, l5⟩ := leaf_calls ctx { rest := c :: cs, calls := calls }
  cases hdisp : dispatch ctx.cfg c with
  | string => exact l1
  | character => exact l2
  | listOpen =>
    simp only []
    split
    · rfl
    · exact hS ..
  | vectorOpen =>
    simp only []
    split
    · rfl
    · exact hS ..
  | mapOpen =>
    simp only []
    split
    · rfl
    · exact hM ..
  | hash =>
    simp only []
    cases cs with
    | nil => exact hT ..
    | cons nx cs' =>
      simp only []
      split
      · exact l4
      split
      · rfl
      split
      · exact hS ..
      split
      · have h1 := hV (d + 1) { rest := cs', calls := calls }
        cases hr : RV (d + 1) true { rest := cs', calls := calls } with
        | ok v st' =>
          rw [hr] at h1; simp only [Res.st] at h1
          simp only []
          rw [hV d st', h1]
        | closer st' =>
          rw [hr] at h1; exact h1
        | err e st' =>
          rw [hr] at h1; exact h1
      split
      · exact hN ..
      · exact hT ..
  | sign =>
    simp only []
    cases cs with
    | nil => exact l3
    | cons nx t =>
      simp only []
      split
      · exact l5
      · exact l3
  | digit => exact l5
  | delimiter =>
    simp only []
    split
    · rfl
    · rfl
  | metadata =>
    simp only []
    split
    · rfl
    · exact hMe ..
  | identifier => exact l3

theorem rvOuter_calls (ctx : Ctx) {RV : RVT} {RS : RST} {RM : RMT} {RN RT RMe : R4T}
    (hV : DcV RV) (hS : DcS RS) (hM : DcM RM) (hN : Dc4 RN) (hT : Dc4 RT) (hMe : Dc4 RMe)
    (d : Nat) (st : St) :
    (rvOuter ctx RV RS RM RN RT RMe d true st).st.calls = st.calls := by
  unfold rvOuter
  cases hs : st.rest with
  | nil => rfl
  | cons c0 t =>
    simp only []
    cases hw : (if isPreWs c0 = true then skipWs (c0 :: t) else c0 :: t) with
    | nil => rfl
    | cons c cs =>
      simp only []
      exact rvStep_calls ctx hV hS hM hN hT hMe d st.calls c cs

theorem rsStep_calls (ctx : Ctx) {RV : RVT} {RS : RST} (hV : DcV RV) (hS : DcS RS)
    (d : Nat) (kind start : Nat) (st : St) (acc : List Val) :
    (rsStep ctx RV RS d true kind start st acc).st.calls = st.calls := by
  unfold rsStep
  have h1 := hV (d + 1) st
  cases hr : RV (d + 1) true st with
  | ok v st' =>
    rw [hr] at h1; simp only [Res.st] at h1
    simp only []
    rw [hS d kind start st' (v :: acc), h1]
  | err e st' =>
    rw [hr] at h1
    simp only []
    split <;> exact h1
  | closer st' =>
    rw [hr] at h1; simp only [Res.st] at h1
    simp only []
    cases hs : st'.rest with
    | nil => exact h1
    | cons c r =>
      simp only []
      repeat' split
      all_goals exact h1

theorem rmStep_calls (ctx : Ctx) {RV : RVT} {RM : RMT} (hV : DcV RV) (hM : DcM RM)
    (d : Nat) (start : Nat) (ns : Option Bytes) (st : St) (ks vs : List Val) :
    (rmStep ctx RV RM d true start ns st ks vs).st.calls = st.calls := by
  unfold rmStep
  simp only []
  have h1 := hV (d + 1) st
  cases hr : RV (d + 1) true st with
  | ok k st' =>
    rw [hr] at h1; simp only [Res.st] at h1
    simp only []
    have h2 := hV (d + 1) st'
    cases hr2 : RV (d + 1) true st' with
    | ok v st'' =>
      rw [hr2] at h2; simp only [Res.st] at h2
      simp only []
      rw [hM, h2, h1]
    | err e st'' =>
      rw [hr2] at h2; simp only [Res.st] at h2
      simp only []
      split <;> (simp only [Res.st]; rw [h2, h1])
    | closer st'' =>
      rw [hr2] at h2; simp only [Res.st] at h2
      simp only [Res.st]; rw [h2, h1]
  | err e st' =>
    rw [hr] at h1
    simp only []
    split <;> exact h1
  | closer st' =>
    rw [hr] at h1; simp only [Res.st] at h1
    simp only []
    cases hs : st'.rest with
    | nil => exact h1
    | cons c r =>
      simp only []
      repeat' split
      all_goals exact h1

theorem rnStep_calls (ctx : Ctx) {RV : RVT} {RM : RMT} (hV : DcV RV) (hM : DcM RM)
    (d : Nat) (start : Nat) (st : St) :
    (rnStep ctx RV RM d true start st).st.calls = st.calls := by
  unfold rnStep
  have h1 := hV d st
  cases hr : RV d true st with
  | closer st' => rw [hr] at h1; exact h1
  | err e st' => rw [hr] at h1; exact h1
  | ok kwv st' =>
    rw [hr] at h1; simp only [Res.st] at h1
    simp only []
    split
    · rename_i name
      split
      · rename_i c r heq
        split
        · rw [hM]; exact h1
        · exact h1
      · exact h1
    · exact h1

theorem rtStep_calls (ctx : Ctx) {RV : RVT} (hV : DcV RV)
    (d : Nat) (start : Nat) (st : St) :
    (rtStep ctx RV d true start st).st.calls = st.calls := by
  unfold rtStep
  simp only []
  split
  · rfl
  · split
    · rfl
    · have h1 := (leaf_calls ctx st).2.2.1
      cases hr : readIdentifier ctx st with
      | closer st' => rw [hr] at h1; exact h1
      | err e st' => rw [hr] at h1; exact h1
      | ok tagv st' =>
        rw [hr] at h1; simp only [Res.st] at h1
        simp only []
        split
        · have h2 := hV (d + 1) st'
          cases hr2 : RV (d + 1) true st' with
          | closer st'' => rw [hr2] at h2; simp only [Res.st] at h2 ⊢; rw [h2, h1]
          | err e st'' => rw [hr2] at h2; simp only [Res.st] at h2 ⊢; rw [h2, h1]
          | ok v st'' =>
            rw [hr2] at h2; simp only [Res.st] at h2
            simp only [↓reduceIte]
            split <;> (simp only [Res.st]; rw [h2, h1])
        · exact h1

theorem rmeStep_calls (ctx : Ctx) {RV : RVT} (hV : DcV RV)
    (d : Nat) (start : Nat) (st : St) :
    (rmeStep ctx RV d true start st).st.calls = st.calls := by
  unfold rmeStep
  simp only []
  have h1 := hV (d + 1) st
  cases hr : RV (d + 1) true st with
  | closer st' => rw [hr] at h1; exact h1
  | err e st' => rw [hr] at h1; exact h1
  | ok m st' =>
    rw [hr] at h1; simp only [Res.st] at h1
    simp only []
    split
    · exact h1
    · have h2 := hV (d + 1) st'
      cases hr2 : RV (d + 1) true st' with
      | closer st'' => rw [hr2] at h2; simp only [Res.st] at h2 ⊢; rw [h2, h1]
      | err e st'' => rw [hr2] at h2; simp only [Res.st] at h2 ⊢; rw [h2, h1]
      | ok form st'' =>
        rw [hr2] at h2; simp only [Res.st] at h2
        simp only []
        split <;> (simp only [Res.st]; rw [h2, h1])

theorem reader_discard_calls (ctx : Ctx) : ∀ (f : Nat),
    DcV (readValue ctx f) ∧ DcS (readSeq ctx f) ∧ DcM (readMap ctx f) ∧ Dc4 (readNsMap ctx f) ∧
    Dc4 (readTagged ctx f) ∧ Dc4 (readMeta ctx f) := by
  intro f
  induction f with
  | zero =>
    refine ⟨?_, ?_, ?_, ?_, ?_, ?_⟩
    · intro d st; rw [readValue_zero]; rfl
    · intro d kind start st acc; rw [readSeq_zero]; rfl
    · intro d start ns st ks vs; rw [readMap_zero]; rfl
    · intro d start st; rw [readNsMap_zero]; rfl
    · intro d start st; rw [readTagged_zero]; rfl
    · intro d start st; rw [readMeta_zero]; rfl
  | succ f ih =>
    obtain ⟨hV, hS, hM, hN, hT, hMe⟩ := ih
    refine ⟨?_, ?_, ?_, ?_, ?_, ?_⟩
    · intro d st; rw [readValue_succ]; exact rvOuter_calls ctx hV hS hM hN hT hMe d st
    · intro d kind start st acc; rw [readSeq_succ]; exact rsStep_calls ctx hV hS ..
    · intro d start ns st ks vs; rw [readMap_succ]; exact rmStep_calls ctx hV hM ..
    · intro d start st; rw [readNsMap_succ]; exact rnStep_calls ctx hV hM ..
    · intro d start st; rw [readTagged_succ]; exact rtStep_calls ctx hV ..
    · intro d start st; rw [readMeta_succ]; exact rmeStep_calls ctx hV ..

end Edn.Proofs
