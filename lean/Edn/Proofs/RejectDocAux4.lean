/-
  Edn.Proofs.RejectDocAux4 — C10, whole documents: the innermost frame of a defect (a collection
  closed by the wrong delimiter or not at all, a map with an odd number of forms, a tag or a
  discard marker in front of a closing delimiter), and the passage from `readValue` to `read`.
-/
import Edn.Proofs.RejectDocAux3

namespace Edn.Proofs.RejectDoc
open Edn.Model Edn.Spec Edn.Generated Edn.Proofs Edn.Proofs.Cmpl

/-! ## grammar facts -/

theorem Forms.mono {k n : Nat} {body after : Bytes} (h : Forms k n body after) (k' : Nat) (hk : k ≤ k') :
    Forms k' n body after := by
  induction h with
  | nil after => exact .nil k' after
  | cons n a tok body after hf _ ih => exact .cons k' n a tok body after (Snd.form_mono hf k' hk) ih

/-- blanks and discarded forms (`Edn.Spec.Trail`) are a flat context that stays at its depth -/
theorem trail_desc : ∀ {k : Nat} {tr after : Bytes}, Trail k tr after → ∀ (d : Nat) (dm : Bool),
    d + k ≤ Tables.maxNestingDepth → Desc after false d dm tr d dm
  | _, _, _, .blank k tr after ht, d, dm, _ => by
    have := Desc.blank (s := after) false d dm tr [] d dm ht (.here false d dm)
    simpa using this
  | _, _, _, .discard k b tr tok tr' after ht hd hr, d, dm, hk =>
    .blank false d dm tr _ d dm ht
      (.skip false d dm k b tok tr' d dm (by omega) hd (trail_desc hr d dm hk))

/-! ## the end of the input -/

/-- what may be left when the input ends where a form is expected: blanks and comments (the
    last one possibly unclosed), or those followed by a lone `#` -/
inductive EofSite : Bytes → Prop
  | blank (s : Bytes) (h : skipWsScalar s = []) : EofSite s
  | hash (tr : Bytes) (ht : Blank tr) : EofSite (tr ++ [0x23])

theorem EofSite.err (opts : Opts) (d : Nat) (dm : Bool) {s : Bytes} (h : EofSite s) :
    ∃ e, SiteErr opts d dm s e [] ∧ e.code = .unexpectedEof ∧ e.fuelOut = false ∧
      (e.eofTop = true → d = 0 ∧ skipWsScalar s = []) ∧ (e.eofTop = false → e.es.getD 0 ≤ 1 ∧ e.ee.getD 0 = 0) := by
  cases h with
  | blank s h =>
    refine ⟨eofE d, site_eof opts d dm s h, rfl, rfl, ?_, ?_⟩
    · intro ht
      simp only [eofE, beq_iff_eq] at ht
      exact ⟨ht, h⟩
    · intro _; exact ⟨Nat.zero_le _, rfl⟩
  | hash tr ht =>
    refine ⟨_, site_hash opts d dm tr ht, rfl, rfl, ?_, ?_⟩
    · intro h; cases h
    · intro _; exact ⟨Nat.le_refl _, rfl⟩

/-! ## the innermost frame -/

/-- input ending inside a collection: UNTERMINATED_COLLECTION from the opening delimiter of the
    *innermost* open collection to the end of the input -/
theorem frame_eof (opts : Opts) (hreg : opts.registry = none) (d : Nat) (dm : Bool) (kind k n : Nat) (body pre2 s2 : Bytes)
    (d2 : Nat) (dm2 : Bool)
    (hd : d + 1 + k ≤ Tables.maxNestingDepth) (hb : Forms k n body (pre2 ++ s2))
    (hflat : Desc s2 false (d + 1) dm pre2 d2 dm2) (hs : EofSite s2) :
    SiteErr opts d dm (opener kind ++ (body ++ (pre2 ++ s2)))
      (mkErr .unterminatedCollection (some (opener kind ++ (body ++ (pre2 ++ s2))).length) (some 0)) [] := by
  obtain ⟨e, h1, h2, h3, -⟩ := hs.err opts d2 dm2
  have := site_of_elem opts hreg d dm kind k n body (pre2 ++ s2) hd hb e [] (desc_err opts hreg hflat e [] h1 (Or.inl rfl))
  rw [loopErr_eof h2 h3] at this
  exact this

/-- a list, vector or set closed by the wrong delimiter -/
theorem frame_mismatch_seq (opts : Opts) (hreg : opts.registry = none) (d : Nat) (dm : Bool) (kind k n : Nat) (body tr : Bytes)
    (c : UInt8) (rest : Bytes) (hkind : kind < 3)
    (hd : d + 1 + k ≤ Tables.maxNestingDepth) (hb : Forms k n body (tr ++ c :: rest))
    (ht : Trail k tr (c :: rest)) (hc : IsCloser c) (hne : c ≠ closerByte kind) :
    SiteErr opts d dm (opener kind ++ (body ++ (tr ++ c :: rest)))
      (mkErr .unmatchedDelimiter (some (opener kind ++ (body ++ (tr ++ c :: rest))).length) (some rest.length)) (c :: rest) := by
  apply site_of_loopS opts d dm kind hkind _ _ _ (by omega)
  apply rs_forms opts hreg hb d dm kind _ hd
  exact loopS_of_closer opts d dm kind _ tr c rest (trail_reads opts hreg ht c rest rfl hc d hd) hne

/-- a map with an even number of forms closed by `)` or `]` -/
theorem frame_mismatch_map (opts : Opts) (hreg : opts.registry = none) (d : Nat) (dm : Bool) (kind k m : Nat) (body tr : Bytes)
    (c : UInt8) (rest : Bytes) (hkind : 3 ≤ kind)
    (hd : d + 1 + k ≤ Tables.maxNestingDepth) (hb : Forms k (2 * m) body (tr ++ c :: rest))
    (ht : Trail k tr (c :: rest)) (hc : IsCloser c) (hne : c ≠ 0x7D) :
    SiteErr opts d dm (opener kind ++ (body ++ (tr ++ c :: rest)))
      (mkErr .unmatchedDelimiter (some (opener kind ++ (body ++ (tr ++ c :: rest))).length) (some rest.length)) (c :: rest) := by
  apply site_of_loopM opts d dm kind hkind _ _ _ (by omega)
  apply rm_forms opts hreg k _ d dm _ hd _ _ _ m body hb
  exact loopM_of_closer opts d dm _ tr c rest (trail_reads opts hreg ht c rest rfl hc d hd) hne

/-- a map with an odd number of forms, closed by any closing delimiter: INVALID_SYNTAX from the
    opening brace to the closing delimiter -/
theorem frame_odd_map (opts : Opts) (hreg : opts.registry = none) (d : Nat) (dm : Bool) (kind k m : Nat) (body tr : Bytes)
    (c : UInt8) (rest : Bytes) (hkind : 3 ≤ kind)
    (hd : d + 1 + k ≤ Tables.maxNestingDepth) (hb : Forms k (2 * m + 1) body (tr ++ c :: rest))
    (ht : Trail k tr (c :: rest)) (hc : IsCloser c) :
    SiteErr opts d dm (opener kind ++ (body ++ (tr ++ c :: rest)))
      (mkErr .invalidSyntax (some (opener kind ++ (body ++ (tr ++ c :: rest))).length) (some (rest.length + 1))) (c :: rest) := by
  apply site_of_loopM opts d dm kind hkind _ _ _ (by omega)
  obtain ⟨body1, tok, a, rfl, h1, h2⟩ := hb.snoc
  rw [List.append_assoc]
  apply rm_forms opts hreg k _ d dm _ hd _ _ _ m body1 h1
  exact loopM_of_closer2 opts hreg d dm _ tr c rest h2 hd (trail_reads opts hreg ht c rest rfl hc d hd)

/-- `#tag` followed (after blanks and discarded forms) by a closing delimiter -/
theorem frame_tag_closer (opts : Opts) (hreg : opts.registry = none) (d : Nat) (dm : Bool) (tg : Bytes) (ns : Option Bytes) (nm : Bytes)
    (k : Nat) (tr : Bytes) (c : UInt8) (rest : Bytes)
    (hd : d + 1 + k ≤ Tables.maxNestingDepth) (hl : IdentLex tg) (hden : IdentDenotes tg (.sym hdr0 none ns nm))
    (hu : tg.head? ≠ some 0x5F) (ht : Trail k tr (c :: rest)) (hc : IsCloser c) :
    SiteErr opts d dm (0x23 :: (tg ++ (tr ++ c :: rest)))
      (mkErr .invalidSyntax (some ((tg ++ (tr ++ c :: rest)).length + 1)) (some (rest.length + 1))) (c :: rest) :=
  site_tag_closer opts hreg d dm tg ns nm tr c rest (by omega) hl hden hu (trail_delimStart ht hc)
    (trail_reads opts hreg ht c rest rfl hc d hd)

/-- `#_` followed (after blanks and discarded forms) by a closing delimiter -/
theorem frame_discard_closer (opts : Opts) (hreg : opts.registry = none) (d : Nat) (dm : Bool)
    (k : Nat) (tr : Bytes) (c : UInt8) (rest : Bytes)
    (hd : d + 1 + k ≤ Tables.maxNestingDepth) (ht : Trail k tr (c :: rest)) (hc : IsCloser c) :
    SiteErr opts d dm (0x23 :: 0x5F :: (tr ++ c :: rest))
      (mkErr .invalidDiscard (some ((tr ++ c :: rest).length + 2)) (some (tr ++ c :: rest).length)) (c :: rest) :=
  site_discard_closer opts d dm tr c rest (by omega) (trail_reads opts hreg ht c rest rfl hc d hd)

/-! ## from `readValue` to `read` -/

/-- offset, line and column of an absolute offset, as `edn_read` reports it -/
def posOf (input : Bytes) (off : Nat) : Pos :=
  let p := linePos (lfPositions input).toArray off
  ⟨off, p.1, p.2⟩

theorem posOf_offset (input : Bytes) (off : Nat) : (posOf input off).offset = off := rfl

/-- an error of the top-level `readValue` that is not the end-of-input answer is `read`'s error -/
theorem read_of_site (opts : Opts) (input : Bytes) (e : ErrInfo) (r : Bytes)
    (h : SiteErr opts 0 false input e r) (hf : e.fuelOut = false)
    (hn : (e.code == .unexpectedEof && e.eofTop && opts.eofValue) = false) :
    (read Cfg.core opts input).out =
      .error e.code (posOf input (input.length - e.es.getD r.length)) (posOf input (input.length - e.ee.getD r.length)) := by
  unfold Edn.Model.read
  simp only []
  rw [h [] (readFuel input) (by simp only [readFuel]; omega)]
  simp only [hf, hn, Bool.false_eq_true, ↓reduceIte]
  rfl

theorem read_of_site_eofValue (opts : Opts) (input : Bytes) (e : ErrInfo) (r : Bytes)
    (h : SiteErr opts 0 false input e r) (hf : e.fuelOut = false)
    (hn : (e.code == .unexpectedEof && e.eofTop && opts.eofValue) = true) :
    (read Cfg.core opts input).out = .eofValue := by
  unfold Edn.Model.read
  simp only []
  rw [h [] (readFuel input) (by simp only [readFuel]; omega)]
  simp only [hf, hn, Bool.false_eq_true, ↓reduceIte]

/-- **The first defect decides the class**: an error `e` (other than the end of the input, when
    collections are open) raised at the end of an open context `pre` is the error `edn_read`
    reports for `pre ++ s`, with `e`'s code and range -/
theorem doc_err (opts : Opts) (hreg : opts.registry = none) {s : Bytes} {c : Bool} {pre : Bytes} {d : Nat} {dm : Bool}
    (h : Desc s c 0 false pre d dm) (e : ErrInfo) (r : Bytes)
    (hs : SiteErr opts d dm s e r) (hc : c = false ∨ e.code ≠ .unexpectedEof) (hf : e.fuelOut = false)
    (hn : (e.code == .unexpectedEof && e.eofTop && opts.eofValue) = false) :
    (read Cfg.core opts (pre ++ s)).out =
      .error e.code (posOf (pre ++ s) ((pre ++ s).length - e.es.getD r.length))
        (posOf (pre ++ s) ((pre ++ s).length - e.ee.getD r.length)) :=
  read_of_site opts (pre ++ s) e r (desc_err opts hreg h e r hs hc) hf hn

end Edn.Proofs.RejectDoc
