/-
  Edn.Proofs.RejectDocClj2 — the transport theorem for `DescClj` ("the first defect decides the
  class", every configuration with the Clojure flag), and the one-step equations of the metadata
  reader it is assembled from.
-/
import Edn.Proofs.RejectDocClj1

namespace Edn.Proofs.RejectDocClj
open Edn.Model Edn.Spec Edn.Generated Edn.Proofs Edn.Proofs.Cmpl Edn.Proofs.RejectDoc Edn.Proofs.RejectDocX

/-! ## one step of the metadata reader -/

/-- `^` in front of `x`: the annotation is read one level deeper; its error is the marker's error -/
theorem rv_metaAnn_err (ctx : Ctx) (hclj : ctx.cfg.clj = true) (f d : Nat) (dm : Bool) (x : Bytes) (cl : List Call)
    (hd : d < Tables.maxNestingDepth) (e : ErrInfo) (st' : St)
    (h : readValue ctx f (d + 1) dm { rest := x, calls := cl } = .err e st') :
    readValue ctx (f + 2) d dm { rest := 0x5E :: x, calls := cl } = .err e st' := by
  rw [CmplX.readValue_metaOpen ctx hclj (f + 1) d dm x cl hd, readMeta_succ]
  unfold rmeStep
  simp only [h]

/-- `^` in front of a closing delimiter -/
theorem rv_metaAnn_closer (ctx : Ctx) (hclj : ctx.cfg.clj = true) (f d : Nat) (dm : Bool) (x : Bytes) (cl : List Call)
    (hd : d < Tables.maxNestingDepth) (st' : St)
    (h : readValue ctx f (d + 1) dm { rest := x, calls := cl } = .closer st') :
    readValue ctx (f + 2) d dm { rest := 0x5E :: x, calls := cl } =
      .err (mkErr .invalidSyntax (some (x.length + 1)) (some st'.rest.length)) st' := by
  rw [CmplX.readValue_metaOpen ctx hclj (f + 1) d dm x cl hd, readMeta_succ]
  unfold rmeStep
  simp only [h, Ctx.pos]

/-- `^x` where `x` is read as a value that is not of an annotation kind -/
theorem rv_metaAnn_bad (ctx : Ctx) (hclj : ctx.cfg.clj = true) (f d : Nat) (dm : Bool) (x : Bytes) (cl : List Call)
    (hd : d < Tables.maxNestingDepth) (m : Val) (st' : St)
    (h : readValue ctx f (d + 1) dm { rest := x, calls := cl } = .ok m st') (hm : metaEntries m = none) :
    readValue ctx (f + 2) d dm { rest := 0x5E :: x, calls := cl } =
      .err (mkErr .invalidSyntax (some (x.length + 1)) (some st'.rest.length)) st' := by
  rw [CmplX.readValue_metaOpen ctx hclj (f + 1) d dm x cl hd, readMeta_succ]
  unfold rmeStep
  simp only [h, hm, Ctx.pos]

/-- `^ann` in front of `x`: what the marker makes of the target's outcome -/
theorem rv_metaTgt_eq (ctx : Ctx) (hclj : ctx.cfg.clj = true) (f d : Nat) (dm : Bool) (tokm x : Bytes) (cl : List Call)
    (hd : d < Tables.maxNestingDepth) (m : Val) (nks nvs : List Val)
    (h : readValue ctx f (d + 1) dm { rest := tokm ++ x, calls := cl } = .ok m { rest := x, calls := cl })
    (hm : metaEntries m = some (nks, nvs)) :
    readValue ctx (f + 2) d dm { rest := 0x5E :: (tokm ++ x), calls := cl } =
      match readValue ctx f (d + 1) dm { rest := x, calls := cl } with
      | .closer st'' => .err (mkErr .invalidSyntax (some ((tokm ++ x).length + 1)) (some st''.rest.length)) st''
      | .err e st'' => .err e st''
      | .ok form st'' =>
        if !form.metaTarget then .err (mkErr .invalidSyntax (some ((tokm ++ x).length + 1)) (some st''.rest.length)) st''
        else .ok ((attachMeta ctx.cfg m form nks nvs).setHdr { (attachMeta ctx.cfg m form nks nvs).hdr with s := (tokm ++ x).length + 1 }) st'' := by
  rw [CmplX.readValue_metaOpen ctx hclj (f + 1) d dm _ cl hd, readMeta_succ]
  unfold rmeStep
  simp only [h, hm, Ctx.pos]
  cases readValue ctx f (d + 1) dm { rest := x, calls := cl } <;> rfl

/-- a complete annotation of an annotation kind is read as one -/
theorem ann_read_at (cfg : Cfg) (opts : Opts) (hreg : opts.registry = none) {k : Nat} {am : Val} {nks nvs : List Val} {tokm rest : Bytes}
    (h : FX cfg k am tokm rest) (he : metaEntriesC am = some (nks, nvs))
    (d : Nat) (hd : d + k ≤ Tables.maxNestingDepth) (dm : Bool) (cl : List Call) (f : Nat)
    (hf : 2 * (tokm ++ rest).length + 2 ≤ f) :
    ∃ m nks' nvs', readValue (xctx cfg opts) f d dm { rest := tokm ++ rest, calls := cl } = .ok m { rest := rest, calls := cl } ∧
      metaEntries m = some (nks', nvs') := by
  obtain ⟨m, hm, hs⟩ := formX_read_at cfg opts hreg h d hd dm cl f hf
  subst hs
  obtain ⟨nks', nvs', hme, -, -⟩ := CmplX.metaEntries_of_C he
  exact ⟨m, nks', nvs', hm, hme⟩

/-! ## the transport theorem -/

/-- an error of the open element of a collection, after `n` complete forms, as the error of
    the collection: hard errors unchanged, the end of the input as UNTERMINATED_COLLECTION -/
theorem siteX_of_elem (cfg : Cfg) (opts : Opts) (hreg : opts.registry = none) (d : Nat) (dm : Bool) (kind k n : Nat) (body x : Bytes)
    (hd : d + 1 + k ≤ Tables.maxNestingDepth) (hb : FormsX cfg k n body x) (e : ErrInfo) (r : Bytes)
    (h : SiteErrX cfg opts (d + 1) dm x e r) :
    SiteErrX cfg opts d dm (opener kind ++ (body ++ x)) (loopErr (opener kind ++ (body ++ x)).length e r) r := by
  by_cases hk : kind < 3
  · apply siteX_of_loopS cfg opts d dm kind hk _ _ _ (by omega)
    exact rs_formsX cfg opts hreg hb d dm kind _ hd _ _ (loopSX_of_site cfg opts d dm kind _ x e r h)
  · apply siteX_of_loopM cfg opts d dm kind (by omega) _ _ _ (by omega)
    obtain ⟨m, rfl | rfl⟩ : ∃ m, n = 2 * m ∨ n = 2 * m + 1 := ⟨n / 2, by omega⟩
    · exact rm_formsX cfg opts hreg k x d dm _ none hd _ _ (loopMX_of_site cfg opts d dm _ none x e r h) m body hb
    · obtain ⟨body1, tok, a, rfl, h1, h2⟩ := hb.snoc
      rw [List.append_assoc]
      exact rm_formsX cfg opts hreg k (tok ++ x) d dm _ none hd _ _ (loopMX_of_site2 cfg opts hreg d dm _ none h2 hd e r h) m body1 h1

/-- the same for the body of a namespaced map -/
theorem siteX_of_nsElem (cfg : Cfg) (opts : Opts) (hreg : opts.registry = none) (hclj : cfg.clj = true) (d : Nat) (dm : Bool)
    (name tr : Bytes) (k n : Nat) (body x : Bytes)
    (hd : d + 1 + k ≤ Tables.maxNestingDepth)
    (hl : IdentLex (0x3A :: name)) (hden : IdentDenotes (0x3A :: name) (.kw hdr0 none name)) (ht : Blank tr)
    (hb : FormsX cfg k n body x) (e : ErrInfo) (r : Bytes)
    (h : SiteErrX cfg opts (d + 1) dm x e r) :
    SiteErrX cfg opts d dm (0x23 :: 0x3A :: (name ++ (tr ++ 0x7B :: (body ++ x))))
      (loopErr (0x23 :: 0x3A :: (name ++ (tr ++ 0x7B :: (body ++ x)))).length e r) r := by
  apply siteX_of_loopNs cfg opts hclj d dm name tr _ _ _ (by omega) hl hden ht
  obtain ⟨m, rfl | rfl⟩ : ∃ m, n = 2 * m ∨ n = 2 * m + 1 := ⟨n / 2, by omega⟩
  · exact rm_formsX cfg opts hreg k x d dm _ (some name) hd _ _ (loopMX_of_site cfg opts d dm _ (some name) x e r h) m body hb
  · obtain ⟨body1, tok, a, rfl, h1, h2⟩ := hb.snoc
    rw [List.append_assoc]
    exact rm_formsX cfg opts hreg k (tok ++ x) d dm _ (some name) hd _ _
      (loopMX_of_site2 cfg opts hreg d dm _ (some name) h2 hd e r h) m body1 h1

/-- **Transport.**  Through a flat context (blanks, discarded forms, open discard markers, tags
    and metadata markers) every error arrives unchanged; through opened collections and
    namespaced maps every error but UNEXPECTED_EOF does. -/
theorem descClj_err (cfg : Cfg) (hclj : cfg.clj = true) (opts : Opts) (hreg : opts.registry = none)
    {s : Bytes} {c : Bool} {d : Nat} {dm : Bool} {pre : Bytes}
    {d' : Nat} {dm' : Bool} (h : DescClj cfg s c d dm pre d' dm') (e : ErrInfo) (r : Bytes)
    (hs : SiteErrX cfg opts d' dm' s e r) (hc : c = false ∨ e.code ≠ .unexpectedEof) :
    SiteErrX cfg opts d dm (pre ++ s) e r := by
  induction h with
  | here c d dm => simpa using hs
  | blank c d dm tr pre d' dm' ht _ ih =>
    intro cl f hf
    match f, hf with
    | f + 1, hf =>
      rw [List.append_assoc, readValue_trivia_prefix _ f d dm tr _ cl (blank_toPlain ht)]
      exact ih hs hc cl (f + 1) (by simp only [List.length_append] at hf ⊢; omega)
  | skip c d dm k b tok pre d' dm' hd hf _ ih =>
    intro cl f hfu
    have e1 : (0x23 :: 0x5F :: (tok ++ pre)) ++ s = 0x23 :: 0x5F :: (tok ++ (pre ++ s)) := by simp
    rw [e1] at hfu ⊢
    simp only [List.length_cons, List.length_append] at hfu
    match f, hfu with
    | f + 1, hfu =>
      obtain ⟨v, hv, -⟩ := formX_read_at cfg opts hreg hf (d + 1) (by omega) true cl f (by simp only [List.length_append]; omega)
      rw [(discard_is_trivia (xctx cfg opts) f d dm tok (pre ++ s) cl cl v (by omega) hv).2]
      exact ih hs hc cl f (by simp only [List.length_append]; omega)
  | discard c d dm pre d' dm' hd _ ih =>
    intro cl f hfu
    simp only [List.cons_append, List.length_cons, List.length_append] at hfu ⊢
    match f, hfu with
    | f + 1, hfu =>
      rw [rv_discard_eq _ f d dm _ cl hd, ih hs hc cl f (by simp only [List.length_append]; omega)]
  | tag c d dm tg ns nm pre d' dm' hd hl hden hu hsep _ ih =>
    intro cl f hfu
    have e1 : (0x23 :: (tg ++ pre)) ++ s = 0x23 :: (tg ++ (pre ++ s)) := by simp
    rw [e1] at hfu ⊢
    have hp : 0 < tg.length := List.length_pos_iff.mpr hl.1
    simp only [List.length_cons, List.length_append] at hfu
    match f, hfu with
    | f + 2, hfu =>
      rw [rv_tag_eq (xctx cfg opts) hreg f d dm tg ns nm (pre ++ s) cl hd hl hden hu hsep,
        ih hs hc cl f (by simp only [List.length_append]; omega)]
  | coll d dm kind k n body pre d' dm' hd hb _ ih =>
    have hne : e.code ≠ .unexpectedEof := by
      rcases hc with hc | hc
      · cases hc
      · exact hc
    have := siteX_of_elem cfg opts hreg d dm kind k n body (pre ++ s) hd hb e r (ih hs (Or.inr hne))
    rw [loopErr_hard hne] at this
    rw [coll_assoc]
    exact this
  | metaAnn c d dm pre d' dm' hd _ ih =>
    intro cl f hfu
    simp only [List.cons_append, List.length_cons, List.length_append] at hfu ⊢
    match f, hfu with
    | f + 2, hfu =>
      exact rv_metaAnn_err (xctx cfg opts) hclj f d dm _ cl hd e _
        (ih hs hc cl f (by simp only [List.length_append]; omega))
  | metaTgt c d dm k am nks nvs tokm pre d' dm' hd hm he _ ih =>
    intro cl f hfu
    have e1 : (0x5E :: (tokm ++ pre)) ++ s = 0x5E :: (tokm ++ (pre ++ s)) := by simp
    rw [e1] at hfu ⊢
    simp only [List.length_cons, List.length_append] at hfu
    match f, hfu with
    | f + 2, hfu =>
      obtain ⟨m, nks', nvs', hmr, hme⟩ := ann_read_at cfg opts hreg hm he (d + 1) (by omega) dm cl f
        (by simp only [List.length_append]; omega)
      rw [rv_metaTgt_eq (xctx cfg opts) hclj f d dm tokm (pre ++ s) cl (by omega) m nks' nvs' hmr hme,
        ih hs hc cl f (by simp only [List.length_append]; omega)]
  | nsBody d dm name tr k n body pre d' dm' hd hl hden ht hb _ ih =>
    have hne : e.code ≠ .unexpectedEof := by
      rcases hc with hc | hc
      · cases hc
      · exact hc
    have := siteX_of_nsElem cfg opts hreg hclj d dm name tr k n body (pre ++ s) hd hl hden ht hb e r (ih hs (Or.inr hne))
    rw [loopErr_hard hne] at this
    have e1 : (0x23 :: 0x3A :: (name ++ (tr ++ 0x7B :: (body ++ pre)))) ++ s =
        0x23 :: 0x3A :: (name ++ (tr ++ 0x7B :: (body ++ (pre ++ s)))) := by simp
    rw [e1]
    exact this

/-! ## top level -/

/-- an error of the top-level `readValue` that is not the end-of-input answer is `read`'s error -/
theorem readX_of_site (cfg : Cfg) (opts : Opts) (input : Bytes) (e : ErrInfo) (r : Bytes)
    (h : SiteErrX cfg opts 0 false input e r) (hf : e.fuelOut = false)
    (hn : (e.code == .unexpectedEof && e.eofTop && opts.eofValue) = false) :
    (read cfg opts input).out =
      .error e.code (posOf input (input.length - e.es.getD r.length)) (posOf input (input.length - e.ee.getD r.length)) := by
  unfold Edn.Model.read
  simp only []
  rw [h [] (readFuel input) (by simp only [readFuel]; omega)]
  simp only [hf, hn, Bool.false_eq_true, ↓reduceIte]
  rfl

/-- **The first defect decides the class** (Clojure flag): an error `e` (other than the end of the
    input, when collections are open) raised at the end of an open context `pre` is the error
    `edn_read` reports for `pre ++ s`, with `e`'s code and range -/
theorem docClj_err (cfg : Cfg) (hclj : cfg.clj = true) (opts : Opts) (hreg : opts.registry = none)
    {s : Bytes} {c : Bool} {pre : Bytes} {d : Nat} {dm : Bool}
    (h : DescClj cfg s c 0 false pre d dm) (e : ErrInfo) (r : Bytes)
    (hs : SiteErrX cfg opts d dm s e r) (hc : c = false ∨ e.code ≠ .unexpectedEof) (hf : e.fuelOut = false)
    (hn : (e.code == .unexpectedEof && e.eofTop && opts.eofValue) = false) :
    (read cfg opts (pre ++ s)).out =
      .error e.code (posOf (pre ++ s) ((pre ++ s).length - e.es.getD r.length))
        (posOf (pre ++ s) ((pre ++ s).length - e.ee.getD r.length)) :=
  readX_of_site cfg opts (pre ++ s) e r (descClj_err cfg hclj opts hreg h e r hs hc) hf hn

end Edn.Proofs.RejectDocClj
