/-
  Edn.Proofs.AllocBoundAux2 — equality and hashing with lazily materialised payloads do not
  increase the potential `reqs + Psi N bufs` on well-named, decodable trees (`Good`): every request
  they make materialises a buffer that was not there before.
-/
import Edn.Proofs.AllocBoundAux1

namespace Edn.Proofs.AllocBound
open Edn.Model Edn.Proofs.AllocBasic

section
variable {N : Nat} {cfg : Cfg}

/-- a comparison that is free on good trees -/
abbrev FreeCmp (cfg : Cfg) (N : Nat) (p : Val → Val → ASt → Bool × ASt) : Prop :=
  ∀ u w a, Good cfg N u → Good cfg N w → a.arena = .alive → Stp N 0 a (p u w a).2

theorem anyA_stp (p : Val → Val → ASt → Bool × ASt) (hp : FreeCmp cfg N p) (v : Val) (ys : List Val) (a : ASt)
    (hv : Good cfg N v) (hys : GoodL cfg N ys) (ha : a.arena = .alive) : Stp N 0 a (anyA p v ys a).2 := by
  induction ys generalizing a with
  | nil => exact Stp.refl ha
  | cons y ys ih =>
    unfold anyA
    have h1 := hp v y a hv hys.head ha
    rcases hq : p v y a with ⟨r, a1⟩
    rw [hq] at h1
    cases r
    · exact h1.trans (ih a1 hys.tail h1.1)
    · exact h1

theorem allZipA_stp (p : Val → Val → ASt → Bool × ASt) (hp : FreeCmp cfg N p) (xs ys : List Val) (a : ASt)
    (hxs : GoodL cfg N xs) (hys : GoodL cfg N ys) (ha : a.arena = .alive) : Stp N 0 a (allZipA p xs ys a).2 := by
  induction xs generalizing ys a with
  | nil => cases ys <;> exact Stp.refl ha
  | cons v vs ih =>
    cases ys with
    | nil => exact Stp.refl ha
    | cons y ys =>
      unfold allZipA
      have h1 := hp v y a hxs.head hys.head ha
      rcases hq : p v y a with ⟨r, a1⟩
      rw [hq] at h1
      cases r
      · exact h1
      · exact h1.trans (ih ys a1 hxs.tail hys.tail h1.1)

theorem allAnyA_stp (p : Val → Val → ASt → Bool × ASt) (hp : FreeCmp cfg N p) (xs ys : List Val) (a : ASt)
    (hxs : GoodL cfg N xs) (hys : GoodL cfg N ys) (ha : a.arena = .alive) : Stp N 0 a (allAnyA p xs ys a).2 := by
  induction xs generalizing a with
  | nil => exact Stp.refl ha
  | cons v vs ih =>
    unfold allAnyA
    have h1 := anyA_stp p hp v ys a hxs.head hys ha
    rcases hq : anyA p v ys a with ⟨r, a1⟩
    rw [hq] at h1
    cases r
    · exact h1
    · exact h1.trans (ih a1 hxs.tail h1.1)

theorem mapEntryA_stp (p : Val → Val → ASt → Bool × ASt) (hp : FreeCmp cfg N p) (k v : Val) (ks vs : List Val) (a : ASt)
    (hk : Good cfg N k) (hv : Good cfg N v) (hks : GoodL cfg N ks) (hvs : GoodL cfg N vs) (ha : a.arena = .alive) :
    Stp N 0 a (mapEntryA p k v ks vs a).2 := by
  induction ks generalizing vs a with
  | nil => cases vs <;> exact Stp.refl ha
  | cons k' ks ih =>
    cases vs with
    | nil => exact Stp.refl ha
    | cons v' vs =>
      unfold mapEntryA
      have h1 := hp k k' a hk hks.head ha
      rcases hq : p k k' a with ⟨r, a1⟩
      rw [hq] at h1
      cases r
      · exact h1.trans (ih vs a1 hks.tail hvs.tail h1.1)
      · exact h1.trans (hp v v' a1 hv hvs.head h1.1)

theorem mapAllA_stp (p : Val → Val → ASt → Bool × ASt) (hp : FreeCmp cfg N p) (ks' vs' ks vs : List Val) (a : ASt)
    (hks' : GoodL cfg N ks') (hvs' : GoodL cfg N vs') (hks : GoodL cfg N ks) (hvs : GoodL cfg N vs)
    (ha : a.arena = .alive) : Stp N 0 a (mapAllA p ks' vs' ks vs a).2 := by
  induction ks generalizing vs a with
  | nil => cases vs <;> exact Stp.refl ha
  | cons k ks ih =>
    cases vs with
    | nil => exact Stp.refl ha
    | cons v vs =>
      unfold mapAllA
      have h1 := mapEntryA_stp p hp k v ks' vs' a hks.head hvs.head hks' hvs' ha
      rcases hq : mapEntryA p k v ks' vs' a with ⟨r, a1⟩
      rw [hq] at h1
      cases r
      · exact h1
      · exact h1.trans (ih vs a1 hks.tail hvs.tail h1.1)

end

section
variable {N : Nat} {x : ACtx} (horc : ∀ n, x.orc n = false)
include horc

theorem digitsEqA_stp (h h' : Hdr) (d d' : Bytes) (a : ASt) (ha : a.arena = .alive) (hs : h.s < N) (hs' : h'.s < N) :
    Stp N 0 a (digitsEqA x h d h' d' a).2 := by
  unfold digitsEqA
  have h1 := cleanA_stp (N := N) horc h d a ha hs
  rcases hq : cleanA x h d a with ⟨da, a1⟩
  rw [hq] at h1
  dsimp only
  have h2 := cleanA_stp (N := N) horc h' d' a1 h1.1 hs'
  rcases hq2 : cleanA x h' d' a1 with ⟨db, a2⟩
  rw [hq2] at h2
  exact h1.trans h2

theorem strEqA_stp (h h' : Hdr) (d d' : Bytes) (e e' : Bool) (a : ASt) (ha : a.arena = .alive)
    (g : Good x.ctx.cfg N (.str h d e)) (g' : Good x.ctx.cfg N (.str h' d' e')) :
    Stp N 0 a (strEqA x h d e h' d' e' a).2 := by
  unfold strEqA
  have h1 := strContentA_stp (N := N) horc h d e a ha g
  rcases hq : strContentA x h d e a with ⟨ca, a1⟩
  rw [hq] at h1
  dsimp only
  have h2 := strContentA_stp (N := N) horc h' d' e' a1 h1.1 g'
  rcases hq2 : strContentA x h' d' e' a1 with ⟨cb, a2⟩
  rw [hq2] at h2
  exact h1.trans h2

theorem equalFA_stp (f : Nat) : FreeCmp x.ctx.cfg N (equalFA x f) := by
  induction f with
  | zero => intro va vb a _ _ ha; exact Stp.refl ha
  | succ f ih =>
    intro va vb a ga gb ha
    unfold equalFA
    split
    · exact Stp.refl ha
    · split
      · exact Stp.refl ha
      · split
        all_goals first
          | exact Stp.refl ha
          | (repeat' split
             all_goals first
               | exact Stp.refl ha
               | exact digitsEqA_stp horc _ _ _ _ a ha (good_bigint ga) (good_bigint gb)
               | exact digitsEqA_stp horc _ _ _ _ a ha (good_bigdec ga) (good_bigdec gb)
               | exact strEqA_stp horc _ _ _ _ _ _ a ha ga gb
               | exact allZipA_stp _ ih _ _ a (good_list ga) (good_list gb) ha
               | exact allZipA_stp _ ih _ _ a (good_list ga) (good_vec gb) ha
               | exact allZipA_stp _ ih _ _ a (good_vec ga) (good_list gb) ha
               | exact allZipA_stp _ ih _ _ a (good_vec ga) (good_vec gb) ha
               | exact allAnyA_stp _ ih _ _ a (good_set ga) (good_set gb) ha
               | exact mapAllA_stp _ ih _ _ _ _ a (good_map_k gb) (good_map_v gb) (good_map_k ga) (good_map_v ga) ha
               | exact ih _ _ a (good_tagged ga) (good_tagged gb) ha)

theorem equalA_stp : FreeCmp x.ctx.cfg N (equalA x) := equalFA_stp horc _

theorem equalA_flip_stp : FreeCmp x.ctx.cfg N (fun e y => equalA x y e) :=
  fun u w a gu gw ha => equalA_stp horc w u a gw gu ha

theorem hash_stp :
    (∀ v a, Good x.ctx.cfg N v → a.arena = .alive → Stp N 0 a (hashVA x v a).2) ∧
    (∀ ks vs a, GoodL x.ctx.cfg N ks → GoodL x.ctx.cfg N vs → a.arena = .alive → Stp N 0 a (hashPairsA x ks vs a).2) ∧
    (∀ xs a, GoodL x.ctx.cfg N xs → a.arena = .alive → Stp N 0 a (hashListA x xs a).2) := by
  apply hashVA.mutual_induct x
    (fun v a => Good x.ctx.cfg N v → a.arena = .alive → Stp N 0 a (hashVA x v a).2)
    (fun ks vs a => GoodL x.ctx.cfg N ks → GoodL x.ctx.cfg N vs → a.arena = .alive → Stp N 0 a (hashPairsA x ks vs a).2)
    (fun xs a => GoodL x.ctx.cfg N xs → a.arena = .alive → Stp N 0 a (hashListA x xs a).2)
  case case1 =>
    intro h neg radix d a dd a1 e g ha; unfold hashVA; rw [e]
    have := cleanA_stp (N := N) horc h d a ha (good_bigint g); rw [e] at this; exact this
  case case2 =>
    intro h neg t a dd a1 e g ha; unfold hashVA; rw [e]
    have := cleanA_stp (N := N) horc h t a ha (good_bigdec g); rw [e] at this; exact this
  case case3 =>
    intro h data esc a c a1 e g ha; unfold hashVA; rw [e]
    have := strContentA_stp (N := N) horc h data esc a ha g; rw [e] at this; exact this
  case case4 => intro h md xs a hs a1 e ih g ha; unfold hashVA; rw [e]; rw [e] at ih; exact ih (good_list g) ha
  case case5 => intro h md xs a hs a1 e ih g ha; unfold hashVA; rw [e]; rw [e] at ih; exact ih (good_vec g) ha
  case case6 => intro h md xs a hs a1 e ih g ha; unfold hashVA; rw [e]; rw [e] at ih; exact ih (good_set g) ha
  case case7 =>
    intro h md ks vs a hs a1 e ih g ha; unfold hashVA; rw [e]; rw [e] at ih
    exact ih (good_map_k g) (good_map_v g) ha
  case case8 => intro h md tag v a hv a1 e ih g ha; unfold hashVA; rw [e]; rw [e] at ih; exact ih (good_tagged g) ha
  case case19 =>
    intro k ks v vs a hv a1 e1 hv2 a2 e2 hs a3 e3 ih1 ih2 ih3 gks gvs ha
    unfold hashPairsA; rw [e1]; dsimp only; rw [e2]; dsimp only; rw [e3]
    rw [e1] at ih1; rw [e2] at ih2; rw [e3] at ih3
    have s1 := ih1 gks.head ha
    have s2 := ih2 gvs.head s1.1
    have s3 := ih3 gks.tail gvs.tail s2.1
    exact (s1.trans s2).trans s3
  case case20 =>
    intro ks vs a hne gks gvs ha
    unfold hashPairsA
    split
    · next k ks' v vs' => exact (hne k ks' v vs' rfl rfl).elim
    · exact Stp.refl ha
  case case21 => intro a _ ha; unfold hashListA; exact Stp.refl ha
  case case22 =>
    intro v vs a hv a1 e1 hs a2 e2 ih1 ih2 g ha
    unfold hashListA; rw [e1]; dsimp only; rw [e2]
    rw [e1] at ih1; rw [e2] at ih2
    have s1 := ih1 g.head ha
    exact s1.trans (ih2 g.tail s1.1)
  all_goals (intros; unfold hashVA; exact Stp.refl (by assumption))

/-- `edn_value_hash`: free, and the value with its cache filled is still good -/
theorem hashOpA_stp (v : Val) (a : ASt) (g : Good x.ctx.cfg N v) (ha : a.arena = .alive) :
    Stp N 0 a (hashOpA x v a).2 ∧ Good x.ctx.cfg N (hashOpA x v a).1.2 := by
  unfold hashOpA
  dsimp only
  split
  · exact ⟨Stp.refl ha, g⟩
  · have h := (hash_stp (N := N) horc).1 v a g ha
    rcases hq : hashVA x v a with ⟨hv, a1⟩
    rw [hq] at h
    exact ⟨h, g.setHdr _ g.hdr_lt⟩

end

end Edn.Proofs.AllocBound
