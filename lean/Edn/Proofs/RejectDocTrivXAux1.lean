/-
  Edn.Proofs.RejectDocTrivXAux1 — C13 / C10, every configuration: the inputs that hold no form at
  all, declaratively (`TopTriviaX cfg`: blanks, comments - the last one possibly unclosed - and
  complete discarded forms of the configuration's grammar `FormX cfg (numJOf cfg) (strJOf cfg)`),
  the forward half of "end of input at top level iff `TopTriviaX`", and the step lemmas of the
  backward half for the element loops, tags, namespaced maps and metadata.
-/
import Edn.Proofs.RejectDoc
import Edn.Proofs.RejectDocX

namespace Edn.Proofs.RejectDocTrivX
open Edn.Model Edn.Spec Edn.Generated Edn.Proofs Edn.Proofs.RejectDoc Edn.Proofs.RejectDocX

/-- **The inputs without a form, in configuration `cfg`**: blanks and comments up to the end
    (`EofBlank`: the last comment need not be closed), with complete discarded forms `#_ form`
    anywhere between them.  The discarded forms are forms of the configuration's grammar
    `Edn.Spec.FormX cfg (numJOf cfg) (strJOf cfg)` - with the Clojure flag that includes metadata
    forms `^ann target` and namespaced maps `#:ns{…}` - whose nesting leaves room for the discard
    marker. -/
inductive TopTriviaX (cfg : Cfg) : Bytes → Prop
  | eof (s : Bytes) (h : EofBlank s) : TopTriviaX cfg s
  | discard (tr tok rest : Bytes) (k : Nat) (b : Val) (ht : Blank tr) (hk : 1 + k ≤ Tables.maxNestingDepth)
      (hf : FormX cfg (numJOf cfg) (strJOf cfg) k b tok rest) (h : TopTriviaX cfg rest) :
      TopTriviaX cfg (tr ++ 0x23 :: 0x5F :: (tok ++ rest))

theorem TopTriviaX.blank {cfg : Cfg} {tr s : Bytes} (ht : Blank tr) (h : TopTriviaX cfg s) : TopTriviaX cfg (tr ++ s) := by
  cases h with
  | eof _ h => exact .eof _ (blank_eofBlank ht h)
  | discard tr' tok rest k b ht' hk hf h =>
    rw [← List.append_assoc]
    exact .discard (tr ++ tr') tok rest k b (Snd.blank_append ht ht') hk hf h

/-! ## forward half -/

/-- on a `TopTriviaX` input the top-level `readValue` reports the end of the input *between
    forms* (`eofTop`), having consumed everything, with the call log untouched -/
theorem topTriviaX_reads (cfg : Cfg) (opts : Opts) (hreg : opts.registry = none) {s : Bytes} (h : TopTriviaX cfg s)
    (dm : Bool) (cl : List Call) : ∀ (f : Nat), 2 * s.length + 2 ≤ f →
    readValue { cfg := cfg, opts := opts } f 0 dm { rest := s, calls := cl } = .err (eofE 0) { rest := [], calls := cl } := by
  induction h with
  | eof s h =>
    intro f hf
    match f, hf with
    | f + 1, _ => rw [readValue_trivia_only _ f 0 dm s cl (skipWsScalar_of_eofBlank h)]; rfl
  | discard tr tok rest k b ht hk hf _ ih =>
    intro f hlen
    simp only [List.length_append, List.length_cons] at hlen
    match f, hlen with
    | f + 1, hlen =>
      rw [readValue_trivia_prefix _ f 0 dm tr _ cl (Cmpl.blank_toPlain ht)]
      obtain ⟨v, hv, -⟩ := formX_is_read cfg opts hreg _ _ (numExact_of cfg) (strExact_of cfg) k b tok rest hf 1
        (by omega) true cl f (by omega)
      rw [(discard_is_trivia _ f 0 dm tok rest cl cl v (by decide) hv).2]
      exact ih f (by omega)

/-! ## backward half: the vocabulary -/

/-- `readValue`: an `eofTop` error only at depth 0 and only on a `TopTriviaX` input -/
def TVX (cfg : Cfg) (RV : RVT) : Prop :=
  ∀ d dm st e st', RV d dm st = .err e st' → e.eofTop = true → d = 0 ∧ TopTriviaX cfg st.rest

/-- below the top level no error of `readValue` is flagged -/
def DeepV (RV : RVT) : Prop := ∀ d dm st, noTop (RV (d + 1) dm st) = true

/-- in front of a `:` (where `readNsMap` calls `readValue` at its own depth) neither -/
def KT (RV : RVT) : Prop := ∀ d dm cs cl, noTop (RV d dm { rest := 0x3A :: cs, calls := cl }) = true

/-- `readNsMap` is only ever entered in front of the `:` of `#:` -/
def NN (RN : R4T) : Prop := ∀ d dm start cs cl, noTop (RN d dm start { rest := 0x3A :: cs, calls := cl }) = true

/-- what soundness says about the values `RV` returns -/
def SoundVX (cfg : Cfg) (RV : RVT) : Prop :=
  ∀ d dm st v st', d ≤ Tables.maxNestingDepth → RV d dm st = .ok v st' →
    ∃ k tok, d + k ≤ Tables.maxNestingDepth ∧ st.rest = tok ++ st'.rest ∧
      FormX cfg (numJOf cfg) (strJOf cfg) k (stripM v) tok st'.rest

theorem TVX.deep {cfg : Cfg} {RV : RVT} (h : TVX cfg RV) : DeepV RV := by
  intro d dm st
  cases hr : RV (d + 1) dm st with
  | ok v st' => rfl
  | closer st' => rfl
  | err e st' =>
    cases ht : e.eofTop with
    | false => simp only [noTop, ht]; rfl
    | true => have := (h (d + 1) dm st e st' hr ht).1; omega

/-! ## the loops, tags, namespaced maps, metadata -/

theorem rsStep_topX (ctx : Ctx) {RV : RVT} {RS : RST} (hV : DeepV RV) (hS : NS RS)
    (d : Nat) (dm : Bool) (kind start : Nat) (st : St) (acc : List Val) :
    noTop (rsStep ctx RV RS d dm kind start st acc) = true := by
  unfold rsStep
  have h1 := hV d dm st
  cases hr : RV (d + 1) dm st with
  | ok v st' => simp only []; exact hS _ _ _ _ _ _
  | err e st' =>
    rw [hr] at h1
    simp only []
    split
    · rfl
    · exact h1
  | closer st' =>
    simp only []
    repeat' split
    all_goals rfl

theorem rmStep_topX (ctx : Ctx) {RV : RVT} {RM : RMT} (hV : DeepV RV) (hM : NM RM)
    (d : Nat) (dm : Bool) (start : Nat) (ns : Option Bytes) (st : St) (ks vs : List Val) :
    noTop (rmStep ctx RV RM d dm start ns st ks vs) = true := by
  unfold rmStep
  simp only []
  have h1 := hV d dm st
  cases hr : RV (d + 1) dm st with
  | ok k st' =>
    simp only []
    have h2 := hV d dm st'
    cases hr2 : RV (d + 1) dm st' with
    | ok v st'' => simp only []; exact hM _ _ _ _ _ _ _
    | err e st'' =>
      rw [hr2] at h2
      simp only []
      split
      · rfl
      · exact h2
    | closer st'' => rfl
  | err e st' =>
    rw [hr] at h1
    simp only []
    split
    · rfl
    · exact h1
  | closer st' =>
    simp only []
    repeat' split
    all_goals rfl

theorem rtStep_topX (ctx : Ctx) {RV : RVT} (hV : DeepV RV)
    (d : Nat) (dm : Bool) (start : Nat) (st : St) :
    noTop (rtStep ctx RV d dm start st) = true := by
  unfold rtStep
  simp only []
  split
  · rfl
  · split
    · rfl
    · have h2 := (leaf_noTop ctx st).2.2.1
      cases hr : readIdentifier ctx st with
      | closer st' => rfl
      | err e st' => rw [hr] at h2; exact h2
      | ok tagv st' =>
        simp only []
        split
        · have h3 := hV d dm st'
          cases hr2 : RV (d + 1) dm st' with
          | closer st'' => rfl
          | err e st'' => rw [hr2] at h3; exact h3
          | ok v st'' =>
            simp only []
            repeat' split
            all_goals rfl
        · rfl

/-- `#:` — the prefix keyword is read by `readValue` at the *same* depth, but in front of a `:`,
    where the end of the input cannot be met -/
theorem rnStep_topX (ctx : Ctx) {RV : RVT} {RM : RMT} (hK : KT RV) (hM : NM RM)
    (d : Nat) (dm : Bool) (start : Nat) (cs : Bytes) (cl : List Call) :
    noTop (rnStep ctx RV RM d dm start { rest := 0x3A :: cs, calls := cl }) = true := by
  unfold rnStep
  have h1 := hK d dm cs cl
  cases hr : RV d dm { rest := 0x3A :: cs, calls := cl } with
  | closer st' => rfl
  | err e st' => rw [hr] at h1; exact h1
  | ok kwv st' =>
    simp only []
    split
    · split
      · split
        · exact hM _ _ _ _ _ _ _
        · rfl
      · rfl
    · rfl

/-- `^` — annotation and target are read one level down -/
theorem rmeStep_topX (ctx : Ctx) {RV : RVT} (hV : DeepV RV)
    (d : Nat) (dm : Bool) (start : Nat) (st : St) :
    noTop (rmeStep ctx RV d dm start st) = true := by
  unfold rmeStep
  simp only []
  have h1 := hV d dm st
  cases hr : RV (d + 1) dm st with
  | closer st' => rfl
  | err e st' => rw [hr] at h1; exact h1
  | ok m st' =>
    simp only []
    cases hme : metaEntries m with
    | none => rfl
    | some p =>
      obtain ⟨nks, nvs⟩ := p
      simp only []
      have h2 := hV d dm st'
      cases hr2 : RV (d + 1) dm st' with
      | closer st'' => rfl
      | err e st'' => rw [hr2] at h2; exact h2
      | ok form st'' =>
        simp only []
        split
        · rfl
        · rfl

end Edn.Proofs.RejectDocTrivX
