/-
  Edn.Proofs.ReaderInvAux2 — the leaf readers return fresh leaves.
-/
import Edn.Proofs.ReaderInvAux1

namespace Edn.Proofs
open Edn.Model Edn.Spec Edn.Generated

def FL (v : Val) : Prop := freshLeaf v = true

theorem readString_leaf (ctx : Ctx) (st : St) : (readString ctx st).okP FL := by
  unfold readString
  simp only []
  repeat' split
  all_goals first | trivial | exact (rfl : freshLeaf _ = true)

theorem readCharacter_leaf (ctx : Ctx) (st : St) : (readCharacter ctx st).okP FL := by
  rw [readCharacter_eq]
  repeat' split
  all_goals first | trivial | exact (rfl : freshLeaf _ = true)

theorem readIdentifier_leaf (ctx : Ctx) (st : St) : (readIdentifier ctx st).okP FL := by
  unfold readIdentifier
  simp only []
  repeat' split
  all_goals first | trivial | exact (rfl : freshLeaf _ = true)

theorem readSymbolic_leaf (ctx : Ctx) (st : St) : (readSymbolic ctx st).okP FL := by
  unfold readSymbolic
  simp only []
  repeat' split
  all_goals first | trivial | exact (rfl : freshLeaf _ = true)

theorem readNumberRes_leaf (ctx : Ctx) (st : St) : (readNumberRes ctx st).okP FL := by
  unfold readNumberRes
  simp only []
  split
  · exact freshLeaf_numToVal _ _ _
  · trivial

theorem leaf_VOK {cfg : Cfg} {d : Nat} {r : Res} (h : r.okP FL) (hd : d ≤ Tables.maxNestingDepth) :
    r.okP (VOK cfg d) :=
  okP_mono h fun _ hv => VOK_of_freshLeaf hv hd

end Edn.Proofs
