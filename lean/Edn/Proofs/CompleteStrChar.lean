/-
  Edn.Proofs.CompleteStrChar — C03, token level: string and character literals are read
  exactly as rendered, in every context.
-/
import Edn.Spec.Renders
import Edn.Proofs.Fuel
import Edn.Proofs.Str

namespace Edn.Proofs
open Edn.Model Edn.Spec

theorem reads_str (cfg : Cfg) (opts : Opts) (d : Nat) (sp dn : Bytes) (h : StrContent cfg sp dn)
    (hne : cfg.exp = true → sp ≠ []) :
    Reads cfg opts d (.str hdr0 sp (sp.contains 0x5C)) (0x22 :: (sp ++ [0x22])) := by
  sorry

theorem reads_char (cfg : Cfg) (opts : Opts) (d : Nat) (body : Bytes) (cp : Nat) (h : CharBody body cp) (hcp : cp ≤ 0x10FFFF) :
    Reads cfg opts d (.char hdr0 cp) (0x5C :: body) := by
  sorry

end Edn.Proofs
