/-
  Edn.Proofs.CompleteStrChar — C03, token level: string and character literals are read
  exactly as rendered, in every context.
-/
import Edn.Spec.Renders
import Edn.Proofs.Fuel
import Edn.Proofs.Str
import Edn.Proofs.CompleteStrCharAux2

namespace Edn.Proofs
open Edn.Model Edn.Spec

theorem reads_str (cfg : Cfg) (opts : Opts) (d : Nat) (sp dn : Bytes) (h : StrContent cfg sp dn)
    (hne : cfg.exp = true → sp ≠ []) :
    Reads cfg opts d (.str hdr0 sp (sp.contains 0x5C)) (0x22 :: (sp ++ [0x22])) := by
  intro dm rest cl f _ hf
  obtain ⟨f', rfl⟩ : ∃ f', f = f' + 1 := ⟨f - 1, by omega⟩
  have hs : (0x22 :: (sp ++ [0x22])) ++ rest = 0x22 :: (sp ++ 0x22 :: rest) := by simp
  rw [hs, readValue_quote]
  have hnb : ¬ (cfg.exp = true ∧ ∃ t, (0x22 :: (sp ++ 0x22 :: rest)) = 0x22 :: 0x22 :: 0x22 :: 0x0A :: t) := by
    rintro ⟨he, t, ht⟩
    obtain ⟨c, u, rfl, hc⟩ := strContent_head_ne_quote cfg sp dn h (hne he)
    simp only [List.cons_append, List.cons.injEq, true_and] at ht
    exact hc ht.1
  refine ⟨_, readString_literal' { cfg := cfg, opts := opts } sp dn rest cl h hnb, rfl⟩

theorem reads_char (cfg : Cfg) (opts : Opts) (d : Nat) (body : Bytes) (cp : Nat) (h : CharBody body cp) (hcp : cp ≤ 0x10FFFF) :
    Reads cfg opts d (.char hdr0 cp) (0x5C :: body) := by
  intro dm rest cl f hr hf
  obtain ⟨f', rfl⟩ : ∃ f', f = f' + 1 := ⟨f - 1, by omega⟩
  have hb := charBody_append_isEmpty body rest cp h
  rw [List.cons_append, readValue_backslash, readCharacter_eq]
  simp only [List.tail_cons, hb, Bool.false_eq_true, if_false,
    charBody_ok { cfg := cfg, opts := opts } body rest cp h hr,
    show ¬ cp > 0x10FFFF from by omega, term_delim hr]
  exact ⟨_, rfl, rfl⟩

end Edn.Proofs
