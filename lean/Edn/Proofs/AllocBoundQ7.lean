/-
  Edn.Proofs.AllocBoundQ7 — induction over the six readers, part 3 (namespaced maps, tagged
  elements without registry, metadata), the induction on the fuel, and the theorem:

      (readA cfg opts orc input …).ast.reqs ≤ 16 * n³ + 4 * n + n / 64 + 8        (n = input.length)

  for every input, every configuration, no registry, an oracle that fails no request — NO hypothesis
  on the string literals (compare `Edn.Proofs.AllocBound.readA_reqs_linear`, which is linear but
  needs every literal to decode, and `superDoc` there, which shows that without that hypothesis the
  number of requests does grow faster than linearly).

  Where `16 * n³` comes from: the byte that opens a form when `L + 1` bytes are left reserves
  `16 * (L + 1)²` requests; the form has at most `2 * L` nodes, the duplicate check of a collection
  of `S` nodes makes at most `1 + 4 * S²` requests (two per pair of leaves compared, one per leaf
  hashed, each look at a literal whose escapes do not decode being a fresh request), the metadata
  merge at most `5 + 2 * (nodes of the form) * (nodes of the new keys)`.  Summing the reserve over the
  bytes gives `16 * (1² + … + n²) ≤ 16 * n³`.  (The true growth is quadratic — every byte lies in at
  most `maxNestingDepth` collections — but the proof does not track the depth.)
-/
import Edn.Proofs.AllocBoundQ6
import Edn.Proofs.AllocBound

namespace Edn.Proofs.AllocBoundQ
open Edn.Model Edn.Proofs Edn.Proofs.AllocBasic Edn.Proofs.AllocBound

section
variable {x : ACtx} (H : HypQ x) (hst : ∀ n, (x.sortTouch n).length ≤ n)
include H

omit H in
theorem readNsMapA_bstep (f : Nat) (hV : BV x f) (hM : BM x f) : BN x (f + 1) := by
  intro d dm start st a L0 ha hL0
  unfold readNsMapA
  dsimp only
  have h1 := hV d dm st a ha
  rcases hq : readValueA x f d dm st a with ⟨r, a'⟩
  rw [hq] at h1
  obtain ⟨ha', h1c⟩ := h1
  cases r with
  | closer st' =>
    dsimp only at h1c ⊢
    exact ⟨ha', by have := h1c.1; somega, by have := h1c.2; somega⟩
  | err e st' => dsimp only at h1c ⊢; exact ⟨ha', by somega⟩
  | ok kwv st' =>
    dsimp only at h1c ⊢
    obtain ⟨gk, hc1⟩ := h1c
    have hws := skipWs_suffix' st'.rest
    split
    · split
      · next c r hs =>
        rw [hs] at hws
        have hlen := hws.length_le
        simp only [List.length_cons] at hlen
        have hp := Pot_mono (L' := r.length) (L := st'.rest.length) (by omega)
        split
        · exact RelL.after (st := st) (a := a)
            (hM d dm start _ { rest := r, calls := st'.calls } a' {} [] [] L0 ha'
              (by simp only [szL]; omega))
            (by simp only; omega)
        · exact ⟨ha', by somega⟩
      · exact ⟨ha', by somega⟩
    · exact ⟨ha', by somega⟩

theorem readTaggedA_bstep (f : Nat) (hV : BV x f) : BT x (f + 1) := by
  intro d dm start st a L0 ha hL0
  unfold readTaggedA
  dsimp only
  split
  · exact ⟨ha, by somega⟩
  · split
    · exact ⟨ha, by somega⟩
    · have h1 := readIdentifierA_rel H st a ha
      rcases hq : readIdentifierA x st a with ⟨r, a'⟩
      rw [hq] at h1
      obtain ⟨ha', h1c⟩ := h1
      cases r with
      | closer st' =>
        dsimp only at h1c ⊢
        exact ⟨ha', by have := h1c.1; somega, by have := h1c.2; somega⟩
      | err e st' => dsimp only at h1c ⊢; exact ⟨ha', by somega⟩
      | ok tagv st' =>
        dsimp only at h1c ⊢
        obtain ⟨gt, hc1⟩ := h1c
        split
        · have h2 := hV (d + 1) dm st' a' ha'
          rcases hq2 : readValueA x f (d + 1) dm st' a' with ⟨r2, a''⟩
          rw [hq2] at h2
          obtain ⟨ha'', h2c⟩ := h2
          cases r2 with
          | closer st'' => dsimp only at h2c ⊢; exact ⟨ha'', by somega⟩
          | err e st'' => dsimp only at h2c ⊢; exact ⟨ha'', by somega⟩
          | ok v st'' =>
            dsimp only at h2c ⊢
            obtain ⟨gv, hc2⟩ := h2c
            split
            · exact value_rel_L H st _ _ a a'' _ L0 (by simp only [sz, szO]; omega) ha'' (by omega)
            · next reg hreg => rw [H.reg] at hreg; cases hreg
        · exact ⟨ha', by somega⟩

theorem readMetaA_bstep (f : Nat) (hV : BV x f) : BMe x (f + 1) := by
  intro d dm start st a L0 ha hL0
  unfold readMetaA
  dsimp only
  have h1 := hV (d + 1) dm st a ha
  rcases hq : readValueA x f (d + 1) dm st a with ⟨r, a'⟩
  rw [hq] at h1
  obtain ⟨ha', h1c⟩ := h1
  cases r with
  | closer st' => dsimp only at h1c ⊢; exact ⟨ha', by somega⟩
  | err e st' => dsimp only at h1c ⊢; exact ⟨ha', by somega⟩
  | ok m st' =>
    dsimp only at h1c ⊢
    obtain ⟨gm, hc1⟩ := h1c
    split
    · exact ⟨ha', by somega⟩
    · next nks nvs hme =>
      have hmsz := metaEntries_sz m nks nvs hme
      have h2 := hV (d + 1) dm st' a' ha'
      rcases hq2 : readValueA x f (d + 1) dm st' a' with ⟨r2, a''⟩
      rw [hq2] at h2
      obtain ⟨ha'', h2c⟩ := h2
      cases r2 with
      | closer st'' => dsimp only at h2c ⊢; exact ⟨ha'', by somega⟩
      | err e st'' => dsimp only at h2c ⊢; exact ⟨ha'', by somega⟩
      | ok form st'' =>
        dsimp only at h2c ⊢
        obtain ⟨gf, hc2⟩ := h2c
        split
        · exact ⟨ha'', by somega⟩
        · next hmt =>
          have ht : form.metaTarget = true := by simpa using hmt
          have h3 := attachMetaA_q H.orc m form nks nvs a'' ht ha''
          rcases hq3 : attachMetaA x m form nks nvs a'' with ⟨o, a1⟩
          rw [hq3] at h3
          obtain ⟨h3s, h3g⟩ := h3
          dsimp only at h3s h3g
          have hpay := Rsv_pays2 (A := sz form) (B := szL nks) (L0 := L0) (by omega) (by omega)
          have hc3 := h3s.2
          cases o with
          | none => exact ⟨h3s.1, by somega⟩
          | some form' =>
            have hf := h3g form' rfl
            exact ⟨h3s.1, by simp only [sz_setHdr]; omega, by simp only; omega⟩

include hst

/-- the relation holds of all six readers, for every fuel -/
theorem readers_boundQ : ∀ f, BV x f ∧ BS x f ∧ BM x f ∧ BN x f ∧ BT x f ∧ BMe x f := by
  intro f
  induction f with
  | zero =>
    refine ⟨?_, ?_, ?_, ?_, ?_, ?_⟩
    · intro d dm st a ha; unfold readValueA; exact ⟨ha, by simp only [fuelOut]; omega⟩
    · intro d dm kind start st a b acc L0 ha _; unfold readSeqA; exact ⟨ha, by simp only [fuelOut]; omega⟩
    · intro d dm start ns st a b ks vs L0 ha _; unfold readMapA; exact ⟨ha, by simp only [fuelOut]; omega⟩
    · intro d dm start st a L0 ha _; unfold readNsMapA; exact ⟨ha, by simp only [fuelOut]; omega⟩
    · intro d dm start st a L0 ha _; unfold readTaggedA; exact ⟨ha, by simp only [fuelOut]; omega⟩
    · intro d dm start st a L0 ha _; unfold readMetaA; exact ⟨ha, by simp only [fuelOut]; omega⟩
  | succ f ih =>
    obtain ⟨hV, hS, hM, hN, hT, hMe⟩ := ih
    exact ⟨readValueA_bstep H f hV hS hM hN hT hMe, readSeqA_bstep H hst f hV hS, readMapA_bstep H hst f hV hM,
      readNsMapA_bstep f hV hM, readTaggedA_bstep H f hV, readMetaA_bstep H f hV⟩

end

/-! ## The bound -/

theorem Pot_le_cubic (n : Nat) : Pot n ≤ 16 * n ^ 3 + 4 * n := by
  have := Q_le n
  have e : n ^ 3 = n * (n * n) := by grind
  unfold Pot
  omega

/-- **C02, allocation requests, no hypothesis on the input.**  A read under an oracle that fails
    no request, without a tag registry, makes at most `16 * n³ + 4 * n + n / 64 + 8` logical
    allocation requests (`n` the length of the input) — in every configuration, for every growth
    rule of the builders and every `qsort` that hands each element to the comparator for the first
    time at most once. -/
theorem readA_reqs_cubic (cfg : Cfg) (opts : Opts) (orc : Nat → Bool) (input : Bytes)
    (grow : Nat → Nat) (handlerReq : String → Bool) (sortTouch : Nat → List Nat)
    (horc : ∀ n, orc n = false) (hreg : opts.registry = none) (hst : ∀ n, (sortTouch n).length ≤ n) :
    (readA cfg opts orc input grow handlerReq sortTouch).ast.reqs
      ≤ 16 * input.length ^ 3 + 4 * input.length + input.length / 64 + 8 := by
  have hpot := Pot_le_cubic input.length
  unfold readA
  dsimp only
  have hc0 := (arenaCreate_reqs orc false ({} : ASt)).2
  have ha0 := (Edn.Proofs.AllocSim.arenaCreate_nofault orc horc false ({} : ASt)).2 rfl
  rcases hq0 : ({} : ASt).arenaCreate orc false with ⟨okA, a0⟩
  rw [hq0] at hc0 ha0
  dsimp only at hc0 ha0 ⊢
  let x : ACtx := { ctx := { cfg := cfg, opts := opts }, orc := orc, grow := grow, handlerReq := handlerReq,
                    sortTouch := sortTouch }
  have H : HypQ x := ⟨horc, hreg⟩
  have hv := (readers_boundQ H (x := x) hst (readFuel input)).1 0 false { rest := input } a0 ha0
  have hreq0 : a0.reqs ≤ 2 := hc0
  rcases hq : readValueA x (readFuel input) 0 false { rest := input } a0 with ⟨r, a⟩
  rw [hq] at hv
  obtain ⟨_, hvc⟩ := hv
  cases r with
  | ok v st => dsimp only at hvc ⊢; have := hvc.2; omega
  | closer st => dsimp only at hvc ⊢; have := hvc.2; omega
  | err e st =>
    dsimp only at hvc ⊢
    split
    · dsimp only; omega
    · have h2 := lineIndexA_reqs orc input a
      rcases hq2 : lineIndexA orc input a with ⟨haveIdx, a1⟩
      rw [hq2] at h2
      dsimp only at h2 ⊢
      have h4 : (a1.arenaDestroy false).reqs = a1.reqs := arenaDestroy_reqs false a1
      repeat' split
      all_goals (try dsimp only)
      all_goals (try rw [h4])
      all_goals omega

/-- the instance the correspondence stream `H` exercises: the oracle that never fails, the default
    builders, glibc's merge sort -/
theorem readA_reqs_cubic' (cfg : Cfg) (opts : Opts) (input : Bytes) (hreg : opts.registry = none) :
    (readA cfg opts (fun _ => false) input).ast.reqs
      ≤ 16 * input.length ^ 3 + 4 * input.length + input.length / 64 + 8 :=
  readA_reqs_cubic cfg opts (fun _ => false) input _ _ _ (fun _ => rfl) hreg
    (fun n => (msortTouch_length n 0 n).1)

/-- the same in the shape `c₃ * (n + 1)³ + c₀` -/
theorem readA_reqs_cubic'' (cfg : Cfg) (opts : Opts) (input : Bytes) (hreg : opts.registry = none) :
    (readA cfg opts (fun _ => false) input).ast.reqs ≤ 16 * (input.length + 1) ^ 3 + 8 := by
  have h := readA_reqs_cubic' cfg opts input hreg
  have e : (input.length + 1) ^ 3 = input.length ^ 3 + 3 * input.length ^ 2 + 3 * input.length + 1 := by grind
  omega

/-! ## Example: the family without decodable escapes -/

example : ((readA ⟨false, false⟩ {} (fun _ => false) (superDoc 3)).ast.reqs == 73) = true := by decide +kernel
example : ((superDoc 3).length == 57) = true := by decide +kernel
example : (readA ⟨false, false⟩ {} (fun _ => false) (superDoc 3)).ast.reqs
    ≤ 16 * (superDoc 3).length ^ 3 + 4 * (superDoc 3).length + (superDoc 3).length / 64 + 8 :=
  readA_reqs_cubic' _ _ _ rfl

end Edn.Proofs.AllocBoundQ
