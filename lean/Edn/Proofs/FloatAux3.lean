/-
  Edn.Proofs.FloatAux3 — consequences of the structure of `rne`: exactness of `(double) m`
  below 2^53, exact operands make `fmul`/`fdiv` a single rounding of the exact result,
  and the overflow / underflow ranges short-circuited by `ofDecC`.
-/
import Edn.Proofs.FloatAux2
open Edn.Spec
namespace Edn.Proofs.FloatAux

/-! ### `(double) m` -/

theorem binade_nat {m : Nat} (hm : m ≠ 0) : binade m 1 = (Nat.log2 m : Int) := by
  apply binade_eq hm (by decide)
  · refine (geB_iff m 1 _ (Nat.log2 m) 0 (by omega)).mpr ?_
    have := Nat.log2_self_le hm
    omega
  · cases h : geB m 1 ((Nat.log2 m : Int) + 1)
    · rfl
    · exfalso
      have h1 := (geB_iff m 1 _ (Nat.log2 m + 1) 0 (by omega)).mp h
      have := @Nat.lt_log2_self m
      omega

theorem ofNat_exact (m : Nat) (h : m < 2 ^ 53) :
    ∃ n d, decode (Spec.ofNat m) = (false, n, d) ∧ n = m * d ∧ 0 < d := by
  unfold Spec.ofNat
  rw [rne_eq]
  by_cases hm : m = 0
  · subst hm
    refine ⟨0, 2 ^ 1074, ?_, (Nat.zero_mul _).symm, Nat.two_pow_pos _⟩
    simp only [if_true]
    decide +kernel
  · simp only [hm, if_false]
    rw [binade_nat hm]
    have hlo := Nat.log2_self_le hm
    have hhi := @Nat.lt_log2_self m
    have he : Nat.log2 m < 53 := (Nat.log2_lt hm).mpr h
    generalize Nat.log2 m = e at *
    have hnum : numOf m (e : Int) = m * 2 ^ (52 - e) := by
      unfold numOf
      have a : ¬ (e : Int) < -1022 := by omega
      have b : (52 : Int) - (e : Int) ≥ 0 := by omega
      have c : ((52 : Int) - (e : Int)).toNat = 52 - e := by omega
      simp only [a, b, c, if_true, if_false]
    have hden : denOf 1 (e : Int) = 1 := by
      unfold denOf
      have a : ¬ (e : Int) < -1022 := by omega
      have b : (52 : Int) - (e : Int) ≥ 0 := by omega
      simp only [a, b, if_true, if_false]
    rw [hnum, hden, roundQ_one]
    have hp : 2 ^ e * 2 ^ (52 - e) = 2 ^ 52 := by
      rw [← Nat.pow_add]; congr 1; omega
    have hp' : 2 ^ (e + 1) * 2 ^ (52 - e) = 2 ^ 53 := by
      rw [← Nat.pow_add]; congr 1; omega
    have hq1 : 2 ^ 52 ≤ m * 2 ^ (52 - e) := by
      rw [← hp]; exact Nat.mul_le_mul_right _ hlo
    have hq2 : m * 2 ^ (52 - e) < 2 ^ 53 := by
      rw [← hp']; exact Nat.mul_lt_mul_of_lt_of_le hhi (Nat.le_refl _) (Nat.two_pow_pos _)
    rw [pack_normal (by omega) (by omega) hq2]
    have ht : ((e : Int) + 1023).toNat = e + 1023 := by omega
    rw [ht, decode_pack _ _ (by omega) (by omega) (by omega)]
    by_cases h52 : e + 1023 ≥ 1075
    · have : e = 52 := by omega
      subst this
      simp only [h52, if_true]
      refine ⟨_, 1, rfl, ?_, by decide⟩
      simp only [Nat.sub_self, Nat.pow_zero, Nat.mul_one] at *
      omega
    · simp only [h52, if_false]
      refine ⟨_, _, rfl, ?_, Nat.two_pow_pos _⟩
      have : 1075 - (e + 1023) = 52 - e := by omega
      rw [this]
      omega

/-! ### one rounding of an exact product / quotient -/

theorem withSign_false (b : UInt64) : withSign false b = b := rfl

theorem fmul_exact {a b : UInt64} {m k da db : Nat}
    (ha : decode a = (false, m * da, da)) (hb : decode b = (false, k * db, db))
    (hda : 0 < da) (hdb : 0 < db) : fmul a b = rne (m * k) 1 := by
  unfold fmul
  rw [ha, hb]
  dsimp only
  rw [show (false != false) = false from rfl, withSign_false]
  have e1 : m * da * (k * db) = m * k * (da * db) := by
    rw [Nat.mul_assoc, Nat.mul_assoc, Nat.mul_left_comm da]
  have e2 : rne (m * k * (da * db)) (da * db) = rne (m * k * (da * db)) (1 * (da * db)) := by
    rw [Nat.one_mul]
  rw [e1, e2]
  exact rne_scale _ _ _ (by decide) (Nat.mul_pos hda hdb)

theorem fdiv_exact {a b : UInt64} {m k da db : Nat}
    (ha : decode a = (false, m * da, da)) (hb : decode b = (false, k * db, db))
    (hda : 0 < da) (hdb : 0 < db) (hk : 0 < k) : fdiv a b = rne m k := by
  unfold fdiv
  rw [ha, hb]
  dsimp only
  rw [show (false != false) = false from rfl, withSign_false]
  have e1 : m * da * db = m * (da * db) := Nat.mul_assoc _ _ _
  have e2 : da * (k * db) = k * (da * db) := Nat.mul_left_comm _ _ _
  rw [e1, e2]
  exact rne_scale _ _ _ hk (Nat.mul_pos hda hdb)

/-! ### overflow and underflow -/

theorem mul_two_pow_mono (n a b : Nat) (h : a ≤ b) : n * 2 ^ a ≤ n * 2 ^ b :=
  Nat.mul_le_mul_left _ (Nat.pow_le_pow_right (by decide) h)

theorem mul_two_pow_succ (n k : Nat) : n * 2 ^ (k + 1) = 2 * (n * 2 ^ k) := by
  rw [Nat.pow_succ, ← Nat.mul_assoc, Nat.mul_comm]

/-- anything at or above 2^1024 rounds to the infinity pattern -/
theorem rne_overflow {n : Nat} (h : 2 ^ 1024 ≤ n) : rne n 1 = 0x7FF0000000000000 := by
  have hn : n ≠ 0 := by
    intro h0; subst h0
    have := Nat.two_pow_pos 1024
    omega
  rw [rne_eq, if_neg hn]
  have hb : binade n 1 = (Nat.log2 n : Int) := binade_nat hn
  have hl : 1024 ≤ Nat.log2 n := (Nat.le_log2 hn).mpr h
  rw [hb]
  exact pack_overflow _ (by omega)

/-- anything below half the smallest subnormal rounds to zero -/
theorem rne_underflow {n d : Nat} (hn : n ≠ 0) (h : n * 2 ^ 1075 < d) : rne n d = 0 := by
  have hd : d ≠ 0 := by omega
  rw [rne_eq, if_neg hn]
  have hlt : binade n d < -1022 := by
    apply Int.lt_of_not_ge
    intro hge
    have h1 := geB_mono (binade_spec hn hd).1 hge
    have h2 := (geB_iff n d (-1022) 0 1022 (by omega)).mp h1
    have h3 := mul_two_pow_mono n 1022 1075 (by decide)
    rw [Nat.pow_zero, Nat.mul_one] at h2
    exact Nat.lt_irrefl _ (Nat.lt_of_lt_of_le h (Nat.le_trans h2 h3))
  generalize binade n d = e at hlt
  rw [pack_subnormal _ hlt]
  have hnum : numOf n e = n * 2 ^ 1074 := by
    unfold numOf
    simp only [hlt, if_true]
    rw [if_pos (by decide), show ((52 : Int) - -1022).toNat = 1074 from rfl]
  have hden : denOf d e = d := by
    unfold denOf
    simp only [hlt, if_true]
    rfl
  rw [hnum, hden]
  have hp : n * 2 ^ 1075 = 2 * (n * 2 ^ 1074) := by
    rw [show (1075 : Nat) = 1074 + 1 from rfl]
    exact mul_two_pow_succ n 1074
  rw [hp] at h
  generalize n * 2 ^ 1074 = x at h
  have hq : roundQ x d = 0 := by
    unfold roundQ
    have a : x / d = 0 := Nat.div_eq_of_lt (by omega)
    have b : x % d = x := Nat.mod_eq_of_lt (by omega)
    simp only [a, b]
    rw [if_neg (by omega), if_neg (by omega)]
  rw [hq]
  rfl


theorem ofDec_zero (e : Int) : ofDec 0 e = 0 := by
  unfold ofDec
  split
  · rw [Nat.zero_mul, rne_eq, if_pos rfl]
  · rw [rne_eq, if_pos rfl]

theorem ten_pow_mono (a b : Nat) (h : a ≤ b) : 10 ^ a ≤ 10 ^ b :=
  Nat.pow_le_pow_right (by decide) h
theorem ten_pow_pos (k : Nat) : 0 < 10 ^ k := Nat.pow_pos (by decide)

theorem pow10_401_ge : 2 ^ 1024 ≤ 10 ^ 401 := by decide +kernel
theorem pow10_401_gt : 2 ^ 1075 < 10 ^ 401 := by decide +kernel

theorem ofDec_overflow {mant : Nat} {e : Int} (hm : mant ≠ 0) (he : e > 400) :
    ofDec mant e = 0x7FF0000000000000 := by
  unfold ofDec
  rw [if_pos (by omega)]
  apply rne_overflow
  have h1 : 10 ^ 401 ≤ 10 ^ e.toNat := ten_pow_mono 401 e.toNat (by omega)
  have h2 : 1 * 10 ^ e.toNat ≤ mant * 10 ^ e.toNat := Nat.mul_le_mul_right _ (by omega)
  rw [Nat.one_mul] at h2
  exact Nat.le_trans pow10_401_ge (Nat.le_trans h1 h2)

/-- `log2 m / 3 + 1` bounds the number of decimal digits -/
theorem lt_ten_pow_digits (m : Nat) : m < 10 ^ (Nat.log2 m / 3 + 1) := by
  have h1 : m < 2 ^ (Nat.log2 m + 1) := Nat.lt_log2_self
  have h2 : 2 ^ (Nat.log2 m + 1) ≤ 2 ^ (3 * (Nat.log2 m / 3 + 1)) :=
    Nat.pow_le_pow_right (by decide) (by omega)
  have h3 : 2 ^ (3 * (Nat.log2 m / 3 + 1)) ≤ 10 ^ (Nat.log2 m / 3 + 1) := by
    rw [Nat.pow_mul]
    exact Nat.pow_le_pow_left (by decide) _
  omega

theorem ofDec_underflow {mant : Nat} {e : Int} (hm : mant ≠ 0)
    (he : e + ((Nat.log2 mant / 3 + 1 : Nat) : Int) < -400) : ofDec mant e = 0 := by
  unfold ofDec
  rw [if_neg (by omega)]
  apply rne_underflow hm
  have hD := lt_ten_pow_digits mant
  generalize Nat.log2 mant / 3 + 1 = D at he hD
  have hk : D + 401 ≤ (-e).toNat := by omega
  have h1 : 10 ^ (D + 401) ≤ 10 ^ (-e).toNat := Nat.pow_le_pow_right (by decide) hk
  rw [Nat.pow_add] at h1
  have h2 : mant * 2 ^ 1075 < 10 ^ D * 10 ^ 401 :=
    Nat.mul_lt_mul_of_lt_of_le hD (Nat.le_of_lt pow10_401_gt) (ten_pow_pos 401)
  exact Nat.lt_of_lt_of_le h2 h1

theorem ofDecC_eq (mant : Nat) (e : Int) : ofDecC mant e = ofDec mant e := by
  unfold ofDecC
  by_cases hm : mant = 0
  · subst hm; rw [if_pos rfl, ofDec_zero]
  · rw [if_neg hm]
    by_cases h1 : e > 400
    · rw [if_pos h1, ofDec_overflow hm h1]
    · rw [if_neg h1]
      by_cases h2 : e + ((Nat.log2 mant / 3 + 1 : Nat) : Int) < -400
      · rw [if_pos h2, ofDec_underflow hm h2]
      · rw [if_neg h2]

end Edn.Proofs.FloatAux
