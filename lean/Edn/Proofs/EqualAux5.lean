/-
  Edn.Proofs.EqualAux5 — fuel stability, and symmetry / transitivity of `eqvF` on
  well-formed values by a combined induction on the fuel.
-/
import Edn.Proofs.EqualAux4

namespace Edn.Proofs
open Edn.Model Edn.Spec

/-! ### fuel stability -/

theorem eqvF_fuel_aux (cfg : Cfg) : ∀ (f f' : Nat) (a b : Val), depth a < f → depth a < f' →
    eqvF cfg f a b = eqvF cfg f' a b := by
  intro f
  induction f with
  | zero => intro f' a b h; exact absurd h (Nat.not_lt_zero _)
  | succ f ih =>
    intro f' a b h1 h2
    cases f' with
    | zero => exact absurd h2 (Nat.not_lt_zero _)
    | succ f' =>
      rw [eqvF_succ, eqvF_succ]
      apply body_congr_left
      intro x hx y
      have := depth_child hx
      exact ih f' x y (by omega) (by omega)

theorem Eqv_iff (cfg : Cfg) {a b : Val} {f : Nat} (h : depth a < f) :
    Eqv cfg a b ↔ eqvF cfg f a b = true := by
  unfold Eqv
  rw [eqvF_fuel_aux cfg (depth a + 1) f a b (Nat.lt_succ_self _) h]

/-- within the fuel and well-formed -/
def Good (cfg : Cfg) (f : Nat) (x : Val) : Prop := depth x < f ∧ WF cfg x

theorem Good.child {cfg : Cfg} {f : Nat} {a x : Val} (hg : Good cfg (f + 1) a) (hx : x ∈ children a) :
    Good cfg f x := by
  have := depth_child hx
  exact ⟨by have := hg.1; omega, WF_child cfg hg.2 hx⟩

theorem distinct_at (cfg : Cfg) (f : Nat) (xs : List Val) (hd : pairwiseDistinct cfg xs)
    (hg : ∀ x ∈ xs, depth x < f) : xs.Pairwise (fun a b => ¬ eqvF cfg f a b = true) := by
  refine List.Pairwise.imp_of_mem ?_ hd
  intro a b ha _ h
  rw [← Eqv_iff cfg (hg a ha)]
  exact h.1

def SymAt (cfg : Cfg) (f : Nat) : Prop :=
  ∀ a b, Good cfg f a → Good cfg f b → eqvF cfg f a b = true → eqvF cfg f b a = true

def TransAt (cfg : Cfg) (f : Nat) : Prop :=
  ∀ a b c, Good cfg f a → Good cfg f b → Good cfg f c →
    eqvF cfg f a b = true → eqvF cfg f b c = true → eqvF cfg f a c = true

theorem WF_set {cfg : Cfg} {h : Hdr} {m : Option Val} {xs : List Val} (hw : WF cfg (.set h m xs)) :
    pairwiseDistinct cfg xs ∧ WFL cfg xs := hw

theorem WF_map {cfg : Cfg} {h : Hdr} {m : Option Val} {ks vs : List Val} (hw : WF cfg (.map h m ks vs)) :
    pairwiseDistinct cfg ks ∧ ks.length = vs.length ∧ WFL cfg ks ∧ WFL cfg vs := hw

theorem body_symm_step (cfg : Cfg) (f : Nat) (hS : SymAt cfg f) (hT : TransAt cfg f) (a b : Val)
    (ha : Good cfg (f + 1) a) (hb : Good cfg (f + 1) b)
    (h : body cfg (eqvF cfg f) a b = true) : body cfg (eqvF cfg f) b a = true := by
  by_cases hl : leaf a = true
  · exact body_leaf_symm cfg _ _ a b hl h
  cases a <;> first | exact absurd rfl hl | skip
  all_goals cases b <;> first | exact absurd h Bool.false_ne_true | skip
  case set.set h1 m1 xs h2 m2 ys =>
    have h' : setBody (eqvF cfg f) xs ys = true := h
    show setBody (eqvF cfg f) ys xs = true
    have gx : ∀ x ∈ xs, Good cfg f x := fun x hx => ha.child hx
    have gy : ∀ y ∈ ys, Good cfg f y := fun y hy => hb.child hy
    obtain ⟨ys', hperm, hrel⟩ := setBody_matching xs ys
      (distinct_at cfg f xs (WF_set ha.2).1 fun x hx => (gx x hx).1)
      (fun x1 hx1 x2 hx2 y hy r1 r2 =>
        hT x1 y x2 (gx x1 hx1) (gy y hy) (gx x2 hx2) r1 (hS x2 y (gx x2 hx2) (gy y hy) r2)) h'
    rw [setBody_iff] at h' ⊢
    refine ⟨h'.1.symm, ?_⟩
    intro y hy
    obtain ⟨x, hx, hxy⟩ := hrel.mem_right y (hperm.mem_iff.mpr hy)
    exact ⟨x, hx, hS x y (gx x hx) (gy y hy) hxy⟩
  case map.map h1 m1 ks vs h2 m2 ks' vs' =>
    have h' : mapBody (eqvF cfg f) ks vs ks' vs' = true := h
    show mapBody (eqvF cfg f) ks' vs' ks vs = true
    have gk : ∀ x ∈ ks, Good cfg f x := fun x hx => ha.child (List.mem_append_left _ hx)
    have gv : ∀ x ∈ vs, Good cfg f x := fun x hx => ha.child (List.mem_append_right _ hx)
    have gk' : ∀ x ∈ ks', Good cfg f x := fun x hx => hb.child (List.mem_append_left _ hx)
    have gv' : ∀ x ∈ vs', Good cfg f x := fun x hx => hb.child (List.mem_append_right _ hx)
    obtain ⟨hd, hl1, -, -⟩ := WF_map ha.2
    obtain ⟨hd', hl2, -, -⟩ := WF_map hb.2
    have hpw := distinct_at cfg f ks hd fun x hx => (gk x hx).1
    obtain ⟨qs, hperm, hrel⟩ := mapBody_matching ks vs ks' vs' hl1 hl2 hpw
      (fun x1 hx1 x2 hx2 y hy r1 r2 =>
        hT x1 y x2 (gk x1 hx1) (gk' y hy) (gk x2 hx2) r1 (hS x2 y (gk x2 hx2) (gk' y hy) r2)) h'
    have hlen := (mapBody_elim ks vs ks' vs' hl1 h').1
    refine mapBody_intro ks' vs' ks vs hl2 hlen.symm hpw ?_ ?_
    · intro k' hk' k1 hk1 k2 hk2 r1 r2
      exact hT k1 k' k2 (gk k1 hk1) (gk' k' hk') (gk k2 hk2)
        (hS k' k1 (gk' k' hk') (gk k1 hk1) r1) r2
    · intro q' hq'
      obtain ⟨q, hq, hr⟩ := hrel.mem_right q' (hperm.mem_iff.mpr hq')
      have m := List.of_mem_zip (a := q.1) (b := q.2) hq
      have m' := List.of_mem_zip (a := q'.1) (b := q'.2) hq'
      exact ⟨q, hq, hS _ _ (gk _ m.1) (gk' _ m'.1) hr.1, hS _ _ (gv _ m.2) (gv' _ m'.2) hr.2⟩
  case tagged.tagged h1 m1 t v h2 m2 t' v' =>
    have h' : (t == t' && eqvF cfg f v v') = true := h
    show (t' == t && eqvF cfg f v' v) = true
    rw [Bool.and_eq_true, beq_iff_eq] at h' ⊢
    exact ⟨h'.1.symm, hS v v' (ha.child (List.mem_singleton.mpr rfl))
      (hb.child (List.mem_singleton.mpr rfl)) h'.2⟩
  all_goals
    rename_i h1 m1 xs h2 m2 ys
    have h' : seqBody (eqvF cfg f) xs ys = true := h
    show seqBody (eqvF cfg f) ys xs = true
    rw [seqBody_iff] at h' ⊢
    exact h'.symm' fun x hx y hy => hS x y (ha.child hx) (hb.child hy)

theorem body_trans_step (cfg : Cfg) (f : Nat) (hS : SymAt cfg f) (hT : TransAt cfg f) (a b c : Val)
    (ha : Good cfg (f + 1) a) (hb : Good cfg (f + 1) b) (hc : Good cfg (f + 1) c)
    (h : body cfg (eqvF cfg f) a b = true) (h' : body cfg (eqvF cfg f) b c = true) :
    body cfg (eqvF cfg f) a c = true := by
  by_cases hl : leaf a = true
  · exact body_leaf_trans cfg _ _ _ a b c hl h h'
  cases a <;> first | exact absurd rfl hl | skip
  all_goals cases b <;> first | exact absurd h Bool.false_ne_true | skip
  all_goals cases c <;> first | exact absurd h' Bool.false_ne_true | skip
  case set.set.set h1 m1 xs h2 m2 ys h3 m3 zs =>
    have e : setBody (eqvF cfg f) xs ys = true := h
    have e' : setBody (eqvF cfg f) ys zs = true := h'
    show setBody (eqvF cfg f) xs zs = true
    rw [setBody_iff] at e e' ⊢
    refine ⟨e.1.trans e'.1, ?_⟩
    intro x hx
    obtain ⟨y, hy, r1⟩ := e.2 x hx
    obtain ⟨z, hz, r2⟩ := e'.2 y hy
    exact ⟨z, hz, hT x y z (ha.child hx) (hb.child hy) (hc.child hz) r1 r2⟩
  case map.map.map h1 m1 ks vs h2 m2 ks' vs' h3 m3 ks'' vs'' =>
    have e : mapBody (eqvF cfg f) ks vs ks' vs' = true := h
    have e' : mapBody (eqvF cfg f) ks' vs' ks'' vs'' = true := h'
    show mapBody (eqvF cfg f) ks vs ks'' vs'' = true
    have gk : ∀ x ∈ ks, Good cfg f x := fun x hx => ha.child (List.mem_append_left _ hx)
    have gv : ∀ x ∈ vs, Good cfg f x := fun x hx => ha.child (List.mem_append_right _ hx)
    have gk' : ∀ x ∈ ks', Good cfg f x := fun x hx => hb.child (List.mem_append_left _ hx)
    have gv' : ∀ x ∈ vs', Good cfg f x := fun x hx => hb.child (List.mem_append_right _ hx)
    have gk'' : ∀ x ∈ ks'', Good cfg f x := fun x hx => hc.child (List.mem_append_left _ hx)
    have gv'' : ∀ x ∈ vs'', Good cfg f x := fun x hx => hc.child (List.mem_append_right _ hx)
    obtain ⟨-, hl1, -, -⟩ := WF_map ha.2
    obtain ⟨-, hl2, -, -⟩ := WF_map hb.2
    obtain ⟨hd3, hl3, -, -⟩ := WF_map hc.2
    obtain ⟨n1, r1⟩ := mapBody_elim ks vs ks' vs' hl1 e
    obtain ⟨n2, r2⟩ := mapBody_elim ks' vs' ks'' vs'' hl2 e'
    refine mapBody_intro ks vs ks'' vs'' hl1 (n1.trans n2)
      (distinct_at cfg f ks'' hd3 fun x hx => (gk'' x hx).1) ?_ ?_
    · intro k hk k1 hk1 k2 hk2 s1 s2
      exact hT k1 k k2 (gk'' k1 hk1) (gk k hk) (gk'' k2 hk2)
        (hS k k1 (gk k hk) (gk'' k1 hk1) s1) s2
    · intro q hq
      obtain ⟨q', hq', s1⟩ := r1 q hq
      obtain ⟨q'', hq'', s2⟩ := r2 q' hq'
      have m := List.of_mem_zip (a := q.1) (b := q.2) hq
      have m' := List.of_mem_zip (a := q'.1) (b := q'.2) hq'
      have m'' := List.of_mem_zip (a := q''.1) (b := q''.2) hq''
      exact ⟨q'', hq'', hT _ _ _ (gk _ m.1) (gk' _ m'.1) (gk'' _ m''.1) s1.1 s2.1,
        hT _ _ _ (gv _ m.2) (gv' _ m'.2) (gv'' _ m''.2) s1.2 s2.2⟩
  case tagged.tagged.tagged h1 m1 t v h2 m2 t' v' h3 m3 t'' v'' =>
    have e : (t == t' && eqvF cfg f v v') = true := h
    have e' : (t' == t'' && eqvF cfg f v' v'') = true := h'
    show (t == t'' && eqvF cfg f v v'') = true
    rw [Bool.and_eq_true, beq_iff_eq] at e e' ⊢
    exact ⟨e.1.trans e'.1, hT v v' v'' (ha.child (List.mem_singleton.mpr rfl))
      (hb.child (List.mem_singleton.mpr rfl)) (hc.child (List.mem_singleton.mpr rfl)) e.2 e'.2⟩
  all_goals
    rename_i h1 m1 xs h2 m2 ys h3 m3 zs
    have e : seqBody (eqvF cfg f) xs ys = true := h
    have e' : seqBody (eqvF cfg f) ys zs = true := h'
    show seqBody (eqvF cfg f) xs zs = true
    rw [seqBody_iff] at e e' ⊢
    exact e.trans' e' fun x hx y hy z hz => hT x y z (ha.child hx) (hb.child hy) (hc.child hz)

theorem symm_trans_at (cfg : Cfg) : ∀ f, SymAt cfg f ∧ TransAt cfg f := by
  intro f
  induction f with
  | zero =>
    exact ⟨fun a _ ha _ _ => absurd ha.1 (Nat.not_lt_zero _),
      fun a _ _ ha _ _ _ _ => absurd ha.1 (Nat.not_lt_zero _)⟩
  | succ f ih =>
    refine ⟨?_, ?_⟩
    · intro a b ha hb h
      rw [eqvF_succ] at h ⊢
      exact body_symm_step cfg f ih.1 ih.2 a b ha hb h
    · intro a b c ha hb hc h h'
      rw [eqvF_succ] at h h' ⊢
      exact body_trans_step cfg f ih.1 ih.2 a b c ha hb hc h h'

end Edn.Proofs
