/-
  Edn.Proofs.RejectDocX — "not in the grammar ⇒ never a value" in every configuration (C10).

  `Edn.Proofs.RejectDoc.core_not_in_grammar_rejected` is about the core configuration and the
  grammar `Edn.Spec.Form`.  Here the same is stated for all four combinations of the two feature
  flags against `Edn.Spec.FormX cfg (numJOf cfg) (strJOf cfg)`, where `numJOf` / `strJOf` pick the
  fully instantiated number / string judgements of each configuration (`coreNumJ`, `cljNumJ cfg`,
  `expNumJ`; `rawStrJ`, `expStrJ` — `Edn.Proofs.SoundX`, `Edn.Proofs.SoundXInst`), so that no
  abstract exactness hypothesis is left:

    `numExact_of`, `strExact_of`      the chosen judgements are exact for the two leaf readers
    `read_iff_grammarX`               `read_iff_X` with the judgements plugged in
    `accepted_is_grammarX_prefix`     whatever is accepted is a `FormX` prefix of the input
    `not_in_grammarX_rejected`        no `FormX` prefix ⇒ an error (code ≠ OK), or - only when the
                                      caller supplied an end-of-input value - that value; never a tree
    `not_in_grammarX_never_a_value`   the same as a plain negative statement

  The four instances are definitional (`numJOf_core` … `strJOf_clj_exp`, all by `rfl`), so the
  statements specialise to the grammars named in `Edn.Properties.C03`.
-/
import Edn.Proofs.Reject
import Edn.Proofs.CompleteX
import Edn.Proofs.SoundXInst

namespace Edn.Proofs.RejectDocX
open Edn.Model Edn.Spec Edn.Generated Edn.Proofs

/-! ## the judgements of each configuration -/

/-- the number-token judgement of a configuration: `CljNum` with the Clojure flag (with `_`
    separators when the experimental flag is set too), `ExpNum` with the experimental flag alone,
    `CoreNum` otherwise -/
def numJOf (cfg : Cfg) : NumJ :=
  match cfg.clj, cfg.exp with
  | true, _ => cljNumJ cfg
  | false, true => expNumJ
  | false, false => coreNumJ

/-- the string-token judgement of a configuration: ordinary literals, and text blocks with the
    experimental flag -/
def strJOf (cfg : Cfg) : StrJ :=
  match cfg.exp with
  | true => expStrJ
  | false => rawStrJ

theorem numJOf_core : numJOf Cfg.core = coreNumJ := rfl
theorem numJOf_clj : numJOf ⟨true, false⟩ = cljNumJ ⟨true, false⟩ := rfl
theorem numJOf_exp : numJOf ⟨false, true⟩ = expNumJ := rfl
theorem numJOf_clj_exp : numJOf ⟨true, true⟩ = cljNumJ ⟨true, true⟩ := rfl
theorem strJOf_core : strJOf Cfg.core = rawStrJ := rfl
theorem strJOf_clj : strJOf ⟨true, false⟩ = rawStrJ := rfl
theorem strJOf_exp : strJOf ⟨false, true⟩ = expStrJ := rfl
theorem strJOf_clj_exp : strJOf ⟨true, true⟩ = expStrJ := rfl

/-- the chosen number judgement is exactly what `edn_read_number` accepts in that configuration -/
theorem numExact_of (cfg : Cfg) : NumExact cfg (numJOf cfg) := by
  obtain ⟨c, e⟩ := cfg
  cases c with
  | true => exact numExact_clj ⟨true, e⟩ rfl
  | false =>
    cases e with
    | true => exact numExact_exp
    | false => exact numExact_core

/-- the chosen string judgement is exactly what `edn_read_string` accepts in that configuration -/
theorem strExact_of (cfg : Cfg) : StrExact cfg (strJOf cfg) := by
  obtain ⟨c, e⟩ := cfg
  cases e with
  | true => exact strExact_exp ⟨c, true⟩ rfl
  | false => exact strExact_raw ⟨c, false⟩ rfl

/-! ## the accepted language, with nothing abstract left -/

/-- `edn_read` (no registry) returns a tree with content `a` **iff** the input starts with a form
    of the configuration's grammar that denotes `a` within the nesting limit -/
theorem read_iff_grammarX (cfg : Cfg) (opts : Opts) (hreg : opts.registry = none) (input : Bytes) (a : Val) :
    (∃ v, (read cfg opts input).out = .value v ∧ stripM v = a) ↔
    ∃ k tok rest, k ≤ Tables.maxNestingDepth ∧ input = tok ++ rest ∧
      FormX cfg (numJOf cfg) (strJOf cfg) k a tok rest :=
  read_iff_X cfg opts hreg _ _ (numExact_of cfg) (strExact_of cfg) input a

/-- **whatever is accepted is a prefix in the grammar**: if `edn_read` returns a tree, the input
    starts with a form of the configuration's grammar (within the nesting limit) denoting the
    tree's content, metadata included -/
theorem accepted_is_grammarX_prefix (cfg : Cfg) (opts : Opts) (hreg : opts.registry = none) (input : Bytes) (v : Val)
    (h : (read cfg opts input).out = .value v) :
    ∃ k tok rest, k ≤ Tables.maxNestingDepth ∧ input = tok ++ rest ∧
      FormX cfg (numJOf cfg) (strJOf cfg) k (stripM v) tok rest :=
  (read_iff_grammarX cfg opts hreg input (stripM v)).1 ⟨v, h, rfl⟩

/-- the end-of-input outcome is only ever produced for a caller who supplied an end-of-input value -/
theorem eofValue_only_if_supplied (cfg : Cfg) (opts : Opts) (input : Bytes)
    (h : (read cfg opts input).out = .eofValue) : opts.eofValue = true := by
  have hx := read_value_xor_error cfg opts input
  rw [h] at hx
  exact hx

/-- **not in the grammar ⇒ rejected, in every configuration**: an input no prefix of which is a
    form of `FormX cfg …` within the nesting limit yields an error with a code other than OK, or -
    only when the caller supplied an end-of-input value - that value.  Never a tree. -/
theorem not_in_grammarX_rejected (cfg : Cfg) (opts : Opts) (hreg : opts.registry = none) (input : Bytes)
    (hnot : ¬ ∃ k a tok rest, k ≤ Tables.maxNestingDepth ∧ input = tok ++ rest ∧
      FormX cfg (numJOf cfg) (strJOf cfg) k a tok rest) :
    (∃ code es ee, (read cfg opts input).out = .error code es ee ∧ code ≠ .ok) ∨
    ((read cfg opts input).out = .eofValue ∧ opts.eofValue = true) := by
  have hx := read_value_xor_error cfg opts input
  cases ho : (read cfg opts input).out with
  | value v =>
    obtain ⟨k, tok, rest, hk, h1, h2⟩ := accepted_is_grammarX_prefix cfg opts hreg input v ho
    exact absurd ⟨k, _, tok, rest, hk, h1, h2⟩ hnot
  | eofValue =>
    rw [ho] at hx
    exact .inr ⟨rfl, hx⟩
  | error code es ee =>
    rw [ho] at hx
    exact .inl ⟨code, es, ee, rfl, hx⟩
  | fuelOut => rw [ho] at hx; exact hx.elim

/-- … in particular it is never read as a value -/
theorem not_in_grammarX_never_a_value (cfg : Cfg) (opts : Opts) (hreg : opts.registry = none) (input : Bytes)
    (hnot : ¬ ∃ k a tok rest, k ≤ Tables.maxNestingDepth ∧ input = tok ++ rest ∧
      FormX cfg (numJOf cfg) (strJOf cfg) k a tok rest) :
    ∀ v, (read cfg opts input).out ≠ .value v := by
  intro v h
  obtain ⟨k, tok, rest, hk, h1, h2⟩ := accepted_is_grammarX_prefix cfg opts hreg input v h
  exact hnot ⟨k, _, tok, rest, hk, h1, h2⟩

/-- … and without an end-of-input value it is an error, full stop -/
theorem not_in_grammarX_error (cfg : Cfg) (opts : Opts) (hreg : opts.registry = none) (hev : opts.eofValue = false)
    (input : Bytes)
    (hnot : ¬ ∃ k a tok rest, k ≤ Tables.maxNestingDepth ∧ input = tok ++ rest ∧
      FormX cfg (numJOf cfg) (strJOf cfg) k a tok rest) :
    ∃ code es ee, (read cfg opts input).out = .error code es ee ∧ code ≠ .ok := by
  rcases not_in_grammarX_rejected cfg opts hreg input hnot with h | ⟨-, h⟩
  · exact h
  · rw [hev] at h; cases h

/-! ## non-vacuity: inputs outside the grammar of a configuration

  By completeness (`read_iff_grammarX`, right to left) an input the reader does not accept has no
  prefix in the grammar; the reader's verdict on a concrete input is computed by `decide +kernel`. -/

/-- an input the reader (default options) does not read as a value has no prefix in the grammar -/
theorem no_prefix_of_not_value (cfg : Cfg) (input : Bytes)
    (hb : (match (read cfg {} input).out with | .value _ => false | _ => true) = true) :
    ¬ ∃ k a tok rest, k ≤ Tables.maxNestingDepth ∧ input = tok ++ rest ∧
      FormX cfg (numJOf cfg) (strJOf cfg) k a tok rest := by
  rintro ⟨k, a, tok, rest, hk, e, h⟩
  obtain ⟨v, hv, -⟩ := (read_iff_grammarX cfg {} rfl input a).2 ⟨k, tok, rest, hk, e, h⟩
  rw [hv] at hb
  cases hb

/-- `^` alone is outside the grammar with the Clojure flag (a metadata marker with nothing behind it) … -/
example : ¬ ∃ k a tok rest, k ≤ Tables.maxNestingDepth ∧ "^".toUTF8.toList = tok ++ rest ∧
    FormX ⟨true, false⟩ (numJOf ⟨true, false⟩) (strJOf ⟨true, false⟩) k a tok rest :=
  no_prefix_of_not_value _ _ (by decide +kernel)

/-- … and inside it without (there `^` is an identifier byte: the symbol `^`) -/
example : ∃ k a tok rest, k ≤ Tables.maxNestingDepth ∧ "^".toUTF8.toList = tok ++ rest ∧
    FormX Cfg.core (numJOf Cfg.core) (strJOf Cfg.core) k a tok rest := by
  have hb : (match (read Cfg.core {} "^".toUTF8.toList).out with | .value _ => true | _ => false) = true := by
    decide +kernel
  cases ho : (read Cfg.core {} "^".toUTF8.toList).out with
  | value v =>
    obtain ⟨k, tok, rest, h⟩ := accepted_is_grammarX_prefix Cfg.core {} rfl _ v ho
    exact ⟨k, _, tok, rest, h⟩
  | eofValue => rw [ho] at hb; cases hb
  | error c s e => rw [ho] at hb; cases hb
  | fuelOut => rw [ho] at hb; cases hb

/-- `#:a{:x 1 :a/x 2}` (two spellings of one key) is outside the grammar with both flags -/
example : ¬ ∃ k a tok rest, k ≤ Tables.maxNestingDepth ∧ "#:a{:x 1 :a/x 2}".toUTF8.toList = tok ++ rest ∧
    FormX ⟨true, true⟩ (numJOf ⟨true, true⟩) (strJOf ⟨true, true⟩) k a tok rest :=
  no_prefix_of_not_value _ _ (by decide +kernel)

/-- `1/0` is outside the grammar of every configuration -/
example : ∀ cfg ∈ [Cfg.core, ⟨true, false⟩, ⟨false, true⟩, ⟨true, true⟩],
    ¬ ∃ k a tok rest, k ≤ Tables.maxNestingDepth ∧ "1/0".toUTF8.toList = tok ++ rest ∧
      FormX cfg (numJOf cfg) (strJOf cfg) k a tok rest := by
  intro cfg hc
  apply no_prefix_of_not_value
  revert cfg
  decide +kernel

/-- `"""⏎abc` (an unclosed text block) is outside the grammar with the experimental flag -/
example : ¬ ∃ k a tok rest, k ≤ Tables.maxNestingDepth ∧ "\"\"\"\nabc".toUTF8.toList = tok ++ rest ∧
    FormX ⟨false, true⟩ (numJOf ⟨false, true⟩) (strJOf ⟨false, true⟩) k a tok rest :=
  no_prefix_of_not_value _ _ (by decide +kernel)

/-- the theorem at work: `^` with the Clojure flag and an end-of-input value supplied -/
example : (∃ code es ee, (read ⟨true, false⟩ { eofValue := true } "^".toUTF8.toList).out = .error code es ee ∧ code ≠ .ok) ∨
    ((read ⟨true, false⟩ { eofValue := true } "^".toUTF8.toList).out = .eofValue ∧ ({ eofValue := true } : Opts).eofValue = true) :=
  not_in_grammarX_rejected _ _ rfl _ (no_prefix_of_not_value _ _ (by decide +kernel))

end Edn.Proofs.RejectDocX
