/-
  Edn.Proofs.CljNumberSoundAux3 — the number reader with the Clojure flag: fraction, exponent
  and suffix of the decimal forms, in both directions (what an `.ok` answer forces, and what a
  well-formed token produces).
-/
import Edn.Spec.CljNumLit
import Edn.Proofs.NumberReader
import Edn.Proofs.CljNumberSoundAux1
import Edn.Proofs.CljNumberSoundAux2

namespace Edn.Proofs.CljN
open Edn.Model Edn.Spec Edn.Proofs Edn.Proofs.CNum

/-! ## inversion: fraction and exponent -/

theorem decimalPart_inv (cfg : Cfg) (start : Bytes) (neg : Bool) (dS Y : Bytes) (v : NumVal) (rest : Bytes)
    (h : decimalPart cfg start neg dS (0x2E :: Y) = .ok v rest) :
    ∃ fd Z, Y = fd ++ Z ∧ URun cfg.exp is09 fd ∧ fd.head? ≠ some 0x5F ∧
      afterMantissa cfg start neg true dS Z = .ok v rest := by
  have h : (if (cfg.exp && peek Y == 0x5F) = true then NumOut.err Y
      else afterMantissa cfg start neg true dS (fracDigits cfg.exp Y)) = .ok v rest := h
  by_cases hu : (cfg.exp && peek Y == 0x5F) = true
  · rw [if_pos hu] at h
    exact NumOut.noConfusion h
  · rw [if_neg hu] at h
    obtain ⟨fd, Z, rfl, hfd, -, -, hfr⟩ := fracDigits_split cfg.exp Y
    rw [hfr] at h
    refine ⟨fd, Z, rfl, hfd, ?_, h⟩
    cases fd with
    | nil => simp
    | cons c t =>
      intro hc
      simp only [List.head?_cons, Option.some.injEq] at hc
      subst hc
      rcases hfd 0x5F (by simp) with h1 | ⟨h1, -⟩
      · exact absurd h1 (by decide)
      · apply hu
        rw [h1]
        rfl

theorem exponentPart_inv (cfg : Cfg) (start : Bytes) (neg hasDec : Bool) (dS : Bytes) (e : UInt8) (Z1 : Bytes)
    (v : NumVal) (rest : Bytes)
    (h : exponentPart cfg start neg hasDec dS (e :: Z1) = .ok v rest) :
    ∃ es ed T, Z1 = es ++ ed ++ T ∧ (es = [] ∨ es = [0x2B] ∨ es = [0x2D]) ∧ DigRun cfg.exp is09 ed ∧
      decimalTail cfg start neg hasDec true dS T = .ok v rest := by
  have hsplit : ∃ es Z2, Z1 = es ++ Z2 ∧ (es = [] ∨ es = [0x2B] ∨ es = [0x2D]) ∧
      (if peek Z1 == 0x2B || peek Z1 == 0x2D then adv Z1 else Z1) = Z2 := by
    by_cases hs : (peek Z1 == 0x2B || peek Z1 == 0x2D) = true
    · simp only [hs, ↓reduceIte]
      simp only [Bool.or_eq_true, beq_iff_eq] at hs
      rcases hs with hs | hs
      · obtain ⟨t, rfl⟩ := NSnd.of_peek hs (by decide)
        exact ⟨[0x2B], t, rfl, Or.inr (Or.inl rfl), rfl⟩
      · obtain ⟨t, rfl⟩ := NSnd.of_peek hs (by decide)
        exact ⟨[0x2D], t, rfl, Or.inr (Or.inr rfl), rfl⟩
    · simp only [hs, Bool.false_eq_true, ↓reduceIte]
      exact ⟨[], Z1, rfl, Or.inl rfl, rfl⟩
  obtain ⟨es, Z2, hZ1, hes, hZ2⟩ := hsplit
  have heq : exponentPart cfg start neg hasDec dS (e :: Z1) =
      if !is09 (peek Z2) then .err Z2
      else decimalTail cfg start neg hasDec true dS (fracDigits cfg.exp Z2) := by
    subst hZ2
    rfl
  rw [heq] at h
  by_cases hd : is09 (peek Z2) = true
  · simp only [hd, Bool.not_true, Bool.false_eq_true, ↓reduceIte] at h
    obtain ⟨run, T, rfl, hrun, hT, -, hfr⟩ := fracDigits_split cfg.exp Z2
    rw [hfr] at h
    cases run with
    | nil =>
      rw [List.nil_append, hT] at hd
      exact Bool.noConfusion hd
    | cons d t =>
      refine ⟨es, d :: t, T, by rw [hZ1, List.append_assoc], hes, ⟨d, t, rfl, hd, uRun_tail hrun⟩, h⟩
  · simp only [hd, Bool.not_false, ↓reduceIte] at h
    exact NumOut.noConfusion h

theorem afterMantissa_inv (cfg : Cfg) (start : Bytes) (neg hasDec : Bool) (pre Z : Bytes) (v : NumVal)
    (rest : Bytes) (h : afterMantissa cfg start neg hasDec (pre ++ Z) Z = .ok v rest) :
    ∃ ex T, Z = ex ++ T ∧ CljExp cfg.exp ex ∧ (ex ≠ [] → cfg.exp = true → NoTrailU pre) ∧
      (ex = [] → (peek Z == 0x65 || peek Z == 0x45) = false) ∧
      decimalTail cfg start neg hasDec (!ex.isEmpty) (pre ++ Z) T = .ok v rest := by
  unfold afterMantissa at h
  by_cases he : (peek Z == 0x65 || peek Z == 0x45) = true
  · simp only [he, ↓reduceIte] at h
    by_cases hu : (cfg.exp && lastIsUnderscore (pre ++ Z) Z) = true
    · rw [if_pos hu] at h
      exact NumOut.noConfusion h
    · rw [if_neg hu] at h
      have hz : ∃ e Z1, Z = e :: Z1 ∧ (e = 0x65 ∨ e = 0x45) := by
        simp only [Bool.or_eq_true, beq_iff_eq] at he
        rcases he with he | he
        · obtain ⟨t, rfl⟩ := NSnd.of_peek he (by decide)
          exact ⟨_, t, rfl, Or.inl rfl⟩
        · obtain ⟨t, rfl⟩ := NSnd.of_peek he (by decide)
          exact ⟨_, t, rfl, Or.inr rfl⟩
      obtain ⟨e, Z1, rfl, hee⟩ := hz
      obtain ⟨es, ed, T, rfl, hes, hed, ht⟩ := exponentPart_inv cfg start neg hasDec _ e Z1 v rest h
      refine ⟨e :: (es ++ ed), T, by simp, Or.inr ⟨e, es, ed, rfl, hee, hes, hed⟩, ?_,
        fun h => absurd h (by simp), by simpa using ht⟩
      intro _ hexp
      rw [hexp, Bool.true_and] at hu
      exact (lastIsUnderscore_iff pre _).mp (by simpa using hu)
  · simp only [he, Bool.false_eq_true, ↓reduceIte] at h
    exact ⟨[], Z, rfl, Or.inl rfl, fun h => absurd rfl h, fun _ => by simpa using he, by simpa using h⟩

theorem afterIp_inv (cfg : Cfg) (s0 : Bytes) (neg : Bool) (ip X : Bytes) (v : NumVal) (rest : Bytes)
    (h : afterIp cfg s0 neg (ip ++ X) X = .ok v rest) :
    ∃ fr ex T, X = fr ++ (ex ++ T) ∧ CljFrac cfg.exp fr ∧ CljExp cfg.exp ex ∧
      (ex ≠ [] → cfg.exp = true → NoTrailU (ip ++ fr)) ∧
      (fr = [] → (peek X == 0x2E) = false) ∧
      (ex = [] → (peek (ex ++ T) == 0x65 || peek (ex ++ T) == 0x45) = false) ∧
      decimalTail cfg s0 neg (!fr.isEmpty) (!ex.isEmpty) (ip ++ X) T = .ok v rest := by
  unfold afterIp at h
  by_cases hp : (peek X == 0x2E) = true
  · rw [if_pos hp] at h
    simp only [beq_iff_eq] at hp
    obtain ⟨Y, rfl⟩ := NSnd.of_peek hp (by decide)
    obtain ⟨fd, Z, rfl, hfd, hhd, h1⟩ := decimalPart_inv cfg s0 neg _ Y v rest h
    have hassoc : ip ++ 0x2E :: (fd ++ Z) = (ip ++ 0x2E :: fd) ++ Z := by simp
    rw [hassoc] at h1
    obtain ⟨ex, T, rfl, hex, hsep, hne, h2⟩ := afterMantissa_inv cfg s0 neg true _ _ v rest h1
    refine ⟨0x2E :: fd, ex, T, by simp, Or.inr ⟨fd, rfl, hfd, hhd⟩, hex, hsep,
      fun h => absurd h (by simp), hne, ?_⟩
    rw [hassoc]
    simpa using h2
  · rw [if_neg hp] at h
    obtain ⟨ex, T, rfl, hex, hsep, hne, h2⟩ := afterMantissa_inv cfg s0 neg false ip _ v rest h
    refine ⟨[], ex, T, by simp, Or.inl rfl, hex, ?_, fun _ => by simpa using hp, hne, by simpa using h2⟩
    simpa using hsep

/-! ## inversion: the suffix -/

/-- value creation of a ratio whose denominator has been scanned -/
def ratioOut (cfg : Cfg) (neg : Bool) (digits den s' : Bytes) : NumOut :=
  let n? := parseInt64 cfg digits 10 neg
  let d? := parseInt64 cfg den 10 false
  match n?, d? with
  | some n, some d =>
    let g := ratioGcd n d
    let n' := if g > 1 then n / (g : Int) else n
    let d' := if g > 1 then d / (g : Int) else d
    if n' == 0 then .ok (.int 0) s'
    else if d' == 1 then .ok (.int n') s'
    else finishNum (.ratio n' d') s'
  | _, some d =>
    if d == 1 then finishNum (.bigint neg 10 digits) s' else finishNum (.bigratio neg digits den) s'
  | _, none => finishNum (.bigratio neg digits den) s'

/-- the ratio branch as a function of the rest after the `/` -/
def ratioBranch (cfg : Cfg) (neg : Bool) (digits Y : Bytes) : NumOut :=
  match ratioDenominator Y with
  | .error cur => .err cur
  | .ok s' => ratioOut cfg neg digits (slice Y s') s'

theorem decimalTail_inv (cfg : Cfg) (hc : cfg.clj = true) (start : Bytes) (neg hd he : Bool) (body T : Bytes)
    (v : NumVal) (rest : Bytes) (h : decimalTail cfg start neg hd he (body ++ T) T = .ok v rest) :
    (hd = false ∧ he = false ∧ T = 0x4E :: rest ∧ v = .bigint neg 10 body ∧ TermStart rest ∧
        (cfg.exp = true → NoTrailU body)) ∨
    (T = 0x4D :: rest ∧ v = .bigdec neg body ∧ TermStart rest ∧ (cfg.exp = true → NoTrailU body)) ∨
    (hd = false ∧ he = false ∧ (cfg.exp = true → NoTrailU body) ∧
        ∃ Y, T = 0x2F :: Y ∧ ratioBranch cfg neg body Y = .ok v rest) ∨
    ((hd || he) = true ∧ rest = T ∧ v = .float (parseDouble cfg (slice start T)) ∧ TermStart rest) ∨
    (hd = false ∧ he = false ∧ rest = T ∧ v = intOrBig cfg body 10 neg ∧ TermStart rest) := by
  unfold decimalTail at h
  rw [slice_append] at h
  simp only [hc, Bool.true_and] at h
  by_cases h0 : (cfg.exp && (peek T == 0x4E || peek T == 0x4D || peek T == 0x2F) &&
      lastIsUnderscore (body ++ T) T) = true
  · rw [if_pos h0] at h
    exact NumOut.noConfusion h
  · rw [if_neg h0] at h
    -- the separator rule for the three suffix bytes
    have hsep : (peek T == 0x4E || peek T == 0x4D || peek T == 0x2F) = true → cfg.exp = true → NoTrailU body := by
      intro h1 h2
      rw [h1, h2] at h0
      exact (lastIsUnderscore_iff body T).mp (by simpa using h0)
    by_cases hN : (peek T == 0x4E && !hd && !he) = true
    · rw [if_pos hN] at h
      simp only [Bool.and_eq_true, beq_iff_eq, Bool.not_eq_true'] at hN
      have hs := hsep (by simp [hN.1.1])
      obtain ⟨t, rfl⟩ := NSnd.of_peek hN.1.1 (by decide)
      obtain ⟨rfl, rfl, ht⟩ := NSnd.finishNum_ok h
      exact Or.inl ⟨hN.1.2, hN.2, rfl, rfl, ht, hs⟩
    · rw [if_neg hN] at h
      by_cases hM : (peek T == 0x4D) = true
      · rw [if_pos hM] at h
        have hs := hsep (by simp [hM])
        simp only [beq_iff_eq] at hM
        obtain ⟨t, rfl⟩ := NSnd.of_peek hM (by decide)
        obtain ⟨rfl, rfl, ht⟩ := NSnd.finishNum_ok h
        exact Or.inr (Or.inl ⟨rfl, rfl, ht, hs⟩)
      · rw [if_neg hM] at h
        by_cases hR : (peek T == 0x2F && !hd && !he) = true
        · rw [if_pos hR] at h
          simp only [Bool.and_eq_true, beq_iff_eq, Bool.not_eq_true'] at hR
          have hs := hsep (by simp [hR.1.1])
          obtain ⟨Y, rfl⟩ := NSnd.of_peek hR.1.1 (by decide)
          refine Or.inr (Or.inr (Or.inl ⟨hR.1.2, hR.2, hs, Y, rfl, ?_⟩))
          exact h
        · rw [if_neg hR] at h
          by_cases hf : (hd || he) = true
          · rw [if_pos hf] at h
            obtain ⟨rfl, rfl, ht⟩ := NSnd.finishNum_ok h
            exact Or.inr (Or.inr (Or.inr (Or.inl ⟨hf, rfl, rfl, ht⟩)))
          · rw [if_neg hf] at h
            obtain ⟨rfl, rfl, ht⟩ := NSnd.finishNum_ok h
            simp only [Bool.or_eq_true, not_or, Bool.not_eq_true] at hf
            exact Or.inr (Or.inr (Or.inr (Or.inr ⟨hf.1, hf.2, rfl, rfl, ht⟩)))

/-! ## ratios -/

theorem delimStart_of_term {rest : Bytes} (ht : TermStart rest) : DelimStart rest := by
  rcases ht with rfl | ⟨c, t, rfl, h⟩
  · exact Or.inl rfl
  · right
    refine ⟨c, t, rfl, ?_⟩
    have := numTerm_isDelim c
    simpa [numTermIsDelim, h] using this

theorem delimStart_peek {rest : Bytes} (h : DelimStart rest) : peek rest = 0 ∨ isDelim (peek rest) = true := by
  rcases h with rfl | ⟨c, t, rfl, h⟩
  · exact Or.inl rfl
  · exact Or.inr h

theorem ratioDen_inv (Y s' : Bytes) (h : ratioDenominator Y = .ok s') :
    ∃ dd, Y = dd ++ s' ∧ RatioDen dd ∧ DelimStart s' := by
  unfold ratioDenominator at h
  by_cases h1 : (Y.isEmpty || !is09 (peek Y)) = true
  · simp only [h1, ↓reduceIte] at h
    cases h
  · simp only [h1, Bool.false_eq_true, ↓reduceIte] at h
    by_cases h2 : (peek Y == 0x30) = true
    · simp only [h2, ↓reduceIte] at h
      cases h
    · simp only [h2, Bool.false_eq_true, ↓reduceIte] at h
      obtain ⟨run, T, rfl, hrun, hT, hdw⟩ := dropWhile_split is09 (by decide) Y
      rw [hdw] at h
      by_cases h3 : (peek T == 0x4E || peek T == 0x4D || peek T == 0x2F) = true
      · simp only [h3, ↓reduceIte] at h
        cases h
      · simp only [h3, Bool.false_eq_true, ↓reduceIte] at h
        by_cases h4 : (!T.isEmpty && !isDelim (peek T)) = true
        · simp only [h4, ↓reduceIte] at h
          cases h
        · simp only [h4, Bool.false_eq_true, ↓reduceIte] at h
          injection h with h
          subst h
          simp only [Bool.or_eq_true, not_or, Bool.not_eq_true, Bool.not_eq_false'] at h1
          refine ⟨run, rfl, ⟨?_, hrun, ?_⟩, ?_⟩
          · rintro rfl
            rw [List.nil_append, hT] at h1
            exact Bool.noConfusion h1.2
          · cases run with
            | nil => simp
            | cons d t =>
              intro hd
              simp only [List.head?_cons, Option.some.injEq] at hd
              subst hd
              exact h2 rfl
          · cases T with
            | nil => exact Or.inl rfl
            | cons c t =>
              right
              refine ⟨c, t, rfl, ?_⟩
              simpa [peek_cons] using h4

theorem ratioDen_fwd (dd rest : Bytes) (hd : RatioDen dd) (ht : DelimStart rest) :
    ratioDenominator (dd ++ rest) = .ok rest := by
  have hp := delim_props (delimStart_peek ht)
  have hdw : (dd ++ rest).dropWhile is09 = rest := dropWhile_digits rest hp.2.1 dd hd.2.1
  obtain ⟨hne, hall, hh⟩ := hd
  cases dd with
  | nil => exact absurd rfl hne
  | cons d t =>
    have h1 : is09 d = true := hall d (by simp)
    have h0 : (d == 0x30) = false := by
      cases h : d == 0x30
      · rfl
      · exact absurd (by simp [eq_of_beq h]) hh
    have hpk : peek (d :: t ++ rest) = d := rfl
    have hemp : (d :: t ++ rest).isEmpty = false := rfl
    have hfin : (!rest.isEmpty && !isDelim (peek rest)) = false := by
      rcases ht with rfl | ⟨c, t', rfl, hc⟩
      · rfl
      · simp [peek_cons, hc]
    have e1 : (peek rest == 0x4E) = false := by simpa using hp.2.2.2.1
    have e2 : (peek rest == 0x4D) = false := by simpa using hp.2.2.2.2.1
    have e3 : (peek rest == 0x2F) = false := by simpa using hp.2.2.2.2.2
    unfold ratioDenominator
    simp only [hpk, hemp, h1, h0, Bool.not_true, Bool.or_self, Bool.false_eq_true, ↓reduceIte, hdw,
      e1, e2, e3, hfin]

/-- the value of a ratio: integer-valued ratios return at once, the others pass through the
    terminator test -/
theorem ratioOut_eq (cfg : Cfg) (neg : Bool) (nd dd s' : Bytes)
    (hn : ∃ V, parseInt64 cfg nd 10 neg = inRange neg V) (hd : RatioDen dd) :
    (∃ i, ratioValue cfg neg nd dd = .int i ∧ ratioOut cfg neg nd dd s' = .ok (.int i) s') ∨
    ((∀ i, ratioValue cfg neg nd dd ≠ .int i) ∧
      ratioOut cfg neg nd dd s' = finishNum (ratioValue cfg neg nd dd) s') := by
  obtain ⟨V, hnd⟩ := hn
  have hdd := NRd.parseInt64_digits cfg dd false hd.1 hd.2.1
  have hpos := NRd.natOfDigits_pos hd
  unfold ratioOut ratioValue
  cases hn' : parseInt64 cfg nd 10 neg with
  | none =>
    cases hd' : parseInt64 cfg dd 10 false with
    | none =>
      right
      exact ⟨fun i h => NumVal.noConfusion h, by first | rfl | trivial⟩
    | some d =>
      right
      simp only []
      by_cases h1 : (d == 1) = true
      · simp only [h1, ↓reduceIte]
        exact ⟨fun i h => NumVal.noConfusion h, by first | rfl | trivial⟩
      · simp only [h1, Bool.false_eq_true, ↓reduceIte]
        exact ⟨fun i h => NumVal.noConfusion h, by first | rfl | trivial⟩
  | some n =>
    cases hd' : parseInt64 cfg dd 10 false with
    | none =>
      right
      exact ⟨fun i h => NumVal.noConfusion h, by first | rfl | trivial⟩
    | some d =>
      have hnb := NRd.inRange_bound (hnd ▸ hn')
      have hdb := NRd.inRange_bound (hdd ▸ hd')
      have hg : ratioGcd n d = Nat.gcd n.natAbs d.natAbs := ratioGcd_eq n d hnb.1 hdb.1
      have hgpos : 1 ≤ Nat.gcd n.natAbs d.natAbs :=
        Nat.gcd_pos_of_pos_right _ (by rw [hdb.2]; omega)
      have hn1 : (if ratioGcd n d > 1 then n / ((ratioGcd n d : Nat) : Int) else n) =
          n / ((Nat.gcd n.natAbs d.natAbs : Nat) : Int) := by
        rw [hg]
        by_cases h : Nat.gcd n.natAbs d.natAbs > 1
        · simp only [h, ↓reduceIte]
        · have : Nat.gcd n.natAbs d.natAbs = 1 := by omega
          simp [this]
      have hd1 : (if ratioGcd n d > 1 then d / ((ratioGcd n d : Nat) : Int) else d) =
          d / ((Nat.gcd n.natAbs d.natAbs : Nat) : Int) := by
        rw [hg]
        by_cases h : Nat.gcd n.natAbs d.natAbs > 1
        · simp only [h, ↓reduceIte]
        · have : Nat.gcd n.natAbs d.natAbs = 1 := by omega
          simp [this]
      simp only [hn1, hd1]
      by_cases h1 : (n / ((Nat.gcd n.natAbs d.natAbs : Nat) : Int) == 0) = true
      · simp only [h1, ↓reduceIte]
        exact Or.inl ⟨0, rfl, rfl⟩
      · simp only [h1, Bool.false_eq_true, ↓reduceIte]
        by_cases h2 : (d / ((Nat.gcd n.natAbs d.natAbs : Nat) : Int) == 1) = true
        · simp only [h2, ↓reduceIte]
          exact Or.inl ⟨_, rfl, rfl⟩
        · simp only [h2, Bool.false_eq_true, ↓reduceIte]
          right
          exact ⟨fun i h => NumVal.noConfusion h, by first | rfl | trivial⟩

/-! ## forward: fraction and exponent -/

theorem decimalPart_fwd (cfg : Cfg) (start : Bytes) (neg : Bool) (dS fd Z : Bytes)
    (hfd : URun cfg.exp is09 fd) (hhd : fd.head? ≠ some 0x5F) (h1 : is09 (peek Z) = false)
    (h2 : cfg.exp = true → (peek Z == 0x5F) = false) :
    decimalPart cfg start neg dS (0x2E :: (fd ++ Z)) = afterMantissa cfg start neg true dS Z := by
  have hpk : (cfg.exp && peek (fd ++ Z) == 0x5F) = false := by
    cases fd with
    | nil =>
      cases he : cfg.exp
      · rfl
      · simpa using h2 he
    | cons c t =>
      have : c ≠ 0x5F := fun e => hhd (by simp [e])
      simp [peek_cons, this]
  have e : decimalPart cfg start neg dS (0x2E :: (fd ++ Z)) =
      (if (cfg.exp && peek (fd ++ Z) == 0x5F) = true then NumOut.err (fd ++ Z)
       else afterMantissa cfg start neg true dS (fracDigits cfg.exp (fd ++ Z))) := rfl
  rw [e]
  simp only [hpk, Bool.false_eq_true, ↓reduceIte, fracDigits_run cfg.exp fd Z hfd h1 h2]

theorem exponentPart_fwd (cfg : Cfg) (start : Bytes) (neg hasDec : Bool) (dS : Bytes)
    (e : UInt8) (es ed T : Bytes) (hes : es = [] ∨ es = [0x2B] ∨ es = [0x2D])
    (hed : DigRun cfg.exp is09 ed) (h1 : is09 (peek T) = false)
    (h2 : cfg.exp = true → (peek T == 0x5F) = false) :
    exponentPart cfg start neg hasDec dS (e :: (es ++ ed) ++ T) =
      decimalTail cfg start neg hasDec true dS T := by
  obtain ⟨d, t, rfl, hd1, ht⟩ := hed
  have hp := is09_props hd1
  have e1 : (d == 0x2B) = false := by simpa using hp.2.2.2.1
  have e2 : (d == 0x2D) = false := by simpa using hp.2.2.1
  have hfr := fracDigits_run cfg.exp (d :: t) T (uRun_cons (Or.inl hd1) ht) h1 h2
  unfold exponentPart
  rcases hes with rfl | rfl | rfl
  · have hadv : adv (e :: ([] ++ d :: t) ++ T) = d :: t ++ T := rfl
    have hpk : peek (d :: t ++ T) = d := rfl
    simp only [hadv, hpk, e1, e2, Bool.or_self, Bool.false_eq_true, ↓reduceIte, hd1, Bool.not_true, hfr]
  · have hadv : adv (e :: ([0x2B] ++ d :: t) ++ T) = 0x2B :: (d :: t ++ T) := rfl
    have hpk : peek (0x2B :: (d :: t ++ T)) = 0x2B := rfl
    have hadv2 : adv (0x2B :: (d :: t ++ T)) = d :: t ++ T := rfl
    have hpk2 : peek (d :: t ++ T) = d := rfl
    have e3 : ((0x2B : UInt8) == 0x2B) = true := rfl
    simp only [hadv, hpk, e3, Bool.true_or, ↓reduceIte, hadv2, hpk2, hd1, Bool.not_true,
      Bool.false_eq_true, hfr]
  · have hadv : adv (e :: ([0x2D] ++ d :: t) ++ T) = 0x2D :: (d :: t ++ T) := rfl
    have hpk : peek (0x2D :: (d :: t ++ T)) = 0x2D := rfl
    have hadv2 : adv (0x2D :: (d :: t ++ T)) = d :: t ++ T := rfl
    have hpk2 : peek (d :: t ++ T) = d := rfl
    have e3 : ((0x2D : UInt8) == 0x2D) = true := rfl
    simp only [hadv, hpk, e3, Bool.or_true, ↓reduceIte, hadv2, hpk2, hd1, Bool.not_true,
      Bool.false_eq_true, hfr]

theorem afterMantissa_fwd (cfg : Cfg) (start : Bytes) (neg hasDec : Bool) (pre ex T : Bytes)
    (hex : CljExp cfg.exp ex) (hsep : ex ≠ [] → NoTrailU pre) (hT : stopProps (peek T) = true) :
    afterMantissa cfg start neg hasDec (pre ++ (ex ++ T)) (ex ++ T) =
      decimalTail cfg start neg hasDec (!ex.isEmpty) (pre ++ (ex ++ T)) T := by
  have hsp := stopProps_unpack hT
  rcases hex with rfl | ⟨e, es, ed, rfl, he, hes, hed⟩
  · unfold afterMantissa
    simp only [List.nil_append, hsp.2.2.2.2.2.1, hsp.2.2.2.2.2.2.1, Bool.or_self, Bool.false_eq_true,
      ↓reduceIte, List.isEmpty_nil, Bool.not_true]
  · unfold afterMantissa
    have hpk : peek (e :: (es ++ ed) ++ T) = e := rfl
    have hee : (e == 0x65 || e == 0x45) = true := by
      rcases he with rfl | rfl <;> decide
    have hl : lastIsUnderscore (pre ++ (e :: (es ++ ed) ++ T)) (e :: (es ++ ed) ++ T) = false :=
      (lastIsUnderscore_iff pre _).mpr (hsep (by simp))
    simp only [hpk, hee, ↓reduceIte, hl, Bool.and_false, Bool.false_eq_true]
    rw [exponentPart_fwd cfg start neg hasDec _ e es ed T hes hed hsp.1 (fun _ => hsp.2.1)]
    rfl

theorem afterIp_fwd (cfg : Cfg) (s0 : Bytes) (neg : Bool) (ip fr ex T : Bytes)
    (hfr : CljFrac cfg.exp fr) (hex : CljExp cfg.exp ex) (hsep : ex ≠ [] → NoTrailU (ip ++ fr))
    (hT : stopProps (peek T) = true) :
    afterIp cfg s0 neg (ip ++ (fr ++ (ex ++ T))) (fr ++ (ex ++ T)) =
      decimalTail cfg s0 neg (!fr.isEmpty) (!ex.isEmpty) (ip ++ (fr ++ (ex ++ T))) T := by
  have hsp := stopProps_unpack hT
  -- the byte at the start of `ex ++ T`
  have hexT : is09 (peek (ex ++ T)) = false ∧ (peek (ex ++ T) == 0x5F) = false ∧
      (peek (ex ++ T) == 0x2E) = false := by
    rcases hex with rfl | ⟨e, es, ed, rfl, he, -⟩
    · exact ⟨hsp.1, hsp.2.1, hsp.2.2.2.2.1⟩
    · rcases he with rfl | rfl
      · exact ⟨(by decide : is09 0x65 = false), (by decide : ((0x65 : UInt8) == 0x5F) = false),
          (by decide : ((0x65 : UInt8) == 0x2E) = false)⟩
      · exact ⟨(by decide : is09 0x45 = false), (by decide : ((0x45 : UInt8) == 0x5F) = false),
          (by decide : ((0x45 : UInt8) == 0x2E) = false)⟩
  unfold afterIp
  rcases hfr with rfl | ⟨fd, rfl, hfd, hhd⟩
  · simp only [List.nil_append, hexT.2.2, Bool.false_eq_true, ↓reduceIte, List.isEmpty_nil, Bool.not_true]
    exact afterMantissa_fwd cfg s0 neg false ip ex T hex (by simpa using hsep) hT
  · have hpk : peek (0x2E :: fd ++ (ex ++ T)) = 0x2E := rfl
    simp only [hpk, BEq.rfl, ↓reduceIte]
    rw [List.cons_append, decimalPart_fwd cfg s0 neg _ fd (ex ++ T) hfd hhd hexT.1 (fun _ => hexT.2.1)]
    have hassoc : ip ++ 0x2E :: (fd ++ (ex ++ T)) = (ip ++ 0x2E :: fd) ++ (ex ++ T) := by simp
    rw [hassoc]
    exact afterMantissa_fwd cfg s0 neg true _ ex T hex hsep hT

/-! ## forward: the suffix -/

theorem decimalTail_N (cfg : Cfg) (start : Bytes) (neg : Bool) (body rest : Bytes) (hu : NoTrailU body) :
    decimalTail cfg start neg false false (body ++ 0x4E :: rest) (0x4E :: rest) =
      finishNum (.bigint neg 10 body) rest := by
  have hpk : peek (0x4E :: rest) = 0x4E := rfl
  have hadv : adv (0x4E :: rest) = rest := rfl
  have e3 : ((0x4E : UInt8) == 0x4E) = true := by decide
  have hl := (lastIsUnderscore_iff body (0x4E :: rest)).mpr hu
  unfold decimalTail
  simp only [hpk, hadv, e3, hl, Bool.and_false, Bool.false_eq_true, ↓reduceIte, Bool.not_false,
    Bool.and_self, slice_append]

theorem decimalTail_M' (cfg : Cfg) (start : Bytes) (neg hd he : Bool) (body rest : Bytes) (hu : NoTrailU body) :
    decimalTail cfg start neg hd he (body ++ 0x4D :: rest) (0x4D :: rest) =
      finishNum (.bigdec neg body) rest :=
  NRd.decimalTail_M cfg start neg hd he body rest ((lastIsUnderscore_iff body (0x4D :: rest)).mpr hu)

theorem decimalTail_int (cfg : Cfg) (start : Bytes) (neg : Bool) (body T : Bytes)
    (hT : stopProps2 (peek T) = true) :
    decimalTail cfg start neg false false (body ++ T) T = finishNum (intOrBig cfg body 10 neg) T := by
  have h2 := stopProps2_unpack hT
  unfold decimalTail
  simp only [h2.2.1, h2.2.2.1, h2.2.2.2, Bool.or_self, Bool.false_and, Bool.and_false,
    Bool.false_eq_true, ↓reduceIte, slice_append]

theorem decimalTail_slash (cfg : Cfg) (hc : cfg.clj = true) (start : Bytes) (neg : Bool) (body Y : Bytes)
    (hu : NoTrailU body) :
    decimalTail cfg start neg false false (body ++ 0x2F :: Y) (0x2F :: Y) = ratioBranch cfg neg body Y := by
  have hpk : peek (0x2F :: Y) = 0x2F := rfl
  have hadv : adv (0x2F :: Y) = Y := rfl
  have e1 : ((0x2F : UInt8) == 0x4E) = false := by decide
  have e2 : ((0x2F : UInt8) == 0x4D) = false := by decide
  have hl := (lastIsUnderscore_iff body (0x2F :: Y)).mpr hu
  unfold decimalTail ratioBranch ratioOut
  simp only [hpk, hadv, e1, e2, hl, hc, BEq.rfl, Bool.and_false, Bool.false_eq_true, ↓reduceIte,
    Bool.not_false, Bool.and_self, Bool.false_and, slice_append]
  cases ratioDenominator Y <;> rfl

end Edn.Proofs.CljN
