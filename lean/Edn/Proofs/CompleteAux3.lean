/-
  Edn.Proofs.CompleteAux3 — one lemma per structural constructor of `Renders` / `RendersSeq`:
  the sequence goals, lists, vectors, sets, maps, tagged elements and discards.
-/
import Edn.Proofs.CompleteAux2

namespace Edn.Proofs.Cmpl
open Edn.Model Edn.Spec Edn.Generated Edn.Proofs

/-- the value `Reads` returns can be chosen independently of the fuel -/
theorem reads_uniform {cfg : Cfg} {opts : Opts} {d : Nat} {a : Val} {s : Bytes} (h : Reads cfg opts d a s)
    (dm : Bool) (rest : Bytes) (cl : List Call) (hT : TermStart rest) :
    ∃ v, strip v = a ∧ ∀ f, 2 * (s ++ rest).length + 2 ≤ f →
      readValue { cfg := cfg, opts := opts } f d dm { rest := s ++ rest, calls := cl } = .ok v { rest := rest, calls := cl } := by
  obtain ⟨v, hv, hs⟩ := h dm rest cl (2 * (s.length + rest.length) + 2) hT (Nat.le_refl _)
  refine ⟨v, hs, ?_⟩
  intro f hf
  rw [← hv]
  apply readValue_fuel_irrelevant
  · exact hf
  · show 2 * (s ++ rest).length + 2 ≤ _
    rw [List.length_append]
    exact Nat.le_refl _

/-! ### sequences -/

/-- the forms of a collection body are read one after the other, whatever closing delimiter
    follows -/
def SeqGoal (cfg : Cfg) (opts : Opts) (d : Nat) (xs : List Val) (body : Bytes) : Prop :=
  ∀ (dm : Bool) (c : UInt8) (rest : Bytes) (cl : List Call), IsCloser c →
    ∃ ws, stripL ws = xs ∧
      ReadsSeq { cfg := cfg, opts := opts } d dm { rest := body ++ c :: rest, calls := cl } ws
        { rest := c :: rest, calls := cl }

theorem ReadsSeq.closer (ctx : Ctx) (d : Nat) (dm : Bool) (c : UInt8) (rest : Bytes) (cl : List Call)
    (hc : IsCloser c) :
    ReadsSeq ctx d dm { rest := c :: rest, calls := cl } [] { rest := c :: rest, calls := cl } := by
  refine .done _ _ ?_
  intro f hf
  cases f with
  | zero => omega
  | succ f => exact readValue_closer ctx f d dm c rest cl hc

theorem seq_nil (cfg : Cfg) (opts : Opts) (d : Nat) (tr : Bytes) (ht : Blank tr) : SeqGoal cfg opts d [] tr := by
  intro dm c rest cl hc
  exact ⟨[], stripL_nil, ReadsSeq.blank tr ht (ReadsSeq.closer _ d dm c rest cl hc)⟩

theorem ReadsSeq.cons_of_Reads {cfg : Cfg} {opts : Opts} {d : Nat} {a : Val} {s : Bytes}
    (h : Reads cfg opts (d + 1) a s) (dm : Bool) (r : Bytes) (cl : List Call) (hT : TermStart r)
    {ws : List Val} {st' : St}
    (hr : ReadsSeq { cfg := cfg, opts := opts } d dm { rest := r, calls := cl } ws st') :
    ∃ v, strip v = a ∧
      ReadsSeq { cfg := cfg, opts := opts } d dm { rest := s ++ r, calls := cl } (v :: ws) st' := by
  obtain ⟨v, hs, hv⟩ := reads_uniform h dm r cl hT
  refine ⟨v, hs, .step _ { rest := r, calls := cl } _ v ws hv ?_ hr⟩
  have := reads_consumes h
  show r.length < (s ++ r).length
  rw [List.length_append]
  omega

theorem seq_last (cfg : Cfg) (opts : Opts) (d : Nat) (a : Val) (s tr : Bytes)
    (h : Reads cfg opts (d + 1) a s) (ht : Blank tr) : SeqGoal cfg opts d [a] (s ++ tr) := by
  intro dm c rest cl hc
  have h0 := ReadsSeq.blank tr ht (ReadsSeq.closer { cfg := cfg, opts := opts } d dm c rest cl hc)
  obtain ⟨v, hs, hv⟩ := ReadsSeq.cons_of_Reads h dm (tr ++ c :: rest) cl (TermStart_blank_closer rest ht hc) h0
  refine ⟨[v], by rw [stripL_cons, stripL_nil, hs], ?_⟩
  rw [List.append_assoc]
  exact hv

theorem seq_cons (cfg : Cfg) (opts : Opts) (d : Nat) (a : Val) (xs : List Val) (s sep body : Bytes)
    (h : Reads cfg opts (d + 1) a s) (hsep : Blank sep) (hsne : sep ≠ [])
    (hr : SeqGoal cfg opts d xs body) : SeqGoal cfg opts d (a :: xs) (s ++ sep ++ body) := by
  intro dm c rest cl hc
  obtain ⟨ws, hws, h1⟩ := hr dm c rest cl hc
  have h0 := ReadsSeq.blank sep hsep h1
  obtain ⟨v, hs, hv⟩ := ReadsSeq.cons_of_Reads h dm (sep ++ (body ++ c :: rest)) cl
    (TermStart_blank _ hsep hsne) h0
  refine ⟨v :: ws, by rw [stripL_cons, hs, hws], ?_⟩
  rw [List.append_assoc, List.append_assoc]
  exact hv

/-! ### closing steps, computed -/

theorem closeSeq_list (ctx : Ctx) (start : Nat) (r : Bytes) (cl : List Call) (acc : List Val) :
    closeSeq ctx 0 start { rest := 0x29 :: r, calls := cl } acc =
      .ok (.list (mkHdr start r.length) none acc.reverse) { rest := r, calls := cl } := by
  unfold closeSeq
  simp only []
  rw [if_neg (by decide)]
  rfl

theorem closeSeq_vec (ctx : Ctx) (start : Nat) (r : Bytes) (cl : List Call) (acc : List Val) :
    closeSeq ctx 1 start { rest := 0x5D :: r, calls := cl } acc =
      .ok (.vec (mkHdr start r.length) none acc.reverse) { rest := r, calls := cl } := by
  unfold closeSeq
  simp only []
  rw [if_neg (by decide)]
  rfl

theorem closeSeq_set (ctx : Ctx) (start : Nat) (r : Bytes) (cl : List Call) (acc : List Val) :
    closeSeq ctx 2 start { rest := 0x7D :: r, calls := cl } acc =
      if (hasDuplicates ctx.cfg acc.reverse).1 = true then
        .err (mkErr .duplicateElement (some start) (some r.length)) { rest := r, calls := cl }
      else .ok (.set (mkHdr start r.length) none (hasDuplicates ctx.cfg acc.reverse).2) { rest := r, calls := cl } := by
  unfold closeSeq
  simp only []
  rw [if_neg (by decide), if_neg (by decide), if_neg (by decide)]
  rfl

theorem closeMap_eq (ctx : Ctx) (start : Nat) (r : Bytes) (cl : List Call) (ks vs : List Val) :
    closeMap ctx start { rest := 0x7D :: r, calls := cl } ks vs =
      if (hasDuplicates ctx.cfg ks.reverse).1 = true then
        .err (mkErr .duplicateKey (some start) (some r.length)) { rest := r, calls := cl }
      else .ok (.map (mkHdr start r.length) none (hasDuplicates ctx.cfg ks.reverse).2 vs.reverse)
        { rest := r, calls := cl } := by
  unfold closeMap
  simp only []
  rw [if_neg (by decide)]
  rfl

/-! ### collections -/

theorem opener_append (o : UInt8) (body : Bytes) (c : UInt8) (rest : Bytes) :
    (o :: (body ++ [c])) ++ rest = o :: (body ++ c :: rest) := by
  simp

theorem case_list (cfg : Cfg) (opts : Opts) (d : Nat) (xs : List Val) (body : Bytes)
    (hd : d < Tables.maxNestingDepth) (h : SeqGoal cfg opts d xs body) :
    Reads cfg opts d (.list hdr0 none xs) (0x28 :: (body ++ [0x29])) := by
  intro dm rest cl f hT hf
  cases f with
  | zero => omega
  | succ f =>
    obtain ⟨ws, hws, hr⟩ := h dm 0x29 rest cl (Or.inl rfl)
    rw [opener_append, readValue_listOpen _ f d dm _ cl hd,
      readSeq_of_ReadsSeq 0 _ hr f [] (by
        simp only [List.length_cons, List.length_append, List.length_nil] at hf ⊢
        omega),
      closeSeq_list]
    refine ⟨_, rfl, ?_⟩
    simp only [List.append_nil, List.reverse_reverse, strip]
    rw [hws]

theorem case_vec (cfg : Cfg) (opts : Opts) (d : Nat) (xs : List Val) (body : Bytes)
    (hd : d < Tables.maxNestingDepth) (h : SeqGoal cfg opts d xs body) :
    Reads cfg opts d (.vec hdr0 none xs) (0x5B :: (body ++ [0x5D])) := by
  intro dm rest cl f hT hf
  cases f with
  | zero => omega
  | succ f =>
    obtain ⟨ws, hws, hr⟩ := h dm 0x5D rest cl (Or.inr (Or.inl rfl))
    rw [opener_append, readValue_vecOpen _ f d dm _ cl hd,
      readSeq_of_ReadsSeq 1 _ hr f [] (by
        simp only [List.length_cons, List.length_append, List.length_nil] at hf ⊢
        omega),
      closeSeq_vec]
    refine ⟨_, rfl, ?_⟩
    simp only [List.append_nil, List.reverse_reverse, strip]
    rw [hws]

theorem case_set (cfg : Cfg) (opts : Opts) (hreg : opts.registry = none) (d : Nat) (xs : List Val) (body : Bytes)
    (hd : d < Tables.maxNestingDepth) (h : SeqGoal cfg opts d xs body) (hpd : pairwiseDistinct cfg xs) :
    Reads cfg opts d (.set hdr0 none xs) (0x23 :: 0x7B :: (body ++ [0x7D])) := by
  intro dm rest cl f hT hf
  cases f with
  | zero => omega
  | succ f =>
    obtain ⟨ws, hws, hr⟩ := h dm 0x7D rest cl (Or.inr (Or.inr rfl))
    have hel : Elems cfg ws := ReadsSeq.elems (ctx := { cfg := cfg, opts := opts }) hreg (by omega) hr
    have hpw : pairwiseDistinct cfg ws := by
      rw [← pairwiseDistinct_stripL, hws]; exact hpd
    obtain ⟨h1, -, -, -, -⟩ := hasDuplicates_iff cfg ws hel
    have e : (0x23 :: 0x7B :: (body ++ [0x7D])) ++ rest = 0x23 :: 0x7B :: (body ++ 0x7D :: rest) := by simp
    rw [e, readValue_setOpen _ f d dm _ cl hd,
      readSeq_of_ReadsSeq 2 _ hr f [] (by
        simp only [List.length_cons, List.length_append, List.length_nil] at hf ⊢
        omega),
      closeSeq_set]
    simp only [List.append_nil, List.reverse_reverse]
    rw [if_neg (by rw [h1.mpr hpw]; exact Bool.false_ne_true)]
    refine ⟨_, rfl, ?_⟩
    simp only [strip]
    rw [stripL_hasDuplicates, hws]

theorem case_map (cfg : Cfg) (opts : Opts) (hreg : opts.registry = none) (d : Nat) (ks vs : List Val) (body : Bytes)
    (hd : d < Tables.maxNestingDepth) (h : SeqGoal cfg opts d (interleaveKV ks vs) body)
    (hl : ks.length = vs.length) (hpd : pairwiseDistinct cfg ks) :
    Reads cfg opts d (.map hdr0 none ks vs) (0x7B :: (body ++ [0x7D])) := by
  intro dm rest cl f hT hf
  cases f with
  | zero => omega
  | succ f =>
    obtain ⟨ws, hws, hr⟩ := h dm 0x7D rest cl (Or.inr (Or.inr rfl))
    have hel : Elems cfg ws := ReadsSeq.elems (ctx := { cfg := cfg, opts := opts }) hreg (by omega) hr
    obtain ⟨ks', vs', rfl, hk, hv, hl'⟩ := interleave_split ks vs hl ws hws
    have helk : Elems cfg ks' := by
      intro x hx
      apply hel x
      clear hr hws hel hk hv
      induction ks' generalizing vs' with
      | nil => cases hx
      | cons k ks' ih =>
        cases vs' with
        | nil => cases hl'
        | cons v vs' =>
          show x ∈ k :: v :: interleaveKV ks' vs'
          rcases List.mem_cons.mp hx with rfl | hx
          · exact List.mem_cons_self
          · exact List.mem_cons_of_mem _ (List.mem_cons_of_mem _ (ih vs' (by simpa using hl') hx))
    have hpw : pairwiseDistinct cfg ks' := by
      rw [← pairwiseDistinct_stripL, hk]; exact hpd
    obtain ⟨h1, -, -, -, -⟩ := hasDuplicates_iff cfg ks' helk
    rw [opener_append, readValue_mapOpen _ f d dm _ cl hd,
      readMap_of_ReadsSeq _ ks' vs' hl' _ hr f [] [] (by
        simp only [List.length_cons, List.length_append, List.length_nil] at hf ⊢
        omega),
      closeMap_eq]
    simp only [List.append_nil, List.reverse_reverse]
    rw [if_neg (by rw [h1.mpr hpw]; exact Bool.false_ne_true)]
    refine ⟨_, rfl, ?_⟩
    simp only [strip]
    rw [stripL_hasDuplicates, hk, hv]

/-! ### tagged elements -/

theorem cslice_append (a b : Bytes) : slice (a ++ b) b = a := by
  unfold slice
  rw [List.length_append, Nat.add_sub_cancel]
  exact List.take_left

def fiveWsDelim : Bool :=
  isDelim 0x20 && isDelim 0x09 && isDelim 0x0A && isDelim 0x0D && isDelim 0x2C && isDelim 0x23 && isDelim 0x7B
theorem fiveWs_delim : fiveWsDelim = true := by decide +kernel

/-- the tag loop of `readTagged` with no registry: tag symbol, value, passthrough -/
theorem readTagged_passthrough (ctx : Ctx) (hreg : ctx.opts.registry = none) (f d : Nat) (dm : Bool) (start : Nat)
    (tag r r' : Bytes) (cl : List Call) (v : Val)
    (hne : tag ≠ []) (hnd : ∀ c ∈ tag, isDelim c = false)
    (hsym : ∃ h ns nm, readIdentifier ctx { rest := tag ++ r, calls := cl } =
      .ok (.sym h none ns nm) { rest := r, calls := cl })
    (hv : readValue ctx f (d + 1) dm { rest := r, calls := cl } = .ok v { rest := r', calls := cl }) :
    readTagged ctx (f + 1) d dm start { rest := tag ++ r, calls := cl } =
      .ok (.tagged (mkHdr start r'.length) none tag v) { rest := r', calls := cl } := by
  obtain ⟨h, ns, nm, hsym⟩ := hsym
  cases tag with
  | nil => exact absurd rfl hne
  | cons c0 tag' =>
    have hc0 : isDelim c0 = false := hnd c0 List.mem_cons_self
    have hfive := fiveWs_delim
    simp only [fiveWsDelim, Bool.and_eq_true] at hfive
    have e1 : (c0 == 0x20) = false := by
      apply Bool.eq_false_iff.mpr; intro he; rw [beq_iff_eq] at he; subst he; rw [hfive.1.1.1.1.1.1] at hc0; cases hc0
    have e2 : (c0 == 0x09) = false := by
      apply Bool.eq_false_iff.mpr; intro he; rw [beq_iff_eq] at he; subst he; rw [hfive.1.1.1.1.1.2] at hc0; cases hc0
    have e3 : (c0 == 0x0A) = false := by
      apply Bool.eq_false_iff.mpr; intro he; rw [beq_iff_eq] at he; subst he; rw [hfive.1.1.1.1.2] at hc0; cases hc0
    have e4 : (c0 == 0x0D) = false := by
      apply Bool.eq_false_iff.mpr; intro he; rw [beq_iff_eq] at he; subst he; rw [hfive.1.1.1.2] at hc0; cases hc0
    have e5 : (c0 == 0x2C) = false := by
      apply Bool.eq_false_iff.mpr; intro he; rw [beq_iff_eq] at he; subst he; rw [hfive.1.1.2] at hc0; cases hc0
    rw [readTagged_succ]
    unfold rtStep
    simp only [List.cons_append, e1, e2, e3, e4, e5, Bool.or_self, Bool.false_eq_true, ↓reduceIte]
    rw [List.cons_append] at hsym
    rw [hsym]
    simp only []
    rw [hv]
    simp only [hreg]
    have := cslice_append (c0 :: tag') r
    rw [List.cons_append] at this
    rw [this]
    rfl

theorem case_tagged (cfg : Cfg) (opts : Opts) (hreg : opts.registry = none) (d : Nat)
    (tag : Bytes) (a : Val) (sep s : Bytes)
    (hd : d < Tables.maxNestingDepth)
    (ht : IdentTok tag) (hc : tag.head? ≠ some 0x3A)
    (hu : tag.head? ≠ some 0x5F ∧ tag.head? ≠ some 0x7B ∧ tag.head? ≠ some 0x23)
    (hsym : ∀ (c : UInt8) (rest : Bytes) (cl : List Call), isDelim c = true →
      ∃ h ns nm, readIdentifier { cfg := cfg, opts := opts } { rest := tag ++ c :: rest, calls := cl } =
        .ok (.sym h none ns nm) { rest := c :: rest, calls := cl })
    (hsep : Blank sep) (hsne : sep ≠ []) (h : Reads cfg opts (d + 1) a s) :
    Reads cfg opts d (.tagged hdr0 none tag a) (0x23 :: (tag ++ sep ++ s)) := by
  intro dm rest cl f hT hf
  have hb := reads_blank_aux cfg opts (d + 1) a sep s hsep h
  cases sep with
  | nil => exact absurd rfl hsne
  | cons c sep' =>
    cases tag with
    | nil => exact absurd rfl ht.nonempty
    | cons c0 tag' =>
      simp only [List.length_cons, List.length_append] at hf
      match f, hf with
      | f + 2, hf =>
        obtain ⟨v, hv, hs⟩ := hb dm rest cl f hT (by
          simp only [List.length_cons, List.length_append]
          omega)
        have e : (0x23 :: (c0 :: tag' ++ c :: sep' ++ s)) ++ rest
            = 0x23 :: c0 :: (tag' ++ (c :: (sep' ++ s ++ rest))) := by simp
        have e' : c0 :: (tag' ++ (c :: (sep' ++ s ++ rest))) = (c0 :: tag') ++ ((c :: sep' ++ s) ++ rest) := by simp
        have h1 : c0 ≠ 0x23 := fun he => hu.2.2 (by rw [he]; rfl)
        have h2 : c0 ≠ 0x7B := fun he => hu.2.1 (by rw [he]; rfl)
        have h3 : c0 ≠ 0x5F := fun he => hu.1 (by rw [he]; rfl)
        have h4 : c0 ≠ 0x3A := fun he => hc (by rw [he]; rfl)
        rw [e, readValue_tagOpen _ (f + 1) d dm c0 _ cl hd h1 h2 h3 h4, e',
          readTagged_passthrough { cfg := cfg, opts := opts } hreg f d dm _ (c0 :: tag') _ rest cl v
            (List.cons_ne_nil _ _) ht.nodelim
            (by
              have := hsym c (sep' ++ s ++ rest) cl (blank_head_term hsep).2
              simpa using this) hv]
        refine ⟨_, rfl, ?_⟩
        simp only [strip]
        rw [hs]

/-! ### discards -/

theorem case_discard (cfg : Cfg) (opts : Opts) (d : Nat) (a b : Val) (sd sep s : Bytes)
    (hd : d < Tables.maxNestingDepth)
    (hdisc : Reads cfg opts (d + 1) b sd) (hsep : Blank sep) (hsne : sep ≠ [])
    (h : Reads cfg opts d a s) :
    Reads cfg opts d a (0x23 :: 0x5F :: (sd ++ sep ++ s)) := by
  intro dm rest cl f hT hf
  have hb := reads_blank_aux cfg opts d a sep s hsep h
  simp only [List.length_cons, List.length_append] at hf
  match f, hf with
  | f + 1, hf =>
    obtain ⟨w, hw, -⟩ := hdisc true ((sep ++ s) ++ rest) cl f
      (by rw [List.append_assoc]; exact TermStart_blank _ hsep hsne)
      (by simp only [List.length_append]; omega)
    have e : (0x23 :: 0x5F :: (sd ++ sep ++ s)) ++ rest = 0x23 :: 0x5F :: (sd ++ ((sep ++ s) ++ rest)) := by simp
    rw [e, (discard_is_trivia { cfg := cfg, opts := opts } f d dm sd ((sep ++ s) ++ rest) cl cl w hd hw).2]
    exact hb dm rest cl f hT (by simp only [List.length_append]; omega)

end Edn.Proofs.Cmpl
