/-
  Edn.Proofs.RejectDocAux9 — small builders of concrete grammar derivations (one-digit numbers,
  the tag `foo`), used by the non-vacuity examples beside the C10 document theorems.
-/
import Edn.Proofs.RejectDocAux1

namespace Edn.Proofs.RejectDoc.Ex
open Edn.Model Edn.Spec Edn.Generated Edn.Proofs Edn.Proofs.Cmpl Edn.Proofs.RejectDoc

/-- a one-digit number is a form -/
theorem form_digit (k : Nat) (c : UInt8) (hc : 0x30 ≤ c ∧ c ≤ 0x39) (rest : Bytes) (ht : TermStart rest) :
    ∃ a, Form k a [c] rest := by
  refine ⟨_, .number k [c] rest _ (.int [] [c] false (.inl ⟨rfl, rfl⟩) ⟨by simp, by simpa using hc, by simp⟩ ?_) ht⟩
  have := c.toNat_lt
  simp [natOfDigits]
  omega

/-- … also with a space in front of it -/
theorem form_sp_digit (k : Nat) (c : UInt8) (hc : 0x30 ≤ c ∧ c ≤ 0x39) (rest : Bytes) (ht : TermStart rest) :
    ∃ a, Form k a [0x20, c] rest := by
  obtain ⟨a, h⟩ := form_digit k c hc rest ht
  exact ⟨a, .blank k a [0x20] [c] rest (.ws 0x20 [] (by decide +kernel) .nil) h⟩

theorem forms_one {k : Nat} {a : Val} {tok after : Bytes} (h : Form k a tok after) : Forms k 1 tok after := by
  have := Forms.cons k 0 a tok [] after (by simpa using h) (.nil k after)
  simpa using this

theorem forms_two {k : Nat} {a b : Val} {tok1 tok2 after : Bytes} (h1 : Form k a tok1 (tok2 ++ after))
    (h2 : Form k b tok2 after) : Forms k 2 (tok1 ++ tok2) after :=
  .cons k 1 a tok1 tok2 after h1 (forms_one h2)

theorem term_sp (t : Bytes) : TermStart (0x20 :: t) := Or.inr ⟨0x20, t, rfl, by decide +kernel⟩
theorem term_closer {c : UInt8} (hc : IsCloser c) (t : Bytes) : TermStart (c :: t) := Or.inr ⟨c, t, rfl, hc.term⟩

/-- `1 2` in front of `after` -/
theorem forms_1_2 (k : Nat) (after : Bytes) (ht : TermStart after) : Forms k 2 [0x31, 0x20, 0x32] after := by
  obtain ⟨a, h1⟩ := form_digit k 0x31 (by decide) ([0x20, 0x32] ++ after) (term_sp _)
  obtain ⟨b, h2⟩ := form_sp_digit k 0x32 (by decide) after ht
  exact forms_two h1 h2

/-- the tag `foo` -/
theorem foo_lex : IdentLex [0x66, 0x6F, 0x6F] := ⟨by simp, by decide +kernel, by decide⟩
theorem foo_den : IdentDenotes [0x66, 0x6F, 0x6F] (.sym hdr0 none none [0x66, 0x6F, 0x6F]) :=
  .inr (.inr (.inr (.inr ⟨by decide, by decide +kernel, by decide +kernel, by decide +kernel, none, _, by decide +kernel, rfl⟩)))

/-- the open context `[1 ` in front of `s` -/
theorem ctx_vec_1 (s : Bytes) : Desc s true 0 false ([0x5B] ++ ([0x31] ++ [0x20])) 1 false := by
  obtain ⟨a, h1⟩ := form_digit 0 0x31 (by decide) ([0x20] ++ s) (term_sp _)
  exact .coll 0 false 1 0 1 [0x31] [0x20] 1 false (by decide) (forms_one h1)
    (.blank true 1 false [0x20] [] 1 false (.ws 0x20 [] (by decide +kernel) .nil) (.here true 1 false))

/-- the open context `[` in front of `s` -/
theorem ctx_vec (s : Bytes) : Desc s true 0 false ([0x5B] ++ ([] ++ [])) 1 false :=
  .coll 0 false 1 0 0 [] [] 1 false (by decide) (.nil 0 _) (.here true 1 false)

end Edn.Proofs.RejectDoc.Ex
