/- TEMPORARY stub of the leaf cut lemmas (ReReadAux2, ReReadAux4, ReReadAux5); to be deleted. -/
import Edn.Proofs.ReReadAux0

namespace Edn.Proofs
open Edn.Model Edn.Spec

theorem skipWs_cut (t r : Bytes) (h : r.length ≤ (skipWs (t ++ r)).length) :
    skipWs (t ++ r) = skipWs t ++ r := by sorry
theorem skipWs_suffix' (s : Bytes) : skipWs s <:+ s := by sorry
theorem skipWs_idem (s : Bytes) : skipWs (skipWs s) = skipWs s := by sorry

theorem readString_cut (ctx : Ctx) (t r : Bytes) (cl : List Call) (v : Val) (st' : St) (ht : t ≠ [])
    (h : readString ctx { rest := t ++ r, calls := cl } = .ok v st') (hl : r.length ≤ st'.rest.length) :
    ∃ t' v', st' = { rest := t' ++ r, calls := cl } ∧
      readString ctx { rest := t, calls := cl } = .ok v' { rest := t', calls := cl } ∧ shiftV r.length v' = v := by sorry

theorem readSymbolic_cut (ctx : Ctx) (t r : Bytes) (cl : List Call) (v : Val) (st' : St) (ht : t ≠ [])
    (h : readSymbolic ctx { rest := t ++ r, calls := cl } = .ok v st') (hl : r.length ≤ st'.rest.length) :
    ∃ t' v', st' = { rest := t' ++ r, calls := cl } ∧
      readSymbolic ctx { rest := t, calls := cl } = .ok v' { rest := t', calls := cl } ∧ shiftV r.length v' = v := by sorry

theorem readCharacter_cut (ctx : Ctx) (t r : Bytes) (cl : List Call) (v : Val) (st' : St) (ht : t ≠ [])
    (h : readCharacter ctx { rest := t ++ r, calls := cl } = .ok v st') (hl : r.length ≤ st'.rest.length) :
    ∃ t' v', st' = { rest := t' ++ r, calls := cl } ∧
      readCharacter ctx { rest := t, calls := cl } = .ok v' { rest := t', calls := cl } ∧ shiftV r.length v' = v := by sorry

theorem readIdentifier_cut (ctx : Ctx) (t r : Bytes) (cl : List Call) (v : Val) (st' : St)
    (h : readIdentifier ctx { rest := t ++ r, calls := cl } = .ok v st') (hl : r.length ≤ st'.rest.length) :
    ∃ t' v', st' = { rest := t' ++ r, calls := cl } ∧
      readIdentifier ctx { rest := t, calls := cl } = .ok v' { rest := t', calls := cl } ∧ shiftV r.length v' = v := by sorry

theorem readIdentifier_not_closer (ctx : Ctx) (st st' : St) : readIdentifier ctx st ≠ .closer st' := by sorry

theorem shiftV_isSym (k : Nat) (v : Val) :
    (∃ h md ns nm, shiftV k v = .sym h md ns nm) ↔ (∃ h md ns nm, v = .sym h md ns nm) := by sorry

theorem readNumberRes_cut (ctx : Ctx) (t r : Bytes) (cl : List Call) (v : Val) (st' : St) (ht : t ≠ [])
    (h : readNumberRes ctx { rest := t ++ r, calls := cl } = .ok v st') (hl : r.length ≤ st'.rest.length) :
    ∃ t' v', st' = { rest := t' ++ r, calls := cl } ∧
      readNumberRes ctx { rest := t, calls := cl } = .ok v' { rest := t', calls := cl } ∧ shiftV r.length v' = v := by sorry

end Edn.Proofs
