/-
  Edn.Proofs.FloatAux — structure of `Spec.rne`: the binade index is the unique integer
  `e` with 2^e ≤ n/d < 2^(e+1); everything after it is a function of (e, num, den) that is
  invariant under scaling numerator and denominator by a common factor.
-/
import Edn.Spec.Float

namespace Edn.Proofs.FloatAux
open Edn.Spec

/-! ### the comparison `n/d ≥ 2^e` -/

/-- the Bool-valued test used inside `rne` -/
def geB (n d : Nat) (e : Int) : Bool :=
  if e ≥ 0 then n ≥ d * 2 ^ e.toNat else n * 2 ^ (-e).toNat ≥ d

/-- `n/d ≥ 2^(a-b)` with the exponent split into natural numbers -/
theorem geB_iff (n d : Nat) (e : Int) (a b : Nat) (h : (a : Int) - (b : Int) = e) :
    geB n d e = true ↔ d * 2 ^ a ≤ n * 2 ^ b := by
  unfold geB
  by_cases he : e ≥ 0
  · have ha : a = b + e.toNat := by omega
    simp only [he, if_true, decide_eq_true_eq, ge_iff_le]
    rw [ha, Nat.pow_add, ← Nat.mul_assoc, Nat.mul_right_comm]
    exact (Nat.mul_le_mul_right_iff (Nat.two_pow_pos b)).symm
  · have hb : b = a + (-e).toNat := by omega
    simp only [he, if_false, decide_eq_true_eq, ge_iff_le]
    rw [hb, Nat.pow_add, ← Nat.mul_assoc, Nat.mul_right_comm n]
    exact (Nat.mul_le_mul_right_iff (Nat.two_pow_pos a)).symm

theorem geB_mono {n d : Nat} {e e' : Int} (h : geB n d e = true) (hle : e' ≤ e) :
    geB n d e' = true := by
  have h1 := (geB_iff n d e e.toNat (-e).toNat (by omega)).mp h
  refine (geB_iff n d e' e.toNat ((-e).toNat + (e - e').toNat) (by omega)).mpr ?_
  refine Nat.le_trans h1 (Nat.mul_le_mul_left _ ?_)
  exact Nat.pow_le_pow_right (by decide) (by omega)

theorem geB_scale (n d c : Nat) (hc : 0 < c) (e : Int) : geB (n * c) (d * c) e = geB n d e := by
  have h1 := geB_iff (n * c) (d * c) e e.toNat (-e).toNat (by omega)
  have h2 := geB_iff n d e e.toNat (-e).toNat (by omega)
  have : d * c * 2 ^ e.toNat ≤ n * c * 2 ^ (-e).toNat ↔ d * 2 ^ e.toNat ≤ n * 2 ^ (-e).toNat := by
    rw [Nat.mul_right_comm d, Nat.mul_right_comm n]
    exact Nat.mul_le_mul_right_iff hc
  rw [this] at h1
  exact Bool.eq_iff_iff.mpr (h1.trans h2.symm)

/-! ### the binade index -/

/-- the exponent chosen by `rne`: 2^e ≤ n/d < 2^(e+1) -/
def binade (n d : Nat) : Int :=
  let e0 : Int := (Nat.log2 n : Int) - (Nat.log2 d : Int)
  if geB n d e0 then e0 else e0 - 1

theorem geB_log_pred {n d : Nat} (hn : n ≠ 0) :
    geB n d ((Nat.log2 n : Int) - (Nat.log2 d : Int) - 1) = true := by
  refine (geB_iff n d _ (Nat.log2 n) (Nat.log2 d + 1) (by omega)).mpr ?_
  rw [Nat.mul_comm d]
  exact Nat.mul_le_mul (Nat.log2_self_le hn) (Nat.le_of_lt Nat.lt_log2_self)

theorem not_geB_log_succ {n d : Nat} (hd : d ≠ 0) :
    geB n d ((Nat.log2 n : Int) - (Nat.log2 d : Int) + 1) = false := by
  cases h : geB n d ((Nat.log2 n : Int) - (Nat.log2 d : Int) + 1)
  · rfl
  · exfalso
    have h1 := (geB_iff n d _ (Nat.log2 n + 1) (Nat.log2 d) (by omega)).mp h
    have h2 : n * 2 ^ Nat.log2 d < 2 ^ (Nat.log2 n + 1) * d :=
      Nat.mul_lt_mul_of_lt_of_le Nat.lt_log2_self (Nat.log2_self_le hd) (Nat.pos_of_ne_zero hd)
    rw [Nat.mul_comm d] at h1
    omega

theorem binade_spec {n d : Nat} (hn : n ≠ 0) (hd : d ≠ 0) :
    geB n d (binade n d) = true ∧ geB n d (binade n d + 1) = false := by
  unfold binade
  by_cases h : geB n d ((Nat.log2 n : Int) - (Nat.log2 d : Int)) = true
  · simp only [h, if_true, true_and]
    exact not_geB_log_succ hd
  · simp only [h]
    refine ⟨geB_log_pred hn, ?_⟩
    simp only [Bool.not_eq_true] at h
    have : (Nat.log2 n : Int) - (Nat.log2 d : Int) - 1 + 1 = (Nat.log2 n : Int) - (Nat.log2 d : Int) := by omega
    simp only [Bool.false_eq_true, if_false, this]
    exact h

theorem binade_unique {n d : Nat} {e e' : Int}
    (h1 : geB n d e = true) (h2 : geB n d (e + 1) = false)
    (h1' : geB n d e' = true) (h2' : geB n d (e' + 1) = false) : e = e' := by
  by_cases hlt : e < e'
  · have := geB_mono h1' (show e + 1 ≤ e' by omega)
    simp [this] at h2
  · by_cases hgt : e' < e
    · have := geB_mono h1 (show e' + 1 ≤ e by omega)
      simp [this] at h2'
    · omega

theorem binade_eq {n d : Nat} (hn : n ≠ 0) (hd : d ≠ 0) {e : Int}
    (h1 : geB n d e = true) (h2 : geB n d (e + 1) = false) : binade n d = e :=
  binade_unique (binade_spec hn hd).1 (binade_spec hn hd).2 h1 h2

theorem binade_scale (n d c : Nat) (hn : n ≠ 0) (hd : 0 < d) (hc : 0 < c) :
    binade (n * c) (d * c) = binade n d := by
  have hnc : n * c ≠ 0 := Nat.mul_ne_zero hn (by omega)
  have hdc : d * c ≠ 0 := Nat.mul_ne_zero (by omega) (by omega)
  have s := binade_spec hnc hdc
  rw [geB_scale _ _ _ hc, geB_scale _ _ _ hc] at s
  exact (binade_eq hn (by omega) s.1 s.2).symm

/-! ### the part of `rne` after the binade index -/

/-- numerator and denominator of the scaled quotient -/
def numOf (n : Nat) (e : Int) : Nat :=
  let ee : Int := if e < -1022 then -1022 else e
  let sh : Int := 52 - ee
  if sh ≥ 0 then n * 2 ^ sh.toNat else n
def denOf (d : Nat) (e : Int) : Nat :=
  let ee : Int := if e < -1022 then -1022 else e
  let sh : Int := 52 - ee
  if sh ≥ 0 then d else d * 2 ^ (-sh).toNat

/-- the rounded quotient (ties to even) -/
def roundQ (num den : Nat) : Nat :=
  let q := num / den
  let r := num % den
  if 2 * r > den then q + 1 else if 2 * r = den then (if q % 2 = 1 then q + 1 else q) else q

/-- packing of the rounded quotient -/
def pack (e : Int) (q' : Nat) : UInt64 :=
  let ee : Int := if e < -1022 then -1022 else e
  if e < -1022 then UInt64.ofNat q'
  else
    let m := if q' = 2 ^ 53 then 2 ^ 52 else q'
    let ex := if q' = 2 ^ 53 then ee + 1 else ee
    if ex > 1023 then 0x7FF0000000000000
    else UInt64.ofNat ((ex + 1023).toNat * 2 ^ 52 + (m - 2 ^ 52))

theorem rne_eq (n d : Nat) :
    rne n d = if n = 0 then 0 else
      pack (binade n d) (roundQ (numOf n (binade n d)) (denOf d (binade n d))) := rfl

theorem numOf_scale (n c : Nat) (e : Int) : numOf (n * c) e = numOf n e * c := by
  unfold numOf
  simp only
  generalize (if e < -1022 then (-1022 : Int) else e) = ee
  by_cases h : 52 - ee ≥ 0
  · simp only [h, if_true]; exact Nat.mul_right_comm _ _ _
  · simp only [h, if_false]

theorem denOf_scale (d c : Nat) (e : Int) : denOf (d * c) e = denOf d e * c := by
  unfold denOf
  simp only
  generalize (if e < -1022 then (-1022 : Int) else e) = ee
  by_cases h : 52 - ee ≥ 0
  · simp only [h, if_true]
  · simp only [h, if_false]; exact Nat.mul_right_comm _ _ _

theorem roundQ_scale (num den c : Nat) (hc : 0 < c) :
    roundQ (num * c) (den * c) = roundQ num den := by
  unfold roundQ
  simp only [Nat.mul_div_mul_right _ _ hc, Nat.mul_mod_mul_right]
  have e1 : (2 * (num % den * c) > den * c) ↔ (2 * (num % den) > den) := by
    rw [← Nat.mul_assoc]; exact Nat.mul_lt_mul_right hc
  have e2 : (2 * (num % den * c) = den * c) ↔ (2 * (num % den) = den) := by
    rw [← Nat.mul_assoc]
    constructor
    · intro h; exact Nat.eq_of_mul_eq_mul_right hc h
    · intro h; rw [h]
  simp only [e1, e2]

theorem rne_scale (n d c : Nat) (hd : 0 < d) (hc : 0 < c) : rne (n * c) (d * c) = rne n d := by
  rw [rne_eq, rne_eq]
  by_cases hn : n = 0
  · subst hn; simp
  · have hnc : n * c ≠ 0 := Nat.mul_ne_zero hn (by omega)
    simp only [hn, hnc, if_false]
    rw [binade_scale n d c hn hd hc, numOf_scale, denOf_scale, roundQ_scale _ _ _ hc]

end Edn.Proofs.FloatAux
