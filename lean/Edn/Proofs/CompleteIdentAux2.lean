/-
  Edn.Proofs.CompleteIdentAux2 — the namespace/name split of the scanner against
  `splitIdent`, and `readIdentifier` on symbol and keyword tokens.
-/
import Edn.Proofs.CompleteIdentAux1

namespace Edn.Proofs
open Edn.Model Edn.Spec

theorem idxOf?_lt {tok : Bytes} {a : UInt8} {k : Nat} (h : tok.idxOf? a = some k) : k < tok.length := by
  unfold List.idxOf? at h
  rw [List.findIdx?_eq_some_iff_getElem] at h
  exact h.1

/-- `identSplit` on a token (preceded by `o` non-slash bytes) against `splitIdent` -/
theorem identSplit_split (tok : Bytes) (o : Nat) (ns : Option Bytes) (nm : Bytes) (hne : tok ≠ [])
    (ho : o = 0 ∨ tok ≠ [0x2F]) (hsp : splitIdent tok = some (ns, nm)) :
    (ns = none ∧ nm = tok ∧ identSplit (tok.length + o) ((tok.idxOf? 0x2F).map (· + o)) =
        { valid := true, len := tok.length + o, ns := none, nameOff := 0, nameLen := tok.length + o }) ∨
    (∃ k, 0 < k ∧ ns = some (tok.take k) ∧ nm = tok.drop (k + 1) ∧
      identSplit (tok.length + o) ((tok.idxOf? 0x2F).map (· + o)) =
        { valid := true, len := tok.length + o, ns := some (k + o), nameOff := k + o + 1,
          nameLen := tok.length + o - (k + o + 1) }) := by
  have hlen : 0 < tok.length := List.length_pos_iff.mpr hne
  have hl0 : (tok.length + o == 0) = false := by rw [beq_eq_false_iff_ne]; omega
  unfold splitIdent at hsp
  cases hidx : tok.idxOf? 0x2F with
  | none =>
    left
    have h1 : (tok == [0x2F]) = false := by
      rw [beq_eq_false_iff_ne]
      intro h; subst h; simp at hidx
    simp only [h1, Bool.false_eq_true, ↓reduceIte, hidx, Option.some.injEq, Prod.mk.injEq] at hsp
    refine ⟨hsp.1.symm, hsp.2.symm, ?_⟩
    simp [identSplit, hl0]
  | some k =>
    have hk := idxOf?_lt hidx
    by_cases h1 : tok = [0x2F]
    · left
      subst h1
      have ho' : o = 0 := by
        rcases ho with ho | ho
        · exact ho
        · exact absurd rfl ho
      subst ho'
      simp only [BEq.rfl, ↓reduceIte, Option.some.injEq, Prod.mk.injEq] at hsp
      refine ⟨hsp.1.symm, hsp.2.symm, ?_⟩
      simp [identSplit]
    · right
      have h1' : (tok == [0x2F]) = false := by rw [beq_eq_false_iff_ne]; exact h1
      simp only [h1', Bool.false_eq_true, ↓reduceIte, hidx] at hsp
      by_cases h2 : (k == 0 || k == tok.length - 1) = true
      · simp [h2] at hsp
      · simp only [h2, Bool.false_eq_true, ↓reduceIte, Option.some.injEq, Prod.mk.injEq] at hsp
        simp only [Bool.or_eq_true, beq_iff_eq, not_or] at h2
        refine ⟨k, by omega, hsp.1.symm, hsp.2.symm, ?_⟩
        have hl1 : (tok.length + o == 1) = false := by
          rw [beq_eq_false_iff_ne]
          intro hh
          have hl : tok.length = 1 := by omega
          have hk0 : k = 0 := by omega
          exact h2.1 hk0
        have hk0 : (k + o == 0) = false := by rw [beq_eq_false_iff_ne]; omega
        have hk1 : (k + o == tok.length + o - 1) = false := by rw [beq_eq_false_iff_ne]; omega
        simp [identSplit, hl0, hl1, hk0, hk1]

theorem strBytes_eq (t : String) : strBytes t = t.toUTF8.toList := rfl

theorem peek_cons (c : UInt8) (t : Bytes) : peek (c :: t) = c := rfl

theorem peek_ne_colon {tok : Bytes} (hne : tok ≠ []) (hc : tok.head? ≠ some 0x3A) : (peek tok == 0x3A) = false := by
  cases tok with
  | nil => exact absurd rfl hne
  | cons c t =>
    simp only [List.head?_cons, ne_eq, Option.some.injEq] at hc
    simpa [peek_cons] using hc

/-- the identifier reader on a symbol token followed by a delimiter or the end -/
theorem readIdentifier_sym (ctx : Ctx) (tok : Bytes) (ns : Option Bytes) (nm : Bytes) (rest : Bytes) (cl : List Call)
    (hr : TermD rest) (ht : IdentTok tok) (hc : tok.head? ≠ some 0x3A) (hsp : splitIdent tok = some (ns, nm))
    (hres : tok ≠ "nil".toUTF8.toList ∧ tok ≠ "true".toUTF8.toList ∧ tok ≠ "false".toUTF8.toList) :
    readIdentifier ctx { rest := tok ++ rest, calls := cl } =
      .ok (.sym (mkHdr (tok ++ rest).length rest.length) none ns nm) { rest := rest, calls := cl } := by
  obtain ⟨hne, hnd, hcc, _⟩ := ht
  unfold readIdentifier
  simp only [Ctx.pos]
  rw [scanIdent_tok tok rest hr hnd hcc]
  have hs := identSplit_split tok 0 ns nm hne (.inl rfl) hsp
  simp only [Nat.add_zero, Option.map_id'] at hs
  have hpk := peek_ne_colon hne hc
  rcases hs with ⟨rfl, rfl, he⟩ | ⟨k, hk, rfl, rfl, he⟩
  · rw [he]
    have h1 : (nm == strBytes "nil") = false := by rw [beq_eq_false_iff_ne]; exact hres.1
    have h2 : (nm == strBytes "true") = false := by rw [beq_eq_false_iff_ne]; exact hres.2.1
    have h3 : (nm == strBytes "false") = false := by rw [beq_eq_false_iff_ne]; exact hres.2.2
    simp [hpk, h1, h2, h3]
  · rw [he]
    have hpk' : (peek (List.take k tok) == 0x3A) = false := by
      cases tok with
      | nil => exact absurd rfl hne
      | cons c t =>
        obtain ⟨k', rfl⟩ : ∃ k', k = k' + 1 := ⟨k - 1, by omega⟩
        simpa [peek_cons] using hpk
    simp [hpk', List.take_of_length_le]

/-- the identifier reader on a keyword token followed by a delimiter or the end -/
theorem readIdentifier_kw (ctx : Ctx) (tok : Bytes) (ns : Option Bytes) (nm : Bytes) (rest : Bytes) (cl : List Call)
    (hr : TermD rest) (ht : IdentTok (0x3A :: tok)) (hc : tok.head? ≠ some 0x3A)
    (hsp : splitIdent tok = some (ns, nm)) (hne : tok ≠ []) (hsl : tok ≠ [0x2F]) :
    readIdentifier ctx { rest := 0x3A :: tok ++ rest, calls := cl } =
      .ok (.kw (mkHdr (0x3A :: tok ++ rest).length rest.length) ns nm) { rest := rest, calls := cl } := by
  obtain ⟨_, hnd, hcc, _⟩ := ht
  unfold readIdentifier
  simp only [Ctx.pos]
  rw [scanIdent_tok (0x3A :: tok) rest hr hnd hcc]
  have hs := identSplit_split tok 1 ns nm hne (.inr hsl) hsp
  have hix : List.idxOf? 0x2F (0x3A :: tok) = (tok.idxOf? 0x2F).map (· + 1) := by
    rw [List.idxOf?_cons]
    have : ((0x3A : UInt8) == 0x2F) = false := by decide
    simp only [this, Bool.false_eq_true, ↓reduceIte]
  rw [hix, List.length_cons]
  have hpk := peek_ne_colon hne hc
  have hemp : tok.isEmpty = false := by
    cases tok with
    | nil => exact absurd rfl hne
    | cons _ _ => rfl
  rcases hs with ⟨rfl, rfl, he⟩ | ⟨k, hk, rfl, rfl, he⟩
  · rw [he]
    simp [peek_cons, hpk, hemp]
  · rw [he]
    obtain ⟨k', rfl⟩ : ∃ k', k = k' + 1 := ⟨k - 1, by omega⟩
    cases tok with
    | nil => exact absurd rfl hne
    | cons c t =>
      simp only [peek_cons] at hpk
      simp [peek_cons, hpk, List.take_of_length_le]

end Edn.Proofs
