/-
  Edn.Proofs.AllocLedgerAux6 — `readValueA` with one more unit of fuel, and the induction on the
  fuel over the six reader functions: every one of them keeps the ledger (`RG`), for every oracle.
-/
import Edn.Proofs.AllocLedgerAux5

namespace Edn.Proofs.AllocLedger
open Edn.Model Edn.Proofs.AllocBasic
open Edn.Generated

theorem readValueA_step (x : ACtx) (f : Nat) (ihV : PV x f) (ihS : PS x f) (ihM : PM x f) (ihN : PN x f)
    (ihT : PT x f) (ihMe : PMe x f) : PV x (f + 1) := by
  intro d dm st a
  rw [readValueA]
  dsimp only
  split
  · exact RG.err (Good.refl a) _ _
  · split
    · exact RG.err (Good.refl a) _ _
    · split
      · exact readStringA_rg x _ a
      · exact readCharacterA_rg x _ a
      · split
        · exact RG.err (Good.refl a) _ _
        · exact ihS ..
      · split
        · exact RG.err (Good.refl a) _ _
        · exact ihS ..
      · split
        · exact RG.err (Good.refl a) _ _
        · exact ihM ..
      · split
        · split
          · exact readSymbolicA_rg x _ a
          · split
            · exact RG.err (Good.refl a) _ _
            · split
              · exact ihS ..
              · split
                · next rrest _ _ _ _ _ =>
                  have h1 := ihV (d + 1) true { rest := rrest, calls := st.calls } a
                  rcases hq : readValueA x f (d + 1) true { rest := rrest, calls := st.calls } a with ⟨r, a'⟩
                  rw [hq] at h1
                  cases r with
                  | ok v st' => exact RG.after h1.1 (ihV d dm st' a')
                  | closer st' => exact RG.err h1.1 _ _
                  | err e st' => exact RG.err h1.1 _ _
                · split
                  · exact ihN ..
                  · exact ihT ..
        · exact ihT ..
      · split
        · split
          · exact readNumberResA_rg x _ a
          · exact readIdentifierA_rg x _ a
        · exact readIdentifierA_rg x _ a
      · exact readNumberResA_rg x _ a
      · split
        · exact RG.err (Good.refl a) _ _
        · exact RG.closer (Good.refl a) _
      · split
        · exact RG.err (Good.refl a) _ _
        · exact ihMe ..
      · exact readIdentifierA_rg x _ a

/-- every reader function keeps the ledger, with any amount of fuel, under any oracle -/
theorem reader_rg (x : ACtx) (f : Nat) : PV x f ∧ PS x f ∧ PM x f ∧ PN x f ∧ PT x f ∧ PMe x f := by
  induction f with
  | zero =>
    refine ⟨?_, ?_, ?_, ?_, ?_, ?_⟩
    · intro d dm st a; rw [readValueA]; exact RG.fuelOut a st
    · intro d dm kind start st a b acc; rw [readSeqA]; exact RG.fuelOut a st
    · intro d dm start ns st a b ks vs; rw [readMapA]; exact RG.fuelOut a st
    · intro d dm start st a; rw [readNsMapA]; exact RG.fuelOut a st
    · intro d dm start st a; rw [readTaggedA]; exact RG.fuelOut a st
    · intro d dm start st a; rw [readMetaA]; exact RG.fuelOut a st
  | succ f ih =>
    obtain ⟨ihV, ihS, ihM, ihN, ihT, ihMe⟩ := ih
    exact ⟨readValueA_step x f ihV ihS ihM ihN ihT ihMe, readSeqA_step x f ihV ihS, readMapA_step x f ihV ihM,
      readNsMapA_step x f ihV ihM, readTaggedA_step x f ihV, readMetaA_step x f ihV⟩

end Edn.Proofs.AllocLedger
