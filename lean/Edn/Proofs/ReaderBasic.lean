/-
  Edn.Proofs.ReaderBasic — first facts about the recursive reader: leading blanks and
  other whitespace in front of a form do not change what is read.
-/
import Edn.Proofs.Scan
import Edn.Model.Reader
namespace Edn.Proofs
open Edn.Model

theorem skipWs_blank_prefix (k : Nat) (s : Bytes) : skipWs (List.replicate k 0x20 ++ s) = skipWs s := by
  rw [skipWs_eq, skipWs_eq]
  unfold skipWsScalar
  apply skipWsScalarAux_prefix
  rw [List.all_eq_true]
  intro x hx
  rw [List.eq_of_mem_replicate hx]
  decide +kernel

theorem skipWs_nonws (c : UInt8) (t : Bytes) (h : isPreWs c = false) : skipWs (c :: t) = c :: t := by
  rw [skipWs_eq]
  unfold skipWsScalar
  rw [skipWsScalarAux_false_cons]
  rw [isPreWs_iff] at h
  simp only [Bool.or_eq_false_iff] at h
  simp [h.1, h.2]

theorem readValue_blank_prefix (ctx : Ctx) (f d : Nat) (dm : Bool) (k : Nat) (s : Bytes) (cl : List Call) :
    readValue ctx (f + 1) d dm { rest := List.replicate k 0x20 ++ s, calls := cl }
      = readValue ctx (f + 1) d dm { rest := s, calls := cl } := by
  cases k with
  | zero => simp
  | succ k =>
    rw [readValue, readValue]
    simp only [List.replicate_succ, List.cons_append]
    have hsp : isPreWs 0x20 = true := by decide +kernel
    simp only [hsp, ↓reduceIte]
    have h1 : skipWs (0x20 :: (List.replicate k 0x20 ++ s)) = skipWs s := by
      have := skipWs_blank_prefix (k + 1) s
      simpa [List.replicate_succ] using this
    rw [h1]
    cases s with
    | nil => simp [skipWs, skipWsSimd]
    | cons c0 t =>
      simp only
      by_cases hp : isPreWs c0 = true
      · simp only [hp, ↓reduceIte]
      · simp only [hp, Bool.false_eq_true, ↓reduceIte]
        rw [skipWs_nonws c0 t (by simpa using hp)]
end Edn.Proofs
