/-
  Edn.Proofs.TextBlockSound — C20, converse direction: the text-block reader returns a value
  only for inputs that start with a well-formed block, it then consumed exactly that block and
  the value is the documented text; every other input is rejected, and which of the two errors
  is reported says how the input is ill-formed.

  Well-formedness here is `SrcLine.WF` for the lines and `Closer.WFx` for the closing delimiter.
  `Closer.WFx` is `Closer.WF` of the specification with one more case allowed: the body of the
  last line may end in an escaped triple quote when the delimiter follows it directly
  (`\""""""`).  The reader accepts that (it reads `"""`), so soundness with respect to
  `Closer.WF` itself is false: see `closer_WF_too_narrow` below.
-/
import Edn.Proofs.TextBlockSoundAux4
import Edn.Spec.Renders

namespace Edn.Proofs
open Edn.Model Edn.Spec

/-! ### the body reader -/

/-- forward direction for the exact well-formedness (extends `readTextBlockBody_encode`) -/
theorem readTextBlockBody_complete (lines : List SrcLine) (c : Closer) (rest : Bytes)
    (hl : ∀ l ∈ lines, l.WF) (hc : c.WFx lines) :
    readTextBlockBody (encodeBlock lines c ++ rest) = .ok (blockText lines c, rest) :=
  readTextBlockBody_encode_x lines c rest hl hc

/-- with the fuel it is given, the line scanner's outcome describes the input -/
theorem readTextBlockBody_outcome (body : Bytes) :
    match readTextBlockBody body with
    | .ok (_, rest) => ClosedAt body rest
    | .error .missingCloser => Unclosed body
    | .error (.eofInLine ls) => CutLine body ls := by
  have ho := tbLines_outcome (body.length + 2) body [] (by omega)
  unfold readTextBlockBody
  cases hl : tbLines (body.length + 2) body [] with
  | error e =>
    rw [hl] at ho
    cases e with
    | missingCloser => exact ho
    | eofInLine ls => exact ho
  | ok x =>
    obtain ⟨ls, r⟩ := x
    rw [hl] at ho
    exact ho

/-- soundness: a returned text comes from a well-formed block at the start of the input, the
    returned rest is what follows that block, and the text is the documented one -/
theorem readTextBlockBody_sound (body text rest : Bytes) (h : readTextBlockBody body = .ok (text, rest)) :
    ∃ (lines : List SrcLine) (c : Closer), (∀ l ∈ lines, l.WF) ∧ c.WFx lines ∧
      body = encodeBlock lines c ++ rest ∧ text = blockText lines c := by
  have ho := readTextBlockBody_outcome body
  rw [h] at ho
  obtain ⟨lines, c, h1, h2, h3⟩ := closedAt_block body rest ho
  refine ⟨lines, c, h1, h2, h3, ?_⟩
  have hc := readTextBlockBody_complete lines c rest h1 h2
  rw [← h3, h] at hc
  simp only [Except.ok.injEq, Prod.mk.injEq] at hc
  exact hc.1

/-- the body reader accepts exactly the well-formed blocks -/
theorem readTextBlockBody_iff (body text rest : Bytes) :
    readTextBlockBody body = .ok (text, rest) ↔
      ∃ (lines : List SrcLine) (c : Closer), (∀ l ∈ lines, l.WF) ∧ c.WFx lines ∧
        body = encodeBlock lines c ++ rest ∧ text = blockText lines c := by
  constructor
  · exact readTextBlockBody_sound body text rest
  · rintro ⟨lines, c, h1, h2, rfl, rfl⟩
    exact readTextBlockBody_complete lines c rest h1 h2

/-- the delimiter is reported missing exactly when the input consists of complete well-formed
    lines (possibly none) -/
theorem readTextBlockBody_missingCloser_iff (body : Bytes) :
    readTextBlockBody body = .error .missingCloser ↔ Unclosed body := by
  constructor
  · intro h
    have ho := readTextBlockBody_outcome body
    rw [h] at ho
    exact ho
  · rintro ⟨lines, h1, h2⟩
    unfold readTextBlockBody
    rw [tbLines_unclosed lines h1 body h2]

/-- "end of input inside a line" is reported, with the start `ls` of that line, exactly when
    the input consists of complete well-formed lines and then a non-empty `ls` without a line
    feed and without an unescaped triple quote -/
theorem readTextBlockBody_eofInLine_iff (body ls : Bytes) :
    readTextBlockBody body = .error (.eofInLine ls) ↔ CutLine body ls := by
  constructor
  · intro h
    have ho := readTextBlockBody_outcome body
    rw [h] at ho
    exact ho
  · rintro ⟨lines, h1, h2, h3, h4⟩
    unfold readTextBlockBody
    rw [tbLines_cut lines h1 ls h3 h4 body h2]

/-- an input on which the body reader fails does not start with a well-formed block -/
theorem not_block_of_error (body : Bytes) (e : TbErr) (h : readTextBlockBody body = .error e) :
    ¬ ∃ (lines : List SrcLine) (c : Closer) (rest : Bytes), (∀ l ∈ lines, l.WF) ∧ c.WFx lines ∧
      body = encodeBlock lines c ++ rest := by
  rintro ⟨lines, c, rest, h1, h2, h3⟩
  have := readTextBlockBody_complete lines c rest h1 h2
  rw [← h3, h] at this
  cases this

/-- if no prefix of the input is a well-formed block the body reader fails, and the error says
    how the input is ill-formed -/
theorem readTextBlockBody_rejected (body : Bytes)
    (h : ¬ ∃ (lines : List SrcLine) (c : Closer) (rest : Bytes), (∀ l ∈ lines, l.WF) ∧ c.WFx lines ∧
      body = encodeBlock lines c ++ rest) :
    (readTextBlockBody body = .error .missingCloser ∧ Unclosed body) ∨
    (∃ ls, readTextBlockBody body = .error (.eofInLine ls) ∧ CutLine body ls) := by
  have ho := readTextBlockBody_outcome body
  cases hr : readTextBlockBody body with
  | ok x =>
    obtain ⟨text, rest⟩ := x
    obtain ⟨lines, c, h1, h2, h3, -⟩ := readTextBlockBody_sound body text rest hr
    exact absurd ⟨lines, c, rest, h1, h2, h3⟩ h
  | error e =>
    rw [hr] at ho
    cases e with
    | missingCloser => exact .inl ⟨rfl, ho⟩
    | eofInLine ls => exact .inr ⟨ls, rfl, ho⟩

/-- determinism: the block at the start of an input is unique - two well-formed decompositions
    of the same input have the same lines, the same closing delimiter and the same rest (the
    block ends at the first triple quote that is not escaped) -/
theorem block_decomposition_unique (lines lines' : List SrcLine) (c c' : Closer) (rest rest' : Bytes)
    (hl : ∀ l ∈ lines, l.WF) (hc : c.WFx lines) (hl' : ∀ l ∈ lines', l.WF) (hc' : c'.WFx lines')
    (h : encodeBlock lines c ++ rest = encodeBlock lines' c' ++ rest') :
    lines = lines' ∧ c = c' ∧ rest = rest' :=
  block_unique lines lines' c c' rest rest' hl hc hl' hc' h

/-! ### the reader -/

/-- `readString` on `"""⏎ s` with the experimental flag is the body reader on `s` -/
theorem readString_textblock_eq (ctx : Ctx) (hexp : ctx.cfg.exp = true) (s : Bytes) (cl : List Call) :
    readString ctx { rest := 0x22 :: 0x22 :: 0x22 :: 0x0A :: s, calls := cl } =
      match readTextBlockBody s with
      | .ok (text, rest) => .ok (.str (mkHdr (s.length + 4) rest.length) text false) { rest := rest, calls := cl }
      | .error .missingCloser => .err (mkErr .invalidString (some (s.length + 4)) (some 0)) { rest := [], calls := cl }
      | .error (.eofInLine ls) => .err (mkErr .invalidString) { rest := ls, calls := cl } := by
  unfold readString
  simp only [hexp, startsWith, Bool.true_and]
  have hp : ([0x22, 0x22, 0x22, 0x0A] : Bytes).isPrefixOf (0x22 :: 0x22 :: 0x22 :: 0x0A :: s) = true := by simp
  have hd : (0x22 :: 0x22 :: 0x22 :: 0x0A :: s).drop 4 = s := rfl
  rw [hp, hd]
  simp only [if_true, Ctx.pos, List.length_cons]
  cases readTextBlockBody s with
  | ok x => rfl
  | error e => cases e <;> rfl

/-- reader-level soundness: a value returned for `"""⏎ s` is the string denoted by a well-formed
    block at the start of `s`, spanning the literal, and the reader stands right after it -/
theorem readString_textblock_sound (ctx : Ctx) (hexp : ctx.cfg.exp = true) (s : Bytes) (cl : List Call)
    (v : Val) (st' : St)
    (h : readString ctx { rest := 0x22 :: 0x22 :: 0x22 :: 0x0A :: s, calls := cl } = .ok v st') :
    ∃ (lines : List SrcLine) (c : Closer) (rest : Bytes), (∀ l ∈ lines, l.WF) ∧ c.WFx lines ∧
      s = encodeBlock lines c ++ rest ∧
      v = .str (mkHdr (s.length + 4) rest.length) (blockText lines c) false ∧
      st' = { rest := rest, calls := cl } := by
  rw [readString_textblock_eq ctx hexp] at h
  cases hr : readTextBlockBody s with
  | error e => rw [hr] at h; cases e <;> cases h
  | ok x =>
    obtain ⟨text, rest⟩ := x
    rw [hr] at h
    simp only [Res.ok.injEq] at h
    obtain ⟨lines, c, h1, h2, h3, h4⟩ := readTextBlockBody_sound s text rest hr
    exact ⟨lines, c, rest, h1, h2, h3, by rw [← h.1, h4], h.2.symm⟩

/-- the reader accepts exactly the well-formed blocks: `"""⏎ body rest` is read as a string with
    text `text` leaving `rest` iff `body` is a well-formed block denoting `text` -/
theorem readString_textblock_iff (ctx : Ctx) (hexp : ctx.cfg.exp = true) (body rest text : Bytes) (cl : List Call) :
    readString ctx { rest := 0x22 :: 0x22 :: 0x22 :: 0x0A :: (body ++ rest), calls := cl } =
        .ok (.str (mkHdr (4 + body.length + rest.length) rest.length) text false) { rest := rest, calls := cl } ↔
      ∃ (lines : List SrcLine) (c : Closer), (∀ l ∈ lines, l.WF) ∧ c.WFx lines ∧
        body = encodeBlock lines c ∧ text = blockText lines c := by
  constructor
  · intro h
    obtain ⟨lines, c, rest', h1, h2, h3, h4, h5⟩ := readString_textblock_sound ctx hexp _ cl _ _ h
    simp only [St.mk.injEq, and_true] at h5
    subst h5
    simp only [Val.str.injEq, and_true] at h4
    exact ⟨lines, c, h1, h2, List.append_cancel_right h3, h4.2⟩
  · rintro ⟨lines, c, h1, h2, rfl, rfl⟩
    rw [readString_textblock_eq ctx hexp, readTextBlockBody_complete lines c rest h1 h2]
    simp only [List.length_append]
    congr 3
    omega

/-- the same with the value compared through `strip` (content only) -/
theorem readString_textblock_iff_strip (ctx : Ctx) (hexp : ctx.cfg.exp = true) (body rest text : Bytes) (cl : List Call) :
    (∃ v, readString ctx { rest := 0x22 :: 0x22 :: 0x22 :: 0x0A :: (body ++ rest), calls := cl } =
        .ok v { rest := rest, calls := cl } ∧ strip v = .str hdr0 text false) ↔
      ∃ (lines : List SrcLine) (c : Closer), (∀ l ∈ lines, l.WF) ∧ c.WFx lines ∧
        body = encodeBlock lines c ∧ text = blockText lines c := by
  constructor
  · rintro ⟨v, h, hs⟩
    obtain ⟨lines, c, rest', h1, h2, h3, h4, h5⟩ := readString_textblock_sound ctx hexp _ cl _ _ h
    simp only [St.mk.injEq, and_true] at h5
    subst h5
    subst h4
    simp only [strip, Val.str.injEq, true_and, and_true] at hs
    exact ⟨lines, c, h1, h2, List.append_cancel_right h3, hs.symm⟩
  · intro h
    exact ⟨_, (readString_textblock_iff ctx hexp body rest text cl).mpr h, by simp [strip]⟩

/-- rejection: if no prefix of `body` is a well-formed block then the reader fails with
    `invalidString`; either the input consists of complete lines only - then the error range is
    the whole literal up to the end of the input and the reader stands at the end of the input -
    or the input ends inside a line - then no range is set (the caller reports the reader's
    position) and the reader stands at the start of that line -/
theorem textBlock_rejected (ctx : Ctx) (hexp : ctx.cfg.exp = true) (body : Bytes) (cl : List Call)
    (h : ¬ ∃ (lines : List SrcLine) (c : Closer) (rest : Bytes), (∀ l ∈ lines, l.WF) ∧ c.WFx lines ∧
      body = encodeBlock lines c ++ rest) :
    (∃ e, readTextBlockBody body = .error e) ∧
    ((Unclosed body ∧
      readString ctx { rest := 0x22 :: 0x22 :: 0x22 :: 0x0A :: body, calls := cl } =
        .err (mkErr .invalidString (some (body.length + 4)) (some 0)) { rest := [], calls := cl }) ∨
     (∃ ls, CutLine body ls ∧
      readString ctx { rest := 0x22 :: 0x22 :: 0x22 :: 0x0A :: body, calls := cl } =
        .err (mkErr .invalidString) { rest := ls, calls := cl })) := by
  rcases readTextBlockBody_rejected body h with ⟨h1, h2⟩ | ⟨ls, h1, h2⟩
  · refine ⟨⟨_, h1⟩, .inl ⟨h2, ?_⟩⟩
    rw [readString_textblock_eq ctx hexp, h1]
  · refine ⟨⟨_, h1⟩, .inr ⟨ls, h2, ?_⟩⟩
    rw [readString_textblock_eq ctx hexp, h1]

/-- in particular the reader never returns a value (nor a closing delimiter) for such an input,
    and the error code is `invalidString` -/
theorem textBlock_rejected_code (ctx : Ctx) (hexp : ctx.cfg.exp = true) (body : Bytes) (cl : List Call)
    (h : ¬ ∃ (lines : List SrcLine) (c : Closer) (rest : Bytes), (∀ l ∈ lines, l.WF) ∧ c.WFx lines ∧
      body = encodeBlock lines c ++ rest) :
    ∃ e st', readString ctx { rest := 0x22 :: 0x22 :: 0x22 :: 0x0A :: body, calls := cl } = .err e st' ∧
      e.code = .invalidString := by
  rcases (textBlock_rejected ctx hexp body cl h).2 with ⟨-, h2⟩ | ⟨ls, -, h2⟩
  · exact ⟨_, _, h2, rfl⟩
  · exact ⟨_, _, h2, rfl⟩

/-! ### the specification's `Closer.WF` is narrower than what the reader accepts -/

/-- `\""""""` (an escaped triple quote directly followed by the closing delimiter) is read as the
    text `"""`, but it is not the encoding of any block that is well-formed in the sense of
    `Closer.WF`: soundness holds for `Closer.WFx` only -/
theorem closer_WF_too_narrow :
    readTextBlockBody [0x5C, 0x22, 0x22, 0x22, 0x22, 0x22, 0x22] = .ok ([0x22, 0x22, 0x22], []) ∧
    ¬ ∃ (lines : List SrcLine) (c : Closer) (rest : Bytes), (∀ l ∈ lines, l.WF) ∧ c.WF lines ∧
      [0x5C, 0x22, 0x22, 0x22, 0x22, 0x22, 0x22] = encodeBlock lines c ++ rest := by
  -- the exact decomposition is the one-line block with body `\"""` and an inline closer
  have hx : (Closer.inline).WFx [⟨[], [0x5C, 0x22, 0x22, 0x22]⟩] := ⟨_, rfl, by simp, by decide⟩
  have hw : ∀ l ∈ [(⟨[], [0x5C, 0x22, 0x22, 0x22]⟩ : SrcLine)], l.WF := by
    intro l hl
    rw [List.mem_singleton.mp hl]
    exact ⟨by simp, by simp; decide, .esc [] .nil⟩
  refine ⟨?_, ?_⟩
  · have := readTextBlockBody_complete _ _ [] hw hx
    rw [show blockText [(⟨[], [0x5C, 0x22, 0x22, 0x22]⟩ : SrcLine)] .inline = [0x22, 0x22, 0x22] by decide +kernel] at this
    exact this
  rintro ⟨lines, c, rest, h1, h2, h3⟩
  obtain ⟨rfl, rfl, -⟩ := block_decomposition_unique lines [⟨[], [0x5C, 0x22, 0x22, 0x22]⟩] c .inline rest []
    h1 h2.toWFx hw hx (by rw [← h3]; rfl)
  obtain ⟨l, hlast, -, -, hq⟩ := h2
  simp only [List.getLast?_singleton, Option.some.injEq] at hlast
  subst hlast
  exact hq rfl

end Edn.Proofs
