/-
  Edn.Proofs.FuelAux5 — fuel monotonicity of the step functions, and `reader_fuel_mono`.
-/
import Edn.Proofs.FuelAux3

namespace Edn.Proofs
open Edn.Model
open Edn.Generated

def EV (A A' : RVT) : Prop := ∀ d dm st, (A d dm st).isFuelOut = false → A' d dm st = A d dm st
def ES (A A' : RST) : Prop := ∀ d dm kind start st acc, (A d dm kind start st acc).isFuelOut = false →
  A' d dm kind start st acc = A d dm kind start st acc
def EM (A A' : RMT) : Prop := ∀ d dm start ns st ks vs, (A d dm start ns st ks vs).isFuelOut = false →
  A' d dm start ns st ks vs = A d dm start ns st ks vs
def E4 (A A' : R4T) : Prop := ∀ d dm start st, (A d dm start st).isFuelOut = false →
  A' d dm start st = A d dm start st

theorem EV.eq {A A' : RVT} (h : EV A A') {d : Nat} {dm : Bool} {st : St} {r : Res}
    (hr : A d dm st = r) (hf : r.isFuelOut = false) : A' d dm st = r := by
  rw [← hr]; exact h _ _ _ (by rw [hr]; exact hf)

theorem ite_mono {c : Prop} [Decidable c] {x a a' : Res} (h : a.isFuelOut = false → a' = a) :
    (if c then x else a).isFuelOut = false → (if c then x else a') = (if c then x else a) := by
  split
  · intro _; rfl
  · exact h

theorem rvStep_mono (ctx : Ctx) {RV RV' : RVT} {RS RS' : RST} {RM RM' : RMT} {RN RN' RT RT' RMe RMe' : R4T}
    (hV : EV RV RV') (hS : ES RS RS') (hM : EM RM RM') (hN : E4 RN RN') (hT : E4 RT RT') (hMe : E4 RMe RMe')
    (d : Nat) (dm : Bool) (calls : List Call) (c : UInt8) (cs : Bytes) :
    (rvStep ctx RV RS RM RN RT RMe d dm calls c cs).isFuelOut = false →
    rvStep ctx RV' RS' RM' RN' RT' RMe' d dm calls c cs = rvStep ctx RV RS RM RN RT RMe d dm calls c cs := by
  unfold rvStep
  simp only []
  cases hdisp : dispatch ctx.cfg c with
  | string => intro _; rfl
  | character => intro _; rfl
  | listOpen => exact ite_mono (hS _ _ _ _ _ _)
  | vectorOpen => exact ite_mono (hS _ _ _ _ _ _)
  | mapOpen => exact ite_mono (hM _ _ _ _ _ _ _)
  | hash =>
    simp only []
    cases cs with
    | nil => simp only []; exact hT _ _ _ _
    | cons nx cs' =>
      simp only []
      split
      · intro _; rfl
      split
      · intro _; rfl
      split
      · exact hS _ _ _ _ _ _
      split
      · cases hr : RV (d + 1) true { rest := cs', calls := calls } with
        | ok v st' =>
          simp only []
          intro h
          rw [hV.eq hr rfl]
          exact hV _ _ _ h
        | closer st' =>
          intro _
          rw [hV.eq hr rfl]
        | err e st' =>
          simp only []
          intro h
          rw [hV.eq hr h]
      split
      · exact hN _ _ _ _
      · exact hT _ _ _ _
  | sign => intro _; rfl
  | digit => intro _; rfl
  | delimiter => intro _; rfl
  | metadata => exact ite_mono (hMe _ _ _ _)
  | identifier => intro _; rfl

theorem rvOuter_mono (ctx : Ctx) {RV RV' : RVT} {RS RS' : RST} {RM RM' : RMT} {RN RN' RT RT' RMe RMe' : R4T}
    (hV : EV RV RV') (hS : ES RS RS') (hM : EM RM RM') (hN : E4 RN RN') (hT : E4 RT RT') (hMe : E4 RMe RMe')
    (d : Nat) (dm : Bool) (st : St) :
    (rvOuter ctx RV RS RM RN RT RMe d dm st).isFuelOut = false →
    rvOuter ctx RV' RS' RM' RN' RT' RMe' d dm st = rvOuter ctx RV RS RM RN RT RMe d dm st := by
  unfold rvOuter
  cases hs : st.rest with
  | nil => intro _; rfl
  | cons c0 t =>
    simp only []
    cases hw : (if isPreWs c0 = true then skipWs (c0 :: t) else c0 :: t) with
    | nil => intro _; rfl
    | cons c cs =>
      simp only []
      exact rvStep_mono ctx hV hS hM hN hT hMe d dm st.calls c cs

theorem eofRewrite_fuelOut {e : ErrInfo} {st' : St} {x : Res}
    (h : (if (e.code == .unexpectedEof && !e.fuelOut) = true then x else Res.err e st').isFuelOut = false) :
    e.fuelOut = false := by
  cases hfo : e.fuelOut with
  | false => rfl
  | true =>
    rw [hfo] at h
    simp only [Bool.not_true, Bool.and_false, Bool.false_eq_true, ↓reduceIte, Res.isFuelOut] at h
    rw [hfo] at h; cases h

theorem rsStep_mono (ctx : Ctx) {RV RV' : RVT} {RS RS' : RST} (hV : EV RV RV') (hS : ES RS RS')
    (d : Nat) (dm : Bool) (kind start : Nat) (st : St) (acc : List Val) :
    (rsStep ctx RV RS d dm kind start st acc).isFuelOut = false →
    rsStep ctx RV' RS' d dm kind start st acc = rsStep ctx RV RS d dm kind start st acc := by
  unfold rsStep
  cases hr : RV (d + 1) dm st with
  | ok v st' =>
    simp only []
    intro h
    rw [hV.eq hr rfl]
    exact hS _ _ _ _ _ _ h
  | err e st' =>
    simp only []
    intro h
    rw [hV.eq hr (eofRewrite_fuelOut h)]
  | closer st' =>
    intro _
    rw [hV.eq hr rfl]

theorem rmStep_mono (ctx : Ctx) {RV RV' : RVT} {RM RM' : RMT} (hV : EV RV RV') (hM : EM RM RM')
    (d : Nat) (dm : Bool) (start : Nat) (ns : Option Bytes) (st : St) (ks vs : List Val) :
    (rmStep ctx RV RM d dm start ns st ks vs).isFuelOut = false →
    rmStep ctx RV' RM' d dm start ns st ks vs = rmStep ctx RV RM d dm start ns st ks vs := by
  unfold rmStep
  simp only []
  cases hr : RV (d + 1) dm st with
  | ok k st' =>
    simp only []
    cases hr2 : RV (d + 1) dm st' with
    | ok v st'' =>
      simp only []
      intro h
      rw [hV.eq hr rfl]
      simp only []
      rw [hV.eq hr2 rfl]
      exact hM _ _ _ _ _ _ _ h
    | err e st'' =>
      simp only []
      intro h
      rw [hV.eq hr rfl]
      simp only []
      rw [hV.eq hr2 (eofRewrite_fuelOut h)]
    | closer st'' =>
      intro _
      rw [hV.eq hr rfl]
      simp only []
      rw [hV.eq hr2 rfl]
  | err e st' =>
    simp only []
    intro h
    rw [hV.eq hr (eofRewrite_fuelOut h)]
  | closer st' =>
    intro _
    rw [hV.eq hr rfl]

theorem rnStep_mono (ctx : Ctx) {RV RV' : RVT} {RM RM' : RMT} (hV : EV RV RV') (hM : EM RM RM')
    (d : Nat) (dm : Bool) (start : Nat) (st : St) :
    (rnStep ctx RV RM d dm start st).isFuelOut = false →
    rnStep ctx RV' RM' d dm start st = rnStep ctx RV RM d dm start st := by
  unfold rnStep
  cases hr : RV d dm st with
  | closer st' => intro _; rw [hV.eq hr rfl]
  | err e st' => intro h; rw [hV.eq hr h]
  | ok kwv st' =>
    simp only []
    intro h
    rw [hV.eq hr rfl]
    simp only []
    revert h
    split
    · split
      · split
        · exact hM _ _ _ _ _ _ _
        · intro _; rfl
      · intro _; rfl
    · intro _; rfl

theorem rtStep_mono (ctx : Ctx) {RV RV' : RVT} (hV : EV RV RV')
    (d : Nat) (dm : Bool) (start : Nat) (st : St) :
    (rtStep ctx RV d dm start st).isFuelOut = false →
    rtStep ctx RV' d dm start st = rtStep ctx RV d dm start st := by
  unfold rtStep
  simp only []
  split
  · intro _; rfl
  · split
    · intro _; rfl
    · cases hri : readIdentifier ctx st with
      | closer st' => intro _; rfl
      | err e st' => intro _; rfl
      | ok tagv st' =>
        simp only []
        split
        · cases hr : RV (d + 1) dm st' with
          | closer st'' => intro _; rw [hV.eq hr rfl]
          | err e st'' => intro h; rw [hV.eq hr h]
          | ok v st'' => intro _; rw [hV.eq hr rfl]
        · intro _; rfl

theorem rmeStep_mono (ctx : Ctx) {RV RV' : RVT} (hV : EV RV RV')
    (d : Nat) (dm : Bool) (start : Nat) (st : St) :
    (rmeStep ctx RV d dm start st).isFuelOut = false →
    rmeStep ctx RV' d dm start st = rmeStep ctx RV d dm start st := by
  unfold rmeStep
  simp only []
  cases hr : RV (d + 1) dm st with
  | closer st' => intro _; rw [hV.eq hr rfl]
  | err e st' => intro h; rw [hV.eq hr h]
  | ok m st' =>
    simp only []
    intro h
    rw [hV.eq hr rfl]
    simp only []
    revert h
    split
    · intro _; rfl
    · cases hr2 : RV (d + 1) dm st' with
      | closer st'' => intro _; rw [hV.eq hr2 rfl]
      | err e st'' => intro h; rw [hV.eq hr2 h]
      | ok form st'' => intro _; rw [hV.eq hr2 rfl]

theorem fuelOut_isFuelOut (st : St) : (fuelOut st).isFuelOut = true := rfl

/-- monotonicity: one more unit of fuel does not change any result that is not "out of fuel" -/
theorem reader_fuel_mono' (ctx : Ctx) : ∀ (f : Nat),
    EV (readValue ctx f) (readValue ctx (f + 1)) ∧ ES (readSeq ctx f) (readSeq ctx (f + 1)) ∧
    EM (readMap ctx f) (readMap ctx (f + 1)) ∧ E4 (readNsMap ctx f) (readNsMap ctx (f + 1)) ∧
    E4 (readTagged ctx f) (readTagged ctx (f + 1)) ∧ E4 (readMeta ctx f) (readMeta ctx (f + 1)) := by
  intro f
  induction f with
  | zero =>
    refine ⟨?_, ?_, ?_, ?_, ?_, ?_⟩
    · intro d dm st h; rw [readValue_zero, fuelOut_isFuelOut] at h; cases h
    · intro d dm kind start st acc h; rw [readSeq_zero, fuelOut_isFuelOut] at h; cases h
    · intro d dm start ns st ks vs h; rw [readMap_zero, fuelOut_isFuelOut] at h; cases h
    · intro d dm start st h; rw [readNsMap_zero, fuelOut_isFuelOut] at h; cases h
    · intro d dm start st h; rw [readTagged_zero, fuelOut_isFuelOut] at h; cases h
    · intro d dm start st h; rw [readMeta_zero, fuelOut_isFuelOut] at h; cases h
  | succ f ih =>
    obtain ⟨hV, hS, hM, hN, hT, hMe⟩ := ih
    refine ⟨?_, ?_, ?_, ?_, ?_, ?_⟩
    · intro d dm st
      rw [readValue_succ ctx (f + 1), readValue_succ ctx f]
      exact rvOuter_mono ctx hV hS hM hN hT hMe d dm st
    · intro d dm kind start st acc
      rw [readSeq_succ ctx (f + 1), readSeq_succ ctx f]
      exact rsStep_mono ctx hV hS d dm kind start st acc
    · intro d dm start ns st ks vs
      rw [readMap_succ ctx (f + 1), readMap_succ ctx f]
      exact rmStep_mono ctx hV hM d dm start ns st ks vs
    · intro d dm start st
      rw [readNsMap_succ ctx (f + 1), readNsMap_succ ctx f]
      exact rnStep_mono ctx hV hM d dm start st
    · intro d dm start st
      rw [readTagged_succ ctx (f + 1), readTagged_succ ctx f]
      exact rtStep_mono ctx hV d dm start st
    · intro d dm start st
      rw [readMeta_succ ctx (f + 1), readMeta_succ ctx f]
      exact rmeStep_mono ctx hV d dm start st

end Edn.Proofs
