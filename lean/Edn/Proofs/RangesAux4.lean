/-
  Edn.Proofs.RangesAux4 — the range postcondition for the step functions of the reader and,
  by induction on the fuel, for the six reader functions.
-/
import Edn.Proofs.RangesAux3

namespace Edn.Proofs
open Edn.Model Edn.Spec
open Edn.Generated

/-- `omega` after unfolding `ctx.pos` -/
macro "pos_omega" : tactic =>
  `(tactic| first | omega | (simp only [Ctx.pos, List.length_cons, List.length_nil] at *; omega))

def QV (ctx : Ctx) (RV : RVT) : Prop := ∀ d dm st, Post ctx st.rest.length (RV d dm st)
def QS (ctx : Ctx) (RS : RST) : Prop := ∀ d dm kind start st acc, st.rest.length < start →
  (ctx.opts.registry = none → AccS start st.rest.length acc) → Post ctx start (RS d dm kind start st acc)
def QM (ctx : Ctx) (RM : RMT) : Prop := ∀ d dm start ns st ks vs, st.rest.length < start →
  (ctx.opts.registry = none → AccM start st.rest.length ks vs) → Post ctx start (RM d dm start ns st ks vs)
def Q4 (ctx : Ctx) (R : R4T) : Prop := ∀ d dm start st, st.rest.length < start → Post ctx start (R d dm start st)

theorem rsStep_post (ctx : Ctx) {RV : RVT} {RS : RST} (pV : PV RV) (qV : QV ctx RV) (qS : QS ctx RS)
    (d : Nat) (dm : Bool) (kind start : Nat) (st : St) (acc : List Val) (hst : st.rest.length < start)
    (hacc : ctx.opts.registry = none → AccS start st.rest.length acc) :
    Post ctx start (rsStep ctx RV RS d dm kind start st acc) := by
  unfold rsStep
  have h1 := pV (d + 1) dm st
  have q1 := qV (d + 1) dm st
  cases hr : RV (d + 1) dm st with
  | ok v st' =>
    rw [hr] at h1 q1; simp only [Progress] at h1
    simp only []
    apply qS _ _ _ _ _ _ (by omega)
    intro hreg
    exact (hacc hreg).push (q1 hreg) (by omega)
  | err e st' =>
    rw [hr] at h1 q1; simp only [Progress] at h1
    simp only []
    split
    · exact errB_some (by pos_omega) (Nat.le_refl _)
    · exact ErrB.mono q1 (by omega)
  | closer st' =>
    rw [hr] at h1; simp only [Progress] at h1
    simp only []
    cases hs : st'.rest with
    | nil => exact errB_some (Nat.le_trans (Nat.sub_le _ _) (by simp only [List.length_nil]; omega)) (Nat.le_refl _)
    | cons c r =>
      rw [hs] at h1
      simp only [List.length_cons] at h1
      simp only []
      split
      · exact errB_some (by simp only [List.length_cons]; omega) (Nat.le_refl _)
      · have hclose : ctx.opts.registry = none → _ := fun hreg => (hacc hreg).close (stop := r.length) (by omega)
        split
        · intro hreg
          obtain ⟨c1, c2, c3⟩ := hclose hreg
          exact (seq_okPost_list (stop := r.length) (by pos_omega) rfl c1 c2 c3).1
        · split
          · intro hreg
            obtain ⟨c1, c2, c3⟩ := hclose hreg
            exact (seq_okPost_list (stop := r.length) (by pos_omega) rfl c1 c2 c3).2.1
          · split
            · exact errB_some (by pos_omega) (Nat.le_refl _)
            · intro hreg
              obtain ⟨c1, c2, c3⟩ := hclose hreg
              have ht := seq_transfer (hasDuplicates_skv ctx.cfg acc.reverse) c1 c2
              exact (seq_okPost_list (stop := r.length) (by pos_omega) rfl ht.1 ht.2
                (hasDuplicates_rangeOK _ _ c3)).2.2

theorem rmStep_post (ctx : Ctx) {RV : RVT} {RM : RMT} (pV : PV RV) (qV : QV ctx RV) (qM : QM ctx RM)
    (d : Nat) (dm : Bool) (start : Nat) (ns : Option Bytes) (st : St) (ks vs : List Val)
    (hst : st.rest.length < start) (hacc : ctx.opts.registry = none → AccM start st.rest.length ks vs) :
    Post ctx start (rmStep ctx RV RM d dm start ns st ks vs) := by
  unfold rmStep
  simp only []
  have h1 := pV (d + 1) dm st
  have q1 := qV (d + 1) dm st
  cases hr : RV (d + 1) dm st with
  | ok k st' =>
    rw [hr] at h1 q1; simp only [Progress] at h1
    simp only []
    have h2 := pV (d + 1) dm st'
    have q2 := qV (d + 1) dm st'
    cases hr2 : RV (d + 1) dm st' with
    | ok v st'' =>
      rw [hr2] at h2 q2; simp only [Progress] at h2
      simp only []
      apply qM _ _ _ _ _ _ _ (by omega)
      intro hreg
      refine (hacc hreg).push (q1 hreg) (q2 hreg) (by omega) ?_
      cases ns with
      | none => exact ⟨(q1 hreg).rok, Or.inr rfl⟩
      | some n => exact qualifyKey_ok n k (q1 hreg).rok
    | err e st'' =>
      rw [hr2] at h2 q2; simp only [Progress] at h2
      simp only []
      split
      · exact errB_some (by pos_omega) (Nat.le_refl _)
      · exact ErrB.mono q2 (by omega)
    | closer st'' =>
      rw [hr2] at h2; simp only [Progress] at h2
      exact errB_some (by pos_omega) (Nat.le_refl _)
  | err e st' =>
    rw [hr] at h1 q1; simp only [Progress] at h1
    simp only []
    split
    · exact errB_some (by pos_omega) (Nat.le_refl _)
    · exact ErrB.mono q1 (by omega)
  | closer st' =>
    rw [hr] at h1; simp only [Progress] at h1
    simp only []
    cases hs : st'.rest with
    | nil => exact errB_some (by pos_omega) (Nat.le_refl _)
    | cons c r =>
      rw [hs] at h1
      simp only [List.length_cons] at h1
      simp only []
      split
      · exact errB_some (by simp only [List.length_cons]; omega) (Nat.le_refl _)
      · split
        · exact errB_some (by pos_omega) (Nat.le_refl _)
        · intro hreg
          exact (hacc hreg).close ctx.cfg (stop := r.length) (by omega) (by omega) rfl

theorem rnStep_post (ctx : Ctx) {RV : RVT} {RM : RMT} (pV : PV RV) (qV : QV ctx RV) (qM : QM ctx RM)
    (d : Nat) (dm : Bool) (start : Nat) (st : St) (hst : st.rest.length < start) :
    Post ctx start (rnStep ctx RV RM d dm start st) := by
  unfold rnStep
  have h1 := pV d dm st
  have q1 := qV d dm st
  cases hr : RV d dm st with
  | closer st' => trivial
  | err e st' => rw [hr] at q1; exact ErrB.mono q1 (by omega)
  | ok kwv st' =>
    rw [hr] at h1; simp only [Progress] at h1
    simp only []
    have hws := skipWs_length_le' st'.rest
    split
    · rename_i name
      split
      · rename_i c r heq
        have hws' := hws
        rw [heq] at hws'; simp only [List.length_cons] at hws'
        split
        · exact qM d dm start (some name) { rest := r, calls := st'.calls } [] [] (by simp only []; omega)
            (fun _ => AccM.nil _ _)
        · exact errB_some (by simp only [Ctx.pos, heq, List.length_cons]; omega) (Nat.le_refl _)
      · rename_i heq
        exact errB_some (by simp only [Ctx.pos, heq, List.length_nil]; omega) (Nat.le_refl _)
    · exact errB_some (by pos_omega) (Nat.le_refl _)

theorem rtStep_post (ctx : Ctx) {RV : RVT} (pV : PV RV) (qV : QV ctx RV)
    (d : Nat) (dm : Bool) (start : Nat) (st : St) (hst : st.rest.length < start) :
    Post ctx start (rtStep ctx RV d dm start st) := by
  unfold rtStep
  simp only []
  split
  · exact errB_some (by pos_omega) (Nat.le_refl _)
  · split
    · exact errB_some (by pos_omega) (Nat.le_refl _)
    · have h1 := readIdentifier_progress' ctx st
      have q1 : Post ctx st.rest.length (readIdentifier ctx st) := (readIdentifier_leaf ctx st).post h1
      cases hr : readIdentifier ctx st with
      | closer st' => trivial
      | err e st' => rw [hr] at q1; exact ErrB.mono q1 (by omega)
      | ok tagv st' =>
        rw [hr] at h1; simp only [Progress] at h1
        simp only []
        split
        · have h2 := pV (d + 1) dm st'
          have q2 := qV (d + 1) dm st'
          cases hr2 : RV (d + 1) dm st' with
          | closer st'' =>
            rw [hr2] at h2; simp only [Progress] at h2
            exact errB_some (by pos_omega) (Nat.le_refl _)
          | err e st'' =>
            rw [hr2] at q2; exact ErrB.mono q2 (by omega)
          | ok v st'' =>
            rw [hr2] at h2 q2; simp only [Progress] at h2
            simp only []
            cases hreg : ctx.opts.registry with
            | none =>
              simp only []
              intro _
              have hv := q2 hreg
              have e1 := hv.he
              have e2 := hv.hlt
              have e3 := hv.hs
              refine ⟨?_, rfl, rfl, by simp only [Val.hdr, mkHdr, Ctx.pos]; omega, Nat.le_refl _, trivial,
                mdTop_of_none rfl⟩
              simp only [RangeOK]
              refine ⟨Or.inr (by simp only [mkHdr, Ctx.pos]; omega), Or.inr (Or.inr ⟨?_, ?_⟩), hv.rok, rangeOKO_none _⟩
              · simp only [mkHdr]; omega
              · simp only [mkHdr, Ctx.pos]; omega
            | some reg =>
              simp only []
              repeat' split
              all_goals first
                | (intro hn; rw [hreg] at hn; cases hn)
                | exact errB_some (by pos_omega) (Nat.le_refl _)
        · exact errB_some (by pos_omega) (Nat.le_refl _)

theorem rmeStep_post (ctx : Ctx) {RV : RVT} (pV : PV RV) (qV : QV ctx RV)
    (d : Nat) (dm : Bool) (start : Nat) (st : St) (hst : st.rest.length < start) :
    Post ctx start (rmeStep ctx RV d dm start st) := by
  unfold rmeStep
  simp only []
  have h1 := pV (d + 1) dm st
  have q1 := qV (d + 1) dm st
  cases hr : RV (d + 1) dm st with
  | closer st' =>
    rw [hr] at h1; simp only [Progress] at h1
    exact errB_some (by pos_omega) (Nat.le_refl _)
  | err e st' => rw [hr] at q1; exact ErrB.mono q1 (by omega)
  | ok m st' =>
    rw [hr] at h1 q1; simp only [Progress] at h1
    simp only []
    split
    · exact errB_some (by pos_omega) (Nat.le_refl _)
    · rename_i nks nvs hme
      have h2 := pV (d + 1) dm st'
      have q2 := qV (d + 1) dm st'
      cases hr2 : RV (d + 1) dm st' with
      | closer st'' =>
        rw [hr2] at h2; simp only [Progress] at h2
        exact errB_some (by pos_omega) (Nat.le_refl _)
      | err e st'' => rw [hr2] at q2; exact ErrB.mono q2 (by omega)
      | ok form st'' =>
        rw [hr2] at h2 q2; simp only [Progress] at h2
        simp only []
        split
        · exact errB_some (by pos_omega) (Nat.le_refl _)
        · rename_i hmt
          have hmt' : form.metaTarget = true := by simpa using hmt
          intro hreg
          exact attachMeta_ok ctx.cfg (q2 hreg) (metaEntries_ok (q1 hreg) hme) (by omega) (by omega) hmt'

theorem rvStep_post (ctx : Ctx) {RV : RVT} {RS : RST} {RM : RMT} {RN RT RMe : R4T}
    (pV : PV RV) (qV : QV ctx RV) (qS : QS ctx RS) (qM : QM ctx RM) (qN : Q4 ctx RN) (qT : Q4 ctx RT) (qMe : Q4 ctx RMe)
    (d : Nat) (dm : Bool) (calls : List Call) (c : UInt8) (cs : Bytes) :
    Post ctx (c :: cs).length (rvStep ctx RV RS RM RN RT RMe d dm calls c cs) := by
  unfold rvStep
  simp only []
  have hlt : cs.length < (c :: cs).length := by simp
  have hdeep : ErrB (c :: cs).length (mkErr .invalidSyntax (some (ctx.pos (c :: cs))) (some (ctx.pos (c :: cs) - 1)))
      { rest := c :: cs, calls := calls } := errB_some (Nat.sub_le _ _) (Nat.le_refl _)
  cases hdisp : dispatch ctx.cfg c with
  | string => exact (readString_leaf ctx _).post (readString_progress' ctx _ (by simp))
  | character => exact (readCharacter_leaf ctx _).post (readCharacter_progress' ctx _ (by simp))
  | listOpen =>
    simp only []
    split
    · exact hdeep
    · exact qS _ _ _ _ _ _ hlt (fun _ => AccS.nil _ _)
  | vectorOpen =>
    simp only []
    split
    · exact hdeep
    · exact qS _ _ _ _ _ _ hlt (fun _ => AccS.nil _ _)
  | mapOpen =>
    simp only []
    split
    · exact hdeep
    · exact qM _ _ _ _ _ _ _ hlt (fun _ => AccM.nil _ _)
  | hash =>
    simp only []
    cases cs with
    | nil => exact qT _ _ _ _ hlt
    | cons nx cs' =>
      simp only []
      have hlt' : cs'.length < (c :: nx :: cs').length := by
        simp only [List.length_cons]; omega
      split
      · exact (readSymbolic_leaf ctx _).post (readSymbolic_progress' ctx _ (by simp))
      split
      · exact hdeep
      split
      · exact qS _ _ _ _ _ _ hlt' (fun _ => AccS.nil _ _)
      split
      · have h1 := pV (d + 1) true { rest := cs', calls := calls }
        have q1 := qV (d + 1) true { rest := cs', calls := calls }
        cases hr : RV (d + 1) true { rest := cs', calls := calls } with
        | ok v st' =>
          rw [hr] at h1; simp only [Progress] at h1
          simp only []
          exact (qV d dm st').mono (by simp only [List.length_cons]; omega)
        | closer st' =>
          exact errB_some (Nat.sub_le _ _) (Nat.le_refl _)
        | err e st' =>
          rw [hr] at q1
          exact ErrB.mono q1 (by simp only [List.length_cons]; omega)
      split
      · exact qN _ _ _ _ hlt
      · exact qT _ _ _ _ hlt
  | sign =>
    simp only []
    have hs := dispatch_sign hdisp
    cases cs with
    | nil => exact (readIdentifier_leaf ctx _).post (readIdentifier_progress' ctx _)
    | cons nx t =>
      simp only []
      split
      · rename_i hnx
        exact (readNumberRes_leaf ctx _).post
          (readNumberRes_progress' ctx _ c (nx :: t) rfl (Or.inr ⟨hs, nx, t, rfl, hnx⟩))
      · exact (readIdentifier_leaf ctx _).post (readIdentifier_progress' ctx _)
  | digit =>
    exact (readNumberRes_leaf ctx _).post (readNumberRes_progress' ctx _ c cs rfl (Or.inl (dispatch_digit hdisp)))
  | delimiter =>
    simp only []
    split
    · exact errB_none (Nat.le_refl _)
    · trivial
  | metadata =>
    simp only []
    split
    · exact hdeep
    · exact qMe _ _ _ _ hlt
  | identifier => exact (readIdentifier_leaf ctx _).post (readIdentifier_progress' ctx _)

theorem rvOuter_post (ctx : Ctx) {RV : RVT} {RS : RST} {RM : RMT} {RN RT RMe : R4T}
    (pV : PV RV) (qV : QV ctx RV) (qS : QS ctx RS) (qM : QM ctx RM) (qN : Q4 ctx RN) (qT : Q4 ctx RT) (qMe : Q4 ctx RMe)
    (d : Nat) (dm : Bool) (st : St) :
    Post ctx st.rest.length (rvOuter ctx RV RS RM RN RT RMe d dm st) := by
  unfold rvOuter
  cases hs : st.rest with
  | nil => simp only [eofErrOf]; exact ⟨Nat.le_refl _, by rw [hs]; exact Nat.le_refl _⟩
  | cons c0 t =>
    simp only []
    have hle : (if isPreWs c0 = true then skipWs (c0 :: t) else c0 :: t).length ≤ (c0 :: t).length := by
      split
      · exact skipWs_length_le' _
      · exact Nat.le_refl _
    cases hw : (if isPreWs c0 = true then skipWs (c0 :: t) else c0 :: t) with
    | nil => simp only [eofErrOf]; exact ⟨Nat.le_refl _, Nat.zero_le _⟩
    | cons c cs =>
      simp only []
      rw [hw] at hle
      exact (rvStep_post ctx pV qV qS qM qN qT qMe d dm st.calls c cs).mono hle

/-- the range postcondition for all six mutually recursive functions, for every fuel -/
theorem reader_post (ctx : Ctx) : ∀ (f : Nat),
    QV ctx (readValue ctx f) ∧ QS ctx (readSeq ctx f) ∧ QM ctx (readMap ctx f) ∧ Q4 ctx (readNsMap ctx f) ∧
    Q4 ctx (readTagged ctx f) ∧ Q4 ctx (readMeta ctx f) := by
  intro f
  induction f with
  | zero =>
    refine ⟨?_, ?_, ?_, ?_, ?_, ?_⟩
    · intro d dm st; rw [readValue_zero]; exact ⟨Nat.le_refl _, Nat.le_refl _⟩
    · intro d dm kind start st acc h _; rw [readSeq_zero]; exact ⟨Nat.le_refl _, Nat.le_of_lt h⟩
    · intro d dm start ns st ks vs h _; rw [readMap_zero]; exact ⟨Nat.le_refl _, Nat.le_of_lt h⟩
    · intro d dm start st h; rw [readNsMap_zero]; exact ⟨Nat.le_refl _, Nat.le_of_lt h⟩
    · intro d dm start st h; rw [readTagged_zero]; exact ⟨Nat.le_refl _, Nat.le_of_lt h⟩
    · intro d dm start st h; rw [readMeta_zero]; exact ⟨Nat.le_refl _, Nat.le_of_lt h⟩
  | succ f ih =>
    obtain ⟨qV, qS, qM, qN, qT, qMe⟩ := ih
    obtain ⟨pV, -, -, -, -, -⟩ := reader_progress' ctx f
    refine ⟨?_, ?_, ?_, ?_, ?_, ?_⟩
    · intro d dm st; rw [readValue_succ]; exact rvOuter_post ctx pV qV qS qM qN qT qMe d dm st
    · intro d dm kind start st acc h ha; rw [readSeq_succ]; exact rsStep_post ctx pV qV qS _ _ _ _ _ _ h ha
    · intro d dm start ns st ks vs h ha; rw [readMap_succ]; exact rmStep_post ctx pV qV qM _ _ _ _ _ _ _ h ha
    · intro d dm start st h; rw [readNsMap_succ]; exact rnStep_post ctx pV qV qM _ _ _ _ h
    · intro d dm start st h; rw [readTagged_succ]; exact rtStep_post ctx pV qV _ _ _ _ h
    · intro d dm start st h; rw [readMeta_succ]; exact rmeStep_post ctx pV qV _ _ _ _ h

end Edn.Proofs
