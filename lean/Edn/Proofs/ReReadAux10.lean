/-
  Edn.Proofs.ReReadAux10 — every value the reader returns is hereditarily re-readable:
  step lemmas for the six reader functions and the induction on the fuel.
-/
import Edn.Proofs.ReReadAux9

namespace Edn.Proofs
open Edn.Model Edn.Spec
open Edn.Generated

section
variable (ctx : Ctx) (inp : Bytes)

def GV (RV : RVT) : Prop := ∀ d dm st v st', st.rest <:+ inp → st.calls = [] → RV d dm st = .ok v st' → HRR ctx inp v
def GS (RS : RST) : Prop := ∀ d dm kind start st acc v st', st.rest <:+ inp → st.calls = [] → HRRL ctx inp acc →
  RS d dm kind start st acc = .ok v st' → HK ctx inp v
def GM (RM : RMT) : Prop := ∀ d dm start ns st ks vs v st', st.rest <:+ inp → st.calls = [] → HRRL ctx inp ks →
  HRRL ctx inp vs → RM d dm start ns st ks vs = .ok v st' → HK ctx inp v
def G4 (R : R4T) : Prop := ∀ d dm start st v st', st.rest <:+ inp → st.calls = [] → R d dm start st = .ok v st' →
  HK ctx inp v
end

/-- successful reads leave a suffix and do not touch the call log -/
def FV (RV : RVT) : Prop := ∀ d dm st v st', RV d dm st = .ok v st' → st'.rest <:+ st.rest ∧ st'.calls = st.calls

theorem hk_list {ctx : Ctx} {inp : Bytes} {h : Hdr} {xs : List Val} (hx : HRRL ctx inp xs) : HK ctx inp (.list h none xs) := by
  intro c hc; simp only [kidsOf, children, Val.md, Option.toList_none, List.append_nil] at hc; exact hx c hc
theorem hk_vec {ctx : Ctx} {inp : Bytes} {h : Hdr} {xs : List Val} (hx : HRRL ctx inp xs) : HK ctx inp (.vec h none xs) := by
  intro c hc; simp only [kidsOf, children, Val.md, Option.toList_none, List.append_nil] at hc; exact hx c hc
theorem hk_set {ctx : Ctx} {inp : Bytes} {h : Hdr} {xs : List Val} (hx : HRRL ctx inp xs) : HK ctx inp (.set h none xs) := by
  intro c hc; simp only [kidsOf, children, Val.md, Option.toList_none, List.append_nil] at hc; exact hx c hc
theorem hk_map {ctx : Ctx} {inp : Bytes} {h : Hdr} {ks vs : List Val} (hk : HRRL ctx inp ks) (hv : HRRL ctx inp vs) :
    HK ctx inp (.map h none ks vs) := by
  intro c hc
  simp only [kidsOf, children, Val.md, Option.toList_none, List.append_nil, List.mem_append] at hc
  rcases hc with hc | hc
  · exact hk c hc
  · exact hv c hc
theorem hk_tagged {ctx : Ctx} {inp : Bytes} {h : Hdr} {tg : Bytes} {x : Val} (hx : HRR ctx inp x) :
    HK ctx inp (.tagged h none tg x) := by
  intro c hc
  simp only [kidsOf, children, Val.md, Option.toList_none, List.append_nil, List.mem_cons, List.not_mem_nil,
    or_false] at hc
  subst hc; exact hx

theorem kidsOf_of_isLeaf {v : Val} (h : isLeaf v = true) : kidsOf v = [] := by
  cases v <;> simp only [isLeaf] at h <;> try rfl
  case sym md _ _ =>
    cases md with
    | none => rfl
    | some m => cases h
  all_goals (cases h)

theorem leaf_hk {ctx : Ctx} {inp : Bytes} {st : St} {r : Res} {v : Val} {st' : St} (hl : LeafPost st r) (h : r = .ok v st') :
    HK ctx inp v := by
  subst h
  exact HK.of_nil (kidsOf_of_isLeaf hl.1)

theorem readIdentifier_suffix (ctx : Ctx) (st st' : St) (v : Val) (h : readIdentifier ctx st = .ok v st') :
    st'.rest <:+ st.rest ∧ st'.calls = st.calls := by
  have hc := (leaf_calls ctx st).2.2.1
  rw [h] at hc
  refine ⟨?_, hc⟩
  have hp := readIdentifier_progress' ctx st
  rw [h] at hp; simp only [Progress] at hp
  obtain ⟨s, cl⟩ := st
  simp only [] at hp ⊢
  generalize hn : st'.rest.length = n at hp
  have hsplit : s = s.take (s.length - n) ++ s.drop (s.length - n) := (List.take_append_drop _ _).symm
  rw [hsplit] at h
  have hlen : (s.drop (s.length - n)).length = n := by
    simp only [List.length_drop]; omega
  obtain ⟨t', v', hst, -, -⟩ := readIdentifier_cut ctx _ _ cl v st' h (by omega)
  subst hst
  simp only [List.length_append] at hn
  have : t' = [] := List.eq_nil_of_length_eq_zero (by omega)
  subst this
  simp only [List.nil_append]; exact List.drop_suffix _ _

theorem suffix_of_cons {c : UInt8} {cs inp : Bytes} (h : (c :: cs) <:+ inp) : cs <:+ inp :=
  List.IsSuffix.trans (List.suffix_cons c cs) h

/-! ## step lemmas -/

theorem rsStep_hk (ctx : Ctx) (inp : Bytes) {RV : RVT} {RS : RST} (gV : GV ctx inp RV) (fV : FV RV) (gS : GS ctx inp RS) :
    GS ctx inp (rsStep ctx RV RS) := by
  intro d dm kind start st acc v st' hsuf hcl hacc h
  unfold rsStep at h
  cases hr : RV (d + 1) dm st with
  | ok x st1 =>
    rw [hr] at h; simp only [] at h
    obtain ⟨f1, f2⟩ := fV _ _ _ _ _ hr
    exact gS d dm kind start st1 (x :: acc) v st' (f1.trans hsuf) (by rw [f2, hcl])
      (HRRL.cons (gV _ _ _ _ _ hsuf hcl hr) hacc) h
  | err e st1 =>
    rw [hr] at h; simp only [] at h
    split at h <;> cases h
  | closer st1 =>
    rw [hr] at h; simp only [] at h
    split at h
    · cases h
    · split at h
      · cases h
      · split at h
        · simp only [Res.ok.injEq] at h
          obtain ⟨rfl, -⟩ := h
          exact hk_list hacc.reverse
        · split at h
          · simp only [Res.ok.injEq] at h
            obtain ⟨rfl, -⟩ := h
            exact hk_vec hacc.reverse
          · split at h
            · cases h
            · simp only [Res.ok.injEq] at h
              obtain ⟨rfl, -⟩ := h
              exact hk_set hacc.reverse.hasDuplicates

theorem rmStep_hk (ctx : Ctx) (inp : Bytes) {RV : RVT} {RM : RMT} (gV : GV ctx inp RV) (fV : FV RV) (gM : GM ctx inp RM) :
    GM ctx inp (rmStep ctx RV RM) := by
  intro d dm start ns st ks vs v st' hsuf hcl hks hvs h
  unfold rmStep at h
  simp only [] at h
  cases hr : RV (d + 1) dm st with
  | ok k st1 =>
    rw [hr] at h; simp only [] at h
    obtain ⟨f1, f2⟩ := fV _ _ _ _ _ hr
    have hs1 := f1.trans hsuf
    have hc1 : st1.calls = [] := by rw [f2, hcl]
    cases hr2 : RV (d + 1) dm st1 with
    | ok x st2 =>
      rw [hr2] at h; simp only [] at h
      obtain ⟨f3, f4⟩ := fV _ _ _ _ _ hr2
      change RM d dm start ns st2 (qkey ns k :: ks) (x :: vs) = .ok v st' at h
      exact gM d dm start ns st2 _ _ v st' (f3.trans hs1) (by rw [f4, hc1])
        (HRRL.cons ((gV _ _ _ _ _ hsuf hcl hr).qkey ns) hks) (HRRL.cons (gV _ _ _ _ _ hs1 hc1 hr2) hvs) h
    | err e st2 =>
      rw [hr2] at h; simp only [] at h
      split at h <;> cases h
    | closer st2 => rw [hr2] at h; cases h
  | err e st1 =>
    rw [hr] at h; simp only [] at h
    split at h <;> cases h
  | closer st1 =>
    rw [hr] at h; simp only [] at h
    split at h
    · cases h
    · split at h
      · cases h
      · split at h
        · cases h
        · simp only [Res.ok.injEq] at h
          obtain ⟨rfl, -⟩ := h
          exact hk_map hks.reverse.hasDuplicates hvs.reverse

theorem rnStep_hk (ctx : Ctx) (inp : Bytes) {RV : RVT} {RM : RMT} (fV : FV RV) (gM : GM ctx inp RM) :
    G4 ctx inp (rnStep ctx RV RM) := by
  intro d dm start st v st' hsuf hcl h
  unfold rnStep at h
  cases hr : RV d dm st with
  | closer st1 => rw [hr] at h; cases h
  | err e st1 => rw [hr] at h; cases h
  | ok kwv st1 =>
    rw [hr] at h; simp only [] at h
    obtain ⟨f1, f2⟩ := fV _ _ _ _ _ hr
    split at h
    · split at h
      · rename_i name _ c rr heq
        split at h
        · have hs : rr <:+ inp := by
            have h1 : (c :: rr) <:+ st1.rest := by rw [← heq]; exact skipWs_suffix' _
            exact suffix_of_cons (h1.trans (f1.trans hsuf))
          exact gM d dm start (some name) { rest := rr, calls := st1.calls } [] [] v st' hs (by simp only []; rw [f2, hcl])
            HRRL.nil HRRL.nil h
        · cases h
      · cases h
    · cases h

theorem rtStep_hk (ctx : Ctx) (hreg : ctx.opts.registry = none) (inp : Bytes) {RV : RVT} (gV : GV ctx inp RV) :
    G4 ctx inp (rtStep ctx RV) := by
  intro d dm start st v st' hsuf hcl h
  unfold rtStep at h
  simp only [hreg] at h
  split at h
  · cases h
  · split at h
    · cases h
    · cases hr : readIdentifier ctx st with
      | closer st1 => rw [hr] at h; cases h
      | err e st1 => rw [hr] at h; cases h
      | ok tagv st1 =>
        rw [hr] at h; simp only [] at h
        obtain ⟨f1, f2⟩ := readIdentifier_suffix ctx _ _ _ hr
        split at h
        · cases hr2 : RV (d + 1) dm st1 with
          | closer st2 => rw [hr2] at h; cases h
          | err e st2 => rw [hr2] at h; cases h
          | ok x st2 =>
            rw [hr2] at h; simp only [Res.ok.injEq] at h
            obtain ⟨rfl, -⟩ := h
            exact hk_tagged (gV _ _ _ _ _ (f1.trans hsuf) (by rw [f2, hcl]) hr2)
        · cases h

theorem rmeStep_hk (ctx : Ctx) (hreg : ctx.opts.registry = none) (inp : Bytes) {RV : RVT} (gV : GV ctx inp RV) (fV : FV RV)
    (qV : QV ctx RV) : G4 ctx inp (rmeStep ctx RV) := by
  intro d dm start st v st' hsuf hcl h
  unfold rmeStep at h
  simp only [] at h
  cases hr : RV (d + 1) dm st with
  | closer st1 => rw [hr] at h; cases h
  | err e st1 => rw [hr] at h; cases h
  | ok m st1 =>
    rw [hr] at h; simp only [] at h
    obtain ⟨f1, f2⟩ := fV _ _ _ _ _ hr
    have hs1 := f1.trans hsuf
    have hc1 : st1.calls = [] := by rw [f2, hcl]
    cases hme : metaEntries m with
    | none => rw [hme] at h; cases h
    | some p =>
      obtain ⟨nks, nvs⟩ := p
      rw [hme] at h; simp only [] at h
      obtain ⟨hk, hv⟩ := metaEntries_hrr (gV _ _ _ _ _ hsuf hcl hr) hme
      cases hr2 : RV (d + 1) dm st1 with
      | closer st2 => rw [hr2] at h; cases h
      | err e st2 => rw [hr2] at h; cases h
      | ok form st2 =>
        rw [hr2] at h; simp only [] at h
        have q2 := qV (d + 1) dm st1
        rw [hr2] at q2
        split at h
        · cases h
        · rename_i hmt
          simp only [Res.ok.injEq] at h
          obtain ⟨rfl, -⟩ := h
          exact attachMeta_hk start (gV _ _ _ _ _ hs1 hc1 hr2) (q2 hreg) hk hv (by simpa using hmt)

theorem rvStep_hk (ctx : Ctx) (inp : Bytes) {RV : RVT} {RS : RST} {RM : RMT} {RN RT RMe : R4T}
    (gV : GV ctx inp RV) (fV : FV RV) (gS : GS ctx inp RS) (gM : GM ctx inp RM) (gN : G4 ctx inp RN) (gT : G4 ctx inp RT)
    (gMe : G4 ctx inp RMe) (d : Nat) (dm : Bool) (c : UInt8) (cs : Bytes) (v : Val) (st' : St)
    (hsuf : (c :: cs) <:+ inp) (h : rvStep ctx RV RS RM RN RT RMe d dm [] c cs = .ok v st') : HK ctx inp v := by
  unfold rvStep at h
  simp only [] at h
  have hcs := suffix_of_cons hsuf
  cases hdisp : dispatch ctx.cfg c with
  | string => rw [hdisp] at h; exact leaf_hk (readString_leaf ctx _) h
  | character => rw [hdisp] at h; exact leaf_hk (readCharacter_leaf ctx _) h
  | listOpen =>
    rw [hdisp] at h; simp only [] at h
    split at h
    · cases h
    · exact gS _ _ _ _ _ _ _ _ hcs rfl HRRL.nil h
  | vectorOpen =>
    rw [hdisp] at h; simp only [] at h
    split at h
    · cases h
    · exact gS _ _ _ _ _ _ _ _ hcs rfl HRRL.nil h
  | mapOpen =>
    rw [hdisp] at h; simp only [] at h
    split at h
    · cases h
    · exact gM _ _ _ _ _ _ _ _ _ hcs rfl HRRL.nil HRRL.nil h
  | hash =>
    rw [hdisp] at h; simp only [] at h
    cases cs with
    | nil => simp only [] at h; exact gT _ _ _ _ _ _ hcs rfl h
    | cons nx cs' =>
      simp only [] at h
      have hcs' := suffix_of_cons hcs
      split at h
      · exact leaf_hk (readSymbolic_leaf ctx _) h
      split at h
      · cases h
      split at h
      · exact gS _ _ _ _ _ _ _ _ hcs' rfl HRRL.nil h
      split at h
      · cases hr : RV (d + 1) true { rest := cs', calls := [] } with
        | ok x st1 =>
          rw [hr] at h; simp only [] at h
          obtain ⟨f1, f2⟩ := fV _ _ _ _ _ hr
          exact (gV _ _ _ _ _ (f1.trans hcs') (by rw [f2]) h).kids
        | closer st1 => rw [hr] at h; cases h
        | err e st1 => rw [hr] at h; cases h
      split at h
      · exact gN _ _ _ _ _ _ hcs rfl h
      · exact gT _ _ _ _ _ _ hcs rfl h
  | sign =>
    rw [hdisp] at h; simp only [] at h
    cases cs with
    | nil => simp only [] at h; exact leaf_hk (readIdentifier_leaf ctx _) h
    | cons nx t =>
      simp only [] at h
      split at h
      · exact leaf_hk (readNumberRes_leaf ctx _) h
      · exact leaf_hk (readIdentifier_leaf ctx _) h
  | digit => rw [hdisp] at h; exact leaf_hk (readNumberRes_leaf ctx _) h
  | delimiter =>
    rw [hdisp] at h; simp only [] at h
    split at h <;> cases h
  | metadata =>
    rw [hdisp] at h; simp only [] at h
    split at h
    · cases h
    · exact gMe _ _ _ _ _ _ hcs rfl h
  | identifier => rw [hdisp] at h; exact leaf_hk (readIdentifier_leaf ctx _) h

theorem rvOuter_hk (ctx : Ctx) (inp : Bytes) {RV : RVT} {RS : RST} {RM : RMT} {RN RT RMe : R4T}
    (gV : GV ctx inp RV) (fV : FV RV) (gS : GS ctx inp RS) (gM : GM ctx inp RM) (gN : G4 ctx inp RN) (gT : G4 ctx inp RT)
    (gMe : G4 ctx inp RMe) (d : Nat) (dm : Bool) (st : St) (v : Val) (st' : St)
    (hsuf : st.rest <:+ inp) (hcl : st.calls = []) (h : rvOuter ctx RV RS RM RN RT RMe d dm st = .ok v st') :
    HK ctx inp v := by
  unfold rvOuter at h
  cases hs : st.rest with
  | nil => rw [hs] at h; simp only [eofErrOf] at h; cases h
  | cons c0 t0 =>
    rw [hs] at h; simp only [] at h
    rw [preWs_eq_skipWs] at h
    cases hw : skipWs (c0 :: t0) with
    | nil => rw [hw] at h; simp only [eofErrOf] at h; cases h
    | cons c cs =>
      rw [hw, hcl] at h; simp only [] at h
      have : (c :: cs) <:+ inp := by
        rw [← hw, ← hs]; exact (skipWs_suffix' _).trans hsuf
      exact rvStep_hk ctx inp gV fV gS gM gN gT gMe d dm c cs v st' this h

/-! ## the induction -/

theorem reader_hrr (ctx : Ctx) (hreg : ctx.opts.registry = none) (inp : Bytes) : ∀ (f : Nat),
    GV ctx inp (readValue ctx f) ∧ GS ctx inp (readSeq ctx f) ∧ GM ctx inp (readMap ctx f) ∧
    G4 ctx inp (readNsMap ctx f) ∧ G4 ctx inp (readTagged ctx f) ∧ G4 ctx inp (readMeta ctx f) := by
  intro f
  induction f with
  | zero =>
    refine ⟨?_, ?_, ?_, ?_, ?_, ?_⟩
    · intro d dm st v st' _ _ h; rw [readValue_zero] at h; cases h
    · intro d dm kind start st acc v st' _ _ _ h; rw [readSeq_zero] at h; cases h
    · intro d dm start ns st ks vs v st' _ _ _ _ h; rw [readMap_zero] at h; cases h
    · intro d dm start st v st' _ _ h; rw [readNsMap_zero] at h; cases h
    · intro d dm start st v st' _ _ h; rw [readTagged_zero] at h; cases h
    · intro d dm start st v st' _ _ h; rw [readMeta_zero] at h; cases h
  | succ f ih =>
    obtain ⟨gV, gS, gM, gN, gT, gMe⟩ := ih
    have fV : FV (readValue ctx f) := fun d dm st v st' h => readValue_rest_suffix ctx hreg f d dm st st' v h
    have qV := (reader_post ctx f).1
    refine ⟨?_, ?_, ?_, ?_, ?_, ?_⟩
    · intro d dm st v st' hsuf hcl h
      refine HRR.intro (rr_self ctx hreg inp (f + 1) d dm st st' v hsuf hcl h) ?_
      rw [readValue_succ] at h
      exact rvOuter_hk ctx inp gV fV gS gM gN gT gMe d dm st v st' hsuf hcl h
    · intro d dm kind start st acc v st' hsuf hcl hacc h
      rw [readSeq_succ] at h
      exact rsStep_hk ctx inp gV fV gS d dm kind start st acc v st' hsuf hcl hacc h
    · intro d dm start ns st ks vs v st' hsuf hcl hks hvs h
      rw [readMap_succ] at h
      exact rmStep_hk ctx inp gV fV gM d dm start ns st ks vs v st' hsuf hcl hks hvs h
    · intro d dm start st v st' hsuf hcl h
      rw [readNsMap_succ] at h
      exact rnStep_hk ctx inp fV gM d dm start st v st' hsuf hcl h
    · intro d dm start st v st' hsuf hcl h
      rw [readTagged_succ] at h
      exact rtStep_hk ctx hreg inp gV d dm start st v st' hsuf hcl h
    · intro d dm start st v st' hsuf hcl h
      rw [readMeta_succ] at h
      exact rmeStep_hk ctx hreg inp gV fV qV d dm start st v st' hsuf hcl h

end Edn.Proofs
