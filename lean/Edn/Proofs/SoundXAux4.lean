/-
  Edn.Proofs.SoundXAux4 — the statements carried through the fuel induction of the soundness
  theorem for all configurations, and the leaf readers brought into that form.
-/
import Edn.Proofs.SoundXAux2
import Edn.Proofs.SoundXAux3
import Edn.Proofs.SoundAux3
import Edn.Proofs.CharSound

namespace Edn.Proofs.SndX
open Edn.Model Edn.Spec Edn.Generated Edn.Proofs
open Edn.Proofs.Snd (Fits fits_zero)

/-- the keys of a map body after the optional qualification, as contents -/
def qualC (ns : Option Bytes) (ks : List Val) : List Val :=
  match ns with
  | none => ks
  | some n => qualifyKeysC n ks

section
variable (cfg : Cfg) (N : NumJ) (S : StrJ)

/-- what a value outcome of `readValue` (at depth `d`) means -/
def OkV (d : Nat) (st : St) (v : Val) (st' : St) : Prop :=
  ∃ k tok, st.rest = tok ++ st'.rest ∧ st'.calls = st.calls ∧ FormX cfg N S k (stripM v) tok st'.rest ∧ Fits d k ∧
    MdOK cfg v

/-- what a "closing delimiter seen" outcome of `readValue` means -/
def CloserV (d : Nat) (st st' : St) : Prop :=
  ∃ k tr, st.rest = tr ++ st'.rest ∧ st'.calls = st.calls ∧ TrailX cfg N S k tr st'.rest ∧ Fits d k ∧ 0 < d ∧
    ∃ c t, st'.rest = c :: t ∧ (c = 0x29 ∨ c = 0x5D ∨ c = 0x7D)

/-- the content of a sequence collection of the given kind -/
def SeqVal (kind : Nat) (ys : List Val) (a : Val) : Prop :=
  if kind = 0 then a = .list hdr0 none ys
  else if kind = 1 then a = .vec hdr0 none ys
  else a = .set hdr0 none ys ∧ pairwiseDistinct cfg ys

/-- what a value outcome of `readTagged` means (`st.rest` starts after the `#`) -/
def OkT (d : Nat) (st : St) (v : Val) (st' : St) : Prop :=
  ∃ k tag ns nm a tok, st.rest = tag ++ (tok ++ st'.rest) ∧ st'.calls = st.calls ∧ IdentLex tag ∧
    IdentDenotes tag (.sym hdr0 none ns nm) ∧ (∃ c t, tok = c :: t ∧ isDelim c = true) ∧
    FormX cfg N S k a tok st'.rest ∧ stripM v = .tagged hdr0 none tag a ∧ Fits (d + 1) k

/-- what a value outcome of `readNsMap` means (`st.rest` starts at the `:` after `#`) -/
def OkN (d : Nat) (st : St) (v : Val) (st' : St) : Prop :=
  ∃ k name tr body ks vs, st.rest = 0x3A :: (name ++ (tr ++ 0x7B :: (body ++ 0x7D :: st'.rest))) ∧ st'.calls = st.calls ∧
    IdentLex (0x3A :: name) ∧ IdentDenotes (0x3A :: name) (.kw hdr0 none name) ∧ Blank tr ∧
    FormSeqX cfg N S k (interleaveKV ks vs) body (0x7D :: st'.rest) ∧ ks.length = vs.length ∧
    pairwiseDistinct cfg (qualifyKeysC name ks) ∧ stripM v = .map hdr0 none (qualifyKeysC name ks) vs ∧
    d + 1 + k ≤ Tables.maxNestingDepth

/-- what a value outcome of `readMeta` means (`st.rest` starts after the `^`) -/
def OkMe (d : Nat) (st : St) (v : Val) (st' : St) : Prop :=
  ∃ k am af nks nvs tokm tokf, st.rest = tokm ++ (tokf ++ st'.rest) ∧ st'.calls = st.calls ∧
    FormX cfg N S k am tokm (tokf ++ st'.rest) ∧ metaEntriesC am = some (nks, nvs) ∧
    FormX cfg N S k af tokf st'.rest ∧ af.metaTarget = true ∧ stripM v = attachMetaC cfg af nks nvs ∧ MdOK cfg v ∧
    d + 1 + k ≤ Tables.maxNestingDepth

def GoodV (d : Nat) (st : St) (r : Res) : Prop :=
  (∀ v st', r = .ok v st' → OkV cfg N S d st v st') ∧ (∀ st', r = .closer st' → CloserV cfg N S d st st')

def GoodS (d kind : Nat) (acc : List Val) (st : St) (r : Res) : Prop :=
  (∀ v st', r = .ok v st' →
    ∃ k xs body, st.rest = body ++ closerByte kind :: st'.rest ∧ st'.calls = st.calls ∧
      FormSeqX cfg N S k xs body (closerByte kind :: st'.rest) ∧ SeqVal cfg kind (stripML acc.reverse ++ xs) (stripM v) ∧
      d + 1 + k ≤ Tables.maxNestingDepth) ∧
  (∀ st', r ≠ .closer st')

def GoodM (d : Nat) (ns : Option Bytes) (ks vs : List Val) (st : St) (r : Res) : Prop :=
  (∀ v st', r = .ok v st' →
    ∃ k ks' vs' body, st.rest = body ++ 0x7D :: st'.rest ∧ st'.calls = st.calls ∧
      FormSeqX cfg N S k (interleaveKV ks' vs') body (0x7D :: st'.rest) ∧ ks'.length = vs'.length ∧
      stripM v = .map hdr0 none (stripML ks.reverse ++ qualC ns ks') (stripML vs.reverse ++ vs') ∧
      pairwiseDistinct cfg (stripML ks.reverse ++ qualC ns ks') ∧ d + 1 + k ≤ Tables.maxNestingDepth) ∧
  (∀ st', r ≠ .closer st')

def GoodT (d : Nat) (st : St) (r : Res) : Prop :=
  (∀ v st', r = .ok v st' → OkT cfg N S d st v st') ∧ (∀ st', r ≠ .closer st')

def GoodN (d : Nat) (st : St) (r : Res) : Prop :=
  (∀ v st', r = .ok v st' → OkN cfg N S d st v st') ∧ (∀ st', r ≠ .closer st')

def GoodMe (d : Nat) (st : St) (r : Res) : Prop :=
  (∀ v st', r = .ok v st' → OkMe cfg N S d st v st') ∧ (∀ st', r ≠ .closer st')

def SV (RV : RVT) : Prop := ∀ d dm st, GoodV cfg N S d st (RV d dm st)

/-- the reader invariant (`ReaderInv`), needed for the duplicate check and the metadata merge -/
def InvV (RV : RVT) : Prop :=
  ∀ d dm st v st', d ≤ Tables.maxNestingDepth → RV d dm st = .ok v st' → ValOK cfg d v

/-- at a `:` the reader is the identifier reader (or out of fuel) -/
def KV (ctx : Ctx) (RV : RVT) : Prop :=
  ∀ d dm cs cl, RV d dm { rest := 0x3A :: cs, calls := cl } = readIdentifier ctx { rest := 0x3A :: cs, calls := cl } ∨
    RV d dm { rest := 0x3A :: cs, calls := cl } = fuelOut { rest := 0x3A :: cs, calls := cl }

def SS (RS : RST) : Prop :=
  ∀ d dm kind start st acc, d < Tables.maxNestingDepth → Elems cfg acc → GoodS cfg N S d kind acc st (RS d dm kind start st acc)

def SM (RM : RMT) : Prop :=
  ∀ d dm start ns st ks vs, d < Tables.maxNestingDepth → Elems cfg ks → ks.length = vs.length →
    GoodM cfg N S d ns ks vs st (RM d dm start ns st ks vs)

def ST (RT : R4T) : Prop := ∀ d dm start st, GoodT cfg N S d st (RT d dm start st)

def SN (RN : R4T) : Prop :=
  ∀ d dm start cs cl, d < Tables.maxNestingDepth →
    GoodN cfg N S d { rest := 0x3A :: cs, calls := cl } (RN d dm start { rest := 0x3A :: cs, calls := cl })

def SMe (RMe : R4T) : Prop :=
  ∀ d dm start st, d < Tables.maxNestingDepth → GoodMe cfg N S d st (RMe d dm start st)

theorem goodV_err (d : Nat) (st : St) (e : ErrInfo) (st' : St) : GoodV cfg N S d st (.err e st') :=
  ⟨fun _ _ h => (by cases h), fun _ h => (by cases h)⟩
theorem goodS_err (d kind : Nat) (acc : List Val) (st : St) (e : ErrInfo) (st' : St) : GoodS cfg N S d kind acc st (.err e st') :=
  ⟨fun _ _ h => (by cases h), fun _ h => (by cases h)⟩
theorem goodM_err (d : Nat) (ns : Option Bytes) (ks vs : List Val) (st : St) (e : ErrInfo) (st' : St) :
    GoodM cfg N S d ns ks vs st (.err e st') :=
  ⟨fun _ _ h => (by cases h), fun _ h => (by cases h)⟩
theorem goodT_err (d : Nat) (st : St) (e : ErrInfo) (st' : St) : GoodT cfg N S d st (.err e st') :=
  ⟨fun _ _ h => (by cases h), fun _ h => (by cases h)⟩
theorem goodN_err (d : Nat) (st : St) (e : ErrInfo) (st' : St) : GoodN cfg N S d st (.err e st') :=
  ⟨fun _ _ h => (by cases h), fun _ h => (by cases h)⟩
theorem goodMe_err (d : Nat) (st : St) (e : ErrInfo) (st' : St) : GoodMe cfg N S d st (.err e st') :=
  ⟨fun _ _ h => (by cases h), fun _ h => (by cases h)⟩

theorem goodV_leaf {d : Nat} {st : St} {r : Res} (hn : r.isCloser = false)
    (h : ∀ v st', r = .ok v st' → OkV cfg N S d st v st') : GoodV cfg N S d st r :=
  ⟨h, fun st' e => by rw [e] at hn; cases hn⟩

end

/-! ### metadata cells of fresh values -/

theorem stripMO_eq_none {m : Option Val} (h : stripMO m = none) : m = none := by
  cases m with
  | none => rfl
  | some x => rw [stripMO_some] at h; cases h

/-- a value whose content has no metadata has none -/
theorem mdOK_of_stripM {cfg : Cfg} {v : Val} (h : (stripM v).md = none) : MdOK cfg v := by
  rw [md_stripM] at h
  exact mdOK_of_none (stripMO_eq_none h)

theorem stripM_eq_strip_of_leaf {v : Val} (hl : leaf v = true) (hm : v.md = none) : stripM v = strip v := by
  cases v <;> first
    | rfl
    | (exact absurd hl Bool.false_ne_true)
    | (simp only [Val.md] at hm; subst hm; rfl)

theorem readIdentifier_mdNone (ctx : Ctx) (st : St) : (readIdentifier ctx st).okP (fun v => v.md = none) := by
  unfold readIdentifier
  simp only []
  repeat' split
  all_goals first | trivial | exact (rfl : Val.md _ = none)

theorem readIdentifier_stripM (ctx : Ctx) (st st' : St) (v : Val) (h : readIdentifier ctx st = .ok v st') :
    stripM v = strip v := by
  have h1 : freshLeaf v = true := okP_elim (readIdentifier_leaf ctx st) h
  have h2 : v.md = none := okP_elim (readIdentifier_mdNone ctx st) h
  have hl : leaf v = true := by
    simp only [freshLeaf, Bool.and_eq_true] at h1
    exact h1.1
  exact stripM_eq_strip_of_leaf hl h2

/-! ### leaf readers -/

theorem readString_shape (ctx : Ctx) (st st' : St) (v : Val) (h : readString ctx st = .ok v st') :
    ∃ hd data esc, v = .str hd data esc ∧ st' = { rest := st'.rest, calls := st.calls } := by
  unfold readString at h
  simp only [] at h
  split at h
  · split at h
    · simp only [Res.ok.injEq] at h
      obtain ⟨rfl, rfl⟩ := h
      exact ⟨_, _, _, rfl, rfl⟩
    · cases h
    · cases h
  · split at h
    · cases h
    · simp only [Res.ok.injEq] at h
      obtain ⟨rfl, rfl⟩ := h
      exact ⟨_, _, _, rfl, rfl⟩

section
variable {cfg : Cfg} {N : NumJ} {S : StrJ}

theorem string_ok (hS : StrExact cfg S) (d : Nat) (ctx : Ctx) (hc : ctx.cfg = cfg) (c : UInt8) (cs : Bytes) (cl : List Call)
    (v : Val) (st' : St) (hd : dispatch cfg c = .string)
    (h : readString ctx { rest := c :: cs, calls := cl } = .ok v st') : OkV cfg N S d { rest := c :: cs, calls := cl } v st' := by
  have hq := dispX_string hd
  subst hq
  obtain ⟨hh, data, esc, rfl, hst⟩ := readString_shape ctx _ st' v h
  simp only [] at hst
  rw [hst] at h
  obtain ⟨tok, h1, h2⟩ := (hS ctx hc (0x22 :: cs) st'.rest cl data esc rfl).mp ⟨hh, h⟩
  refine ⟨0, tok, h1, by rw [hst], ?_, fits_zero d, mdOK_of_none rfl⟩
  simp only [stripM]
  refine .str 0 tok st'.rest data esc ?_ h2
  rw [← h1]; rfl

theorem character_ok (d : Nat) (ctx : Ctx) (hc : ctx.cfg = cfg) (c : UInt8) (cs : Bytes) (cl : List Call) (v : Val) (st' : St)
    (hd : dispatch cfg c = .character)
    (h : readCharacter ctx { rest := c :: cs, calls := cl } = .ok v st') : OkV cfg N S d { rest := c :: cs, calls := cl } v st' := by
  have hq := dispX_character hd
  subst hq
  obtain ⟨c0, body, cp, hs, hcl, htok, hcp, hds, rfl⟩ := readCharacter_sound ctx _ st' v h
  simp only [List.cons.injEq] at hs
  refine ⟨0, 0x5C :: body, ?_, hcl, ?_, fits_zero d, mdOK_of_none rfl⟩
  · show 0x5C :: cs = _
    rw [hs.2]; rfl
  · simp only [stripM]
    rw [hc] at htok
    exact .char 0 body st'.rest cp htok hcp hds

theorem symbolic_ok (d : Nat) (ctx : Ctx) (p : Bytes) (cl : List Call) (v : Val) (st' : St)
    (h : readSymbolic ctx { rest := 0x23 :: 0x23 :: p, calls := cl } = .ok v st') :
    OkV cfg N S d { rest := 0x23 :: 0x23 :: p, calls := cl } v st' := by
  obtain ⟨tok, bits, h1, hcl, htok, hv⟩ := Snd.readSymbolic_sound ctx p cl v st' h
  have hfl : freshLeaf v = true := okP_elim (readSymbolic_leaf ctx _) h
  have hv' : stripM v = .float hdr0 bits := by
    cases v <;> simp only [strip, reduceCtorEq] at hv
    simp only [stripM]; exact hv
  refine ⟨0, tok, h1, hcl, ?_, fits_zero d, mdOK_of_stripM (by rw [hv']; rfl)⟩
  rw [hv']
  exact .symbolic 0 tok st'.rest bits htok

theorem number_ok (hN : NumExact cfg N) (d : Nat) (ctx : Ctx) (hc : ctx.cfg = cfg) (c : UInt8) (cs : Bytes) (cl : List Call)
    (v : Val) (st' : St)
    (hstart : is09 c = true ∨ ((c = 0x2B ∨ c = 0x2D) ∧ ∃ nx t', cs = nx :: t' ∧ is09 nx = true))
    (h : readNumberRes ctx { rest := c :: cs, calls := cl } = .ok v st') : OkV cfg N S d { rest := c :: cs, calls := cl } v st' := by
  unfold readNumberRes at h
  simp only [hc] at h
  cases hn : readNumber cfg (c :: cs) with
  | err cur => rw [hn] at h; cases h
  | ok nv rest =>
    rw [hn] at h
    simp only [Res.ok.injEq] at h
    obtain ⟨rfl, rfl⟩ := h
    have hst : NumStart (c :: cs) := ⟨c, cs, rfl, hstart⟩
    obtain ⟨tok, h1, h2⟩ := (hN (c :: cs) rest nv hst).mp hn
    refine ⟨0, tok, h1, rfl, ?_, fits_zero d, mdOK_of_stripM (by rw [stripM_numToVal]; cases nv <;> rfl)⟩
    rw [stripM_numToVal]
    refine .number 0 tok rest nv ?_ h2
    show NumStart (tok ++ rest)
    rw [← h1]; exact hst

theorem identifier_ok (d : Nat) (ctx : Ctx) (c : UInt8) (cs : Bytes) (cl : List Call) (v : Val) (st' : St)
    (hstart : is09 c = false ∧ ((c = 0x2B ∨ c = 0x2D) → ∀ nx t', cs = nx :: t' → is09 nx = false))
    (hnm : dispatch cfg c ≠ .metadata)
    (h : readIdentifier ctx { rest := c :: cs, calls := cl } = .ok v st') : OkV cfg N S d { rest := c :: cs, calls := cl } v st' := by
  obtain ⟨tok, h1, hcl, hl, hds, hden⟩ := readIdentifier_sound ctx _ st' v h
  have hsv := readIdentifier_stripM ctx _ st' v h
  have hmd : v.md = none := okP_elim (readIdentifier_mdNone ctx _) h
  refine ⟨0, tok, h1, hcl, ?_, fits_zero d, mdOK_of_none hmd⟩
  rw [hsv]
  refine .ident 0 tok st'.rest _ hl ⟨?_, ?_⟩ hden hds
  · intro c' t' htok
    subst htok
    simp only [List.cons_append, List.cons.injEq] at h1
    obtain ⟨rfl, hcs⟩ := h1
    refine ⟨?_, ?_⟩
    · rw [← Snd.is09_iff]
      simp [hstart.1]
    · intro hsg d t'' ht
      subst ht
      rw [← Snd.is09_iff]
      simp [hstart.2 hsg d (t'' ++ st'.rest) hcs]
  · intro hclj hh
    cases tok with
    | nil => exact hl.1 rfl
    | cons c' t' =>
      simp only [List.cons_append, List.cons.injEq] at h1
      simp only [List.head?_cons, Option.some.injEq] at hh
      apply hnm
      rw [dispX_metadata_iff]
      exact ⟨hclj, by rw [h1.1, hh]⟩

end

end Edn.Proofs.SndX
