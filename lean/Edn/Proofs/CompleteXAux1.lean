/-
  Edn.Proofs.CompleteXAux1 — the converse direction in every configuration, token level: numbers
  (through `NumExact`), identifiers, strings (through `StrExact`), characters, symbolic floats,
  and blanks / discards in front of a form.
-/
import Edn.Proofs.SoundXAux4
import Edn.Proofs.SoundAux7

namespace Edn.Proofs.CmplX
open Edn.Model Edn.Spec Edn.Generated Edn.Proofs Edn.Proofs.Cmpl Edn.Proofs.SndX

/-- "the reader reads `tok`, followed by `rest`, as a value with content `a`" (metadata included),
    in every context: any discard mode, call log and sufficient fuel -/
def ReadsX (cfg : Cfg) (opts : Opts) (d : Nat) (a : Val) (tok rest : Bytes) : Prop :=
  ∀ (dm : Bool) (cl : List Call) (f : Nat), 2 * (tok.length + rest.length) + 2 ≤ f →
    ∃ v, readValue { cfg := cfg, opts := opts } f d dm { rest := tok ++ rest, calls := cl }
          = .ok v { rest := rest, calls := cl } ∧ stripM v = a

/-- the value can be chosen independently of the fuel -/
theorem ReadsX.uniform {cfg : Cfg} {opts : Opts} {d : Nat} {a : Val} {tok rest : Bytes} (h : ReadsX cfg opts d a tok rest)
    (dm : Bool) (cl : List Call) :
    ∃ v, stripM v = a ∧ ∀ f, 2 * (tok ++ rest).length + 2 ≤ f →
      readValue { cfg := cfg, opts := opts } f d dm { rest := tok ++ rest, calls := cl } = .ok v { rest := rest, calls := cl } := by
  obtain ⟨v, hv, hs⟩ := h dm cl (2 * (tok.length + rest.length) + 2) (Nat.le_refl _)
  refine ⟨v, hs, ?_⟩
  intro f hf
  rw [← hv]
  apply readValue_fuel_irrelevant
  · exact hf
  · show 2 * (tok ++ rest).length + 2 ≤ _
    rw [List.length_append]
    exact Nat.le_refl _

/-- what is read is never empty -/
theorem ReadsX.ne_nil {cfg : Cfg} {opts : Opts} {d : Nat} {a : Val} {tok rest : Bytes} (h : ReadsX cfg opts d a tok rest) :
    tok ≠ [] := by
  obtain ⟨v, hv, -⟩ := h false [] (2 * (tok.length + rest.length) + 2) (Nat.le_refl _)
  have := (reader_progress { cfg := cfg, opts := opts } (2 * (tok.length + rest.length) + 2)).1 d false
    { rest := tok ++ rest, calls := [] }
  rw [hv] at this
  simp only [Progress, List.length_append] at this
  intro e
  rw [e] at this
  simp at this

/-! ### numbers -/

theorem readsX_number {cfg : Cfg} {N : NumJ} (hN : NumExact cfg N) (opts : Opts) (d : Nat) (tok rest : Bytes) (v : NumVal)
    (hs : NumStart (tok ++ rest)) (hn : N tok v rest) : ReadsX cfg opts d (numToVal hdr0 v) tok rest := by
  intro dm cl f hf
  obtain ⟨f, rfl⟩ : ∃ f', f = f' + 1 := ⟨f - 1, by omega⟩
  have hread : readNumber cfg (tok ++ rest) = .ok v rest := (hN (tok ++ rest) rest v hs).mpr ⟨tok, rfl, hn⟩
  obtain ⟨c, t, hct, hc⟩ := hs
  rw [hct] at hread ⊢
  have hws : isPreWs c = false := by
    rcases hc with hc | ⟨hc, _⟩
    · exact (CNum.is09_props hc).2.2.2.2.2.1
    · exact (CNum.dispatch_of_sign cfg hc).2
  have hnum : readNumberRes { cfg := cfg, opts := opts } { rest := c :: t, calls := cl } =
      .ok (numToVal (mkHdr (Ctx.pos { cfg := cfg, opts := opts } (c :: t))
        (Ctx.pos { cfg := cfg, opts := opts } rest)) v) { rest := rest, calls := cl } := by
    unfold readNumberRes
    simp only [hread]
  refine ⟨numToVal (mkHdr (Ctx.pos { cfg := cfg, opts := opts } (c :: t))
        (Ctx.pos { cfg := cfg, opts := opts } rest)) v, ?_, stripM_numToVal _ v⟩
  rw [readValue_succ]
  unfold rvOuter
  simp only [hws, Bool.false_eq_true, ↓reduceIte]
  unfold rvStep
  rcases hc with hc | ⟨hc, nx, t', rfl, hnx⟩
  · simp only [CNum.dispatch_of_digit cfg hc]
    exact hnum
  · simp only [(CNum.dispatch_of_sign cfg hc).1, hnx, ↓reduceIte]
    exact hnum

/-! ### identifiers -/

theorem readValue_identX (ctx : Ctx) (f d : Nat) (dm : Bool) (tok rest : Bytes) (cl : List Call)
    (hl : IdentLex tok) (hs : IdentStartX ctx.cfg tok) (hr : DelimStart rest) :
    readValue ctx (f + 1) d dm { rest := tok ++ rest, calls := cl } =
      readIdentifier ctx { rest := tok ++ rest, calls := cl } := by
  obtain ⟨hne, hnd, -⟩ := hl
  cases tok with
  | nil => exact absurd rfl hne
  | cons c t =>
    obtain ⟨hdig, hsign⟩ := hs.1 c t rfl
    have hdc : isDelim c = false := hnd c (by simp)
    have hpw : isPreWs c = false := by
      cases hp : isPreWs c with
      | false => rfl
      | true =>
        rw [isPreWs_iff] at hp
        rw [Snd.ws_delim hp] at hdc
        cases hdc
    have h09 : is09 c = false := by
      rw [← Snd.is09_iff] at hdig
      simpa using hdig
    rw [readValue_succ]
    unfold rvOuter
    simp only [List.cons_append, hpw, Bool.false_eq_true, if_false]
    unfold rvStep
    simp only []
    rcases nondelim_dispX (cfg := ctx.cfg) hdc with hd | hd | hd | hd
    · simp only [hd]
    · simp only [hd]
      have hsg : c = 0x2B ∨ c = 0x2D := by simpa using dispatch_sign hd
      cases t with
      | nil =>
        rcases hr with rfl | ⟨e, u, rfl, he⟩
        · rfl
        · simp only [List.nil_append, (Snd.delim_facts he).1, Bool.false_eq_true, if_false]
      | cons e u =>
        have h9 : is09 e = false := by
          have := hsign hsg e u rfl
          rw [← Snd.is09_iff] at this
          simpa using this
        simp only [List.cons_append, h9, Bool.false_eq_true, if_false]
    · rw [dispatch_digit hd] at h09
      cases h09
    · obtain ⟨hclj, hc⟩ := (dispX_metadata_iff c).mp hd
      exact absurd (by rw [hc]; rfl) (hs.2 hclj)

theorem readsX_ident (cfg : Cfg) (opts : Opts) (d : Nat) (tok rest : Bytes) (a : Val) (hl : IdentLex tok) (hs : IdentStartX cfg tok)
    (hd : IdentDenotes tok a) (ht : DelimStart rest) : ReadsX cfg opts d a tok rest := by
  intro dm cl f hf
  obtain ⟨f', rfl⟩ : ∃ f', f = f' + 1 := ⟨f - 1, by omega⟩
  rw [readValue_identX { cfg := cfg, opts := opts } f' d dm tok rest cl hl hs ht]
  obtain ⟨v, hv, hsv⟩ := readIdentifier_complete { cfg := cfg, opts := opts } tok rest cl a hl ht hd
  exact ⟨v, hv, by rw [readIdentifier_stripM _ _ _ v hv, hsv]⟩

/-! ### strings -/

theorem readsX_str {cfg : Cfg} {S : StrJ} (hS : StrExact cfg S) (opts : Opts) (d : Nat) (tok rest data : Bytes) (esc : Bool)
    (hq : (tok ++ rest).head? = some 0x22) (hs : S tok data esc rest) :
    ReadsX cfg opts d (.str hdr0 data esc) tok rest := by
  intro dm cl f hf
  obtain ⟨f', rfl⟩ : ∃ f', f = f' + 1 := ⟨f - 1, by omega⟩
  obtain ⟨h, hr⟩ := (hS { cfg := cfg, opts := opts } rfl (tok ++ rest) rest cl data esc hq).mpr ⟨tok, rfl, hs⟩
  cases hts : tok ++ rest with
  | nil => rw [hts] at hq; cases hq
  | cons c t =>
    rw [hts] at hq hr
    simp only [List.head?_cons, Option.some.injEq] at hq
    subst hq
    rw [readValue_quote, hr]
    exact ⟨_, rfl, rfl⟩

/-! ### characters -/

theorem readsX_char (cfg : Cfg) (opts : Opts) (d : Nat) (body rest : Bytes) (cp : Nat) (h : CharTokX cfg body cp)
    (hcp : cp ≤ 0x10FFFF) (hr : DelimStart rest) : ReadsX cfg opts d (.char hdr0 cp) (0x5C :: body) rest := by
  intro dm cl f hf
  obtain ⟨f', rfl⟩ : ∃ f', f = f' + 1 := ⟨f - 1, by omega⟩
  rw [List.cons_append, readValue_backslash, readCharacter_complete { cfg := cfg, opts := opts } body rest cl cp h hcp hr]
  exact ⟨_, rfl, rfl⟩

/-! ### symbolic floats -/

theorem readsX_symbolic (cfg : Cfg) (opts : Opts) (d : Nat) (tok rest : Bytes) (bits : UInt64) (h : SymbolicTok tok bits) :
    ReadsX cfg opts d (.float hdr0 bits) tok rest := by
  intro dm cl f hf
  obtain ⟨f', rfl⟩ : ∃ f', f = f' + 1 := ⟨f - 1, by omega⟩
  cases h with
  | inf =>
    rw [Snd.symInf_bytes, List.cons_append, List.cons_append, Snd.readValue_hashhash]
    refine ⟨.float (mkHdr (rest.length + 5) rest.length) infBits, ?_, rfl⟩
    unfold readSymbolic
    simp [startsWith, Snd.strBytes_Inf, Ctx.pos, mkHdr]
  | negInf =>
    rw [Snd.symNegInf_bytes, List.cons_append, List.cons_append, Snd.readValue_hashhash]
    refine ⟨.float (mkHdr (rest.length + 6) rest.length) negInfBits, ?_, rfl⟩
    unfold readSymbolic
    simp [startsWith, Snd.strBytes_Inf, Snd.strBytes_negInf, Ctx.pos, mkHdr]
  | nan =>
    rw [Snd.symNaN_bytes, List.cons_append, List.cons_append, Snd.readValue_hashhash]
    refine ⟨.float (mkHdr (rest.length + 5) rest.length) nanBits, ?_, rfl⟩
    unfold readSymbolic
    simp [startsWith, Snd.strBytes_Inf, Snd.strBytes_negInf, Snd.strBytes_NaN, Ctx.pos, mkHdr]

/-! ### blanks and discards in front of a form -/

theorem readsX_blank (cfg : Cfg) (opts : Opts) (d : Nat) (a : Val) (tr tok rest : Bytes) (ht : Blank tr)
    (h : ReadsX cfg opts d a tok rest) : ReadsX cfg opts d a (tr ++ tok) rest := by
  intro dm cl f hf
  cases f with
  | zero => omega
  | succ f =>
    rw [List.append_assoc, readValue_trivia_prefix _ f d dm tr (tok ++ rest) cl (blank_toPlain ht)]
    apply h dm cl (f + 1)
    rw [List.length_append] at hf
    omega

theorem readsX_discard (cfg : Cfg) (opts : Opts) (d : Nat) (a b : Val) (tok1 tok2 rest : Bytes)
    (hd : d < Tables.maxNestingDepth)
    (hdisc : ReadsX cfg opts (d + 1) b tok1 (tok2 ++ rest)) (h : ReadsX cfg opts d a tok2 rest) :
    ReadsX cfg opts d a (0x23 :: 0x5F :: (tok1 ++ tok2)) rest := by
  intro dm cl f hf
  simp only [List.length_cons, List.length_append] at hf
  match f, hf with
  | f + 1, hf =>
    obtain ⟨w, hw, -⟩ := hdisc true cl f (by simp only [List.length_append]; omega)
    have e : (0x23 :: 0x5F :: (tok1 ++ tok2)) ++ rest = 0x23 :: 0x5F :: (tok1 ++ (tok2 ++ rest)) := by simp
    rw [e, (discard_is_trivia { cfg := cfg, opts := opts } f d dm tok1 (tok2 ++ rest) cl cl w hd hw).2]
    exact h dm cl f (by omega)

end Edn.Proofs.CmplX
