/-
  Edn.Proofs.AllocSimAux6 — refinement, part 6: the collection and map builders, and the metadata
  step (`metaEntryA`, `keepOldA`, `attachMetaA`) against `attachMeta`.
-/
import Edn.Proofs.AllocSimAux2
import Edn.Proofs.AllocSimAux5

namespace Edn.Proofs.AllocSim
open Edn.Model Edn.Proofs.AllocBasic Edn.Proofs

/-- a step that may refuse: frame, and no refusal when nothing fails -/
structure Step {α : Type} (x : ACtx) (r : α × ASt) (a : ASt) (good : α → Prop) : Prop where
  fr : Fr x a r.2
  exact : NoFault x → a.arena = .alive → good r.1

theorem add_step (x : ACtx) (b : BSt) (a : ASt) : Step x (b.add x a) a (fun o => o.isSome = true) := by
  unfold BSt.add
  split
  · have hf := request_fr x .arena a 0
    cases hr : (a.request x.orc .arena).1
    · refine ⟨by simpa [hr] using hf, fun hx ha => ?_⟩
      have := request_nofault x hx .arena a 0 (fun _ => ha)
      rw [hr] at this; cases this
    · exact ⟨by simpa [hr] using hf, fun _ _ => by simp [hr]⟩
  · exact ⟨Fr.refl x a, fun _ _ => rfl⟩

theorem finish_step (x : ACtx) (b : BSt) (a : ASt) : Step x (b.finish x a) a (fun o => o = true) := by
  unfold BSt.finish
  split
  · exact ⟨request_fr x .arena a 0, fun hx ha => request_nofault x hx .arena a 0 (fun _ => ha)⟩
  · exact ⟨Fr.refl x a, fun _ _ => rfl⟩

/-- two requests in a row, both examined afterwards -/
theorem two_requests (x : ACtx) (a : ASt) :
    Fr x a ((a.request x.orc .arena).2.request x.orc .arena).2 ∧
    (NoFault x → a.arena = .alive →
      (a.request x.orc .arena).1 = true ∧ ((a.request x.orc .arena).2.request x.orc .arena).1 = true) := by
  have h1 := request_fr x .arena a 0
  have h2 := request_fr x .arena (a.request x.orc .arena).2 0
  exact ⟨h1.trans h2, fun hx ha => ⟨request_nofault x hx .arena a 0 (fun _ => ha),
    request_nofault x hx .arena _ 0 (fun _ => h1.arena.trans ha)⟩⟩

theorem addPair_step (x : ACtx) (b : BSt) (a : ASt) : Step x (b.addPair x a) a (fun o => o.isSome = true) := by
  unfold BSt.addPair
  obtain ⟨hf, hn⟩ := two_requests x a
  split
  · simp only
    refine ⟨?_, fun hx ha => ?_⟩
    · split <;> exact hf
    · obtain ⟨e1, e2⟩ := hn hx ha
      simp [e1, e2]
  · exact ⟨Fr.refl x a, fun _ _ => rfl⟩

theorem finishPair_step (x : ACtx) (b : BSt) (a : ASt) : Step x (b.finishPair x a) a (fun o => o = true) := by
  unfold BSt.finishPair
  obtain ⟨hf, hn⟩ := two_requests x a
  split
  · simp only
    refine ⟨hf, fun hx ha => ?_⟩
    obtain ⟨e1, e2⟩ := hn hx ha
    simp [e1, e2]
  · exact ⟨Fr.refl x a, fun _ _ => rfl⟩

theorem metaEntryA_step (x : ACtx) (m : Val) (a : ASt) : Step x (metaEntryA x m a) a (fun o => o = true) := by
  unfold metaEntryA
  split
  · exact ⟨Fr.refl x a, fun _ _ => rfl⟩
  · have h1 := request_fr x .arena a 0
    obtain ⟨hf, hn⟩ := two_requests x (a.request x.orc .arena).2
    simp only
    cases hr : (a.request x.orc .arena).1
    · simp only [Bool.not_false, ↓reduceIte]
      refine ⟨h1, fun hx ha => ?_⟩
      have := request_nofault x hx .arena a 0 (fun _ => ha)
      rw [hr] at this; cases this
    · simp only [Bool.not_true, Bool.false_eq_true, ↓reduceIte]
      refine ⟨h1.trans hf, fun hx ha => ?_⟩
      obtain ⟨e1, e2⟩ := hn hx (h1.arena.trans ha)
      simp [e1, e2]

theorem keepOldA_sim (x : ACtx) (newKeys : List Val) : ∀ (ks vs : List Val) (a : ASt),
    Sim x (keepOldA x newKeys ks vs a) a (keepOld x.ctx.cfg newKeys ks vs) := by
  intro ks
  induction ks with
  | nil => intro vs a; cases vs <;> exact Sim.pure x a _
  | cons k ks ih =>
    intro vs a
    cases vs with
    | nil => exact Sim.pure x a _
    | cons v vs =>
      unfold keepOldA keepOld
      have h1 := anyA_sim (equalA_sim x) k newKeys a
      rcases hq1 : anyA (equalA x) k newKeys a with ⟨found, a1⟩
      rw [hq1] at h1
      simp only
      have h2 := ih vs a1
      rcases hq2 : keepOldA x newKeys ks vs a1 with ⟨⟨ks', vs'⟩, a2⟩
      rw [hq2] at h2
      refine Sim.seq h1 h2.1 (fun _ ha1 e1 hc => ?_)
      have e2 := h2.2 ha1 hc
      simp only at e1 e2 ⊢
      rw [← e2, ← e1]

theorem attachMeta_map (cfg : Cfg) (m form : Val) (nks nvs : List Val) (h : Hdr) (md : Option Val) (ks vs : List Val)
    (hmd : form.md = some (.map h md ks vs)) :
    attachMeta cfg m form nks nvs =
      form.setMd (some (.map h md (nks ++ (keepOld cfg nks ks vs).1) (nvs ++ (keepOld cfg nks ks vs).2))) := by
  unfold attachMeta
  rw [hmd]

theorem attachMeta_other (cfg : Cfg) (m form : Val) (nks nvs : List Val)
    (hmd : ∀ h md ks vs, form.md = some (.map h md ks vs) → False) :
    attachMeta cfg m form nks nvs = form.setMd (some (.map synthHdr none nks nvs)) := by
  unfold attachMeta
  split
  · next h md ks vs e => exact (hmd h md ks vs e).elim
  · rfl

/-- the metadata step: frame, refinement, and "a value handed out is the pure one" -/
theorem attachMetaA_spec (x : ACtx) (m form : Val) (nks nvs : List Val) (a : ASt) :
    Fr x a (attachMetaA x m form nks nvs a).2 ∧
    (NoFault x → a.arena = .alive →
      (attachMetaA x m form nks nvs a).1 = some (attachMeta x.ctx.cfg m form nks nvs)) ∧
    (∀ f', (attachMetaA x m form nks nvs a).1 = some f' → f' = attachMeta x.ctx.cfg m form nks nvs) := by
  unfold attachMetaA
  split
  · next h md ks vs hmd =>
    rw [attachMeta_map x.ctx.cfg m form nks nvs h md ks vs hmd]
    obtain ⟨g1, n1⟩ := metaEntryA_step x m a
    rcases hq1 : metaEntryA x m a with ⟨okE, a1⟩
    rw [hq1] at g1 n1
    simp only at g1 n1 ⊢
    cases okE
    · simp only [Bool.not_false, ↓reduceIte]
      refine ⟨g1, fun hx ha => ?_, fun f' h => by cases h⟩
      have := n1 hx ha; cases this
    · simp only [Bool.not_true, Bool.false_eq_true, ↓reduceIte]
      obtain ⟨g2, n2⟩ := two_requests x a1
      have g3 := keepOldA_sim x nks ks vs ((a1.request x.orc .arena).2.request x.orc .arena).2
      rcases hq3 : keepOldA x nks ks vs ((a1.request x.orc .arena).2.request x.orc .arena).2 with ⟨⟨oks, ovs⟩, a4⟩
      rw [hq3] at g3
      cases hr1 : (a1.request x.orc .arena).1
      · simp only [Bool.false_and, Bool.not_false, ↓reduceIte]
        refine ⟨g1.trans g2, fun hx ha => ?_, fun f' h => by cases h⟩
        have := (n2 hx (g1.arena.trans ha)).1
        rw [hr1] at this; cases this
      · cases hr2 : ((a1.request x.orc .arena).2.request x.orc .arena).1
        · simp only [Bool.and_false, Bool.not_false, ↓reduceIte]
          refine ⟨g1.trans g2, fun hx ha => ?_, fun f' h => by cases h⟩
          have := (n2 hx (g1.arena.trans ha)).2
          rw [hr2] at this; cases this
        · simp only [Bool.and_self, Bool.not_true, Bool.false_eq_true, ↓reduceIte]
          have ha3 : ((a1.request x.orc .arena).2.request x.orc .arena).2.arena = .alive :=
            g2.arena.trans (request_true_alive x.orc a1 0 hr1)
          have g123 := g1.trans (g2.trans g3.1)
          cases hb : (a4.failedArena != ((a1.request x.orc .arena).2.request x.orc .arena).2.failedArena)
          · simp only [Bool.false_eq_true, ↓reduceIte]
            have hc : a4.failedArena = ((a1.request x.orc .arena).2.request x.orc .arena).2.failedArena := by
              simpa using hb
            have e := g3.2 ha3 hc
            simp only at e
            have ee : some (form.setMd (some (.map h md (nks ++ oks) (nvs ++ ovs)))) =
                some (form.setMd (some (.map h md (nks ++ (keepOld x.ctx.cfg nks ks vs).1) (nvs ++ (keepOld x.ctx.cfg nks ks vs).2)))) := by
              rw [← e]
            exact ⟨g123, fun _ _ => ee, fun f' hf => by rw [← Option.some.inj hf]; exact Option.some.inj ee⟩
          · simp only [↓reduceIte]
            refine ⟨g123, fun hx _ => ?_, fun f' h => by cases h⟩
            have hc := g3.1.quiet hx
            simp only at hc
            rw [hc] at hb
            simp at hb
  · next hmd =>
    rw [attachMeta_other x.ctx.cfg m form nks nvs (fun h md ks vs e => hmd h md ks vs e)]
    have g1 := request_fr x .arena a 0
    obtain ⟨g2, n2⟩ := metaEntryA_step x m (a.request x.orc .arena).2
    simp only
    cases hr : (a.request x.orc .arena).1
    · simp only [Bool.not_false, ↓reduceIte]
      refine ⟨g1, fun hx ha => ?_, fun f' h => by cases h⟩
      have := request_nofault x hx .arena a 0 (fun _ => ha)
      rw [hr] at this; cases this
    · simp only [Bool.not_true, Bool.false_eq_true, ↓reduceIte]
      rcases hq2 : metaEntryA x m (a.request x.orc .arena).2 with ⟨okE, a2⟩
      rw [hq2] at g2 n2
      simp only at g2 n2 ⊢
      cases okE
      · simp only [Bool.not_false, ↓reduceIte]
        refine ⟨g1.trans g2, fun hx ha => ?_, fun f' h => by cases h⟩
        have := n2 hx (g1.arena.trans ha); cases this
      · simp only [Bool.not_true, Bool.false_eq_true, ↓reduceIte]
        exact ⟨g1.trans g2, fun _ _ => trivial, fun f' h => (Option.some.inj h).symm⟩

end Edn.Proofs.AllocSim
