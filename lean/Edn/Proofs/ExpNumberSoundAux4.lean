/-
  Edn.Proofs.ExpNumberSoundAux4 — facts about the grammar `ExpNum` itself: it contains the core
  grammar with the same payloads, and it is contained in the grammar of the configuration with
  both flags (`CljNum ⟨true, true⟩`) with the same payloads.
-/
import Edn.Spec.ExpNumLit
import Edn.Proofs.NumberReader
import Edn.Proofs.CljNumberSoundAux6
import Edn.Proofs.ExpNumberSoundAux1

namespace Edn.Proofs.ExpN
open Edn.Model Edn.Spec Edn.Proofs Edn.Proofs.CNum Edn.Proofs.CljN

/-! ## core tokens are tokens of the experimental-only grammar -/

theorem expInt_of_decDigits {ds : Bytes} (hd : DecDigits ds) : ExpInt ds := by
  obtain ⟨hall, rfl | ⟨d, t, rfl, hd0⟩⟩ := decDigits_cases hd
  · exact Or.inl rfl
  · right
    refine ⟨⟨d, t, rfl, hall d (by simp), uRun_of_all (fun c hc => hall c (by simp [hc]))⟩, ?_, ?_⟩
    · simp [hd0]
    · exact noTrailU_of_not_mem (NRd.allDigits_no_underscore hall)

theorem mantissa_of_core {ip fr ex : Bytes} (hip : DecDigits ip) (hfr : FracPart fr) (hex : ExpPart ex) :
    ExpMantissa ip fr ex ∧ NoTrailU (ip ++ fr ++ ex) := by
  obtain ⟨hm, hu⟩ := CljN.mantissa_of_core true hip hfr hex
  exact ⟨⟨expInt_of_decDigits hip, hm.hfr, hm.hex, hm.hsep⟩, hu⟩

/-- every number token of core EDN (payloads computed under any configuration) is a token of the
    experimental-only grammar with the same payload -/
theorem coreNum_expNum (cfg : Cfg) {tok : Bytes} {v : NumVal} (h : CoreNum cfg tok v) : ExpNum tok v := by
  cases h with
  | int sg ds neg hs hd hr =>
    have := ExpNum.dec sg ds neg hs (expInt_of_decDigits hd)
    unfold intPayload at this
    rw [radixNat_digits ds (decDigits_cases hd).1, if_pos hr] at this
    exact this
  | big sg ds neg hs hd hr =>
    have := ExpNum.dec sg ds neg hs (expInt_of_decDigits hd)
    unfold intPayload at this
    rw [radixNat_digits ds (decDigits_cases hd).1, if_neg hr] at this
    exact this
  | bigN sg ds neg hs hd => exact ExpNum.decN sg ds neg hs (expInt_of_decDigits hd)
  | float tok h =>
    rw [parseDouble_flag cfg expCfg tok (NRd.floatTok_no_underscore h)]
    obtain ⟨sg, ip, fr, ex, neg, rfl, hs, hip, hfr, hex, hne⟩ := h
    exact ExpNum.float sg ip fr ex neg hs (mantissa_of_core hip hfr hex).1 hne
  | bigdec sg body neg hs hb hnosign =>
    have hshape : ∃ ip fr ex, body = ip ++ fr ++ ex ∧ DecDigits ip ∧ FracPart fr ∧ ExpPart ex := by
      rcases hb with hb | ⟨sg', ip, fr, ex, neg', rfl, hs', hip, hfr, hex, -⟩
      · exact ⟨body, [], [], by simp, hb, Or.inl rfl, Or.inl rfl⟩
      · rcases hs' with ⟨rfl, -⟩ | ⟨rfl, -⟩ | ⟨rfl, -⟩
        · exact ⟨ip, fr, ex, by simp, hip, hfr, hex⟩
        · exact absurd rfl (hnosign 0x2B (by simp)).1
        · exact absurd rfl (hnosign 0x2D (by simp)).2
    obtain ⟨ip, fr, ex, rfl, hip, hfr, hex⟩ := hshape
    obtain ⟨hm, hu⟩ := mantissa_of_core hip hfr hex
    have := ExpNum.decM sg ip fr ex neg hs hm hu
    simpa only [List.append_assoc] using this

/-! ## tokens of the experimental-only grammar are tokens of the grammar with both flags -/

theorem parseDouble_clj (text : Bytes) : parseDouble ⟨true, true⟩ text = parseDouble expCfg text := rfl

theorem expInt_zeroNorm {ip : Bytes} (h : ExpInt ip) : zeroNorm ip = ip := by
  rcases h with rfl | h
  · rfl
  · exact nz_zeroNorm h

theorem expMantissa_zeroNorm {ip fr ex : Bytes} (hm : ExpMantissa ip fr ex) :
    zeroNorm (ip ++ fr ++ ex) = ip ++ fr ++ ex := by
  rcases hm.hip with rfl | hn
  · by_cases h1 : fr = [] ∧ ex = []
    · obtain ⟨rfl, rfl⟩ := h1
      rfl
    · refine zeroNorm_body hm.hfr hm.hex ?_
      intro h2 h3
      exact absurd ⟨h2, h3⟩ h1
  · exact zeroNorm_body hm.hfr hm.hex (fun _ _ => hn)

/-- every token of the experimental-only grammar is a token, with the same payload, of the
    grammar of the configuration with both flags -/
theorem expNum_cljNum {tok : Bytes} {v : NumVal} (h : ExpNum tok v) : CljNum ⟨true, true⟩ tok v := by
  cases h with
  | dec sg ip neg hs hip => exact CljNum.dec sg ip neg hs (expInt_cljInt hip)
  | decN sg ip neg hs hip =>
    have := CljNum.decN (cfg := ⟨true, true⟩) sg ip neg hs (expInt_cljInt hip)
    rw [expInt_zeroNorm hip] at this
    exact this
  | float sg ip fr ex neg hs hm hne =>
    rw [← parseDouble_clj]
    exact CljNum.float sg ip fr ex neg hs (expMantissa_clj hm) hne
  | decM sg ip fr ex neg hs hm hu =>
    have := CljNum.decM (cfg := ⟨true, true⟩) sg ip fr ex neg hs (expMantissa_clj hm) hu
    rw [expMantissa_zeroNorm hm] at this
    exact this

/-- no token of the experimental-only grammar contains `/`, `r` or `R` -/
theorem expNum_noSlash {tok : Bytes} {v : NumVal} (h : ExpNum tok v) : (0x2F : UInt8) ∉ tok := by
  have key : ∀ c ∈ tok, OkB c := by
    cases h with
    | dec sg ip neg hs hip =>
      intro c hc
      rcases List.mem_append.mp hc with hc | hc
      · exact sign_okB hs c hc
      · exact cljInt_okB (expInt_cljInt hip) c hc
    | decN sg ip neg hs hip =>
      intro c hc
      simp only [List.mem_append, List.mem_singleton] at hc
      rcases hc with (hc | hc) | hc
      · exact sign_okB hs c hc
      · exact cljInt_okB (expInt_cljInt hip) c hc
      · subst hc; exact ⟨by decide, by decide, by decide⟩
    | float sg ip fr ex neg hs hm hne =>
      intro c hc
      have e : sg ++ ip ++ fr ++ ex = sg ++ (ip ++ fr ++ ex) := by simp
      rw [e] at hc
      rcases List.mem_append.mp hc with hc | hc
      · exact sign_okB hs c hc
      · exact mantissa_okB (expMantissa_clj hm) c hc
    | decM sg ip fr ex neg hs hm hu =>
      intro c hc
      have e : sg ++ ip ++ fr ++ ex ++ [0x4D] = sg ++ ((ip ++ fr ++ ex) ++ [0x4D]) := by simp
      rw [e] at hc
      rcases List.mem_append.mp hc with hc | hc
      · exact sign_okB hs c hc
      · rcases List.mem_append.mp hc with hc | hc
        · exact mantissa_okB (expMantissa_clj hm) c hc
        · simp only [List.mem_singleton] at hc
          subst hc; exact ⟨by decide, by decide, by decide⟩
  intro hm
  exact (key _ hm).2.2 rfl

end Edn.Proofs.ExpN
