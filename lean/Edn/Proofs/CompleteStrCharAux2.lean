/-
  Edn.Proofs.CompleteStrCharAux2 — character literals: the code-point part of
  `readCharacter` on every `CharBody` spelling followed by a terminator.
-/
import Edn.Proofs.CompleteStrCharAux1

namespace Edn.Proofs
open Edn.Model Edn.Spec

/-! ### the names as byte lists -/

theorem strBytes_newline : strBytes "newline" = [0x6E, 0x65, 0x77, 0x6C, 0x69, 0x6E, 0x65] := by decide +kernel
theorem strBytes_return : strBytes "return" = [0x72, 0x65, 0x74, 0x75, 0x72, 0x6E] := by decide +kernel
theorem strBytes_space : strBytes "space" = [0x73, 0x70, 0x61, 0x63, 0x65] := by decide +kernel
theorem strBytes_tab : strBytes "tab" = [0x74, 0x61, 0x62] := by decide +kernel
theorem strBytes_formfeed : strBytes "formfeed" = [0x66, 0x6F, 0x72, 0x6D, 0x66, 0x65, 0x65, 0x64] := by decide +kernel
theorem strBytes_backspace : strBytes "backspace" = [0x62, 0x61, 0x63, 0x6B, 0x73, 0x70, 0x61, 0x63, 0x65] := by
  decide +kernel

theorem len_newline : "newline".length = 7 := by decide
theorem len_return : "return".length = 6 := by decide
theorem len_space : "space".length = 5 := by decide
theorem len_tab : "tab".length = 3 := by decide

/-! ### what a terminator start excludes -/

theorem peek_cons (c : UInt8) (t : Bytes) : peek (c :: t) = c := rfl

def termFacts (c : UInt8) : Bool :=
  !isNumTerm c || (isDelim c && !is09 c && !(hexDigit? c).isSome)

theorem termFacts_all : ∀ c, termFacts c = true := forall_u8_bool _ (by decide +kernel)

theorem term_delim {rest : Bytes} (h : TermStart rest) : (!rest.isEmpty && !isDelim (peek rest)) = false := by
  rcases h with rfl | ⟨c, t, rfl, hc⟩
  · rfl
  · have := termFacts_all c
    simp only [termFacts, hc, Bool.not_true, Bool.false_or, Bool.and_eq_true] at this
    simp [peek, this.1.1]

theorem term_is09 {rest : Bytes} (h : TermStart rest) : (!rest.isEmpty && is09 (peek rest)) = false := by
  rcases h with rfl | ⟨c, t, rfl, hc⟩
  · rfl
  · have := termFacts_all c
    simp only [termFacts, hc, Bool.not_true, Bool.false_or, Bool.and_eq_true, Bool.not_eq_true'] at this
    simp [peek, this.1.2]

theorem term_hex {rest : Bytes} (h : TermStart rest) :
    (!rest.isEmpty && (hexDigit? (peek rest)).isSome) = false := by
  rcases h with rfl | ⟨c, t, rfl, hc⟩
  · rfl
  · have := termFacts_all c
    simp only [termFacts, hc, Bool.not_true, Bool.false_or, Bool.and_eq_true, Bool.not_eq_true'] at this
    simp [peek, this.2]

theorem term_hexMore {rest : Bytes} (h : TermStart rest) (k v : Nat) : hexMore k v rest = (v, rest) := by
  cases k with
  | zero => rfl
  | succ k =>
    rcases h with rfl | ⟨c, t, rfl, hc⟩
    · rfl
    · have := termFacts_all c
      simp only [termFacts, hc, Bool.not_true, Bool.false_or, Bool.and_eq_true, Bool.not_eq_true'] at this
      have hn : hexDigit? c = none := by
        cases hx : hexDigit? c with
        | none => rfl
        | some w => rw [hx] at this; simp at this
      simp only [hexMore, hn]

/-- a name continuing with a non-terminator byte does not match a terminator start -/
theorem term_not_prefix {rest : Bytes} (h : TermStart rest) (b : UInt8) (l : Bytes) (hb : isNumTerm b = false) :
    (b :: l).isPrefixOf rest = false := by
  rcases h with rfl | ⟨c, t, rfl, hc⟩
  · rfl
  · have : (b == c) = false := by
      cases hq : (b == c)
      · rfl
      · have : b = c := by simpa using hq
        rw [this, hc] at hb; cases hb
    rw [List.isPrefixOf_cons_cons, this, Bool.false_and]

/-! ### printable bytes are valid single characters -/

def printableValid (cfg : Cfg) (c : UInt8) : Bool :=
  !(0x21 ≤ c && c ≤ 0x7E) || isValidSingleChar cfg c

theorem printableValid_all (cfg : Cfg) : ∀ c, printableValid cfg c = true := by
  obtain ⟨clj, exp⟩ := cfg
  cases clj <;> cases exp <;> exact forall_u8_bool _ (by decide +kernel)

theorem printable_valid (cfg : Cfg) {c : UInt8} (h : 0x21 ≤ c ∧ c ≤ 0x7E) : isValidSingleChar cfg c = true := by
  have := printableValid_all cfg c
  simpa [printableValid, h.1, h.2] using this

/-! ### the code-point part -/

theorem charBody_append_isEmpty (body rest : Bytes) (cp : Nat) (h : CharBody body cp) :
    (body ++ rest).isEmpty = false := by
  cases h with
  | newline => show (strBytes "newline" ++ rest).isEmpty = false; rw [strBytes_newline]; rfl
  | ret => show (strBytes "return" ++ rest).isEmpty = false; rw [strBytes_return]; rfl
  | space => show (strBytes "space" ++ rest).isEmpty = false; rw [strBytes_space]; rfl
  | tab => show (strBytes "tab" ++ rest).isEmpty = false; rw [strBytes_tab]; rfl
  | unicode a b c d cp hx => rfl
  | single c hc => rfl

theorem charBody_ok (ctx : Ctx) (body rest : Bytes) (cp : Nat) (h : CharBody body cp) (hr : TermStart rest) :
    charBody ctx (body ++ rest) = .ok (cp, rest) := by
  cases h with
  | newline =>
    show charBody ctx (strBytes "newline" ++ rest) = _
    simp [charBody, charNamed, strBytes_newline, len_newline, startsWith]
  | ret =>
    show charBody ctx (strBytes "return" ++ rest) = _
    simp [charBody, charNamed, strBytes_newline, strBytes_return, len_return, startsWith]
  | space =>
    show charBody ctx (strBytes "space" ++ rest) = _
    simp [charBody, charNamed, strBytes_newline, strBytes_return, strBytes_space, len_space, startsWith]
  | tab =>
    show charBody ctx (strBytes "tab" ++ rest) = _
    simp [charBody, charNamed, strBytes_newline, strBytes_return, strBytes_space, strBytes_tab, len_tab,
      startsWith]
  | unicode a b c d cp hx =>
    obtain ⟨w, x, y, z, hw, _, _, _, _, _⟩ := hex4?_cons_some hx
    have hx' := hex4?_append hx rest
    simp [charBody, charNamed, strBytes_newline, strBytes_return, strBytes_space, strBytes_tab,
      strBytes_formfeed, strBytes_backspace, startsWith, peek, hw, hx', term_hexMore hr]
  | single c hc =>
    have e1 := term_not_prefix hr 0x65 [0x77, 0x6C, 0x69, 0x6E, 0x65] (by decide +kernel)
    have e2 := term_not_prefix hr 0x65 [0x74, 0x75, 0x72, 0x6E] (by decide +kernel)
    have e3 := term_not_prefix hr 0x70 [0x61, 0x63, 0x65] (by decide +kernel)
    have e4 := term_not_prefix hr 0x61 [0x62] (by decide +kernel)
    have e5 := term_not_prefix hr 0x6F [0x72, 0x6D, 0x66, 0x65, 0x65, 0x64] (by decide +kernel)
    have e6 := term_not_prefix hr 0x61 [0x63, 0x6B, 0x73, 0x70, 0x61, 0x63, 0x65] (by decide +kernel)
    have h9 := term_is09 hr
    have hh := term_hex hr
    have hv := printable_valid ctx.cfg hc
    simp only [Bool.and_eq_false_iff, Bool.not_eq_false'] at h9 hh
    simp only [charBody, charNamed, strBytes_newline, strBytes_return, strBytes_space, strBytes_tab,
      strBytes_formfeed, strBytes_backspace, startsWith, List.cons_append, List.nil_append,
      List.isPrefixOf_cons_cons, e1, e2, e3, e4, e5, e6, Bool.and_false, Bool.false_eq_true, if_false,
      Option.orElse_none, ite_self, peek_cons, List.tail_cons, hv, Bool.not_true]
    rcases h9 with h9 | h9 <;> rcases hh with hh | hh <;> simp [h9, hh]

end Edn.Proofs
