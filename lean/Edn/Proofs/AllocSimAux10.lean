/-
  Edn.Proofs.AllocSimAux10 — fault theorem, part 3: the metadata step on operands that differ in
  cache cells only (`attachMeta_erase`), the statements of the induction (`FV` … `FT`: a result
  of an allocation-aware reader function under an arbitrary oracle is related by `RelF` to the
  result of its fault-free counterpart on accumulators that differ in cache cells only), and the
  induction steps for the element loops of lists / vectors / sets and of maps.
-/
import Edn.Proofs.AllocSimAux9
namespace Edn.Proofs.AllocSim
open Edn.Model Edn.Spec Edn.Proofs Edn.Generated Edn.Proofs.AllocBasic

/-- a value whose erased form is a map is a map -/
theorem map_of_erase {h : Hdr} {md : Option Val} {ks vs : List Val} {w : Val}
    (he : eraseCache (.map h md ks vs) = eraseCache w) :
    ∃ h0 md0 ks0 vs0, w = .map h0 md0 ks0 vs0 ∧ ({ h with hc := 0 } : Hdr) = { h0 with hc := 0 } ∧
      eraseCacheO md = eraseCacheO md0 ∧ eraseCacheL ks = eraseCacheL ks0 ∧ eraseCacheL vs = eraseCacheL vs0 := by
  cases w <;> simp only [eraseCache, Val.setHdr, Val.hdr] at he <;> try cases he
  case map h0 md0 ks0 vs0 =>
    simp only [Val.map.injEq] at he
    exact ⟨h0, md0, ks0, vs0, rfl, he.1, he.2.1, he.2.2.1, he.2.2.2⟩

theorem attachMeta_erase (cfg : Cfg) {m m0 form form0 : Val} {nks nvs nks0 nvs0 : List Val}
    (hf : eraseCache form = eraseCache form0) (hk : eraseCacheL nks = eraseCacheL nks0)
    (hv : eraseCacheL nvs = eraseCacheL nvs0) (en : ∀ y ∈ nks, El cfg y) (en0 : ∀ y ∈ nks0, El cfg y)
    (hm : MdOK cfg form) (hm0 : MdOK cfg form0) :
    eraseCache (attachMeta cfg m form nks nvs) = eraseCache (attachMeta cfg m0 form0 nks0 nvs0) := by
  have hmd := erase_md hf
  have fresh : eraseCacheO (some (Val.map synthHdr none nks nvs)) = eraseCacheO (some (Val.map synthHdr none nks0 nvs0)) := by
    simp only [eraseCacheO, eraseCache]; rw [hk, hv]
  by_cases c : ∃ h md ks vs, form.md = some (.map h md ks vs)
  · obtain ⟨h, md, ks, vs, e⟩ := c
    rw [e] at hmd
    cases e0 : form0.md with
    | none => rw [e0] at hmd; simp [eraseCacheO] at hmd
    | some w =>
      rw [e0] at hmd
      simp only [eraseCacheO, Option.some.injEq] at hmd
      obtain ⟨h0, md0, ks0, vs0, rfl, q1, q2, q3, q4⟩ := map_of_erase hmd
      rw [attachMeta_map cfg m form nks nvs h md ks vs e, attachMeta_map cfg m0 form0 nks0 nvs0 h0 md0 ks0 vs0 e0]
      obtain ⟨o1, o2⟩ := keepOld_erase cfg nks nks0 hk en en0 ks vs ks0 vs0 q3 q4 (hm h md ks vs e) (hm0 h0 md0 ks0 vs0 e0)
      apply setMd_of_erase hf
      simp only [eraseCacheO, eraseCache, Option.some.injEq, Val.map.injEq]
      refine ⟨q1, q2, ?_, ?_⟩
      · rw [eraseCacheL_append, eraseCacheL_append, hk, o1]
      · rw [eraseCacheL_append, eraseCacheL_append, hv, o2]
  · have c0 : ¬ ∃ h md ks vs, form0.md = some (.map h md ks vs) := by
      rintro ⟨h0, md0, ks0, vs0, e0⟩
      rw [e0] at hmd
      cases e : form.md with
      | none => rw [e] at hmd; simp [eraseCacheO] at hmd
      | some w =>
        rw [e] at hmd
        simp only [eraseCacheO, Option.some.injEq] at hmd
        obtain ⟨h, md, ks, vs, rfl, -⟩ := map_of_erase hmd.symm
        exact c ⟨h, md, ks, vs, e⟩
    rw [attachMeta_other cfg m form nks nvs (fun h md ks vs e => c ⟨h, md, ks, vs, e⟩),
      attachMeta_other cfg m0 form0 nks0 nvs0 (fun h md ks vs e => c0 ⟨h, md, ks, vs, e⟩)]
    exact setMd_of_erase hf fresh

section
variable (x : ACtx)

def FV (f : Nat) : Prop := ∀ d dm st a, d ≤ Tables.maxNestingDepth →
  RelF x.ctx.cfg d (readValueA x f d dm st a).1 (readValue x.ctx f d dm st)

def FS (f : Nat) : Prop := ∀ d dm kind start st a b acc acc0, d < Tables.maxNestingDepth →
  eraseCacheL acc = eraseCacheL acc0 → (∀ y ∈ acc, VOK x.ctx.cfg (d + 1) y) → (∀ y ∈ acc0, VOK x.ctx.cfg (d + 1) y) →
  RelF x.ctx.cfg d (readSeqA x f d dm kind start st a b acc).1 (readSeq x.ctx f d dm kind start st acc0)

def FM (f : Nat) : Prop := ∀ d dm start ns st a b ks vs ks0 vs0, d < Tables.maxNestingDepth →
  eraseCacheL ks = eraseCacheL ks0 → eraseCacheL vs = eraseCacheL vs0 →
  (∀ y ∈ ks, VOK x.ctx.cfg (d + 1) y) → (∀ y ∈ ks0, VOK x.ctx.cfg (d + 1) y) →
  (∀ y ∈ vs, VOK x.ctx.cfg (d + 1) y) → (∀ y ∈ vs0, VOK x.ctx.cfg (d + 1) y) → ks.length = vs.length →
  ks0.length = vs0.length →
  RelF x.ctx.cfg d (readMapA x f d dm start ns st a b ks vs).1 (readMap x.ctx f d dm start ns st ks0 vs0)

def F4 (RA : Nat → Bool → Nat → St → ASt → Res × ASt) (R0 : Nat → Bool → Nat → St → Res) : Prop :=
  ∀ d dm start st a, d < Tables.maxNestingDepth → RelF x.ctx.cfg d (RA d dm start st a).1 (R0 d dm start st)

def FT (f : Nat) : Prop := ∀ d dm start st a, (d < Tables.maxNestingDepth ∨ st.rest = []) →
  RelF x.ctx.cfg d (readTaggedA x f d dm start st a).1 (readTagged x.ctx f d dm start st)

variable {x}

/-- the element loops turn an end of input met by an element into "unterminated collection" and
    hand every other error up -/
theorem RelF_eofconv {cfg : Cfg} {d : Nat} {e e1 : ErrInfo} {s s1 : St} {a1 a2 : ASt} {r0' r0 : Res}
    (h : RelF cfg (d + 1) (.err e s) r0') (h1 : e1.eofTop = false) (h2 : e1.fuelOut = false)
    (hp : ∀ e0 s0, r0' = .err e0 s0 → e0.fuelOut = true → ∃ e2 s2, r0 = .err e2 s2 ∧ e2.fuelOut = true) :
    RelF cfg d (if (e.code == Err.unexpectedEof && !e.fuelOut) = true then (Res.err e1 s1, a1) else (Res.err e s, a2)).1 r0 := by
  split
  · exact RelF_nt h1 h2
  · exact RelF_pass h hp

/-- the value request at the end of a collection reader -/
theorem RelF_value {cfg : Cfg} {d : Nat} {c : Bool} {st : St} {a1 a2 : ASt} {v v0 : Val} (h : Good cfg d v v0) :
    RelF cfg d (if (!c) = true then (Res.err oomErr st, a1) else (Res.ok v st, a2)).1 (Res.ok v0 st) := by
  cases c
  · exact RelF_nt rfl rfl
  · exact ⟨v0, rfl, h⟩

theorem FS_succ (f : Nat) (hV : FV x f) (hS : FS x f) : FS x (f + 1) := by
  intro d dm kind start st a b acc acc0 hd he hacc hacc0
  rw [readSeqA, readSeq_succ]
  unfold rsStep
  have hrel := hV (d + 1) dm st a (by omega)
  rcases hq : readValueA x f (d + 1) dm st a with ⟨r, a'⟩
  rw [hq] at hrel
  simp only at hrel ⊢
  cases r with
  | ok v st' =>
    obtain ⟨v0, hr0, g⟩ := hrel
    rw [hr0]
    simp only
    rcases hb : b.add x a' with ⟨ob, a1⟩
    cases ob with
    | none => exact RelF_nt rfl rfl
    | some b' =>
      exact hS d dm kind start st' a1 b' (v :: acc) (v0 :: acc0) hd (eraseCacheL_cons_congr g.er he)
        (VOK_cons g.ok hacc) (VOK_cons g.ok0 hacc0)
  | err e st' =>
    refine RelF_eofconv hrel rfl rfl (fun e0 s0 hr hf => ?_)
    rw [hr]
    simp only [hf, Bool.not_true, Bool.and_false, Bool.false_eq_true, ↓reduceIte]
    exact ⟨_, _, rfl, hf⟩
  | closer st' =>
    rw [hrel]
    simp only
    cases hrest : st'.rest with
    | nil => exact RelF_nt rfl rfl
    | cons c r =>
      simp only
      by_cases hc : (c != closerByte kind) = true
      · simp only [if_pos hc]; exact RelF_nt rfl rfl
      · simp only [if_neg hc]
        rcases hb : b.finish x a' with ⟨okF, a1⟩
        simp only
        cases okF
        · exact RelF_nt rfl rfl
        · simp only [Bool.not_true, Bool.false_eq_true, ↓reduceIte]
          have her := eraseCacheL_reverse_congr he
          have hr := VOK_reverse hacc
          have hr0 := VOK_reverse hacc0
          by_cases h0 : (kind == 0) = true
          · simp only [if_pos h0]
            exact RelF_value ⟨erase_list _ her, VOK_list _ _ hd hr, VOK_list _ _ hd hr0, MdOK_of_none rfl, MdOK_of_none rfl⟩
          · simp only [if_neg h0]
            by_cases h1 : (kind == 1) = true
            · simp only [if_pos h1]
              exact RelF_value ⟨erase_vec _ her, VOK_vec _ _ hd hr, VOK_vec _ _ hd hr0, MdOK_of_none rfl, MdOK_of_none rfl⟩
            · simp only [if_neg h1]
              rcases hdq : hasDuplicatesA x acc.reverse a1 with ⟨⟨dup, ys⟩, a2⟩
              simp only
              by_cases hcnt : (a2.failedArena != a1.failedArena) = true
              · simp only [if_pos hcnt]; exact RelF_nt rfl rfl
              · simp only [if_neg hcnt]
                cases dup
                · simp only [Bool.false_eq_true, ↓reduceIte]
                  cases hreq : (a2.request x.orc .arena).1
                  · exact RelF_nt rfl rfl
                  · simp only [Bool.not_true, Bool.false_eq_true, ↓reduceIte]
                    have hcnt' : a2.failedArena = a1.failedArena := by simpa using hcnt
                    obtain ⟨c', m', e1, e2, -⟩ := dup_after hdq hcnt' hreq
                    simp only at e1 e2
                    have e2' := e2 trivial
                    obtain ⟨w1, w2⟩ := hasDuplicatesF_erase x.ctx.cfg c' m' acc.reverse acc0.reverse her
                      (Elems_of_VOK hr) (Elems_of_VOK hr0)
                    rw [← e1] at w1
                    have hclose := VOK_set_close (cfg := x.ctx.cfg) start (x.ctx.pos r) hd hr0 w1.symm
                    rcases hd0 : hasDuplicates x.ctx.cfg acc0.reverse with ⟨dup0, ys0⟩
                    rw [hd0] at w1 w2 hclose
                    simp only at w1 w2 ⊢
                    rw [← w1]
                    simp only [Bool.false_eq_true, ↓reduceIte]
                    obtain ⟨k1, k2, -⟩ := dup_elems_VOK c' m' hd hr e1.symm
                    rw [← e2'] at k1 k2 w2
                    exact ⟨_, rfl, erase_set _ w2, VOK_set _ _ hd k1 k2, hclose, MdOK_of_none rfl, MdOK_of_none rfl⟩
                · exact RelF_nt rfl rfl

theorem FM_succ (f : Nat) (hV : FV x f) (hM : FM x f) : FM x (f + 1) := by
  intro d dm start ns st a b ks vs ks0 vs0 hd hek hev hks hks0 hvs hvs0 hl hl0
  rw [readMapA, readMap_succ]
  unfold rmStep
  have hrel := hV (d + 1) dm st a (by omega)
  rcases hq : readValueA x f (d + 1) dm st a with ⟨r, a'⟩
  rw [hq] at hrel
  simp only at hrel ⊢
  cases r with
  | err e st' =>
    refine RelF_eofconv hrel rfl rfl (fun e0 s0 hr hf => ?_)
    rw [hr]
    simp only [hf, Bool.not_true, Bool.and_false, Bool.false_eq_true, ↓reduceIte]
    exact ⟨_, _, rfl, hf⟩
  | closer st' =>
    rw [hrel]
    simp only
    cases hrest : st'.rest with
    | nil => exact RelF_nt rfl rfl
    | cons c r =>
      simp only
      by_cases hc : (c != 0x7D) = true
      · simp only [if_pos hc]; exact RelF_nt rfl rfl
      · simp only [if_neg hc]
        rcases hb : b.finishPair x a' with ⟨okF, a1⟩
        simp only
        cases okF
        · exact RelF_nt rfl rfl
        · simp only [Bool.not_true, Bool.false_eq_true, ↓reduceIte]
          have her := eraseCacheL_reverse_congr hek
          have hr := VOK_reverse hks
          rcases hdq : hasDuplicatesA x ks.reverse a1 with ⟨⟨dup, ys⟩, a2⟩
          simp only
          by_cases hcnt : (a2.failedArena != a1.failedArena) = true
          · simp only [if_pos hcnt]; exact RelF_nt rfl rfl
          · simp only [if_neg hcnt]
            cases dup
            · simp only [Bool.false_eq_true, ↓reduceIte]
              cases hreq : (a2.request x.orc .arena).1
              · exact RelF_nt rfl rfl
              · simp only [Bool.not_true, Bool.false_eq_true, ↓reduceIte]
                have hcnt' : a2.failedArena = a1.failedArena := by simpa using hcnt
                obtain ⟨c', m', e1, e2, -⟩ := dup_after hdq hcnt' hreq
                simp only at e1 e2
                have e2' := e2 trivial
                obtain ⟨w1, w2⟩ := hasDuplicatesF_erase x.ctx.cfg c' m' ks.reverse ks0.reverse her
                  (Elems_of_VOK hr) (Elems_of_VOK (VOK_reverse hks0))
                rw [← e1] at w1
                have hclose := VOK_map_close (cfg := x.ctx.cfg) start (x.ctx.pos r) hd (VOK_reverse hks0)
                  (VOK_reverse hvs0) (by rw [List.length_reverse, List.length_reverse, hl0]) w1.symm
                rcases hd0 : hasDuplicates x.ctx.cfg ks0.reverse with ⟨dup0, ys0⟩
                rw [hd0] at w1 w2 hclose
                simp only at w1 w2 ⊢
                rw [← w1]
                simp only [Bool.false_eq_true, ↓reduceIte]
                obtain ⟨k1, k2, k3⟩ := dup_elems_VOK c' m' hd hr e1.symm
                rw [← e2'] at k1 k2 k3 w2
                refine ⟨_, rfl, erase_map _ w2 (eraseCacheL_reverse_congr hev),
                  VOK_map _ _ hd k1 (VOK_reverse hvs) k2 ?_, hclose, MdOK_of_none rfl, MdOK_of_none rfl⟩
                rw [k3, List.length_reverse, List.length_reverse, hl]
            · exact RelF_nt rfl rfl
  | ok k st' =>
    obtain ⟨k0, hr0, gk⟩ := hrel
    rw [hr0]
    simp only
    have hrel2 := hV (d + 1) dm st' a' (by omega)
    rcases hq2 : readValueA x f (d + 1) dm st' a' with ⟨r2, a''⟩
    rw [hq2] at hrel2
    simp only at hrel2 ⊢
    cases r2 with
    | closer st'' => exact RelF_nt rfl rfl
    | err e st'' =>
      refine RelF_eofconv hrel2 rfl rfl (fun e0 s0 hr hf => ?_)
      rw [hr]
      simp only [hf, Bool.not_true, Bool.and_false, Bool.false_eq_true, ↓reduceIte]
      exact ⟨_, _, rfl, hf⟩
    | ok v st'' =>
      obtain ⟨v0, hr2, gv⟩ := hrel2
      rw [hr2]
      simp only
      rcases hqk : (if (ns.isSome && qualifyAllocs k) = true then a''.request x.orc .arena else (true, a'')) with ⟨okK, a1⟩
      simp only
      cases okK
      · exact RelF_nt rfl rfl
      · simp only [Bool.not_true, Bool.false_eq_true, ↓reduceIte]
        rcases hb : b.addPair x a1 with ⟨ob, a2⟩
        cases ob with
        | none => exact RelF_nt rfl rfl
        | some b' =>
          simp only
          have hk0 := gk.ok0
          have key : ∀ (k' k0' : Val), eraseCache k' = eraseCache k0' → VOK x.ctx.cfg (d + 1) k' →
              VOK x.ctx.cfg (d + 1) k0' →
              RelF x.ctx.cfg d (readMapA x f d dm start ns st'' a2 b' (k' :: ks) (v :: vs)).1
                (readMap x.ctx f d dm start ns st'' (k0' :: ks0) (v0 :: vs0)) := by
            intro k' k0' e1 e2 e3
            exact hM d dm start ns st'' a2 b' _ _ _ _ hd (eraseCacheL_cons_congr e1 hek)
              (eraseCacheL_cons_congr gv.er hev) (VOK_cons e2 hks) (VOK_cons e3 hks0) (VOK_cons gv.ok hvs)
              (VOK_cons gv.ok0 hvs0) (by rw [List.length_cons, List.length_cons, hl])
              (by rw [List.length_cons, List.length_cons, hl0])
          cases ns with
          | none => exact key k k0 gk.er gk.ok hk0
          | some n =>
            exact key _ _ (qualifyKey_of_erase n gk.er) (VOK_qualifyKey n (by omega) gk.ok)
              (VOK_qualifyKey n (by omega) hk0)
end
end Edn.Proofs.AllocSim
