/-
  Edn.Proofs.DispatchCljAux1 — registry dispatch on syntax trees (C14, every configuration):
  unfolding equations of `dispatchS`, the accumulator steps for sequences and (qualified) map
  entries, the closing steps, and `readValue` on a keyword prefix.
-/
import Edn.Proofs.DispatchAux2
import Edn.Spec.DispatchClj
namespace Edn.Proofs
open Edn.Model Edn.Spec Edn.Generated

section
variable (cfg : Cfg) (reg : Option (Bytes → Option Handler)) (mode : Nat)

theorem dispatchS_leaf (v : Val) : dispatchS cfg reg mode (.leaf v) = ([], .ok v) := by
  rw [dispatchS]
theorem dispatchS_seq (kind s e : Nat) (xs : List Syn) :
    dispatchS cfg reg mode (.seq kind s e xs) = closeSeq cfg kind s e (seqR (dispatchEachS cfg reg mode xs)) := by
  rw [dispatchS]
theorem dispatchS_map (s e : Nat) (ns : Option Bytes) (ks vs : List Syn) :
    dispatchS cfg reg mode (.map s e ns ks vs) = closeMap cfg s e
      (seqR (interleave2 ((dispatchEachS cfg reg mode ks).map (qualD ns)) (dispatchEachS cfg reg mode vs))) := by
  rw [dispatchS]
theorem dispatchS_tagged (s e : Nat) (tag : Bytes) (x : Syn) :
    dispatchS cfg reg mode (.tagged s e tag x) = tagResult reg mode s e tag (dispatchS cfg reg mode x) := by
  rw [dispatchS]
theorem dispatchS_ann (s me e : Nat) (m form : Syn) :
    dispatchS cfg reg mode (.ann s me e m form) =
      metaResult cfg s me e (dispatchS cfg reg mode m) (dispatchS cfg reg mode form) := by
  rw [dispatchS]

theorem dispatchEachS_cons (x : Syn) (xs : List Syn) :
    dispatchEachS cfg reg mode (x :: xs) = dispatchS cfg reg mode x :: dispatchEachS cfg reg mode xs := by
  rw [dispatchEachS]
theorem dispatchEachS_nil : dispatchEachS cfg reg mode [] = [] := by
  rw [dispatchEachS]

theorem dispatchEachS_append : ∀ (xs ys : List Syn),
    dispatchEachS cfg reg mode (xs ++ ys) = dispatchEachS cfg reg mode xs ++ dispatchEachS cfg reg mode ys
  | [], ys => by rw [dispatchEachS_nil]; rfl
  | x :: xs, ys => by
    rw [List.cons_append, dispatchEachS_cons, dispatchEachS_cons, dispatchEachS_append xs ys]; rfl

theorem dispatchEachS_length : ∀ (xs : List Syn), (dispatchEachS cfg reg mode xs).length = xs.length
  | [] => by rw [dispatchEachS_nil]; rfl
  | x :: xs => by rw [dispatchEachS_cons, List.length_cons, List.length_cons, dispatchEachS_length xs]

/-! ## the accumulator steps -/

theorem dispLS_snoc_ok {ts : List Syn} {ys : List Val} {t : Syn} {y : Val} {c c1 : List Call}
    (h : seqR (dispatchEachS cfg reg mode ts) = (c, .ok ys)) (hx : dispatchS cfg reg mode t = (c1, .ok y)) :
    seqR (dispatchEachS cfg reg mode (ts ++ [t])) = (c ++ c1, .ok (ys ++ [y])) := by
  rw [dispatchEachS_append, dispatchEachS_cons, dispatchEachS_nil, hx]
  have h1 : seqR [((c1, Except.ok y) : DOne)] = (c1 ++ [], .ok [y]) := seqR_cons_ok_ok (by rw [seqR])
  rw [List.append_nil] at h1
  exact seqR_append_ok_ok _ _ _ _ _ _ h h1

theorem dispLS_snoc_err {ts : List Syn} {ys : List Val} {t : Syn} {c c1 : List Call} {e : DErr} (more : List Syn)
    (h : seqR (dispatchEachS cfg reg mode ts) = (c, .ok ys)) (hx : dispatchS cfg reg mode t = (c1, .error e)) :
    seqR (dispatchEachS cfg reg mode (ts ++ t :: more)) = (c ++ c1, .error e) := by
  rw [dispatchEachS_append, dispatchEachS_cons, hx]
  exact seqR_append_ok_err _ _ _ _ _ _ h (seqR_cons_err _ _ _)

/-- the outcomes of the entries of a map with prefix `ns`, keys qualified -/
def entriesS (ns : Option Bytes) (ks vs : List Syn) : List DOne :=
  interleave2 ((dispatchEachS cfg reg mode ks).map (qualD ns)) (dispatchEachS cfg reg mode vs)

theorem entriesS_append (ns : Option Bytes) (ks vs ks2 vs2 : List Syn) (hl : ks.length = vs.length) :
    entriesS cfg reg mode ns (ks ++ ks2) (vs ++ vs2) =
      entriesS cfg reg mode ns ks vs ++ entriesS cfg reg mode ns ks2 vs2 := by
  unfold entriesS
  rw [dispatchEachS_append, dispatchEachS_append, List.map_append,
    interleave2_append _ _ _ _ (by rw [List.length_map, dispatchEachS_length, dispatchEachS_length, hl])]

theorem entriesS_cons (ns : Option Bytes) (k v : Syn) (ks vs : List Syn) :
    entriesS cfg reg mode ns (k :: ks) (v :: vs) =
      qualD ns (dispatchS cfg reg mode k) :: dispatchS cfg reg mode v :: entriesS cfg reg mode ns ks vs := by
  unfold entriesS
  rw [dispatchEachS_cons, dispatchEachS_cons, List.map_cons, interleave2]

theorem entriesS_nil (ns : Option Bytes) : entriesS cfg reg mode ns [] [] = [] := by
  unfold entriesS
  rw [dispatchEachS_nil]
  rfl

theorem dispKVS_snoc_ok {ns : Option Bytes} {ks vs : List Syn} {ks' vs' : List Val} {k v : Syn} {k' v' : Val}
    {c c1 c2 : List Call} (hl : ks.length = vs.length) (hl' : ks'.length = vs'.length)
    (h : seqR (entriesS cfg reg mode ns ks vs) = (c, .ok (interleave2 ks' vs')))
    (hk : dispatchS cfg reg mode k = (c1, .ok k')) (hv : dispatchS cfg reg mode v = (c2, .ok v')) :
    seqR (entriesS cfg reg mode ns (ks ++ [k]) (vs ++ [v]))
      = (c ++ (c1 ++ c2), .ok (interleave2 (ks' ++ [qualifyNs ns k']) (vs' ++ [v']))) := by
  rw [entriesS_append _ _ _ _ _ _ _ _ hl, entriesS_cons, entriesS_nil, hk, hv,
    interleave2_append _ _ _ _ hl']
  have h0 : seqR ([] : List DOne) = ([], .ok []) := by rw [seqR]
  have h1 : seqR [((c2, Except.ok v') : DOne)] = (c2 ++ [], .ok [v']) := seqR_cons_ok_ok h0
  have h2 : seqR [((c1, Except.ok (qualifyNs ns k')) : DOne), (c2, Except.ok v')]
      = (c1 ++ (c2 ++ []), .ok [qualifyNs ns k', v']) := seqR_cons_ok_ok h1
  rw [List.append_nil] at h2
  exact seqR_append_ok_ok _ _ _ _ _ _ h h2

theorem dispKVS_errK {ns : Option Bytes} {ks vs : List Syn} {zs : List Val} {k v : Syn} {c c1 : List Call}
    {e : DErr} (mk mv : List Syn) (hl : ks.length = vs.length)
    (h : seqR (entriesS cfg reg mode ns ks vs) = (c, .ok zs))
    (hk : dispatchS cfg reg mode k = (c1, .error e)) :
    seqR (entriesS cfg reg mode ns (ks ++ k :: mk) (vs ++ v :: mv)) = (c ++ c1, .error e) := by
  rw [entriesS_append _ _ _ _ _ _ _ _ hl, entriesS_cons, hk]
  exact seqR_append_ok_err _ _ _ _ _ _ h (seqR_cons_err _ _ _)

theorem dispKVS_errV {ns : Option Bytes} {ks vs : List Syn} {zs : List Val} {k v : Syn} {k' : Val}
    {c c1 c2 : List Call} {e : DErr} (mk mv : List Syn) (hl : ks.length = vs.length)
    (h : seqR (entriesS cfg reg mode ns ks vs) = (c, .ok zs))
    (hk : dispatchS cfg reg mode k = (c1, .ok k')) (hv : dispatchS cfg reg mode v = (c2, .error e)) :
    seqR (entriesS cfg reg mode ns (ks ++ k :: mk) (vs ++ v :: mv)) = (c ++ (c1 ++ c2), .error e) := by
  rw [entriesS_append _ _ _ _ _ _ _ _ hl, entriesS_cons, hk, hv]
  exact seqR_append_ok_err _ _ _ _ _ _ h (seqR_cons_ok_err (seqR_cons_err _ _ _))

theorem dispatchS_map_entries (s e : Nat) (ns : Option Bytes) (ks vs : List Syn) :
    dispatchS cfg reg mode (.map s e ns ks vs) = closeMap cfg s e (seqR (entriesS cfg reg mode ns ks vs)) :=
  dispatchS_map cfg reg mode s e ns ks vs

end

/-! ## closing steps -/

theorem closeSeq_err (cfg : Cfg) (kind s e : Nat) (c : List Call) (er : DErr) :
    closeSeq cfg kind s e (c, .error er) = (c, .error er) := rfl

theorem closeSeq_ok (cfg : Cfg) (kind s e : Nat) (c : List Call) (xs : List Val) :
    closeSeq cfg kind s e (c, .ok xs) =
      if kind == 0 then (c, .ok (.list (mkHdr s e) none xs))
      else if kind == 1 then (c, .ok (.vec (mkHdr s e) none xs))
      else if (hasDuplicates cfg xs).1 then (c, .error (.duplicateElement, s, e))
      else (c, .ok (.set (mkHdr s e) none (hasDuplicates cfg xs).2)) := rfl

theorem closeMap_err (cfg : Cfg) (s e : Nat) (c : List Call) (er : DErr) :
    closeMap cfg s e (c, .error er) = (c, .error er) := rfl

theorem closeMap_ok (cfg : Cfg) (s e : Nat) (c : List Call) (ks vs : List Val) (hl : ks.length = vs.length) :
    closeMap cfg s e (c, .ok (interleave2 ks vs)) =
      if (hasDuplicates cfg ks).1 then (c, .error (.duplicateKey, s, e))
      else (c, .ok (.map (mkHdr s e) none (hasDuplicates cfg ks).2 vs)) := by
  unfold closeMap
  simp only []
  rw [uninterleave_interleave2 ks vs hl]

theorem tagResult_err (reg : Option (Bytes → Option Handler)) (mode s e : Nat) (tag : Bytes) (c : List Call)
    (er : DErr) : tagResult reg mode s e tag (c, .error er) = (c, .error er) := rfl

theorem metaResult_errM (cfg : Cfg) (s me e : Nat) (c : List Call) (er : DErr) (df : DOne) :
    metaResult cfg s me e (c, .error er) df = (c, .error er) := rfl

/-! ## the prefix of a namespaced map is read by the identifier reader -/

theorem dispatch_colon (cfg : Cfg) : dispatch cfg 0x3A = .identifier := by
  obtain ⟨clj, exp⟩ := cfg
  cases clj <;> cases exp <;> decide +kernel

theorem readValue_colon (ctx : Ctx) (f d : Nat) (dm : Bool) (cs : Bytes) (cl : List Call) :
    readValue ctx (f + 1) d dm { rest := 0x3A :: cs, calls := cl } =
      readIdentifier ctx { rest := 0x3A :: cs, calls := cl } := by
  rw [readValue_succ]
  unfold rvOuter
  simp only []
  rw [if_neg (by decide)]
  simp only []
  unfold rvStep
  simp only []
  rw [dispatch_colon]

end Edn.Proofs
