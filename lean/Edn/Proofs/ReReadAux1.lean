/-
  Edn.Proofs.ReReadAux1 — algebra of the position shift `shiftV`: it commutes with the header
  and metadata accessors, is invisible to hashing, equality and duplicate detection, and
  commutes with the value-rewriting steps of the reader (`qualifyKey`, `metaEntries`,
  `attachMeta`).
-/
import Edn.Spec.ReRead
import Edn.Proofs.Equal
import Edn.Proofs.RangesAux1

namespace Edn.Proofs
open Edn.Model Edn.Spec

/-! ## lists and options -/

theorem shiftL_eq_map (k : Nat) : ∀ xs : List Val, shiftL k xs = xs.map (shiftV k)
  | [] => by simp [shiftL]
  | x :: xs => by simp [shiftL, shiftL_eq_map k xs]

theorem shiftO_eq_map (k : Nat) (o : Option Val) : shiftO k o = o.map (shiftV k) := by
  cases o <;> simp [shiftO]

theorem shiftL_nil (k : Nat) : shiftL k [] = [] := by simp [shiftL]
theorem shiftL_cons (k : Nat) (x : Val) (xs : List Val) : shiftL k (x :: xs) = shiftV k x :: shiftL k xs := by
  simp [shiftL]
theorem shiftL_append (k : Nat) (xs ys : List Val) : shiftL k (xs ++ ys) = shiftL k xs ++ shiftL k ys := by
  simp [shiftL_eq_map]
theorem shiftL_reverse (k : Nat) (xs : List Val) : shiftL k xs.reverse = (shiftL k xs).reverse := by
  simp [shiftL_eq_map]
theorem shiftL_length (k : Nat) (xs : List Val) : (shiftL k xs).length = xs.length := by
  simp [shiftL_eq_map]

/-! ## headers -/

theorem shiftHdr_hc (k : Nat) (h : Hdr) : (shiftHdr k h).hc = h.hc := by
  unfold shiftHdr; split <;> rfl
theorem shiftHdr_synth (k : Nat) (h : Hdr) : (shiftHdr k h).synth = h.synth := by
  unfold shiftHdr; split <;> rfl
theorem shiftHdr_mk (k a b : Nat) : shiftHdr k (mkHdr a b) = mkHdr (a + k) (b + k) := rfl
theorem shiftHdr_synthHdr (k : Nat) : shiftHdr k synthHdr = synthHdr := rfl
theorem shiftHdr_of_synth {k : Nat} {h : Hdr} (hs : h.synth = true) : shiftHdr k h = h := by
  unfold shiftHdr; simp [hs]
theorem shiftHdr_of_nsynth {k : Nat} {h : Hdr} (hs : h.synth = false) :
    shiftHdr k h = { h with s := h.s + k, e := h.e + k } := by
  unfold shiftHdr; simp [hs]
theorem shiftHdr_with_hc (k : Nat) (h : Hdr) (c : UInt64) :
    shiftHdr k { h with hc := c } = { shiftHdr k h with hc := c } := by
  unfold shiftHdr; split <;> rfl
theorem shiftHdr_with_s {k : Nat} {h : Hdr} (hs : h.synth = false) (a : Nat) :
    shiftHdr k { h with s := a } = { shiftHdr k h with s := a + k } := by
  unfold shiftHdr; simp [hs]

theorem hdr_shiftV (k : Nat) (v : Val) : (shiftV k v).hdr = shiftHdr k v.hdr := by
  cases v <;> simp [shiftV, Val.hdr, Val.setHdr]

theorem shiftV_setHdr (k : Nat) (v : Val) (h : Hdr) :
    shiftV k (v.setHdr h) = (shiftV k v).setHdr (shiftHdr k h) := by
  cases v <;> simp [shiftV, Val.hdr, Val.setHdr]

theorem md_shiftV (k : Nat) (v : Val) : (shiftV k v).md = shiftO k v.md := by
  cases v <;> simp [shiftV, Val.md, Val.setHdr, shiftO]

theorem shiftV_setMd (k : Nat) (v : Val) (m : Option Val) :
    shiftV k (v.setMd m) = (shiftV k v).setMd (shiftO k m) := by
  cases v <;> simp [shiftV, Val.setMd, Val.setHdr, Val.hdr]

theorem metaTarget_shiftV (k : Nat) (v : Val) : (shiftV k v).metaTarget = v.metaTarget := by
  cases v <;> simp [shiftV, Val.metaTarget, Val.setHdr]

/-! ## hashing and equality do not see positions -/

theorem tySeed_shiftV (cfg : Cfg) (k : Nat) (v : Val) : tySeed cfg (shiftV k v) = tySeed cfg v := by
  cases v <;> simp [shiftV, tySeed, Val.setHdr]

mutual
theorem hashV_shiftV (cfg : Cfg) (k : Nat) : ∀ v : Val, hashV cfg (shiftV k v) = hashV cfg v
  | .nil _ | .bool _ _ | .int _ _ | .bigint _ _ _ _ | .float _ _ | .bigdec _ _ _ | .ratio _ _ _
  | .bigratio _ _ _ _ | .char _ _ | .str _ _ _ | .kw _ _ _ | .ext _ _ _ => by
    simp [shiftV, Val.setHdr, hashV, tySeed]
  | .sym _ _ _ _ => by simp [shiftV, hashV, tySeed]
  | .list _ _ xs => by simp [shiftV, hashV, hashList_shiftL cfg k xs]
  | .vec _ _ xs => by simp [shiftV, hashV, hashList_shiftL cfg k xs]
  | .set _ _ xs => by simp [shiftV, hashV, hashList_shiftL cfg k xs]
  | .map _ _ ks vs => by simp [shiftV, hashV, hashList_shiftL cfg k ks, hashList_shiftL cfg k vs]
  | .tagged _ _ _ v => by simp [shiftV, hashV, hashV_shiftV cfg k v]
theorem hashList_shiftL (cfg : Cfg) (k : Nat) : ∀ xs : List Val, hashList cfg (shiftL k xs) = hashList cfg xs
  | [] => by simp [shiftL, hashList]
  | x :: xs => by simp [shiftL, hashList, hashV_shiftV cfg k x, hashList_shiftL cfg k xs]
end

theorem hashOp_shiftV (cfg : Cfg) (k : Nat) (v : Val) :
    hashOp cfg (shiftV k v) = ((hashOp cfg v).1, shiftV k (hashOp cfg v).2) := by
  unfold hashOp
  simp only [hdr_shiftV, shiftHdr_hc, hashV_shiftV]
  split
  · rfl
  · simp only [shiftV_setHdr, shiftHdr_with_hc]

theorem kindCompatible_shiftV (k : Nat) (a b : Val) :
    kindCompatible (shiftV k a) (shiftV k b) = kindCompatible a b := by
  cases a <;> cases b <;> rfl

theorem allZip_map (p : Val → Val → Bool) (g : Val → Val) : ∀ (xs ys : List Val),
    allZip p (xs.map g) (ys.map g) = allZip (fun x y => p (g x) (g y)) xs ys
  | [], [] => rfl
  | [], _ :: _ => rfl
  | _ :: _, [] => rfl
  | x :: xs, y :: ys => by simp [allZip, allZip_map p g xs ys]

theorem findKey_map (p : Val → Val → Bool) (g : Val → Val) (k : Val) : ∀ (ks vs : List Val),
    findKey p (g k) (ks.map g) (vs.map g) = (findKey (fun x y => p (g x) (g y)) k ks vs).map g
  | [], _ => by simp [findKey]
  | _ :: _, [] => by simp [findKey]
  | k' :: ks, v' :: vs => by
    simp only [List.map_cons, findKey]
    split
    · rfl
    · exact findKey_map p g k ks vs

theorem body_shiftV (cfg : Cfg) (k : Nat) (p : Val → Val → Bool) (a b : Val) :
    body cfg p (shiftV k a) (shiftV k b) = body cfg (fun x y => p (shiftV k x) (shiftV k y)) a b := by
  cases a <;> cases b <;>
    simp only [shiftV, body, Val.setHdr, Val.hdr, seqBody, setBody, mapBody, shiftL_eq_map, List.length_map,
      allZip_map, List.all_map, List.any_map, Function.comp_def]
  case map.map h md ks vs h' md' ks' vs' =>
    congr 1
    apply allZip_congr
    intro x _ y _
    rw [findKey_map]
    cases findKey (fun x y => p (shiftV k x) (shiftV k y)) x ks' vs' <;> rfl

theorem equalF_shiftV (cfg : Cfg) (k : Nat) : ∀ (f : Nat) (a b : Val),
    equalF cfg f (shiftV k a) (shiftV k b) = equalF cfg f a b
  | 0, _, _ => rfl
  | f + 1, a, b => by
    rw [equalF_succ, equalF_succ, kindCompatible_shiftV, hdr_shiftV, hdr_shiftV, shiftHdr_hc, shiftHdr_hc,
      body_shiftV]
    have : (fun x y => equalF cfg f (shiftV k x) (shiftV k y)) = equalF cfg f := by
      funext x y; exact equalF_shiftV cfg k f x y
    rw [this]

theorem equal_shiftV (cfg : Cfg) (k : Nat) (a b : Val) : equal cfg (shiftV k a) (shiftV k b) = equal cfg a b :=
  equalF_shiftV cfg k _ a b

theorem hasDupLinear_shiftL (cfg : Cfg) (k : Nat) : ∀ xs : List Val,
    hasDupLinear cfg (shiftL k xs) = hasDupLinear cfg xs
  | [] => by simp [shiftL, hasDupLinear]
  | x :: xs => by
    simp only [shiftL_cons, hasDupLinear, hasDupLinear_shiftL cfg k xs]
    simp only [shiftL_eq_map, List.any_map, Function.comp_def, equal_shiftV]

theorem hasDupHashed_shiftL (cfg : Cfg) (k : Nat) : ∀ xs : List Val,
    hasDupHashed cfg (shiftL k xs) = hasDupHashed cfg xs
  | [] => by simp [shiftL, hasDupHashed]
  | x :: xs => by
    simp only [shiftL_cons, hasDupHashed, hasDupHashed_shiftL cfg k xs]
    simp only [shiftL_eq_map, List.any_map, Function.comp_def, equal_shiftV, hdr_shiftV, shiftHdr_hc]

theorem hasDuplicates_shiftL (cfg : Cfg) (k : Nat) (xs : List Val) :
    hasDuplicates cfg (shiftL k xs) = ((hasDuplicates cfg xs).1, shiftL k (hasDuplicates cfg xs).2) := by
  unfold hasDuplicates
  simp only [shiftL_length]
  split
  · rfl
  · split
    · simp only [hasDupLinear_shiftL]
    · have hm : List.map (fun x => (hashOp cfg x).2) (shiftL k xs) =
          shiftL k (List.map (fun x => (hashOp cfg x).2) xs) := by
        simp only [shiftL_eq_map, List.map_map]
        apply List.map_congr_left
        intro x _
        simp only [Function.comp_def, hashOp_shiftV]
      simp only [hm, hasDupHashed_shiftL]

/-! ## the value-rewriting steps of the reader -/

theorem qualifyKey_shiftV (n : Bytes) (k : Nat) (x : Val) :
    qualifyKey n (shiftV k x) = shiftV k (qualifyKey n x) := by
  cases x <;> try rfl
  case sym h md ns nm =>
    cases ns with
    | none => rfl
    | some m =>
      simp only [shiftV, qualifyKey]
      split <;> rfl
  case kw h ns nm =>
    cases ns with
    | none => rfl
    | some m =>
      simp only [shiftV, qualifyKey, Val.setHdr, Val.hdr]
      split <;> rfl

theorem metaEntries_shiftV (k : Nat) (m : Val) :
    metaEntries (shiftV k m) = (metaEntries m).map (fun p => (shiftL k p.1, shiftL k p.2)) := by
  cases m <;> simp [shiftV, metaEntries, Val.setHdr, Val.hdr, shiftL, shiftHdr_synthHdr]

theorem keepOld_shiftL (cfg : Cfg) (k : Nat) (nk : List Val) : ∀ (ks vs : List Val),
    keepOld cfg (shiftL k nk) (shiftL k ks) (shiftL k vs) =
      (shiftL k (keepOld cfg nk ks vs).1, shiftL k (keepOld cfg nk ks vs).2)
  | [], _ => by simp [shiftL, keepOld]
  | _ :: _, [] => by simp [shiftL, keepOld]
  | a :: ks, b :: vs => by
    simp only [shiftL_cons, keepOld, keepOld_shiftL cfg k nk ks vs]
    have : (shiftL k nk).any (fun x => equal cfg (shiftV k a) x) = nk.any (fun x => equal cfg a x) := by
      simp only [shiftL_eq_map, List.any_map, Function.comp_def, equal_shiftV]
    rw [this]
    split <;> simp [shiftL]

theorem newMd_shiftV (cfg : Cfg) (k : Nat) (form : Val) (nks nvs : List Val) :
    newMd cfg (shiftV k form) (shiftL k nks) (shiftL k nvs) = shiftV k (newMd cfg form nks nvs) := by
  unfold newMd
  rw [md_shiftV]
  cases hmd : form.md with
  | none => simp [shiftO, shiftV, shiftHdr_synthHdr]
  | some x =>
    cases x <;> simp only [shiftO, shiftV, Val.setHdr, Val.hdr, shiftHdr_synthHdr]
    case map h md ks vs =>
      simp only [keepOld_shiftL, shiftL_append]

theorem attachMeta_shiftV (cfg : Cfg) (k : Nat) (m form : Val) (nks nvs : List Val) :
    attachMeta cfg (shiftV k m) (shiftV k form) (shiftL k nks) (shiftL k nvs) =
      shiftV k (attachMeta cfg m form nks nvs) := by
  rw [attachMeta_eq, attachMeta_eq, newMd_shiftV, shiftV_setMd]
  rfl

end Edn.Proofs
