/-
  Edn.Proofs.CompleteAux1 — `strip` (content of a tree) versus structural equality, nesting
  depth, hashing caches and the duplicate check.
-/
import Edn.Spec.Renders
import Edn.Proofs.Equal

namespace Edn.Proofs.Cmpl
open Edn.Model Edn.Spec Edn.Generated Edn.Proofs

/-! ### `stripL` is `map strip` -/

theorem stripL_nil : stripL [] = [] := by rw [stripL]
theorem stripL_cons (x : Val) (xs : List Val) : stripL (x :: xs) = strip x :: stripL xs := by rw [stripL]

theorem stripL_eq_map : ∀ xs : List Val, stripL xs = xs.map strip := by
  intro xs
  induction xs with
  | nil => rw [stripL_nil]; rfl
  | cons x xs ih => rw [stripL_cons, ih]; rfl

theorem length_stripL (xs : List Val) : (stripL xs).length = xs.length := by
  rw [stripL_eq_map, List.length_map]

theorem stripL_append (xs ys : List Val) : stripL (xs ++ ys) = stripL xs ++ stripL ys := by
  rw [stripL_eq_map, stripL_eq_map, stripL_eq_map, List.map_append]

theorem stripL_reverse (xs : List Val) : stripL xs.reverse = (stripL xs).reverse := by
  rw [stripL_eq_map, stripL_eq_map, List.map_reverse]

/-! ### one level of the equality recursion sees through `strip` -/

section
variable (p : Val → Val → Bool) (hp : ∀ x y, p (strip x) (strip y) = p x y)
include hp

theorem allZip_strip : ∀ (xs ys : List Val), allZip p (stripL xs) (stripL ys) = allZip p xs ys := by
  intro xs
  induction xs with
  | nil => intro ys; cases ys with
    | nil => rw [stripL_nil]
    | cons y ys => rw [stripL_nil, stripL_cons]; rfl
  | cons x xs ih =>
    intro ys
    cases ys with
    | nil => rw [stripL_nil, stripL_cons]; rfl
    | cons y ys =>
      rw [stripL_cons, stripL_cons]
      show (p (strip x) (strip y) && allZip p (stripL xs) (stripL ys)) = (p x y && allZip p xs ys)
      rw [hp, ih]

theorem any_strip (x : Val) (ys : List Val) :
    ((stripL ys).any fun y => p (strip x) y) = ys.any fun y => p x y := by
  rw [stripL_eq_map, List.any_map]
  apply any_congr_mem
  intro y _
  exact hp x y

theorem allAny_strip (xs ys : List Val) :
    ((stripL xs).all fun x => (stripL ys).any fun y => p x y) = xs.all fun x => ys.any fun y => p x y := by
  rw [stripL_eq_map xs, List.all_map]
  apply all_congr_mem
  intro x _
  exact any_strip p hp x ys

theorem findKey_strip (k : Val) : ∀ (ks' vs' : List Val),
    findKey p (strip k) (stripL ks') (stripL vs') = (findKey p k ks' vs').map strip := by
  intro ks'
  induction ks' with
  | nil => intro vs'; rw [stripL_nil]; rfl
  | cons k' ks' ih =>
    intro vs'
    cases vs' with
    | nil => rw [stripL_nil, stripL_cons]; rfl
    | cons v' vs' =>
      rw [stripL_cons, stripL_cons]
      show (if p (strip k) (strip k') = true then some (strip v') else findKey p (strip k) (stripL ks') (stripL vs'))
        = (if p k k' = true then some v' else findKey p k ks' vs').map strip
      rw [hp, ih]
      by_cases h : p k k' = true
      · rw [if_pos h, if_pos h]; rfl
      · rw [if_neg h, if_neg h]

theorem mapBody_strip (ks vs ks' vs' : List Val) :
    mapBody p (stripL ks) (stripL vs) (stripL ks') (stripL vs') = mapBody p ks vs ks' vs' := by
  unfold mapBody
  rw [length_stripL, length_stripL]
  congr 1
  have key : ∀ (ks vs : List Val),
      allZip (fun k v => match findKey p k (stripL ks') (stripL vs') with
                         | some v' => p v v'
                         | none => false) (stripL ks) (stripL vs)
      = allZip (fun k v => match findKey p k ks' vs' with
                         | some v' => p v v'
                         | none => false) ks vs := by
    intro ks
    induction ks with
    | nil => intro vs; cases vs with
      | nil => rw [stripL_nil]; rfl
      | cons y ys => rw [stripL_nil, stripL_cons]; rfl
    | cons k ks ih =>
      intro vs
      cases vs with
      | nil => rw [stripL_nil, stripL_cons]; rfl
      | cons v vs =>
        rw [stripL_cons, stripL_cons]
        show ((match findKey p (strip k) (stripL ks') (stripL vs') with
                | some v' => p (strip v) v'
                | none => false) && _) = ((match findKey p k ks' vs' with
                | some v' => p v v'
                | none => false) && _)
        rw [ih vs, findKey_strip p hp k ks' vs']
        cases findKey p k ks' vs' with
        | none => rfl
        | some w => show (p (strip v) (strip w) && _) = _; rw [hp]
  exact key ks vs

theorem body_strip (cfg : Cfg) (a b : Val) : body cfg p (strip a) (strip b) = body cfg p a b := by
  cases a <;> cases b <;> simp only [strip] <;> try rfl
  case list.list h1 m1 xs h2 m2 ys =>
    show seqBody p (stripL xs) (stripL ys) = seqBody p xs ys
    unfold seqBody; rw [allZip_strip p hp, length_stripL, length_stripL]
  case list.vec h1 m1 xs h2 m2 ys =>
    show seqBody p (stripL xs) (stripL ys) = seqBody p xs ys
    unfold seqBody; rw [allZip_strip p hp, length_stripL, length_stripL]
  case vec.list h1 m1 xs h2 m2 ys =>
    show seqBody p (stripL xs) (stripL ys) = seqBody p xs ys
    unfold seqBody; rw [allZip_strip p hp, length_stripL, length_stripL]
  case vec.vec h1 m1 xs h2 m2 ys =>
    show seqBody p (stripL xs) (stripL ys) = seqBody p xs ys
    unfold seqBody; rw [allZip_strip p hp, length_stripL, length_stripL]
  case set.set h1 m1 xs h2 m2 ys =>
    show setBody p (stripL xs) (stripL ys) = setBody p xs ys
    unfold setBody; rw [allAny_strip p hp, length_stripL, length_stripL]
  case map.map h1 m1 ks vs h2 m2 ks' vs' =>
    show mapBody p (stripL ks) (stripL vs) (stripL ks') (stripL vs') = mapBody p ks vs ks' vs'
    exact mapBody_strip p hp ks vs ks' vs'
  case tagged.tagged h1 m1 t v h2 m2 t' v' =>
    show (t == t' && p (strip v) (strip v')) = (t == t' && p v v')
    rw [hp]

end

theorem eqvF_strip (cfg : Cfg) : ∀ (f : Nat) (a b : Val), eqvF cfg f (strip a) (strip b) = eqvF cfg f a b := by
  intro f
  induction f with
  | zero => intro a b; rfl
  | succ f ih =>
    intro a b
    rw [eqvF_succ, eqvF_succ]
    exact body_strip (eqvF cfg f) ih cfg a b

/-! ### depth -/

theorem depthL_nil : depthL [] = 0 := by rw [depthL]

theorem depth_strip_aux : ∀ (n : Nat),
    (∀ a : Val, sizeOf a ≤ n → depth (strip a) = depth a) := by
  intro n
  induction n with
  | zero =>
    intro a h
    cases a <;> simp at h <;> omega
  | succ n ih =>
    have hl : ∀ xs : List Val, sizeOf xs ≤ n → depthL (stripL xs) = depthL xs := by
      intro xs
      induction xs with
      | nil => intro _; rw [stripL_nil]
      | cons x xs ihx =>
        intro h
        simp at h
        rw [stripL_cons, depthL_cons, depthL_cons, ih x (by omega), ihx (by omega)]
    intro a h
    cases a <;> simp only [strip] <;> try (simp only [depth])
    case list h1 m xs => simp at h; rw [hl xs (by omega)]
    case vec h1 m xs => simp at h; rw [hl xs (by omega)]
    case set h1 m xs => simp at h; rw [hl xs (by omega)]
    case map h1 m ks vs => simp at h; rw [hl ks (by omega), hl vs (by omega)]
    case tagged h1 m t v => simp at h; rw [ih v (by omega)]

theorem depth_strip (a : Val) : depth (strip a) = depth a := depth_strip_aux _ a (Nat.le_refl _)

theorem Eqv_strip_iff (cfg : Cfg) (a b : Val) : Eqv cfg (strip a) (strip b) ↔ Eqv cfg a b := by
  unfold Eqv
  rw [depth_strip, eqvF_strip]

theorem pairwiseDistinct_stripL (cfg : Cfg) (xs : List Val) :
    pairwiseDistinct cfg (stripL xs) ↔ pairwiseDistinct cfg xs := by
  unfold pairwiseDistinct
  rw [stripL_eq_map, List.pairwise_map]
  constructor
  · intro h
    refine List.Pairwise.imp ?_ h
    intro x y hxy
    rw [Eqv_strip_iff, Eqv_strip_iff] at hxy
    exact hxy
  · intro h
    refine List.Pairwise.imp ?_ h
    intro x y hxy
    rw [Eqv_strip_iff, Eqv_strip_iff]
    exact hxy

/-! ### the duplicate check only fills cache cells -/

theorem strip_setHdr (v : Val) (h : Hdr) : strip (v.setHdr h) = strip v := by
  cases v <;> simp only [Val.setHdr, strip]

theorem strip_hashOp (cfg : Cfg) (v : Val) : strip (hashOp cfg v).2 = strip v := by
  rcases hashOp_snd cfg v with e | e
  · rw [e]
  · rw [e, strip_setHdr]

theorem stripL_hasDuplicates (cfg : Cfg) (xs : List Val) :
    stripL (hasDuplicates cfg xs).2 = stripL xs := by
  unfold hasDuplicates
  by_cases h1 : xs.length ≤ 1
  · rw [if_pos h1]
  · rw [if_neg h1]
    by_cases h2 : xs.length ≤ Tables.linearThreshold
    · rw [if_pos h2]
    · rw [if_neg h2]
      show stripL (xs.map fun x => (hashOp cfg x).2) = stripL xs
      rw [stripL_eq_map, stripL_eq_map, List.map_map]
      apply List.map_congr_left
      intro x _
      exact strip_hashOp cfg x

end Edn.Proofs.Cmpl
