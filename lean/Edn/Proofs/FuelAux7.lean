/-
  Edn.Proofs.FuelAux7 — (a) at nesting depth 0 no reader function answers "closing
  delimiter" (needed for `read_terminates`); (b) at the nesting limit the dispatch of
  `readValue` does not use the functions with less fuel.
-/
import Edn.Proofs.FuelAux3

namespace Edn.Proofs
open Edn.Model
open Edn.Generated

def _root_.Edn.Model.Res.isCloser : Res → Bool
  | .closer _ => true
  | _ => false

/-! ## no closer at depth 0 -/

theorem leaf_not_closer (ctx : Ctx) (st : St) :
    (readString ctx st).isCloser = false ∧ (readCharacter ctx st).isCloser = false ∧
    (readIdentifier ctx st).isCloser = false ∧ (readSymbolic ctx st).isCloser = false ∧
    (readNumberRes ctx st).isCloser = false := by
  refine ⟨?_, ?_, ?_, ?_, ?_⟩
  · unfold readString
    simp only []
    repeat' split
    all_goals rfl
  · rw [readCharacter_eq]
    repeat' split
    all_goals rfl
  · unfold readIdentifier
    simp only []
    repeat' split
    all_goals rfl
  · unfold readSymbolic
    simp only []
    repeat' split
    all_goals rfl
  · unfold readNumberRes
    simp only []
    repeat' split
    all_goals rfl

def CV (RV : RVT) : Prop := ∀ dm st, (RV 0 dm st).isCloser = false
def CS (RS : RST) : Prop := ∀ d dm kind start st acc, (RS d dm kind start st acc).isCloser = false
def CM (RM : RMT) : Prop := ∀ d dm start ns st ks vs, (RM d dm start ns st ks vs).isCloser = false
def C4 (R : R4T) : Prop := ∀ d dm start st, (R d dm start st).isCloser = false
def C40 (R : R4T) : Prop := ∀ dm start st, (R 0 dm start st).isCloser = false

theorem rvStep_noCloser (ctx : Ctx) {RV : RVT} {RS : RST} {RM : RMT} {RN RT RMe : R4T}
    (hV : CV RV) (hS : CS RS) (hM : CM RM) (hN : C40 RN) (hT : C4 RT) (hMe : C4 RMe)
    (dm : Bool) (calls : List Call) (c : UInt8) (cs : Bytes) :
    (rvStep ctx RV RS RM RN RT RMe 0 dm calls c cs).isCloser = false := by
  unfold rvStep
  simp only []
  obtain ⟨l1, l2, l3, l4, l5⟩ := leaf_not_closer ctx { rest := c :: cs, calls := calls }
  cases hdisp : dispatch ctx.cfg c with
  | string => exact l1
  | character => exact l2
  | listOpen =>
    simp only []
    split
    · rfl
    · exact hS _ _ _ _ _ _
  | vectorOpen =>
    simp only []
    split
    · rfl
    · exact hS _ _ _ _ _ _
  | mapOpen =>
    simp only []
    split
    · rfl
    · exact hM _ _ _ _ _ _ _
  | hash =>
    simp only []
    cases cs with
    | nil => simp only []; exact hT _ _ _ _
    | cons nx cs' =>
      simp only []
      split
      · exact l4
      split
      · rfl
      split
      · exact hS _ _ _ _ _ _
      split
      · cases hr : RV (0 + 1) true { rest := cs', calls := calls } with
        | ok v st' => simp only []; exact hV _ _
        | closer st' => rfl
        | err e st' => rfl
      split
      · exact hN _ _ _
      · exact hT _ _ _ _
  | sign =>
    simp only []
    cases cs with
    | nil => exact l3
    | cons nx t =>
      simp only []
      split
      · exact l5
      · exact l3
  | digit => exact l5
  | delimiter => rfl
  | metadata =>
    simp only []
    split
    · rfl
    · exact hMe _ _ _ _
  | identifier => exact l3

theorem rvOuter_noCloser (ctx : Ctx) {RV : RVT} {RS : RST} {RM : RMT} {RN RT RMe : R4T}
    (hV : CV RV) (hS : CS RS) (hM : CM RM) (hN : C40 RN) (hT : C4 RT) (hMe : C4 RMe)
    (dm : Bool) (st : St) :
    (rvOuter ctx RV RS RM RN RT RMe 0 dm st).isCloser = false := by
  unfold rvOuter
  cases hs : st.rest with
  | nil => rfl
  | cons c0 t =>
    simp only []
    cases hw : (if isPreWs c0 = true then skipWs (c0 :: t) else c0 :: t) with
    | nil => rfl
    | cons c cs =>
      simp only []
      exact rvStep_noCloser ctx hV hS hM hN hT hMe dm st.calls c cs

theorem rsStep_noCloser (ctx : Ctx) {RV : RVT} {RS : RST} (hS : CS RS)
    (d : Nat) (dm : Bool) (kind start : Nat) (st : St) (acc : List Val) :
    (rsStep ctx RV RS d dm kind start st acc).isCloser = false := by
  unfold rsStep
  cases hr : RV (d + 1) dm st with
  | ok v st' => simp only []; exact hS _ _ _ _ _ _
  | err e st' => simp only []; split <;> rfl
  | closer st' =>
    simp only []
    repeat' split
    all_goals rfl

theorem rmStep_noCloser (ctx : Ctx) {RV : RVT} {RM : RMT} (hM : CM RM)
    (d : Nat) (dm : Bool) (start : Nat) (ns : Option Bytes) (st : St) (ks vs : List Val) :
    (rmStep ctx RV RM d dm start ns st ks vs).isCloser = false := by
  unfold rmStep
  simp only []
  cases hr : RV (d + 1) dm st with
  | ok k st' =>
    simp only []
    cases hr2 : RV (d + 1) dm st' with
    | ok v st'' => simp only []; exact hM _ _ _ _ _ _ _
    | err e st'' => simp only []; split <;> rfl
    | closer st'' => rfl
  | err e st' => simp only []; split <;> rfl
  | closer st' =>
    simp only []
    repeat' split
    all_goals rfl

theorem rnStep_noCloser (ctx : Ctx) {RV : RVT} {RM : RMT} (hV : CV RV) (hM : CM RM)
    (dm : Bool) (start : Nat) (st : St) :
    (rnStep ctx RV RM 0 dm start st).isCloser = false := by
  unfold rnStep
  have h1 := hV dm st
  cases hr : RV 0 dm st with
  | closer st' => rw [hr] at h1; cases h1
  | err e st' => rfl
  | ok kwv st' =>
    simp only []
    split
    · split
      · split
        · exact hM _ _ _ _ _ _ _
        · rfl
      · rfl
    · rfl

theorem rtStep_noCloser (ctx : Ctx) {RV : RVT}
    (d : Nat) (dm : Bool) (start : Nat) (st : St) :
    (rtStep ctx RV d dm start st).isCloser = false := by
  unfold rtStep
  simp only []
  split
  · rfl
  · split
    · rfl
    · have h2 := (leaf_not_closer ctx st).2.2.1
      cases hr : readIdentifier ctx st with
      | closer st' => rw [hr] at h2; cases h2
      | err e st' => rfl
      | ok tagv st' =>
        simp only []
        split
        · cases hr2 : RV (d + 1) dm st' with
          | closer st'' => rfl
          | err e st'' => rfl
          | ok v st'' =>
            simp only []
            repeat' split
            all_goals rfl
        · rfl

theorem rmeStep_noCloser (ctx : Ctx) {RV : RVT}
    (d : Nat) (dm : Bool) (start : Nat) (st : St) :
    (rmeStep ctx RV d dm start st).isCloser = false := by
  unfold rmeStep
  simp only []
  cases hr : RV (d + 1) dm st with
  | closer st' => rfl
  | err e st' => rfl
  | ok m st' =>
    simp only []
    split
    · rfl
    · cases hr2 : RV (d + 1) dm st' with
      | closer st'' => rfl
      | err e st'' => rfl
      | ok form st'' => simp only []; split <;> rfl

/-- at nesting depth 0 `readValue` never answers "closing delimiter met" -/
theorem reader_noCloser (ctx : Ctx) : ∀ (f : Nat),
    CV (readValue ctx f) ∧ CS (readSeq ctx f) ∧ CM (readMap ctx f) ∧ C40 (readNsMap ctx f) ∧
    C4 (readTagged ctx f) ∧ C4 (readMeta ctx f) := by
  intro f
  induction f with
  | zero =>
    refine ⟨?_, ?_, ?_, ?_, ?_, ?_⟩
    · intro dm st; rw [readValue_zero]; rfl
    · intro d dm kind start st acc; rw [readSeq_zero]; rfl
    · intro d dm start ns st ks vs; rw [readMap_zero]; rfl
    · intro dm start st; rw [readNsMap_zero]; rfl
    · intro d dm start st; rw [readTagged_zero]; rfl
    · intro d dm start st; rw [readMeta_zero]; rfl
  | succ f ih =>
    obtain ⟨hV, hS, hM, hN, hT, hMe⟩ := ih
    refine ⟨?_, ?_, ?_, ?_, ?_, ?_⟩
    · intro dm st; rw [readValue_succ]; exact rvOuter_noCloser ctx hV hS hM hN hT hMe dm st
    · intro d dm kind start st acc; rw [readSeq_succ]; exact rsStep_noCloser ctx hS d dm kind start st acc
    · intro d dm start ns st ks vs; rw [readMap_succ]; exact rmStep_noCloser ctx hM d dm start ns st ks vs
    · intro dm start st; rw [readNsMap_succ]; exact rnStep_noCloser ctx hV hM dm start st
    · intro d dm start st; rw [readTagged_succ]; exact rtStep_noCloser ctx d dm start st
    · intro d dm start st; rw [readMeta_succ]; exact rmeStep_noCloser ctx d dm start st

/-! ## the dispatch at the nesting limit -/

def dispHashOk (cfg : Cfg) (c : UInt8) : Bool := !(dispatch cfg c == .hash) || c == 0x23

theorem dispHashOk_all (cfg : Cfg) : ∀ c, dispHashOk cfg c = true := by
  obtain ⟨clj, exp⟩ := cfg
  cases clj <;> cases exp <;> exact forall_u8_bool _ (by decide +kernel)

theorem dispatch_hash {cfg : Cfg} {c : UInt8} (h : dispatch cfg c = .hash) : c = 0x23 := by
  have := dispHashOk_all cfg c
  have hb : (Disp.hash == Disp.hash) = true := by decide
  simp only [dispHashOk, h, hb, Bool.not_true, Bool.false_or, beq_iff_eq] at this
  exact this

/-- with `d` at the limit the dispatch does not call the functions with less fuel, except
    `readTagged` on the empty rest for a `#` that ends the input -/
theorem rvStep_deep (ctx : Ctx) {RV RV' : RVT} {RS RS' : RST} {RM RM' : RMT} {RN RN' RT RT' RMe RMe' : R4T}
    (d : Nat) (dm : Bool) (calls : List Call) (c : UInt8) (cs : Bytes)
    (hd : Tables.maxNestingDepth ≤ d)
    (hT : cs = [] → c = 0x23 → ∀ start, RT' d dm start { rest := [], calls := calls } = RT d dm start { rest := [], calls := calls }) :
    rvStep ctx RV' RS' RM' RN' RT' RMe' d dm calls c cs = rvStep ctx RV RS RM RN RT RMe d dm calls c cs := by
  unfold rvStep
  simp only []
  have htd : decide (d ≥ Tables.maxNestingDepth) = true := by simpa using hd
  cases hdisp : dispatch ctx.cfg c with
  | string => rfl
  | character => rfl
  | listOpen => simp only [htd, ↓reduceIte]
  | vectorOpen => simp only [htd, ↓reduceIte]
  | mapOpen => simp only [htd, ↓reduceIte]
  | hash =>
    simp only []
    cases cs with
    | nil => simp only []; exact hT rfl (dispatch_hash hdisp) _
    | cons nx cs' => simp only [htd, ↓reduceIte]
  | sign => rfl
  | digit => rfl
  | delimiter => rfl
  | metadata => simp only [htd, ↓reduceIte]
  | identifier => rfl

theorem skipWs_nonws' (c : UInt8) (t : Bytes) (h : isPreWs c = false) : skipWs (c :: t) = c :: t := by
  rw [skipWs_eq]
  unfold skipWsScalar
  rw [skipWsScalarAux_false_cons]
  rw [isPreWs_iff] at h
  simp only [Bool.or_eq_false_iff] at h
  simp [h.1, h.2]

/-- the bytes at which `readValue` dispatches are `skipWs st.rest` -/
theorem preWs_eq_skipWs (c0 : UInt8) (t : Bytes) :
    (if isPreWs c0 = true then skipWs (c0 :: t) else c0 :: t) = skipWs (c0 :: t) := by
  split
  · rfl
  · rename_i h; rw [skipWs_nonws' c0 t (by simpa using h)]

theorem rvOuter_deep (ctx : Ctx) {RV RV' : RVT} {RS RS' : RST} {RM RM' : RMT} {RN RN' RT RT' RMe RMe' : R4T}
    (d : Nat) (dm : Bool) (st : St)
    (hd : Tables.maxNestingDepth ≤ d)
    (hT : skipWs st.rest = [0x23] →
      ∀ start, RT' d dm start { rest := [], calls := st.calls } = RT d dm start { rest := [], calls := st.calls }) :
    rvOuter ctx RV' RS' RM' RN' RT' RMe' d dm st = rvOuter ctx RV RS RM RN RT RMe d dm st := by
  unfold rvOuter
  cases hs : st.rest with
  | nil => rfl
  | cons c0 t =>
    simp only []
    rw [hs] at hT
    rw [preWs_eq_skipWs]
    cases hw : skipWs (c0 :: t) with
    | nil => rfl
    | cons c cs =>
      simp only []
      apply rvStep_deep ctx d dm st.calls c cs hd
      intro hcs hc
      apply hT
      rw [hw, hcs, hc]

end Edn.Proofs
