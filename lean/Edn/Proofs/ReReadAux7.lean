/-
  Edn.Proofs.ReReadAux7 — the header of a value that was read successfully starts where the
  form itself starts: reading again from that position (i.e. without the blanks, comments
  and discarded forms in front of the form) gives the same answer.
-/
import Edn.Proofs.Ranges
import Edn.Proofs.Trivia

namespace Edn.Proofs
open Edn.Model Edn.Spec
open Edn.Generated

/-! ## the whitespace skipper: its result is a suffix on which it is the identity -/

theorem skipWsScalarAux_suffix_sk : ∀ (s : Bytes) (b : Bool), skipWsScalarAux b s <:+ s := by
  intro s
  induction s with
  | nil => intro b; cases b <;> exact List.suffix_refl _
  | cons c cs ih =>
    intro b
    have h1 := (ih true).trans (List.suffix_cons c cs)
    have h2 := (ih false).trans (List.suffix_cons c cs)
    cases b with
    | true =>
      rw [skipWsScalarAux]
      split
      · exact h2
      · exact h1
    | false =>
      rw [skipWsScalarAux]
      split
      · exact h1
      · split
        · exact h2
        · exact List.suffix_refl _

theorem skipWs_suffix_sk (s : Bytes) : skipWs s <:+ s := by
  rw [skipWs_eq]; exact skipWsScalarAux_suffix_sk s false

/-- the first byte of what the skipper returns is neither whitespace nor `;` -/
theorem skipWsScalarAux_head_sk : ∀ (s : Bytes) (b : Bool) (c : UInt8) (cs : Bytes),
    skipWsScalarAux b s = c :: cs → (c == 0x3B) = false ∧ isWs c = false := by
  intro s
  induction s with
  | nil => intro b c cs h; cases b <;> simp [skipWsScalarAux] at h
  | cons a t ih =>
    intro b c cs h
    cases b with
    | true =>
      rw [skipWsScalarAux] at h
      split at h
      · exact ih _ _ _ h
      · exact ih _ _ _ h
    | false =>
      rw [skipWsScalarAux] at h
      split at h
      · exact ih _ _ _ h
      · rename_i h1
        split at h
        · exact ih _ _ _ h
        · rename_i h2
          cases h
          exact ⟨by simpa using h1, by simpa using h2⟩

theorem skipWs_head_sk (s : Bytes) (c : UInt8) (cs : Bytes) (h : skipWs s = c :: cs) : isPreWs c = false := by
  rw [skipWs_eq] at h
  obtain ⟨h1, h2⟩ := skipWsScalarAux_head_sk s false c cs h
  rw [isPreWs_iff, h1, h2]; rfl

theorem skipWs_idem_sk (s : Bytes) : skipWs (skipWs s) = skipWs s := by
  cases h : skipWs s with
  | nil => rw [skipWs_eq]; rfl
  | cons c cs => exact skipWs_nonws c cs (skipWs_head_sk s c cs h)

/-- the sequence at which `readValue` dispatches is a suffix of the input … -/
theorem preSkip_suffix_sk (c0 : UInt8) (t : Bytes) :
    (if isPreWs c0 = true then skipWs (c0 :: t) else c0 :: t) <:+ c0 :: t := by
  split
  · exact skipWs_suffix_sk _
  · exact List.suffix_refl _

/-- … on which the skipping step does nothing -/
theorem preSkip_fix_sk (c0 : UInt8) (t : Bytes) (c : UInt8) (cs : Bytes)
    (h : (if isPreWs c0 = true then skipWs (c0 :: t) else c0 :: t) = c :: cs) :
    (if isPreWs c = true then skipWs (c :: cs) else c :: cs) = c :: cs := by
  by_cases hp : isPreWs c = true
  · rw [if_pos hp]
    by_cases hp0 : isPreWs c0 = true
    · rw [if_pos hp0] at h
      have := skipWs_head_sk _ _ _ h
      rw [hp] at this; cases this
    · rw [if_neg hp0] at h
      cases h
      exact absurd hp hp0
  · rw [if_neg hp]

/-- `readValue` started exactly at the first byte of a form goes straight to the dispatch -/
theorem readValue_at_start (ctx : Ctx) (f d : Nat) (dm : Bool) (calls : List Call) (c : UInt8) (cs : Bytes)
    (h : (if isPreWs c = true then skipWs (c :: cs) else c :: cs) = c :: cs) :
    readValue ctx (f + 1) d dm { rest := c :: cs, calls := calls } =
      rvStep ctx (readValue ctx f) (readSeq ctx f) (readMap ctx f) (readNsMap ctx f) (readTagged ctx f)
        (readMeta ctx f) d dm calls c cs := by
  rw [readValue_succ]
  unfold rvOuter
  simp only []
  rw [h]

/-! ## the value a sub-reader returns starts at the `start` it was given -/

def HsS (RS : RST) : Prop :=
  ∀ d dm kind start st acc v st', RS d dm kind start st acc = .ok v st' → v.hdr.s = start
def HsM (RM : RMT) : Prop :=
  ∀ d dm start ns st ks vs v st', RM d dm start ns st ks vs = .ok v st' → v.hdr.s = start
def Hs4 (R : R4T) : Prop :=
  ∀ d dm start st v st', R d dm start st = .ok v st' → v.hdr.s = start

theorem rsStep_hs (ctx : Ctx) {RV : RVT} {RS : RST} (hS : HsS RS) : HsS (rsStep ctx RV RS) := by
  intro d dm kind start st acc v st' h
  unfold rsStep at h
  cases hr : RV (d + 1) dm st with
  | ok w st1 =>
    rw [hr] at h
    exact hS _ _ _ _ _ _ _ _ h
  | err e st1 =>
    rw [hr] at h
    simp only [] at h
    split at h <;> cases h
  | closer st1 =>
    rw [hr] at h
    simp only [] at h
    cases hs : st1.rest with
    | nil => rw [hs] at h; cases h
    | cons c r =>
      rw [hs] at h
      simp only [] at h
      repeat' split at h
      all_goals first
        | (cases h; rfl)
        | cases h

theorem rmStep_hs (ctx : Ctx) {RV : RVT} {RM : RMT} (hM : HsM RM) : HsM (rmStep ctx RV RM) := by
  intro d dm start ns st ks vs v st' h
  unfold rmStep at h
  simp only [] at h
  cases hr : RV (d + 1) dm st with
  | ok k st1 =>
    rw [hr] at h
    simp only [] at h
    cases hr2 : RV (d + 1) dm st1 with
    | ok w st2 =>
      rw [hr2] at h
      exact hM _ _ _ _ _ _ _ _ _ h
    | err e st2 =>
      rw [hr2] at h
      simp only [] at h
      split at h <;> cases h
    | closer st2 =>
      rw [hr2] at h
      cases h
  | err e st1 =>
    rw [hr] at h
    simp only [] at h
    split at h <;> cases h
  | closer st1 =>
    rw [hr] at h
    simp only [] at h
    cases hs : st1.rest with
    | nil => rw [hs] at h; cases h
    | cons c r =>
      rw [hs] at h
      simp only [] at h
      repeat' split at h
      all_goals first
        | (cases h; rfl)
        | cases h

theorem rnStep_hs (ctx : Ctx) {RV : RVT} {RM : RMT} (hM : HsM RM) : Hs4 (rnStep ctx RV RM) := by
  intro d dm start st v st' h
  unfold rnStep at h
  cases hr : RV d dm st with
  | closer st1 => rw [hr] at h; cases h
  | err e st1 => rw [hr] at h; cases h
  | ok kwv st1 =>
    rw [hr] at h
    simp only [] at h
    split at h
    · split at h
      · split at h
        · exact hM _ _ _ _ _ _ _ _ _ h
        · cases h
      · cases h
    · cases h

theorem rtStep_hs (ctx : Ctx) (hreg : ctx.opts.registry = none) {RV : RVT} : Hs4 (rtStep ctx RV) := by
  intro d dm start st v st' h
  unfold rtStep at h
  simp only [] at h
  split at h
  · cases h
  · split at h
    · cases h
    · cases hr : readIdentifier ctx st with
      | closer st1 => rw [hr] at h; cases h
      | err e st1 => rw [hr] at h; cases h
      | ok tagv st1 =>
        rw [hr] at h
        simp only [] at h
        split at h
        · cases hr2 : RV (d + 1) dm st1 with
          | closer st2 => rw [hr2] at h; cases h
          | err e st2 => rw [hr2] at h; cases h
          | ok w st2 =>
            rw [hr2] at h
            simp only [hreg] at h
            cases h
            rfl
        · cases h

theorem rmeStep_hs (ctx : Ctx) {RV : RVT} : Hs4 (rmeStep ctx RV) := by
  intro d dm start st v st' h
  unfold rmeStep at h
  simp only [] at h
  cases hr : RV (d + 1) dm st with
  | closer st1 => rw [hr] at h; cases h
  | err e st1 => rw [hr] at h; cases h
  | ok m st1 =>
    rw [hr] at h
    simp only [] at h
    split at h
    · cases h
    · cases hr2 : RV (d + 1) dm st1 with
      | closer st2 => rw [hr2] at h; cases h
      | err e st2 => rw [hr2] at h; cases h
      | ok form st2 =>
        rw [hr2] at h
        simp only [] at h
        split at h
        · cases h
        · cases h
          rw [hdr_setHdr]

theorem reader_hs (ctx : Ctx) (hreg : ctx.opts.registry = none) : ∀ (f : Nat),
    HsS (readSeq ctx f) ∧ HsM (readMap ctx f) ∧ Hs4 (readNsMap ctx f) ∧ Hs4 (readTagged ctx f) ∧
    Hs4 (readMeta ctx f) := by
  intro f
  induction f with
  | zero =>
    refine ⟨?_, ?_, ?_, ?_, ?_⟩
    · intro d dm kind start st acc v st' h; rw [readSeq_zero] at h; cases h
    · intro d dm start ns st ks vs v st' h; rw [readMap_zero] at h; cases h
    · intro d dm start st v st' h; rw [readNsMap_zero] at h; cases h
    · intro d dm start st v st' h; rw [readTagged_zero] at h; cases h
    · intro d dm start st v st' h; rw [readMeta_zero] at h; cases h
  | succ f ih =>
    obtain ⟨hS, hM, -, -, -⟩ := ih
    refine ⟨?_, ?_, ?_, ?_, ?_⟩
    · intro d dm kind start st acc v st' h; rw [readSeq_succ] at h; exact rsStep_hs ctx hS _ _ _ _ _ _ _ _ h
    · intro d dm start ns st ks vs v st' h; rw [readMap_succ] at h; exact rmStep_hs ctx hM _ _ _ _ _ _ _ _ _ h
    · intro d dm start st v st' h; rw [readNsMap_succ] at h; exact rnStep_hs ctx hM _ _ _ _ _ _ h
    · intro d dm start st v st' h; rw [readTagged_succ] at h; exact rtStep_hs ctx hreg _ _ _ _ _ _ h
    · intro d dm start st v st' h; rw [readMeta_succ] at h; exact rmeStep_hs ctx _ _ _ _ _ _ h

/-! ## the dispatch: either the value starts at the dispatch byte, or a form was discarded -/

theorem leaf_hs {st : St} {r : Res} (hl : LeafPost st r) {v : Val} {st' : St} (h : r = .ok v st') :
    v.hdr.s = st.rest.length := by
  subst h
  rw [hl.2]; rfl

theorem rvStep_hs (ctx : Ctx) {RV : RVT} {RS : RST} {RM : RMT} {RN RT RMe : R4T}
    (hS : HsS RS) (hM : HsM RM) (hN : Hs4 RN) (hT : Hs4 RT) (hMe : Hs4 RMe)
    (d : Nat) (dm : Bool) (calls : List Call) (c : UInt8) (cs : Bytes) (v : Val) (st' : St)
    (h : rvStep ctx RV RS RM RN RT RMe d dm calls c cs = .ok v st') :
    v.hdr.s = (c :: cs).length ∨
    ∃ cs' w st1, cs = 0x5F :: cs' ∧ RV (d + 1) true { rest := cs', calls := calls } = .ok w st1 ∧
      RV d dm st1 = .ok v st' := by
  unfold rvStep at h
  simp only [] at h
  have l1 := readString_leaf ctx { rest := c :: cs, calls := calls }
  have l2 := readCharacter_leaf ctx { rest := c :: cs, calls := calls }
  have l3 := readIdentifier_leaf ctx { rest := c :: cs, calls := calls }
  have l4 := readSymbolic_leaf ctx { rest := c :: cs, calls := calls }
  have l5 := readNumberRes_leaf ctx { rest := c :: cs, calls := calls }
  cases hdisp : dispatch ctx.cfg c with
  | string => rw [hdisp] at h; exact Or.inl (leaf_hs l1 h)
  | character => rw [hdisp] at h; exact Or.inl (leaf_hs l2 h)
  | listOpen =>
    rw [hdisp] at h
    simp only [] at h
    split at h
    · cases h
    · exact Or.inl (hS _ _ _ _ _ _ _ _ h)
  | vectorOpen =>
    rw [hdisp] at h
    simp only [] at h
    split at h
    · cases h
    · exact Or.inl (hS _ _ _ _ _ _ _ _ h)
  | mapOpen =>
    rw [hdisp] at h
    simp only [] at h
    split at h
    · cases h
    · exact Or.inl (hM _ _ _ _ _ _ _ _ _ h)
  | hash =>
    rw [hdisp] at h
    simp only [] at h
    cases cs with
    | nil => exact Or.inl (hT _ _ _ _ _ _ h)
    | cons nx cs' =>
      simp only [] at h
      split at h
      · exact Or.inl (leaf_hs l4 h)
      split at h
      · cases h
      split at h
      · exact Or.inl (hS _ _ _ _ _ _ _ _ h)
      split at h
      · rename_i hnx
        have hnx' : nx = 0x5F := by simpa using hnx
        subst hnx'
        cases hr : RV (d + 1) true { rest := cs', calls := calls } with
        | ok w st1 =>
          rw [hr] at h
          exact Or.inr ⟨cs', w, st1, rfl, hr, h⟩
        | closer st1 => rw [hr] at h; cases h
        | err e st1 => rw [hr] at h; cases h
      split at h
      · exact Or.inl (hN _ _ _ _ _ _ h)
      · exact Or.inl (hT _ _ _ _ _ _ h)
  | sign =>
    rw [hdisp] at h
    simp only [] at h
    cases cs with
    | nil => exact Or.inl (leaf_hs l3 h)
    | cons nx t =>
      simp only [] at h
      split at h
      · exact Or.inl (leaf_hs l5 h)
      · exact Or.inl (leaf_hs l3 h)
  | digit => rw [hdisp] at h; exact Or.inl (leaf_hs l5 h)
  | delimiter =>
    rw [hdisp] at h
    simp only [] at h
    split at h <;> cases h
  | metadata =>
    rw [hdisp] at h
    simp only [] at h
    split at h
    · cases h
    · exact Or.inl (hMe _ _ _ _ _ _ h)
  | identifier => rw [hdisp] at h; exact Or.inl (leaf_hs l3 h)

/-! ## the main result -/

theorem readValue_skip_aux (ctx : Ctx) (hreg : ctx.opts.registry = none)
    (hsuf : ∀ (f d : Nat) (dm : Bool) (st st' : St) (v : Val),
      readValue ctx f d dm st = .ok v st' → st'.rest <:+ st.rest) :
    ∀ (f d : Nat) (dm : Bool) (st st' : St) (v : Val), readValue ctx f d dm st = .ok v st' →
      ∀ s2 : Bytes, s2 <:+ st.rest → s2.length = v.hdr.s →
        readValue ctx f d dm { rest := s2, calls := st.calls } = .ok v st' := by
  intro f
  induction f with
  | zero => intro d dm st st' v h; rw [readValue_zero] at h; cases h
  | succ f ih =>
    intro d dm st st' v h s2 hs2 hlen
    have h0 := h
    rw [readValue_succ] at h
    unfold rvOuter at h
    cases hs : st.rest with
    | nil => rw [hs] at h; cases h
    | cons c0 t =>
      rw [hs] at h
      simp only [] at h
      cases hw : (if isPreWs c0 = true then skipWs (c0 :: t) else c0 :: t) with
      | nil => rw [hw] at h; cases h
      | cons c cs =>
        rw [hw] at h
        simp only [] at h
        have hsufw : c :: cs <:+ st.rest := by
          rw [hs, ← hw]; exact preSkip_suffix_sk c0 t
        have hfix := preSkip_fix_sk c0 t c cs hw
        have hstart := readValue_at_start ctx f d dm st.calls c cs hfix
        obtain ⟨hS, hM, hN, hT, hMe⟩ := reader_hs ctx hreg f
        rcases rvStep_hs ctx hS hM hN hT hMe d dm st.calls c cs v st' h with hv | ⟨cs', w, st1, hcs, hr1, hr2⟩
        · -- the value starts at the dispatch byte
          have : s2 = c :: cs :=
            (List.suffix_of_suffix_length_le hs2 hsufw (by rw [hlen, hv]; exact Nat.le_refl _)).eq_of_length
              (by rw [hlen, hv])
          rw [this, hstart]
          exact h
        · -- a discarded form, then the value
          have hcalls : st1.calls = st.calls := by
            have := (discard_mode_no_calls ctx f).1 (d + 1) { rest := cs', calls := st.calls }
            rw [hr1] at this
            exact this
          have hst1 : st1.rest <:+ st.rest := by
            have h1 : st1.rest <:+ cs' := hsuf _ _ _ _ _ _ hr1
            have h2 : cs' <:+ c :: cs := by
              rw [hcs]; exact (List.suffix_cons _ _).trans (List.suffix_cons _ _)
            exact (h1.trans h2).trans hsufw
          have hle : v.hdr.s ≤ st1.rest.length := (readValue_ranges ctx hreg _ _ _ _ _ _ hr2).2.2.2.2
          have hs21 : s2 <:+ st1.rest := List.suffix_of_suffix_length_le hs2 hst1 (by rw [hlen]; exact hle)
          have hq := ih d dm st1 st' v hr2 s2 hs21 hlen
          rw [hcalls] at hq
          have hnf : (readValue ctx f d dm { rest := s2, calls := st.calls }).isFuelOut = false := by
            rw [hq]; rfl
          rw [(reader_fuel_mono ctx f).1 d dm _ hnf]
          exact hq

/-- the header of a value that was read successfully starts where the form itself starts: reading from that position (i.e. without the blanks, comments and discarded forms in front) gives the same answer -/
theorem readValue_skip_to_start (ctx : Ctx) (hreg : ctx.opts.registry = none)
    (hsuf : ∀ (f d : Nat) (dm : Bool) (st st' : St) (v : Val),
      readValue ctx f d dm st = .ok v st' → st'.rest <:+ st.rest)
    (f d : Nat) (dm : Bool) (st st' : St) (v : Val)
    (h : readValue ctx f d dm st = .ok v st') :
    readValue ctx f d dm { rest := st.rest.drop (st.rest.length - v.hdr.s), calls := st.calls } = .ok v st' := by
  have hle : v.hdr.s ≤ st.rest.length := (readValue_ranges ctx hreg _ _ _ _ _ _ h).2.2.2.2
  refine readValue_skip_aux ctx hreg hsuf f d dm st st' v h _ (List.drop_suffix _ _) ?_
  rw [List.length_drop]
  omega

end Edn.Proofs
