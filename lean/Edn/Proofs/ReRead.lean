/-
  Edn.Proofs.ReRead — C11, re-read half: for every value the reader returns and every value
  occurring in it that has a source range, reading exactly the bytes of that range returns the
  same value again (same kinds, payloads, children and relative positions).
-/
import Edn.Spec.ReRead
import Edn.Spec.Ranges
import Edn.Proofs.Ranges

namespace Edn.Proofs
open Edn.Model Edn.Spec

/-- continuation independence: what follows a successfully read form does not influence how
    the form itself is read (positions are relative to the end, so they shift by the length
    of what followed) -/
theorem readValue_cut (ctx : Ctx) (hreg : ctx.opts.registry = none) (f d : Nat) (dm : Bool) (tok r : Bytes) (cl cl' : List Call) (v : Val)
    (h : readValue ctx f d dm { rest := tok ++ r, calls := cl } = .ok v { rest := r, calls := cl' }) :
    ∃ v', readValue ctx f d dm { rest := tok, calls := cl } = .ok v' { rest := [], calls := cl' } ∧
      shiftV r.length v' = v := by
  sorry

/-- a form read inside `d` enclosing collections is read the same at top level -/
theorem readValue_depth_mono (ctx : Ctx) (f d : Nat) (dm dm' : Bool) (hreg : ctx.opts.registry = none) (st st' : St) (v : Val)
    (h : readValue ctx f (d + 1) dm st = .ok v st') : readValue ctx f 0 dm' st = .ok v st' := by
  sorry

/-- top level: re-reading the bytes of any sub-value's range gives that sub-value again, up
    to the hash caches (which record whether somebody has asked for the hash already) -/
theorem reread_subvalue (cfg : Cfg) (opts : Opts) (hreg : opts.registry = none) (input : Bytes) (v w : Val)
    (h : (read cfg opts input).out = .value v) (hw : SubVal w v) (hs : w.hdr.synth = false) :
    ∃ w', (read cfg opts (sliceOf input w.hdr)).out = .value w' ∧
      eraseCache (shiftV w.hdr.e w') = eraseCache w := by
  sorry

end Edn.Proofs
