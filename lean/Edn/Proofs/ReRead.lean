/-
  Edn.Proofs.ReRead — C11, re-read half: for every value the reader returns and every value
  occurring in it that has a source range, reading exactly the bytes of that range returns the
  same value again (same kinds, payloads, children and relative positions).

  Organisation of the proofs:
    ReReadAux0   shared vocabulary of the cut lemmas
    ReReadAux1   algebra of the position shift `shiftV` (hashing, equality, duplicate detection,
                 key qualification and metadata merging do not see positions)
    ReReadAux2   cut lemmas: whitespace skipper, strings and text blocks, symbolic values
    ReReadAux3/4 cut lemmas: the number reader
    ReReadAux5   cut lemmas: characters, identifiers
    ReReadAux6   nesting-depth monotonicity (six-fold induction)
    ReReadAux7   reading from the start position of a value skips nothing
    ReReadAux8   continuation independence of the six reader functions (six-fold induction)
    ReReadAux9   re-readable values: vocabulary, closure properties, a freshly read value
    ReReadAux10  every value the reader returns is hereditarily re-readable (six-fold induction)
-/
import Edn.Spec.ReRead
import Edn.Spec.Ranges
import Edn.Proofs.Ranges
import Edn.Proofs.ReReadAux10

namespace Edn.Proofs
open Edn.Model Edn.Spec

/-- continuation independence: what follows a successfully read form does not influence how
    the form itself is read (positions are relative to the end, so they shift by the length
    of what followed) -/
theorem readValue_cut (ctx : Ctx) (hreg : ctx.opts.registry = none) (f d : Nat) (dm : Bool) (tok r : Bytes) (cl cl' : List Call) (v : Val)
    (h : readValue ctx f d dm { rest := tok ++ r, calls := cl } = .ok v { rest := r, calls := cl' }) :
    ∃ v', readValue ctx f d dm { rest := tok, calls := cl } = .ok v' { rest := [], calls := cl' } ∧
      shiftV r.length v' = v := by
  obtain ⟨t', v', hst, hsmall, hshift⟩ := readValue_cut_gen ctx hreg f d dm tok r cl v _ h (Nat.le_refl _)
  simp only [St.mk.injEq] at hst
  obtain ⟨hr, rfl⟩ := hst
  have ht' : t' = [] := by
    have := congrArg List.length hr
    simp only [List.length_append] at this
    exact List.eq_nil_of_length_eq_zero (by omega)
  subst ht'
  exact ⟨v', hsmall, hshift⟩

/-- a form read inside `d` enclosing collections is read the same at top level -/
theorem readValue_depth_mono (ctx : Ctx) (f d : Nat) (dm dm' : Bool) (hreg : ctx.opts.registry = none) (st st' : St) (v : Val)
    (h : readValue ctx f (d + 1) dm st = .ok v st') : readValue ctx f 0 dm' st = .ok v st' :=
  readValue_depth_mono' ctx f d dm dm' hreg st st' v h

/-- an `.ok` answer is the answer for every sufficient fuel -/
theorem readValue_ok_fuel (ctx : Ctx) (f f' d : Nat) (dm : Bool) (st st' : St) (v : Val)
    (h : readValue ctx f d dm st = .ok v st') (hf : 2 * st.rest.length + 2 ≤ f') :
    readValue ctx f' d dm st = .ok v st' := by
  rcases Nat.le_total f f' with hle | hle
  · rw [readValue_fuel_le ctx f f' d dm st hle (by rw [h]; rfl)]; exact h
  · rw [← readValue_fuel_le ctx f' f d dm st hle ((reader_fuel_sufficient ctx f').1 d dm st hf)]; exact h

/-- top level: re-reading the bytes of any sub-value's range gives that sub-value again, up
    to the hash caches (which record whether somebody has asked for the hash already) -/
theorem reread_subvalue (cfg : Cfg) (opts : Opts) (hreg : opts.registry = none) (input : Bytes) (v w : Val)
    (h : (read cfg opts input).out = .value v) (hw : SubVal w v) (hs : w.hdr.synth = false) :
    ∃ w', (read cfg opts (sliceOf input w.hdr)).out = .value w' ∧
      eraseCache (shiftV w.hdr.e w') = eraseCache w := by
  unfold Edn.Model.read at h
  simp only [] at h
  cases hr : readValue { cfg := cfg, opts := opts } (readFuel input) 0 false { rest := input } with
  | closer st => rw [hr] at h; cases h
  | err e st =>
    rw [hr] at h
    simp only [] at h
    repeat' split at h
    all_goals cases h
  | ok v0 st =>
    rw [hr] at h
    simp only [Outcome.value.injEq] at h
    subst h
    have hall := (reader_hrr { cfg := cfg, opts := opts } hreg input (readFuel input)).1 0 false
      { rest := input } v0 st (List.suffix_refl _) rfl hr
    obtain ⟨f, w', h1, h2⟩ := hall w hw hs
    refine ⟨w', ?_, h2⟩
    have h3 := readValue_ok_fuel { cfg := cfg, opts := opts } f (readFuel (sliceOf input w.hdr)) 0 false _ _ _ h1
      (by simp only [readFuel]; omega)
    unfold Edn.Model.read
    simp only []
    rw [h3]

end Edn.Proofs
