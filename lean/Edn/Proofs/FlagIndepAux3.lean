/-
  Edn.Proofs.FlagIndepAux3 — flag independence of the value algebra (C18): structural
  equality does not read cache cells and, on payloads every configuration interprets alike
  (`flagOK`), does not depend on the configuration; `edn_value_hash` changes nothing but
  cache cells; the duplicate check gives the same verdict in every configuration.

  The proof of `eqvF_flag` goes through two simpler facts: `eqvF_erase` (equality of the
  cache-erased operands is equality of the operands, same configuration) and `eqvF_cfg`
  (same operands, `cfg` against the core configuration, under `flagOK`).
-/
import Edn.Proofs.Equal
import Edn.Proofs.FlagIndepAux0

namespace Edn.Proofs
open Edn.Model Edn.Spec

/-! ## `eraseCache` and headers, depth, lengths -/

theorem eraseCache_setHdr_hc (v : Val) (c : UInt64) :
    eraseCache (v.setHdr { v.hdr with hc := c }) = eraseCache v := by
  cases v <;> rfl

/-- `edn_value_hash` changes nothing but cache cells -/
theorem eraseCache_hashOp (cfg : Cfg) (v : Val) : eraseCache (hashOp cfg v).2 = eraseCache v := by
  rcases hashOp_snd cfg v with e | e
  · rw [e]
  · rw [e]; exact eraseCache_setHdr_hc v _

theorem eraseCacheL_cons (x : Val) (xs : List Val) :
    eraseCacheL (x :: xs) = eraseCache x :: eraseCacheL xs := rfl

theorem eraseCacheL_length : ∀ (l : List Val), (eraseCacheL l).length = l.length
  | [] => rfl
  | x :: xs => by rw [eraseCacheL_cons, List.length_cons, List.length_cons, eraseCacheL_length xs]

theorem length_eq_of_eraseCacheL {xs' xs : List Val} (h : eraseCacheL xs' = eraseCacheL xs) :
    xs'.length = xs.length := by
  rw [← eraseCacheL_length xs', ← eraseCacheL_length xs, h]

mutual
theorem depth_eraseCache : ∀ v : Val, depth (eraseCache v) = depth v
  | .list h m xs => by
    show depthL (eraseCacheL xs) + 1 = depthL xs + 1; rw [depthL_eraseCacheL xs]
  | .vec h m xs => by
    show depthL (eraseCacheL xs) + 1 = depthL xs + 1; rw [depthL_eraseCacheL xs]
  | .set h m xs => by
    show depthL (eraseCacheL xs) + 1 = depthL xs + 1; rw [depthL_eraseCacheL xs]
  | .map h m ks vs => by
    show max (depthL (eraseCacheL ks)) (depthL (eraseCacheL vs)) + 1 = max (depthL ks) (depthL vs) + 1
    rw [depthL_eraseCacheL ks, depthL_eraseCacheL vs]
  | .tagged h m t v => by
    show depth (eraseCache v) + 1 = depth v + 1; rw [depth_eraseCache v]
  | .nil .. | .bool .. | .int .. | .bigint .. | .float .. | .bigdec .. | .ratio .. | .bigratio ..
  | .char .. | .str .. | .sym .. | .kw .. | .ext .. => rfl
theorem depthL_eraseCacheL : ∀ l : List Val, depthL (eraseCacheL l) = depthL l
  | [] => rfl
  | x :: xs => by
    show max (depth (eraseCache x)) (depthL (eraseCacheL xs)) = max (depth x) (depthL xs)
    rw [depth_eraseCache x, depthL_eraseCacheL xs]
end

/-- nesting depth ignores cache cells -/
theorem depth_of_eraseCache {a a' : Val} (h : eraseCache a' = eraseCache a) : depth a' = depth a := by
  rw [← depth_eraseCache a', ← depth_eraseCache a, h]

/-! ## equality does not read cache cells -/

section erase
variable {p q : Val → Val → Bool} (hpq : ∀ x y, p (eraseCache x) (eraseCache y) = q x y)
include hpq

theorem allZip_erase : ∀ (xs ys : List Val),
    allZip p (eraseCacheL xs) (eraseCacheL ys) = allZip q xs ys := by
  intro xs
  induction xs with
  | nil => intro ys; cases ys <;> rfl
  | cons x xs ih =>
    intro ys
    cases ys with
    | nil => rfl
    | cons y ys =>
      show (p (eraseCache x) (eraseCache y) && allZip p (eraseCacheL xs) (eraseCacheL ys))
        = (q x y && allZip q xs ys)
      rw [hpq, ih]

theorem any_erase (x : Val) : ∀ (ys : List Val),
    ((eraseCacheL ys).any fun y => p (eraseCache x) y) = ys.any fun y => q x y := by
  intro ys
  induction ys with
  | nil => rfl
  | cons y ys ih =>
    rw [eraseCacheL_cons, List.any_cons, List.any_cons, hpq, ih]

theorem allAny_erase (ys : List Val) : ∀ (xs : List Val),
    ((eraseCacheL xs).all fun x => (eraseCacheL ys).any fun y => p x y)
      = xs.all fun x => ys.any fun y => q x y := by
  intro xs
  induction xs with
  | nil => rfl
  | cons x xs ih =>
    rw [eraseCacheL_cons, List.all_cons, List.all_cons, any_erase hpq x ys, ih]

theorem findKey_erase (k : Val) : ∀ (ks' vs' : List Val),
    findKey p (eraseCache k) (eraseCacheL ks') (eraseCacheL vs') = eraseCacheO (findKey q k ks' vs') := by
  intro ks'
  induction ks' with
  | nil => intro vs'; rfl
  | cons k' ks' ih =>
    intro vs'
    cases vs' with
    | nil => rfl
    | cons v' vs' =>
      show (if p (eraseCache k) (eraseCache k') = true then some (eraseCache v')
          else findKey p (eraseCache k) (eraseCacheL ks') (eraseCacheL vs'))
        = eraseCacheO (if q k k' = true then some v' else findKey q k ks' vs')
      rw [hpq, ih]
      by_cases h : q k k' = true
      · rw [if_pos h, if_pos h]; rfl
      · rw [if_neg h, if_neg h]

theorem seqBody_erase (xs ys : List Val) :
    seqBody p (eraseCacheL xs) (eraseCacheL ys) = seqBody q xs ys := by
  unfold seqBody
  rw [eraseCacheL_length, eraseCacheL_length, allZip_erase hpq]

theorem setBody_erase (xs ys : List Val) :
    setBody p (eraseCacheL xs) (eraseCacheL ys) = setBody q xs ys := by
  unfold setBody
  rw [eraseCacheL_length, eraseCacheL_length, allAny_erase hpq]

theorem mapBody_erase (ks vs ks' vs' : List Val) :
    mapBody p (eraseCacheL ks) (eraseCacheL vs) (eraseCacheL ks') (eraseCacheL vs')
      = mapBody q ks vs ks' vs' := by
  unfold mapBody
  rw [eraseCacheL_length, eraseCacheL_length]
  congr 1
  apply allZip_erase
  intro k v
  show (match findKey p (eraseCache k) (eraseCacheL ks') (eraseCacheL vs') with
        | some v' => p (eraseCache v) v' | none => false)
      = (match findKey q k ks' vs' with | some v' => q v v' | none => false)
  rw [findKey_erase hpq]
  cases findKey q k ks' vs' with
  | none => rfl
  | some v' => exact hpq v v'

theorem body_erase (cfg : Cfg) (a b : Val) :
    body cfg p (eraseCache a) (eraseCache b) = body cfg q a b := by
  cases a <;> cases b <;> try rfl
  case list.list h1 m1 xs h2 m2 ys => exact seqBody_erase hpq xs ys
  case list.vec h1 m1 xs h2 m2 ys => exact seqBody_erase hpq xs ys
  case vec.list h1 m1 xs h2 m2 ys => exact seqBody_erase hpq xs ys
  case vec.vec h1 m1 xs h2 m2 ys => exact seqBody_erase hpq xs ys
  case set.set h1 m1 xs h2 m2 ys => exact setBody_erase hpq xs ys
  case map.map h1 m1 ks vs h2 m2 ks' vs' => exact mapBody_erase hpq ks vs ks' vs'
  case tagged.tagged h1 m1 t v h2 m2 t' v' =>
    show (t == t' && p (eraseCache v) (eraseCache v')) = (t == t' && q v v')
    rw [hpq]

end erase

theorem eqvF_erase (cfg : Cfg) : ∀ (f : Nat) (a b : Val),
    eqvF cfg f (eraseCache a) (eraseCache b) = eqvF cfg f a b := by
  intro f
  induction f with
  | zero => intro a b; rfl
  | succ f ih =>
    intro a b
    rw [eqvF_succ, eqvF_succ]
    exact body_erase ih cfg a b

/-! ## `flagOK` passes to the operands and ignores headers -/

theorem flagOKL_mem (cfg : Cfg) : ∀ (xs : List Val), flagOKL cfg xs → ∀ x ∈ xs, flagOK cfg x := by
  intro xs
  induction xs with
  | nil => intro _ x h; cases h
  | cons y ys ih =>
    intro h x hx
    have h' : flagOK cfg y ∧ flagOKL cfg ys := h
    rcases List.mem_cons.mp hx with rfl | hx
    · exact h'.1
    · exact ih h'.2 x hx

theorem flagOK_child (cfg : Cfg) {a x : Val} (hw : flagOK cfg a) (h : x ∈ children a) :
    flagOK cfg x := by
  cases a <;> try (exact absurd h List.not_mem_nil)
  case list hd m xs => exact flagOKL_mem cfg xs hw x h
  case vec hd m xs => exact flagOKL_mem cfg xs hw x h
  case set hd m xs => exact flagOKL_mem cfg xs hw x h
  case map hd m ks vs =>
    have hw' : flagOKL cfg ks ∧ flagOKL cfg vs := hw
    rcases List.mem_append.mp h with h | h
    · exact flagOKL_mem cfg ks hw'.1 x h
    · exact flagOKL_mem cfg vs hw'.2 x h
  case tagged hd m t v =>
    rcases List.mem_singleton.mp h with rfl
    exact hw

theorem flagOK_setHdr (cfg : Cfg) (v : Val) (h' : Hdr) : flagOK cfg (v.setHdr h') = flagOK cfg v := by
  cases v <;> rfl

theorem flagOK_hashOp (cfg c : Cfg) (v : Val) (h : flagOK cfg v) : flagOK cfg (hashOp c v).2 := by
  rcases hashOp_snd c v with e | e
  · rw [e]; exact h
  · rw [e, flagOK_setHdr]; exact h

/-! ## on flag-independent payloads equality does not depend on the flags -/

theorem cleanDigits_noUS (cfg : Cfg) (d : Bytes) (h : 0x5F ∉ d) : cleanDigits cfg d = d := by
  unfold cleanDigits
  by_cases he : cfg.exp = true
  · rw [if_pos he]
    apply List.filter_eq_self.mpr
    intro x hx
    rw [bne_iff_ne]
    intro hx'
    exact h (hx' ▸ hx)
  · rw [if_neg he]

theorem body_cfg (cfg : Cfg) (p : Val → Val → Bool) (a b : Val)
    (ga : flagOK cfg a) (gb : flagOK cfg b) : body cfg p a b = body Cfg.core p a b := by
  cases a <;> cases b <;> try rfl
  case bigint.bigint h1 n r d h2 n' r' d' =>
    have ga' : 0x5F ∉ d := ga
    have gb' : 0x5F ∉ d' := gb
    show (r == r' && n == n' && cleanDigits cfg d == cleanDigits cfg d')
      = (r == r' && n == n' && cleanDigits Cfg.core d == cleanDigits Cfg.core d')
    rw [cleanDigits_noUS cfg d ga', cleanDigits_noUS cfg d' gb',
      cleanDigits_noUS Cfg.core d ga', cleanDigits_noUS Cfg.core d' gb']
  case bigdec.bigdec h1 n d h2 n' d' =>
    have ga' : 0x5F ∉ d := ga
    have gb' : 0x5F ∉ d' := gb
    show (n == n' && cleanDigits cfg d == cleanDigits cfg d')
      = (n == n' && cleanDigits Cfg.core d == cleanDigits Cfg.core d')
    rw [cleanDigits_noUS cfg d ga', cleanDigits_noUS cfg d' gb',
      cleanDigits_noUS Cfg.core d ga', cleanDigits_noUS Cfg.core d' gb']
  case str.str h1 d e h2 d' e' =>
    have ga' : stringContent cfg d e = stringContent Cfg.core d e := ga
    have gb' : stringContent cfg d' e' = stringContent Cfg.core d' e' := gb
    show (stringContent cfg d e == stringContent cfg d' e')
      = (stringContent Cfg.core d e == stringContent Cfg.core d' e')
    rw [ga', gb']

theorem eqvF_cfg (cfg : Cfg) : ∀ (f : Nat) (a b : Val), flagOK cfg a → flagOK cfg b →
    eqvF cfg f a b = eqvF Cfg.core f a b := by
  intro f
  induction f with
  | zero => intro a b _ _; rfl
  | succ f ih =>
    intro a b ga gb
    rw [eqvF_succ, eqvF_succ]
    rw [body_congr cfg (p := eqvF cfg f) (q := eqvF Cfg.core f) a b
      fun x hx y hy => ih x y (flagOK_child cfg ga hx) (flagOK_child cfg gb hy)]
    exact body_cfg cfg _ a b ga gb

/-- structural equality does not read cache cells, and on flag-independent payloads it does
    not depend on the flags -/
theorem eqvF_flag (cfg : Cfg) : ∀ (f : Nat) (a b a' b' : Val),
    eraseCache a' = eraseCache a → eraseCache b' = eraseCache b → flagOK cfg a → flagOK cfg b →
    eqvF cfg f a' b' = eqvF Cfg.core f a b := by
  intro f a b a' b' ha hb ga gb
  rw [← eqvF_erase cfg f a' b', ha, hb, eqvF_erase, eqvF_cfg cfg f a b ga gb]

theorem Eqv_flag (cfg : Cfg) (a b a' b' : Val)
    (ha : eraseCache a' = eraseCache a) (hb : eraseCache b' = eraseCache b)
    (ga : flagOK cfg a) (gb : flagOK cfg b) : Eqv cfg a' b' ↔ Eqv Cfg.core a b := by
  unfold Eqv
  rw [depth_of_eraseCache ha, eqvF_flag cfg (depth a + 1) a b a' b' ha hb ga gb]

/-! ## the duplicate check -/

theorem pairwiseDistinct_flag (cfg : Cfg) : ∀ (xs xs' : List Val),
    eraseCacheL xs' = eraseCacheL xs → flagOKL cfg xs →
    (pairwiseDistinct cfg xs' ↔ pairwiseDistinct Cfg.core xs) := by
  have head : ∀ (x x' : Val), eraseCache x' = eraseCache x → flagOK cfg x →
      ∀ (xs xs' : List Val), eraseCacheL xs' = eraseCacheL xs → flagOKL cfg xs →
      ((∀ y' ∈ xs', ¬ Eqv cfg x' y' ∧ ¬ Eqv cfg y' x') ↔
        (∀ y ∈ xs, ¬ Eqv Cfg.core x y ∧ ¬ Eqv Cfg.core y x)) := by
    intro x x' hx gx xs
    induction xs with
    | nil =>
      intro xs' he _
      cases xs' with
      | nil => exact ⟨fun _ y hy => absurd hy List.not_mem_nil, fun _ y hy => absurd hy List.not_mem_nil⟩
      | cons y' ys' => exact absurd (length_eq_of_eraseCacheL he) (by simp)
    | cons y ys ih =>
      intro xs' he hg
      cases xs' with
      | nil => exact absurd (length_eq_of_eraseCacheL he) (by simp)
      | cons y' ys' =>
        rw [eraseCacheL_cons, eraseCacheL_cons] at he
        have he' := List.cons.inj he
        have hg' : flagOK cfg y ∧ flagOKL cfg ys := hg
        rw [List.forall_mem_cons, List.forall_mem_cons, ih ys' he'.2 hg'.2,
          Eqv_flag cfg x y x' y' hx he'.1 gx hg'.1, Eqv_flag cfg y x y' x' he'.1 hx hg'.1 gx]
  intro xs
  induction xs with
  | nil =>
    intro xs' he _
    cases xs' with
    | nil => exact ⟨fun _ => List.Pairwise.nil, fun _ => List.Pairwise.nil⟩
    | cons y' ys' => exact absurd (length_eq_of_eraseCacheL he) (by simp)
  | cons x xs ih =>
    intro xs' he hg
    cases xs' with
    | nil => exact absurd (length_eq_of_eraseCacheL he) (by simp)
    | cons x' xs' =>
      rw [eraseCacheL_cons, eraseCacheL_cons] at he
      have he' := List.cons.inj he
      have hg' : flagOK cfg x ∧ flagOKL cfg xs := hg
      have ih' := ih xs' he'.2 hg'.2
      unfold pairwiseDistinct at ih' ⊢
      rw [List.pairwise_cons, List.pairwise_cons, ih', head x x' he'.1 hg'.1 xs xs' he'.2 hg'.2]

theorem eraseCacheL_map_hashOp (cfg : Cfg) : ∀ (xs : List Val),
    eraseCacheL (xs.map fun x => (hashOp cfg x).2) = eraseCacheL xs := by
  intro xs
  induction xs with
  | nil => rfl
  | cons x xs ih =>
    rw [List.map_cons, eraseCacheL_cons, eraseCacheL_cons, ih, eraseCache_hashOp]

theorem flagOKL_map_hashOp (cfg c : Cfg) : ∀ (xs : List Val), flagOKL cfg xs →
    flagOKL cfg (xs.map fun x => (hashOp c x).2) := by
  intro xs
  induction xs with
  | nil => intro h; exact h
  | cons x xs ih =>
    intro h
    have h' : flagOK cfg x ∧ flagOKL cfg xs := h
    exact ⟨flagOK_hashOp cfg c x h'.1, ih h'.2⟩

/-- the duplicate check gives the same verdict in every configuration, and returns the same
    elements up to cache cells -/
theorem hasDuplicates_flag (cfg : Cfg) (xs xs' : List Val)
    (he : eraseCacheL xs' = eraseCacheL xs) (hE : Elems Cfg.core xs) (hE' : Elems cfg xs')
    (hg : flagOKL cfg xs) :
    (hasDuplicates cfg xs').1 = (hasDuplicates Cfg.core xs).1 ∧
    eraseCacheL (hasDuplicates cfg xs').2 = eraseCacheL (hasDuplicates Cfg.core xs).2 ∧
    flagOKL cfg (hasDuplicates Cfg.core xs).2 := by
  have hl := length_eq_of_eraseCacheL he
  refine ⟨?_, ?_, ?_⟩
  · have e1 := (hasDuplicates_iff cfg xs' hE').1
    have e2 := (hasDuplicates_iff Cfg.core xs hE).1
    have e3 := pairwiseDistinct_flag cfg xs xs' he hg
    have e : (hasDuplicates cfg xs').1 = false ↔ (hasDuplicates Cfg.core xs).1 = false :=
      e1.trans (e3.trans e2.symm)
    cases hx : (hasDuplicates cfg xs').1 <;> cases hy : (hasDuplicates Cfg.core xs).1 <;> simp_all
  · unfold hasDuplicates
    rw [hl]
    by_cases h1 : xs.length ≤ 1
    · rw [if_pos h1, if_pos h1]; exact he
    · rw [if_neg h1, if_neg h1]
      by_cases h2 : xs.length ≤ Generated.Tables.linearThreshold
      · rw [if_pos h2, if_pos h2]; exact he
      · rw [if_neg h2, if_neg h2]
        show eraseCacheL (xs'.map fun x => (hashOp cfg x).2)
          = eraseCacheL (xs.map fun x => (hashOp Cfg.core x).2)
        rw [eraseCacheL_map_hashOp, eraseCacheL_map_hashOp, he]
  · unfold hasDuplicates
    by_cases h1 : xs.length ≤ 1
    · rw [if_pos h1]; exact hg
    · rw [if_neg h1]
      by_cases h2 : xs.length ≤ Generated.Tables.linearThreshold
      · rw [if_pos h2]; exact hg
      · rw [if_neg h2]
        exact flagOKL_map_hashOp cfg Cfg.core xs hg

end Edn.Proofs
