/-
  Edn.Proofs.CompleteIdentAux1 — the identifier scanner on a token of non-delimiter bytes
  followed by a delimiter or the end; byte facts about the dispatch table.
-/
import Edn.Spec.Renders
import Edn.Proofs.Fuel
import Edn.Proofs.Scan

namespace Edn.Proofs
open Edn.Model Edn.Spec

/-- what may follow an identifier token: the end, or a delimiter byte -/
def TermD (rest : Bytes) : Prop := rest = [] ∨ ∃ c t, rest = c :: t ∧ isDelim c = true

theorem TermStart.termD {rest : Bytes} (h : TermStart rest) : TermD rest := by
  rcases h with h | ⟨c, t, h, hc⟩
  · exact .inl h
  · refine .inr ⟨c, t, h, ?_⟩
    have := numTerm_isDelim c
    simpa [numTermIsDelim, hc] using this

/-- no `::` in the token, given whether the previous byte was a colon -/
def noCC : Bool → Bytes → Bool
  | _, [] => true
  | prev, c :: cs => !(c == 0x3A && prev) && noCC (c == 0x3A) cs

theorem noCC_of_not_infix (prev : Bool) (tok : Bytes) (h : ¬ [0x3A, 0x3A] <:+: tok)
    (hp : prev = true → tok.head? ≠ some 0x3A) : noCC prev tok = true := by
  induction tok generalizing prev with
  | nil => rfl
  | cons c cs ih =>
    rw [noCC, Bool.and_eq_true]
    constructor
    · cases prev with
      | false => simp
      | true =>
        have := hp rfl
        simp only [List.head?_cons, ne_eq, Option.some.injEq] at this
        simp [this]
    · apply ih
      · intro hh
        exact h (List.IsInfix.trans hh (List.suffix_cons c cs).isInfix)
      · intro hc hcs
        apply h
        simp only [beq_iff_eq] at hc
        cases cs with
        | nil => simp at hcs
        | cons e es =>
          simp only [List.head?_cons, Option.some.injEq] at hcs
          subst hc; subst hcs
          exact ⟨[], es, by simp⟩

theorem scanIdentRawAux_tok (tok rest : Bytes) (hr : TermD rest) :
    ∀ (i : Nat) (sl : Option Nat) (prev col : Bool),
      (∀ c ∈ tok, isDelim c = false) → noCC prev tok = true →
      scanIdentRawAux i sl prev col (tok ++ rest) =
        ⟨i + tok.length,
         match sl with
         | some k => some k
         | none => (tok.idxOf? 0x2F).map (· + i),
         col⟩ := by
  induction tok with
  | nil =>
    intro i sl prev col _ _
    rcases hr with hr | ⟨c, t, hr, hc⟩
    · subst hr
      cases sl <;> simp [scanIdentRawAux]
    · subst hr
      cases sl <;> simp [scanIdentRawAux, hc]
  | cons c cs ih =>
    intro i sl prev col hnd hcc
    rw [noCC, Bool.and_eq_true] at hcc
    have hdc : isDelim c = false := hnd c (by simp)
    rw [List.cons_append, scanIdentRawAux]
    simp only [hdc, Bool.false_eq_true, ↓reduceIte]
    rw [ih _ _ _ _ (fun x hx => hnd x (by simp [hx])) hcc.2]
    have h1 : (c == 0x3A && prev) = false := by
      have := hcc.1
      cases hh : (c == 0x3A && prev) with
      | false => rfl
      | true => simp [hh] at this
    simp only [h1, Bool.or_false, List.length_cons]
    congr 1
    · omega
    · cases sl with
      | some k => simp
      | none =>
        simp only [Option.isNone_none, Bool.and_true, List.idxOf?_cons]
        by_cases h2f : c = 0x2F
        · subst h2f; simp
        · have : (c == 0x2F) = false := by simpa using h2f
          simp only [this, Bool.false_eq_true, ↓reduceIte]
          cases List.idxOf? 0x2F cs with
          | none => simp
          | some k => simp; omega

/-- the scanner on a token followed by a delimiter or the end -/
theorem scanIdent_tok (tok rest : Bytes) (hr : TermD rest) (hnd : ∀ c ∈ tok, isDelim c = false)
    (hcc : ¬ [0x3A, 0x3A] <:+: tok) :
    scanIdent (tok ++ rest) = identSplit tok.length (tok.idxOf? 0x2F) := by
  rw [scanIdent_eq_spec]
  unfold scanIdentSpec scanIdentRaw
  rw [scanIdentRawAux_tok tok rest hr 0 none false false hnd
    (noCC_of_not_infix false tok hcc (by simp))]
  simp

/-! ### dispatch -/

theorem Disp.eq_of_beq {a b : Disp} (h : (a == b) = true) : a = b := by
  cases a <;> cases b <;> first | rfl | exact absurd h (by decide)

def identDisp (cfg : Cfg) (c : UInt8) : Bool :=
  isDelim c || c == 0x5E || is09 c || c == 0x2B || c == 0x2D || dispatch cfg c == .identifier

theorem identDisp_all (cfg : Cfg) : ∀ c, identDisp cfg c = true := by
  obtain ⟨clj, exp⟩ := cfg
  cases clj <;> cases exp <;> exact forall_u8_bool _ (by decide +kernel)

def signDisp (cfg : Cfg) (c : UInt8) : Bool :=
  !(c == 0x2B || c == 0x2D) || dispatch cfg c == .sign

theorem signDisp_all (cfg : Cfg) : ∀ c, signDisp cfg c = true := by
  obtain ⟨clj, exp⟩ := cfg
  cases clj <;> cases exp <;> exact forall_u8_bool _ (by decide +kernel)

def preWsDelim (c : UInt8) : Bool := !isPreWs c || isDelim c
theorem preWs_isDelim : ∀ c, preWsDelim c = true := forall_u8_bool _ (by decide +kernel)

def numTermNot09 (c : UInt8) : Bool := !isNumTerm c || !is09 c
theorem numTerm_not09 : ∀ c, numTermNot09 c = true := forall_u8_bool _ (by decide +kernel)

theorem is09_iff (c : UInt8) : is09 c = true ↔ (0x30 ≤ c ∧ c ≤ 0x39) := by
  simp [is09]

/-- the dispatcher routes an identifier token to the identifier reader -/
theorem readValue_identTok (ctx : Ctx) (f d : Nat) (dm : Bool) (tok rest : Bytes) (cl : List Call)
    (h : IdentTok tok) (hr : TermStart rest) :
    readValue ctx (f + 1) d dm { rest := tok ++ rest, calls := cl } =
      readIdentifier ctx { rest := tok ++ rest, calls := cl } := by
  obtain ⟨hne, hnd, _, hfirst⟩ := h
  cases tok with
  | nil => exact absurd rfl hne
  | cons c t =>
    obtain ⟨h5e, hdig, hsign⟩ := hfirst c t rfl
    have hdc : isDelim c = false := hnd c (by simp)
    have hpw : isPreWs c = false := by
      have := preWs_isDelim c
      simpa [preWsDelim, hdc] using this
    rw [readValue]
    simp only [List.cons_append, hpw, Bool.false_eq_true, ↓reduceIte]
    by_cases hs : (c == 0x2B || c == 0x2D) = true
    · have hd : dispatch ctx.cfg c = .sign := by
        have := signDisp_all ctx.cfg c
        apply Disp.eq_of_beq
        simpa [signDisp, hs] using this
      simp only [hd]
      cases t with
      | nil =>
        rcases hr with hr | ⟨e, u, hr, he⟩
        · subst hr; rfl
        · subst hr
          have := numTerm_not09 e
          have h09 : is09 e = false := by simpa [numTermNot09, he] using this
          simp only [List.nil_append, h09, Bool.false_eq_true, ↓reduceIte]
      | cons e u =>
        have h09 : is09 e = false := by
          have := hsign (by simpa using hs) e u rfl
          rw [← is09_iff] at this
          simpa using this
        simp only [List.cons_append, h09, Bool.false_eq_true, ↓reduceIte]
    · have hd : dispatch ctx.cfg c = .identifier := by
        have := identDisp_all ctx.cfg c
        have h09 : is09 c = false := by
          rw [← is09_iff] at hdig
          simpa using hdig
        simp only [Bool.or_eq_true, beq_iff_eq, not_or] at hs
        apply Disp.eq_of_beq
        simpa [identDisp, hdc, h5e, h09, hs.1, hs.2] using this
      simp only [hd]

end Edn.Proofs
