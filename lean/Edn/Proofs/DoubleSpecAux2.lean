/-
  Edn.Proofs.DoubleSpecAux2 — `parseDouble` and `decimalParts` cut into their phases
  (sign, integer digits, fraction, exponent) and compared phase by phase.
-/
import Edn.Proofs.DoubleSpecAux1

namespace Edn.Proofs.DoubleSpecAux
open Edn.Model Edn.Spec

/-- sign split of `parseDouble` -/
def pdSign (text : Bytes) : Bool × Bytes :=
  match text with
  | c :: r => if c == 0x2D then (true, r) else if c == 0x2B then (false, r) else (false, c :: r)
  | [] => (false, [])

/-- accumulators of `parseDouble` after the sign: (mantissa, digit count, exponent) -/
def pdAcc (cfg : Cfg) (s : Bytes) : Nat × Nat × Int :=
  let (m1, n1, s1) := accDigits cfg.exp 0 0 s
  let (m2, n2, fr, s2) := match s1 with
    | c :: r =>
      if c == 0x2E then
        let (m, n, r') := accDigits cfg.exp m1 n1 r
        (m, n, n - n1, r')
      else (m1, n1, 0, c :: r)
    | [] => (m1, n1, 0, [])
  let e10 : Int := -(fr : Int)
  let e10 : Int := match s2 with
    | c :: r =>
      if c == 0x65 || c == 0x45 then
        let (eneg, r1) := match r with
          | d :: r' => if d == 0x2D then (true, r') else if d == 0x2B then (false, r') else (false, d :: r')
          | [] => (false, [])
        let ev := accExp cfg.exp 0 r1
        e10 + (if eneg then -(ev : Int) else (ev : Int))
      else e10
    | [] => e10
  (m2, n2, e10)

theorem parseDouble_eq (cfg : Cfg) (text : Bytes) :
    parseDouble cfg text =
      match (if (pdAcc cfg (pdSign text).2).2.1 ≤ 15
              then parseDoubleFast (pdAcc cfg (pdSign text).2).1 (pdAcc cfg (pdSign text).2).2.2 (pdSign text).1
              else none) with
      | some r => r
      | none => strtodSpec text := by
  rfl

/-- sign split of `decimalParts` -/
def dpSign (text : Bytes) : Bool × Bytes :=
  match text with
    | 0x2D :: r => (true, r)
    | 0x2B :: r => (false, r)
    | r => (false, r)

/-- the parts of `decimalParts` after the sign: (mantissa, exponent) -/
def dpAcc (s : Bytes) : Nat × Int :=
  let (m1, _, s1) := D 0 0 s
  let (m2, fr, s2) := match s1 with
    | 0x2E :: r => let (m, n, r') := D m1 0 r; (m, n, r')
    | r => (m1, 0, r)
  let e : Int := match s2 with
    | c :: r =>
      if c == 0x65 || c == 0x45 then
        let (eneg, r1) := match r with
          | 0x2D :: r' => (true, r')
          | 0x2B :: r' => (false, r')
          | r' => (false, r')
        let (ev, _, _) := D 0 0 r1
        if eneg then -(ev : Int) else (ev : Int)
      else 0
    | [] => 0
  (m2, e - (fr : Int))

theorem decimalParts_eq0 (text : Bytes) :
    decimalParts text = ((dpSign text).1, (dpAcc (dpSign text).2).1, (dpAcc (dpSign text).2).2) := by
  rfl

theorem dpSign_eq (text : Bytes) : dpSign text = pdSign text := by
  unfold dpSign pdSign
  split
  · rfl
  · rfl
  · rename_i h1 h2
    cases text with
    | nil => rfl
    | cons c r =>
      have a : c ≠ 0x2D := fun h => h1 r (by rw [h])
      have b : c ≠ 0x2B := fun h => h2 r (by rw [h])
      simp [a, b]

theorem decimalParts_eq (text : Bytes) :
    decimalParts text = ((pdSign text).1, (dpAcc (pdSign text).2).1, (dpAcc (pdSign text).2).2) := by
  rw [decimalParts_eq0, dpSign_eq]

theorem pdSign_mem (text : Bytes) (x : UInt8) : x ∈ (pdSign text).2 → x ∈ text := by
  unfold pdSign
  split
  · split
    · exact List.mem_cons_of_mem _
    · split
      · exact List.mem_cons_of_mem _
      · exact id
  · exact id

/-! ## fraction phase -/

def pdFrac (e : Bool) (m1 n1 : Nat) (s1 : Bytes) : Nat × Nat × Nat × Bytes :=
  match s1 with
  | c :: r =>
    if c == 0x2E then
      ((accDigits e m1 n1 r).1, (accDigits e m1 n1 r).2.1, (accDigits e m1 n1 r).2.1 - n1,
        (accDigits e m1 n1 r).2.2)
    else (m1, n1, 0, c :: r)
  | [] => (m1, n1, 0, [])

def dpFrac (m1 : Nat) (s1 : Bytes) : Nat × Nat × Bytes :=
  match s1 with
  | 0x2E :: r => ((D m1 0 r).1, (D m1 0 r).2.1, (D m1 0 r).2.2)
  | r => (m1, 0, r)

theorem dpFrac_dot (m1 : Nat) (r : Bytes) :
    dpFrac m1 (0x2E :: r) = ((D m1 0 r).1, (D m1 0 r).2.1, (D m1 0 r).2.2) := rfl

theorem dpFrac_other (m1 : Nat) (c : UInt8) (r : Bytes) (h : c ≠ 0x2E) :
    dpFrac m1 (c :: r) = (m1, 0, c :: r) := by
  unfold dpFrac
  split
  · rename_i heq; exact absurd (List.cons.inj heq).1 h
  · rfl

theorem frac_agree (e : Bool) (m1 m1' n1 : Nat) (s1 : Bytes) (hus : e = false → (0x5F : UInt8) ∉ s1) :
    (pdFrac e m1 n1 s1).2.2.2 = (dpFrac m1' s1).2.2 ∧
    (pdFrac e m1 n1 s1).2.2.1 = (dpFrac m1' s1).2.1 ∧
    n1 ≤ (pdFrac e m1 n1 s1).2.1 ∧
    (pdFrac e m1 n1 s1).2.2.1 ≤ (pdFrac e m1 n1 s1).2.1 ∧
    ((pdFrac e m1 n1 s1).2.1 ≤ 18 → m1 = m1' → (pdFrac e m1 n1 s1).1 = (dpFrac m1' s1).1) ∧
    (∀ x, x ∈ (dpFrac m1' s1).2.2 → x ∈ s1) := by
  cases s1 with
  | nil => exact ⟨rfl, rfl, Nat.le_refl _, Nat.zero_le _, fun _ h => h, fun _ h => h⟩
  | cons c r =>
    have hus' : e = false → (0x5F : UInt8) ∉ r := fun he hm => hus he (List.mem_cons_of_mem _ hm)
    by_cases hc : c = 0x2E
    · subst hc
      rw [dpFrac_dot]
      have hp : pdFrac e m1 n1 (0x2E :: r) = ((accDigits e m1 n1 r).1, (accDigits e m1 n1 r).2.1,
          (accDigits e m1 n1 r).2.1 - n1, (accDigits e m1 n1 r).2.2) := rfl
      rw [hp]
      obtain ⟨a, b⟩ := accDigits_digs_rest e r m1 m1' n1 0 hus'
      have hm := accDigits_mono e r m1 n1
      refine ⟨a, by simp only []; omega, hm, by simp only []; omega, ?_, ?_⟩
      · intro h18 hmm
        subst hmm
        exact accDigits_digs_mant e r m1 n1 0 hus' h18
      · intro x hx; exact List.mem_cons_of_mem _ (D_rest_mem r m1' 0 x hx)
    · rw [dpFrac_other _ _ _ hc]
      have hp : pdFrac e m1 n1 (c :: r) = (m1, n1, 0, c :: r) := by
        unfold pdFrac
        have : (c == 0x2E) = false := by simpa using hc
        simp only [this, Bool.false_eq_true, if_false]
      rw [hp]
      exact ⟨rfl, rfl, Nat.le_refl _, Nat.zero_le _, fun _ h => h, fun _ h => h⟩

/-! ## exponent phase -/

def pdExp (e : Bool) (s2 : Bytes) : Int :=
  match s2 with
  | c :: r =>
    if c == 0x65 || c == 0x45 then
      let p : Bool × Bytes := pdSign r
      if p.1 then -(accExp e 0 p.2 : Int) else (accExp e 0 p.2 : Int)
    else 0
  | [] => 0

def dpExp (s2 : Bytes) : Int :=
  match s2 with
  | c :: r =>
    if c == 0x65 || c == 0x45 then
      let p : Bool × Bytes := dpSign r
      if p.1 then -((D 0 0 p.2).1 : Int) else ((D 0 0 p.2).1 : Int)
    else 0
  | [] => 0

theorem exp_agree (e : Bool) (s2 : Bytes) (hus : e = false → (0x5F : UInt8) ∉ s2) :
    pdExp e s2 = dpExp s2 ∨ pdExp e s2 ≥ 1000 ∨ pdExp e s2 ≤ -1000 := by
  cases s2 with
  | nil => exact Or.inl rfl
  | cons c r =>
    have hus' : e = false → (0x5F : UInt8) ∉ r := fun he hm => hus he (List.mem_cons_of_mem _ hm)
    unfold pdExp dpExp
    by_cases hc : (c == 0x65 || c == 0x45) = true
    · simp only [hc, if_true]
      rw [dpSign_eq]
      have hus'' : e = false → (0x5F : UInt8) ∉ (pdSign r).2 :=
        fun he hm => hus' he (pdSign_mem r _ hm)
      have h := accExp_digs e (pdSign r).2 0 0 hus'' (by decide)
      rw [h]
      by_cases hle : (D 0 0 (pdSign r).2).1 ≤ 1000
      · rw [Nat.min_eq_left hle]; exact Or.inl rfl
      · rw [Nat.min_eq_right (by omega)]
        cases (pdSign r).1
        · right; left; simp
        · right; right; simp
    · have hc' : (c == 0x65 || c == 0x45) = false := by simpa using hc
      simp only [hc', Bool.false_eq_true, if_false]
      exact Or.inl trivial

/-! ## the two functions in phases -/

theorem pdAcc_eq (cfg : Cfg) (s : Bytes) :
    pdAcc cfg s =
      ((pdFrac cfg.exp (accDigits cfg.exp 0 0 s).1 (accDigits cfg.exp 0 0 s).2.1 (accDigits cfg.exp 0 0 s).2.2).1,
       (pdFrac cfg.exp (accDigits cfg.exp 0 0 s).1 (accDigits cfg.exp 0 0 s).2.1 (accDigits cfg.exp 0 0 s).2.2).2.1,
       -((pdFrac cfg.exp (accDigits cfg.exp 0 0 s).1 (accDigits cfg.exp 0 0 s).2.1 (accDigits cfg.exp 0 0 s).2.2).2.2.1 : Int)
        + pdExp cfg.exp (pdFrac cfg.exp (accDigits cfg.exp 0 0 s).1 (accDigits cfg.exp 0 0 s).2.1 (accDigits cfg.exp 0 0 s).2.2).2.2.2) := by
  unfold pdAcc
  generalize accDigits cfg.exp 0 0 s = r1
  obtain ⟨m1, n1, s1⟩ := r1
  simp only []
  cases s1 with
  | nil => simp [pdFrac, pdExp]
  | cons c r =>
    by_cases hc : c = 0x2E
    · subst hc
      simp only [pdFrac, beq_self_eq_true, if_true]
      generalize accDigits cfg.exp m1 n1 r = r2
      obtain ⟨m2, n2, s2⟩ := r2
      simp only []
      cases s2 with
      | nil => simp [pdExp]
      | cons c r =>
        by_cases hc : (c == 0x65 || c == 0x45) = true
        · simp only [hc, if_true, pdExp]; rfl
        · have hc' : (c == 0x65 || c == 0x45) = false := by simpa using hc
          simp only [hc', pdExp, Bool.false_eq_true, if_false, Int.add_zero]
    · have hc' : (c == 0x2E) = false := by simpa using hc
      simp only [pdFrac, hc', Bool.false_eq_true, if_false]
      by_cases hc : (c == 0x65 || c == 0x45) = true
      · simp only [hc, if_true, pdExp]; rfl
      · have hc' : (c == 0x65 || c == 0x45) = false := by simpa using hc
        simp only [hc', pdExp, Bool.false_eq_true, if_false, Int.add_zero]

theorem dpAcc_eq (s : Bytes) :
    dpAcc s =
      ((dpFrac (D 0 0 s).1 (D 0 0 s).2.2).1,
       dpExp (dpFrac (D 0 0 s).1 (D 0 0 s).2.2).2.2 - ((dpFrac (D 0 0 s).1 (D 0 0 s).2.2).2.1 : Int)) := by
  rfl

/-- with at most 15 digits the accumulators of `parseDouble` are the exact decimal parts,
    unless the exponent was clamped, in which case it is far outside the fast-path range -/
theorem acc_agree (cfg : Cfg) (s : Bytes) (hus : cfg.exp = false → (0x5F : UInt8) ∉ s)
    (h15 : (pdAcc cfg s).2.1 ≤ 15) :
    (pdAcc cfg s).1 = (dpAcc s).1 ∧
    ((pdAcc cfg s).2.2 = (dpAcc s).2 ∨ (pdAcc cfg s).2.2 < -22 ∨ (pdAcc cfg s).2.2 > 22) := by
  rw [pdAcc_eq] at h15 ⊢
  rw [dpAcc_eq]
  obtain ⟨a1, b1⟩ := accDigits_digs_rest cfg.exp s 0 0 0 0 hus
  have c1 := accDigits_digs_mant cfg.exp s 0 0 0 hus
  have hus1 : cfg.exp = false → (0x5F : UInt8) ∉ (accDigits cfg.exp 0 0 s).2.2 := by
    intro he hm; rw [a1] at hm; exact hus he (D_rest_mem s 0 0 _ hm)
  obtain ⟨a2, b2, c2, d2, e2, f2⟩ := frac_agree cfg.exp (accDigits cfg.exp 0 0 s).1 (D 0 0 s).1
    (accDigits cfg.exp 0 0 s).2.1 (accDigits cfg.exp 0 0 s).2.2 hus1
  rw [← a1]
  have hus2 : cfg.exp = false → (0x5F : UInt8) ∉
      (pdFrac cfg.exp (accDigits cfg.exp 0 0 s).1 (accDigits cfg.exp 0 0 s).2.1 (accDigits cfg.exp 0 0 s).2.2).2.2.2 := by
    intro he hm; rw [a2] at hm; exact hus1 he (f2 _ hm)
  have hx := exp_agree cfg.exp _ hus2
  generalize pdFrac cfg.exp (accDigits cfg.exp 0 0 s).1 (accDigits cfg.exp 0 0 s).2.1 (accDigits cfg.exp 0 0 s).2.2 = P
    at h15 a2 b2 c2 d2 e2 hx ⊢
  simp only [] at h15 ⊢
  refine ⟨e2 (by omega) (c1 (by omega)), ?_⟩
  rw [← a2, ← b2]
  rcases hx with hx | hx | hx
  · left; rw [hx]; omega
  · right; right; omega
  · right; left; omega

end Edn.Proofs.DoubleSpecAux
