/-
  Edn.Proofs.NumberAuxInt — `parse_int64_from_buffer`: the three tiers (ultra-fast path,
  SWAR blocks, scalar loop with cutoff/cutlim) compute the positional value of the digit
  string and report overflow exactly when it leaves the signed 64-bit range.
-/
import Edn.Model.Number
import Edn.Proofs.Bytes
import Edn.Proofs.NumberAuxSwar

namespace Edn.Proofs.NumInt
open Edn.Proofs.NumSwar
open Edn.Model

/-! ### digit table facts -/

def dvTenOk (c : UInt8) : Bool := digitValue c 10 == (if is09 c then some (dval c) else none)
theorem dvTenOk_all : ∀ c, dvTenOk c = true := forall_u8_bool _ (by decide +kernel)

/-- the decimal digit test of the scalar loops is the digit table restricted to radix 10 -/
theorem digitValue_ten' (c : UInt8) : digitValue c 10 = if is09 c then some (dval c) else none := by
  have := dvTenOk_all c
  simpa [dvTenOk] using this

theorem digitValueRaw_underscore : digitValueRaw 0x5F = 255 := by decide +kernel

/-- an underscore is never a digit -/
theorem digitValue_underscore (r : Nat) (hr : r ≤ 36) : digitValue 0x5F r = none := by
  unfold digitValue
  simp only [digitValueRaw_underscore]
  have : ¬ (255 < r) := by omega
  simp [this]

theorem digitValue_lt {c : UInt8} {r d : Nat} (h : digitValue c r = some d) : d < r := by
  unfold digitValue at h
  simp only at h
  split at h
  · simp only [Option.some.injEq] at h; omega
  · simp at h

def dval09Ok (c : UInt8) : Bool := !is09 c || decide (dval c ≤ 9)
theorem dval09Ok_all : ∀ c, dval09Ok c = true := forall_u8_bool _ (by decide +kernel)
theorem dval_le_nine {c : UInt8} (h : is09 c = true) : dval c ≤ 9 := by
  have := dval09Ok_all c
  simpa [dval09Ok, h] using this

/-! ### the specification value -/

/-- positional value of the digits of `ds` (underscores dropped), starting from `v` -/
def accVal (radix : Nat) (v : Nat) (ds : Bytes) : Nat :=
  (ds.filter (· != 0x5F)).foldl (fun a c => a * radix + (digitValue c radix).getD 0) v

/-- every byte is a digit of the radix, or an underscore in extended mode -/
def ValidDigits (exp : Bool) (radix : Nat) (ds : Bytes) : Prop :=
  ∀ c ∈ ds, (digitValue c radix).isSome = true ∨ (exp = true ∧ c = 0x5F)

theorem accVal_nil (r v : Nat) : accVal r v [] = v := rfl

theorem accVal_cons_us (r v : Nat) (cs : Bytes) : accVal r v (0x5F :: cs) = accVal r v cs := by
  simp [accVal]

theorem accVal_cons_digit {r : Nat} (hr : r ≤ 36) (v : Nat) {c : UInt8} {d : Nat} (cs : Bytes)
    (h : digitValue c r = some d) : accVal r v (c :: cs) = accVal r (v * r + d) cs := by
  have hc : c ≠ 0x5F := by
    intro hc; subst hc; rw [digitValue_underscore r hr] at h; simp at h
  simp [accVal, hc, h]

theorem foldl_ge (r : Nat) (hr : 1 ≤ r) : ∀ (l : Bytes) (v : Nat),
    v ≤ l.foldl (fun a c => a * r + (digitValue c r).getD 0) v := by
  intro l
  induction l with
  | nil => intro v; simp
  | cons c cs ih =>
    intro v
    rw [List.foldl_cons]
    have h1 := ih (v * r + (digitValue c r).getD 0)
    have h2 : v * 1 ≤ v * r := Nat.mul_le_mul_left v hr
    omega

theorem accVal_ge (r : Nat) (hr : 1 ≤ r) (v : Nat) (ds : Bytes) : v ≤ accVal r v ds :=
  foldl_ge r hr _ v

theorem ValidDigits.tail {exp : Bool} {r : Nat} {c : UInt8} {cs : Bytes}
    (h : ValidDigits exp r (c :: cs)) : ValidDigits exp r cs :=
  fun x hx => h x (List.mem_cons_of_mem _ hx)

theorem ValidDigits.head {exp : Bool} {r : Nat} {c : UInt8} {cs : Bytes}
    (h : ValidDigits exp r (c :: cs)) : (digitValue c r).isSome = true ∨ (exp = true ∧ c = 0x5F) :=
  h c (List.mem_cons_self)

/-! ### the cutoff / cutlim test -/

theorem cutoff_test (M r v d : Nat) (hr : 0 < r) (hd : d < r) :
    (v > M / r ∨ (v = M / r ∧ d > M % r)) ↔ M < v * r + d := by
  have h := Nat.div_add_mod M r
  have hm := Nat.mod_lt M hr
  generalize M / r = q at *
  generalize M % r = m at *
  rw [Nat.mul_comm] at h
  rcases Nat.lt_trichotomy v q with hlt | heq | hgt
  · have : (v + 1) * r ≤ q * r := Nat.mul_le_mul_right r hlt
    rw [Nat.add_mul] at this
    constructor
    · intro h'; omega
    · intro h'; omega
  · subst heq
    constructor
    · intro h'; omega
    · intro h'; omega
  · have : (q + 1) * r ≤ v * r := Nat.mul_le_mul_right r hgt
    rw [Nat.add_mul] at this
    constructor
    · intro h'; omega
    · intro h'; omega

theorem cutoff_test_bool (M r v d : Nat) (hr : 0 < r) (hd : d < r) :
    (decide (v > M / r) || (v == M / r && decide (d > M % r))) = decide (M < v * r + d) := by
  have := cutoff_test M r v d hr hd
  rw [Bool.eq_iff_iff]
  simpa using this

theorem w64_of_lt {x : Nat} (h : x < 18446744073709551616) : w64 x = x := by
  unfold w64 two64
  exact Nat.mod_eq_of_lt h

/-! ### the scalar loops -/

theorem scalarDigits_spec (exp : Bool) (r M : Nat) (hr : 2 ≤ r ∧ r ≤ 36)
    (hM : M ≤ 9223372036854775808) : ∀ (ds : Bytes) (v : Nat), v ≤ M → ValidDigits exp r ds →
    scalarDigits exp r (M / r) (M % r) v ds =
      if accVal r v ds ≤ M then some (accVal r v ds) else none := by
  intro ds
  induction ds with
  | nil => intro v hv _; rw [scalarDigits]; simp [accVal_nil, hv]
  | cons c cs ih =>
    intro v hv hval
    rw [scalarDigits]
    by_cases hus : (exp && c == 0x5F) = true
    · simp only [hus, ↓reduceIte]
      have hc : c = 0x5F := by simp at hus; exact hus.2
      subst hc
      rw [accVal_cons_us]
      exact ih v hv hval.tail
    · simp only [hus, Bool.false_eq_true, ↓reduceIte]
      have hsome : (digitValue c r).isSome = true := by
        rcases hval.head with h | ⟨h1, h2⟩
        · exact h
        · exfalso; apply hus; simp [h1, h2]
      obtain ⟨d, hd⟩ := Option.isSome_iff_exists.mp hsome
      have hdr := digitValue_lt hd
      rw [accVal_cons_digit hr.2 v cs hd]
      simp only [hd]
      rw [cutoff_test_bool M r v d (by omega) hdr]
      by_cases hov : M < v * r + d
      · simp only [hov, decide_true, ↓reduceIte]
        have := accVal_ge r (by omega) (v * r + d) cs
        have hn : ¬ (accVal r (v * r + d) cs ≤ M) := by omega
        simp [hn]
      · simp only [hov, decide_false, Bool.false_eq_true, ↓reduceIte]
        rw [w64_of_lt (by omega)]
        exact ih (v * r + d) (by omega) hval.tail

theorem scalarDigits10_eq (exp : Bool) (cutoff cutlim : Nat) : ∀ (ds : Bytes) (v : Nat),
    scalarDigits10 exp cutoff cutlim v ds = scalarDigits exp 10 cutoff cutlim v ds := by
  intro ds
  induction ds with
  | nil => intro v; rw [scalarDigits10, scalarDigits]
  | cons c cs ih =>
    intro v
    rw [scalarDigits10, scalarDigits, digitValue_ten']
    by_cases hus : (exp && c == 0x5F) = true
    · simp only [hus, ↓reduceIte]; exact ih v
    · simp only [hus, Bool.false_eq_true, ↓reduceIte]
      by_cases h9 : is09 c = true
      · simp only [h9, Bool.not_true, Bool.false_eq_true, ↓reduceIte]
        rw [ih]
      · simp [h9]

/-! ### the ultra-fast path -/

theorem digitValue_of_is09 {c : UInt8} (h : is09 c = true) : digitValue c 10 = some (dval c) := by
  rw [digitValue_ten']; simp [h]

theorem is09_of_valid {exp : Bool} {c : UInt8}
    (h : (digitValue c 10).isSome = true ∨ (exp = true ∧ c = 0x5F))
    (hus : ¬ (exp && c == 0x5F) = true) : is09 c = true := by
  rcases h with h | ⟨h1, h2⟩
  · rw [digitValue_ten'] at h
    by_cases h9 : is09 c = true
    · exact h9
    · simp [h9] at h
  · exfalso; apply hus; simp [h1, h2]

theorem fastSmall_spec (exp : Bool) : ∀ (ds : Bytes) (v : Nat) (moved : Bool), ValidDigits exp 10 ds →
    fastSmall exp v moved ds = (accVal 10 v ds, moved || !ds.isEmpty) := by
  intro ds
  induction ds with
  | nil => intro v moved _; rw [fastSmall]; simp [accVal_nil]
  | cons c cs ih =>
    intro v moved hval
    rw [fastSmall]
    by_cases hus : (exp && c == 0x5F) = true
    · simp only [hus, ↓reduceIte]
      have hc : c = 0x5F := by simp at hus; exact hus.2
      subst hc
      rw [accVal_cons_us, ih v true hval.tail]
      simp
    · simp only [hus, Bool.false_eq_true, ↓reduceIte]
      have h9 := is09_of_valid hval.head hus
      simp only [h9, Bool.not_true, Bool.false_eq_true, ↓reduceIte]
      rw [accVal_cons_digit (by omega) v cs (digitValue_of_is09 h9), ih _ true hval.tail]
      simp

theorem accVal_bound (exp : Bool) : ∀ (ds : Bytes) (v : Nat), ValidDigits exp 10 ds →
    accVal 10 v ds + 1 ≤ (v + 1) * 10 ^ ds.length := by
  intro ds
  induction ds with
  | nil => intro v _; simp [accVal_nil]
  | cons c cs ih =>
    intro v hval
    have hpow : (v + 1) * 10 ^ (c :: cs).length = ((v + 1) * 10) * 10 ^ cs.length := by
      rw [List.length_cons, Nat.pow_succ, Nat.mul_assoc, Nat.mul_comm (10 ^ cs.length) 10]
    rw [hpow]
    by_cases hus : (exp && c == 0x5F) = true
    · have hc : c = 0x5F := by simp at hus; exact hus.2
      subst hc
      rw [accVal_cons_us]
      have h1 := ih v hval.tail
      have h2 : (v + 1) * 10 ^ cs.length ≤ ((v + 1) * 10) * 10 ^ cs.length :=
        Nat.mul_le_mul_right _ (by omega)
      omega
    · have h9 := is09_of_valid hval.head hus
      rw [accVal_cons_digit (by omega) v cs (digitValue_of_is09 h9)]
      have h1 := ih (v * 10 + dval c) hval.tail
      have hd := dval_le_nine h9
      have h2 : (v * 10 + dval c + 1) * 10 ^ cs.length ≤ ((v + 1) * 10) * 10 ^ cs.length :=
        Nat.mul_le_mul_right _ (by omega)
      omega

theorem accVal_small (exp : Bool) (ds : Bytes) (hval : ValidDigits exp 10 ds) (hl : ds.length ≤ 3) :
    accVal 10 0 ds ≤ 999 := by
  have h1 := accVal_bound exp ds 0 hval
  have h2 : 10 ^ ds.length ≤ 10 ^ 3 := Nat.pow_le_pow_right (by omega) hl
  omega

/-! ### the SWAR loop -/

/-- value of an eight-digit block -/
def blk8 (a b c d e f g i : UInt8) : Nat :=
  [a, b, c, d, e, f, g, i].foldl (fun x c => x * 10 + dval c) 0

theorem exists_eight (s : Bytes) (h : 8 ≤ s.length) :
    ∃ a b c d e f g i t, s = a :: b :: c :: d :: e :: f :: g :: i :: t := by
  rcases s with _ | ⟨a, _ | ⟨b, _ | ⟨c, _ | ⟨d, _ | ⟨e, _ | ⟨f, _ | ⟨g, _ | ⟨i, t⟩⟩⟩⟩⟩⟩⟩⟩
  all_goals first
    | exact ⟨a, b, c, d, e, f, g, i, t, rfl⟩
    | (simp at h; try omega)

theorem load64le_eight (a b c d e f g i : UInt8) (t : Bytes) :
    load64le (a :: b :: c :: d :: e :: f :: g :: i :: t) = load64le [a, b, c, d, e, f, g, i] := by
  simp [load64le]

theorem all09_split {a b c d e f g i : UInt8} (h : [a, b, c, d, e, f, g, i].all is09 = true) :
    is09 a = true ∧ is09 b = true ∧ is09 c = true ∧ is09 d = true ∧
    is09 e = true ∧ is09 f = true ∧ is09 g = true ∧ is09 i = true := by
  simpa [List.all_cons] using h

theorem blk8_lt {a b c d e f g i : UInt8} (h : [a, b, c, d, e, f, g, i].all is09 = true) :
    blk8 a b c d e f g i < 100000000 := by
  obtain ⟨ha, hb, hc, hd, he, hf, hg, hi⟩ := all09_split h
  have := dval_le_nine ha; have := dval_le_nine hb; have := dval_le_nine hc
  have := dval_le_nine hd; have := dval_le_nine he; have := dval_le_nine hf
  have := dval_le_nine hg; have := dval_le_nine hi
  simp only [blk8, List.foldl_cons, List.foldl_nil]
  omega

theorem accVal_block (v : Nat) {a b c d e f g i : UInt8} (t : Bytes)
    (h : [a, b, c, d, e, f, g, i].all is09 = true) :
    accVal 10 v (a :: b :: c :: d :: e :: f :: g :: i :: t) =
      accVal 10 (v * 100000000 + blk8 a b c d e f g i) t := by
  obtain ⟨ha, hb, hc, hd, he, hf, hg, hi⟩ := all09_split h
  have h36 : 10 ≤ 36 := by omega
  rw [accVal_cons_digit h36 _ _ (digitValue_of_is09 ha), accVal_cons_digit h36 _ _ (digitValue_of_is09 hb),
    accVal_cons_digit h36 _ _ (digitValue_of_is09 hc), accVal_cons_digit h36 _ _ (digitValue_of_is09 hd),
    accVal_cons_digit h36 _ _ (digitValue_of_is09 he), accVal_cons_digit h36 _ _ (digitValue_of_is09 hf),
    accVal_cons_digit h36 _ _ (digitValue_of_is09 hg), accVal_cons_digit h36 _ _ (digitValue_of_is09 hi)]
  congr 1
  simp only [blk8, List.foldl_cons, List.foldl_nil]
  omega

theorem swarLoop_zero (M v : Nat) (s : Bytes) : swarLoop M 0 v s = some (v, s) := by
  rw [swarLoop]

theorem swarLoop_block (M fuel v : Nat) {a b c d e f g i : UInt8} (t : Bytes)
    (h : [a, b, c, d, e, f, g, i].all is09 = true) :
    swarLoop M (fuel + 1) v (a :: b :: c :: d :: e :: f :: g :: i :: t) =
      if v > M / 100000000 then none
      else if w64 (v * 100000000 + blk8 a b c d e f g i) < v then none
      else if w64 (v * 100000000 + blk8 a b c d e f g i) > M then none
      else swarLoop M fuel (w64 (v * 100000000 + blk8 a b c d e f g i)) t := by
  rw [swarLoop]
  have hlen : 8 ≤ (a :: b :: c :: d :: e :: f :: g :: i :: t).length := by simp
  rw [if_pos hlen, load64le_eight]
  dsimp only
  rw [eightDigitsFast_iff' _ rfl, parseEightDigits_eq' _ rfl h]
  simp only [h, ↓reduceIte, List.drop_succ_cons, List.drop_zero]
  rfl

theorem swarLoop_stop_short (M fuel v : Nat) (s : Bytes) (h : ¬ 8 ≤ s.length) :
    swarLoop M (fuel + 1) v s = some (v, s) := by
  rw [swarLoop, if_neg h]

theorem swarLoop_stop_nondigit (M fuel v : Nat) {a b c d e f g i : UInt8} (t : Bytes)
    (h : ¬ [a, b, c, d, e, f, g, i].all is09 = true) :
    swarLoop M (fuel + 1) v (a :: b :: c :: d :: e :: f :: g :: i :: t) =
      some (v, a :: b :: c :: d :: e :: f :: g :: i :: t) := by
  rw [swarLoop]
  have hlen : 8 ≤ (a :: b :: c :: d :: e :: f :: g :: i :: t).length := by simp
  rw [if_pos hlen, load64le_eight]
  dsimp only
  rw [eightDigitsFast_iff' _ rfl]
  simp only [h, Bool.false_eq_true, ↓reduceIte]

theorem ValidDigits.drop8 {exp : Bool} {r : Nat} {a b c d e f g i : UInt8} {t : Bytes}
    (h : ValidDigits exp r (a :: b :: c :: d :: e :: f :: g :: i :: t)) : ValidDigits exp r t :=
  h.tail.tail.tail.tail.tail.tail.tail.tail

/-- the SWAR loop either detects a genuine overflow, or hands the scalar loop an in-range
    accumulator and a suffix that together still denote the same value -/
theorem swarLoop_spec (exp : Bool) (M : Nat) (hM : M ≤ 9223372036854775808) :
    ∀ (fuel v : Nat) (s : Bytes), v ≤ M → ValidDigits exp 10 s →
      match swarLoop M fuel v s with
      | none => M < accVal 10 v s
      | some (v', rest) => v' ≤ M ∧ ValidDigits exp 10 rest ∧ accVal 10 v' rest = accVal 10 v s := by
  intro fuel
  induction fuel with
  | zero => intro v s hv hval; rw [swarLoop_zero]; exact ⟨hv, hval, rfl⟩
  | succ fuel ih =>
    intro v s hv hval
    by_cases h8 : 8 ≤ s.length
    · obtain ⟨a, b, c, d, e, f, g, i, t, rfl⟩ := exists_eight s h8
      by_cases h9 : [a, b, c, d, e, f, g, i].all is09 = true
      · rw [swarLoop_block M fuel v t h9, accVal_block v t h9]
        have hb := blk8_lt h9
        have hge := accVal_ge 10 (by omega) (v * 100000000 + blk8 a b c d e f g i) t
        by_cases hcut : v > M / 100000000
        · rw [if_pos hcut]
          show M < _
          omega
        · rw [if_neg hcut, w64_of_lt (by omega)]
          rw [if_neg (by omega)]
          by_cases hov : v * 100000000 + blk8 a b c d e f g i > M
          · rw [if_pos hov]
            show M < _
            omega
          · rw [if_neg hov]
            exact ih _ t (by omega) hval.drop8
      · rw [swarLoop_stop_nondigit M fuel v t h9]; exact ⟨hv, hval, rfl⟩
    · rw [swarLoop_stop_short M fuel v s h8]; exact ⟨hv, hval, rfl⟩

/-! ### assembly -/

/-- value computed by the general (non-small) decimal tiers -/
theorem general_value_ten (exp : Bool) (M : Nat) (hM : M ≤ 9223372036854775808) (ds : Bytes)
    (hval : ValidDigits exp 10 ds) :
    (swarLoop M (ds.length + 1) 0 ds = none ∧ ¬ accVal 10 0 ds ≤ M) ∨
    (∃ v rest, swarLoop M (ds.length + 1) 0 ds = some (v, rest) ∧
      scalarDigits10 exp (M / 10) (M % 10) v rest =
        if accVal 10 0 ds ≤ M then some (accVal 10 0 ds) else none) := by
  have h := swarLoop_spec exp M hM (ds.length + 1) 0 ds (Nat.zero_le _) hval
  cases hsw : swarLoop M (ds.length + 1) 0 ds with
  | none =>
    rw [hsw] at h
    left
    exact ⟨rfl, by simp only at h; omega⟩
  | some p =>
    obtain ⟨v', rest⟩ := p
    rw [hsw] at h
    obtain ⟨h1, h2, h3⟩ := h
    right
    refine ⟨v', rest, rfl, ?_⟩
    rw [scalarDigits10_eq, scalarDigits_spec exp 10 M (by omega) hM rest v' h1 h2, h3]

/-- the signed 64-bit range test -/
def inRange' (neg : Bool) (v : Nat) : Option Int :=
  if neg then (if v ≤ 9223372036854775808 then some (-(v : Int)) else none)
  else (if v ≤ 9223372036854775807 then some (v : Int) else none)

theorem parseInt64_spec' (cfg : Cfg) (radix : Nat) (hr : 2 ≤ radix ∧ radix ≤ 36) (ds : Bytes) (neg : Bool)
    (hvalid : ∀ c ∈ ds, (digitValue c radix).isSome = true ∨ (cfg.exp = true ∧ c = 0x5F))
    (hne : ∃ c ∈ ds, (digitValue c radix).isSome = true) :
    parseInt64 cfg ds radix neg =
      inRange' neg ((ds.filter (· != 0x5F)).foldl (fun a c => a * radix + (digitValue c radix).getD 0) 0) := by
  have hval : ValidDigits cfg.exp radix ds := hvalid
  show parseInt64 cfg ds radix neg = inRange' neg (accVal radix 0 ds)
  have hne' : ds.isEmpty = false := by
    obtain ⟨c, hc, _⟩ := hne
    cases ds with
    | nil => simp at hc
    | cons _ _ => rfl
  unfold parseInt64
  by_cases h10 : radix = 10
  · subst h10
    by_cases hl : ds.length ≤ 3
    · have hs := accVal_small cfg.exp ds hval hl
      simp only [beq_self_eq_true, hl, decide_true, Bool.and_self, ↓reduceIte,
        fastSmall_spec cfg.exp ds 0 false hval, hne', Bool.not_false, Bool.or_true]
      cases neg
      · have : accVal 10 0 ds ≤ 9223372036854775807 := by omega
        simp [inRange', this]
      · have : accVal 10 0 ds ≤ 9223372036854775808 := by omega
        simp [inRange', this]
    · simp only [beq_self_eq_true, hl, decide_false, Bool.and_false, Bool.false_eq_true, ↓reduceIte]
      cases neg
      · simp only [Bool.false_eq_true, ↓reduceIte]
        rcases general_value_ten cfg.exp 9223372036854775807 (by omega) ds hval with
          ⟨h1, h2⟩ | ⟨v, rest, h1, h2⟩
        · rw [h1]; simp [inRange', h2]
        · rw [h1]; simp only; rw [h2]
          by_cases hle : accVal 10 0 ds ≤ 9223372036854775807
          · simp [inRange', hle]
          · simp [inRange', hle]
      · simp only [↓reduceIte]
        rcases general_value_ten cfg.exp 9223372036854775808 (by omega) ds hval with
          ⟨h1, h2⟩ | ⟨v, rest, h1, h2⟩
        · rw [h1]; simp [inRange', h2]
        · rw [h1]; simp only; rw [h2]
          by_cases hle : accVal 10 0 ds ≤ 9223372036854775808
          · simp [inRange', hle]
          · simp [inRange', hle]
  · have hb : (radix == 10) = false := by simpa using h10
    simp only [hb, Bool.false_and, Bool.false_eq_true, ↓reduceIte]
    cases neg
    · simp only [Bool.false_eq_true, ↓reduceIte]
      rw [scalarDigits_spec cfg.exp radix _ hr (by omega) ds 0 (Nat.zero_le _) hval]
      by_cases hle : accVal radix 0 ds ≤ 9223372036854775807
      · simp [inRange', hle]
      · simp [inRange', hle]
    · simp only [↓reduceIte]
      rw [scalarDigits_spec cfg.exp radix _ hr (by omega) ds 0 (Nat.zero_le _) hval]
      by_cases hle : accVal radix 0 ds ≤ 9223372036854775808
      · simp [inRange', hle]
      · simp [inRange', hle]

end Edn.Proofs.NumInt
