/-
  Edn.Proofs.CharSoundAux2 — helper lemmas for Edn.Proofs.CharSound: the code-point part
  of `readCharacter` on every spelling of the grammar `CharTokX` followed by a delimiter
  (completeness).
-/
import Edn.Proofs.CharSoundAux1

namespace Edn.Proofs
open Edn.Model Edn.Spec

/-! ### what a delimiter excludes -/

def delimFacts (c : UInt8) : Bool :=
  !isDelim c || (!is09 c && !(hexDigit? c).isSome && !isOct c && c != 0x38 && c != 0x39 &&
    c != 0x65 && c != 0x70 && c != 0x61 && c != 0x6F)

theorem delimFacts_all : ∀ c, delimFacts c = true := forall_u8_bool _ (by decide +kernel)

structure DelimByte (c : UInt8) : Prop where
  not09 : is09 c = false
  notHex : hexDigit? c = none
  notOct : isOct c = false
  ne8 : (c == 0x38) = false
  ne9 : (c == 0x39) = false
  ne_e : ((0x65 : UInt8) == c) = false
  ne_p : ((0x70 : UInt8) == c) = false
  ne_a : ((0x61 : UInt8) == c) = false
  ne_o : ((0x6F : UInt8) == c) = false

theorem delimByte {c : UInt8} (h : isDelim c = true) : DelimByte c := by
  have := delimFacts_all c
  simp only [delimFacts, h, Bool.not_true, Bool.false_or, Bool.and_eq_true, bne_iff_ne, ne_eq,
    Bool.not_eq_true', Option.isSome_eq_false_iff, Option.isNone_iff_eq_none] at this
  obtain ⟨⟨⟨⟨⟨⟨⟨⟨h1, h2⟩, h3⟩, h4⟩, h5⟩, h6⟩, h7⟩, h8⟩, h9⟩ := this
  refine ⟨h1, h2, h3, by simpa using h4, by simpa using h5, ?_, ?_, ?_, ?_⟩
  · simpa using fun e : (0x65 : UInt8) = c => h6 e.symm
  · simpa using fun e : (0x70 : UInt8) = c => h7 e.symm
  · simpa using fun e : (0x61 : UInt8) = c => h8 e.symm
  · simpa using fun e : (0x6F : UInt8) = c => h9 e.symm

theorem delim_ok {rest : Bytes} (h : DelimStart rest) : (!rest.isEmpty && !isDelim (peek rest)) = false := by
  rcases h with rfl | ⟨c, t, rfl, hc⟩
  · rfl
  · simp [peek, hc]

theorem delim_hexMore {rest : Bytes} (h : DelimStart rest) (k v : Nat) : hexMore k v rest = (v, rest) := by
  cases k with
  | zero => rfl
  | succ k =>
    rcases h with rfl | ⟨c, t, rfl, hc⟩
    · rfl
    · simp only [hexMore, (delimByte hc).notHex]

/-- a name continuing with a letter does not match at a delimiter -/
theorem delim_not_prefix {rest : Bytes} (h : DelimStart rest) (b : UInt8) (l : Bytes)
    (hb : ∀ c, isDelim c = true → (b == c) = false) :
    (b :: l).isPrefixOf rest = false := by
  rcases h with rfl | ⟨c, t, rfl, hc⟩
  · rfl
  · rw [List.isPrefixOf_cons_cons, hb c hc, Bool.false_and]

/-! ### octal -/

theorem octalChar_complete (ds rest : Bytes) (ho : OctDigits ds) (hr : DelimStart rest) :
    octalChar (ds ++ rest) = some (octValue ds, rest) := by
  have hv := ho.byte
  have hnv : ¬ octValue ds > 255 := by omega
  rcases octDigits_cases ho with ⟨a, rfl, ha⟩ | ⟨a, b, rfl, ha, hb, _⟩ | ⟨a, b, c, rfl, ha, hb, hc, _⟩
  · rcases hr with rfl | ⟨d, t, rfl, hd⟩
    · have : octValue [a] = (a.toNat - 48) := octValue_one a
      simp [octalChar, List.takeWhile, ha, peek, octValue] at hnv ⊢
      omega
    · have hdb := delimByte hd
      simp [octalChar, List.takeWhile, ha, hdb.notOct, peek, hdb.ne8, hdb.ne9, octValue] at hnv ⊢
      omega
  · rcases hr with rfl | ⟨d, t, rfl, hd⟩
    · simp [octalChar, List.takeWhile, ha, hb, peek, octValue] at hnv ⊢
      omega
    · have hdb := delimByte hd
      simp [octalChar, List.takeWhile, ha, hb, hdb.notOct, peek, hdb.ne8, hdb.ne9, octValue] at hnv ⊢
      omega
  · rcases hr with rfl | ⟨d, t, rfl, hd⟩
    · simp [octalChar, List.takeWhile, ha, hb, hc, peek, octValue] at hnv ⊢
      omega
    · have hdb := delimByte hd
      simp [octalChar, List.takeWhile, ha, hb, hc, peek, hdb.ne8, hdb.ne9, octValue] at hnv ⊢
      omega

/-! ### hex -/

theorem hexMore_complete : ∀ (k v : Nat) (ext rest : Bytes), ext.length ≤ k →
    (∀ d ∈ ext, (hexDigit? d).isSome = true) → DelimStart rest →
    hexMore k v (ext ++ rest) = (ext.foldl (fun a c => a * 16 + (hexDigit? c).getD 0) v, rest) := by
  intro k
  induction k with
  | zero =>
    intro v ext rest hl _ _
    have : ext = [] := List.eq_nil_of_length_eq_zero (by omega)
    subst this; rfl
  | succ k ih =>
    intro v ext rest hl hall hr
    cases ext with
    | nil => exact delim_hexMore hr _ _
    | cons e ext' =>
      have he := hall e (by simp)
      cases hd : hexDigit? e with
      | none => simp [hd] at he
      | some d =>
        rw [List.cons_append, hexMore]
        simp only [hd]
        rw [ih _ ext' rest (by simp at hl; omega) (fun x hx => hall x (List.mem_cons_of_mem _ hx)) hr]
        simp [List.foldl_cons, hd]

theorem delim_is09 {rest : Bytes} (h : DelimStart rest) : (!rest.isEmpty && is09 (peek rest)) = false := by
  rcases h with rfl | ⟨c, t, rfl, hc⟩
  · rfl
  · simp [peek, (delimByte hc).not09]

theorem delim_hex {rest : Bytes} (h : DelimStart rest) :
    (!rest.isEmpty && (hexDigit? (peek rest)).isSome) = false := by
  rcases h with rfl | ⟨c, t, rfl, hc⟩
  · rfl
  · simp [peek, (delimByte hc).notHex]

def octIs09 (c : UInt8) : Bool := !isOct c || is09 c
theorem octIs09_all : ∀ c, octIs09 c = true := forall_u8_bool _ (by decide +kernel)
theorem oct_is09 {c : UInt8} (h : isOct c = true) : is09 c = true := by
  have := octIs09_all c
  simpa [octIs09, h] using this

/-! ### names that do not match -/

theorem charNamed_head_ne (c : UInt8) (t : Bytes) (nm : String) (cp : Nat) (b : UInt8) (l : Bytes)
    (hn : strBytes nm = b :: l) (hne : (b == c) = false) : charNamed (c :: t) nm cp = none := by
  unfold charNamed startsWith
  rw [hn, List.isPrefixOf_cons_cons, hne, Bool.false_and]
  rfl

/-- `charBody` on an input whose first byte begins none of the names -/
theorem charBody_no_name (ctx : Ctx) (c : UInt8) (t : Bytes)
    (h1 : ((0x6E : UInt8) == c) = false) (h2 : ((0x72 : UInt8) == c) = false)
    (h3 : ((0x73 : UInt8) == c) = false) (h4 : ((0x74 : UInt8) == c) = false)
    (h5 : ((0x66 : UInt8) == c) = false) (h6 : ((0x62 : UInt8) == c) = false) :
    charBody ctx (c :: t) = charTail ctx (c :: t) := by
  rw [charBody_eq, charNamed_head_ne c t _ _ _ _ strBytes_newline h1,
    charNamed_head_ne c t _ _ _ _ strBytes_return h2, charNamed_head_ne c t _ _ _ _ strBytes_space h3,
    charNamed_head_ne c t _ _ _ _ strBytes_tab h4, charNamed_head_ne c t _ _ _ _ strBytes_formfeed h5,
    charNamed_head_ne c t _ _ _ _ strBytes_backspace h6]
  cases ctx.cfg.clj <;> rfl

/-! ### completeness of the code-point part -/

theorem charBody_complete (ctx : Ctx) (body rest : Bytes) (cp : Nat) (h : CharTokX ctx.cfg body cp)
    (hr : DelimStart rest) : charBody ctx (body ++ rest) = .ok (cp, rest) := by
  cases h with
  | newline =>
    show charBody ctx (strBytes "newline" ++ rest) = _
    simp [charBody, charNamed, strBytes_newline, len_newline, startsWith]
  | ret =>
    show charBody ctx (strBytes "return" ++ rest) = _
    simp [charBody, charNamed, strBytes_newline, strBytes_return, len_return, startsWith]
  | space =>
    show charBody ctx (strBytes "space" ++ rest) = _
    simp [charBody, charNamed, strBytes_newline, strBytes_return, strBytes_space, len_space, startsWith]
  | tab =>
    show charBody ctx (strBytes "tab" ++ rest) = _
    simp [charBody, charNamed, strBytes_newline, strBytes_return, strBytes_space, strBytes_tab, len_tab,
      startsWith]
  | formfeed hc =>
    show charBody ctx (strBytes "formfeed" ++ rest) = _
    simp [charBody, charNamed, strBytes_newline, strBytes_return, strBytes_space, strBytes_tab,
      strBytes_formfeed, len_formfeed, startsWith, hc]
  | backspace hc =>
    show charBody ctx (strBytes "backspace" ++ rest) = _
    simp [charBody, charNamed, strBytes_newline, strBytes_return, strBytes_space, strBytes_tab,
      strBytes_formfeed, strBytes_backspace, len_backspace, startsWith, hc]
  | octal hc ds ho =>
    obtain ⟨a, ds', rfl⟩ : ∃ a ds', ds = a :: ds' := by
      cases ds with
      | nil => have := ho.nonempty; simp at this
      | cons a ds' => exact ⟨a, ds', rfl⟩
    have ha := oct_is09 (ho.octal a (by simp))
    rw [List.cons_append, charBody_no_name ctx _ _ (by decide) (by decide) (by decide) (by decide) (by decide)
      (by decide)]
    unfold charTail
    simp only [peek, List.tail_cons, List.headD_cons, hc, beq_self_eq_true, List.cons_append,
      List.isEmpty_cons, Bool.not_false, Bool.and_self, ha, if_true]
    rw [show a :: (ds' ++ rest) = (a :: ds') ++ rest from rfl, octalChar_complete _ _ ho hr]
  | unicode ds hd hl =>
    obtain ⟨a, b, c, d, ext, rfl, hle, hex⟩ : ∃ a b c d ext, ds = a :: b :: c :: d :: ext ∧ ext.length ≤ 2 ∧
        (ext = [] ∨ ctx.cfg.exp = true) := by
      match ds, hl with
      | [a, b, c, d], _ => exact ⟨a, b, c, d, [], rfl, by simp, .inl rfl⟩
      | [a, b, c, d, e], hl =>
        refine ⟨a, b, c, d, [e], rfl, by simp, .inr ?_⟩
        rcases hl with hl | hl
        · simp at hl
        · exact hl.1
      | [a, b, c, d, e, f], hl =>
        refine ⟨a, b, c, d, [e, f], rfl, by simp, .inr ?_⟩
        rcases hl with hl | hl
        · simp at hl
        · exact hl.1
      | [], hl => simp at hl
      | [_], hl => simp at hl
      | [_, _], hl => simp at hl
      | [_, _, _], hl => simp at hl
      | _ :: _ :: _ :: _ :: _ :: _ :: _ :: _, hl => simp at hl
    have hsome : ∀ x ∈ a :: b :: c :: d :: ext, ∃ w, hexDigit? x = some w := by
      intro x hx
      have := hd x hx
      cases hq : hexDigit? x with
      | none => simp [hq] at this
      | some w => exact ⟨w, rfl⟩
    obtain ⟨w, hw⟩ := hsome a (by simp)
    obtain ⟨x, hx⟩ := hsome b (by simp)
    obtain ⟨y, hy⟩ := hsome c (by simp)
    obtain ⟨z, hz⟩ := hsome d (by simp)
    have h4 : hex4? (a :: b :: c :: d :: (ext ++ rest)) = some (((w * 16 + x) * 16 + y) * 16 + z, ext ++ rest) := by
      unfold hex4?
      simp only [hw, hx, hy, hz]
    have hext : ∀ e ∈ ext, (hexDigit? e).isSome = true := fun e he => hd e (by simp [he])
    rw [hexValue_four hw hx hy hz ext, List.cons_append,
      charBody_no_name ctx _ _ (by decide) (by decide) (by decide) (by decide) (by decide) (by decide)]
    unfold charTail
    have hne : ((0x75 : UInt8) == 0x6F) = false := by decide
    simp only [peek, List.tail_cons, List.headD_cons, hne, Bool.and_false, Bool.false_and, Bool.false_eq_true,
      if_false, beq_self_eq_true, List.cons_append, List.isEmpty_cons, Bool.not_false, Bool.true_and, hw,
      Option.isSome_some, if_true, h4]
    rcases hex with rfl | he
    · cases ctx.cfg.exp
      · rfl
      · simp only [if_true, List.nil_append, delim_hexMore hr, List.foldl_nil]
    · simp only [he, if_true, hexMore_complete 2 _ ext rest hle hext hr]
  | single c hc =>
    have e1 := delim_not_prefix hr 0x65 [0x77, 0x6C, 0x69, 0x6E, 0x65] (fun c h => (delimByte h).ne_e)
    have e2 := delim_not_prefix hr 0x65 [0x74, 0x75, 0x72, 0x6E] (fun c h => (delimByte h).ne_e)
    have e3 := delim_not_prefix hr 0x70 [0x61, 0x63, 0x65] (fun c h => (delimByte h).ne_p)
    have e4 := delim_not_prefix hr 0x61 [0x62] (fun c h => (delimByte h).ne_a)
    have e5 := delim_not_prefix hr 0x6F [0x72, 0x6D, 0x66, 0x65, 0x65, 0x64] (fun c h => (delimByte h).ne_o)
    have e6 := delim_not_prefix hr 0x61 [0x63, 0x6B, 0x73, 0x70, 0x61, 0x63, 0x65] (fun c h => (delimByte h).ne_a)
    have h9 := delim_is09 hr
    have hh := delim_hex hr
    simp only [Bool.and_eq_false_iff, Bool.not_eq_false'] at h9 hh
    simp only [charBody, charNamed, strBytes_newline, strBytes_return, strBytes_space, strBytes_tab,
      strBytes_formfeed, strBytes_backspace, startsWith, List.cons_append, List.nil_append,
      List.isPrefixOf_cons_cons, e1, e2, e3, e4, e5, e6, Bool.and_false, Bool.false_eq_true, if_false,
      Option.orElse_none, ite_self, peek_cons, List.tail_cons, hc, Bool.not_true]
    rcases h9 with h9 | h9 <;> rcases hh with hh | hh <;> simp [h9, hh]

end Edn.Proofs
