/-
  Edn.Proofs.RejectDocAux7 — C10, whole documents: a form position holding a token that is
  neither a number nor an identifier (the token-level rejection theorems, lifted through the
  dispatcher to `readValue`).
-/
import Edn.Proofs.RejectDocAux6

namespace Edn.Proofs.RejectDoc
open Edn.Model Edn.Spec Edn.Generated Edn.Proofs Edn.Proofs.Cmpl Edn.Proofs.Snd

/-! ## the identifier reader does not look at the call log -/

/-- replace the call log of a result's state -/
def withCalls (cl : List Call) : Res → Res
  | .ok v st => .ok v { st with calls := cl }
  | .closer st => .closer { st with calls := cl }
  | .err e st => .err e { st with calls := cl }

theorem readIdentifier_calls (ctx : Ctx) (s : Bytes) (cl : List Call) :
    readIdentifier ctx { rest := s, calls := cl } = withCalls cl (readIdentifier ctx { rest := s, calls := [] }) := by
  unfold readIdentifier
  simp only []
  repeat' split
  all_goals rfl

/-- what every error of the identifier reader looks like -/
theorem readIdentifier_err_shape (ctx : Ctx) (st st' : St) (e : ErrInfo) (h : readIdentifier ctx st = .err e st') :
    e.code = .invalidSyntax ∧ e.es = some st.rest.length ∧ e.fuelOut = false ∧ e.eofTop = false := by
  unfold readIdentifier at h
  simp only [] at h
  repeat' split at h
  all_goals first
    | (cases h; done)
    | (simp only [Res.err.injEq] at h; obtain ⟨rfl, -⟩ := h; exact ⟨rfl, rfl, rfl, rfl⟩)

/-- a maximal run of non-delimiter bytes that is not an identifier: the identifier reader fails
    the same way whatever the call log -/
theorem readIdentifier_rejects_uniform (ctx : Ctx) (tok rest : Bytes)
    (hne : ∀ c ∈ tok, isDelim c = false) (hr : DelimStart rest)
    (hbad : ¬ (IdentLex tok ∧ ∃ a, IdentDenotes tok a)) :
    ∃ e r, (∀ cl, readIdentifier ctx { rest := tok ++ rest, calls := cl } = .err e { rest := r, calls := cl }) ∧
      e.code = .invalidSyntax ∧ e.es = some (tok ++ rest).length ∧ e.fuelOut = false := by
  obtain ⟨e, st', h, -⟩ := readIdentifier_rejects ctx tok rest [] hne hr hbad
  obtain ⟨h1, h2, h3, -⟩ := readIdentifier_err_shape ctx _ st' e h
  refine ⟨e, st'.rest, ?_, h1, h2, h3⟩
  intro cl
  rw [readIdentifier_calls, h]
  rfl

/-! ## through the dispatcher -/

/-- a non-empty run of non-delimiter bytes that does not start like a number is handed to the
    identifier reader (`Snd.readValue_identL` without the `::` condition) -/
theorem readValue_ident_tok (ctx : Ctx) (hc : ctx.cfg = Cfg.core) (f d : Nat) (dm : Bool) (tok rest : Bytes) (cl : List Call)
    (hne : tok ≠ []) (hnd : ∀ c ∈ tok, isDelim c = false) (hs : IdentStart tok) (hr : DelimStart rest) :
    readValue ctx (f + 1) d dm { rest := tok ++ rest, calls := cl } =
      readIdentifier ctx { rest := tok ++ rest, calls := cl } := by
  cases tok with
  | nil => exact absurd rfl hne
  | cons c t =>
    obtain ⟨hdig, hsign⟩ := hs c t rfl
    have hdc : isDelim c = false := hnd c (by simp)
    have hpw : isPreWs c = false := by
      cases hp : isPreWs c with
      | false => rfl
      | true =>
        rw [isPreWs_iff] at hp
        rw [ws_delim hp] at hdc
        cases hdc
    have h09 : is09 c = false := by
      rw [← is09_iff] at hdig
      simpa using hdig
    rw [readValue_succ]
    unfold rvOuter
    simp only [List.cons_append, hpw, Bool.false_eq_true, if_false]
    unfold rvStep
    simp only [hc]
    rcases nondelim_disp hdc with hd | hd | hd
    · simp only [hd]
    · simp only [hd]
      have hsg : c = 0x2B ∨ c = 0x2D := by simpa using dispatch_sign (cfg := Cfg.core) hd
      cases t with
      | nil =>
        rcases hr with rfl | ⟨e, u, rfl, he⟩
        · rfl
        · simp only [List.nil_append, (delim_facts he).1, Bool.false_eq_true, if_false]
      | cons e u =>
        have h9 : is09 e = false := by
          have := hsign hsg e u rfl
          rw [← is09_iff] at this
          simpa using this
        simp only [List.cons_append, h9, Bool.false_eq_true, if_false]
    · rw [dispatch_digit (cfg := Cfg.core) hd] at h09
      cases h09

/-- a text that starts like a number (a digit, or a sign and a digit) is handed to the number reader -/
theorem readValue_number_tok (ctx : Ctx) (f d : Nat) (dm : Bool) (s : Bytes) (cl : List Call)
    (hstart : ∃ c t, s = c :: t ∧ (is09 c = true ∨ ((c = 0x2B ∨ c = 0x2D) ∧ ∃ nx t', t = nx :: t' ∧ is09 nx = true))) :
    readValue ctx (f + 1) d dm { rest := s, calls := cl } = readNumberRes ctx { rest := s, calls := cl } := by
  obtain ⟨c, t, rfl, hc⟩ := hstart
  have hws : isPreWs c = false := by
    rcases hc with hc | ⟨hc, _⟩
    · exact (CNum.is09_props hc).2.2.2.2.2.1
    · exact (CNum.dispatch_of_sign ctx.cfg hc).2
  rw [readValue_succ]
  unfold rvOuter
  simp only [hws, Bool.false_eq_true, ↓reduceIte]
  unfold rvStep
  rcases hc with hc | ⟨hc, nx, t', rfl, hnx⟩
  · simp only [CNum.dispatch_of_digit ctx.cfg hc]
  · simp only [(CNum.dispatch_of_sign ctx.cfg hc).1, hnx, ↓reduceIte]

/-! ## the sites -/

/-- an identifier-like token that is not an identifier: INVALID_SYNTAX, reported from the
    token's first byte -/
theorem site_bad_identifier (opts : Opts) (d : Nat) (dm : Bool) (tok rest : Bytes)
    (hne : tok ≠ []) (hnd : ∀ c ∈ tok, isDelim c = false) (hs : IdentStart tok) (hr : DelimStart rest)
    (hbad : ¬ (IdentLex tok ∧ ∃ a, IdentDenotes tok a)) :
    ∃ e r, SiteErr opts d dm (tok ++ rest) e r ∧ e.code = .invalidSyntax ∧ e.es = some (tok ++ rest).length ∧
      e.fuelOut = false := by
  obtain ⟨e, r, h, h1, h2, h3⟩ := readIdentifier_rejects_uniform (cctx opts) tok rest hnd hr hbad
  refine ⟨e, r, ?_, h1, h2, h3⟩
  intro cl f hf
  match f, hf with
  | f + 1, _ => rw [readValue_ident_tok _ rfl f d dm tok rest cl hne hnd hs hr, h cl]

/-- a number-like text no prefix of which is a number token followed by a terminator:
    INVALID_NUMBER, reported from its first byte -/
theorem site_bad_number (opts : Opts) (d : Nat) (dm : Bool) (s : Bytes)
    (hstart : ∃ c t, s = c :: t ∧ (is09 c = true ∨ ((c = 0x2B ∨ c = 0x2D) ∧ ∃ nx t', t = nx :: t' ∧ is09 nx = true)))
    (hnot : ¬ ∃ tok rest v, s = tok ++ rest ∧ CoreNum Cfg.core tok v ∧ TermStart rest) :
    ∃ cur, SiteErr opts d dm s (mkErr .invalidNumber (some s.length) (some cur.length)) cur := by
  cases h : readNumber Cfg.core s with
  | ok v rest =>
    obtain ⟨tok, h1, h2, h3⟩ := readNumber_core_sound s rest v hstart h
    exact absurd ⟨tok, rest, v, h1, h2, h3⟩ hnot
  | err cur =>
    refine ⟨cur, ?_⟩
    intro cl f hf
    match f, hf with
    | f + 1, _ =>
      rw [readValue_number_tok _ f d dm s cl hstart]
      unfold readNumberRes
      simp only [h, Ctx.pos]

end Edn.Proofs.RejectDoc
